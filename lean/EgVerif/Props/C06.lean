import EgVerif.Proofs.Signer
import EgVerif.Proofs.ValidatorIR
import EgVerif.Proofs.SignerIR
import EgVerif.Proofs.SignerCanonIR
import EgVerif.Proofs.SignerSignIR
import EgVerif.Proofs.SignerValueIR
import EgVerif.Gen.FactsC06
/-!
# C06 — the Validator admits exactly the requests with valid JWT, signature or Basic credentials

Property theorems about `Model/Validator.lean` (mirror of `Validator.Handle`, the header rules, the JWT token
source / key function, Basic credential parsing — **with the two repairs `fixes/C06-signature-body.patch` and
`fixes/C06-basic-colon.patch` applied**) and `Model/Signer.lean` (mirror of `signer.go`), for **all**
configurations, requests, keys, clocks and oracle answers. SHA-256 / HMAC are an opaque parameter
(`Signer.Crypto`); wherever collision-freeness is needed it is an explicit hypothesis of the theorem.
Helper lemmas: `Proofs/Bytes.lean`, `Proofs/Validator.lean`, `Proofs/Signer.lean`.
-/
namespace EgVerif.C06
open EgVerif.Sha256 (Bytes)
open EgVerif.Signer EgVerif.Validator


/-! ## 0. Facts regenerated from the source on every run (`harness/factextract/facts_c06.go`) -/
section Facts
open EgVerif.Gen

/-- `Validator.Handle` checks headers, JWT, signature, (OAuth2,) Basic in this order, answers 400 for the first
and 401 for the others, and only ever returns `resultInvalid = "invalid"` or `""` — the shape `handleWith` mirrors. -/
theorem facts_handle_shape :
    FactsC06.extractionFailed = false ∧
    FactsC06.handleOrder = ["headers", "jwt", "signer", "oauth2", "basicAuth"] ∧
    FactsC06.handleStatuses = ["http.StatusBadRequest", "http.StatusUnauthorized", "http.StatusUnauthorized",
      "http.StatusUnauthorized", "http.StatusUnauthorized"] ∧
    FactsC06.handleReturns = ["resultInvalid", "resultInvalid", "resultInvalid", "resultInvalid", "resultInvalid", "\"\""] ∧
    FactsC06.resultInvalid = "invalid" := by decide

/-- the two defect patterns are absent from the tree being checked: `Verify` is not handed the drained `req.Std()`
(so `handle`, not `handleDrained`, is the model), and `parseCredentials` does not split at every colon
(`parseCreds`, not `parseCredsSplitAll`). Behaviour itself is checked by the correspondence run. -/
theorem facts_repairs_present :
    FactsC06.verifyGetsDrainedStd = false ∧ FactsC06.parseCredentialsSplitsAll = false := by decide

/-- constants and default literals of `signer.go` are the ones the model uses -/
theorem facts_signer_constants :
    b FactsC06.authHeader = authHeader ∧ b FactsC06.hostHeader = hostHeader ∧
    b FactsC06.unsignedPayload = unsignedPayload ∧ b FactsC06.sha256Empty = sha256Empty ∧
    FactsC06.dateFormat = "20060102" ∧ FactsC06.timeFormat = "20060102T150405Z" ∧
    FactsC06.alwaysIgnored = ["Authorization", "User-Agent"] ∧
    b FactsC06.jwtPrefix = b "Bearer " ∧ b FactsC06.basicPrefix = b "Basic " ∧
    FactsC06.defaultLiteral.map b =
      [b "ScopeSuffix=" ++ defaultLiteral.scopeSuffix, b "AlgorithmName=" ++ defaultLiteral.algorithmName,
       b "AlgorithmValue=" ++ defaultLiteral.algorithmValue, b "SignedHeaders=" ++ defaultLiteral.signedHeaders,
       b "Signature=" ++ defaultLiteral.signature, b "Date=" ++ defaultLiteral.date, b "Expires=" ++ defaultLiteral.expires,
       b "Credential=" ++ defaultLiteral.credential, b "ContentSHA256=" ++ defaultLiteral.contentSha256,
       b "SigningKeyPrefix=" ++ defaultLiteral.signingKeyPrefix] := by decide

/-- the canonical request and the string to sign are assembled in the order `canonicalRequest` / `stringToSign`
use; `Verify` recomputes the body hash itself (`hashBody(req, true)`), reads the clock once, and fails in the
order expired → unknown key → mismatch. -/
theorem facts_signer_shape :
    FactsC06.canonicalRequestWrites = ["req.Method", "'\\n'", "buildCanonicalURI(req.URL)", "'\\n'",
      "ctx.getCanonicalQuery(req.URL)", "'\\n'", "ctx.CanonicalHeaders", "'\\n'", "ctx.SignedHeaders", "'\\n'", "ctx.BodyHash"] ∧
    FactsC06.stringToSignWrites = ["ctx.literal.AlgorithmValue", "'\\n'", "formatTime(ctx.Time)", "'\\n'",
      "ctx.scopeString", "'\\n'", "hcr"] ∧
    FactsC06.verifyErrors = ["signature expired", "signature expired", "access-key-id not found",
      "signature verification failed"] ∧
    FactsC06.verifyIgnoresBodyHashHeader = true ∧ FactsC06.verifyClockReads = 1 := by decide

end Facts

/-! ## 1. `Handle`: conjunction of the configured methods, 400 / 401 -/

/-- What "every configured method accepts the request" means. -/
structure Accepts (cfg : Validator.Cfg) (env : Env) (r : Request) : Prop where
  /-- header rules: (the first value of) every configured header is listed or matches the regexp -/
  rules : ∀ rules, cfg.headers = some rules → ∀ rule ∈ rules, ruleOK env.re r.std.headers rule = true
  /-- JWT: the presented token names the configured algorithm, verifies under the configured secret
  with that algorithm, and its claims are currently valid -/
  jwt : ∀ j, cfg.jwt = some j → ∃ t, jwtToken j env.cookie r.std.headers = some t ∧
    env.jwtLib.headerAlg t = some j.alg ∧ env.jwtLib.claimsOK t = true ∧ env.jwtLib.sigOK t j.alg j.secret = true
  /-- signature: `Verify` succeeds for the payload that will be forwarded -/
  sig : ∀ s, cfg.sig = some s → verify s env.crypto env.clock env.now r.std (some r.payload) = .ok ()
  /-- OAuth2 validator in JWT mode: the bearer token names the configured algorithm, verifies under the configured secret with
  that algorithm, and its claims are currently valid -/
  oauth2 : ∀ o, cfg.oauth2 = some o → ∃ t, hget r.std.headers authHeader = b "Bearer " ++ t ∧
    env.jwtLib.headerAlg t = some o.alg ∧ env.jwtLib.claimsOK t = true ∧ env.jwtLib.sigOK t o.alg o.secret = true
  /-- Basic: `Authorization: Basic base64(user ":" password)`, user id up to the first colon, pair configured -/
  basic : cfg.basic = true → ∃ tok u p, hget r.std.headers authHeader = b "Basic " ++ tok ∧
    Sha256.b64Decode tok = some (u ++ 58 :: p) ∧ 58 ∉ u ∧ env.users u p = true

/-- what `Accepts.rules` means without the model function (audit: "restates"): the header is present and its **first** value
is one of the listed values or matches the compiled regular expression -/
theorem header_rule_iff (re : Bytes → Bytes → Bool) (h : Header) (r : HeaderRule) :
    ruleOK re h r = true ↔ ∃ v vs, hvals h (canonKey r.key) = v :: vs ∧ (v ∈ r.values ∨ ∃ p, r.regexp = some p ∧ re p v = true) := by
  unfold ruleOK
  cases hv : hvals h (canonKey r.key) with
  | nil => simp
  | cons v vs =>
    cases hr : r.regexp with
    | none => simp
    | some p => simp

theorem jwtOK_iff (j : JwtCfg) (env : Env) (h : Header) :
    Spec.jwtOK j env h = true ↔ ∃ t, jwtToken j env.cookie h = some t ∧
      env.jwtLib.headerAlg t = some j.alg ∧ env.jwtLib.claimsOK t = true ∧ env.jwtLib.sigOK t j.alg j.secret = true := by
  unfold Spec.jwtOK
  cases jwtToken j env.cookie h with
  | none => simp
  | some t => simp [and_assoc]

theorem sigValidate_iff (s : Signer.Cfg) (env : Env) (r : Request) (body : Option Bytes) :
    sigValidate s env r body = true ↔ verify s env.crypto env.clock env.now r.std body = .ok () := by
  unfold sigValidate
  cases verify s env.crypto env.clock env.now r.std body with
  | ok u => simp
  | error e => simp

/-- **`basic_accept_iff`**: Basic authentication writes user `u` to `X-AUTH-USER` (accepts) iff the header is
`Basic ` followed by the base64 of `u:p` where `u` contains no colon and `(u, p)` is a configured pair —
for every `p`, colons included. -/
theorem basic_accept_iff (users : Bytes → Bytes → Bool) (h : Header) (u : Bytes) :
    basicValidate users h = some u ↔ ∃ tok p, hget h authHeader = b "Basic " ++ tok ∧
      Sha256.b64Decode tok = some (u ++ 58 :: p) ∧ 58 ∉ u ∧ users u p = true := by
  unfold basicValidate basicValidateWith parseBasicAuthorizationHeader
  constructor
  · intro hv
    cases hs : stripPrefix (b "Basic ") (hget h authHeader) with
    | none => simp [hs] at hv
    | some tok =>
      simp only [hs] at hv
      cases hd : Sha256.b64Decode tok with
      | none => simp [hd] at hv
      | some creds =>
        simp only [hd] at hv
        cases hp : parseCreds creds with
        | none => simp [hp] at hv
        | some up =>
          obtain ⟨u', p⟩ := up
          simp only [hp] at hv
          by_cases hm : users u' p = true
          · simp [hm] at hv
            subst hv
            have := splitFirst_eq_some.mp hp
            exact ⟨tok, p, stripPrefix_eq_some.mp hs, by rw [hd, this.1], this.2, hm⟩
          · simp [hm] at hv
  · rintro ⟨tok, p, h1, h2, h3, h4⟩
    have hp : parseCreds (u ++ 58 :: p) = some (u, p) := splitFirst_append p h3
    simp [stripPrefix_eq_some.mpr h1, h2, hp, h4]

theorem oauthOK_iff (o : JwtCfg) (env : Env) (h : Header) :
    Spec.jwtOK ⟨o.alg, o.secret, []⟩ { env with cookie := fun _ => none } h = true ↔
      ∃ t, hget h authHeader = b "Bearer " ++ t ∧
        env.jwtLib.headerAlg t = some o.alg ∧ env.jwtLib.claimsOK t = true ∧ env.jwtLib.sigOK t o.alg o.secret = true := by
  rw [jwtOK_iff]
  simp only [jwtToken, ne_eq, not_true_eq_false, if_false]
  constructor
  · rintro ⟨t, ht, rest⟩
    exact ⟨t, stripPrefix_eq_some.mp ht, rest⟩
  · rintro ⟨t, ht, rest⟩
    exact ⟨t, stripPrefix_eq_some.mpr ht, rest⟩

theorem accepts_iff (cfg : Validator.Cfg) (env : Env) (r : Request) : Spec.accepts cfg env r = true ↔ Accepts cfg env r := by
  unfold Spec.accepts Spec.rulesOK
  simp only [Bool.and_eq_true]
  constructor
  · rintro ⟨⟨⟨⟨h1, h2⟩, h3⟩, h5⟩, h4⟩
    refine ⟨?_, ?_, ?_, ?_, ?_⟩
    · intro rules e rule hr
      rw [e] at h1
      exact (List.all_eq_true.mp h1) rule hr
    · intro j e
      rw [e] at h2
      exact (jwtOK_iff j env _).mp h2
    · intro s e
      rw [e] at h3
      exact (sigValidate_iff s env r _).mp h3
    · intro o e
      rw [e] at h5
      exact (oauthOK_iff o env _).mp h5
    · intro hb
      simp only [hb, Bool.not_true, Bool.false_or] at h4
      rw [← basicValidate_eq_spec] at h4
      obtain ⟨u, hu⟩ := Option.isSome_iff_exists.mp h4
      obtain ⟨tok, p, hh⟩ := (basic_accept_iff env.users _ u).mp hu
      exact ⟨tok, u, p, hh⟩
  · intro a
    refine ⟨⟨⟨⟨?_, ?_⟩, ?_⟩, ?_⟩, ?_⟩
    · cases e : cfg.headers with
      | none => rfl
      | some rules => exact List.all_eq_true.mpr (a.rules rules e)
    · cases e : cfg.jwt with
      | none => rfl
      | some j => exact (jwtOK_iff j env _).mpr (a.jwt j e)
    · cases e : cfg.sig with
      | none => rfl
      | some s => exact (sigValidate_iff s env r _).mpr (a.sig s e)
    · cases e : cfg.oauth2 with
      | none => rfl
      | some o => exact (oauthOK_iff o env _).mpr (a.oauth2 o e)
    · cases e : cfg.basic with
      | false => rfl
      | true =>
        obtain ⟨tok, u, p, hh⟩ := a.basic e
        have := (basic_accept_iff env.users _ u).mpr ⟨tok, p, hh⟩
        rw [basicValidate_eq_spec] at this
        simp [this]

/-- **`handle_iff_all`**: `Validator.Handle` returns `""` (the request goes on) iff every configured method
accepts the request — soundness and completeness of the filter in one statement. -/
theorem handle_iff_all (cfg : Validator.Cfg) (env : Env) (r : Request) : handle cfg env r = .pass ↔ Accepts cfg env r := by
  rw [handle_eq_expected, ← accepts_iff]
  unfold Spec.expected
  by_cases h : Spec.accepts cfg env r = true
  · simp [h]
  · rw [if_neg h]
    constructor
    · intro e; split at e <;> simp at e
    · intro a; exact absurd a h

/-- **`handle_status`**: a rejected request gets result `invalid` with status 400 exactly when a header rule
fails, 401 otherwise; nothing else is ever produced. -/
theorem handle_status (cfg : Validator.Cfg) (env : Env) (r : Request) :
    handle cfg env r = .pass ∨
    (handle cfg env r = .invalid 400 ∧ Spec.rulesOK cfg env r = false) ∨
    (handle cfg env r = .invalid 401 ∧ Spec.rulesOK cfg env r = true ∧ ¬ Accepts cfg env r) := by
  rw [handle_eq_expected, ← accepts_iff]
  unfold Spec.expected
  by_cases h : Spec.accepts cfg env r = true
  · simp [h]
  · by_cases h2 : Spec.rulesOK cfg env r = true
    · simp [h, h2]
    · simp [h, h2]

/-- the header rules are checked first: a request violating one is answered 400 whatever else it carries -/
theorem headers_first (cfg : Validator.Cfg) (env : Env) (r : Request) (h : Spec.rulesOK cfg env r = false) :
    handle cfg env r = .invalid 400 := by
  rw [handle_eq_expected]
  unfold Spec.expected Spec.accepts
  simp [h]

-- non-vacuity: a configuration with all four methods, a request that is accepted / rejected
section Example
def exEnv (sigOK basicOK : Bool) : Env :=
  { re := fun _ _ => false, jwtLib := ⟨fun _ => some (b "HS256"), fun _ => true, fun _ _ _ => true⟩,
    cookie := fun _ => none, crypto := ⟨fun x => x, fun _ x => x⟩,
    clock := ⟨fun _ => [], fun _ => [], fun _ => if sigOK then some 0 else none, fun _ => some 0⟩, now := 0,
    users := fun _ _ => basicOK }
def exReq : Request :=
  { std := ⟨b "GET", b "/", [], [(b "X-Env", [b "prod"]), (b "Authorization", [b "Bearer x"])], b "a", [], [], false⟩, payload := [] }
def exCfg : Validator.Cfg := { headers := some [⟨b "x-env", [b "prod"], none⟩], jwt := some ⟨b "HS256", [], []⟩, sig := none, basic := false }
example : handle exCfg (exEnv true true) exReq = .pass := by decide
example : handle { exCfg with basic := true } (exEnv true true) exReq = .invalid 401 := by decide
example : handle { exCfg with headers := some [⟨b "x-env", [b "stage"], none⟩] } (exEnv true true) exReq = .invalid 400 := by decide
-- OAuth2 validator in JWT mode: same bearer token, configured algorithm HS256 accepted / HS512 rejected (the toy library
-- reports header alg HS256)
example : handle { exCfg with oauth2 := some ⟨b "HS256", [], []⟩ } (exEnv true true) exReq = .pass := by decide
example : handle { exCfg with oauth2 := some ⟨b "HS512", [], []⟩ } (exEnv true true) exReq = .invalid 401 := by decide
end Example

/-! ## 2. Basic credentials -/

/-- **`basic_parse_roundtrip`**: for a user id without colon, `parseCredentials(u ++ ":" ++ p)` returns exactly
`(u, p)` for **every** password `p` — colons and non-ASCII bytes included. -/
theorem basic_parse_roundtrip (u p : Bytes) (hu : 58 ∉ u) : parseCreds (u ++ 58 :: p) = some (u, p) :=
  splitFirst_append p hu

/-- completeness of Basic authentication: the standard encoding of a configured pair is accepted -/
theorem basic_complete (users : Bytes → Bytes → Bool) (h : Header) (u p : Bytes) (hu : 58 ∉ u)
    (hup : users u p = true) (hh : hget h authHeader = b "Basic " ++ Sha256.b64Encode (u ++ 58 :: p)) :
    basicValidate users h = some u :=
  (basic_accept_iff users h u).mpr ⟨_, p, hh, Sha256.b64_roundtrip _, hu, hup⟩

/-- soundness towards the password: if a request is accepted as user `u`, the bytes after the first colon
of the decoded credentials are a password configured for `u` — so changing any byte of the password of an
accepted request to a non-configured one is rejected. -/
theorem basic_password_covered (users : Bytes → Bytes → Bool) (h : Header) (u tok creds : Bytes)
    (hv : basicValidate users h = some u) (hh : hget h authHeader = b "Basic " ++ tok)
    (hd : Sha256.b64Decode tok = some creds) : ∃ p, creds = u ++ 58 :: p ∧ users u p = true := by
  obtain ⟨tok', p, h1, h2, _, h4⟩ := (basic_accept_iff users h u).mp hv
  have : tok' = tok := by
    have := h1.symm.trans hh
    exact List.append_cancel_left this
  subst this
  rw [hd] at h2
  exact ⟨p, Option.some.inj h2, h4⟩

-- the unrepaired `parseCredentials` (`strings.Split`, `parts[1]`) truncates the password at its first colon:
example : parseCredsSplitAll (b "user:pa:ss") = some (b "user", b "pa") := by decide
example : parseCreds (b "user:pa:ss") = some (b "user", b "pa:ss") := by decide
-- … so with it a valid user is rejected and `user:pa:junk` is accepted for password `pa`
example : basicValidateWith parseCredsSplitAll (fun u p => u = b "user" && p = b "pa:ss")
    [(b "Authorization", [b "Basic dXNlcjpwYTpzcw=="])] = none := by decide
example : basicValidateWith parseCredsSplitAll (fun u p => u = b "user" && p = b "pa")
    [(b "Authorization", [b "Basic dXNlcjpwYTpqdW5r"])] = some (b "user") := by decide
example : basicValidate (fun u p => u = b "user" && p = b "pa:ss")
    [(b "Authorization", [b "Basic dXNlcjpwYTpzcw=="])] = some (b "user") := by decide

/-! ### 2b. Basic credentials across generations of the filter (hot update; seeded change C06-m5)

Every `Inherit` builds a fresh user cache with its own watcher / syncer, `Pipeline.Inherit` closes the previous generation: so
whatever generation answers, a request is checked against the **current** content of the htpasswd file / etcd prefix. -/

/-- **`basic_history_current_table`**: for every history of inherits (+ close of the previous generation), updates of the user
table and requests, every request is answered from the table current at that moment. -/
theorem basic_history_current_table (t : UserTable) (ops : List GenOp) : genRun false ⟨t, t, true⟩ ops = genSpec t ops :=
  genRun_eq_spec_aux ops t

/-- … combined with `basic_accept_iff`: a request is accepted as user `u` iff it carries `Basic base64(u:p)` with `(u, p)` in the
table the cache holds — which by `basic_history_current_table` is the current one. -/
theorem basic_accept_current_table (t : UserTable) (h : Header) (u : Bytes) :
    basicValidate (tableMatch t) h = some u ↔ ∃ tok p, hget h authHeader = b "Basic " ++ tok ∧
      Sha256.b64Decode tok = some (u ++ 58 :: p) ∧ 58 ∉ u ∧ tableMatch t u p = true :=
  basic_accept_iff (tableMatch t) h u

/-- contrast (the semantics of seeded change C06-m5: the new generation shares the previous generation's cache, which the
previous generation's `Close` stops): after one inherit a removed user is still admitted and a changed password refused -/
theorem shared_cache_serves_stale_table :
    genRun true ⟨[(b "bob", b "old")], [(b "bob", b "old")], true⟩
      [.inherit, .update [(b "bob", b "new")], .req (b "bob") (b "old"), .req (b "bob") (b "new")] = [true, false] ∧
    genRun false ⟨[(b "bob", b "old")], [(b "bob", b "old")], true⟩
      [.inherit, .update [(b "bob", b "new")], .req (b "bob") (b "old"), .req (b "bob") (b "new")] = [false, true] := by decide

/-! ## 3. JWT: token source and algorithm pinning -/

/-- **`jwt_source`**: the token is the named cookie's value when a cookie name is configured and that cookie
exists with a non-empty value; in every other case it is what follows `Bearer ` in the Authorization header
(and there is no token at all if the header does not start with `Bearer `). -/
theorem jwt_source (c : JwtCfg) (cookie : Bytes → Option Bytes) (h : Header) :
    (∀ v, c.cookieName ≠ [] → cookie c.cookieName = some v → v ≠ [] → jwtToken c cookie h = some v) ∧
    ((c.cookieName = [] ∨ cookie c.cookieName = none ∨ cookie c.cookieName = some []) →
      ∀ t, jwtToken c cookie h = some t ↔ hget h authHeader = b "Bearer " ++ t) := by
  constructor
  · intro v h1 h2 h3
    simp [jwtToken, h1, h2, h3]
  · intro hc t
    have : (if c.cookieName ≠ [] then (cookie c.cookieName).getD [] else []) = [] := by
      rcases hc with h | h | h <;> simp [h]
    simp only [jwtToken, this, ne_eq, not_true_eq_false, if_false]
    exact stripPrefix_eq_some

/-- **`jwt_alg_pinned`**: a token is accepted only if its header names exactly the configured algorithm and
its signature verifies with *that* algorithm under the configured secret (no `none`, no downgrade to another
HS variant), and its claims are valid; conversely every such token is accepted. -/
theorem jwt_alg_pinned (c : JwtCfg) (lib : JwtLib) (cookie : Bytes → Option Bytes) (h : Header) :
    jwtValidate c lib cookie h = true ↔ ∃ t, jwtToken c cookie h = some t ∧ lib.headerAlg t = some c.alg ∧
      lib.claimsOK t = true ∧ lib.sigOK t c.alg c.secret = true := by
  unfold jwtValidate
  cases jwtToken c cookie h with
  | none => simp
  | some t => simp [jwtParse_keyFunc, and_assoc]

example : jwtValidate ⟨b "HS256", [1], []⟩ ⟨fun _ => some (b "none"), fun _ => true, fun _ _ _ => true⟩ (fun _ => none)
    [(b "Authorization", [b "Bearer x.y."])] = false := by decide

/-! ### 3b. "currently valid": the registered time claims `exp` / `nbf` / `iat`

`JwtLib.claimsOK` is instantiated by `claimsOKAt now claims` (`Model/Validator.lean`): golang-jwt's `MapClaims.Valid`
on the decoded claims, at `now = jwt.TimeFunc().Unix()`; `claims` (base64url + JSON decoding of the claims segment) stays
an oracle — the judge's own parser. A claim is a `ClaimVal`: absent, a JSON number `m · 10⁻ᵉ` in **any spelling**
(integer, fraction, exponent form), or a value of another JSON type. -/

/-- `MapClaims.Valid` spelled out (seconds = the number truncated toward zero; `0` and non-numbers count as absent) -/
theorem jwt_time_claims_iff (now : Int) (c : TimeClaims) :
    timeClaimsOK now c = true ↔ (c.exp.secs = 0 ∨ now ≤ c.exp.secs) ∧ (c.iat.secs = 0 ∨ c.iat.secs ≤ now) ∧
      (c.nbf.secs = 0 ∨ c.nbf.secs ≤ now) := timeClaimsOK_iff now c

/-- the whole-second test on `exp` is the exact comparison of the integer clock with the rational NumericDate -/
theorem jwt_exp_exact (now m : Int) (e : Nat) (hm : 0 ≤ m) :
    now ≤ (ClaimVal.num m e).secs ↔ now * (10 : Int) ^ e ≤ m := exp_secs_exact now m e hm

/-- `nbf` / `iat` hold from the whole second that contains them (`nbf < now + 1`): exact for integer NumericDates, less
than one second early for fractional ones (golang-jwt truncates) -/
theorem jwt_nbf_whole_second (now m : Int) (e : Nat) (hm : 0 ≤ m) :
    (ClaimVal.num m e).secs ≤ now ↔ m < (now + 1) * (10 : Int) ^ e := nbf_secs_whole_second now m e hm

/-- the decision depends on the number, not on how it is written (`1790738249.5` = `17907382495e-1`, `1.0e9` = `1000000000`) -/
theorem jwt_numeric_spelling_invariant (m m' : Int) (e e' : Nat) (h : m * (10 : Int) ^ e' = m' * (10 : Int) ^ e) :
    (ClaimVal.num m e).secs = (ClaimVal.num m' e').secs := secs_spelling_invariant m m' e e' h

/-- **`jwt_expired_rejected`**: a token whose `exp` is a NumericDate in the past (`exp < now`, exact rational comparison; not
one of the values golang-jwt reads as "absent", i.e. integer part ≠ 0) is rejected — whatever the spelling of the number,
whatever else the token carries, even with a correct signature. -/
theorem jwt_expired_rejected (c : JwtCfg) (lib : JwtLib) (cookie : Bytes → Option Bytes) (h : Header) (now : Int)
    (claims : Bytes → Option TimeClaims) (t : Bytes) (tc : TimeClaims) (m : Int) (e : Nat)
    (hlib : lib.claimsOK = claimsOKAt now claims) (ht : jwtToken c cookie h = some t) (hc : claims t = some tc)
    (hexp : tc.exp = .num m e) (hm : 0 ≤ m) (hpresent : (ClaimVal.num m e).secs ≠ 0) (hpast : m < now * (10 : Int) ^ e) :
    jwtValidate c lib cookie h = false := by
  cases hv : jwtValidate c lib cookie h with
  | false => rfl
  | true =>
    obtain ⟨t', h1, _, h3, _⟩ := (jwt_alg_pinned c lib cookie h).mp hv
    rw [ht] at h1; cases h1
    rw [hlib] at h3
    simp only [claimsOKAt, hc] at h3
    have := ((timeClaimsOK_iff now tc).mp h3).1
    rw [hexp] at this
    rcases this with h0 | hle
    · exact absurd h0 hpresent
    · have := (exp_secs_exact now m e hm).mp hle
      omega

/-- **`jwt_not_yet_valid_rejected`**: a token whose `nbf` lies a full second or more in the future is rejected, in every
numeric spelling. -/
theorem jwt_not_yet_valid_rejected (c : JwtCfg) (lib : JwtLib) (cookie : Bytes → Option Bytes) (h : Header) (now : Int)
    (claims : Bytes → Option TimeClaims) (t : Bytes) (tc : TimeClaims) (m : Int) (e : Nat)
    (hlib : lib.claimsOK = claimsOKAt now claims) (ht : jwtToken c cookie h = some t) (hc : claims t = some tc)
    (hnbf : tc.nbf = .num m e) (hm : 0 ≤ m) (hpresent : (ClaimVal.num m e).secs ≠ 0)
    (hfuture : (now + 1) * (10 : Int) ^ e ≤ m) :
    jwtValidate c lib cookie h = false := by
  cases hv : jwtValidate c lib cookie h with
  | false => rfl
  | true =>
    obtain ⟨t', h1, _, h3, _⟩ := (jwt_alg_pinned c lib cookie h).mp hv
    rw [ht] at h1; cases h1
    rw [hlib] at h3
    simp only [claimsOKAt, hc] at h3
    have := ((timeClaimsOK_iff now tc).mp h3).2.2
    rw [hnbf] at this
    rcases this with h0 | hle
    · exact absurd h0 hpresent
    · have := (nbf_secs_whole_second now m e hm).mp hle
      omega

/-- **`jwt_time_valid_accepted`** (completeness): a token naming the configured algorithm, correctly signed, whose `exp` (if
present) is not before `now` and whose `nbf` / `iat` (if present) are not after `now` is accepted. -/
theorem jwt_time_valid_accepted (c : JwtCfg) (lib : JwtLib) (cookie : Bytes → Option Bytes) (h : Header) (now : Int)
    (claims : Bytes → Option TimeClaims) (t : Bytes) (tc : TimeClaims)
    (hlib : lib.claimsOK = claimsOKAt now claims) (ht : jwtToken c cookie h = some t) (hc : claims t = some tc)
    (halg : lib.headerAlg t = some c.alg) (hsig : lib.sigOK t c.alg c.secret = true)
    (hexp : tc.exp = .absent ∨ ∃ m e, tc.exp = .num m e ∧ 0 ≤ m ∧ now * (10 : Int) ^ e ≤ m)
    (hiat : tc.iat = .absent ∨ ∃ m e, tc.iat = .num m e ∧ 0 ≤ m ∧ m ≤ now * (10 : Int) ^ e)
    (hnbf : tc.nbf = .absent ∨ ∃ m e, tc.nbf = .num m e ∧ 0 ≤ m ∧ m ≤ now * (10 : Int) ^ e) :
    jwtValidate c lib cookie h = true := by
  refine (jwt_alg_pinned c lib cookie h).mpr ⟨t, ht, halg, ?_, hsig⟩
  rw [hlib]
  simp only [claimsOKAt, hc]
  have early : ∀ (m : Int) (e : Nat), 0 ≤ m → m ≤ now * (10 : Int) ^ e → (ClaimVal.num m e).secs ≤ now := by
    intro m e hm hle
    refine (nbf_secs_whole_second now m e hm).mpr ?_
    have := pow10_pos e
    have : now * (10 : Int) ^ e < (now + 1) * (10 : Int) ^ e := by
      rw [Int.add_mul]; omega
    omega
  refine (timeClaimsOK_iff now tc).mpr ⟨?_, ?_, ?_⟩
  · rcases hexp with h0 | ⟨m, e, h1, hm, hle⟩
    · left; rw [h0]; rfl
    · right; rw [h1]; exact (exp_secs_exact now m e hm).mpr hle
  · rcases hiat with h0 | ⟨m, e, h1, hm, hle⟩
    · left; rw [h0]; rfl
    · right; rw [h1]; exact early m e hm hle
  · rcases hnbf with h0 | ⟨m, e, h1, hm, hle⟩
    · left; rw [h0]; rfl
    · right; rw [h1]; exact early m e hm hle

-- non-vacuity: `exp = 1790738249.5` written as `17907382495e-1`, at now = 1790738250 (expired) / 1790738249 (valid);
-- a string-typed or zero `exp` is read as "absent" by golang-jwt (observation (h) in notes/C06.md)
example : timeClaimsOK 1790738250 ⟨.num 17907382495 1, .absent, .absent⟩ = false := by decide
example : timeClaimsOK 1790738249 ⟨.num 17907382495 1, .absent, .num 1790738249 0⟩ = true := by decide
example : timeClaimsOK 1790738250 ⟨.other, .absent, .absent⟩ = true := by decide
example : (ClaimVal.num 17907382495 1).secs = (ClaimVal.num 1790738249500 3).secs :=
  jwt_numeric_spelling_invariant _ _ _ _ (by decide)


/-! ## 4. API signature: `Sign` → `Verify` completeness

`Crypto` (SHA-256 hex digest, HMAC-SHA256) is an opaque parameter in all theorems of this and the next
section; the judge instantiates it with the executable `Model/Sha256.lean`, which is checked against the FIPS /
RFC 4231 vectors and, by every correspondence run, against `crypto/sha256` + `crypto/hmac`. -/

theorem defaultLiteral_ok : LitOK defaultLiteral :=
  ⟨by decide, by unfold Clean; decide, by unfold KeyOK Clean; decide, by unfold KeyOK Clean; decide, by decide⟩

/-- **`verify_sign_complete`**: for every configuration, method, path, multi-valued query, header set, host and
body, a request signed by `Sign` with an access key of the store at time `t` verifies at any `now` within the TTL
window — *against the body the backend will receive* (`body.getD []`: what reading the payload yields, also when
the signer saw `Body == nil`).

Hypotheses (all explicit): the key is in the store; the standard-library clock contract `ClockOK`; the literals
are sane (`LitOK`, true for the defaults); key id and scopes contain no white space / `,` / `/` / `;` (they are
written unescaped into the Authorization header); the header map is what net/http produces (`HeaderOK`: distinct
canonical token keys, no `Host` key); the caller did not pre-set the content-hash header; the hash of the empty
string is the constant the Go code hard-wires (`sha256Empty`, checked for the executable SHA-256 by `#guard`); and the raw
query parses completely (`queryErr = false`: no pair with `;` or a bad escape — since fixes/C06-signature-query-unparsed.patch
`Sign` refuses to sign and `Verify` refuses to accept such a query). -/
theorem verify_sign_complete (cfg : Signer.Cfg) (cr : Crypto) (clock : Clock) (now t t' : Int) (keyId secret : Bytes)
    (scopes : List Bytes) (req : Req) (body : Option Bytes)
    (hstore : storeGet keyId cfg.store = some secret)
    (hclock : ClockOK clock t t') (hlit : LitOK cfg.lit)
    (httl : cfg.ttl > 0 → -cfg.ttl ≤ now - t' ∧ now - t' ≤ cfg.ttl)
    (hid : Clean keyId) (hsc : ∀ s ∈ scopes, Clean s)
    (hok : HeaderOK req.headers) (hnone : hget req.headers cfg.lit.contentSha256 = [])
    (hempty : cr.sha256hex [] = sha256Empty) (hq : req.queryErr = false) :
    verify cfg cr clock now (sign cfg cr clock keyId secret t scopes req body) (some (body.getD [])) = .ok () :=
  verify_sign cfg cr clock now t t' keyId secret scopes req body hstore hclock hlit httl hid hsc hok hnone hempty hq

/-- … and therefore the (repaired) Validator lets the correctly signed request through with exactly the payload
that was signed. -/
theorem handle_accepts_signed (s : Signer.Cfg) (env : Env) (t t' : Int) (keyId secret : Bytes)
    (scopes : List Bytes) (req : Req) (body : Option Bytes)
    (hstore : storeGet keyId s.store = some secret)
    (hclock : ClockOK env.clock t t') (hlit : LitOK s.lit)
    (httl : s.ttl > 0 → -s.ttl ≤ env.now - t' ∧ env.now - t' ≤ s.ttl)
    (hid : Clean keyId) (hsc : ∀ x ∈ scopes, Clean x)
    (hok : HeaderOK req.headers) (hnone : hget req.headers s.lit.contentSha256 = [])
    (hempty : env.crypto.sha256hex [] = sha256Empty) (hq : req.queryErr = false) :
    handle { headers := none, jwt := none, sig := some s, basic := false } env
      ⟨sign s env.crypto env.clock keyId secret t scopes req body, body.getD []⟩ = .pass := by
  rw [handle_iff_all]
  refine ⟨by simp, by simp, ?_, by simp, by simp⟩
  intro s' hs'
  simp only [Option.some.injEq] at hs'
  subst hs'
  exact verify_sign_complete s env.crypto env.clock env.now t t' keyId secret scopes req body hstore hclock hlit httl hid hsc
    hok hnone hempty hq

/-! ## 5. API signature: what an accepted signature covers -/

/-- **`ttl_window`**, **`unknown_key_rejected`**, **`date_scope_prefix_checked`** in one statement: an accepted
request parses into a signing context whose time lies in `[now − ttl, now + ttl]` (when a TTL is configured) and,
for presigned URLs, is not older than its `Expires`; its access key id is in the store; and its signature is the
one recomputed with that key's secret. -/
theorem verify_ok_facts (cfg : Signer.Cfg) (cr : Crypto) (clock : Clock) (now : Int) (req : Req) (body : Option Bytes)
    (h : verify cfg cr clock now req body = .ok ()) :
    ∃ ctx secret, initFromSignedRequest cfg.lit clock req = .ok ctx ∧
      (cfg.ttl > 0 → -cfg.ttl ≤ now - ctx.time ∧ now - ctx.time ≤ cfg.ttl) ∧
      (ctx.presign = true → now - ctx.time ≤ ctx.expire) ∧
      storeGet ctx.keyId cfg.store = some secret ∧
      ctx.signature = expectedSignature cfg cr clock ctx secret req body :=
  (verify_ok_iff cfg cr clock now req body).mp h

/-- **`ttl_window`** -/
theorem ttl_window (cfg : Signer.Cfg) (cr : Crypto) (clock : Clock) (now : Int) (req : Req) (body : Option Bytes) (ctx : Ctx)
    (hi : initFromSignedRequest cfg.lit clock req = .ok ctx) (httl : cfg.ttl > 0)
    (hout : now - ctx.time < -cfg.ttl ∨ now - ctx.time > cfg.ttl) :
    verify cfg cr clock now req body = .error .expired := by
  unfold verify
  simp only [hi]
  rw [if_pos ⟨httl, hout⟩]

/-- **`unknown_key_rejected`** -/
theorem unknown_key_rejected (cfg : Signer.Cfg) (cr : Crypto) (clock : Clock) (now : Int) (req : Req) (body : Option Bytes)
    (ctx : Ctx) (hi : initFromSignedRequest cfg.lit clock req = .ok ctx) (hk : storeGet ctx.keyId cfg.store = none) :
    verify cfg cr clock now req body ≠ .ok () := by
  intro h
  obtain ⟨ctx', secret, h1, _, _, h4, _⟩ := verify_ok_facts cfg cr clock now req body h
  rw [hi] at h1
  cases h1
  rw [hk] at h4
  cases h4

/-- **`date_scope_prefix_checked`** (header mode): the date in the credential scope must be a prefix of the
`X-Me-Date` header, which must parse. -/
theorem date_scope_prefix_checked (lit : Literal) (clock : Clock) (req : Req) (ctx : Ctx)
    (h : initFromHeader lit clock req = .ok ctx) :
    ∃ alg rest cred, splitFirst 32 (hget req.headers authHeader) = some (alg, rest) ∧ alg = lit.algorithmValue ∧
      hasPrefix (hget req.headers lit.date) ((splitOn 47 cred).getD 1 []) = true ∧
      clock.parseTime (hget req.headers lit.date) = some ctx.time ∧ ctx.keyId = (splitOn 47 cred).headD [] := by
  unfold initFromHeader at h
  simp only at h
  split at h
  · cases h
  · rename_i alg rest hsf
    split at h
    · cases h
    · rename_i halg
      split at h
      · rename_i p0 p1 p2 _
        split at h
        · cases h
        · rename_i cred _
          split at h
          · cases h
          · split at h
            · cases h
            · split at h
              · cases h
              · split at h
                · cases h
                · rename_i hpre
                  split at h
                  · cases h
                  · rename_i t ht
                    cases h
                    exact ⟨alg, rest, cred, hsf, by simpa using halg, by simpa using hpre, ht, rfl⟩
      · cases h

/-- **`accepted_query_fully_parsed`** (repaired code): an accepted request's raw query parsed completely, i.e. `req.query` — what
the canonical query, and hence the signature, is computed from — holds **every** pair of the query that is forwarded. (Before
`fixes/C06-signature-query-unparsed.patch`, `url.Query()` silently dropped pairs with `;` or a bad escape: they were forwarded
without being covered by the signature, see `unparsed_query_defect`.) -/
theorem accepted_query_fully_parsed (cfg : Signer.Cfg) (cr : Crypto) (clock : Clock) (now : Int) (req : Req) (body : Option Bytes)
    (h : verify cfg cr clock now req body = .ok ()) : req.queryErr = false := by
  obtain ⟨ctx, _, hi, _⟩ := verify_ok_facts cfg cr clock now req body h
  unfold initFromSignedRequest at hi
  cases hq : req.queryErr with
  | false => rfl
  | true => simp [hq] at hi

/-- a query that does not parse completely is refused whatever else the request carries -/
theorem unparsed_query_rejected (cfg : Signer.Cfg) (cr : Crypto) (clock : Clock) (now : Int) (req : Req) (body : Option Bytes)
    (hq : req.queryErr = true) : verify cfg cr clock now req body = .error .badQuery := by
  unfold verify initFromSignedRequest
  simp [hq]

/-- **`tamper_rejected`**. Hypotheses `hH`, `hM` idealise SHA-256 / HMAC-SHA256 as injective (collision-free);
they are hypotheses of this theorem, not axioms, and visible here. If two requests are both accepted under the
*same* signing context (same credential, signed-header list, signature and timestamp — e.g. the second is the first
with anything but the Authorization / date header changed), then they agree on everything the signature covers:
method, canonical URI, canonical query (without the signature parameters), the canonical line of every signed header
including `host`, and the body hash. Contrapositive: changing any of these in an accepted request, while keeping its
signature, makes `Verify` fail. `NoLF` is what net/http guarantees for parsed requests. -/
theorem tamper_rejected (cfg : Signer.Cfg) (cr : Crypto) (clock : Clock) (now : Int) (r1 r2 : Req) (b1 b2 : Option Bytes)
    (ctx : Ctx)
    (hH : Function.Injective cr.sha256hex) (hM : ∀ k, Function.Injective (cr.hmac k))
    (i1 : initFromSignedRequest cfg.lit clock r1 = .ok ctx) (i2 : initFromSignedRequest cfg.lit clock r2 = .ok ctx)
    (v1 : verify cfg cr clock now r1 b1 = .ok ()) (v2 : verify cfg cr clock now r2 b2 = .ok ())
    (n1 : NoLF r1) (n2 : NoLF r2) (hsh : (10 : UInt8) ∉ ctx.signedHeaders) :
    covered cfg clock ctx r1 = covered cfg clock ctx r2 ∧ hashBodyVerify cfg cr b1 = hashBodyVerify cfg cr b2 := by
  obtain ⟨c1, s1, h1, _, _, k1, e1⟩ := verify_ok_facts cfg cr clock now r1 b1 v1
  obtain ⟨c2, s2, h2, _, _, k2, e2⟩ := verify_ok_facts cfg cr clock now r2 b2 v2
  rw [i1] at h1; cases h1
  rw [i2] at h2; cases h2
  rw [k1] at k2; cases k2
  have := expectedSignature_inj cfg cr clock ctx s1 r1 r2 b1 b2 hH hM (e1.symm.trans e2)
  exact canonical_injective cfg clock ctx r1 r2 _ _ n1 n2 hsh this

/-- **The parser contract behind `NoLF`, made checkable.** `noLFb` is the executable test the judge evaluates on **every**
harness case (both harnesses; a failing case is reported as a broken contract of the trusted base): it is exactly `NoLF`. -/
theorem nolf_contract_checked (req : Req) : noLFb req = true ↔ NoLF req := noLFb_iff req

/-- … and why net/http satisfies it: any parser that takes the method, the hosts and the header values from the *lines* of
the request head (the head split at LF; folded lines joined by a space) yields a `NoLF` request, whatever bytes arrive. -/
theorem nolf_of_line_parser (raw : Bytes) (req : Req)
    (fromLines : ∀ (s : Bytes), (s = req.method ∨ s = req.host ∨ s = req.urlHost ∨ ∃ e ∈ req.headers, s ∈ e.2) →
      ∀ c ∈ s, c = 32 ∨ ∃ l ∈ splitOn 10 raw, c ∈ l) : NoLF req := NoLF_of_line_parser raw req fromLines

example : noLFb ⟨b "GET", b "/", [], [(b "X-A", [b "a b"])], b "a.com", [], [], false⟩ = true := by decide
example : noLFb ⟨b "GET", b "/", [], [(b "X-A", [[97, 10, 98]])], b "a.com", [], [], false⟩ = false := by decide

/-- **`tamper_rejected_header_mode`**: for requests signed in header mode (`Authorization: … SignedHeaders=…`) the
LF-freeness of the signed-header list follows from the parser contract, so the only hypotheses left are the judge-checked
`noLFb` and the idealised injectivity of hash and MAC. (For presigned URLs the list is a URL-decoded query value; there
`tamper_rejected` keeps the explicit hypothesis `hsh`.) -/
theorem tamper_rejected_header_mode (cfg : Signer.Cfg) (cr : Crypto) (clock : Clock) (now : Int) (r1 r2 : Req) (b1 b2 : Option Bytes)
    (ctx : Ctx)
    (hH : Function.Injective cr.sha256hex) (hM : ∀ k, Function.Injective (cr.hmac k))
    (i1 : initFromSignedRequest cfg.lit clock r1 = .ok ctx) (i2 : initFromSignedRequest cfg.lit clock r2 = .ok ctx)
    (hmode : ctx.presign = false)
    (v1 : verify cfg cr clock now r1 b1 = .ok ()) (v2 : verify cfg cr clock now r2 b2 = .ok ())
    (n1 : noLFb r1 = true) (n2 : noLFb r2 = true) :
    covered cfg clock ctx r1 = covered cfg clock ctx r2 ∧ hashBodyVerify cfg cr b1 = hashBodyVerify cfg cr b2 := by
  have n1' := (noLFb_iff r1).mp n1
  have hsh : (10 : UInt8) ∉ ctx.signedHeaders := by
    unfold initFromSignedRequest initFromSignedRequestLax at i1
    by_cases hq : r1.queryErr = true
    · simp [hq] at i1
    · simp only [hq, Bool.false_eq_true, if_false] at i1
      by_cases ha : hget r1.headers authHeader ≠ []
      · rw [if_pos ha] at i1
        exact signedHeaders_no_lf_header_mode i1 n1'
      · rw [if_neg ha] at i1
        -- presign mode: contradicts `hmode`
        exfalso
        unfold initFromQuery at i1
        simp only at i1
        repeat' split at i1
        all_goals first | (cases i1; simp at hmode) | cases i1
  exact tamper_rejected cfg cr clock now r1 r2 b1 b2 ctx hH hM i1 i2 v1 v2 n1' ((noLFb_iff r2).mp n2) hsh

/-- … in particular the body: unless `excludeBody` is configured, the two accepted requests carry the same body
bytes — the body *as `Verify` read it*, which in the repaired `Handle` is the payload that is forwarded. -/
theorem tamper_rejected_body (cfg : Signer.Cfg) (cr : Crypto) (clock : Clock) (now : Int) (r1 r2 : Req) (b1 b2 : Bytes)
    (ctx : Ctx)
    (hH : Function.Injective cr.sha256hex) (hM : ∀ k, Function.Injective (cr.hmac k))
    (i1 : initFromSignedRequest cfg.lit clock r1 = .ok ctx) (i2 : initFromSignedRequest cfg.lit clock r2 = .ok ctx)
    (v1 : verify cfg cr clock now r1 (some b1) = .ok ()) (v2 : verify cfg cr clock now r2 (some b2) = .ok ())
    (n1 : NoLF r1) (n2 : NoLF r2) (hsh : (10 : UInt8) ∉ ctx.signedHeaders) (hex : cfg.excludeBody = false) :
    b1 = b2 := by
  have := (tamper_rejected cfg cr clock now r1 r2 _ _ ctx hH hM i1 i2 v1 v2 n1 n2 hsh).2
  simp only [hashBodyVerify, hex, Bool.false_eq_true, if_false] at this
  exact hH this


/-! ## 5b. Tamper theorems in collision-extraction form (audit P1.3)

No hypothesis about the hash: for **every** `Crypto` — the judge's executable SHA-256 / HMAC-SHA256 included — two accepted
requests agree on everything the signature covers, **or** an explicit collision (`ShaCollision`: two different byte strings
with the same `sha256hex`; `HmacCollision`: two different (key, message) pairs with the same `hmac`) exists. The
`Function.Injective` versions above are the special case "no collision exists". -/

theorem tamper_rejected_or_collision (cfg : Signer.Cfg) (cr : Crypto) (clock : Clock) (now : Int) (r1 r2 : Req) (b1 b2 : Option Bytes)
    (ctx : Ctx)
    (i1 : initFromSignedRequest cfg.lit clock r1 = .ok ctx) (i2 : initFromSignedRequest cfg.lit clock r2 = .ok ctx)
    (v1 : verify cfg cr clock now r1 b1 = .ok ()) (v2 : verify cfg cr clock now r2 b2 = .ok ())
    (n1 : noLFb r1 = true) (n2 : noLFb r2 = true) (hsh : (10 : UInt8) ∉ ctx.signedHeaders) :
    (covered cfg clock ctx r1 = covered cfg clock ctx r2 ∧ hashBodyVerify cfg cr b1 = hashBodyVerify cfg cr b2)
    ∨ ShaCollision cr ∨ HmacCollision cr := by
  obtain ⟨c1, s1, h1, _, _, k1, e1⟩ := verify_ok_facts cfg cr clock now r1 b1 v1
  obtain ⟨c2, s2, h2, _, _, k2, e2⟩ := verify_ok_facts cfg cr clock now r2 b2 v2
  rw [i1] at h1; cases h1
  rw [i2] at h2; cases h2
  rw [k1] at k2; cases k2
  rcases expectedSignature_eq_or_collision cfg cr clock ctx s1 r1 r2 b1 b2 (e1.symm.trans e2) with h | h
  · exact Or.inl (canonical_injective cfg clock ctx r1 r2 _ _ ((noLFb_iff r1).mp n1) ((noLFb_iff r2).mp n2) hsh h)
  · exact Or.inr h

/-- … the body: the two accepted requests carry the same body bytes (unless `excludeBody`), or a collision exists -/
theorem tamper_rejected_body_or_collision (cfg : Signer.Cfg) (cr : Crypto) (clock : Clock) (now : Int) (r1 r2 : Req) (b1 b2 : Bytes)
    (ctx : Ctx)
    (i1 : initFromSignedRequest cfg.lit clock r1 = .ok ctx) (i2 : initFromSignedRequest cfg.lit clock r2 = .ok ctx)
    (v1 : verify cfg cr clock now r1 (some b1) = .ok ()) (v2 : verify cfg cr clock now r2 (some b2) = .ok ())
    (n1 : noLFb r1 = true) (n2 : noLFb r2 = true) (hsh : (10 : UInt8) ∉ ctx.signedHeaders) (hex : cfg.excludeBody = false) :
    b1 = b2 ∨ ShaCollision cr ∨ HmacCollision cr := by
  rcases tamper_rejected_or_collision cfg cr clock now r1 r2 _ _ ctx i1 i2 v1 v2 n1 n2 hsh with ⟨_, h⟩ | h
  · simp only [hashBodyVerify, hex, Bool.false_eq_true, if_false] at h
    rcases sha_eq_or_collision cr _ _ h with e | hc
    · exact Or.inl e
    · exact Or.inr (Or.inl hc)
  · exact Or.inr h

/-- … header mode: the LF-freeness of the signed-header list follows from the checked parser contract -/
theorem tamper_rejected_header_mode_or_collision (cfg : Signer.Cfg) (cr : Crypto) (clock : Clock) (now : Int) (r1 r2 : Req)
    (b1 b2 : Option Bytes) (ctx : Ctx)
    (i1 : initFromSignedRequest cfg.lit clock r1 = .ok ctx) (i2 : initFromSignedRequest cfg.lit clock r2 = .ok ctx)
    (hmode : hget r1.headers authHeader ≠ [])
    (v1 : verify cfg cr clock now r1 b1 = .ok ()) (v2 : verify cfg cr clock now r2 b2 = .ok ())
    (n1 : noLFb r1 = true) (n2 : noLFb r2 = true) :
    (covered cfg clock ctx r1 = covered cfg clock ctx r2 ∧ hashBodyVerify cfg cr b1 = hashBodyVerify cfg cr b2)
    ∨ ShaCollision cr ∨ HmacCollision cr := by
  have hsh : (10 : UInt8) ∉ ctx.signedHeaders := by
    have hq := accepted_query_fully_parsed cfg cr clock now r1 b1 v1
    unfold initFromSignedRequest initFromSignedRequestLax at i1
    simp only [hq, Bool.false_eq_true, if_false] at i1
    rw [if_pos hmode] at i1
    exact signedHeaders_no_lf_header_mode i1 ((noLFb_iff r1).mp n1)
  exact tamper_rejected_or_collision cfg cr clock now r1 r2 b1 b2 ctx i1 i2 v1 v2 n1 n2 hsh

/-- **`tamper_rejected_cross_ctx`**: the two accepted requests may carry **different** signing contexts (another
`SignedHeaders=` list, another scope, another date — i.e. the Authorization / date header or the signature query parameters
were edited too). If they present the **same signature value**, then — or a collision exists — they have the same
signed-header list, the same time string, the same scope string, and agree on everything covered (method, canonical URI,
canonical query, every signed header line, body hash). So editing the signed-header list, the scope or the date of an accepted
request while keeping its signature is rejected as well. `hclk` / `hs*`: LF-free time and scope strings (`time.Format` layout;
scopes from a `NoLF` header value). -/
theorem tamper_rejected_cross_ctx (cfg : Signer.Cfg) (cr : Crypto) (clock : Clock) (now : Int) (r1 r2 : Req) (b1 b2 : Option Bytes)
    (ctx1 ctx2 : Ctx)
    (i1 : initFromSignedRequest cfg.lit clock r1 = .ok ctx1) (i2 : initFromSignedRequest cfg.lit clock r2 = .ok ctx2)
    (v1 : verify cfg cr clock now r1 b1 = .ok ()) (v2 : verify cfg cr clock now r2 b2 = .ok ())
    (hsig : ctx1.signature = ctx2.signature)
    (n1 : noLFb r1 = true) (n2 : noLFb r2 = true)
    (hsh1 : (10 : UInt8) ∉ ctx1.signedHeaders) (hsh2 : (10 : UInt8) ∉ ctx2.signedHeaders)
    (hclk : ∀ t, (10 : UInt8) ∉ clock.fmtTime t)
    (hs1 : (10 : UInt8) ∉ scopeString cfg.lit clock ctx1.time ctx1.scopes)
    (hs2 : (10 : UInt8) ∉ scopeString cfg.lit clock ctx2.time ctx2.scopes) :
    (ctx1.signedHeaders = ctx2.signedHeaders ∧ clock.fmtTime ctx1.time = clock.fmtTime ctx2.time ∧
     scopeString cfg.lit clock ctx1.time ctx1.scopes = scopeString cfg.lit clock ctx2.time ctx2.scopes ∧
     covered cfg clock ctx1 r1 = covered cfg clock ctx2 r2 ∧ hashBodyVerify cfg cr b1 = hashBodyVerify cfg cr b2)
    ∨ ShaCollision cr ∨ HmacCollision cr := by
  obtain ⟨c1, s1, h1, _, _, _, e1⟩ := verify_ok_facts cfg cr clock now r1 b1 v1
  obtain ⟨c2, s2, h2, _, _, _, e2⟩ := verify_ok_facts cfg cr clock now r2 b2 v2
  rw [i1] at h1; cases h1
  rw [i2] at h2; cases h2
  have hE : expectedSignature cfg cr clock ctx1 s1 r1 b1 = expectedSignature cfg cr clock ctx2 s2 r2 b2 := by
    rw [← e1, ← e2, hsig]
  rcases expectedSignature_cross_or_collision cfg cr clock ctx1 ctx2 s1 s2 r1 r2 b1 b2 hclk hs1 hs2 hE with ⟨et, es, _, hc⟩ | h
  · have q1 : (10 : UInt8) ∉ (covered cfg clock ctx1 r1).2.2.1 := by simp only [covered, canonQuery]; exact encode_no_lf _
    have q2 : (10 : UInt8) ∉ (covered cfg clock ctx2 r2).2.2.1 := by simp only [covered, canonQuery]; exact encode_no_lf _
    obtain ⟨m, u, q, sh, ls, bh⟩ := canonical_injective_cross r1 r2 _ _ _ _ _ _ ((noLFb_iff r1).mp n1) ((noLFb_iff r2).mp n2)
      q1 q2 hsh1 hsh2 hc
    refine Or.inl ⟨sh, et, es, ?_, bh⟩
    simp only [covered] at q ⊢
    rw [m, u, q, ← sh, ls]
  · exact Or.inr h

-- non-vacuity with a NON-injective toy hash (`exCrypto` maps `[]` and `sha256Empty` to the same value, so `ShaCollision exCrypto`
-- holds and the injective versions say nothing about it): the hypotheses are met by the signed example request; for the real
-- SHA-256 / HMAC the judge evaluates `verify … = .ok ()` on every accepted harness case
-- (examples: end of section 6, `ShaCollision exCrypto` and the instantiation at the non-injective `exCrypto`)

/-! ## 6. Non-vacuity and the two defects of the unrepaired code, on concrete data -/
section Concrete

def exClock : Clock := ⟨fun _ => b "20220101", fun _ => b "20220101T000000Z",
  fun s => if s = b "20220101T000000Z" then some 0 else none, fun _ => none⟩
/-- toy stand-ins for SHA-256 / HMAC (the theorems hold for every `Crypto`): identity except that the empty
string maps to the hard-wired constant; concatenation -/
def exCrypto : Crypto := ⟨fun x => if x = [] then sha256Empty else x, fun k x => k ++ x⟩
def exSigCfg : Signer.Cfg := ⟨defaultLiteral, [], 600, false, [(b "AKID", b "SECRET")]⟩
def exSReq : Req :=
  ⟨b "POST", b "/a b", [(b "x", [b "2", b "1"])], [(b "Content-Type", [b "a  b"]), (b "X-A", [b "1", b "2"])], b "a.com:80", [], [], false⟩
def exSigned (body : Option Bytes) : Req := sign exSigCfg exCrypto exClock (b "AKID") (b "SECRET") 0 [b "eu"] exSReq body
def exVEnv : Env := { exEnv true true with crypto := exCrypto, clock := exClock, now := 5 }
def exVCfg : Validator.Cfg := { headers := none, jwt := none, sig := some exSigCfg, basic := false }

-- the hypotheses of `verify_sign_complete` are satisfiable (multi-valued query, header with repeated spaces,
-- multi-valued header, host with port, body)
example : verify exSigCfg exCrypto exClock 5 (exSigned (some [1, 2])) (some [1, 2]) = .ok () :=
  verify_sign_complete exSigCfg exCrypto exClock 5 0 0 (b "AKID") (b "SECRET") [b "eu"] exSReq (some [1, 2])
    (by decide) ⟨by decide, by decide, by decide, by decide, by unfold Clean; decide⟩ defaultLiteral_ok
    (by intro _; decide) (by unfold Clean; decide) (by unfold Clean; decide)
    (by unfold HeaderOK KeyOK Clean; decide) (by decide) (by decide) rfl

set_option maxRecDepth 100000 in
-- the model is executable: the same fact by evaluation, and the TTL / key / tamper failures
example : (verify exSigCfg exCrypto exClock 5 (exSigned (some [1, 2])) (some [1, 2])).toBool = true := by decide
set_option maxRecDepth 100000 in
example : verify exSigCfg exCrypto exClock 601000000000 (exSigned none) (some []) = .error .expired := by decide
set_option maxRecDepth 100000 in
example : verify { exSigCfg with store := [] } exCrypto exClock 5 (exSigned none) (some []) = .error .unknownKey := by decide
set_option maxRecDepth 100000 in
example : (verify exSigCfg exCrypto exClock 5 { exSigned (some [1, 2]) with method := b "PUT" } (some [1, 2])).toBool = false := by
  decide

set_option maxRecDepth 100000 in
/-- **Defect (i) of the unrepaired code** (`handleDrained`: `Verify` reads the body that `FetchPayload` already
drained): an honestly signed request with a body is rejected, and a request signed for the empty body is accepted
with any payload; the repaired `handle` accepts the first and rejects the second. -/
theorem drained_body_defect :
    handleDrained exVCfg exVEnv ⟨exSigned (some [1, 2]), [1, 2]⟩ = .invalid 401 ∧
    handleDrained exVCfg exVEnv ⟨exSigned (some []), [9, 9, 9]⟩ = .pass ∧
    handle exVCfg exVEnv ⟨exSigned (some [1, 2]), [1, 2]⟩ = .pass ∧
    handle exVCfg exVEnv ⟨exSigned (some []), [9, 9, 9]⟩ = .invalid 401 := by decide

/-- `Verify` with the `initFromSignedRequest` of the code before `fixes/C06-signature-query-unparsed.patch` -/
def verifyLax (cfg : Signer.Cfg) (cr : Crypto) (clock : Clock) (now : Int) (req : Req) (body : Option Bytes) : Bool :=
  match initFromSignedRequestLax cfg.lit clock req with
  | .error _ => false
  | .ok ctx =>
    let age := now - ctx.time
    if cfg.ttl > 0 ∧ (age < -cfg.ttl ∨ age > cfg.ttl) then false
    else if ctx.presign = true ∧ age > ctx.expire then false
    else match storeGet ctx.keyId cfg.store with
      | none => false
      | some secret => ctx.signature == expectedSignature cfg cr clock ctx secret req body

set_option maxRecDepth 100000 in
/-- **Defect of the unrepaired code** (reproduced on the real code, `corpus/C06/validator.jsonl`): the accepted request stays
accepted when pairs that `url.Query()` cannot parse (`&admin=1;x=2`, `&z=%zz`) are appended to its raw query — the parsed
pairs, all the signature sees, are unchanged (`queryErr := true` is the only difference in the model) — although the query that
is forwarded changed. The repaired `verify` refuses it. -/
theorem unparsed_query_defect :
    verifyLax exSigCfg exCrypto exClock 5 { exSigned (some [1, 2]) with queryErr := true } (some [1, 2]) = true ∧
    verify exSigCfg exCrypto exClock 5 { exSigned (some [1, 2]) with queryErr := true } (some [1, 2]) = .error .badQuery ∧
    (verify exSigCfg exCrypto exClock 5 (exSigned (some [1, 2])) (some [1, 2])).toBool = true := by decide

-- the hypotheses of `tamper_rejected` are satisfiable: an injective toy hash / MAC, an accepted request and the same
-- request with an additional unsigned header
def exCrypto2 : Crypto := ⟨fun x => x, fun k x => k ++ x⟩
def exSigned2 : Req := sign exSigCfg exCrypto2 exClock (b "AKID") (b "SECRET") 0 [] exSReq (some [7])
def exCtx2 : Ctx := match initFromSignedRequest defaultLiteral exClock exSigned2 with | .ok c => c | .error _ => ⟨false, [], [], [], [], 0, 0⟩
set_option maxRecDepth 100000 in
example : covered exSigCfg exClock exCtx2 exSigned2
      = covered exSigCfg exClock exCtx2 { exSigned2 with headers := exSigned2.headers ++ [(b "X-New", [b "v"])] } ∧
      hashBodyVerify exSigCfg exCrypto2 (some [7]) = hashBodyVerify exSigCfg exCrypto2 (some [7]) :=
  tamper_rejected exSigCfg exCrypto2 exClock 5 exSigned2 { exSigned2 with headers := exSigned2.headers ++ [(b "X-New", [b "v"])] }
    (some [7]) (some [7]) exCtx2 (fun _ _ h => h) (fun _ _ _ h => List.append_cancel_left h)
    (by decide) (by decide)
    (by decide) (by decide)
    ⟨by decide, by decide, by decide, by decide⟩ ⟨by decide, by decide, by decide, by decide⟩ (by decide)

-- collision-extraction form at a NON-injective hash: `exCrypto` has a collision, the hypotheses of `tamper_rejected_or_collision` are
-- nevertheless met by the signed example request and the same request with an extra unsigned header
example : ShaCollision exCrypto := ⟨[], sha256Empty, by decide, by decide⟩
def exCtx1 : Ctx := match initFromSignedRequest defaultLiteral exClock (exSigned (some [1, 2])) with
  | .ok c => c | .error _ => ⟨false, [], [], [], [], 0, 0⟩
set_option maxRecDepth 100000 in
example : (covered exSigCfg exClock exCtx1 (exSigned (some [1, 2]))
      = covered exSigCfg exClock exCtx1 { exSigned (some [1, 2]) with headers := (exSigned (some [1, 2])).headers ++ [(b "X-New", [b "v"])] } ∧
      hashBodyVerify exSigCfg exCrypto (some [1, 2]) = hashBodyVerify exSigCfg exCrypto (some [1, 2]))
    ∨ ShaCollision exCrypto ∨ HmacCollision exCrypto :=
  tamper_rejected_or_collision exSigCfg exCrypto exClock 5 (exSigned (some [1, 2]))
    { exSigned (some [1, 2]) with headers := (exSigned (some [1, 2])).headers ++ [(b "X-New", [b "v"])] }
    (some [1, 2]) (some [1, 2]) exCtx1 (by decide) (by decide) (by decide) (by decide) (by decide) (by decide) (by decide)

end Concrete

/-! ## 7. Regenerated tie by translation — validator package (`notes/IR.md`, `harness/factextract/facts_c06_ir.go`)

`Gen.FactsC06IR` (basicauth.go), `Gen.FactsC06JwtIR` (jwt.go), `Gen.FactsC06HandleIR` (validator.go), `Gen.FactsC06HdrIR`
(httpheader/validator.go) are re-translated on every run from the current bodies of the Go functions (go/ast → Lean,
`harness/factextract/irlib.go`); each theorem says the generated definition is the hand-written model function on
every input and every oracle. Proofs: `Proofs/ValidatorIR.lean` (same theorem names). -/
section ValidatorIR
open EgVerif.Gen

/-- `parseCredentials` = `parseCreds` (split at the first colon only) -/
theorem parseCredentials_regenerated_from_source (creds : Bytes) :
    FactsC06IR.extractionFailed = false ∧ FactsC06IR.parseCredentialsIR creds = parseCreds creds :=
  ⟨by decide, Validator.parseCredentials_regenerated_from_source creds⟩

/-- `parseBasicAuthorizationHeader` = strip the `Basic ` prefix of the Authorization header, error if absent -/
theorem parseBasicAuthorizationHeader_regenerated_from_source (h : Header) :
    FactsC06IR.extractionFailed = false ∧
    FactsC06IR.parseBasicAuthorizationHeaderIR h = Validator.parseBasicAuthorizationHeader h :=
  ⟨by decide, Validator.parseBasicAuthorizationHeader_regenerated_from_source h⟩

/-- `BasicAuthValidator.Validate`: accepted iff the model accepts; the only header written is `X-AUTH-USER: <user id>` -/
theorem basicValidate_regenerated_from_source (users : Bytes → Bytes → Bool) (h : Header) :
    FactsC06IR.extractionFailed = false ∧
    FactsC06IR.basicValidateIR users h = (basicValidate users h).map (fun u => [(b "X-AUTH-USER", u)]) :=
  ⟨by decide, Validator.basicValidate_regenerated_from_source users h⟩

/-- the key function handed to `jwt.Parse` pins the configured algorithm and returns the configured secret -/
theorem jwtKeyFunc_regenerated_from_source (cfg : JwtCfg) (alg : Bytes) :
    FactsC06JwtIR.extractionFailed = false ∧ FactsC06JwtIR.jwtKeyFuncIR cfg alg = jwtKeyFunc cfg alg :=
  ⟨by decide, Validator.jwtKeyFunc_regenerated_from_source cfg alg⟩

/-- `JWTValidator.Validate` (token source: non-empty cookie, else `Authorization: Bearer …`) returns an error iff
`jwtValidate` rejects -/
theorem jwtValidate_regenerated_from_source (cfg : JwtCfg) (lib : JwtLib) (cookie : Bytes → Option Bytes) (h : Header) :
    FactsC06JwtIR.extractionFailed = false ∧ FactsC06JwtIR.jwtValidateIR cfg lib cookie h = !jwtValidate cfg lib cookie h :=
  ⟨by decide, Validator.jwtValidate_regenerated_from_source cfg lib cookie h⟩

/-- `httpheader.Validator.Validate` returns an error iff some configured header rule fails on the header's first value -/
theorem headerValidate_regenerated_from_source (re : Bytes → Bytes → Bool) (h : Header) (rules : List HeaderRule) :
    FactsC06HdrIR.extractionFailed = false ∧ FactsC06HdrIR.headerValidateIR re h rules = !headersOK re h rules :=
  ⟨by decide, Validator.headerValidate_regenerated_from_source re h rules⟩

/-- `Validator.Handle` for a buffered request (OAuth2 validator, if configured, in JWT mode): the returned string and the status
of the response it sets are those of `handle` (order headers → JWT → signature → OAuth2 → Basic, first failure wins, 400 for header
rules / 401 otherwise, `"invalid"` / `""`, `Verify` reads the payload); `prepareErrorResponse` sets exactly the status
it is given. -/
theorem handle_regenerated_from_source (cfg : Validator.Cfg) (env : Env) (r : Request) :
    FactsC06HandleIR.extractionFailed = false ∧ (∀ st, FactsC06HandleIR.prepareErrorResponseIR st = some st) ∧
    FactsC06HandleIR.handleIR cfg env r false = Validator.outcomeGo (handle cfg env r) :=
  ⟨by decide, Validator.prepareErrorResponse_regenerated_from_source, Validator.handle_regenerated_from_source cfg env r⟩

/-- `OAuth2Validator.Validate` in JWT mode (no introspection endpoint): bearer token, `jwt.Parse` with the key function literal
(= `jwtKeyFunc`: algorithm pinned, configured secret); on success exactly the headers `oauthHeaders sub scope` are set. It accepts
iff the model's `oauthValidate` (the `handle` branch) does. -/
theorem oauthValidate_regenerated_from_source (cfg : JwtCfg) (lib : JwtLib) (cs : Bytes → Bytes → Bytes) (h : Header) :
    FactsC06OAuthIR.extractionFailed = false ∧ (∀ alg, FactsC06OAuthIR.oauthKeyFuncIR cfg alg = jwtKeyFunc cfg alg) ∧
    FactsC06OAuthIR.oauthValidateIR cfg lib none cs h =
      (match stripPrefix (b "Bearer ") (hget h authHeader) with
       | none => none
       | some t => if jwtParse lib t (jwtKeyFunc cfg) then some (oauthHeaders (cs t (b "sub")) (cs t (b "scope"))) else none) ∧
    (FactsC06OAuthIR.oauthValidateIR cfg lib none cs h).isSome = oauthValidate cfg lib h :=
  ⟨by decide, Validator.oauthKeyFunc_regenerated_from_source cfg, Validator.oauthValidate_regenerated_from_source cfg lib cs h,
   Validator.oauthValidate_accepts_iff cfg lib cs h⟩

example : FactsC06OAuthIR.oauthValidateIR ⟨b "HS256", [1], []⟩ ⟨fun _ => some (b "HS256"), fun _ => true, fun _ _ _ => true⟩ none
    (fun _ k => if k = b "sub" then b "alice" else []) [(b "Authorization", [b "Bearer x.y.z"])]
    = some [(b "X-Authenticated-Userid", b "alice")] := by decide
example : FactsC06OAuthIR.oauthValidateIR ⟨b "HS256", [1], []⟩ ⟨fun _ => some (b "none"), fun _ => true, fun _ _ _ => true⟩ none
    (fun _ _ => []) [(b "Authorization", [b "Bearer x.y."])] = none := by decide

/-- `Validator.reload` constructs exactly the configured components, each **fresh** by its constructor (in particular
`NewBasicAuthValidator`: own user cache + watcher per generation — the premise of `basic_history_current_table`); `Init` and
`Inherit` only call `reload()`, `Inherit` never mentions the previous generation (a change like seeded C06-m5 cannot be translated
with this binding and breaks the obligation). -/
theorem validatorReload_regenerated_from_source (hd jw sg oa ba : Bool) :
    FactsC06ReloadIR.extractionFailed = false ∧ FactsC06ReloadIR.validatorReloadIR hd jw sg oa ba = (hd, jw, sg, oa, ba) ∧
    FactsC06ReloadIR.validatorInitIR () = true ∧ FactsC06ReloadIR.validatorInheritIR () = true :=
  ⟨by decide, Validator.validatorReload_regenerated_from_source hd jw sg oa ba, Validator.validatorInherit_regenerated_from_source⟩

-- non-vacuity: the generated definitions compute (accepted / rejected inputs)
example : FactsC06IR.parseCredentialsIR (b "user:pa:ss") = some (b "user", b "pa:ss") := by decide
example : FactsC06IR.parseCredentialsIR (b "nocolon") = none := by decide
example : FactsC06IR.basicValidateIR (fun u p => u = b "user" && p = b "pa:ss")
    [(b "Authorization", [b "Basic dXNlcjpwYTpzcw=="])] = some [(b "X-AUTH-USER", b "user")] := by decide
example : FactsC06JwtIR.jwtKeyFuncIR ⟨b "HS256", [1], []⟩ (b "none") = none := by decide
example : FactsC06HdrIR.headerValidateIR (fun _ _ => false) [(b "X-Env", [b "prod"])] [⟨b "x-env", [b "prod"], none⟩] = false := by decide
example : FactsC06HdrIR.headerValidateIR (fun _ _ => false) [(b "X-Env", [b "prod"])] [⟨b "x-env", [b "stage"], none⟩] = true := by decide
example : FactsC06HandleIR.handleIR exCfg (exEnv true true) exReq false = ([], none) := by decide
example : FactsC06HandleIR.handleIR { exCfg with basic := true } (exEnv true true) exReq false = (b "invalid", some 401) := by decide
example : FactsC06HandleIR.handleIR { exCfg with headers := some [⟨b "x-env", [b "stage"], none⟩] } (exEnv true true) exReq false
    = (b "invalid", some 400) := by decide

end ValidatorIR

/-! ## 8. Regenerated tie by translation — package `pkg/util/signer` (`harness/factextract/facts_c06_signer_ir.go`)

`Gen.FactsC06SignerIR.*IR` are re-translated on every run from the current bodies in `signer.go`. Proofs:
`Proofs/SignerIR.lean`. -/
section SignerIR
open EgVerif.Gen

/-- `getCanonicalQuery` = `canonQuery`: `Signature` parameter deleted; presign mode sets the five signature parameters
(expires in whole seconds, `FormatInt(…, 10)`), header mode deletes them; every value list sorted; `Values.Encode` -/
theorem getCanonicalQuery_regenerated_from_source (lit : Literal) (clock : Clock) (t : Int) (scope : Bytes)
    (isPresign : Bool) (keyId : Bytes) (expire : Int) (signedHeaders : Bytes) (q : Header) :
    FactsC06SignerIR.extractionFailed = false ∧
    FactsC06SignerIR.getCanonicalQueryIR lit clock t scope isPresign keyId expire signedHeaders q =
      canonQuery lit clock t scope (if isPresign then some ⟨keyId, expire, signedHeaders⟩ else none) q :=
  ⟨by decide, Signer.getCanonicalQuery_regenerated_from_source lit clock t scope isPresign keyId expire signedHeaders q⟩

/-- `initFromQuery` = the model's (algorithm parameter, credential split at `/` with ≥ 3 parts, **the credential's date must
prefix the date parameter**, date and expires must parse) -/
theorem initFromQuery_regenerated_from_source (lit : Literal) (clock : Clock) (req : Req) :
    FactsC06SignerIR.extractionFailed = false ∧ FactsC06SignerIR.initFromQueryIR lit clock req = initFromQuery lit clock req :=
  ⟨by decide, Signer.initFromQuery_regenerated_from_source lit clock req⟩

/-- `initFromHeader` = the model's (`<alg> Credential=…, SignedHeaders=…, Signature=…`, index-based slicing ≡ the model's
structural splitting; **the credential's date must prefix the date header**, which must parse) -/
theorem initFromHeader_regenerated_from_source (lit : Literal) (clock : Clock) (req : Req) :
    FactsC06SignerIR.extractionFailed = false ∧ FactsC06SignerIR.initFromHeaderIR lit clock req = initFromHeader lit clock req :=
  ⟨by decide, Signer.initFromHeader_regenerated_from_source lit clock req⟩

/-- `initFromSignedRequest` (as repaired) = the model's: **a raw query that does not parse completely is refused first**, then
header / presign mode by the Authorization header; `ctx.CanonicalHeaders` is rebuilt from the signed-header list (`verifyLines`) -/
theorem initFromSignedRequest_regenerated_from_source (lit : Literal) (clock : Clock) (req : Req) :
    FactsC06SignerIR.extractionFailed = false ∧
    FactsC06SignerIR.initFromSignedRequestIR lit clock req =
      match initFromSignedRequest lit clock req with
      | .error e => (some e, exceptCtx (.error .badQuery), [])
      | .ok c => (none, c, (verifyLines req c.signedHeaders).flatten) :=
  ⟨by decide, Signer.initFromSignedRequest_regenerated_from_source lit clock req⟩

/-- `Signer.Verify` = `verify`: TTL window `-ttl ≤ now − t ≤ ttl` when a TTL is set, presign expiry, key lookup, body hash
recomputed (`hashBody(req, true)`), recomputed signature compared for (in)equality, errors in this order -/
theorem verify_regenerated_from_source (cfg : Signer.Cfg) (cr : Crypto) (clock : Clock) (now : Int) (req : Req) (body : Option Bytes) :
    FactsC06SignerIR.extractionFailed = false ∧ FactsC06SignerIR.verifyIR cfg cr clock now req body = verify cfg cr clock now req body :=
  ⟨by decide, Signer.verify_regenerated_from_source cfg cr clock now req body⟩

set_option maxRecDepth 100000 in
-- non-vacuity: the generated `Verify` accepts the signed example request and rejects it outside the TTL window
example : (FactsC06SignerIR.verifyIR exSigCfg exCrypto exClock 5 (exSigned (some [1, 2])) (some [1, 2])).toBool = true := by decide
set_option maxRecDepth 100000 in
example : FactsC06SignerIR.verifyIR exSigCfg exCrypto exClock 601000000000 (exSigned none) (some []) = .error .expired := by decide
example : (FactsC06SignerIR.getCanonicalQueryIR defaultLiteral exClock 0 (b "s") false [] 0 []
    [(b "x", [b "2", b "1"]), (b "X-Me-Signature", [b "zz"])]).1 = b "x=1&x=2" := by decide

/-- the `noEscapeChars` table that `init()` fills is `isUnreserved` (A–Z a–z 0–9 `-` `.` `_` `~`) -/
theorem noEscape_regenerated_from_source (c : UInt8) :
    FactsC06CanonIR.extractionFailed = false ∧ FactsC06CanonIR.noEscapeIR (Int.ofNat c.toNat) = isUnreserved c :=
  ⟨by decide, Signer.noEscape_regenerated_from_source c⟩

/-- `buildCanonicalURI` (byte loop: unreserved bytes and `/` copied, everything else `%XX` upper-case hex; empty path → `/`)
= `canonURI`, for `u.Opaque = ""` (true for every request that reaches a filter; the judge checks it on every case) -/
theorem buildCanonicalURI_regenerated_from_source (epath : Bytes) :
    FactsC06CanonIR.extractionFailed = false ∧ FactsC06CanonIR.buildCanonicalURIIR [] epath = canonURI epath :=
  ⟨by decide, Signer.buildCanonicalURI_regenerated_from_source epath⟩

/-- `buildCanonicalHeaders` (no header hoisting): host first, every non-ignored header as (lower-cased name, canonical value),
sorted by name (`sort.Slice` as an oracle with the stated contract), names joined by `;`, lines `name:value\n`; the query is
not touched -/
theorem buildCanonicalHeaders_regenerated_from_source (cfg : Signer.Cfg) (req : Req) (q : Header) :
    FactsC06CanonIR.extractionFailed = false ∧
    FactsC06CanonIR.buildCanonicalHeadersIR cfg (fun _ => false) req q =
      (signedHeadersOf (signPairs cfg req), canonHeadersOf (signPairs cfg req), q) :=
  ⟨by decide, Signer.buildCanonicalHeaders_regenerated_from_source cfg req q⟩

/-- `getHost` = the model's: `req.Host`, else `URL.Host`; an empty or default port (`:80` for http, `:443` for https) is cut off -/
theorem getHost_regenerated_from_source (req : Req) :
    FactsC06CanonIR.extractionFailed = false ∧ FactsC06CanonIR.getHostIR req = getHost req :=
  ⟨by decide, Signer.getHost_regenerated_from_source req⟩

/-- `buildCanonicalHeaderValue` = `canonValue`: per value leading / trailing spaces trimmed and every run of spaces collapsed to
one, values joined by `,`. Its three inner loops are general `for` loops, translated as recursion on the fuel `len(str) + 1`;
`some` = the fuel always suffices. -/
theorem buildCanonicalHeaderValue_regenerated_from_source (strs : List Bytes) :
    FactsC06CanonIR.extractionFailed = false ∧ FactsC06CanonIR.buildCanonicalHeaderValueIR strs = some (canonValue strs) :=
  ⟨by decide, Signer.buildCanonicalHeaderValue_regenerated_from_source strs⟩

example : FactsC06CanonIR.buildCanonicalHeaderValueIR [b "  a   b  c ", b "x", b "   "] = some (b "a b c,x,") := by decide
example : FactsC06CanonIR.getHostIR ⟨b "GET", b "/", [], [], b "a.com:80", [], b "HTTP", false⟩ = b "a.com" := by decide
example : FactsC06CanonIR.getHostIR ⟨b "GET", b "/", [], [], [], b "[::1]:8080", b "http", false⟩ = b "[::1]:8080" := by decide
example : FactsC06CanonIR.buildCanonicalURIIR [] (b "/a b/~u") = b "/a%20b/~u" := by decide
example : FactsC06CanonIR.buildCanonicalURIIR [] [] = b "/" := by decide
example : (FactsC06CanonIR.buildCanonicalHeadersIR exSigCfg (fun _ => false) exSReq []).1 = b "content-type;host;x-a" := by decide

/-- what is hashed and MAC'ed, and in which order (`Gen.FactsC06SignIR`): `buildScopeString` = `scopeString`, `deriveSigningKey` =
the model's HMAC chain, `hashCanonicalRequest` = SHA-256 of `canonicalRequest`, `sign` = hex ∘ HMAC of `stringToSign`; hence the
model's `signature` is exactly what the four Go functions compute together. -/
theorem signature_regenerated_from_source (lit : Literal) (cr : Crypto) (clock : Clock) (secret : Bytes) (now t : Int)
    (scopes : List Bytes) (m uri cq ch sh bh : Bytes) :
    FactsC06SignIR.extractionFailed = false ∧
    FactsC06SignIR.buildScopeStringIR lit clock false now t scopes = (scopeString lit clock t scopes, t) ∧
    FactsC06SignIR.deriveSigningKeyIR lit cr clock secret t scopes = deriveSigningKey lit cr clock secret t scopes ∧
    FactsC06SignIR.hashCanonicalRequestIR cr m uri cq ch sh bh = cr.sha256hex (canonicalRequest m uri cq ch sh bh) ∧
    (∀ scope hcr key, FactsC06SignIR.signIR lit cr clock t scope hcr key = Sha256.hex (cr.hmac key (stringToSign lit clock t scope hcr))) ∧
    FactsC06SignIR.signIR lit cr clock t (FactsC06SignIR.buildScopeStringIR lit clock false now t scopes).1
        (FactsC06SignIR.hashCanonicalRequestIR cr m uri cq ch sh bh) (FactsC06SignIR.deriveSigningKeyIR lit cr clock secret t scopes)
      = signature lit cr clock secret t scopes (canonicalRequest m uri cq ch sh bh) :=
  ⟨by decide, Signer.buildScopeString_regenerated_from_source lit clock now t scopes,
   Signer.deriveSigningKey_regenerated_from_source lit cr clock secret t scopes,
   Signer.hashCanonicalRequest_regenerated_from_source cr m uri cq ch sh bh,
   fun scope hcr key => Signer.sign_regenerated_from_source lit cr clock t scope hcr key,
   Signer.signature_regenerated_from_source lit cr clock secret now t scopes m uri cq ch sh bh⟩

example : (FactsC06SignIR.buildScopeStringIR defaultLiteral exClock false 0 0 [b "eu", b "s3"]).1 = b "20220101/eu/s3/megaease_request" := by
  decide

end SignerIR

end EgVerif.C06
