import EgVerif.Proofs.Delivery
import EgVerif.Proofs.SessionQueueExt
import EgVerif.Proofs.SessionQueueIR
import EgVerif.Gen.FactsC15
/-!
# C15 — MQTT delivery: every eligible subscriber gets each message; QoS1 at-least-once

Property theorems about `Model/Delivery.lean` (fan-out of `Broker.sendMsgToClient`, validation of
`httpTopicsPublishHandler`) and `Model/SessionQueue.lean` (`Session.publish / puback / doResend`, inbound
PUBLISH handling of client.go), for **every** subscription history, **every** visiting order of the
subscriber map, **every** trace of publish / puback / tick events. Helper lemmas: `Proofs/Delivery.lean`.

The model mirrors the *repaired* code (`fixes/C15-fanout-continue.patch`, `fixes/C15-addclients-maxqos.patch`);
the unrepaired loop (`sendOld`) and map collapse (`collapseLast`) are kept for the refutations at the end.

Partial (trusted / sampled, not proved): TCP, the 200 ms ticker and goroutine scheduling (a *tick* is an
event of the model), `writeLoop` eventually draining `writeCh`; retransmission is proved in the head-of-line
reading (`every_pending_resent_until_acked_partial`).
-/
namespace EgVerif.C15
open EgVerif.Topic EgVerif.Delivery EgVerif.SessionQueue

/-! ### fan-out -/

/-- **Every eligible subscriber, in any visiting order.** After any subscription history `ops`, for any
message QoS `q`, any connectivity predicate and **any permutation** `order` of the subscriber map returned by
`findSubscribers` (Go map iteration order), `session.publish` is called for client `c` iff `c` is connected and
holds a live subscription matching the topic with QoS at least `q` — whatever the other subscribers are. -/
theorem send_all_eligible_any_order (ops : List Op) (lv : List Level) (q : QoS) (conn : Client → Bool)
    (order : List (Client × QoS))
    (hperm : List.Perm order (collapseMax (find (run State.init ops).trie lv))) (c : Client) :
    c ∈ send conn q order ↔
      conn c = true ∧ ∃ f sq, (f, c, sq) ∈ specRun [] ops ∧ «matches» f lv = true ∧ q ≤ sq := by
  rw [mem_send]
  constructor
  · rintro ⟨sq, hm, hq, hc⟩
    have hm' := (hperm.mem_iff).mp hm
    obtain ⟨⟨f, hf, hmat⟩, _⟩ := Topic.qos_is_own_max ops lv c sq hm'
    exact ⟨hc, f, sq, hf, hmat, hq⟩
  · rintro ⟨hc, f, sq, hf, hmat, hq⟩
    have hhit : (c, sq) ∈ find (run State.init ops).trie lv :=
      (Topic.routing_after_any_history ops lv (c, sq)).mpr ((Topic.mem_specFind _ _ _).mpr ⟨f, hf, hmat⟩)
    obtain ⟨mx, hmx⟩ := ownMax_isSome_of_mem hhit
    have hle := (ownMax_some hmx).2 sq hhit
    exact ⟨mx, (hperm.mem_iff).mpr (mem_collapseMax.mpr hmx), Nat.le_trans hq hle, hc⟩

/-- the executable `eligible` of the judge is that right-hand side -/
theorem eligible_iff (s : Subs) (conn : Client → Bool) (lv : List Level) (q : QoS) (c : Client) :
    eligible s conn lv q c = true ↔
      conn c = true ∧ ∃ f sq, (f, c, sq) ∈ s ∧ «matches» f lv = true ∧ q ≤ sq := by
  simp only [eligible, Bool.and_eq_true, List.any_eq_true, decide_eq_true_eq]
  constructor
  · rintro ⟨hc, ⟨f, c', sq⟩, hm, ⟨⟨e, hmat⟩, hq⟩⟩
    simp only at e hmat hq; subst e
    exact ⟨hc, f, sq, hm, hmat, hq⟩
  · rintro ⟨hc, f, sq, hm, hmat, hq⟩
    exact ⟨hc, (f, c, sq), hm, ⟨⟨rfl, hmat⟩, hq⟩⟩

/-- …and each of them is handed the message exactly once per fan-out. -/
theorem send_once (l : List (Client × QoS)) (q : QoS) (conn : Client → Bool) (order : List (Client × QoS))
    (hperm : List.Perm order (collapseMax l)) : (send conn q order).Nodup := by
  have : (order.map Prod.fst).Nodup := (hperm.map Prod.fst).nodup_iff.mpr (collapseMax_nodup l)
  exact List.Nodup.sublist (send_sublist conn q order) this

/-- a malformed topic reaches nobody (`findSubscribers` error ⇒ `return`) -/
theorem fanout_malformed (t : Trie) (conn : Client → Bool) (topic : List Char) (q : QoS)
    (order : List (Client × QoS) → List (Client × QoS)) (h : wellFormed topic = false) :
    fanout t conn topic q order = [] := by
  have : split topic = none := by rw [split_eq]; simp [h]
  simp [fanout, this]

/-- `httpTopicsPublishHandler` hands a request to the fan-out iff it is a POST with decodable JSON, QoS in
0..2 and (when flagged base64) a decodable payload; everything else is answered 400 and delivered to nobody. -/
theorem http_accepts_iff (r : HttpReq) :
    httpAccepts r = true ↔
      r.method = "POST" ∧ r.jsonOK = true ∧ 0 ≤ r.qos ∧ r.qos ≤ 2 ∧ (r.base64 = true → r.b64OK = true) := by
  unfold httpAccepts
  by_cases h1 : r.method = "POST" <;> by_cases h2 : r.jsonOK = true <;> by_cases h3 : r.qos < 0 <;>
    by_cases h4 : r.qos > 2 <;> by_cases h5 : r.base64 = true <;> by_cases h6 : r.b64OK = true <;>
    simp [h1, h2, h3, h4, h5, h6] <;> omega

example : send (fun _ => true) 1 [("c1", 0), ("c2", 1)] = ["c2"] := by decide
example : send (fun c => c != "c3") 0 [("c1", 0), ("c3", 1), ("c2", 1)] = ["c1", "c2"] := by decide

/-! ### session queue: QoS0 drop, QoS1 retransmission -/

/-- A QoS0 copy is dropped **only** when the client's outbound queue is full; a QoS1 copy is always
written (and remembered as pending under the id it was sent with). -/
theorem qos0_drop_only_when_full (s : Sess) (m : Msg) (full : Bool) (h : m.qos = 0) :
    ((publish true full m s).2 = [] ↔ full = true) ∧
      (full = false → (publish true full m s).2 = [pkt s.nextID m]) := by
  cases full <;> simp [publish, h]

theorem qos1_always_written (s : Sess) (m : Msg) (full : Bool) (h : m.qos = 1) :
    (publish true full m s).2 = [pkt s.nextID m] ∧
      alGet s.nextID (publish true full m s).1.pending = some m := by
  simp [publish, h, pkt, alGet_alSet]

/-- `NoWrap tr`: fewer than 65 536 packet ids are consumed over the trace (the uint16 counter does not
lap a still-pending message). -/
def NoWrap (tr : List Ev) : Prop := consumed 0 tr ≤ idMod

/-- **Resend the oldest unacknowledged message, nothing else.** After any trace of publishes (any QoS,
online or offline, queue full or not), PUBACKs (any ids, also bogus ones) and ticks, a resend tick writes
exactly the oldest QoS1 message not yet acknowledged — same id, topic, payload — if the client is online,
and nothing if there is none. -/
theorem resend_oldest_unacked (tr : List Ev) (h : NoWrap tr) (online : Bool) :
    (doResend online (SessionQueue.run Sess.init tr)).2 = specTick online (unacked tr).2 :=
  (doResend_spec (qinv_run tr qinv_init h) online).1

theorem mem_unackedFrom_puback (rest : List Ev) : ∀ (st : Nat × List (Id × Msg)) (i : Id),
    i < st.1 → i ∉ st.2.map Prod.fst → consumed st.1 rest ≤ idMod →
    i ∉ (unackedFrom st rest).2.map Prod.fst := by
  induction rest with
  | nil => intro st i _ h _; simpa [unackedFrom] using h
  | cons e r ih =>
    intro st i hlt hni hc
    simp only [unackedFrom]
    cases e with
    | publish online full m =>
      cases online with
      | false =>
        have e : unackedStep st (.publish false full m) = st := rfl
        rw [e]
        exact ih st i hlt hni (by simpa [consumed] using hc)
      | true =>
        have hc' : consumed (st.1 + 1) r ≤ idMod := by simpa [consumed] using hc
        have hlim : st.1 < idMod := by have := consumed_mono r (st.1 + 1); omega
        apply ih _ i
        · simp only [unackedStep, if_true]; exact Nat.lt_succ_of_lt hlt
        · simp only [unackedStep, if_true]
          split
          · rw [List.map_append, List.mem_append, not_or]
            refine ⟨hni, ?_⟩
            simp only [List.map_cons, List.map_nil, List.mem_singleton, Nat.mod_eq_of_lt hlim]
            exact Nat.ne_of_lt hlt
          · exact hni
        · simpa [unackedStep] using hc'
    | puback j =>
      apply ih _ i (by simpa [unackedStep] using hlt) _ (by simpa [unackedStep, consumed] using hc)
      simp only [unackedStep]
      intro hm
      obtain ⟨e, he, e2⟩ := List.mem_map.mp hm
      exact hni (List.mem_map.mpr ⟨e, (List.mem_filter.mp he).1, e2⟩)
    | tick o =>
      have e : unackedStep st (.tick o) = st := rfl
      rw [e]
      exact ih st i hlt hni (by simpa [consumed] using hc)

theorem unackedFrom_append (a b : List Ev) : ∀ st, unackedFrom st (a ++ b) = unackedFrom (unackedFrom st a) b := by
  induction a with
  | nil => intro st; rfl
  | cons e r ih => intro st; simp only [List.cons_append, unackedFrom, ih]

theorem consumed_append (a b : List Ev) : ∀ n, consumed n (a ++ b) = consumed (consumed n a) b := by
  induction a with
  | nil => intro n; rfl
  | cons e r ih =>
    intro n
    cases e with
    | publish online full m => cases online <;> simp [consumed, ih]
    | puback i => simp [consumed, ih]
    | tick o => simp [consumed, ih]

theorem unackedFrom_fst (tr : List Ev) : ∀ st, (unackedFrom st tr).1 = consumed st.1 tr := by
  induction tr with
  | nil => intro st; rfl
  | cons e r ih =>
    intro st
    cases e with
    | publish online full m => cases online <;> simp [unackedFrom, unackedStep, consumed, ih]
    | puback i => simp [unackedFrom, unackedStep, consumed, ih]
    | tick o => simp [unackedFrom, unackedStep, consumed, ih]

/-- **No resend after the acknowledgement.** Once the client has acknowledged packet id `i` (an id that
had been issued), no later tick — whatever happens in between — writes a packet with id `i` again. -/
theorem no_resend_after_ack (tr rest : List Ev) (i : Id) (hi : i < (unacked tr).1)
    (h : NoWrap (tr ++ .puback i :: rest)) (online : Bool) :
    ∀ p ∈ (doResend online (SessionQueue.run Sess.init (tr ++ .puback i :: rest))).2, p.id ≠ i := by
  rw [resend_oldest_unacked _ h]
  have hnot : i ∉ (unacked (tr ++ .puback i :: rest)).2.map Prod.fst := by
    unfold unacked
    rw [unackedFrom_append]
    simp only [unackedFrom]
    apply mem_unackedFrom_puback rest _ i
    · show i < (unackedFrom (0, []) tr).1
      exact hi
    · simp only [unackedStep]
      intro hm
      obtain ⟨e, he, e2⟩ := List.mem_map.mp hm
      have := (List.mem_filter.mp he).2
      simp only [ne_eq, decide_not, Bool.not_eq_eq_eq_not, Bool.not_true, decide_eq_false_iff_not] at this
      exact this e2
    · unfold NoWrap at h
      rw [consumed_append] at h
      simp only [unackedStep]
      rw [unackedFrom_fst]
      simpa [consumed] using h
  intro p hp
  cases hu : (unacked (tr ++ .puback i :: rest)).2 with
  | nil => rw [hu] at hp; simp [specTick] at hp
  | cons e r =>
    rw [hu] at hp hnot
    simp only [specTick] at hp
    split at hp
    · simp only [List.mem_singleton] at hp
      subst hp
      intro e2
      apply hnot
      simp only [List.map_cons, List.mem_cons]
      left; simpa [pkt] using e2.symm
    · simp at hp

/-- **Retransmitted until acknowledged — head-of-line reading (partial).** While message `(i, m)` is the
oldest unacknowledged one (all earlier QoS1 messages to this client are acknowledged), *every* tick with
the client online re-sends it; by `resend_oldest_unacked` nothing younger is re-sent before that.
NOT proved (and false for this code): "every unacknowledged message is re-sent at every tick" — `doResend`
sends one message per 200 ms tick, so a younger message waits for the acknowledgement of the older ones. -/
theorem every_pending_resent_until_acked_partial (tr : List Ev) (h : NoWrap tr) (i : Id) (m : Msg)
    (u : List (Id × Msg)) (hu : (unacked tr).2 = (i, m) :: u) :
    (doResend true (SessionQueue.run Sess.init tr)).2 = [pkt i m] := by
  rw [resend_oldest_unacked tr h, hu]; rfl

/-- a tick does not change which messages are unacknowledged: the head stays the head until its PUBACK -/
theorem tick_keeps_unacked (tr : List Ev) (online : Bool) :
    (unacked (tr ++ [.tick online])).2 = (unacked tr).2 := by
  unfold unacked; rw [unackedFrom_append]; rfl

/-- **Packet ids of pending messages are pairwise distinct** (fewer than 65 536 ids consumed), and the
session's `pending` map is exactly the list of unacknowledged QoS1 messages. -/
theorem packet_ids_distinct_while_pending (tr : List Ev) (h : NoWrap tr) :
    ((unacked tr).2.map Prod.fst).Nodup ∧ (SessionQueue.run Sess.init tr).pending = (unacked tr).2 :=
  let inv := qinv_run tr qinv_init h
  ⟨inv.nd, inv.pend⟩

/-! ### client → broker QoS1 PUBLISH -/

/-- **PUBACK with the same id iff limiter and pipeline passed.** For a QoS1 PUBLISH with packet id `i`: a
PUBACK is written iff the publish limiter admitted the packet and the Publish pipeline (if configured) set
neither Drop nor Disconnect, and then it carries exactly `i`; the backend pipeline is invoked iff the
limiter admitted the packet (and a pipeline is configured). QoS0 is never acknowledged. -/
theorem puback_same_id_iff_passed (limiterOK : Bool) (v : PipeVerdict) (i : Id) :
    ((onPublish limiterOK v 1 i).puback = some i ↔
        limiterOK = true ∧ (v = .ok ∨ v = .notConfigured)) ∧
    (∀ j, (onPublish limiterOK v 1 i).puback = some j → j = i) ∧
    ((onPublish limiterOK v 1 i).handed = true ↔ limiterOK = true ∧ v ≠ .notConfigured) ∧
    (onPublish limiterOK v 0 i).puback = none := by
  cases limiterOK <;> cases v <;> simp [onPublish]

/-! ### regenerated source facts -/

theorem source_facts :
    Gen.FactsC15.extractionFailed = false ∧
    Gen.FactsC15.fanoutLoopReturns = 0 ∧ Gen.FactsC15.fanoutLoopContinues = 1 ∧
    Gen.FactsC15.fanoutLoopFirstCond = "subQoS < qos" ∧ Gen.FactsC15.fanoutLoopPublishCalls = 1 ∧
    Gen.FactsC15.addClientsGtComparisons = 1 ∧
    Gen.FactsC15.publishSelectDefault = 1 ∧ Gen.FactsC15.publishWritePacketCalls = 1 ∧
    Gen.FactsC15.publishLocksSession = true ∧ Gen.FactsC15.doResendWritePacketCalls = 1 ∧
    Gen.FactsC15.writeChCap = 50 ∧ Gen.FactsC15.resendTicker = "200 * time.Millisecond" ∧
    Gen.FactsC15.httpHandlerConds = ["r.Method != http.MethodPost", "err != nil",
      "data.QoS < int(QoS0) || data.QoS > int(QoS2)", "data.Base64", "!data.Distributed"] ∧
    Gen.FactsC15.httpHandlerAsyncSend = 1 ∧ Gen.FactsC15.pubackCopiesId = true := by decide

/-! ### Non-vacuity, and refutation of the unrepaired code -/

private def m1 : Msg := ⟨"t", "x", 1⟩
private def m2 : Msg := ⟨"t", "y", 1⟩
private def m0 : Msg := ⟨"t", "z", 0⟩
private def tr1 : List Ev :=
  [.publish true false m1, .publish true true m0, .publish true false m2, .tick true, .puback 0, .tick true]

example : NoWrap tr1 := by unfold NoWrap; decide
/-- m1 gets id 0, the dropped QoS0 copy still consumes id 1, m2 gets id 2; first tick re-sends m1, after
its PUBACK the second tick re-sends m2 -/
example : outputs Sess.init tr1 = [pkt 0 m1, pkt 2 m2, pkt 0 m1, pkt 2 m2] := by decide
example : (unacked tr1).2 = [(2, m2)] := by decide

/-- **Defect (i), unrepaired `sendMsgToClient`**: with the subscriber map `{c1:0, c2:1}` and a QoS1 message,
visiting `c1` first ends the loop and the eligible `c2` gets nothing; the other order serves it. The
repaired loop serves `c2` in both orders (`send_all_eligible_any_order`). -/
example : sendOld (fun _ => true) 1 [("c1", 0), ("c2", 1)] = [] ∧
    sendOld (fun _ => true) 1 [("c2", 1), ("c1", 0)] = ["c2"] ∧
    send (fun _ => true) 1 [("c1", 0), ("c2", 1)] = ["c2"] := by decide

/-- **Defect (ii), unrepaired `addClients`**: a client subscribed to `a/+`@0 and `a/b`@1; for topic `a/b`
the hits are `[(c,1),(c,0)]` in one visiting order and the map keeps QoS 0, so a QoS1 message skips the
client although it holds a matching QoS1 subscription. `collapseMax` keeps 1 in every order. -/
example : collapseLast [("c", 1), ("c", 0)] = [("c", 0)] ∧ collapseLast [("c", 0), ("c", 1)] = [("c", 1)] ∧
    collapseMax [("c", 1), ("c", 0)] = [("c", 1)] ∧ collapseMax [("c", 0), ("c", 1)] = [("c", 1)] ∧
    send (fun _ => true) 1 (collapseLast [("c", 1), ("c", 0)]) = [] := by decide

/-! ### Extension mqtt: packet ids, wrap-around, retransmission of every pending message

Behaviour that DESIGN §10.3 recorded only as observations, now theorems about the model (which the
in-process correspondence run ties to `session.go`), with NO `NoWrap` hypothesis where it says so. -/

/-- **First packet id is 0.** The first PUBLISH a fresh session sends carries packet id 0 (MQTT 3.1.1 §2.3.1
asks for a non-zero id when QoS > 0; the C15 statement does not, so this stays an observation — but a proved
one). -/
theorem first_qos1_id_zero (m : Msg) (full : Bool) (h : m.qos = 1) :
    (publish true full m Sess.init).2 = [pkt 0 m] := by
  simp [publish, h, Sess.init]

/-- **Packet-id allocation law, every trace (no `NoWrap`)**: the counter equals the number of online
publishes of *any* QoS (QoS0 copies, dropped or not, and QoS2 consume ids too) modulo 65 536, and the next
QoS1 PUBLISH carries exactly that id. -/
theorem packet_id_is_publish_count_mod (tr : List Ev) (m : Msg) (full : Bool) (h : m.qos = 1) :
    (SessionQueue.run Sess.init tr).nextID = consumed 0 tr % idMod ∧
    (publish true full m (SessionQueue.run Sess.init tr)).2 = [pkt (consumed 0 tr % idMod) m] := by
  have e := nextID_run tr Sess.init 0 rfl
  exact ⟨e, by rw [publish_qos1_out _ _ _ h, e]⟩

/-- **Wrap-around onto a still-pending id (one step, every state).** When the uint16 counter has come round
to an id whose message is still unacknowledged, the next online QoS1 publish replaces that message in
`pending` (same key set — no second entry) and queues the id again: the older message can never be re-sent. -/
theorem wrap_overwrites_pending (s : Sess) (m m' : Msg) (full : Bool)
    (hp : alGet s.nextID s.pending = some m) (h1 : m'.qos = 1) :
    alGet s.nextID (publish true full m' s).1.pending = some m' ∧
    (publish true full m' s).1.pending.map Prod.fst = s.pending.map Prod.fst ∧
    (publish true full m' s).1.queue = s.queue ++ [s.nextID] :=
  wrap_overwrites_pending_step s m m' full hp h1

/-- **The wrap is reachable and loses a message (violation of "retransmitted until acknowledged").**
History from a fresh session: QoS1 message `m` (never acknowledged), 65 535 further online publishes of other
QoS to the same client (`l`, dropped or not), QoS1 message `m'`. Then (1) `pending = [(0, m')]`; (2) whatever
PUBACKs and however many ticks follow, every packet written is `m'` — `m` is never retransmitted although it
was never acknowledged; (3) the specification's bookkeeping still lists `m` as the oldest unacknowledged
message, so `resend_oldest_unacked` is false for this trace (which is why it carries `NoWrap`); (4) the trace
consumes 65 537 ids, just outside `NoWrap`. Known finding `C15-id-wrap-overwrites-pending`. -/
theorem wrap_loses_unacked_message (f f' : Bool) (m m' : Msg) (l : List (Bool × Msg)) (h1 : m.qos = 1)
    (h1' : m'.qos = 1) (hl : ∀ p ∈ l, p.2.qos ≠ 1) (hlen : l.length = 65535) :
    (SessionQueue.run Sess.init (wrapTrace f f' m m' l)).pending = [(0, m')] ∧
    (∀ rest, NoPublish rest →
      ∀ p ∈ outputs (SessionQueue.run Sess.init (wrapTrace f f' m m' l)) rest, p = pkt 0 m') ∧
    (doResend true (SessionQueue.run Sess.init (wrapTrace f f' m m' l))).2 = [pkt 0 m'] ∧
    specTick true (unacked (wrapTrace f f' m m' l)).2 = [pkt 0 m] ∧
    ¬ NoWrap (wrapTrace f f' m m' l) := by
  obtain ⟨hp, hq, hn⟩ := wrap_state f f' m m' l h1 h1' hl hlen
  refine ⟨hp, fun rest hr => wrap_never_resends_old f f' m m' l h1 h1' hl hlen rest hr, ?_, ?_, ?_⟩
  · unfold doResend
    rw [hp, hq]
    simp [firstPending, alGet, pkt]
  · rw [wrap_unacked f f' m m' l h1 h1' hl hlen]; rfl
  · unfold NoWrap
    have : consumed 0 (wrapTrace f f' m m' l) = 65537 := by
      have := unackedFrom_fst (wrapTrace f f' m m' l) (0, [])
      have e2 : (unackedFrom (0, []) (wrapTrace f f' m m' l)).1 = 65537 := by
        simp only [wrapTrace, unackedFrom, unackedStep, if_true]
        rw [unackedFrom_append, unackedFrom_noise l hl]
        simp [unackedFrom, unackedStep, hlen]
      rw [← this]; exact e2
    rw [this]; decide

/-- **Who is re-sent at a tick: exactly the oldest unacknowledged message.** For an unacknowledged `(i, m)`,
the tick writes it iff it is the head of the unacknowledged list. -/
theorem resent_iff_oldest (tr : List Ev) (h : NoWrap tr) (i : Id) (m : Msg) :
    pkt i m ∈ (doResend true (SessionQueue.run Sess.init tr)).2 ↔ (unacked tr).2.head? = some (i, m) := by
  rw [resend_oldest_unacked tr h]
  cases hu : (unacked tr).2 with
  | nil => simp [specTick]
  | cons e r =>
    obtain ⟨j, mm⟩ := e
    simp only [specTick, if_true, List.mem_singleton, List.head?_cons, Option.some.injEq, Prod.mk.injEq]
    constructor
    · intro e
      obtain ⟨t1, p1, q1⟩ := m
      obtain ⟨t2, p2, q2⟩ := mm
      simp only [pkt, Packet.mk.injEq] at e
      obtain ⟨rfl, rfl, rfl, rfl⟩ := e
      exact ⟨rfl, rfl⟩
    · rintro ⟨rfl, rfl⟩; rfl

/-- acknowledging a prefix of the unacknowledged list makes the next message the head -/
theorem unackedFrom_ack_prefix (pre : List (Id × Msg)) : ∀ (n : Nat) (rest : List (Id × Msg)),
    ((pre ++ rest).map Prod.fst).Nodup →
    unackedFrom (n, pre ++ rest) (pre.map (fun e => Ev.puback e.1)) = (n, rest) := by
  induction pre with
  | nil => intro n rest _; rfl
  | cons e r ih =>
    intro n rest nd
    simp only [List.map_cons, unackedFrom, unackedStep, List.cons_append]
    rw [filter_head_nodup e (r ++ rest) (by simpa using nd)]
    apply ih
    simp only [List.cons_append, List.map_cons, List.nodup_cons] at nd
    exact nd.2

/-- **Retransmission of EVERY pending message (strongest true form).** Let `(i, m)` be any unacknowledged
message with older unacknowledged messages `pre` in front of it. Once the client has acknowledged those
(in any way that covers `pre`; here: one PUBACK each), *every* tick re-sends `(i, m)` until its own PUBACK
(`tick_keeps_unacked`, `no_resend_after_ack`). So each pending message is retransmitted at every tick from the
moment all older ones are acknowledged — not before (`resent_iff_oldest`, `starved_behind_unacked_head`). -/
theorem resent_once_older_acked (tr : List Ev) (h : NoWrap tr) (pre post : List (Id × Msg)) (i : Id) (m : Msg)
    (hu : (unacked tr).2 = pre ++ (i, m) :: post) :
    (doResend true (SessionQueue.run Sess.init (tr ++ pre.map (fun e => Ev.puback e.1)))).2 = [pkt i m] := by
  have hc : ∀ (l : List (Id × Msg)) (n : Nat), consumed n (l.map (fun e => Ev.puback e.1)) = n := by
    intro l; induction l with
    | nil => intro n; rfl
    | cons e r ih => intro n; simpa [consumed] using ih n
  have h' : NoWrap (tr ++ pre.map (fun e => Ev.puback e.1)) := by
    unfold NoWrap at h ⊢; rw [consumed_append, hc]; exact h
  have nd := (packet_ids_distinct_while_pending tr h).1
  rw [resend_oldest_unacked _ h']
  have : (unacked (tr ++ pre.map (fun e => Ev.puback e.1))).2 = (i, m) :: post := by
    unfold unacked
    rw [unackedFrom_append]
    have e : unackedFrom (0, []) tr = ((unacked tr).1, pre ++ (i, m) :: post) := by
      rw [← hu]; rfl
    rw [e, unackedFrom_ack_prefix pre _ _ (by rw [← hu]; exact nd)]
  rw [this]; rfl

/-- **At-least-once for every pending message against a client that acknowledges what it is sent.** After any
`NoWrap` trace, the continuation tick, PUBACK(id₁), tick, PUBACK(id₂), … (one round per unacknowledged message,
oldest first) writes exactly the unacknowledged messages, each once, in order, with their original ids, and
leaves nothing pending. -/
theorem drain_all_pending (tr : List Ev) (h : NoWrap tr) :
    outputs (SessionQueue.run Sess.init tr) (ackAll (unacked tr).2) =
      (unacked tr).2.map (fun e => pkt e.1 e.2) ∧
    (SessionQueue.run (SessionQueue.run Sess.init tr) (ackAll (unacked tr).2)).pending = [] := by
  have inv := qinv_run tr qinv_init h
  have d := drain_all (unacked tr).2 inv
  exact ⟨d.1, d.2.pend⟩

/-- **Head-of-line starvation (all tick counts).** While the oldest unacknowledged message stays
unacknowledged, `k` ticks write `k` copies of it and nothing else: a younger unacknowledged message is *never*
retransmitted, for any `k`. Read literally ("a QoS1 message is retransmitted until that client acknowledges
it", clients that omit PUBACK are in the quantifier) this violates the statement for the younger message.
Known finding `C15-resend-head-of-line-starvation`. -/
theorem starved_behind_unacked_head (tr : List Ev) (h : NoWrap tr) (e : Id × Msg) (u : List (Id × Msg))
    (hu : (unacked tr).2 = e :: u) (k : Nat) :
    outputs (SessionQueue.run Sess.init tr) (List.replicate k (Ev.tick true)) =
      List.replicate k (pkt e.1 e.2) := by
  have inv : QInv (SessionQueue.run Sess.init tr) (unacked tr).1 (unacked tr).2 := qinv_run tr qinv_init h
  rw [hu] at inv
  exact (ticks_only_resend_head inv k).1

private def wm : Msg := ⟨"t", "old", 1⟩
private def wm' : Msg := ⟨"t", "new", 1⟩
private def wl : List (Bool × Msg) := List.replicate 65535 (true, ⟨"t", "z", 0⟩)

/-- non-vacuity of the wrap theorem: a concrete 65 537-publish history (not evaluated step by step) -/
example : (SessionQueue.run Sess.init (wrapTrace false false wm wm' wl)).pending = [(0, wm')] :=
  (wrap_loses_unacked_message false false wm wm' wl rfl rfl
    (by intro p hp; unfold wl at hp; rw [List.eq_of_mem_replicate hp]; decide)
    (by unfold wl; exact List.length_replicate)).1
example : pkt 0 wm ≠ pkt 0 wm' := by decide
/-- non-vacuity of `wrap_overwrites_pending`: a state whose counter sits on a pending id -/
example : alGet (⟨[(7, wm)], [7], 7⟩ : Sess).nextID (⟨[(7, wm)], [7], 7⟩ : Sess).pending = some wm := by decide
/-- two unacknowledged messages, no PUBACK: three ticks re-send only the first; `m2` is starved -/
example : outputs Sess.init [.publish true false m1, .publish true false m2, .tick true, .tick true, .tick true]
    = [pkt 0 m1, pkt 1 m2, pkt 0 m1, pkt 0 m1, pkt 0 m1] := by decide
example : NoWrap [.publish true false m1, .publish true false m2] ∧
    (unacked [.publish true false m1, .publish true false m2]).2 = [(0, m1), (1, m2)] := by
  constructor
  · unfold NoWrap; decide
  · decide
/-- …and a client that acknowledges what it is sent gets both, each exactly once -/
example : outputs (SessionQueue.run Sess.init [.publish true false m1, .publish true false m2])
    (ackAll [(0, m1), (1, m2)]) = [pkt 0 m1, pkt 1 m2] := by decide

/-! ### Extension mqtt: regenerated tie by translation (irlib, `harness/factextract/facts_c15_ir.go`)

`Gen/FactsC15IR.lean` is translated from the bodies of the Go functions on every run; the theorems state that
the translation equals the hand-written model for all inputs (proofs: `Proofs/SessionQueueIR.lean`). -/

/-- `Broker.sendMsgToClient` (loop body: QoS comparison with `continue`, `getClient == nil` skip, `session.publish`
with the message's QoS; nil subscriber map ⇒ nobody). -/
theorem send_regenerated_from_source (conn : Client → Bool) (subs : List (Client × Nat)) (qos : Nat) :
    Gen.FactsC15IR.extractionFailed = false ∧
    Gen.FactsC15IR.sendIR conn subs false qos = (send conn qos subs).map (fun c => (c, qos)) ∧
    Gen.FactsC15IR.sendIR conn subs true qos = [] :=
  ⟨by decide, Delivery.send_regenerated_from_source conn subs qos⟩

/-- **`topicNode.addClients`** (site of fix bcc037f): the generated loop is `Model.Topic.addMax` (per client the
larger of the QoS already in the result map and the node's), and the map that successive `addClients` calls build
from the empty map is `collapseMax` of all hits — the map `send_all_eligible_any_order` quantifies over. -/
theorem addClients_regenerated_from_source (cls ans : List (Client × Nat)) (hits : List (Client × Nat)) (c : Client) :
    Gen.FactsC15IR.extractionFailed = false ∧
    Gen.FactsC15IR.addClientsIR cls ans = addMax cls ans ∧
    addMax cls (addMax hits []) = addMax (hits ++ cls) [] ∧
    alGet c (addMax hits []) = alGet c (collapseMax hits) :=
  ⟨by decide, Topic.addClients_regenerated_from_source cls ans, Topic.addMax_append hits cls [],
   Topic.addMax_eq_collapseMax_map hits c⟩

example : Gen.FactsC15IR.addClientsIR [("c", 0), ("d", 1)] [("c", 1)] = [("c", 1), ("d", 1)] ∧
    Gen.FactsC15IR.addClientsIR [("c", 1)] [("c", 0)] = [("c", 1)] := by decide

/-- `Session.getPacketFromMsg` (id = `nextID`; `nextID++` on a uint16) -/
theorem getPacket_regenerated_from_source (s : Sess) (m : Msg) :
    Gen.FactsC15IR.extractionFailed = false ∧
    Gen.FactsC15IR.getPacketIR s m = (pkt s.nextID m, (s.nextID + 1) % idMod) :=
  ⟨by decide, SessionQueue.getPacket_regenerated_from_source s m⟩

/-- `Session.publish` -/
theorem publish_regenerated_from_source (online full : Bool) (m : Msg) (s : Sess) :
    Gen.FactsC15IR.extractionFailed = false ∧
    Gen.FactsC15IR.publishIR online full m s = publish online full m s :=
  ⟨by decide, SessionQueue.publish_regenerated_from_source online full m s⟩

/-- `Session.puback` -/
theorem puback_regenerated_from_source (i : Nat) (s : Sess) :
    Gen.FactsC15IR.extractionFailed = false ∧ Gen.FactsC15IR.pubackIR i s = puback i s :=
  ⟨by decide, SessionQueue.puback_regenerated_from_source i s⟩

/-- `Session.doResend` (head-of-line search over `pendingQueue`, queue cut `pendingQueue[i:]`, one packet) -/
theorem doResend_regenerated_from_source (online : Bool) (s : Sess) :
    Gen.FactsC15IR.extractionFailed = false ∧ Gen.FactsC15IR.doResendIR online s = doResend online s :=
  ⟨by decide, SessionQueue.doResend_regenerated_from_source online s⟩

/-- non-vacuity: the generated definitions compute on a concrete state -/
example : Gen.FactsC15IR.sendIR (fun c => c != "c3") [("c1", 0), ("c3", 1), ("c2", 1)] false 1 = [("c2", 1)] := by
  decide
example : (Gen.FactsC15IR.doResendIR true ⟨[(2, m2)], [0, 2], 3⟩).2 = [pkt 2 m2] := by decide

end EgVerif.C15
