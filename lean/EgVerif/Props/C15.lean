import EgVerif.Proofs.Delivery
import EgVerif.Proofs.SessionQueueExt
import EgVerif.Proofs.SessionQueueIR
import EgVerif.Proofs.FanoutIR
import EgVerif.Proofs.ProcessPublishIR
import EgVerif.Gen.FactsC15
/-!
# C15 — MQTT delivery: every eligible subscriber gets each message; QoS1 at-least-once

Property theorems about `Model/Delivery.lean` (fan-out of `Broker.sendMsgToClient`, validation of
`httpTopicsPublishHandler`) and `Model/SessionQueue.lean` (`Session.publish / puback / doResend`, inbound
PUBLISH handling of client.go), for **every** subscription history, **every** visiting order of the
subscriber map, **every** trace of publish / puback / tick events. Helper lemmas: `Proofs/Delivery.lean`.

The model mirrors the *repaired* code (`fixes/C15-fanout-continue.patch`, `fixes/C15-addclients-maxqos.patch`);
the unrepaired loop (`sendOld`) and map collapse (`collapseLast`) are kept for the refutations at the end.

Partial (trusted / sampled, not proved): TCP, the 200 ms ticker and goroutine scheduling (a *tick* is an
event of the model), `writeLoop` eventually draining `writeCh`; retransmission is proved in the head-of-line
reading (`every_pending_resent_until_acked_partial`). Hypotheses are WINDOWED (`PendingBelow`: fewer than 65 536
messages pending at a time; `NoStaleIdReuse` only for the order), the former trace-wide `NoWrap` is gone.
-/
namespace EgVerif.C15
open EgVerif.Topic EgVerif.Delivery EgVerif.SessionQueue

/-! ### fan-out -/

/-- **Every eligible subscriber, in any visiting order.** After any subscription history `ops`, for any
message QoS `q`, any connectivity predicate and **any permutation** `order` of the subscriber map returned by
`findSubscribers` (Go map iteration order), `session.publish` is called for client `c` iff `c` is connected and
holds a live subscription matching the topic with QoS at least `q` — whatever the other subscribers are. -/
theorem send_all_eligible_any_order (ops : List Op) (lv : List Level) (q : QoS) (conn : Client → Bool)
    (order : List (Client × QoS))
    (hperm : List.Perm order (collapseMax (find (run State.init ops).trie lv))) (c : Client) :
    c ∈ send conn q order ↔
      conn c = true ∧ ∃ f sq, (f, c, sq) ∈ specRun [] ops ∧ «matches» f lv = true ∧ q ≤ sq := by
  rw [mem_send]
  constructor
  · rintro ⟨sq, hm, hq, hc⟩
    have hm' := (hperm.mem_iff).mp hm
    obtain ⟨⟨f, hf, hmat⟩, _⟩ := Topic.qos_is_own_max ops lv c sq hm'
    exact ⟨hc, f, sq, hf, hmat, hq⟩
  · rintro ⟨hc, f, sq, hf, hmat, hq⟩
    have hhit : (c, sq) ∈ find (run State.init ops).trie lv :=
      (Topic.routing_after_any_history ops lv (c, sq)).mpr ((Topic.mem_specFind _ _ _).mpr ⟨f, hf, hmat⟩)
    obtain ⟨mx, hmx⟩ := ownMax_isSome_of_mem hhit
    have hle := (ownMax_some hmx).2 sq hhit
    exact ⟨mx, (hperm.mem_iff).mpr (mem_collapseMax.mpr hmx), Nat.le_trans hq hle, hc⟩

/-- the executable `eligible` of the judge is that right-hand side -/
theorem eligible_iff (s : Subs) (conn : Client → Bool) (lv : List Level) (q : QoS) (c : Client) :
    eligible s conn lv q c = true ↔
      conn c = true ∧ ∃ f sq, (f, c, sq) ∈ s ∧ «matches» f lv = true ∧ q ≤ sq := by
  simp only [eligible, Bool.and_eq_true, List.any_eq_true, decide_eq_true_eq]
  constructor
  · rintro ⟨hc, ⟨f, c', sq⟩, hm, ⟨⟨e, hmat⟩, hq⟩⟩
    simp only at e hmat hq; subst e
    exact ⟨hc, f, sq, hm, hmat, hq⟩
  · rintro ⟨hc, f, sq, hm, hmat, hq⟩
    exact ⟨hc, (f, c, sq), hm, ⟨⟨rfl, hmat⟩, hq⟩⟩

/-- …and each of them is handed the message exactly once per fan-out. -/
theorem send_once (l : List (Client × QoS)) (q : QoS) (conn : Client → Bool) (order : List (Client × QoS))
    (hperm : List.Perm order (collapseMax l)) : (send conn q order).Nodup := by
  have : (order.map Prod.fst).Nodup := (hperm.map Prod.fst).nodup_iff.mpr (collapseMax_nodup l)
  exact List.Nodup.sublist (send_sublist conn q order) this

/-- a malformed topic reaches nobody (`findSubscribers` error ⇒ `return`) -/
theorem fanout_malformed (t : Trie) (conn : Client → Bool) (topic : List Char) (q : QoS)
    (order : List (Client × QoS) → List (Client × QoS)) (h : wellFormed topic = false) :
    fanout t conn topic q order = [] := by
  have : split topic = none := by rw [split_eq]; simp [h]
  simp [fanout, this]

/-- `httpTopicsPublishHandler` hands a request to the fan-out iff it is a POST with decodable JSON, QoS in
0..2 and (when flagged base64) a decodable payload; everything else is answered 400 and delivered to nobody. -/
theorem http_accepts_iff (r : HttpReq) :
    httpAccepts r = true ↔
      r.method = "POST" ∧ r.jsonOK = true ∧ 0 ≤ r.qos ∧ r.qos ≤ 2 ∧ (r.base64 = true → r.b64OK = true) := by
  unfold httpAccepts
  by_cases h1 : r.method = "POST" <;> by_cases h2 : r.jsonOK = true <;> by_cases h3 : r.qos < 0 <;>
    by_cases h4 : r.qos > 2 <;> by_cases h5 : r.base64 = true <;> by_cases h6 : r.b64OK = true <;>
    simp [h1, h2, h3, h4, h5, h6] <;> omega

example : send (fun _ => true) 1 [("c1", 0), ("c2", 1)] = ["c2"] := by decide
example : send (fun c => c != "c3") 0 [("c1", 0), ("c3", 1), ("c2", 1)] = ["c1", "c2"] := by decide

/-! ### session queue: QoS0 drop, QoS1 retransmission

The model mirrors the code WITH fix `C15-packet-id-skip-pending` (`getPacketFromMsg` skips ids that are still keys
of `pending`). `unacked tr` is the observation-based bookkeeping of `Spec/Delivery.lean` (what was written, with
which id, and not yet acknowledged) on the model's own outputs — the same function the judge folds over the
implementation's observations. -/

/-- A QoS0 copy is dropped **only** when the client's outbound queue is full; a QoS1 copy is always
written (and remembered as pending under the id it was sent with). -/
theorem qos0_drop_only_when_full (s : Sess) (m : Msg) (full : Bool) (h : m.qos = 0) :
    ((publish true full m s).2 = [] ↔ full = true) ∧
      (full = false → (publish true full m s).2 = [pkt (freeId s.pending s.nextID) m]) := by
  cases full <;> simp [publish, h]

theorem qos1_always_written (s : Sess) (m : Msg) (full : Bool) (h : m.qos = 1) :
    (publish true full m s).2 = [pkt (freeId s.pending s.nextID) m] ∧
      alGet (freeId s.pending s.nextID) (publish true full m s).1.pending = some m := by
  simp [publish, h, pkt, alGet_alSet]

/-- **Windowed hypothesis** (replaces the former trace-wide `NoWrap`): at every online publish of the trace fewer
than 65 536 messages are pending. Nothing about how many ids the session has consumed in its life. -/
def PendingBelow (tr : List Ev) : Prop := PendBound Sess.init tr

/-- needed only for the ORDER of retransmission: no QoS1 message is handed an id that is still a stale entry of
`pendingQueue` (an id acknowledged earlier, not yet dropped from the queue by a tick, that comes round again
after 65 536 publishes). -/
def NoStaleIdReuse (tr : List Ev) : Prop := NoStaleReuse Sess.init tr

/-- **Packet ids of pending messages are pairwise distinct**, and the session's `pending` map is exactly the list
of unacknowledged QoS1 messages — for every trace with fewer than 65 536 messages pending at a time. -/
theorem packet_ids_distinct_while_pending (tr : List Ev) (h : PendingBelow tr) :
    ((unacked tr).map Prod.fst).Nodup ∧ (SessionQueue.run Sess.init tr).pending = unacked tr :=
  let inv := qi_run tr qi_init h
  ⟨inv.nd, inv.pend⟩

/-- **The repaired allocation never hands out the id of a still-pending message**: the next online publish after
`tr` gets an id that no unacknowledged message carries (so nothing is overwritten). -/
theorem allocated_id_not_pending (tr : List Ev) (h : PendingBelow tr) (full : Bool) (m : Msg)
    (hb : (SessionQueue.run Sess.init tr).pending.length < idMod) :
    ∀ p ∈ (publish true full m (SessionQueue.run Sess.init tr)).2, p.id ∉ (unacked tr).map Prod.fst := by
  have inv := qi_run tr qi_init h
  have hf := freeId_fresh _ _ inv.lt hb
  rw [inv.pend] at hf
  intro p hp
  by_cases h0 : m.qos = 0
  · cases full <;> simp [publish, h0] at hp
    subst hp; simpa [pkt, inv.pend, unacked] using hf
  · by_cases h1 : m.qos = 1
    · simp [publish, h1] at hp
      subst hp; simpa [pkt, inv.pend, unacked] using hf
    · simp [publish, h0, h1] at hp

/-- **A tick re-sends only unacknowledged messages, each with its original id and content** — at most one packet,
exactly one when something is unacknowledged and the client is online, none when nothing is. Windowed
hypothesis only. ("…and is not retransmitted afterwards": an acknowledged message is in no `unacked` list.) -/
theorem tick_resends_only_unacked (tr : List Ev) (h : PendingBelow tr) (online : Bool) :
    (∀ p ∈ (doResend online (SessionQueue.run Sess.init tr)).2, ∃ e ∈ unacked tr, p = pkt e.1 e.2) ∧
    (unacked tr ≠ [] → online = true →
      ∃ e ∈ unacked tr, (doResend online (SessionQueue.run Sess.init tr)).2 = [pkt e.1 e.2]) ∧
    (unacked tr = [] → (doResend online (SessionQueue.run Sess.init tr)).2 = []) :=
  (doResend_qi (qi_run tr qi_init h) online).2

/-- **Resend the oldest unacknowledged message, nothing else.** After any trace of publishes (any QoS,
online or offline, queue full or not), PUBACKs (any ids, also bogus ones) and ticks, a resend tick writes
exactly the oldest QoS1 message not yet acknowledged — same id, topic, payload — if the client is online,
and nothing if there is none. -/
theorem resend_oldest_unacked (tr : List Ev) (h : PendingBelow tr) (hs : NoStaleIdReuse tr) (online : Bool) :
    (doResend online (SessionQueue.run Sess.init tr)).2 = specTick online (unacked tr) :=
  (doResend_spec (qo_run tr qo_init h hs) online).1

/-- **No resend after the acknowledgement.** Once the client has acknowledged packet id `i`, then — as long as
no new message is published (which could legitimately be given the freed id) — no tick, whatever PUBACKs and
ticks happen in between, writes a packet with id `i` again. -/
theorem no_resend_after_ack (tr rest : List Ev) (i : Id) (h : PendingBelow tr) (hr : NoPublish rest)
    (online : Bool) :
    ∀ p ∈ (doResend online (SessionQueue.run Sess.init (tr ++ .puback i :: rest))).2, p.id ≠ i := by
  have hnp : NoPublish (Ev.puback i :: rest) := by
    intro e he o f m
    rcases List.mem_cons.mp he with e1 | e1
    · subst e1; intro x; cases x
    · exact hr e e1 o f m
  have h' : PendingBelow (tr ++ .puback i :: rest) := by
    unfold PendingBelow
    rw [pendBound_append]
    exact ⟨h, pendBound_noPublish _ hnp _⟩
  intro p hp
  obtain ⟨e, he, rfl⟩ := (tick_resends_only_unacked _ h' online).1 p hp
  unfold unacked at he
  rw [uRun_append] at he
  simp only [uRun, SessionQueue.step] at he
  have := uRun_noPublish_sub rest hr _ _ e he
  simp only [obsStep] at this
  have hne := (List.mem_filter.mp this).2
  simpa [pkt] using hne

/-- **Retransmitted until acknowledged — head-of-line reading (partial).** While message `(i, m)` is the
oldest unacknowledged one, *every* tick with the client online re-sends it. NOT true for this code: "every
unacknowledged message is re-sent at every tick" (`starved_behind_unacked_head`, open known finding). -/
theorem every_pending_resent_until_acked_partial (tr : List Ev) (h : PendingBelow tr) (hs : NoStaleIdReuse tr)
    (i : Id) (m : Msg) (u : List (Id × Msg)) (hu : unacked tr = (i, m) :: u) :
    (doResend true (SessionQueue.run Sess.init tr)).2 = [pkt i m] := by
  rw [resend_oldest_unacked tr h hs, hu]; rfl

/-- a tick does not change which messages are unacknowledged: the head stays the head until its PUBACK -/
theorem tick_keeps_unacked (tr : List Ev) (online : Bool) :
    unacked (tr ++ [.tick online]) = unacked tr := by
  unfold unacked; rw [uRun_append]; rfl

/-! ### client → broker QoS1 PUBLISH -/

/-- **PUBACK with the same id iff limiter and pipeline passed.** For a QoS1 PUBLISH with packet id `i`: a
PUBACK is written iff the publish limiter admitted the packet and the Publish pipeline (if configured) set
neither Drop nor Disconnect, and then it carries exactly `i`; the backend pipeline is invoked iff the
limiter admitted the packet (and a pipeline is configured). QoS0 is never acknowledged. -/
theorem puback_same_id_iff_passed (limiterOK : Bool) (v : PipeVerdict) (i : Id) :
    ((onPublish limiterOK v 1 i).puback = some i ↔
        limiterOK = true ∧ (v = .ok ∨ v = .notConfigured)) ∧
    (∀ j, (onPublish limiterOK v 1 i).puback = some j → j = i) ∧
    ((onPublish limiterOK v 1 i).handed = true ↔ limiterOK = true ∧ v ≠ .notConfigured) ∧
    (onPublish limiterOK v 0 i).puback = none := by
  cases limiterOK <;> cases v <;> simp [onPublish]

/-! ### regenerated source facts -/

theorem source_facts :
    Gen.FactsC15.extractionFailed = false ∧
    Gen.FactsC15.fanoutLoopReturns = 0 ∧ Gen.FactsC15.fanoutLoopContinues = 1 ∧
    Gen.FactsC15.fanoutLoopFirstCond = "subQoS < qos" ∧ Gen.FactsC15.fanoutLoopPublishCalls = 1 ∧
    Gen.FactsC15.addClientsGtComparisons = 1 ∧
    Gen.FactsC15.publishSelectDefault = 1 ∧ Gen.FactsC15.publishWritePacketCalls = 1 ∧
    Gen.FactsC15.publishLocksSession = true ∧ Gen.FactsC15.doResendWritePacketCalls = 1 ∧
    Gen.FactsC15.writeChCap = 50 ∧ Gen.FactsC15.resendTicker = "200 * time.Millisecond" ∧
    Gen.FactsC15.httpHandlerConds = ["r.Method != http.MethodPost", "err != nil",
      "data.QoS < int(QoS0) || data.QoS > int(QoS2)", "data.Base64", "!data.Distributed"] ∧
    Gen.FactsC15.httpHandlerAsyncSend = 1 ∧ Gen.FactsC15.pubackCopiesId = true := by decide

/-! ### Non-vacuity, and refutation of the unrepaired code -/

private def m1 : Msg := ⟨"t", "x", 1⟩
private def m2 : Msg := ⟨"t", "y", 1⟩
private def m0 : Msg := ⟨"t", "z", 0⟩
private def tr1 : List Ev :=
  [.publish true false m1, .publish true true m0, .publish true false m2, .tick true, .puback 0, .tick true]

example : PendingBelow tr1 ∧ NoStaleIdReuse tr1 := by
  unfold PendingBelow NoStaleIdReuse; decide
/-- m1 gets id 0, the dropped QoS0 copy still consumes id 1, m2 gets id 2; first tick re-sends m1, after
its PUBACK the second tick re-sends m2 -/
example : outputs Sess.init tr1 = [pkt 0 m1, pkt 2 m2, pkt 0 m1, pkt 2 m2] := by decide
example : unacked tr1 = [(2, m2)] := by decide

/-- **Defect (i), unrepaired `sendMsgToClient`**: with the subscriber map `{c1:0, c2:1}` and a QoS1 message,
visiting `c1` first ends the loop and the eligible `c2` gets nothing; the other order serves it. The
repaired loop serves `c2` in both orders (`send_all_eligible_any_order`). -/
example : sendOld (fun _ => true) 1 [("c1", 0), ("c2", 1)] = [] ∧
    sendOld (fun _ => true) 1 [("c2", 1), ("c1", 0)] = ["c2"] ∧
    send (fun _ => true) 1 [("c1", 0), ("c2", 1)] = ["c2"] := by decide

/-- **Defect (ii), unrepaired `addClients`**: a client subscribed to `a/+`@0 and `a/b`@1; for topic `a/b`
the hits are `[(c,1),(c,0)]` in one visiting order and the map keeps QoS 0, so a QoS1 message skips the
client although it holds a matching QoS1 subscription. `collapseMax` keeps 1 in every order. -/
example : collapseLast [("c", 1), ("c", 0)] = [("c", 0)] ∧ collapseLast [("c", 0), ("c", 1)] = [("c", 1)] ∧
    collapseMax [("c", 1), ("c", 0)] = [("c", 1)] ∧ collapseMax [("c", 0), ("c", 1)] = [("c", 1)] ∧
    send (fun _ => true) 1 (collapseLast [("c", 1), ("c", 0)]) = [] := by decide

/-! ### Extension mqtt: packet ids, wrap-around, retransmission of every pending message

Round 2: the model mirrors the REPAIRED `getPacketFromMsg` (fix `C15-packet-id-skip-pending`); the behaviour of
the unrepaired code (`publishOld`, `runOld`) is kept as witnesses (`unrepaired_…`). -/

/-- **First packet id is 0.** The first PUBLISH a fresh session sends carries packet id 0 (MQTT 3.1.1 §2.3.1
asks for a non-zero id when QoS > 0; the C15 statement does not — an observation, but a proved one). -/
theorem first_qos1_id_zero (m : Msg) (full : Bool) (h : m.qos = 1) :
    (publish true full m Sess.init).2 = [pkt 0 m] := by
  have : freeId ([] : List (Id × Msg)) 0 = 0 := freeId_of_free _ _ rfl
  simp [publish, h, Sess.init, this]

/-- **Packet-id allocation of the repaired code**: the counter value itself when no pending message has it,
otherwise the next free one; never the id of a pending message while fewer than 65 536 are pending. -/
theorem packet_id_allocation (p : List (Id × Msg)) (next : Id) :
    (alGet next p = none → freeId p next = next) ∧
    (next < idMod → p.length < idMod → freeId p next ∉ p.map Prod.fst) :=
  ⟨freeId_of_free p next, freeId_fresh p next⟩

/-- **The wrap history on the repaired code keeps both messages**: QoS1 `m`, 65 535 further online publishes of
other QoS, QoS1 `m'` ⇒ `m'` skips the still-pending id 0 and gets id 1; a tick re-sends `m` (the oldest), after
its PUBACK `m'`. (Corpus case 900008 is this history on the real code and must pass.) -/
theorem repaired_wrap_keeps_both (f f' : Bool) (m m' : Msg) (l : List (Bool × Msg)) (h1 : m.qos = 1)
    (h1' : m'.qos = 1) (hl : ∀ p ∈ l, p.2.qos ≠ 1) (hlen : l.length = 65535) :
    (SessionQueue.run Sess.init (wrapTrace f f' m m' l)).pending = [(0, m), (1, m')] ∧
    (doResend true (SessionQueue.run Sess.init (wrapTrace f f' m m' l))).2 = [pkt 0 m] ∧
    (doResend true (puback 0 (SessionQueue.run Sess.init (wrapTrace f f' m m' l)))).2 = [pkt 1 m'] := by
  rw [repaired_wrap_state f f' m m' l h1 h1' hl hlen]
  refine ⟨rfl, ?_, ?_⟩
  · simp [doResend, firstPending, alGet, pkt]
  · simp [doResend, puback, alErase, firstPending, alGet, pkt]

/-- **Unrepaired code: allocation law** — the counter equals the number of online publishes of *any* QoS modulo
65 536 and the next QoS1 PUBLISH carries exactly that id, pending or not. -/
theorem unrepaired_packet_id_is_publish_count_mod (tr : List Ev) (m : Msg) (full : Bool) (h : m.qos = 1) :
    (runOld Sess.init tr).nextID = consumed 0 tr % idMod ∧
    (publishOld true full m (runOld Sess.init tr)).2 = [pkt (consumed 0 tr % idMod) m] := by
  have e := nextID_runOld tr Sess.init 0 rfl
  exact ⟨e, by rw [publishOld_qos1_out _ _ _ h, e]⟩

/-- **Unrepaired code: wrap-around onto a still-pending id (one step, every state)**: the pending message is
replaced (same key set), the id queued again. -/
theorem unrepaired_wrap_overwrites_pending (s : Sess) (m m' : Msg) (full : Bool)
    (hp : alGet s.nextID s.pending = some m) (h1 : m'.qos = 1) :
    alGet s.nextID (publishOld true full m' s).1.pending = some m' ∧
    (publishOld true full m' s).1.pending.map Prod.fst = s.pending.map Prod.fst ∧
    (publishOld true full m' s).1.queue = s.queue ++ [s.nextID] :=
  wrap_overwrites_pending_step s m m' full hp h1

/-- **Unrepaired code: the wrap is reachable and loses a message** (the defect repaired by
`fixes/C15-packet-id-skip-pending.patch`; former known finding `C15-id-wrap-overwrites-pending`). From a fresh
session: QoS1 `m` (never acknowledged), 65 535 further online publishes, QoS1 `m'` ⇒ `pending = [(0, m')]`;
whatever PUBACKs and ticks follow, every packet written is `m'`; the observation-based bookkeeping still lists
`m` as the oldest unacknowledged message. Compare `repaired_wrap_keeps_both`. -/
theorem unrepaired_wrap_loses_unacked_message (f f' : Bool) (m m' : Msg) (l : List (Bool × Msg)) (h1 : m.qos = 1)
    (h1' : m'.qos = 1) (hl : ∀ p ∈ l, p.2.qos ≠ 1) (hlen : l.length = 65535) :
    (runOld Sess.init (wrapTrace f f' m m' l)).pending = [(0, m')] ∧
    (∀ rest, NoPublish rest →
      ∀ p ∈ outputsOld (runOld Sess.init (wrapTrace f f' m m' l)) rest, p = pkt 0 m') ∧
    (doResend true (runOld Sess.init (wrapTrace f f' m m' l))).2 = [pkt 0 m'] ∧
    specTick true (unackedObs [] (traceOld Sess.init (wrapTrace f f' m m' l))) = [pkt 0 m] := by
  obtain ⟨hp, hq, hn⟩ := wrap_state f f' m m' l h1 h1' hl hlen
  refine ⟨hp, fun rest hr => wrap_never_resends_old f f' m m' l h1 h1' hl hlen rest hr, ?_, ?_⟩
  · unfold doResend
    rw [hp, hq]
    simp [firstPending, alGet, pkt]
  · rw [wrap_unacked f f' m m' l h1 h1' hl hlen]; rfl

/-- **The judge's executable spec is the spec of these theorems**: `unacked tr` is the judge's fold `unackedObs`
over the observation trace (here the model's own), and on the model's own behaviour a tick's output is accepted
by `specTick` (`resend_oldest_unacked`) — `Driver/C15.lean` applies the same two functions to what the
implementation wrote. -/
theorem judge_spec_is_unacked (tr : List Ev) :
    unacked tr = unackedObs [] (trace Sess.init tr) := uRun_eq_unackedObs tr Sess.init []

/-- **Who is re-sent at a tick: exactly the oldest unacknowledged message.** -/
theorem resent_iff_oldest (tr : List Ev) (h : PendingBelow tr) (hs : NoStaleIdReuse tr) (i : Id) (m : Msg) :
    pkt i m ∈ (doResend true (SessionQueue.run Sess.init tr)).2 ↔ (unacked tr).head? = some (i, m) := by
  rw [resend_oldest_unacked tr h hs]
  cases hu : unacked tr with
  | nil => simp [specTick]
  | cons e r =>
    obtain ⟨j, mm⟩ := e
    simp only [specTick, if_true, List.mem_singleton, List.head?_cons, Option.some.injEq, Prod.mk.injEq]
    constructor
    · intro e
      obtain ⟨t1, p1, q1⟩ := m
      obtain ⟨t2, p2, q2⟩ := mm
      simp only [pkt, Packet.mk.injEq] at e
      obtain ⟨rfl, rfl, rfl, rfl⟩ := e
      exact ⟨rfl, rfl⟩
    · rintro ⟨rfl, rfl⟩; rfl

/-- **Retransmission of EVERY pending message (strongest true form).** Let `(i, m)` be any unacknowledged
message with older unacknowledged messages `pre` in front of it. Once the client has acknowledged those, *every*
tick re-sends `(i, m)` until its own PUBACK. -/
theorem resent_once_older_acked (tr : List Ev) (h : PendingBelow tr) (hs : NoStaleIdReuse tr)
    (pre post : List (Id × Msg)) (i : Id) (m : Msg) (hu : unacked tr = pre ++ (i, m) :: post) :
    (doResend true (SessionQueue.run Sess.init (tr ++ pre.map (fun e => Ev.puback e.1)))).2 = [pkt i m] := by
  have hnp := noPublish_pubacks pre
  have h' : PendingBelow (tr ++ pre.map (fun e => Ev.puback e.1)) := by
    unfold PendingBelow; rw [pendBound_append]; exact ⟨h, pendBound_noPublish _ hnp _⟩
  have hs' : NoStaleIdReuse (tr ++ pre.map (fun e => Ev.puback e.1)) := by
    unfold NoStaleIdReuse; rw [noStale_append]; exact ⟨hs, noStale_noPublish _ hnp _⟩
  have nd := (packet_ids_distinct_while_pending tr h).1
  rw [resend_oldest_unacked _ h' hs']
  have : unacked (tr ++ pre.map (fun e => Ev.puback e.1)) = (i, m) :: post := by
    unfold unacked
    rw [uRun_append]
    have e : uRun Sess.init [] tr = pre ++ (i, m) :: post := hu
    rw [e, uRun_ack_prefix pre _ _ (by rw [← hu]; exact nd)]
  rw [this]; rfl

/-- **At-least-once for every pending message against a client that acknowledges what it is sent.** The
continuation tick, PUBACK(id₁), tick, PUBACK(id₂), … writes exactly the unacknowledged messages, each once, in
order, with their original ids, and leaves nothing pending. -/
theorem drain_all_pending (tr : List Ev) (h : PendingBelow tr) (hs : NoStaleIdReuse tr) :
    outputs (SessionQueue.run Sess.init tr) (ackAll (unacked tr)) =
      (unacked tr).map (fun e => pkt e.1 e.2) ∧
    (SessionQueue.run (SessionQueue.run Sess.init tr) (ackAll (unacked tr))).pending = [] := by
  have inv : QO (SessionQueue.run Sess.init tr) (unacked tr) := qo_run tr qo_init h hs
  have d := drain_all (unacked tr) inv
  exact ⟨d.1, d.2.pend⟩

/-- **Head-of-line starvation (all tick counts).** While the oldest unacknowledged message stays
unacknowledged, `k` ticks write `k` copies of it and nothing else: a younger unacknowledged message is *never*
retransmitted. Open known finding `C15-resend-head-of-line-starvation`. -/
theorem starved_behind_unacked_head (tr : List Ev) (h : PendingBelow tr) (hs : NoStaleIdReuse tr)
    (e : Id × Msg) (u : List (Id × Msg)) (hu : unacked tr = e :: u) (k : Nat) :
    outputs (SessionQueue.run Sess.init tr) (List.replicate k (Ev.tick true)) =
      List.replicate k (pkt e.1 e.2) := by
  have inv : QO (SessionQueue.run Sess.init tr) (unacked tr) := qo_run tr qo_init h hs
  rw [hu] at inv
  exact (ticks_only_resend_head inv k).1

/-- the old trace-wide bound implies nothing here any more: the hypotheses are windowed. A long-lived session:
70 000 acknowledged messages, then one more — every theorem above still applies (no `NoWrap`). -/
example : ∀ (tr : List Ev), PendingBelow tr → ((unacked tr).map Prod.fst).Nodup :=
  fun tr h => (packet_ids_distinct_while_pending tr h).1

private def wm : Msg := ⟨"t", "old", 1⟩
private def wm' : Msg := ⟨"t", "new", 1⟩
private def wl : List (Bool × Msg) := List.replicate 65535 (true, ⟨"t", "z", 0⟩)
private def wl_ok : (∀ p ∈ wl, p.2.qos ≠ 1) ∧ wl.length = 65535 :=
  ⟨by intro p hp; unfold wl at hp; rw [List.eq_of_mem_replicate hp]; decide, by unfold wl; exact List.length_replicate⟩

/-- non-vacuity: the concrete 65 537-publish history (not evaluated step by step), repaired vs. unrepaired -/
example : (SessionQueue.run Sess.init (wrapTrace false false wm wm' wl)).pending = [(0, wm), (1, wm')] :=
  (repaired_wrap_keeps_both false false wm wm' wl rfl rfl wl_ok.1 wl_ok.2).1
example : (runOld Sess.init (wrapTrace false false wm wm' wl)).pending = [(0, wm')] :=
  (unrepaired_wrap_loses_unacked_message false false wm wm' wl rfl rfl wl_ok.1 wl_ok.2).1
example : pkt 0 wm ≠ pkt 0 wm' := by decide
/-- a state whose counter sits on a pending id: the repaired allocation skips it -/
example : (publish true false wm' (⟨[(7, wm)], [7], 7⟩ : Sess)).2 = [pkt 8 wm'] := by
  have : freeId [(7, wm)] 7 = 8 := by
    have := freeId_skip_one [(7, wm)] 7 wm (by decide) (by decide)
    simpa [idMod] using this
  simp [publish, this, wm']
/-- two unacknowledged messages, no PUBACK: three ticks re-send only the first; `m2` is starved -/
example : outputs Sess.init [.publish true false m1, .publish true false m2, .tick true, .tick true, .tick true]
    = [pkt 0 m1, pkt 1 m2, pkt 0 m1, pkt 0 m1, pkt 0 m1] := by decide
example : PendingBelow [.publish true false m1, .publish true false m2] ∧
    NoStaleIdReuse [.publish true false m1, .publish true false m2] ∧
    unacked [.publish true false m1, .publish true false m2] = [(0, m1), (1, m2)] := by
  unfold PendingBelow NoStaleIdReuse; decide
/-- …and a client that acknowledges what it is sent gets both, each exactly once -/
example : outputs (SessionQueue.run Sess.init [.publish true false m1, .publish true false m2])
    (ackAll [(0, m1), (1, m2)]) = [pkt 0 m1, pkt 1 m2] := by decide

/-! ### Extension mqtt round 2 (audit P2 item 17): one fan-out end to end -/

/-- what client `c` gets from one fan-out of message `m`: `sendMsgToClient` visits the subscriber map in `order`
and calls `session.publish` on the selected clients' sessions (`full c`: that client's queue is full at the
non-blocking QoS0 send) -/
def deliver (sess : Client → Sess) (conn : Client → Bool) (full : Client → Bool) (order : List (Client × QoS))
    (m : Msg) (c : Client) : Sess × List Packet :=
  if c ∈ send conn m.qos order then publish (conn c) (full c) m (sess c) else (sess c, [])

/-- **End to end: fan-out composed with the session queue.** After any subscription history, for any visiting
order of the subscriber map: a connected client holding a matching live subscription with QoS ≥ the message's
gets the message WRITTEN to it — always for QoS1 (and it is pending under the id it was written with), for QoS0
unless its queue is full — carrying the message's topic, payload and QoS; a client that is not eligible gets
nothing and its session is untouched. -/
theorem deliver_end_to_end (ops : List Op) (lv : List Level) (conn : Client → Bool) (order : List (Client × QoS))
    (hperm : List.Perm order (collapseMax (find (run State.init ops).trie lv)))
    (sess : Client → Sess) (full : Client → Bool) (m : Msg) (c : Client) :
    let elig := conn c = true ∧ ∃ f sq, (f, c, sq) ∈ specRun [] ops ∧ «matches» f lv = true ∧ m.qos ≤ sq
    (elig → m.qos = 1 →
      (deliver sess conn full order m c).2 = [pkt (freeId (sess c).pending (sess c).nextID) m] ∧
      alGet (freeId (sess c).pending (sess c).nextID) (deliver sess conn full order m c).1.pending = some m) ∧
    (elig → m.qos = 0 → full c = false →
      (deliver sess conn full order m c).2 = [pkt (freeId (sess c).pending (sess c).nextID) m]) ∧
    (¬ elig → deliver sess conn full order m c = (sess c, [])) := by
  intro elig
  have hiff := send_all_eligible_any_order ops lv m.qos conn order hperm c
  refine ⟨?_, ?_, ?_⟩
  · intro he h1
    have hmem := hiff.mpr he
    simp only [deliver, hmem, if_true, he.1]
    exact qos1_always_written (sess c) m (full c) h1
  · intro he h0 hf
    have hmem := hiff.mpr he
    simp only [deliver, hmem, if_true, he.1]
    exact (qos0_drop_only_when_full (sess c) m (full c) h0).2 hf
  · intro hne
    have : c ∉ send conn m.qos order := fun hm => hne (hiff.mp hm)
    simp [deliver, this]

example : (deliver (fun _ => Sess.init) (fun _ => true) (fun _ => false) [("c1", 0), ("c2", 1)] m1 "c2").2 = [pkt 0 m1] ∧
    (deliver (fun _ => Sess.init) (fun _ => true) (fun _ => false) [("c1", 0), ("c2", 1)] m1 "c1").2 = [] := by decide

/-! ### Extension mqtt: regenerated tie by translation (irlib, `harness/factextract/facts_c15_ir.go`)

`Gen/FactsC15IR.lean` (session.go), `Gen/FactsC15IRb.lean` (broker.go / topic.go) and `Gen/FactsC15IRp.lean`
(client.go) are translated from the bodies of the Go functions on every run — three modules, so that a failed
extraction of one function breaks (and names) only its own obligations; the theorems state that
the translation equals the hand-written model for all inputs (proofs: `Proofs/SessionQueueIR.lean`). -/

/-- `Broker.sendMsgToClient` (loop body: QoS comparison with `continue`, `getClient == nil` skip, `session.publish`
with the message's QoS; nil subscriber map ⇒ nobody). -/
theorem send_regenerated_from_source (conn : Client → Bool) (subs : List (Client × Nat)) (qos : Nat) :
    Gen.FactsC15IRb.extractionFailed = false ∧
    Gen.FactsC15IRb.sendIR conn subs false qos = (send conn qos subs).map (fun c => (c, qos)) ∧
    Gen.FactsC15IRb.sendIR conn subs true qos = [] :=
  ⟨by decide, Delivery.send_regenerated_from_source conn subs qos⟩

/-- **`topicNode.addClients`** (site of fix bcc037f): the generated loop is `Model.Topic.addMax` (per client the
larger of the QoS already in the result map and the node's), and the map that successive `addClients` calls build
from the empty map is `collapseMax` of all hits — the map `send_all_eligible_any_order` quantifies over. -/
theorem addClients_regenerated_from_source (cls ans : List (Client × Nat)) (hits : List (Client × Nat)) (c : Client) :
    Gen.FactsC15IRb.extractionFailed = false ∧
    Gen.FactsC15IRb.addClientsIR cls ans = addMax cls ans ∧
    addMax cls (addMax hits []) = addMax (hits ++ cls) [] ∧
    alGet c (addMax hits []) = alGet c (collapseMax hits) :=
  ⟨by decide, Topic.addClients_regenerated_from_source cls ans, Topic.addMax_append hits cls [],
   Topic.addMax_eq_collapseMax_map hits c⟩

example : Gen.FactsC15IRb.addClientsIR [("c", 0), ("d", 1)] [("c", 1)] = [("c", 1), ("d", 1)] ∧
    Gen.FactsC15IRb.addClientsIR [("c", 1)] [("c", 0)] = [("c", 1)] := by decide

/-- `Session.getPacketFromMsg` (repaired: ids still in `pending` are skipped by a loop of at most 65 536 steps;
the packet carries the id found, the uint16 counter steps past it) -/
theorem getPacket_regenerated_from_source (s : Sess) (m : Msg) :
    Gen.FactsC15IR.extractionFailed = false ∧
    Gen.FactsC15IR.getPacketIR s m = (pkt (freeId s.pending s.nextID) m, (freeId s.pending s.nextID + 1) % idMod) :=
  ⟨by decide, SessionQueue.getPacket_regenerated_from_source s m⟩

/-- `Session.publish` -/
theorem publish_regenerated_from_source (online full : Bool) (m : Msg) (s : Sess) :
    Gen.FactsC15IR.extractionFailed = false ∧
    Gen.FactsC15IR.publishIR online full m s = publish online full m s :=
  ⟨by decide, SessionQueue.publish_regenerated_from_source online full m s⟩

/-- `processPublish` (client.go): PUBACK with the inbound packet's own id iff QoS 1 (the function `pipelineWrapper`
calls after limiter and pipeline passed; `puback_same_id_iff_passed` is about the whole path `onPublish`) -/
theorem processPublish_regenerated_from_source (qos i : Nat) :
    Gen.FactsC15IRp.extractionFailed = false ∧
    Gen.FactsC15IRp.processPublishIR qos i = (onPublish true .ok qos i).puback.toList ∧
    Gen.FactsC15IRp.processPublishIR qos i = (onPublish true .notConfigured qos i).puback.toList :=
  ⟨by decide, SessionQueue.processPublish_regenerated_from_source qos i⟩

/-- **Inbound PUBLISH handling keeps no memory between packets** (regenerated fact): `processPublish`,
`pipelineWrapper`, `checkPublishLimit` and the PUBLISH entry of `processPacketMap` assign no field of `*Client` —
so whether a packet is handed to the pipeline and acknowledged depends on that packet and on the limiter /
pipeline verdicts only (the model `onPublish` has exactly these arguments): a packet id, a DUP flag or an
earlier acknowledgement cannot make the broker skip the backend. -/
theorem inbound_publish_memoryless :
    Gen.FactsC15.extractionFailed = false ∧ Gen.FactsC15.inboundPublishWritesClientFields = [] := by decide

/-- `Session.puback` -/
theorem puback_regenerated_from_source (i : Nat) (s : Sess) :
    Gen.FactsC15IR.extractionFailed = false ∧ Gen.FactsC15IR.pubackIR i s = puback i s :=
  ⟨by decide, SessionQueue.puback_regenerated_from_source i s⟩

/-- `Session.doResend` (head-of-line search over `pendingQueue`, queue cut `pendingQueue[i:]`, one packet) -/
theorem doResend_regenerated_from_source (online : Bool) (s : Sess) :
    Gen.FactsC15IR.extractionFailed = false ∧ Gen.FactsC15IR.doResendIR online s = doResend online s :=
  ⟨by decide, SessionQueue.doResend_regenerated_from_source online s⟩

/-- non-vacuity: the generated definitions compute on a concrete state -/
example : Gen.FactsC15IRb.sendIR (fun c => c != "c3") [("c1", 0), ("c3", 1), ("c2", 1)] false 1 = [("c2", 1)] := by
  decide
example : (Gen.FactsC15IR.doResendIR true ⟨[(2, m2)], [0, 2], 3⟩).2 = [pkt 2 m2] := by decide

end EgVerif.C15
