import EgVerif.Proofs.ClusterMutex
import EgVerif.Proofs.AdminAPI
import EgVerif.Gen.FactsC18
import EgVerif.Proofs.AdminAPIIR
import EgVerif.Proofs.ClusterMutexIR
import EgVerif.Proofs.ClusterMutexLease
import EgVerif.Proofs.AdminUnderMutex
import EgVerif.Proofs.AdminUnderMutexLease
import EgVerif.Proofs.ClusterMutexFail
import EgVerif.Proofs.AdminAPIComplete
import EgVerif.Proofs.AdminAPIRealTime
import EgVerif.Proofs.AdminAPIRejected
/-!
# C18 — the cluster mutex is exclusive; admin mutations serialize with gap-free versions

Part 1 (`ClusterMutex`): theorems about every interleaving of the atomic steps of
`mutex.Lock` / `mutex.Unlock` over any number of goroutines, mutex objects and members
(sessions), on top of the etcd lock contract stated in `Model/ClusterMutex.lean`.
Hypothesis `OneObjectPerSession`: a member uses one mutex object for the lock name —
re-derived from `api.Server.getMutex` on every run (`one_mutex_object_per_server`).

Part 2 (`AdminAPI`): under such a lock the create / update / delete handlers (each a sequence
of separate etcd round trips) are atomic, versions are distinct and gap-free, rejected
requests change nothing, the final store is the fold of the successful requests in version
order.
-/
namespace EgVerif.C18
open EgVerif.ClusterMutex EgVerif.AdminAPI

/-! ## Part 1: the mutex -/

/-- States reachable by any schedule of any threads. -/
def Reachable (c : Cfg) (s : State) : Prop := ∃ as, run c init as = some s

theorem reachable_inv {c : Cfg} (h1 : OneObjectPerSession c) {s : State} (hr : Reachable c s) : Inv c s := by
  obtain ⟨as, h⟩ := hr
  exact inv_run h1 as (inv_init c) h

/-- **Mutual exclusion**: in every reachable state at most one goroutine of any member is
inside the critical section. -/
theorem exclusive {c : Cfg} (h1 : OneObjectPerSession c) {s : State} (hr : Reachable c s) (t1 t2 : Nat)
    (a : s.pc t1 = .crit) (b : s.pc t2 = .crit) : t1 = t2 := by
  have inv := reachable_inv h1 hr
  have e1 := inv.critHead t1 a
  have e2 := inv.critHead t2 b
  rw [e1] at e2
  have := h1 _ _ (Option.some.inj e2)
  exact inv.local1 t1 t2 (by simp [a]) (by simp [b]) this

/-- The etcd lock is only ever granted while nobody holds it (this is what lets the admin-API
model use an abstract lock with `holder = none` as the guard of `acquire`). -/
theorem granted_only_when_free {c : Cfg} (h1 : OneObjectPerSession c) {s s' : State} (hr : Reachable c s) (t : Nat)
    (h : step c s (.etcdGranted t) = some s') : ∀ t', s.pc t' ≠ .crit := by
  intro t' ht'
  have inv := reachable_inv h1 hr
  simp only [step] at h
  split at h
  · rename_i g
    have e := inv.critHead t' ht'
    rw [g.2] at e
    have ho := h1 _ _ (Option.some.inj e)
    have := inv.local1 t t' (by simp [g.1]) (by simp [ht']) ho
    subst this
    rw [g.1] at ht'; cases ht'
  · cases h

/-- Negative example: with **two** mutex objects on one member (threads 0 and 1 use objects 0
and 1, both on session 0) the same schedule puts both threads into the critical section:
the etcd key is per session, so the second `Lock` re-uses it. -/
example :
    let c : Cfg := { obj := fun t => t, sess := fun _ => 0 }
    ∃ s, run c init (acquireSeq 0 ++ acquireSeq 1) = some s ∧ s.pc 0 = .crit ∧ s.pc 1 = .crit := by
  refine ⟨_, rfl, ?_, ?_⟩ <;> decide

/-- … while with one object per member the second acquisition is not enabled. -/
example :
    let c : Cfg := { obj := fun t => t, sess := fun o => o }
    run c init (acquireSeq 0 ++ acquireSeq 1) = none := by decide

/-- **A failed acquisition leaves the lock free** (1): the timed-out `Lock` has removed the
member's key from the etcd queue … -/
theorem failed_acquire_removes_key {c : Cfg} (h1 : OneObjectPerSession c) {s s' : State} (hr : Reachable c s) (t : Nat)
    (h : step c s (.etcdTimeout t) = some s') : c.sess (c.obj t) ∉ s'.queue ∧ s'.pc t = .failing := by
  have inv := reachable_inv h1 hr
  simp only [step] at h
  split at h
  · cases h
    exact ⟨fun hm => ((inv.nodup.mem_erase_iff).mp hm).1 rfl, by simp⟩
  · cases h

/-- … also when the very first etcd request failed (whether or not it had been applied: the
cleanup `m.m.Unlock` added by fixes/C18-stale-lock-key.patch deletes the key in both cases) … -/
theorem failed_early_removes_key {c : Cfg} (h1 : OneObjectPerSession c) {s s' : State} (hr : Reachable c s) (t : Nat)
    (h : step c s (.etcdErrorEarly t) = some s') : c.sess (c.obj t) ∉ s'.queue ∧ s'.pc t = .failing := by
  have inv := reachable_inv h1 hr
  simp only [step] at h
  split at h
  · cases h
    exact ⟨fun hm => ((inv.nodup.mem_erase_iff).mp hm).1 rfl, by simp⟩
  · cases h

/-- What the **unrepaired** `mutex.Lock` does when the key-creating request was applied but its
response was lost: it returns the error and releases the local mutex *without* deleting the key. -/
def oldLostResponse (c : Cfg) (s : State) (t : Nat) : State :=
  { s with pc := upd s.pc t .idle, held := upd s.held (c.obj t) false }

/-- Witness of the defect in the unrepaired code (reproduced on the real code by the mutex
harness, see fixes/C18-stale-lock-key.md): member 0's goroutine 0 enqueues, the response is
lost, `Lock` fails; nobody is inside `Lock`/`Unlock` any more, yet the key is still queued and
member 1 can never be granted the lock — until member 0 happens to lock again. -/
theorem old_code_leaves_stale_key :
    let c : Cfg := { obj := fun t => t, sess := fun o => o }
    ∃ s, run c init [.localLock 0, .etcdEnqueue 0] = some s ∧
      (∀ t, t < 4 → (oldLostResponse c s 0).pc t = .idle) ∧ (oldLostResponse c s 0).queue = [0] ∧
      run c (oldLostResponse c s 0) [.localLock 1, .etcdEnqueue 1, .etcdGranted 1] = none := by
  refine ⟨_, rfl, ?_, ?_, ?_⟩ <;> decide

/-- … (2) and the deferred unlock releases the process-local mutex. -/
theorem failed_acquire_unlocks_local {c : Cfg} {s s' : State} (t : Nat)
    (h : step c s (.localUnlockFail t) = some s') : s'.held (c.obj t) = false ∧ s'.pc t = .idle := by
  simp only [step] at h
  split at h
  · cases h; simp
  · cases h

/-- (3) Whenever no goroutine is inside `Lock`/`Unlock` — however many acquisitions failed or
succeeded before — the etcd queue is empty and every local mutex is unlocked … -/
theorem failed_acquire_leaves_free {c : Cfg} (h1 : OneObjectPerSession c) {s : State} (hr : Reachable c s)
    (hq : ∀ t, s.pc t = .idle) : s.queue = [] ∧ ∀ o, s.held o = false := by
  have inv := reachable_inv h1 hr
  constructor
  · cases hs : s.queue with
    | nil => rfl
    | cons k rest =>
      obtain ⟨t, ht, _⟩ := inv.qOwner k (by rw [hs]; simp)
      rw [hq t] at ht; rcases ht with h | h <;> cases h
  · intro o
    cases ho : s.held o with
    | false => rfl
    | true =>
      obtain ⟨t, _, ht⟩ := inv.heldBy o ho
      exact absurd (hq t) ht

/-- (4) … so that any thread can then take the lock. -/
theorem free_can_acquire {c : Cfg} {s : State} (hq : ∀ x, s.pc x = .idle) (hf : s.queue = [])
    (hh : ∀ o, s.held o = false) (t : Nat) : ∃ s', run c s (acquireSeq t) = some s' ∧ s'.pc t = .crit := by
  have h : run c s (acquireSeq t) = some
      { pc := upd (upd (upd s.pc t .haveLocal) t .waiting) t .crit, held := upd s.held (c.obj t) true,
        queue := [c.sess (c.obj t)] } := by
    simp [acquireSeq, run, step, hq t, hf, hh (c.obj t)]
  exact ⟨_, h, by simp⟩

/-- A waiting thread whose predecessors are gone is granted the lock: after the owner's
`Unlock` (or a failed waiter's cleanup) the next key in the queue is the head. -/
theorem head_is_granted {c : Cfg} {s : State} (t : Nat) (hw : s.pc t = .waiting)
    (hh : s.queue.head? = some (c.sess (c.obj t))) : ∃ s', step c s (.etcdGranted t) = some s' ∧ s'.pc t = .crit := by
  refine ⟨_, by simp [step, hw, hh]; rfl, by simp⟩

/-! ### The judge's trace specification accepts every behaviour of the model -/

/-- What the harness can see of a schedule: `acquired` when the etcd lock is granted,
`releasing` at the etcd unlock, `failed` at a timeout. -/
def proj : List ClusterMutex.Act → List TEv
  | [] => []
  | .etcdGranted t :: r => .acquired t :: proj r
  | .etcdUnlock t :: r => .releasing t :: proj r
  | .etcdTimeout t :: r => .failed t :: proj r
  | .etcdErrorEarly t :: r => .failed t :: proj r
  | .localLock _ :: r => proj r
  | .etcdEnqueue _ :: r => proj r
  | .localUnlockFail _ :: r => proj r
  | .critical _ :: r => proj r
  | .localUnlock _ :: r => proj r

def HolderIs (s : State) : Option Nat → Prop
  | none => ∀ t, s.pc t ≠ .crit
  | some t => s.pc t = .crit

theorem inv_exclusive {c : Cfg} (h1 : OneObjectPerSession c) {s : State} (inv : Inv c s) (t1 t2 : Nat)
    (a : s.pc t1 = .crit) (b : s.pc t2 = .crit) : t1 = t2 := by
  have e1 := inv.critHead t1 a
  have e2 := inv.critHead t2 b
  rw [e1] at e2
  exact inv.local1 t1 t2 (by simp [a]) (by simp [b]) (h1 _ _ (Option.some.inj e2))

theorem holder_keep {s : State} {h : Option Nat} (hh : HolderIs s h) (t : Nat) (p' : ClusterMutex.PC)
    (h0 : s.pc t ≠ .crit) (h1 : p' ≠ .crit) {hd : Nat → Bool} {q : List Nat} :
    HolderIs { pc := upd s.pc t p', held := hd, queue := q } h := by
  cases h with
  | none =>
    intro x; by_cases hx : x = t
    · subst hx; simpa using h1
    · simp only; rw [upd_other _ _ hx]; exact hh x
  | some t' =>
    have : t' ≠ t := by intro e; subst e; exact h0 hh
    simp only [HolderIs]; rw [upd_other _ _ this]; exact hh

/-- **Every schedule of the model, projected to what the harness records, satisfies the
executable trace specification `exclusiveTrace`** the judge evaluates on real runs. -/
theorem model_traces_exclusive {c : Cfg} (h1 : OneObjectPerSession c) : ∀ (as : List ClusterMutex.Act) (s s' : State)
    (h : Option Nat), Inv c s → HolderIs s h → run c s as = some s' → exclusiveTrace h (proj as) = true
  | [], _, _, _, _, _, _ => rfl
  | a :: as, s, s', h, inv, hh, hr => by
    simp only [run] at hr
    split at hr
    · cases hr
    · rename_i s1 hs
      have inv1 := inv_step h1 inv a hs
      have ih := fun h' hh' => model_traces_exclusive h1 as s1 s' h' inv1 hh' hr
      cases a with
      | etcdGranted t =>
        simp only [step] at hs
        split at hs
        · rename_i g
          cases hs
          have hnone : h = none := by
            cases h with
            | none => rfl
            | some t' =>
              exfalso
              have hc : s.pc t' = .crit := hh
              have e := inv.critHead t' hc
              rw [g.2] at e
              have := inv.local1 t t' (by simp [g.1]) (by simp [hc])
                (h1 _ _ (Option.some.inj e))
              subst this
              rw [g.1] at hc; cases hc
          subst hnone
          simp only [proj, exclusiveTrace, Option.isNone_none, Bool.true_and]
          exact ih (some t) (by simp [HolderIs])
        · cases hs
      | etcdUnlock t =>
        simp only [step] at hs
        split at hs
        · rename_i g
          cases hs
          have hsome : h = some t := by
            cases h with
            | none => exact absurd g (hh t)
            | some t' => rw [inv_exclusive h1 inv t' t hh g]
          subst hsome
          simp only [proj, exclusiveTrace, beq_self_eq_true, Bool.true_and]
          refine ih none ?_
          intro x; by_cases hx : x = t
          · subst hx; simp
          · simp only; rw [upd_other _ _ hx]
            intro hc; exact hx (inv_exclusive h1 inv x t hc g)
        · cases hs
      | etcdTimeout t =>
        simp only [step] at hs
        split at hs
        · rename_i g
          cases hs
          simp only [proj, exclusiveTrace]
          exact ih h (holder_keep hh t .failing (by simp [g]) (by simp))
        · cases hs
      | etcdErrorEarly t =>
        simp only [step] at hs
        split at hs
        · rename_i g
          cases hs
          simp only [proj, exclusiveTrace]
          exact ih h (holder_keep hh t .failing (by simp [g]) (by simp))
        · cases hs
      | localLock t =>
        simp only [step] at hs
        split at hs
        · rename_i g
          cases hs
          simp only [proj]
          exact ih h (holder_keep hh t .haveLocal (by simp [g.1]) (by simp))
        · cases hs
      | etcdEnqueue t =>
        simp only [step] at hs
        split at hs
        · rename_i g
          cases hs
          simp only [proj]
          exact ih h (holder_keep hh t .waiting (by simp [g]) (by simp))
        · cases hs
      | localUnlockFail t =>
        simp only [step] at hs
        split at hs
        · rename_i g
          cases hs
          simp only [proj]
          exact ih h (holder_keep hh t .idle (by simp [g]) (by simp))
        · cases hs
      | critical t =>
        simp only [step] at hs
        split at hs
        · cases hs; simp only [proj]; exact ih h hh
        · cases hs
      | localUnlock t =>
        simp only [step] at hs
        split at hs
        · rename_i g
          cases hs
          simp only [proj]
          exact ih h (holder_keep hh t .idle (by simp [g]) (by simp))
        · cases hs

/-- … in particular from the initial state. -/
theorem reachable_traces_exclusive {c : Cfg} (h1 : OneObjectPerSession c) (as : List ClusterMutex.Act) (s : State)
    (hr : run c init as = some s) : exclusiveTrace none (proj as) = true :=
  model_traces_exclusive h1 as init s none (inv_init c) (fun _ => by simp [init]) hr

/-! ## Part 2: the admin API under the lock -/

/-- A handler run alone, round trip by round trip, is the atomic transition `apply`. -/
theorem handler_is_apply (req : Req) (e : Etcd) : exec req e = apply e req := exec_eq_apply req e

/-- **Handlers are atomic**: for every interleaving of any number of client goroutines (each
taking the lock, performing its etcd round trips one at a time, releasing; unlocked reads in
between), the log of finished mutations is a sequential execution of `apply` in unlock order —
same responses — and whenever the lock is free the store and version are exactly its result. -/
theorem handlers_atomic (e0 : Etcd) (as : List AdminAPI.Act) (s : Sys) (h : Sys.run (Sys.init e0) as = some s) :
    (runSeq e0 (s.log.map Prod.fst)).2 = s.log.map Prod.snd ∧
    (s.holder = none → s.etcd = (runSeq e0 (s.log.map Prod.fst)).1) := by
  have inv := sinv_run as (sinv_init e0) h
  rw [runSeq_of_logOK _ _ inv.logOK]
  exact ⟨rfl, inv.idle⟩

/-- **Versions are distinct and gap-free**: the k successful mutations of a sequential history
return `v+1, …, v+k` in order (`v` = version before), everything else returns none; the final
version is `v + k`. -/
theorem versions_gap_free (e : Etcd) (rs : List Req) :
    (runSeq e rs).2.filterMap (·.version) = List.range' (e.version + 1) ((runSeq e rs).2.filter Resp.ok).length ∧
    (runSeq e rs).1.version = e.version + ((runSeq e rs).2.filter Resp.ok).length :=
  ⟨(runSeq_versions rs e).1, (runSeq_versions rs e).2.1⟩

theorem versions_distinct (e : Etcd) (rs : List Req) : ((runSeq e rs).2.filterMap (·.version)).Nodup := by
  rw [(versions_gap_free e rs).1]; exact List.nodup_range'

/-- **Rejected requests change nothing**: 409 for creating an existing name, 404 for updating /
deleting a missing one, 400 for updating with another kind — store and version untouched,
no version returned. -/
theorem conflict_unchanged (e : Etcd) (n : String) (o old : Obj) :
    (e.store.get n = some old → apply e (.create n o) = (e, ⟨409, none⟩)) ∧
    (e.store.get n = none → apply e (.update n o) = (e, ⟨404, none⟩)) ∧
    (e.store.get n = none → apply e (.delete n) = (e, ⟨404, none⟩)) ∧
    (e.store.get n = some old → old.kind ≠ o.kind → apply e (.update n o) = (e, ⟨400, none⟩)) := by
  refine ⟨fun h => by simp [apply, h], fun h => by simp [apply, h], fun h => by simp [apply, h], fun h hk => ?_⟩
  have : (old.kind != o.kind) = true := by simpa using hk
  simp [apply, h, this]

/-- A request either is rejected (409/404/400, nothing changes, no version) or succeeds
(200/201, version + 1, its effect on the store). -/
theorem reject_or_succeed (e : Etcd) (r : Req) :
    ((apply e r).2.version = none ∧ (apply e r).1 = e ∧
        ((apply e r).2.status = 409 ∨ (apply e r).2.status = 404 ∨ (apply e r).2.status = 400)) ∨
    ((apply e r).2.version = some (e.version + 1) ∧ (apply e r).1.version = e.version + 1 ∧
        (apply e r).1.store = effect e.store r ∧ (apply e r).2.status = okStatus r) := apply_cases e r

/-- **The final store is the fold of the successful requests** in log order — which is version
order, because versions increase strictly along the log (`versions_gap_free`). -/
theorem final_store_is_fold (e : Etcd) (rs : List Req) :
    (runSeq e rs).1.store = (successes rs (runSeq e rs).2).foldl effect e.store :=
  (runSeq_versions rs e).2.2

/-! ## Facts regenerated from the source on every run -/

/-- `mutex.Lock`: local mutex first, then the etcd lock under a timeout context; the local mutex
is released in the deferred closure exactly when the etcd lock failed, after the cleanup
`m.m.Unlock` that follows a failed `m.m.Lock` (`lockCleansUpOnError`; false on the unrepaired
code, where a key whose creation was not reported stays behind). `mutex.Unlock`: etcd
unlock, then (deferred) the local mutex. `cluster.Mutex` builds the etcd mutex on the member's
session, and `getSession` creates at most one session per member. -/
theorem mutex_shape :
    Gen.FactsC18.extractionFailed = false ∧
    Gen.FactsC18.mutexLockCalls = ["m.lock.Lock", "deferred:m.lock.Unlock", "m.m.Lock", "m.m.Unlock"] ∧
    Gen.FactsC18.lockUnlocksLocalOnError = true ∧
    Gen.FactsC18.lockCleansUpOnError = true ∧
    Gen.FactsC18.mutexUnlockCalls = ["defer m.lock.Unlock", "m.m.Unlock"] ∧
    Gen.FactsC18.clusterMutexCalls = ["c.getSession", "concurrency.NewMutex"] ∧
    Gen.FactsC18.sessionCreations = 1 ∧ Gen.FactsC18.sessionCached = true := by decide

/-- `OneObjectPerSession` for the API server: `getMutex` is the only place in `pkg/api` that
creates a cluster mutex, it runs under `mutexMutex`, returns the cached object when there is
one and stores the new one. -/
theorem one_mutex_object_per_server :
    Gen.FactsC18.apiMutexCreationSites = ["server.go:getMutex"] ∧
    Gen.FactsC18.getMutexLocksFirst = true ∧ Gen.FactsC18.getMutexReturnsCached = true ∧
    Gen.FactsC18.getMutexStores = true ∧
    Gen.FactsC18.serverLockCalls = ["s.getMutex", "ClusterPanic", "mutex.Lock", "ClusterPanic"] ∧
    Gen.FactsC18.serverUnlockCalls = ["s.getMutex", "ClusterPanic", "mutex.Unlock", "ClusterPanic"] := by decide

/-- The three mutating handlers take the lock before the first etcd access, release it by
`defer`, and do read → write → version in the order `micro` mirrors; the version is read + 1. -/
theorem handlers_locked :
    Gen.FactsC18.createObjectCalls = ["s.readObjectSpec", "s.Lock", "defer s.Unlock", "s._getObject", "s._putObject", "s.upgradeConfigVersion"] ∧
    Gen.FactsC18.updateObjectCalls = ["s.readObjectSpec", "s.Lock", "defer s.Unlock", "s._getObject", "s._putObject", "s.upgradeConfigVersion"] ∧
    Gen.FactsC18.deleteObjectCalls = ["s.Lock", "defer s.Unlock", "s._getObject", "s._deleteObject", "s.upgradeConfigVersion"] ∧
    Gen.FactsC18.upgradeConfigVersionCalls.head? = some "s._plusOneVersion" ∧
    Gen.FactsC18.plusOneVersionCalls.take 2 = ["s._getVersion", "s.cluster.Put"] ∧
    Gen.FactsC18.plusOneIncrements = true := by decide

/-! ## Non-vacuity -/

/-- Three members (sessions 0,1,2), thread t on member t % 3 using the member's single object. -/
private def cfg3 : Cfg := { obj := fun t => t % 3, sess := fun o => o }

example : OneObjectPerSession cfg3 := fun _ _ h => h

/-- Threads 0 and 3 share member 0; 1 is on member 1. 0 takes the lock, 1 queues and times
out, 3 blocks on the local mutex (not enabled), 0 releases, 3 acquires. -/
private def sched : List ClusterMutex.Act :=
  acquireSeq 0 ++ [.localLock 1, .etcdEnqueue 1, .etcdTimeout 1, .localUnlockFail 1] ++ releaseSeq 0 ++ acquireSeq 3

example : ∃ s, run cfg3 init sched = some s ∧ s.pc 3 = .crit ∧ s.pc 0 = .idle ∧ s.queue = [0] :=
  ⟨_, rfl, by decide, by decide, by decide⟩
example : run cfg3 init (acquireSeq 0 ++ [.localLock 3]) = none := by decide
example : run cfg3 init (acquireSeq 0 ++ [.localLock 1, .etcdEnqueue 1, .etcdGranted 1]) = none := by decide

private def oA : Obj := ⟨"A", "p1"⟩
private def oB : Obj := ⟨"B", "p2"⟩
/-- create a (201, v1); create a again (409); update a with another kind (400); update b (404);
update a (200, v2); delete a (200, v3); delete a (404). -/
private def reqs : List Req :=
  [.create "a" oA, .create "a" oB, .update "a" oB, .update "b" oA, .update "a" ⟨"A", "p3"⟩, .delete "a", .delete "a"]

example : (runSeq ⟨[], 0⟩ reqs).2.map (fun r => (r.status, r.version)) =
    [(201, some 1), (409, none), (400, none), (404, none), (200, some 2), (200, some 3), (404, none)] := by decide
example : (runSeq ⟨[], 0⟩ reqs).1 = ⟨[], 3⟩ := by decide

/-- Two clients interleaved at round-trip granularity under the lock, with an unlocked read in
the middle of the first handler. -/
example : ∃ s, Sys.run (Sys.init ⟨[], 7⟩)
    [.acquire 0 (.create "a" oA), .micro 0, .read 1, .micro 0, .micro 0, .micro 0, .release 0,
     .acquire 1 (.update "a" ⟨"A", "p9"⟩), .micro 1, .micro 1, .micro 1, .micro 1, .release 1] = some s ∧
    s.etcd = ⟨[("a", ⟨"A", "p9"⟩)], 9⟩ ∧ s.log.map (·.2.version) = [some 8, some 9] :=
  ⟨_, rfl, by decide, by decide⟩

/-- Without the lock discipline a second `acquire` is simply not a step of the system. -/
example : Sys.run (Sys.init ⟨[], 0⟩) [.acquire 0 (.delete "a"), .acquire 1 (.delete "a")] = none := by decide

/-! ## Part 3 (extension "cluster"): lease expiry

`stepX` = `step` + "the lease of session k expires and etcd deletes its key" at any moment. -/

/-- **A lease that expires while its member holds the lock breaks exclusivity** (decided witness): member 0's
goroutine is in the critical section, its lease expires, member 1 is granted the lock — both are inside.
This is outside what `mutex.go` can prevent (the trusted-base entry "lease liveness"). -/
theorem expiry_while_holding_breaks_exclusivity :
    let c : Cfg := { obj := fun t => t, sess := fun o => o }
    (∀ o1 o2, c.sess o1 = c.sess o2 → o1 = o2) ∧
    ∃ s, runX c init ((acquireSeq 0).map .base ++ [.leaseExpire 0] ++ (acquireSeq 1).map .base) = some s ∧
      s.pc 0 = .crit ∧ s.pc 1 = .crit ∧ s.queue = [1] :=
  ⟨fun _ _ h => h, _, rfl, by decide, by decide, by decide⟩

/-- **Exclusivity among live holders, for every history with arbitrary lease expiry**: at most one goroutine is
in the critical section *with its member's key still present*; i.e. the only way two goroutines can be inside
together is that all but one of them belong to members whose lease has expired since they acquired. -/
theorem exclusive_among_live_holders {c : Cfg} (h1 : OneObjectPerSession c) (as : List ActX) {s : State}
    (hr : runX c init as = some s) (t1 t2 : Nat) (a : s.pc t1 = .crit) (b : s.pc t2 = .crit)
    (k1 : c.sess (c.obj t1) ∈ s.queue) (k2 : c.sess (c.obj t2) ∈ s.queue) : t1 = t2 := by
  have inv := live_runX h1 as (live_init c) hr
  have e1 := inv.liveHead t1 a k1
  have e2 := inv.liveHead t2 b k2
  rw [e1] at e2
  exact inv.local1 t1 t2 (by simp [a]) (by simp [b]) (h1 _ _ (Option.some.inj e2))

/-- … in particular exclusivity is restored as soon as the holders whose lease expired have left: whenever
every goroutine inside has its member's key present, there is at most one. -/
theorem exclusive_restored {c : Cfg} (h1 : OneObjectPerSession c) (as : List ActX) {s : State}
    (hr : runX c init as = some s) (hall : ∀ t, s.pc t = .crit → c.sess (c.obj t) ∈ s.queue) (t1 t2 : Nat)
    (a : s.pc t1 = .crit) (b : s.pc t2 = .crit) : t1 = t2 :=
  exclusive_among_live_holders h1 as hr t1 t2 a b (hall t1 a) (hall t2 b)

/-- **Full exclusivity for every history in which no holder's lease expires** (`SafeRun`: a lease may expire
at any time while its member is idle, inside `Lock` waiting, failing or releasing — only not while one of its
goroutines is in the critical section). Generalises `exclusive` (`exclusive_is_special_case`). -/
theorem exclusive_unless_holder_expires {c : Cfg} (h1 : OneObjectPerSession c) (as : List ActX) {s : State}
    (hr : runX c init as = some s) (hs : SafeRun c init as) (t1 t2 : Nat)
    (a : s.pc t1 = .crit) (b : s.pc t2 = .crit) : t1 = t2 := by
  obtain ⟨inv, ci⟩ := safe_runX h1 as (live_init c) (fun _ h => by simp [init] at h) hs hr
  have e1 := inv.liveHead t1 a (ci t1 a)
  have e2 := inv.liveHead t2 b (ci t2 b)
  rw [e1] at e2
  exact inv.local1 t1 t2 (by simp [a]) (by simp [b]) (h1 _ _ (Option.some.inj e2))

/-- Histories without expiry are `run`; they are safe. -/
theorem exclusive_is_special_case (c : Cfg) (as : List ClusterMutex.Act) :
    runX c init (as.map .base) = run c init as ∧ SafeRun c init (as.map .base) :=
  ⟨runX_base c as init, safeRun_base c as init⟩

/-- Non-vacuity: member 1 waits behind member 0 and loses its lease while waiting (safe: it holds nothing); its
`Lock` times out; member 0 releases; a goroutine of member 2 acquires. One holder at the end. -/
example : ∃ s, runX cfg3 init ((acquireSeq 0).map .base ++ [.base (.localLock 1), .base (.etcdEnqueue 1), .leaseExpire 1,
      .base (.etcdTimeout 1), .base (.localUnlockFail 1)] ++ (releaseSeq 0).map .base ++ (acquireSeq 2).map .base) = some s ∧
    s.pc 2 = .crit ∧ s.pc 0 = .idle ∧ s.queue = [2] := ⟨_, rfl, by decide, by decide, by decide⟩
example : SafeRun cfg3 init ((acquireSeq 0).map .base ++ [.base (.localLock 1), .base (.etcdEnqueue 1), .leaseExpire 1]) := by
  simp only [SafeRun, acquireSeq, List.map, List.cons_append, List.nil_append]
  refine ⟨?_, trivial⟩
  intro t ht
  by_cases h0 : t = 0
  · subst h0; decide
  · have : upd (upd (upd (upd (upd init.pc 0 PC.haveLocal) 0 PC.waiting) 0 PC.crit) 1 PC.haveLocal) 1 PC.waiting t ≠ .crit := by
      by_cases h1 : t = 1
      · subst h1; simp
      · simp [upd, h0, h1, init]
    exact absurd ht this
/-- … while in the witness above the expiry hits the holder: that history is not safe. -/
example : ¬ SafeRun cfg3 init ((acquireSeq 0).map .base ++ [.leaseExpire 0]) := by
  simp only [SafeRun, acquireSeq, List.map, List.cons_append, List.nil_append]
  intro h
  exact h.1 0 (by decide) rfl

/-! ## Part 3b (extension "cluster"): the judge's history check is sound for `runSeq` -/

/-- **The judge's history check is sound for the sequential specification**: if `checkHistory apply` accepts an
observed history, then the successful mutations, taken in the order of their `X-Config-Version`
(a permutation of them), are a sequential execution `runSeq` of `apply` from the initial content that
returns exactly the observed status codes and versions, the versions are `v+1 … v+k`, and the observed final
listing and version are that execution's result. -/
theorem checkHistory_sound (e0 : Etcd) (ops : List Op) (fs : Store) (fv : Nat)
    (h : (checkHistory apply e0 ops fs fv).all = true) :
    (sortByVer (ops.filter Op.success)).Perm (ops.filter Op.success) ∧
    (runSeq e0 (reqsOf (sortByVer (ops.filter Op.success)))).2.map (fun r => (r.status, r.version)) =
      (sortByVer (ops.filter Op.success)).map (fun o => (o.status, o.ver)) ∧
    (sortByVer (ops.filter Op.success)).map (·.ver.getD 0) =
      (List.range (sortByVer (ops.filter Op.success)).length).map (· + e0.version + 1) ∧
    storeEq (runSeq e0 (reqsOf (sortByVer (ops.filter Op.success)))).1.store fs = true ∧
    (runSeq e0 (reqsOf (sortByVer (ops.filter Op.success)))).1.version = fv := by
  simp only [HistCheck.all, checkHistory, Bool.and_eq_true] at h
  obtain ⟨⟨⟨⟨⟨⟨⟨_, hgap⟩, hen⟩, _⟩, _⟩, _⟩, hst⟩, hver⟩ := h
  obtain ⟨i1, i2, _⟩ := replay_sound _ e0 hen
  rw [i2] at hst hver
  exact ⟨sortByVer_perm _, i1, by simpa using hgap, by simpa using hst, by simpa using hver⟩

/-- Non-vacuity: an accepted concurrent history — create a (201, v8) and, overlapping in real time, update a
(200, v9) observed *before* the create's response was read, plus a rejected create (409) and an unlocked read. -/
example : (checkHistory apply ⟨[], 7⟩
    [⟨.mut (.update "a" ⟨"A", "p9"⟩), 200, some 9, 2, 3⟩, ⟨.mut (.create "a" oA), 201, some 8, 1, 4⟩,
     ⟨.mut (.create "a" oB), 409, none, 5, 6⟩, ⟨.get "a" (some ⟨"A", "p9"⟩), 200, none, 5, 7⟩]
    [("a", ⟨"A", "p9"⟩)] 9).all = true := by decide
example : (checkHistory apply ⟨[], 7⟩ [⟨.mut (.create "a" oA), 201, some 9, 1, 2⟩] [("a", oA)] 9).all = false := by decide

/-! ## Part 4 (extension "cluster"): the tie by translation

`Gen/FactsC18IR.lean` is regenerated on every run from the current bodies of the Go functions by the go/ast →
Lean translator (`harness/factextract/facts_c18_ir.go` + `irlib.go`; `defer`, the named result of `mutex.Lock`
and `ClusterPanic` are desugared first). Each `…IR` is the hand-written model function on every input
(proofs: `Proofs/AdminAPIIR.lean`, `Proofs/ClusterMutexIR.lean`), and the model functions compose to `apply` /
`micro` / `step`, which the theorems above are about. -/

theorem createObject_regenerated_from_source (e : Etcd) (sp : Spec) (rdErr : Bool) :
    Gen.FactsC18IR.extractionFailed = false ∧ Gen.FactsC18IR.createObjectIR e sp rdErr = createObject e sp rdErr :=
  ⟨by decide, AdminAPI.createObject_regenerated_from_source e sp rdErr⟩

theorem updateObject_regenerated_from_source (e : Etcd) (sp : Spec) (rdErr : Bool) :
    Gen.FactsC18IR.extractionFailed = false ∧ Gen.FactsC18IR.updateObjectIR e sp rdErr = updateObject e sp rdErr :=
  ⟨by decide, AdminAPI.updateObject_regenerated_from_source e sp rdErr⟩

theorem deleteObject_regenerated_from_source (e : Etcd) (name : String) :
    Gen.FactsC18IR.extractionFailed = false ∧ Gen.FactsC18IR.deleteObjectIR e name = deleteObject e name :=
  ⟨by decide, AdminAPI.deleteObject_regenerated_from_source e name⟩

theorem upgradeConfigVersion_regenerated_from_source (e : Etcd) (w : RW) :
    Gen.FactsC18IR.extractionFailed = false ∧ Gen.FactsC18IR.upgradeConfigVersionIR e w = upgradeConfigVersion e w :=
  ⟨by decide, AdminAPI.upgradeConfigVersion_regenerated_from_source e w⟩

theorem getVersion_regenerated_from_source (e : Etcd) (getErr : Bool) :
    Gen.FactsC18IR.extractionFailed = false ∧ Gen.FactsC18IR.getVersionIR e getErr = getVersion e getErr :=
  ⟨by decide, AdminAPI.getVersion_regenerated_from_source e getErr⟩

theorem plusOneVersion_regenerated_from_source (e : Etcd) (getErr putErr : Bool) :
    Gen.FactsC18IR.extractionFailed = false ∧
      Gen.FactsC18IR.plusOneVersionIR e getErr putErr = plusOneVersion e getErr putErr :=
  ⟨by decide, AdminAPI.plusOneVersion_regenerated_from_source e getErr putErr⟩

theorem getObject_regenerated_from_source (e : Etcd) (name : String) (getErr : Bool) :
    Gen.FactsC18IR.extractionFailed = false ∧ Gen.FactsC18IR.getObjectIR e name getErr = getObject e name getErr :=
  ⟨by decide, AdminAPI.getObject_regenerated_from_source e name getErr⟩

theorem putObject_regenerated_from_source (e : Etcd) (sp : Spec) (putErr : Bool) :
    Gen.FactsC18IR.extractionFailed = false ∧ Gen.FactsC18IR.putObjectIR e sp putErr = putObject e sp putErr :=
  ⟨by decide, AdminAPI.putObject_regenerated_from_source e sp putErr⟩

theorem deleteObjectKey_regenerated_from_source (e : Etcd) (name : String) (delErr : Bool) :
    Gen.FactsC18IR.extractionFailed = false ∧
      Gen.FactsC18IR.deleteObjectKeyIR e name delErr = deleteObjectKey e name delErr :=
  ⟨by decide, AdminAPI.deleteObjectKey_regenerated_from_source e name delErr⟩

theorem serverLock_regenerated_from_source (gmErr lkErr : Bool) :
    Gen.FactsC18IR.extractionFailed = false ∧ Gen.FactsC18IR.serverLockIR gmErr lkErr = serverLock gmErr lkErr :=
  ⟨by decide, AdminAPI.serverLock_regenerated_from_source gmErr lkErr⟩

theorem serverUnlock_regenerated_from_source (gmErr ulErr : Bool) :
    Gen.FactsC18IR.extractionFailed = false ∧ Gen.FactsC18IR.serverUnlockIR gmErr ulErr = serverUnlock gmErr ulErr :=
  ⟨by decide, AdminAPI.serverUnlock_regenerated_from_source gmErr ulErr⟩

/-- `mutex.Lock`, including the order of its local and etcd operations (`MOut.trace`) and the cleanup
`m.m.Unlock` + local unlock on error (commit a206e96). -/
theorem lock_regenerated_from_source (tmo : Nat) (lockO : Ctx → LockOutcome) (delO : Ctx → Bool) (held key : Bool) :
    Gen.FactsC18IR.extractionFailed = false ∧ Gen.FactsC18IR.lockIR tmo lockO delO held key = lockCall tmo lockO delO key :=
  ⟨by decide, ClusterMutex.lock_regenerated_from_source tmo lockO delO held key⟩

/-- `mutex.Unlock`: etcd unlock, then the local unlock. -/
theorem unlock_regenerated_from_source (tmo : Nat) (lockO : Ctx → LockOutcome) (delO : Ctx → Bool) (held key : Bool) :
    Gen.FactsC18IR.extractionFailed = false ∧ Gen.FactsC18IR.unlockIR tmo lockO delO held key = unlockCall tmo delO key :=
  ⟨by decide, ClusterMutex.unlock_regenerated_from_source tmo lockO delO held key⟩

/-- **The translated handlers are the atomic specification**: what `createObject` / `updateObject` /
`deleteObject` (as regenerated from the source) do to etcd and answer is `apply` — the transition
`handlers_atomic`, `versions_gap_free`, `conflict_unchanged`, `final_store_is_fold` are about — and is what the
micro-step machine `exec` computes; the handler returns with the lock released (deferred `s.Unlock()` on every
path) and made no etcd access outside `s.Lock()` … `s.Unlock()`. -/
theorem translated_handlers_are_apply (e : Etcd) (n : String) (o : Obj) :
    let c := Gen.FactsC18IR.createObjectIR e ⟨n, o⟩ false
    let u := Gen.FactsC18IR.updateObjectIR e ⟨n, o⟩ false
    let d := Gen.FactsC18IR.deleteObjectIR e n
    (c.etcd, c.rw.resp) = apply e (.create n o) ∧ (u.etcd, u.rw.resp) = apply e (.update n o) ∧
    (d.etcd, d.rw.resp) = apply e (.delete n) ∧
    exec (.create n o) e = (c.etcd, c.rw.resp) ∧ exec (.update n o) e = (u.etcd, u.rw.resp) ∧
    exec (.delete n) e = (d.etcd, d.rw.resp) ∧
    c.locked = false ∧ u.locked = false ∧ d.locked = false ∧
    c.unlockedAccess = false ∧ u.unlockedAccess = false ∧ d.unlockedAccess = false := by
  simp only [AdminAPI.createObject_regenerated_from_source, AdminAPI.updateObject_regenerated_from_source,
    AdminAPI.deleteObject_regenerated_from_source]
  have hc := handle_is_apply e (.create n o)
  have hu := handle_is_apply e (.update n o)
  have hd := handle_is_apply e (.delete n)
  have xc := handle_is_exec e (.create n o)
  have xu := handle_is_exec e (.update n o)
  have xd := handle_is_exec e (.delete n)
  simp only [handle] at hc hu hd xc xu xd
  refine ⟨?_, ?_, ?_, xc, xu, xd, hc.2.2.1, hu.2.2.1, hd.2.2.1, hc.2.2.2, hu.2.2.2, hd.2.2.2⟩
  · rw [hc.1, hc.2.1]
  · rw [hu.1, hu.2.1]
  · rw [hd.1, hd.2.1]

/-- A body that cannot be read is answered 400 before the lock is taken, nothing changes; an etcd error in any
round trip (or a failing `Server.Lock`) is a panic (`none`), never a continuation with a half result; without
errors the helpers are exactly the micro steps of `micro` (`_plusOneVersion` = read + 1, written and returned). -/
theorem translated_helpers_are_micro (req : Req) (e : Etcd) (sp : Spec) (b : Bool) :
    (Gen.FactsC18IR.createObjectIR e sp true).etcd = e ∧ (Gen.FactsC18IR.createObjectIR e sp true).rw.resp = ⟨400, none⟩ ∧
    (Gen.FactsC18IR.updateObjectIR e sp true).etcd = e ∧ (Gen.FactsC18IR.updateObjectIR e sp true).rw.resp = ⟨400, none⟩ ∧
    (Gen.FactsC18IR.getObjectIR e req.name false).map (fun x => (AdminAPI.PC.gotObj x, e)) = some (micro req .start e) ∧
    (Gen.FactsC18IR.getVersionIR e false).map (fun v => (AdminAPI.PC.gotVer v, e)) = some (micro req .wrote e) ∧
    (Gen.FactsC18IR.plusOneVersionIR e false false).map (fun p => (AdminAPI.PC.done ⟨okStatus req, some p.2⟩, p.1)) =
      some (micro req (.gotVer e.version) e) ∧
    Gen.FactsC18IR.getVersionIR e true = none ∧ Gen.FactsC18IR.plusOneVersionIR e true b = none ∧
    Gen.FactsC18IR.plusOneVersionIR e b true = none ∧ Gen.FactsC18IR.getObjectIR e sp.name true = none ∧
    Gen.FactsC18IR.putObjectIR e sp true = none ∧ Gen.FactsC18IR.deleteObjectKeyIR e sp.name true = none ∧
    Gen.FactsC18IR.serverLockIR true b = none ∧ Gen.FactsC18IR.serverLockIR b true = none := by
  simp only [AdminAPI.createObject_regenerated_from_source, AdminAPI.updateObject_regenerated_from_source,
    AdminAPI.getObject_regenerated_from_source, AdminAPI.getVersion_regenerated_from_source,
    AdminAPI.plusOneVersion_regenerated_from_source, AdminAPI.putObject_regenerated_from_source,
    AdminAPI.deleteObjectKey_regenerated_from_source, AdminAPI.serverLock_regenerated_from_source]
  have hb := bad_body_rejected e sp
  have hm := helpers_are_micro req e
  have he := helper_errors_panic e sp.name sp b
  refine ⟨by rw [hb.1], by rw [hb.1]; rfl, by rw [hb.2], by rw [hb.2]; rfl, hm.1, hm.2.1, hm.2.2.1,
    he.1, he.2.1, he.2.2.1, he.2.2.2.1, he.2.2.2.2.1, he.2.2.2.2.2.1, he.2.2.2.2.2.2.1, he.2.2.2.2.2.2.2⟩

/-- **One call of the translated `mutex.Lock` is a schedule of the interleaving model** (`lockActs`: local
lock, enqueue, then granted / timed out + local unlock / early error + local unlock; cleanup delete
succeeding): local mutex, presence of the member's key and the thread's position after the schedule are what
the translated function returns; its events are in the order local lock → etcd lock → (on error) etcd
cleanup unlock → local unlock. So `exclusive`, `failed_acquire_leaves_free`, … are about the code's `Lock`. -/
theorem translated_lock_is_schedule (c : Cfg) (s s' : State) (t tmo : Nat) (lockO : Ctx → LockOutcome) (delO : Ctx → Bool)
    (held : Bool) (hd : delO (.timeout tmo 2) = true) (hnd : s.queue.Nodup)
    (hrun : run c s (lockActs t (lockO (.timeout tmo 1))) = some s') :
    let r := Gen.FactsC18IR.lockIR tmo lockO delO held (decide (c.sess (c.obj t) ∈ s.queue))
    s'.held (c.obj t) = r.held ∧ decide (c.sess (c.obj t) ∈ s'.queue) = r.key ∧
    s'.pc t = (if r.err then .idle else .crit) ∧
    r.trace = (if r.err then [.localLock, .etcdLock (lockO (.timeout tmo 1)), .etcdUnlock true, .localUnlock]
               else [.localLock, .etcdLock (lockO (.timeout tmo 1))]) := by
  simp only [ClusterMutex.lock_regenerated_from_source]
  have h := lockCall_is_schedule c s s' t tmo lockO delO hd hnd hrun
  have ht := lockCall_trace tmo lockO delO (decide (c.sess (c.obj t) ∈ s.queue))
  rw [hd] at ht
  exact ⟨h.1, h.2.1, h.2.2, ht⟩

/-- … and one call of the translated `mutex.Unlock` by the holder is `releaseSeq`: the etcd key is deleted
first, the local mutex released second. -/
theorem translated_unlock_is_schedule (c : Cfg) (s s' : State) (t tmo : Nat) (lockO : Ctx → LockOutcome)
    (delO : Ctx → Bool) (held : Bool) (hd : delO (.timeout tmo 1) = true) (hnd : s.queue.Nodup)
    (hrun : run c s (releaseSeq t) = some s') :
    let r := Gen.FactsC18IR.unlockIR tmo lockO delO held (decide (c.sess (c.obj t) ∈ s.queue))
    s'.held (c.obj t) = r.held ∧ decide (c.sess (c.obj t) ∈ s'.queue) = r.key ∧ r.err = false ∧ s'.pc t = .idle ∧
    r.trace = [.etcdUnlock true, .localUnlock] := by
  simp only [ClusterMutex.unlock_regenerated_from_source]
  exact unlockCall_is_schedule c s s' t tmo delO hd hnd hrun

/-- Non-vacuity: the schedules are enabled from a free lock for every outcome of the etcd call, and concrete
values of the translated functions. -/
example (o : LockOutcome) : ∃ s', run cfg3 init (lockActs 4 o) = some s' :=
  lockActs_enabled cfg3 init 4 o rfl rfl rfl
example : Gen.FactsC18IR.lockIR 5 (fun _ => .lostResponse) (fun _ => true) false false =
    ⟨false, false, true, [.localLock, .etcdLock .lostResponse, .etcdUnlock true, .localUnlock]⟩ := by decide
example : Gen.FactsC18IR.lockIR 5 (fun _ => .granted) (fun _ => true) false false =
    ⟨true, true, false, [.localLock, .etcdLock .granted]⟩ := by decide
example : (Gen.FactsC18IR.createObjectIR ⟨[], 7⟩ ⟨"a", oA⟩ false) =
    ⟨⟨[("a", oA)], 8⟩, ⟨true, 201, some 8⟩, false, false⟩ := by decide
example : (Gen.FactsC18IR.updateObjectIR ⟨[("a", oA)], 8⟩ ⟨"a", oB⟩ false).rw.resp = ⟨400, none⟩ := by decide
example : (Gen.FactsC18IR.deleteObjectIR ⟨[("a", oA)], 8⟩ "a") = ⟨⟨[], 9⟩, ⟨false, 200, some 9⟩, false, false⟩ := by decide

/-! ## Audit repair (notes/AUDIT.md, C18 item 2; engineer mux)

1. `OneObjectPerSession` was weakened (in `Proofs/ClusterMutex.lean`) to what the proofs use — two threads
   whose objects live on the same session use the same object — so that every theorem above is now
   instantiable at the configuration the judge replays (`sess o = o / 8`).
2. "Consequently concurrent admin mutations are serialized" is **derived**: `Proofs/AdminUnderMutex.lean`
   builds the product of the mutex model with the handlers' etcd round trips (`.critical t` carries one
   `AdminAPI.micro`; no lock guard of its own) and proves that it projects to `Sys.run`; the guard
   `holder = none` of `Sys.acquire` is discharged by the mutex invariant. -/

/-- The judge's configuration (`Driver/C18.lean`, single object per member: thread `g` of member `ms[g]`
uses object `ms[g] * 8`, created on session `object / 8`) satisfies `OneObjectPerSession` … -/
def judgeCfg (ms : List Nat) : Cfg :=
  { obj := fun g => match ms[g]? with | some m => m * 8 | none => 0, sess := fun o => o / 8 }

theorem one_object_per_session_judgeCfg (ms : List Nat) : OneObjectPerSession (judgeCfg ms) := by
  intro t1 t2 h
  simp only [judgeCfg] at h ⊢
  cases h1 : ms[t1]? <;> cases h2 : ms[t2]? <;> simp only [h1, h2] at h ⊢ <;> omega

/-- … whereas the former formulation (`sess` injective on all objects) does not hold of it: objects 0 and 1
are on the same session. So `exclusive` could not be instantiated at any replayed configuration before. -/
example : ¬ (∀ o1 o2, (judgeCfg [0, 1, 2]).sess o1 = (judgeCfg [0, 1, 2]).sess o2 → o1 = o2) := by
  intro h; have := h 0 1 (by decide); omega

/-- `exclusive` at the judge's configuration. -/
theorem exclusive_judgeCfg (ms : List Nat) {s : State} (hr : Reachable (judgeCfg ms) s) (t1 t2 : Nat)
    (a : s.pc t1 = .crit) (b : s.pc t2 = .crit) : t1 = t2 :=
  exclusive (one_object_per_session_judgeCfg ms) hr t1 t2 a b

open EgVerif.AdminUnderMutex in
/-- **Every interleaving of the real lock protocol with the handlers is an interleaving of the abstract
system.** For every configuration with one mutex object per session and every schedule of the product —
local locks, enqueues, grants, time-outs, early errors, handler round trips inside the critical section,
unlocks, unlocked reads, of any number of goroutines on any members — the projected schedule is enabled in
`Sys` (in particular every `acquire` finds `holder = none`) and ends in a state with the same etcd, handler
states and log, whose holder is the thread in the mutex model's critical section. -/
theorem product_projects_to_sys {c : Cfg} (h1 : OneObjectPerSession c) (e0 : Etcd) (as : List PAct)
    (p : PState) (h : AdminUnderMutex.run c (PState.init e0) as = some p) :
    ∃ s, Sys.run (Sys.init e0) (as.flatMap AdminUnderMutex.proj) = some s ∧ s.etcd = p.etcd ∧ s.cur = p.cur ∧ s.log = p.log ∧
      ∀ t, s.holder = some t ↔ p.mx.pc t = .crit := by
  obtain ⟨s, hs, r⟩ := run_projects h1 as _ p _ (R_init c e0) h
  exact ⟨s, hs, r.etcd, r.cur, r.log, r.hold⟩

open EgVerif.AdminUnderMutex in
/-- **Concurrent admin mutations are serialized — derived from the mutex** (`handlers_atomic` composed with
the projection): under the real lock protocol the log of finished mutations is a sequential execution of
`apply` in unlock order with the same responses; successful mutations carry the versions `v+1, …, v+k`,
distinct and gap-free; and whenever no goroutine is in the critical section, store and version are exactly
the result of that sequential execution. -/
theorem admin_mutations_serialized_under_mutex {c : Cfg} (h1 : OneObjectPerSession c) (e0 : Etcd)
    (as : List PAct) (p : PState) (h : AdminUnderMutex.run c (PState.init e0) as = some p) :
    (runSeq e0 (p.log.map Prod.fst)).2 = p.log.map Prod.snd ∧
    (p.log.map Prod.snd).filterMap (·.version) =
      List.range' (e0.version + 1) ((p.log.map Prod.snd).filter Resp.ok).length ∧
    ((∀ t, p.mx.pc t ≠ .crit) → p.etcd = (runSeq e0 (p.log.map Prod.fst)).1) := by
  obtain ⟨s, hs, he, _, hl, hh⟩ := product_projects_to_sys h1 e0 as p h
  obtain ⟨ha1, ha2⟩ := handlers_atomic e0 _ s hs
  rw [hl] at ha1 ha2
  refine ⟨ha1, ?_, fun hfree => ?_⟩
  · rw [← ha1]; exact (versions_gap_free e0 _).1
  · rw [← he]
    apply ha2
    cases hh' : s.holder with
    | none => rfl
    | some t => exact absurd ((hh t).mp hh') (hfree t)

/-- Non-vacuity: members 0 and 1 (judge configuration). Goroutine 0 gets the lock and creates `a`; goroutine 1
enqueues meanwhile and is **not** granted while 0 is inside (the grant is not enabled); after 0's unlock it is
granted and its create of the same name is answered 409. The log is the sequential execution. -/
private def prodRun : List AdminUnderMutex.PAct :=
  [.lock (.localLock 0), .lock (.etcdEnqueue 0), .lock (.localLock 1), .lock (.etcdEnqueue 1),
   .granted 0 (.create "a" oA), .micro 0, .micro 0, .read 1, .micro 0, .micro 0, .unlock 0, .lock (.localUnlock 0),
   .granted 1 (.create "a" oB), .micro 1, .micro 1, .unlock 1, .lock (.localUnlock 1)]

example : (AdminUnderMutex.run (judgeCfg [0, 1]) (AdminUnderMutex.PState.init ⟨[], 7⟩) prodRun).map
    (fun p => (p.log, p.etcd)) =
    some ([(.create "a" oA, ⟨201, some 8⟩), (.create "a" oB, ⟨409, none⟩)], ⟨[("a", oA)], 8⟩) := by decide
/-- the grant to goroutine 1 is not enabled while goroutine 0 is in the critical section -/
example : (AdminUnderMutex.run (judgeCfg [0, 1]) (AdminUnderMutex.PState.init ⟨[], 7⟩)
    (prodRun.take 6 ++ [.granted 1 (.create "a" oB)])).isNone = true := by decide

/-! ## Audit repair, second part (notes/AUDIT.md item 17, C18; engineer mux)

(a) failed acquisitions in the mutex judge's replay; (b) completeness of `checkHistory`; (c) lease expiry in the
product of the lock protocol with the admin handlers. -/

/-- **(a) A failed `mutex.Lock` is state-neutral**: in every reachable state in which goroutine `t` is idle and its
object's local mutex is free, the whole failed attempt (`failSeq`: local lock, key created, time-out / lost
response with cleanup, deferred local unlock — or the early-error variant) is enabled and ends in the very
same state. This is why the judge's `scheduleOf` may drop `failed` events; *that* each failed attempt had such a
position between the goroutine's previous event and its `failed` stamp is what `Spec.failedReplayOK` checks on
the observed trace (now part of the judge's `agree`). -/
theorem failed_acquisition_is_neutral {c : Cfg} (h1 : OneObjectPerSession c) {s : State} (hr : Reachable c s)
    (t : Nat) (hp : s.pc t = .idle) (hh : s.held (c.obj t) = false) (as : List ClusterMutex.Act) :
    run c s (failSeq t) = some s ∧ run c s (lockActs t .earlyError) = some s ∧
    run c s (failSeq t ++ as) = run c s as :=
  ⟨failSeq_neutral h1 (reachable_inv h1 hr) t hp hh, earlyFail_neutral h1 (reachable_inv h1 hr) t hp hh,
   failSeq_insert h1 (reachable_inv h1 hr) t hp hh as⟩

/-- **`failuresRecovered` accepts the model**: the harness evaluates it with `finalProbeOK` = "every member could
take and release the lock when all goroutines were done"; in the model that probe succeeds in every reachable
all-idle state — however many acquisitions failed before — and then `failuresRecovered` holds of any trace. -/
theorem failuresRecovered_accepts_model {c : Cfg} (h1 : OneObjectPerSession c) {s : State} (hr : Reachable c s)
    (hq : ∀ t, s.pc t = .idle) (evs : List TEv) :
    (∀ t, ∃ s', run c s (acquireSeq t) = some s' ∧ s'.pc t = .crit) ∧ failuresRecovered true evs = true := by
  obtain ⟨hf, hh⟩ := failed_acquire_leaves_free h1 hr hq
  exact ⟨fun t => free_can_acquire hq hf hh t, failuresRecovered_of_probe evs⟩

/-- a failed attempt replayed in the middle of another goroutine's critical section (other member): neutral;
`failedReplayOK` accepts the trace, and rejects a `failed` of a goroutine whose object was held throughout -/
example : (run (judgeCfg [0, 1, 0]) init (acquireSeq 0 ++ failSeq 1 ++ releaseSeq 0)).map
      (fun s => (s.queue, s.pc 0, s.pc 1, s.pc 2, s.held 0, s.held 8)) =
    (run (judgeCfg [0, 1, 0]) init (acquireSeq 0 ++ releaseSeq 0)).map
      (fun s => (s.queue, s.pc 0, s.pc 1, s.pc 2, s.held 0, s.held 8)) ∧
    (run (judgeCfg [0, 1, 0]) init (acquireSeq 0 ++ failSeq 1 ++ releaseSeq 0)).isSome = true := by decide
example : failedReplayOK (judgeCfg [0, 1, 0]) [1] init [] [.acquired 0, .failed 1, .releasing 0] = true ∧
    failedReplayOK (judgeCfg [0, 1, 0]) [2] init [] [.acquired 0, .failed 2, .releasing 0] = true ∧
    failedReplayOK (judgeCfg [0, 1, 0]) [2] init [] [.acquired 0, .releasing 0, .acquired 0, .failed 2, .releasing 0] = true ∧
    failedReplayOK (judgeCfg [0, 1, 0]) [2] init [] [.acquired 0, .releasing 2] = false := by decide

/-- **(b) `checkHistory` is complete for the fields `checkHistory_sound` uses**: the observation of the sequential
execution of any request list (`obsSeq`: status and version as `apply` returns them, stamped in execution order),
with a final listing equal to the resulting store and the resulting version, passes `haveVersions`, `gapFree`,
`enabled`, `finalStore` and `finalVersion`. -/
theorem checkHistory_complete (e0 : Etcd) (rs : List Req) (fs : Store)
    (hfs : storeEq (runSeq e0 rs).1.store fs = true) :
    (checkHistory apply e0 (obsSeq e0 0 rs) fs (runSeq e0 rs).1.version).haveVersions = true ∧
    (checkHistory apply e0 (obsSeq e0 0 rs) fs (runSeq e0 rs).1.version).gapFree = true ∧
    (checkHistory apply e0 (obsSeq e0 0 rs) fs (runSeq e0 rs).1.version).enabled = true ∧
    (checkHistory apply e0 (obsSeq e0 0 rs) fs (runSeq e0 rs).1.version).finalStore = true ∧
    (checkHistory apply e0 (obsSeq e0 0 rs) fs (runSeq e0 rs).1.version).finalVersion = true :=
  AdminAPI.checkHistory_complete e0 rs fs hfs

open EgVerif.AdminUnderMutex in
/-- **… hence every history of the real lock protocol with the handlers is accepted**: the log of any product run
(`Proofs/AdminUnderMutex.lean`), observed in unlock order once nobody is inside, passes those five checks — the api
judge's executable spec and the theorems are connected in both directions (`checkHistory_sound` ⇐, this ⇒).
`realTime` and `rejectedJustified` are added below (`model_history_accepted_all`); `readsJustified` stays an
executable check only (the model's observation has no unlocked reads). -/
theorem model_history_accepted {c : Cfg} (h1 : OneObjectPerSession c) (e0 : Etcd) (as : List PAct) (p : PState)
    (h : AdminUnderMutex.run c (PState.init e0) as = some p) (hfree : ∀ t, p.mx.pc t ≠ .crit) (fs : Store)
    (hfs : storeEq p.etcd.store fs = true) :
    let hc := checkHistory apply e0 (obsSeq e0 0 (p.log.map Prod.fst)) fs p.etcd.version
    hc.haveVersions = true ∧ hc.gapFree = true ∧ hc.enabled = true ∧ hc.finalStore = true ∧ hc.finalVersion = true := by
  obtain ⟨_, _, hst⟩ := admin_mutations_serialized_under_mutex h1 e0 as p h
  have he := hst hfree
  rw [he] at hfs ⊢
  exact AdminAPI.checkHistory_complete e0 _ fs hfs

example : (checkHistory apply ⟨[], 7⟩ (obsSeq ⟨[], 7⟩ 0 [.create "a" oA, .create "a" oB, .update "a" ⟨"A", "p9"⟩, .delete "b"])
    [("a", ⟨"A", "p9"⟩)] 9).all = true := by decide

/-- **(b') the real-time clause is complete too**: the observation of any sequential execution (request `j` stamped
`(2j+1, 2j+2)`, whatever final listing and version are compared) passes `realTime` — "version order never
contradicts real time" cannot alarm on a history the model produces. -/
theorem checkHistory_complete_realTime (e0 : Etcd) (rs : List Req) (fs : Store) (fv : Nat) :
    (checkHistory apply e0 (obsSeq e0 0 rs) fs fv).realTime = true :=
  AdminAPI.checkHistory_complete_realTime e0 rs fs fv

open EgVerif.AdminUnderMutex in
/-- … hence for every history of the real lock protocol with the handlers (as `model_history_accepted`). -/
theorem model_history_accepted_realTime {c : Cfg} (e0 : Etcd) (as : List PAct) (p : PState)
    (_h : AdminUnderMutex.run c (PState.init e0) as = some p) (fs : Store) :
    (checkHistory apply e0 (obsSeq e0 0 (p.log.map Prod.fst)) fs p.etcd.version).realTime = true :=
  AdminAPI.checkHistory_complete_realTime e0 _ fs _

/-- **(b'') the rejected-mutation clause is complete**: every 409 / 404 / 400 of a sequential observation is
justified by the judge — at the position "number of successes before it", which lies inside the operation's
real-time window and whose replayed state is the state the request really saw. -/
theorem checkHistory_complete_rejected (e0 : Etcd) (rs : List Req) (fs : Store) (fv : Nat) :
    (checkHistory apply e0 (obsSeq e0 0 rs) fs fv).rejectedJustified = true :=
  AdminAPI.checkHistory_complete_rejected e0 rs fs fv

/-- **(b''') the judge accepts every sequential model history of mutations in all eight fields** (`HistCheck.all`;
`obsSeq` observes mutations only, so `readsJustified` has nothing to check there and stays an executable check for
histories with unlocked reads). -/
theorem checkHistory_complete_all (e0 : Etcd) (rs : List Req) (fs : Store)
    (hfs : storeEq (runSeq e0 rs).1.store fs = true) :
    (checkHistory apply e0 (obsSeq e0 0 rs) fs (runSeq e0 rs).1.version).all = true :=
  AdminAPI.checkHistory_complete_all e0 rs fs hfs

open EgVerif.AdminUnderMutex in
/-- … hence the api judge raises no alarm on any history of the real lock protocol with the handlers, observed in
unlock order once nobody is inside (all fields; strengthens `model_history_accepted`). -/
theorem model_history_accepted_all {c : Cfg} (h1 : OneObjectPerSession c) (e0 : Etcd) (as : List PAct) (p : PState)
    (h : AdminUnderMutex.run c (PState.init e0) as = some p) (hfree : ∀ t, p.mx.pc t ≠ .crit) (fs : Store)
    (hfs : storeEq p.etcd.store fs = true) :
    (checkHistory apply e0 (obsSeq e0 0 (p.log.map Prod.fst)) fs p.etcd.version).all = true := by
  obtain ⟨_, _, hst⟩ := admin_mutations_serialized_under_mutex h1 e0 as p h
  have he := hst hfree
  rw [he] at hfs ⊢
  exact AdminAPI.checkHistory_complete_all e0 _ fs hfs

/-- the rejected clause is not trivially true: a 409 for a name that never existed is not justified -/
example : (checkHistory apply ⟨[], 7⟩
    [⟨.mut (.create "a" oA), 201, some 8, 1, 2⟩, ⟨.mut (.create "b" oB), 409, none, 3, 4⟩]
    [("a", oA)] 8).rejectedJustified = false := by decide
/-- … and neither is a 409 whose only justifying state lies outside its real-time window (the conflicting create
started after the rejected one had ended) -/
example : (checkHistory apply ⟨[], 7⟩
    [⟨.mut (.create "a" oA), 409, none, 1, 2⟩, ⟨.mut (.create "a" oA), 201, some 8, 3, 4⟩]
    [("a", oA)] 8).rejectedJustified = false := by decide

/-- the clause is not trivially true: swapping the stamps of two successes makes it fail -/
example : (checkHistory apply ⟨[], 7⟩
    [⟨.mut (.create "a" oA), 201, some 8, 5, 6⟩, ⟨.mut (.create "b" oB), 201, some 9, 1, 2⟩]
    [("a", oA), ("b", oB)] 9).realTime = false := by decide

open EgVerif.AdminUnderMutex in
/-- **(c) Lease expiry**: for every history of the product with arbitrary lease expiries *except while a goroutine
of the expiring member is in the critical section* (`SafeP`), the admin mutations are still serialized: the log is
the sequential `runSeq` in unlock order, versions gap-free, state = sequential result whenever nobody is inside.
(What `exclusive_unless_holder_expires` means for the admin API.) -/
theorem admin_mutations_serialized_unless_holder_expires {c : Cfg} (h1 : OneObjectPerSession c) (e0 : Etcd)
    (as : List PActX) (p : PState) (hs : SafeP c (PState.init e0) as)
    (h : AdminUnderMutex.runX c (PState.init e0) as = some p) :
    (runSeq e0 (p.log.map Prod.fst)).2 = p.log.map Prod.snd ∧
    (p.log.map Prod.snd).filterMap (·.version) =
      List.range' (e0.version + 1) ((p.log.map Prod.snd).filter Resp.ok).length ∧
    ((∀ t, p.mx.pc t ≠ .crit) → p.etcd = (runSeq e0 (p.log.map Prod.fst)).1) := by
  obtain ⟨s, hsr, r⟩ := run_projectsX h1 as _ p _ (RX_init c e0) hs h
  obtain ⟨ha1, ha2⟩ := handlers_atomic e0 _ s hsr
  rw [r.log] at ha1 ha2
  refine ⟨ha1, ?_, fun hfree => ?_⟩
  · rw [← ha1]; exact (versions_gap_free e0 _).1
  · rw [← r.etcd]
    apply ha2
    cases hh' : s.holder with
    | none => rfl
    | some t => exact absurd ((r.hold t).mp hh') (hfree t)

/-- **Witness: a lease that expires while its member's goroutine is inside un-serializes the admin API.** Member 0
creates `a`; after its first round trip its lease expires; member 1 is granted the lock and creates `a` too; the two
handlers overlap: both get 201 and **the same version 8**, the second write silently replaces the first — no
sequential execution produces this log (sequentially the second create is a 409). -/
private def expiryRun : List AdminUnderMutex.PActX :=
  [.base (.lock (.localLock 0)), .base (.lock (.etcdEnqueue 0)), .base (.granted 0 (.create "a" oA)), .base (.micro 0),
   .leaseExpire 0,
   .base (.lock (.localLock 1)), .base (.lock (.etcdEnqueue 1)), .base (.granted 1 (.create "a" oB)), .base (.micro 1),
   .base (.micro 0), .base (.micro 1), .base (.micro 0), .base (.micro 1), .base (.micro 0), .base (.micro 1),
   .base (.unlock 0), .base (.unlock 1)]

example : (AdminUnderMutex.runX (judgeCfg [0, 1]) (AdminUnderMutex.PState.init ⟨[], 7⟩) expiryRun).map
    (fun p => (p.log, p.etcd)) =
    some ([(.create "a" oA, ⟨201, some 8⟩), (.create "a" oB, ⟨201, some 8⟩)], ⟨[("a", oB)], 8⟩) ∧
    (runSeq ⟨[], 7⟩ [.create "a" oA, .create "a" oB]).2 = [⟨201, some 8⟩, ⟨409, none⟩] := by decide
/-- both goroutines are in the critical section together after the expiry -/
example : (AdminUnderMutex.runX (judgeCfg [0, 1]) (AdminUnderMutex.PState.init ⟨[], 7⟩) (expiryRun.take 9)).map
    (fun p => (p.mx.pc 0, p.mx.pc 1)) = some (.crit, .crit) := by decide

end EgVerif.C18
