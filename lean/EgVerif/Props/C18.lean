import EgVerif.Proofs.ClusterMutex
import EgVerif.Proofs.AdminAPI
import EgVerif.Gen.FactsC18
/-!
# C18 — the cluster mutex is exclusive; admin mutations serialize with gap-free versions

Part 1 (`ClusterMutex`): theorems about every interleaving of the atomic steps of
`mutex.Lock` / `mutex.Unlock` over any number of goroutines, mutex objects and members
(sessions), on top of the etcd lock contract stated in `Model/ClusterMutex.lean`.
Hypothesis `OneObjectPerSession`: a member uses one mutex object for the lock name —
re-derived from `api.Server.getMutex` on every run (`one_mutex_object_per_server`).

Part 2 (`AdminAPI`): under such a lock the create / update / delete handlers (each a sequence
of separate etcd round trips) are atomic, versions are distinct and gap-free, rejected
requests change nothing, the final store is the fold of the successful requests in version
order.
-/
namespace EgVerif.C18
open EgVerif.ClusterMutex EgVerif.AdminAPI

/-! ## Part 1: the mutex -/

/-- States reachable by any schedule of any threads. -/
def Reachable (c : Cfg) (s : State) : Prop := ∃ as, run c init as = some s

theorem reachable_inv {c : Cfg} (h1 : OneObjectPerSession c) {s : State} (hr : Reachable c s) : Inv c s := by
  obtain ⟨as, h⟩ := hr
  exact inv_run h1 as (inv_init c) h

/-- **Mutual exclusion**: in every reachable state at most one goroutine of any member is
inside the critical section. -/
theorem exclusive {c : Cfg} (h1 : OneObjectPerSession c) {s : State} (hr : Reachable c s) (t1 t2 : Nat)
    (a : s.pc t1 = .crit) (b : s.pc t2 = .crit) : t1 = t2 := by
  have inv := reachable_inv h1 hr
  have e1 := inv.critHead t1 a
  have e2 := inv.critHead t2 b
  rw [e1] at e2
  have := h1 _ _ (Option.some.inj e2)
  exact inv.local1 t1 t2 (by simp [a]) (by simp [b]) this

/-- The etcd lock is only ever granted while nobody holds it (this is what lets the admin-API
model use an abstract lock with `holder = none` as the guard of `acquire`). -/
theorem granted_only_when_free {c : Cfg} (h1 : OneObjectPerSession c) {s s' : State} (hr : Reachable c s) (t : Nat)
    (h : step c s (.etcdGranted t) = some s') : ∀ t', s.pc t' ≠ .crit := by
  intro t' ht'
  have inv := reachable_inv h1 hr
  simp only [step] at h
  split at h
  · rename_i g
    have e := inv.critHead t' ht'
    rw [g.2] at e
    have ho := h1 _ _ (Option.some.inj e)
    have := inv.local1 t t' (by simp [g.1]) (by simp [ht']) ho
    subst this
    rw [g.1] at ht'; cases ht'
  · cases h

/-- Negative example: with **two** mutex objects on one member (threads 0 and 1 use objects 0
and 1, both on session 0) the same schedule puts both threads into the critical section:
the etcd key is per session, so the second `Lock` re-uses it. -/
example :
    let c : Cfg := { obj := fun t => t, sess := fun _ => 0 }
    ∃ s, run c init (acquireSeq 0 ++ acquireSeq 1) = some s ∧ s.pc 0 = .crit ∧ s.pc 1 = .crit := by
  refine ⟨_, rfl, ?_, ?_⟩ <;> decide

/-- … while with one object per member the second acquisition is not enabled. -/
example :
    let c : Cfg := { obj := fun t => t, sess := fun o => o }
    run c init (acquireSeq 0 ++ acquireSeq 1) = none := by decide

/-- **A failed acquisition leaves the lock free** (1): the timed-out `Lock` has removed the
member's key from the etcd queue … -/
theorem failed_acquire_removes_key {c : Cfg} (h1 : OneObjectPerSession c) {s s' : State} (hr : Reachable c s) (t : Nat)
    (h : step c s (.etcdTimeout t) = some s') : c.sess (c.obj t) ∉ s'.queue ∧ s'.pc t = .failing := by
  have inv := reachable_inv h1 hr
  simp only [step] at h
  split at h
  · cases h
    exact ⟨fun hm => ((inv.nodup.mem_erase_iff).mp hm).1 rfl, by simp⟩
  · cases h

/-- … also when the very first etcd request failed (whether or not it had been applied: the
cleanup `m.m.Unlock` added by fixes/C18-stale-lock-key.patch deletes the key in both cases) … -/
theorem failed_early_removes_key {c : Cfg} (h1 : OneObjectPerSession c) {s s' : State} (hr : Reachable c s) (t : Nat)
    (h : step c s (.etcdErrorEarly t) = some s') : c.sess (c.obj t) ∉ s'.queue ∧ s'.pc t = .failing := by
  have inv := reachable_inv h1 hr
  simp only [step] at h
  split at h
  · cases h
    exact ⟨fun hm => ((inv.nodup.mem_erase_iff).mp hm).1 rfl, by simp⟩
  · cases h

/-- What the **unrepaired** `mutex.Lock` does when the key-creating request was applied but its
response was lost: it returns the error and releases the local mutex *without* deleting the key. -/
def oldLostResponse (c : Cfg) (s : State) (t : Nat) : State :=
  { s with pc := upd s.pc t .idle, held := upd s.held (c.obj t) false }

/-- Witness of the defect in the unrepaired code (reproduced on the real code by the mutex
harness, see fixes/C18-stale-lock-key.md): member 0's goroutine 0 enqueues, the response is
lost, `Lock` fails; nobody is inside `Lock`/`Unlock` any more, yet the key is still queued and
member 1 can never be granted the lock — until member 0 happens to lock again. -/
theorem old_code_leaves_stale_key :
    let c : Cfg := { obj := fun t => t, sess := fun o => o }
    ∃ s, run c init [.localLock 0, .etcdEnqueue 0] = some s ∧
      (∀ t, t < 4 → (oldLostResponse c s 0).pc t = .idle) ∧ (oldLostResponse c s 0).queue = [0] ∧
      run c (oldLostResponse c s 0) [.localLock 1, .etcdEnqueue 1, .etcdGranted 1] = none := by
  refine ⟨_, rfl, ?_, ?_, ?_⟩ <;> decide

/-- … (2) and the deferred unlock releases the process-local mutex. -/
theorem failed_acquire_unlocks_local {c : Cfg} {s s' : State} (t : Nat)
    (h : step c s (.localUnlockFail t) = some s') : s'.held (c.obj t) = false ∧ s'.pc t = .idle := by
  simp only [step] at h
  split at h
  · cases h; simp
  · cases h

/-- (3) Whenever no goroutine is inside `Lock`/`Unlock` — however many acquisitions failed or
succeeded before — the etcd queue is empty and every local mutex is unlocked … -/
theorem failed_acquire_leaves_free {c : Cfg} (h1 : OneObjectPerSession c) {s : State} (hr : Reachable c s)
    (hq : ∀ t, s.pc t = .idle) : s.queue = [] ∧ ∀ o, s.held o = false := by
  have inv := reachable_inv h1 hr
  constructor
  · cases hs : s.queue with
    | nil => rfl
    | cons k rest =>
      obtain ⟨t, ht, _⟩ := inv.qOwner k (by rw [hs]; simp)
      rw [hq t] at ht; rcases ht with h | h <;> cases h
  · intro o
    cases ho : s.held o with
    | false => rfl
    | true =>
      obtain ⟨t, _, ht⟩ := inv.heldBy o ho
      exact absurd (hq t) ht

/-- (4) … so that any thread can then take the lock. -/
theorem free_can_acquire {c : Cfg} {s : State} (hq : ∀ x, s.pc x = .idle) (hf : s.queue = [])
    (hh : ∀ o, s.held o = false) (t : Nat) : ∃ s', run c s (acquireSeq t) = some s' ∧ s'.pc t = .crit := by
  have h : run c s (acquireSeq t) = some
      { pc := upd (upd (upd s.pc t .haveLocal) t .waiting) t .crit, held := upd s.held (c.obj t) true,
        queue := [c.sess (c.obj t)] } := by
    simp [acquireSeq, run, step, hq t, hf, hh (c.obj t)]
  exact ⟨_, h, by simp⟩

/-- A waiting thread whose predecessors are gone is granted the lock: after the owner's
`Unlock` (or a failed waiter's cleanup) the next key in the queue is the head. -/
theorem head_is_granted {c : Cfg} {s : State} (t : Nat) (hw : s.pc t = .waiting)
    (hh : s.queue.head? = some (c.sess (c.obj t))) : ∃ s', step c s (.etcdGranted t) = some s' ∧ s'.pc t = .crit := by
  refine ⟨_, by simp [step, hw, hh]; rfl, by simp⟩

/-! ### The judge's trace specification accepts every behaviour of the model -/

/-- What the harness can see of a schedule: `acquired` when the etcd lock is granted,
`releasing` at the etcd unlock, `failed` at a timeout. -/
def proj : List ClusterMutex.Act → List TEv
  | [] => []
  | .etcdGranted t :: r => .acquired t :: proj r
  | .etcdUnlock t :: r => .releasing t :: proj r
  | .etcdTimeout t :: r => .failed t :: proj r
  | .etcdErrorEarly t :: r => .failed t :: proj r
  | .localLock _ :: r => proj r
  | .etcdEnqueue _ :: r => proj r
  | .localUnlockFail _ :: r => proj r
  | .critical _ :: r => proj r
  | .localUnlock _ :: r => proj r

def HolderIs (s : State) : Option Nat → Prop
  | none => ∀ t, s.pc t ≠ .crit
  | some t => s.pc t = .crit

theorem inv_exclusive {c : Cfg} (h1 : OneObjectPerSession c) {s : State} (inv : Inv c s) (t1 t2 : Nat)
    (a : s.pc t1 = .crit) (b : s.pc t2 = .crit) : t1 = t2 := by
  have e1 := inv.critHead t1 a
  have e2 := inv.critHead t2 b
  rw [e1] at e2
  exact inv.local1 t1 t2 (by simp [a]) (by simp [b]) (h1 _ _ (Option.some.inj e2))

theorem holder_keep {s : State} {h : Option Nat} (hh : HolderIs s h) (t : Nat) (p' : ClusterMutex.PC)
    (h0 : s.pc t ≠ .crit) (h1 : p' ≠ .crit) {hd : Nat → Bool} {q : List Nat} :
    HolderIs { pc := upd s.pc t p', held := hd, queue := q } h := by
  cases h with
  | none =>
    intro x; by_cases hx : x = t
    · subst hx; simpa using h1
    · simp only; rw [upd_other _ _ hx]; exact hh x
  | some t' =>
    have : t' ≠ t := by intro e; subst e; exact h0 hh
    simp only [HolderIs]; rw [upd_other _ _ this]; exact hh

/-- **Every schedule of the model, projected to what the harness records, satisfies the
executable trace specification `exclusiveTrace`** the judge evaluates on real runs. -/
theorem model_traces_exclusive {c : Cfg} (h1 : OneObjectPerSession c) : ∀ (as : List ClusterMutex.Act) (s s' : State)
    (h : Option Nat), Inv c s → HolderIs s h → run c s as = some s' → exclusiveTrace h (proj as) = true
  | [], _, _, _, _, _, _ => rfl
  | a :: as, s, s', h, inv, hh, hr => by
    simp only [run] at hr
    split at hr
    · cases hr
    · rename_i s1 hs
      have inv1 := inv_step h1 inv a hs
      have ih := fun h' hh' => model_traces_exclusive h1 as s1 s' h' inv1 hh' hr
      cases a with
      | etcdGranted t =>
        simp only [step] at hs
        split at hs
        · rename_i g
          cases hs
          have hnone : h = none := by
            cases h with
            | none => rfl
            | some t' =>
              exfalso
              have hc : s.pc t' = .crit := hh
              have e := inv.critHead t' hc
              rw [g.2] at e
              have := inv.local1 t t' (by simp [g.1]) (by simp [hc])
                (h1 _ _ (Option.some.inj e))
              subst this
              rw [g.1] at hc; cases hc
          subst hnone
          simp only [proj, exclusiveTrace, Option.isNone_none, Bool.true_and]
          exact ih (some t) (by simp [HolderIs])
        · cases hs
      | etcdUnlock t =>
        simp only [step] at hs
        split at hs
        · rename_i g
          cases hs
          have hsome : h = some t := by
            cases h with
            | none => exact absurd g (hh t)
            | some t' => rw [inv_exclusive h1 inv t' t hh g]
          subst hsome
          simp only [proj, exclusiveTrace, beq_self_eq_true, Bool.true_and]
          refine ih none ?_
          intro x; by_cases hx : x = t
          · subst hx; simp
          · simp only; rw [upd_other _ _ hx]
            intro hc; exact hx (inv_exclusive h1 inv x t hc g)
        · cases hs
      | etcdTimeout t =>
        simp only [step] at hs
        split at hs
        · rename_i g
          cases hs
          simp only [proj, exclusiveTrace]
          exact ih h (holder_keep hh t .failing (by simp [g]) (by simp))
        · cases hs
      | etcdErrorEarly t =>
        simp only [step] at hs
        split at hs
        · rename_i g
          cases hs
          simp only [proj, exclusiveTrace]
          exact ih h (holder_keep hh t .failing (by simp [g]) (by simp))
        · cases hs
      | localLock t =>
        simp only [step] at hs
        split at hs
        · rename_i g
          cases hs
          simp only [proj]
          exact ih h (holder_keep hh t .haveLocal (by simp [g.1]) (by simp))
        · cases hs
      | etcdEnqueue t =>
        simp only [step] at hs
        split at hs
        · rename_i g
          cases hs
          simp only [proj]
          exact ih h (holder_keep hh t .waiting (by simp [g]) (by simp))
        · cases hs
      | localUnlockFail t =>
        simp only [step] at hs
        split at hs
        · rename_i g
          cases hs
          simp only [proj]
          exact ih h (holder_keep hh t .idle (by simp [g]) (by simp))
        · cases hs
      | critical t =>
        simp only [step] at hs
        split at hs
        · cases hs; simp only [proj]; exact ih h hh
        · cases hs
      | localUnlock t =>
        simp only [step] at hs
        split at hs
        · rename_i g
          cases hs
          simp only [proj]
          exact ih h (holder_keep hh t .idle (by simp [g]) (by simp))
        · cases hs

/-- … in particular from the initial state. -/
theorem reachable_traces_exclusive {c : Cfg} (h1 : OneObjectPerSession c) (as : List ClusterMutex.Act) (s : State)
    (hr : run c init as = some s) : exclusiveTrace none (proj as) = true :=
  model_traces_exclusive h1 as init s none (inv_init c) (fun _ => by simp [init]) hr

/-! ## Part 2: the admin API under the lock -/

/-- A handler run alone, round trip by round trip, is the atomic transition `apply`. -/
theorem handler_is_apply (req : Req) (e : Etcd) : exec req e = apply e req := exec_eq_apply req e

/-- **Handlers are atomic**: for every interleaving of any number of client goroutines (each
taking the lock, performing its etcd round trips one at a time, releasing; unlocked reads in
between), the log of finished mutations is a sequential execution of `apply` in unlock order —
same responses — and whenever the lock is free the store and version are exactly its result. -/
theorem handlers_atomic (e0 : Etcd) (as : List AdminAPI.Act) (s : Sys) (h : Sys.run (Sys.init e0) as = some s) :
    (runSeq e0 (s.log.map Prod.fst)).2 = s.log.map Prod.snd ∧
    (s.holder = none → s.etcd = (runSeq e0 (s.log.map Prod.fst)).1) := by
  have inv := sinv_run as (sinv_init e0) h
  rw [runSeq_of_logOK _ _ inv.logOK]
  exact ⟨rfl, inv.idle⟩

/-- **Versions are distinct and gap-free**: the k successful mutations of a sequential history
return `v+1, …, v+k` in order (`v` = version before), everything else returns none; the final
version is `v + k`. -/
theorem versions_gap_free (e : Etcd) (rs : List Req) :
    (runSeq e rs).2.filterMap (·.version) = List.range' (e.version + 1) ((runSeq e rs).2.filter Resp.ok).length ∧
    (runSeq e rs).1.version = e.version + ((runSeq e rs).2.filter Resp.ok).length :=
  ⟨(runSeq_versions rs e).1, (runSeq_versions rs e).2.1⟩

theorem versions_distinct (e : Etcd) (rs : List Req) : ((runSeq e rs).2.filterMap (·.version)).Nodup := by
  rw [(versions_gap_free e rs).1]; exact List.nodup_range'

/-- **Rejected requests change nothing**: 409 for creating an existing name, 404 for updating /
deleting a missing one, 400 for updating with another kind — store and version untouched,
no version returned. -/
theorem conflict_unchanged (e : Etcd) (n : String) (o old : Obj) :
    (e.store.get n = some old → apply e (.create n o) = (e, ⟨409, none⟩)) ∧
    (e.store.get n = none → apply e (.update n o) = (e, ⟨404, none⟩)) ∧
    (e.store.get n = none → apply e (.delete n) = (e, ⟨404, none⟩)) ∧
    (e.store.get n = some old → old.kind ≠ o.kind → apply e (.update n o) = (e, ⟨400, none⟩)) := by
  refine ⟨fun h => by simp [apply, h], fun h => by simp [apply, h], fun h => by simp [apply, h], fun h hk => ?_⟩
  have : (old.kind != o.kind) = true := by simpa using hk
  simp [apply, h, this]

/-- A request either is rejected (409/404/400, nothing changes, no version) or succeeds
(200/201, version + 1, its effect on the store). -/
theorem reject_or_succeed (e : Etcd) (r : Req) :
    ((apply e r).2.version = none ∧ (apply e r).1 = e ∧
        ((apply e r).2.status = 409 ∨ (apply e r).2.status = 404 ∨ (apply e r).2.status = 400)) ∨
    ((apply e r).2.version = some (e.version + 1) ∧ (apply e r).1.version = e.version + 1 ∧
        (apply e r).1.store = effect e.store r ∧ (apply e r).2.status = okStatus r) := apply_cases e r

/-- **The final store is the fold of the successful requests** in log order — which is version
order, because versions increase strictly along the log (`versions_gap_free`). -/
theorem final_store_is_fold (e : Etcd) (rs : List Req) :
    (runSeq e rs).1.store = (successes rs (runSeq e rs).2).foldl effect e.store :=
  (runSeq_versions rs e).2.2

/-! ## Facts regenerated from the source on every run -/

/-- `mutex.Lock`: local mutex first, then the etcd lock under a timeout context; the local mutex
is released in the deferred closure exactly when the etcd lock failed, after the cleanup
`m.m.Unlock` that follows a failed `m.m.Lock` (`lockCleansUpOnError`; false on the unrepaired
code, where a key whose creation was not reported stays behind). `mutex.Unlock`: etcd
unlock, then (deferred) the local mutex. `cluster.Mutex` builds the etcd mutex on the member's
session, and `getSession` creates at most one session per member. -/
theorem mutex_shape :
    Gen.FactsC18.extractionFailed = false ∧
    Gen.FactsC18.mutexLockCalls = ["m.lock.Lock", "deferred:m.lock.Unlock", "m.m.Lock", "m.m.Unlock"] ∧
    Gen.FactsC18.lockUnlocksLocalOnError = true ∧
    Gen.FactsC18.lockCleansUpOnError = true ∧
    Gen.FactsC18.mutexUnlockCalls = ["defer m.lock.Unlock", "m.m.Unlock"] ∧
    Gen.FactsC18.clusterMutexCalls = ["c.getSession", "concurrency.NewMutex"] ∧
    Gen.FactsC18.sessionCreations = 1 ∧ Gen.FactsC18.sessionCached = true := by decide

/-- `OneObjectPerSession` for the API server: `getMutex` is the only place in `pkg/api` that
creates a cluster mutex, it runs under `mutexMutex`, returns the cached object when there is
one and stores the new one. -/
theorem one_mutex_object_per_server :
    Gen.FactsC18.apiMutexCreationSites = ["server.go:getMutex"] ∧
    Gen.FactsC18.getMutexLocksFirst = true ∧ Gen.FactsC18.getMutexReturnsCached = true ∧
    Gen.FactsC18.getMutexStores = true ∧
    Gen.FactsC18.serverLockCalls = ["s.getMutex", "ClusterPanic", "mutex.Lock", "ClusterPanic"] ∧
    Gen.FactsC18.serverUnlockCalls = ["s.getMutex", "ClusterPanic", "mutex.Unlock", "ClusterPanic"] := by decide

/-- The three mutating handlers take the lock before the first etcd access, release it by
`defer`, and do read → write → version in the order `micro` mirrors; the version is read + 1. -/
theorem handlers_locked :
    Gen.FactsC18.createObjectCalls = ["s.readObjectSpec", "s.Lock", "defer s.Unlock", "s._getObject", "s._putObject", "s.upgradeConfigVersion"] ∧
    Gen.FactsC18.updateObjectCalls = ["s.readObjectSpec", "s.Lock", "defer s.Unlock", "s._getObject", "s._putObject", "s.upgradeConfigVersion"] ∧
    Gen.FactsC18.deleteObjectCalls = ["s.Lock", "defer s.Unlock", "s._getObject", "s._deleteObject", "s.upgradeConfigVersion"] ∧
    Gen.FactsC18.upgradeConfigVersionCalls.head? = some "s._plusOneVersion" ∧
    Gen.FactsC18.plusOneVersionCalls.take 2 = ["s._getVersion", "s.cluster.Put"] ∧
    Gen.FactsC18.plusOneIncrements = true := by decide

/-! ## Non-vacuity -/

/-- Three members (sessions 0,1,2), thread t on member t % 3 using the member's single object. -/
private def cfg3 : Cfg := { obj := fun t => t % 3, sess := fun o => o }

example : OneObjectPerSession cfg3 := fun _ _ h => h

/-- Threads 0 and 3 share member 0; 1 is on member 1. 0 takes the lock, 1 queues and times
out, 3 blocks on the local mutex (not enabled), 0 releases, 3 acquires. -/
private def sched : List ClusterMutex.Act :=
  acquireSeq 0 ++ [.localLock 1, .etcdEnqueue 1, .etcdTimeout 1, .localUnlockFail 1] ++ releaseSeq 0 ++ acquireSeq 3

example : ∃ s, run cfg3 init sched = some s ∧ s.pc 3 = .crit ∧ s.pc 0 = .idle ∧ s.queue = [0] :=
  ⟨_, rfl, by decide, by decide, by decide⟩
example : run cfg3 init (acquireSeq 0 ++ [.localLock 3]) = none := by decide
example : run cfg3 init (acquireSeq 0 ++ [.localLock 1, .etcdEnqueue 1, .etcdGranted 1]) = none := by decide

private def oA : Obj := ⟨"A", "p1"⟩
private def oB : Obj := ⟨"B", "p2"⟩
/-- create a (201, v1); create a again (409); update a with another kind (400); update b (404);
update a (200, v2); delete a (200, v3); delete a (404). -/
private def reqs : List Req :=
  [.create "a" oA, .create "a" oB, .update "a" oB, .update "b" oA, .update "a" ⟨"A", "p3"⟩, .delete "a", .delete "a"]

example : (runSeq ⟨[], 0⟩ reqs).2.map (fun r => (r.status, r.version)) =
    [(201, some 1), (409, none), (400, none), (404, none), (200, some 2), (200, some 3), (404, none)] := by decide
example : (runSeq ⟨[], 0⟩ reqs).1 = ⟨[], 3⟩ := by decide

/-- Two clients interleaved at round-trip granularity under the lock, with an unlocked read in
the middle of the first handler. -/
example : ∃ s, Sys.run (Sys.init ⟨[], 7⟩)
    [.acquire 0 (.create "a" oA), .micro 0, .read 1, .micro 0, .micro 0, .micro 0, .release 0,
     .acquire 1 (.update "a" ⟨"A", "p9"⟩), .micro 1, .micro 1, .micro 1, .micro 1, .release 1] = some s ∧
    s.etcd = ⟨[("a", ⟨"A", "p9"⟩)], 9⟩ ∧ s.log.map (·.2.version) = [some 8, some 9] :=
  ⟨_, rfl, by decide, by decide⟩

/-- Without the lock discipline a second `acquire` is simply not a step of the system. -/
example : Sys.run (Sys.init ⟨[], 0⟩) [.acquire 0 (.delete "a"), .acquire 1 (.delete "a")] = none := by decide

end EgVerif.C18
