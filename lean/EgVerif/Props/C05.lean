import EgVerif.Proofs.IPFilter
import EgVerif.Proofs.Mux
import EgVerif.Gen.FactsC05
import EgVerif.Proofs.IPFilterIR
import EgVerif.Proofs.MuxCache
import EgVerif.Proofs.MuxSearchIR
/-!
# C05 — IP filter: denied clients never reach a pipeline, allowed ones are unaffected

Part 1: `Model/IPFilter.lean` (`New` per entry, `Allow`) — decision table and prefix semantics.
Part 2: `Model/Mux.lean` — the router with filters at server / rule / path level, route cache off
(the cache-on case is C12's `cache_transparent`). "The filters applying to a request" is
`Spec.applying`: the server filter, the filter of every host-matching rule up to and including
the rule holding the first full match (all of them when nothing matches), and the filter of the
first fully matching path — exactly what the cache-less search consults (`search_eq_filtered_spec`).
All theorems hold for every configuration, request, regexp oracle and filter oracle.
-/
namespace EgVerif.C05
open EgVerif.IPFilter EgVerif.Mux EgVerif.Mux.Spec

/-! ### Part 1 — the filter -/

/-- **Decision table**: `Allow` on a parsable address is the negation of the statement's `denied`. -/
theorem allow_iff_table (f : Filter) (a : Addr) : IPFilter.allow f (some a) = !IPFilter.denied f a := by
  simp only [IPFilter.allow, IPFilter.denied, deniedTable]
  cases rangerContains f.allow a <;> cases rangerContains f.block a <;> cases f.blockByDefault <;> rfl

/-- The table in words: denied iff in a blocked entry and in no allowed one, or in neither or in
both with `blockByDefault`. -/
theorem denied_iff (f : Filter) (a : Addr) :
    IPFilter.denied f a = true ↔
      (rangerContains f.block a = true ∧ rangerContains f.allow a = false) ∨
      ((rangerContains f.block a = true ↔ rangerContains f.allow a = true) ∧ f.blockByDefault = true) := by
  unfold IPFilter.denied deniedTable
  cases rangerContains f.allow a <;> cases rangerContains f.block a <;> cases f.blockByDefault <;> simp

/-- An address string that does not parse gets the default. -/
theorem allow_unparsable (f : Filter) : IPFilter.allow f none = !f.blockByDefault := rfl

/-- Membership in a ranger is membership in one of its networks. -/
theorem rangerContains_iff (r : List Cidr) (a : Addr) :
    rangerContains r a = true ↔ ∃ c ∈ r, contains c a = true := by
  simp [rangerContains]

/-- **Standard prefix semantics**: an address lies in a CIDR iff it is of the same family and its
`len` most significant bits equal the network's. -/
theorem cidr_contains_iff_prefix (c : Cidr) (a : Addr) (hlen : c.len ≤ a.width) (ha : a.WF)
    (hc : c.addr.WF) :
    contains c a = true ↔
      c.addr.sameFam a = true ∧ prefixAgree a.width c.len a.val c.addr.val := by
  unfold contains
  simp only [Bool.and_eq_true, beq_iff_eq]
  constructor
  · rintro ⟨hf, hd⟩
    have hw := sameFam_width hf
    exact ⟨hf, (div_eq_iff_prefixAgree hlen ha (by unfold Addr.WF at hc; rw [hw] at hc; exact hc)).mp hd⟩
  · rintro ⟨hf, hp⟩
    have hw := sameFam_width hf
    exact ⟨hf, (div_eq_iff_prefixAgree hlen ha (by unfold Addr.WF at hc; rw [hw] at hc; exact hc)).mpr hp⟩

/-- A single-address entry is a full-length network: it contains exactly that address. -/
theorem host_entry_is_full_length (a b : Addr) :
    mkCidr (.ip a) = some ⟨a, a.width⟩ ∧ (contains ⟨a, a.width⟩ b = true ↔ a = b) := by
  refine ⟨rfl, ?_⟩
  unfold contains
  simp only [Bool.and_eq_true, beq_iff_eq]
  constructor
  · rintro ⟨hf, hd⟩
    have hw := sameFam_width hf
    rw [← hw] at hd
    simp at hd
    exact sameFam_val_eq hf hd.symm
  · rintro rfl
    exact ⟨by cases a <;> rfl, rfl⟩

/-- A prefix of length 0 contains every address of its family; none of the other family. -/
theorem len0_contains_family (c a : Addr) (ha : a.WF) (hc : c.WF) :
    contains ⟨c, 0⟩ a = c.sameFam a := by
  unfold contains
  cases hf : c.sameFam a
  · simp
  · have hw := sameFam_width hf
    have h1 : a.val / 2 ^ (a.width - 0) = 0 := Nat.div_eq_of_lt ha
    have h2 : c.val / 2 ^ (a.width - 0) = 0 :=
      Nat.div_eq_of_lt (by unfold Addr.WF at hc; rw [hw] at hc; exact hc)
    simp only [Nat.sub_zero] at h1 h2
    simp [h1, h2]

/-- `New` (repaired): an IPv4-mapped IPv6 CIDR `::ffff:a.b.c.d/(96+n)` — which `net.ParseCIDR`
returns as an IPv4 address with a 128-bit mask — is the IPv4 network `a.b.c.d/n`; every other
entry keeps the prefix length the standard library reports. The family of an entry is always the
family of its address (`To4()`), never its spelling. -/
theorem new_entry_family_and_length :
    (∀ n ones, mkCidr (.cidr (.v4 n) ones 128) = some ⟨.v4 n, ones - 96⟩) ∧
    (∀ n ones, mkCidr (.cidr (.v4 n) ones 32) = some ⟨.v4 n, ones⟩) ∧
    (∀ n ones bits, mkCidr (.cidr (.v6 n) ones bits) = some ⟨.v6 n, ones⟩) ∧
    (∀ e c, mkCidr e = some c → ∃ a, (e = .ip a ∨ ∃ o b, e = .cidr a o b) ∧ c.addr = a) ∧
    mkCidr .bad = none := by
  refine ⟨fun _ _ => rfl, fun _ _ => rfl, fun _ _ _ => rfl, ?_, rfl⟩
  intro e c h
  cases e with
  | ip a => exact ⟨a, Or.inl rfl, by simp [mkCidr] at h; rw [← h]⟩
  | cidr a o b =>
    refine ⟨a, Or.inr ⟨o, b, rfl⟩, ?_⟩
    cases a <;> simp [mkCidr] at h <;> rw [← h]
  | bad => simp [mkCidr] at h

/-- (audit repair) The side condition `c.len ≤ a.width` of `cidr_contains_iff_prefix` is met by every
network `New` inserts, given what the standard library guarantees of a parsed CIDR (`ones ≤ bits`, and
`bits` is 32 or 128, 128 for an IPv6 address): `contains` never runs into the truncated subtraction
`width - len`. -/
theorem new_entry_len_le_width (e : RawEntry) (c : Cidr) (h : mkCidr e = some c)
    (hstd : ∀ a ones bits, e = .cidr a ones bits → ones ≤ bits ∧ (bits = 32 ∨ bits = 128) ∧
      (a.width = 128 → bits = 128)) :
    c.len ≤ c.addr.width := by
  cases e with
  | ip a => simp [mkCidr] at h; rw [← h]; exact Nat.le_refl _
  | bad => simp [mkCidr] at h
  | cidr a ones bits =>
    obtain ⟨h1, h2, h3⟩ := hstd a ones bits rfl
    cases a with
    | v4 n =>
      simp only [mkCidr, Option.some.injEq] at h
      rw [← h]; simp only [Addr.width]
      rcases h2 with h2 | h2 <;> subst h2 <;> simp <;> omega
    | v6 n =>
      simp only [mkCidr, Option.some.injEq] at h
      rw [← h]; simp only [Addr.width]
      have := h3 rfl; omega

/-! ### Part 2 — the router -/

/-- **Master equation** (cache off): the search is the filter-free reference router of C01, except
that it answers 403 exactly when an applying filter denies the client address. -/
theorem search_eq_filtered_spec (o : Oracle) (c : Cfg) (q : Req) :
    search o c q = if denied o c q then .code 403 else route o c q :=
  search_eq_routeF o c q

/-- **Denied clients never reach a handler**: if any applying filter denies, the client gets 403
and no handler is invoked — whether or not the route exists, whatever the backends. -/
theorem denied_never_handled (o : Oracle) (σ : Nat → String → String → String) (c : Cfg) (x : Bool)
    (bs : List String) (q : Req) (h : Spec.denied o c q = true) :
    search o c q = .code 403 ∧ serve o σ c x bs q = .status 403 := by
  have : search o c q = .code 403 := by rw [search_eq_routeF]; simp [routeF, h]
  exact ⟨this, by simp [serve, serveRoute, this]⟩

/-- **Undenied clients are unaffected**: if no applying filter denies, the request is routed and
served exactly as if no filter existed (every filter replaced by one that allows everybody). -/
theorem undenied_same_as_unfiltered (o : Oracle) (σ : Nat → String → String → String) (c : Cfg)
    (x : Bool) (bs : List String) (q : Req) (h : Spec.denied o c q = false) :
    search o c q = search (unfiltered o) c q ∧
    serve o σ c x bs q = serve (unfiltered o) σ c x bs q := by
  have : search o c q = search (unfiltered o) c q := by
    rw [search_unfiltered, search_eq_routeF]; simp [routeF, h]
  exact ⟨this, by simp [serve, this]⟩

/-- A handler is invoked only for clients that every applying filter allows. -/
theorem handled_implies_allowed (o : Oracle) (σ : Nat → String → String → String) (c : Cfg) (x : Bool)
    (bs : List String) (q : Req) (b p hst xf : String)
    (h : serve o σ c x bs q = .handled b p hst xf) :
    ∀ f ∈ applying o c q, allowIP o f q.ip = true := by
  cases hd : Spec.denied o c q
  · intro f hf
    unfold Spec.denied deniedBy at hd
    have := (List.any_eq_false.mp hd) f hf
    simpa using this
  · rw [(denied_never_handled o σ c x bs q hd).2] at h; cases h

/-- The server-level filter applies to every request; the filter of a host-matching rule `ri`
applies whenever no earlier host-matching rule holds a full match (in particular the first
host-matching rule's filter always applies). -/
theorem server_filter_applies (o : Oracle) (c : Cfg) (q : Req) : c.ipFilter ∈ applying o c q := by
  simp [applying]

/-- (audit repair) `applying` is *defined* as what the search consults; these are its declarative
consequences, so that the notion can be read without the loop: every applying filter is the server's, the
filter of a host-matching rule, or the filter of a fully matching path of such a rule — never a filter of a
rule whose host condition rejects the request, never a path filter of an entry that does not match. -/
theorem applying_sound (o : Oracle) (c : Cfg) (q : Req) (f : Option Nat) (hf : f ∈ applying o c q) :
    f = c.ipFilter ∨ (∃ r ∈ c.rules, hostOK o r q = true ∧
      (f = r.ipFilter ∨ ∃ e ∈ r.paths, f = e.ipFilter ∧ ∃ ri pi, full o q (ri, pi, e) = true)) := by
  have key : ∀ (rs : List Rule) (ri : Nat), f ∈ applyingFrom o q ri rs →
      ∃ r ∈ rs, hostOK o r q = true ∧
        (f = r.ipFilter ∨ ∃ e ∈ r.paths, f = e.ipFilter ∧ ∃ ri pi, full o q (ri, pi, e) = true) := by
    intro rs
    induction rs with
    | nil => intro ri h; simp [applyingFrom] at h
    | cons r rs ih =>
      intro ri h
      simp only [applyingFrom] at h
      split at h
      · obtain ⟨r', hr', h'⟩ := ih (ri + 1) h
        exact ⟨r', List.mem_cons_of_mem _ hr', h'⟩
      · rename_i hh
        have hh' : hostOK o r q = true := by simpa using hh
        split at h
        · rename_i a b e hfind
          have hm := List.mem_of_find?_eq_some hfind
          have hfull := List.find?_some hfind
          have he : e ∈ r.paths := List.mem_of_getElem? (mem_pathEntries.mp hm).2.2
          simp only [List.mem_cons, List.not_mem_nil, or_false] at h
          rcases h with h | h
          · exact ⟨r, List.mem_cons_self, hh', Or.inl h⟩
          · exact ⟨r, List.mem_cons_self, hh', Or.inr ⟨e, he, h, a, b, hfull⟩⟩
        · rcases List.mem_cons.mp h with h | h
          · exact ⟨r, List.mem_cons_self, hh', Or.inl h⟩
          · obtain ⟨r', hr', h'⟩ := ih (ri + 1) h
            exact ⟨r', List.mem_cons_of_mem _ hr', h'⟩
  simp only [applying, List.mem_cons] at hf
  rcases hf with hf | hf
  · exact Or.inl hf
  · exact Or.inr (key c.rules 0 hf)

/-- 403 is produced by the cache-less search only through a denying applying filter. -/
theorem forbidden_only_if_denied (o : Oracle) (c : Cfg) (q : Req) (h : search o c q = .code 403) :
    Spec.denied o c q = true := by
  cases hd : Spec.denied o c q
  · exfalso
    have hs := (undenied_same_as_unfiltered o (fun _ p _ => p) c false [] q hd).1
    rw [h] at hs
    have := EgVerif.Mux.search_unfiltered o c q
    rw [← hs] at this
    unfold route routeOf at this
    split at this
    · cases this
    · injection this with this
      unfold failCode at this
      split at this
      · omega
      · split at this <;> omega
  · rfl

/-- With the oracle the judge uses (`muxOracle`: filter id ↦ the `IPFilter` model on the parsed
client address), "an applying filter denies" means: some applying filter id `i` names a filter
whose decision table denies the address (or, for an unparsable address, that blocks by default). -/
theorem denied_iff_table_denies (ρ : Nat → String → Bool) (fs : List Filter) (a : Option Addr)
    (c : Cfg) (q : Req) :
    Spec.denied (muxOracle ρ fs a) c q = true ↔
      ∃ i f, some i ∈ applying (muxOracle ρ fs a) c q ∧ fs[i]? = some f ∧
        (match a with
         | some a => IPFilter.denied f a = true
         | none => f.blockByDefault = true) := by
  unfold Spec.denied deniedBy
  rw [List.any_eq_true]
  constructor
  · rintro ⟨fo, hmem, hd⟩
    cases fo with
    | none => simp [allowIP] at hd
    | some i =>
      simp only [allowIP, muxOracle] at hd
      cases hf : fs[i]? with
      | none => simp [hf] at hd
      | some f =>
        simp only [hf] at hd
        refine ⟨i, f, hmem, hf, ?_⟩
        cases a with
        | none => simpa [IPFilter.allow] using hd
        | some a => rw [allow_iff_table] at hd; simpa using hd
  · rintro ⟨i, f, hmem, hf, hd⟩
    refine ⟨some i, hmem, ?_⟩
    simp only [allowIP, muxOracle, hf]
    cases a with
    | none => simp only at hd; simp [IPFilter.allow, hd]
    | some a => simp only at hd; rw [allow_iff_table, hd]; rfl

/-! ### Part 2b — cache on, across in-place reloads (Extension mux)

The statement's "with or without the route cache and whatever requests preceded it", for histories of
requests **and reloads** on one `mux` (`MuxCache.Op`, `runOps`: cache-hit branch, put sites, fresh cache per
`mux.reload`). `reqCfgs {} ops` pairs the `k`-th request with the configuration current when it is
served. Both theorems hold for every history, eviction behaviour and oracle; they are C12's
`cache_transparent_across_reloads` (here through `runOps_eq`) composed with the cache-less theorems above. -/

open EgVerif.MuxCache in
/-- the `k`-th response of the (cached, reloaded) mux is the cache-less search under the configuration
current at request time -/
theorem response_across_reloads (o : Oracle) (strip : String → String) (ev : Nat → Key → Bool)
    (ops : List Op) (hw : OpsWF strip ops) (k : Nat) (c : Cfg) (q : Req)
    (hk : (reqCfgs {} ops)[k]? = some (c, q)) :
    (runOps o ev 0 newMux ops)[k]? = some (search o c q) := by
  rw [runOps_eq o strip ev ops 0 newMux hw (instInv_newMux o strip)]
  simp [refOps, newMux, hk]

open EgVerif.MuxCache in
/-- **Denied clients never reach a handler — cache on, across reloads**: if a filter applying to the
request *under the configuration current at request time* denies the client, the response is 403 and no
handler runs, whatever was cached by whichever earlier generation. -/
theorem denied_never_handled_across_reloads (o : Oracle) (σ : Nat → String → String → String) (x : Bool)
    (bs : List String) (strip : String → String) (ev : Nat → Key → Bool) (ops : List Op)
    (hw : OpsWF strip ops) (k : Nat) (c : Cfg) (q : Req) (hk : (reqCfgs {} ops)[k]? = some (c, q))
    (h : Spec.denied o c q = true) :
    (runOps o ev 0 newMux ops)[k]? = some (.code 403) ∧
    ((runOps o ev 0 newMux ops)[k]?).map (serveRoute σ x bs q) = some (.status 403) := by
  rw [response_across_reloads o strip ev ops hw k c q hk, (denied_never_handled o σ c x bs q h).1]
  exact ⟨rfl, rfl⟩

open EgVerif.MuxCache in
/-- **Undenied clients are unaffected — cache on, across reloads**: if no applying filter of the current
configuration denies, the response is the one of the current configuration with all filters removed
(in particular a filter of an earlier generation never refuses anybody). -/
theorem undenied_same_as_unfiltered_across_reloads (o : Oracle) (σ : Nat → String → String → String)
    (x : Bool) (bs : List String) (strip : String → String) (ev : Nat → Key → Bool) (ops : List Op)
    (hw : OpsWF strip ops) (k : Nat) (c : Cfg) (q : Req) (hk : (reqCfgs {} ops)[k]? = some (c, q))
    (h : Spec.denied o c q = false) :
    (runOps o ev 0 newMux ops)[k]? = some (search (unfiltered o) c q) ∧
    ((runOps o ev 0 newMux ops)[k]?).map (serveRoute σ x bs q) = some (serve (unfiltered o) σ c x bs q) := by
  rw [response_across_reloads o strip ev ops hw k c q hk, (undenied_same_as_unfiltered o σ c x bs q h).1]
  exact ⟨rfl, rfl⟩

open EgVerif.MuxCache in
/-- **Cached 404 / 405 (and cached paths) versus IP filters**: whatever a miss for `q` stores under its key —
a path *or a failure code* — a later request `q'` with the same key whose client is denied by a filter
applying to `q'` gets 403 from the hit branch, never the cached 404 / 405 / path; an undenied one gets
exactly the filter-free answer. (Before the repair c41a2a6 cached codes were returned before any
filter: `C12.old_ip_bypass_404`.) -/
theorem cached_entry_respects_filters (o : Oracle) (c : Cfg) (strip : String → String) (q q' : Req)
    (hq : WF strip q) (hq' : WF strip q') (hk : keyOf q' = keyOf q) (r : CRoute)
    (h : (searchMiss o c q).2 = some r) :
    (Spec.denied o c q' = true → hit o r q' = .code 403) ∧
    (Spec.denied o c q' = false → hit o r q' = search (unfiltered o) c q') := by
  have hs := put_sound o c (sameKey_of_key hq hq' hk.symm) r h
  constructor
  · intro hd; rw [hs, (denied_never_handled o (fun _ p _ => p) c false [] q' hd).1]
  · intro hd; rw [hs, (undenied_same_as_unfiltered o (fun _ p _ => p) c false [] q' hd).1]

/-- Non-vacuity: the 404 cached for `/nothing` under `cfgR2` (server filter 0 blocks 10.0.0.1) carries the
server filter; the blocked client gets 403 from the hit, the other one the cached 404. -/
example : (EgVerif.MuxCache.searchMiss EgVerif.C12w.oR EgVerif.C12w.cfgR2 (EgVerif.C12w.qN "10.0.0.2")).2 = some ⟨.code 404, [0]⟩ ∧
    EgVerif.MuxCache.hit EgVerif.C12w.oR ⟨.code 404, [0]⟩ (EgVerif.C12w.qN "10.0.0.1") = .code 403 ∧
    EgVerif.MuxCache.hit EgVerif.C12w.oR ⟨.code 404, [0]⟩ (EgVerif.C12w.qN "10.0.0.2") = .code 404 := by decide

/-- Non-vacuity (C12's witness history): generation 2 adds a server filter that blocks 10.0.0.1; the key
`/x` was cached by generation 1; request 2 (the third) comes from the blocked client. -/
example : (EgVerif.MuxCache.reqCfgs {} EgVerif.C12w.histR)[2]? = some (EgVerif.C12w.cfgR2, EgVerif.C12w.qR "10.0.0.1") ∧
    Spec.denied EgVerif.C12w.oR EgVerif.C12w.cfgR2 (EgVerif.C12w.qR "10.0.0.1") = true ∧
    Spec.denied EgVerif.C12w.oR EgVerif.C12w.cfgR2 (EgVerif.C12w.qR "10.0.0.2") = false ∧
    (EgVerif.MuxCache.runOps EgVerif.C12w.oR (fun _ _ => false) 0 EgVerif.MuxCache.newMux EgVerif.C12w.histR)[2]? = some (.code 403) := by
  decide

/-! ### Facts regenerated from the source on every run -/

/-- `forbidden` is 403; `Allow`'s default and switch are the modelled table. That `search` consults
exactly the server, rule and path filter, in that order, and that a denial returns `forbidden`, was a
textual fact here (`allowIPArgs`, `allowClosureDelegates`, `denyReturnsForbidden`, still generated for the
reader); since Extension mux it is proved semantically by `search_regenerated_from_source` below (the
translated body of `search` equals the model on every input), which survives renamings and
restructurings of the checks. `New` chooses family and mask by `To4()` (next theorem). -/
theorem ipfilter_facts :
    Gen.FactsC05.extractionFailed = false ∧
    Gen.FactsC05.forbiddenIs403 = true ∧
    Gen.FactsC05.allowDefault = "!f.spec.BlockByDefault" ∧
    Gen.FactsC05.allowSwitch = ["allowed && blocked => defaultResult", "allowed => true",
      "blocked => false", "default => defaultResult"] := by decide

/-- Repair `fixes/C05-v4mapped.patch` is in place. -/
theorem new_mask_by_family :
    Gen.FactsC05.newTo4Calls ≥ 2 ∧ Gen.FactsC05.newColonCounts = 0 := by decide

/-! ### Non-vacuity -/

private def a1234 : Addr := .v4 0x01020304
private def fEx : Filter := IPFilter.new false [.cidr (.v4 0x01020300) 24 32] [.ip a1234, .cidr (.v4 0x01020000) 112 128]

example : a1234.WF := by show (0x01020304 : Nat) < 2 ^ 32; decide
/-- 1.2.3.4 is in the allowed 1.2.3.0/24 and in the blocked host entry: both ⇒ default (allow);
1.2.9.9 only in the blocked ::ffff:1.2.0.0/112 = 1.2.0.0/16 ⇒ denied; 1.3.0.0 in neither. -/
example : IPFilter.allow fEx (some a1234) = true ∧ IPFilter.allow fEx (some (.v4 0x01020909)) = false ∧
    IPFilter.allow fEx (some (.v4 0x01030000)) = true ∧ IPFilter.allow { fEx with blockByDefault := true } none = false := by decide
example : contains ⟨.v4 0x01020000, 16⟩ (.v4 0x0102ffff) = true ∧ contains ⟨.v4 0x01020000, 16⟩ (.v4 0x01030000) = false ∧
    contains ⟨.v4 0, 0⟩ (.v6 1) = false := by decide

private def oF : Oracle := muxOracle (fun _ _ => false) [fEx] (some (.v4 0x01020909))
private def cF : Cfg := { rules := [
  { host := "a", paths := [{ path := "/x", methods := ["POST"], backend := "b0" }] },
  { host := "a", ipFilter := some 0, paths := [{ path := "/x", backend := "b1" }] } ] }
private def qF : Req := { host := "a", hostNoPort := "a", method := "GET", path := "/x", hdr := [], ip := "1.2.9.9" }

/-- the denying filter sits on the second rule, reached after a method mismatch in the first -/
example : Spec.denied oF cF qF = true ∧ search oF cF qF = .code 403 ∧
    search (unfiltered oF) cF qF = .path 1 0 { path := "/x", backend := "b1" } := by decide
/-- a POST is served by the first rule: the second rule's filter does not apply -/
example : Spec.denied oF cF { qF with method := "POST" } = false ∧
    search oF cF { qF with method := "POST" } = .path 0 0 { path := "/x", methods := ["POST"], backend := "b0" } := by decide

/-! ### Regenerated tie by translation (`notes/IR.md`) -/

/-- `Gen.FactsC05IR.allowIR` is re-translated on every run from the current body of `IPFilter.Allow`
(go/ast → Lean, `harness/factextract/irlib.go`); it is the hand-written `allow` on every input. -/
theorem allow_regenerated_from_source (f : Filter) (ip : Option Addr) :
    Gen.FactsC05IR.extractionFailed = false ∧ Gen.FactsC05IR.allowIR f ip = IPFilter.allow f ip :=
  ⟨by decide, IPFilter.allow_regenerated_from_source f ip⟩

/-- the same for the loop of `IPFilters.Allow` (generated structural recursion) and `allowAll`. -/
theorem allowAll_regenerated_from_source (fs : List Filter) (ip : Option Addr) :
    Gen.FactsC05IR.extractionFailed = false ∧ Gen.FactsC05IR.allowAllIR fs ip = IPFilter.allowAll fs ip :=
  ⟨by decide, IPFilter.allowAll_regenerated_from_source fs ip⟩

/-- **`muxInstance.search`, IP-filter part** (Extension mux): the generated `searchIR` (the current body of
`search`, closure `allow` inlined) answers, on a miss, with the model's cache-less search — so it is 403
exactly when an applying filter denies (`search_eq_filtered_spec`) — and on a hit with `MuxCache.hit`,
which re-checks the recorded filters. -/
theorem search_regenerated_from_source (o : Oracle) (c : Cfg) (q : Req) :
    Gen.FactsMuxIR.extractionFailed = false ∧
    (Gen.FactsMuxIR.searchIR o c q none).1 =
      MuxCache.routeGo (if Spec.denied o c q then .code 403 else route o c q) ∧
    (∀ r : MuxCache.CRoute, (Gen.FactsMuxIR.searchIR o c q (some r.go)).1 = MuxCache.routeGo (MuxCache.hit o r q)) := by
  refine ⟨by decide, ?_, ?_⟩
  · rw [MuxCache.search_regenerated_from_source, MuxCache.searchMiss_fst, search_eq_routeF]; rfl
  · intro r; rw [MuxCache.search_regenerated_from_source_hit]

/-- `allowIP`: a nil filter allows, otherwise the filter's `Allow`; never a nil dereference. -/
theorem allowIP_regenerated_from_source (o : Oracle) (f : Option Nat) (ip : String) :
    Gen.FactsMuxIR.extractionFailed = false ∧ Gen.FactsMuxIR.allowIPIR o f ip = some (allowIP o f ip) :=
  ⟨by decide, MuxCache.allowIP_regenerated_from_source o f ip⟩

/-- **`ipfilter.New`, mask / classification logic** (Extension mux): `Gen.FactsC05IR.rangerIR` is re-translated
on every run from the current body of the closure `rangerFromIPCIDRs` of `New` — `net.ParseIP` first, mask
chosen by `To4()`, else `net.ParseCIDR`, junk skipped, an IPv4-mapped CIDR (`To4() != nil` with a 16-byte
mask) converted to the IPv4 network with the last 4 mask bytes — and it is the model's `ranger`
(= `filterMap mkCidr`) for every list of entries (`EntryWF`: a mask's bit size is 8 × its byte length).
This replaces the weak syntactic fact `new_mask_by_family` as the tie of the repaired code. -/
theorem new_regenerated_from_source (es : List RawEntry) (hw : ∀ e ∈ es, IPFilter.EntryWF e) :
    Gen.FactsC05IR.extractionFailed = false ∧ Gen.FactsC05IR.rangerIR es = ranger es :=
  ⟨by decide, IPFilter.new_regenerated_from_source es hw⟩

/-- non-vacuity: a mixed list incl. the IPv4-mapped spellings of the genuine defect (d1f6433) -/
example : Gen.FactsC05IR.rangerIR [.ip (.v4 0x01020304), .cidr (.v4 0x01020000) 112 128, .bad, .cidr (.v6 1) 64 128,
      .cidr (.v4 0x0a000000) 8 32] =
    [⟨.v4 0x01020304, 32⟩, ⟨.v4 0x01020000, 16⟩, ⟨.v6 1, 64⟩, ⟨.v4 0x0a000000, 8⟩] := by decide

end EgVerif.C05
