import EgVerif.Proofs.Proxy
import EgVerif.Model.ProxyE2E
import EgVerif.Model.ProxyFlow
import EgVerif.Gen.FactsC03
import EgVerif.Proofs.ProxyIR
/-!
# C03 — the Proxy forwards faithfully, strips hop-by-hop headers, keeps responses well-framed

Theorems about `Model.Proxy` / `Model.Framing` (line-by-line models of `cloneHeader`,
`prepareRequest`, `checkAddrPattern`, `compression.compress`, `buildResponse`,
`ResponseAdaptor.Handle/compress/decompress`, the mux write-out — **of the repaired code**,
see `fixes/C03-*.patch`), for every header set, every `Connection` token list, every
canonicalisation function, every body type and gzip pair, every chain of adaptors.
Helper lemmas live in `Proofs/Proxy.lean`.
-/
namespace EgVerif.C03
open EgVerif.Proxy

/-! ### Facts regenerated from the source -/

/-- The RFC 2616 §13.5.1 list (+ `Proxy-Connection`) of the property statement is covered by
the table extracted from pool.go, and the model's table *is* the extracted one. -/
theorem hopHeaders_cover :
    Gen.FactsC03.extractionFailed = false ∧
    (∀ k ∈ Spec.rfcHopHeaders, k ∈ Gen.FactsC03.hopHeaders) ∧
    Gen.FactsC03.hopHeaders = hopHeaders := by decide

/-- The request-side statements the model transcribes. The printed-statement facts of `cloneHeader`,
`prepareRequest` (URL / query / header / Host statements) and `checkAddrPattern` that stood here were
replaced by the strictly stronger `cloneHeader_ / prepare_ / checkAddr_regenerated_from_source` below
(the bodies are re-translated and proved equal to the model, which also survives renamings); what remains
is that `prepareRequest` still takes its header from `cloneHeader`. -/
theorem request_side_facts :
    Gen.FactsC03.extractionFailed = false ∧
    Gen.FactsC03.prepareHeader = "stdr.Header = cloneHeader(req.HTTPHeader())" := ⟨rfl, rfl⟩

private def adaptorBlock : String :=
  "{ egresp.SetPayload([]byte(ra.spec.Body)) egresp.HTTPHeader().Set(keyContentLength, strconv.Itoa(len(ra.spec.Body))) egresp.HTTPHeader().Del(\"Content-Encoding\") }"

/-- Response side (the printed body of `compress` that stood here is replaced by
`compress_regenerated_from_source`): the CallbackReader is the outermost wrapper, the adaptor declares the length of a replaced body,
`FetchPayload` knows the reply to HEAD has no body, the mux writes header, status, body. -/
theorem response_side_facts :
    Gen.FactsC03.buildResponseOrder = true ∧
    Gen.FactsC03.respAdaptorBodyBlock = adaptorBlock ∧
    Gen.FactsC03.respAdaptor_compress_setsLength = true ∧
    Gen.FactsC03.respAdaptor_decompress_setsLength = true ∧
    Gen.FactsC03.fetchPayloadHeadGuard = true ∧
    Gen.FactsC03.muxWriteOut = true := ⟨rfl, rfl, rfl, rfl, rfl, rfl⟩

/-! ### Hop-by-hop headers -/

/-- Every header in the hop table and every header named by a `Connection` token is absent
from what `cloneHeader` returns — for every header set and every token list. -/
theorem cloneHeader_strips_hop (canon : String → String) (hop : List String) (h : Hdr) (k : String)
    (hk : k ∈ hop.map canon ∨ k ∈ connTokens canon h) :
    (cloneHeader canon hop h).get k = [] := by
  unfold cloneHeader
  rw [Hdr.get_delAll]
  by_cases h1 : k ∈ hop.map canon
  · simp [h1]
  · simp only [h1, if_false]
    rw [Hdr.get_delAll]
    rcases hk with hk | hk
    · exact absurd hk h1
    · simp [hk]

/-- Every other header is kept with all its values in order (repeated header lines included). -/
theorem cloneHeader_keeps_e2e (canon : String → String) (hop : List String) (h : Hdr) (k : String)
    (h1 : k ∉ hop.map canon) (h2 : k ∉ connTokens canon h) :
    (cloneHeader canon hop h).get k = h.get k := by
  unfold cloneHeader
  rw [Hdr.get_delAll, if_neg h1, Hdr.get_delAll, if_neg h2]

/-- `cloneHeader` with the source's table satisfies the executable header specification the
judge evaluates on the backend's observation (for any `canon` that fixes the canonical
hop names, as `textproto.CanonicalMIMEHeaderKey` does). -/
theorem cloneHeader_meets_spec (canon : String → String) (h : Hdr)
    (hc : ∀ k ∈ hopHeaders, canon k = k) (skip : List String := []) :
    Spec.headerViolation canon h (cloneHeader canon hopHeaders h) skip = none := by
  have hmap : hopHeaders.map canon = hopHeaders := by
    have : ∀ l : List String, (∀ k ∈ l, canon k = k) → l.map canon = l := by
      intro l; induction l with
      | nil => simp
      | cons a t ih => intro hl; simp [hl a (by simp), ih (fun k hk => hl k (by simp [hk]))]
    exact this _ hc
  have hsame : ∀ k, Spec.rfcHopHeaders.contains k = true ↔ k ∈ hopHeaders := by
    intro k
    simp only [List.contains_iff_mem, Spec.rfcHopHeaders, hopHeaders, List.mem_cons, List.mem_nil_iff, or_false]
    constructor <;> intro hk <;> rcases hk with hk | hk | hk | hk | hk | hk | hk | hk | hk <;> simp [hk]
  unfold Spec.headerViolation
  rw [List.findSome?_eq_none_iff]
  intro k _
  by_cases hh : Spec.isHop canon h k = true
  · have : (cloneHeader canon hopHeaders h).get k = [] := by
      apply cloneHeader_strips_hop
      unfold Spec.isHop at hh
      rw [Bool.or_eq_true] at hh
      rcases hh with hh | hh
      · left; rw [hmap]; exact (hsame k).mp hh
      · right; simpa using hh
    simp [hh, this]
  · have hh' : Spec.isHop canon h k = false := by simpa using hh
    unfold Spec.isHop at hh'
    rw [Bool.or_eq_false_iff] at hh'
    have h1 : k ∉ hopHeaders.map canon := by
      rw [hmap]; intro hm
      have := (hsame k).mpr hm
      rw [hh'.1] at this; exact absurd this (by decide)
    have h2 : k ∉ connTokens canon h := by
      intro hm
      have : (connTokens canon h).contains k = true := by simpa using hm
      rw [hh'.2] at this; exact absurd this (by decide)
    have := cloneHeader_keeps_e2e canon hopHeaders h k h1 h2
    have hh2 : Spec.isHop canon h k = false := by simpa using hh
    simp only [hh2, Bool.false_eq_true, if_false, this]
    simp

/-! ### URL, Host, address pattern -/

/-- The string handed to `http.NewRequest` splits back (net/url: fragment at the first `#`,
query at the first `?`) into exactly the client's escaped path and raw query, provided the
escaped path contains neither `?` nor `#` (contract of `URL.EscapedPath`) and the raw query
no `#` (a request-target never does: RFC 7230 §5.3.1). Method and body are passed through
by `prepareRequest` unchanged (`req.Method()`, `req.GetPayload()`). -/
theorem url_preserved (ep rq : List Char)
    (h1 : '?' ∉ ep) (h2 : '#' ∉ ep) (h3 : '#' ∉ rq) :
    splitTarget (ep ++ (if rq = [] then [] else '?' :: rq)) = (ep, rq) := by
  unfold splitTarget
  by_cases hq : rq = []
  · subst hq
    simp only [if_true, List.append_nil]
    have a := takeWhile_all (p := (· != '#')) ep (by intro x hx; simp; intro hxe; exact h2 (hxe ▸ hx))
    have b := takeWhile_all (p := (· != '?')) ep (by intro x hx; simp; intro hxe; exact h1 (hxe ▸ hx))
    simp [a.1, b.1, b.2]
  · simp only [hq, if_false]
    have hall : ∀ x ∈ ep ++ '?' :: rq, (x != '#') = true := by
      intro x hx
      simp only [List.mem_append, List.mem_cons] at hx
      simp only [bne_iff_ne, ne_eq]
      rcases hx with hx | hx | hx
      · intro hxe; exact h2 (hxe ▸ hx)
      · rw [hx]; decide
      · intro hxe; exact h3 (hxe ▸ hx)
    have a := takeWhile_all (p := (· != '#')) (ep ++ '?' :: rq) hall
    have b := takeWhile_append_of_all (p := (· != '?')) ep '?' rq
      (by intro x hx; simp; intro hxe; exact h1 (hxe ▸ hx)) (by decide)
    simp [a.1, b.1, b.2]

/-- The unrepaired code concatenated the *decoded* path: a decoded `?` moves the rest of the
path into the query (concrete witness; reproduced on the real code, see notes). -/
example : splitTarget ("/a?b" ++ "?x=1").toList = ("/a".toList, "b?x=1".toList) := by decide

/-- (`hostSent` is textually the declarative `Spec.expectedHost`; the Host rule as a statement about the code is
`host_rule` below, next to the regenerated ties.) -/
example (s : ServerCfg) (clientHost : String) :
    hostSent s clientHost = Spec.expectedHost (!s.addrIsHostName) s.keepHost clientHost s.hostPort := rfl

/-- `checkAddrPattern` classifies by the host part for the four well-formed authority shapes. -/
theorem addr_pattern_classifies (isIP : List Char → Bool) (name port : List Char)
    (hn1 : ':' ∉ name) (hn2 : ']' ∉ name) (hp1 : ':' ∉ port) (hp2 : ']' ∉ port) :
    -- name            (also a dotted IPv4 literal)
    addrIsHostName isIP name = !isIP name ∧
    -- name:port
    (name.head? ≠ some '[' → addrIsHostName isIP (name ++ ':' :: port) = !isIP name) := by
  have s0 : lastIndex ']' name = -1 := lastIndex_not_mem hn2
  have c0 : lastIndex ':' name = -1 := lastIndex_not_mem hn1
  constructor
  · simp [addrIsHostName, s0, c0]
  · intro _
    have s1 : lastIndex ']' (name ++ ':' :: port) = -1 :=
      lastIndex_not_mem (by simp [hn2, hp2])
    have c1 : lastIndex ':' (name ++ ':' :: port) = name.length := lastIndex_append_mem ':' name port hp1
    have : (name.length : Int) > -1 := by omega
    simp [addrIsHostName, s1, c1, this]

/-- Bracketed IPv6 shape `[v6]:port` is classified by `v6` (the shape `[v6]` without a port
is covered by the `decide` examples at the end and by the correspondence run). -/
theorem addr_pattern_classifies_v6 (isIP : List Char → Bool) (v6 port : List Char)
    (hp1 : ':' ∉ port) (hp2 : ']' ∉ port) :
    addrIsHostName isIP ('[' :: v6 ++ ']' :: ':' :: port) = !isIP v6 := by
  have e1 : '[' :: v6 ++ ']' :: ':' :: port = ('[' :: v6) ++ ']' :: (':' :: port) := by simp
  have e2 : '[' :: v6 ++ ']' :: ':' :: port = ('[' :: v6 ++ [']']) ++ ':' :: port := by simp
  have hsq : lastIndex ']' ('[' :: v6 ++ ']' :: ':' :: port) = (v6.length : Int) + 1 := by
    rw [e1, lastIndex_append_mem ']' ('[' :: v6) (':' :: port) (by simp [hp2])]; simp
  have hco : lastIndex ':' ('[' :: v6 ++ ']' :: ':' :: port) = (v6.length : Int) + 2 := by
    rw [e2, lastIndex_append_mem ':' ('[' :: v6 ++ [']']) port hp1]; simp; omega
  unfold addrIsHostName
  rw [hsq, hco]
  have h1 : (v6.length : Int) + 2 > (v6.length : Int) + 1 := by omega
  have n2 : ((v6.length : Int) + 2).toNat = ('[' :: v6 ++ [']']).length := by simp; omega
  have n1 : ((v6.length : Int) + 1).toNat = ('[' :: v6).length := by simp
  have hne : (((v6.length : Int) + 1) != -1) = true := by simp; omega
  simp only [h1, if_true]
  rw [n2]
  conv => lhs; rw [e2]
  rw [List.take_left']
  · simp only [hne, List.cons_append, List.head?_cons, beq_self_eq_true, Bool.and_self, if_true]
    rw [n1]
    have e3 : '[' :: (v6 ++ [']']) = ('[' :: v6) ++ [']'] := by simp
    rw [e3, List.take_left']
    · simp
    · rfl
  · rfl

/-! ### Framing -/

section framing
variable {β : Type} (ops : BodyOps β)

theorem ne_CL_CE : keyCL ≠ keyCE := by decide
theorem ne_CL_Vary : keyCL ≠ keyVary := by decide

/-- Proxy compression leaves no declared length behind (header *and* field), hence is
well-framed whatever it got; otherwise it changes nothing. -/
theorem framing_preserved_proxyCompress (minLength : Nat) (reqHdr : Hdr) (r : Resp β)
    (h : WellFramed ops r) : WellFramed ops (proxyCompress ops minLength reqHdr r) := by
  unfold proxyCompress
  split
  · exact h
  · split
    · exact h
    · split
      · exact h
      · left
        simp only []
        rw [Hdr.get_add_other _ _ ne_CL_Vary, Hdr.get_set_other _ _ ne_CL_CE, Hdr.get_del_same]

/-- After compression `FetchPayload` sees an unknown length (the repair). -/
theorem proxyCompress_coherent (minLength : Nat) (reqHdr : Hdr) (r : Resp β)
    (h : Coherent r) : Coherent (proxyCompress ops minLength reqHdr r) := by
  unfold proxyCompress
  split
  · exact h
  · split
    · exact h
    · split
      · exact h
      · constructor
        · intro _
          simp only []
          rw [Hdr.get_add_other _ _ ne_CL_Vary, Hdr.get_set_other _ _ ne_CL_CE, Hdr.get_del_same]
        · intro hc; simp at hc

theorem framing_preserved_adaptorBody (s : String) (r : Resp β)
    (h : WellFramed ops r) : WellFramed ops (adaptorBody ops s r) := by
  unfold adaptorBody
  split
  · exact h
  · right
    simp only [Pl.content]
    rw [Hdr.get_del_other _ ne_CL_CE, Hdr.get_set_same]

theorem framing_preserved_adaptorCompress (r : Resp β)
    (h : WellFramed ops r) : WellFramed ops (adaptorCompress ops r) := by
  unfold adaptorCompress
  split
  · exact h
  · split
    · left; simp only []; rw [Hdr.get_set_other _ _ ne_CL_CE, Hdr.get_del_same]
    · right; simp only [Pl.content]; rw [Hdr.get_set_other _ _ ne_CL_CE, Hdr.get_set_same]

theorem framing_preserved_adaptorDecompress (r r' : Resp β)
    (h : WellFramed ops r) (hd : adaptorDecompress ops r = some r') : WellFramed ops r' := by
  unfold adaptorDecompress at hd
  split at hd
  · cases hd; exact h
  · split at hd
    · split at hd
      · cases hd
      · cases hd; left; simp only []; rw [Hdr.get_del_other _ ne_CL_CE, Hdr.get_del_same]
    · split at hd
      · cases hd
      · cases hd; right; simp only [Pl.content]; rw [Hdr.get_del_other _ ne_CL_CE, Hdr.get_set_same]

theorem framing_preserved_adaptorCore (a : AdSpec) (r : Resp β)
    (h : WellFramed ops r) : WellFramed ops (adaptorCore ops a r) := by
  unfold adaptorCore
  have h1 := framing_preserved_adaptorBody ops a.body r h
  have h2 : WellFramed ops (if a.compress then adaptorCompress ops (adaptorBody ops a.body r) else adaptorBody ops a.body r) := by
    split
    · exact framing_preserved_adaptorCompress ops _ h1
    · exact h1
  simp only []
  split
  · cases hd : adaptorDecompress ops (if a.compress = true then adaptorCompress ops (adaptorBody ops a.body r) else adaptorBody ops a.body r) with
    | none => simpa [hd] using h2
    | some r' => simpa [hd] using framing_preserved_adaptorDecompress ops _ r' h2 hd
  · exact h2

/-- The adaptor's `header:` section keeps the framing as long as it does not name Content-Length. -/
theorem framing_preserved_adaptHeader (a : AdSpec) (r : Resp β) (hk : keyCL ∉ a.hkeys)
    (h : WellFramed ops r) : WellFramed ops { r with hdr := adaptHeader a r.hdr } := by
  unfold WellFramed at *
  simp only []
  rw [get_adaptHeader_other a r.hdr keyCL hk]
  exact h

theorem framing_preserved_adaptorHandle (a : AdSpec) (r : Resp β) (hk : keyCL ∉ a.hkeys)
    (h : WellFramed ops r) : WellFramed ops (adaptorHandle ops a r) := by
  unfold adaptorHandle
  exact framing_preserved_adaptorCore ops a _ (framing_preserved_adaptHeader ops a r hk h)

/-- **Any** chain of ResponseAdaptor filters (any number, any header / body / compress /
decompress settings, the header sections not naming Content-Length) keeps a well-framed
response well-framed. -/
theorem pipeline_of_transformations_well_framed (as : List AdSpec) (has : ∀ a ∈ as, keyCL ∉ a.hkeys)
    (r : Resp β) (h : WellFramed ops r) : WellFramed ops (adaptorChain ops as r) := by
  unfold adaptorChain
  induction as generalizing r with
  | nil => exact h
  | cons a t ih =>
    exact ih (fun x hx => has x (by simp [hx])) _
      (framing_preserved_adaptorHandle ops a r (has a (by simp)) h)

/-- `FetchPayload` in buffered mode turns a coherent backend response into a well-framed one:
the payload has exactly the declared number of bytes, or there is no declared length.
`take` law: `len (take n b) = n` whenever `n ≤ len b`. -/
theorem framing_established_by_fetch (dflt limit : Int) (r r' : Resp β)
    (htake : ∀ n b, n ≤ ops.len b → ops.len (ops.take n b) = n)
    (hc : Coherent r) (hf : fetchPayload ops dflt limit false r = some r') (hb : r'.payload.isStream = false) :
    WellFramed ops r' := by
  unfold fetchPayload at hf
  cases hfr : Payload.fetchResp dflt limit false ⟨r.cl, ops.len r.payload.content⟩ with
  | stream => rw [hfr] at hf; cases hf; simp [Pl.isStream] at hb
  | tooLarge => rw [hfr] at hf; cases hf
  | shortRead => rw [hfr] at hf; cases hf
  | ok n =>
    rw [hfr] at hf; cases hf
    have hcases : (0 < r.cl ∧ n = r.cl.toNat ∧ r.cl.toNat ≤ ops.len r.payload.content) ∨
        (r.cl = 0 ∧ n = 0) ∨ r.cl < 0 := by
      unfold Payload.fetchResp Payload.fetch at hfr
      simp only [Bool.false_eq_true, if_false] at hfr
      by_cases h1 : Payload.normLimit dflt limit < 0
      · simp [h1] at hfr
      · by_cases h2 : r.cl > Payload.normLimit dflt limit
        · simp [h1, h2] at hfr
        · by_cases h3 : r.cl > 0
          · by_cases h4 : r.cl.toNat ≤ ops.len r.payload.content
            · simp [h1, h2, h3, h4] at hfr; left; exact ⟨h3, hfr.symm, h4⟩
            · simp [h1, h2, h3, h4] at hfr
          · by_cases h5 : r.cl = 0
            · simp [h1, h5] at hfr; right; left; exact ⟨h5, hfr.symm⟩
            · right; right; omega
    rcases hcases with ⟨hp, hn, hle⟩ | ⟨hz, hn⟩ | hneg
    · right
      show r.hdr.get keyCL = [toString (ops.len (ops.take n r.payload.content))]
      rw [hc.2 (by omega), hn, htake _ _ hle]
    · right
      show r.hdr.get keyCL = [toString (ops.len (ops.take n r.payload.content))]
      rw [hc.2 (by omega), hn, htake _ _ (Nat.zero_le _), hz]; rfl
    · left; exact hc.1 hneg

/-- What the mux hands to net/http for a well-framed response: no Content-Length, or exactly
the number of bytes `io.Copy` will offer. -/
example (r : Resp β) (h : WellFramed ops r) :
    (writeOut ops r).declared = [] ∨ (writeOut ops r).declared = [toString (writeOut ops r).offered] := by
  unfold writeOut; exact h

/-- The Bool version evaluated by the judge is the predicate of the theorems. -/
theorem wellFramedB_iff (r : Resp β) : wellFramedB ops r = true ↔ WellFramed ops r := by
  unfold wellFramedB WellFramed
  simp [List.isEmpty_iff]

end framing

/-! ### Content -/

/-- A response that `alreadyGzipped` rejects does not carry the label `gzip`. -/
theorem not_gz_label {h : Hdr} (hng : ¬ alreadyGzipped h = true) :
    ((h.get keyCE).head? == some "gzip") = false := by
  cases hh : (h.get keyCE) with
  | nil => simp
  | cons v t =>
    simp only [List.head?_cons]
    by_cases hv : v = "gzip"
    · exfalso; apply hng
      unfold alreadyGzipped
      rw [hh, hv, List.any_cons]
      have hs : strContains "gzip" "gzip" = true := by decide
      rw [hs]; rfl
    · simp [hv]

section content
variable {β : Type} (ops : BodyOps β)

theorem ne_CE_CL : keyCE ≠ keyCL := by decide
theorem ne_CE_Vary : keyCE ≠ keyVary := by decide

/-- Proxy compression is undone by undoing the label it sets. -/
theorem content_roundtrip_proxyCompress (hgz : ∀ b, ops.ungz (ops.gz b) = some b)
    (minLength : Nat) (reqHdr : Hdr) (r : Resp β) (b : β) (h : decoded ops r = some b) :
    decoded ops (proxyCompress ops minLength reqHdr r) = some b := by
  unfold proxyCompress
  split
  · exact h
  · split
    · exact h
    · split
      · exact h
      · rename_i hng _
        unfold decoded
        simp only []
        rw [Hdr.get_add_other _ _ ne_CE_Vary, Hdr.get_set_same]
        simp only [List.head?_cons, beq_self_eq_true, if_true]
        -- not already gzip-labelled ⇒ the body is the identity-encoded content
        have hno := not_gz_label hng
        unfold decoded at h
        rw [hno] at h
        simp only [Bool.false_eq_true, if_false] at h
        cases hp : r.payload <;> simp [hp, Pl.content, Pl.map] at h ⊢ <;> rw [← h] <;> exact hgz _

/-- ResponseAdaptor `compress` / `decompress` (no `body:`) keep the decoded content. -/
theorem content_roundtrip_adaptorCore (hgz : ∀ b, ops.ungz (ops.gz b) = some b)
    (a : AdSpec) (ha : a.body = "") (r : Resp β) (b : β) (h : decoded ops r = some b) :
    decoded ops (adaptorCore ops a r) = some b := by
  have hcomp : ∀ r : Resp β, decoded ops r = some b → decoded ops (adaptorCompress ops r) = some b := by
    intro r h
    unfold adaptorCompress
    split
    · exact h
    · rename_i hng
      have hno := not_gz_label hng
      unfold decoded at h
      rw [hno] at h
      simp only [Bool.false_eq_true, if_false] at h
      split
      · rename_i b0 hp
        unfold decoded; simp only [Pl.content]
        rw [Hdr.get_set_same]
        simp only [List.head?_cons, beq_self_eq_true, if_true]
        simp [hp, Pl.content] at h; rw [← h]; exact hgz _
      · rename_i b0 hp
        unfold decoded; simp only [Pl.content]
        rw [Hdr.get_set_same]
        simp only [List.head?_cons, beq_self_eq_true, if_true]
        simp [hp, Pl.content] at h; rw [← h]; exact hgz _
  have hdec : ∀ r r' : Resp β, decoded ops r = some b → adaptorDecompress ops r = some r' → decoded ops r' = some b := by
    intro r r' h hd
    unfold adaptorDecompress at hd
    split at hd
    · cases hd; exact h
    · rename_i hgzl
      have hl : ((r.hdr.get keyCE).head? == some "gzip") = true := by simpa using hgzl
      unfold decoded at h
      rw [hl] at h
      simp only [if_true] at h
      split at hd
      · rename_i b0 hp
        simp [hp, Pl.content] at h
        rw [h] at hd; cases hd
        unfold decoded; simp only [Pl.content]
        rw [Hdr.get_del_same]; simp
      · rename_i b0 hp
        simp [hp, Pl.content] at h
        rw [h] at hd; cases hd
        unfold decoded; simp only [Pl.content]
        rw [Hdr.get_del_same]; simp
  unfold adaptorCore
  have h1 : adaptorBody ops a.body r = r := by simp [adaptorBody, ha]
  simp only [h1]
  have h2 : decoded ops (if a.compress then adaptorCompress ops r else r) = some b := by
    split
    · exact hcomp r h
    · exact h
  split
  · cases hd : adaptorDecompress ops (if a.compress = true then adaptorCompress ops r else r) with
    | none => simpa [hd] using h2
    | some r' => simpa [hd] using hdec _ r' h2 hd
  · exact h2

/-- Full `Handle` (header section not naming Content-Encoding, no `body:`). -/
theorem content_roundtrip_adaptor (hgz : ∀ b, ops.ungz (ops.gz b) = some b)
    (a : AdSpec) (ha : a.body = "") (hk : keyCE ∉ a.hkeys) (r : Resp β) (b : β) (h : decoded ops r = some b) :
    decoded ops (adaptorHandle ops a r) = some b := by
  unfold adaptorHandle
  apply content_roundtrip_adaptorCore ops hgz a ha
  unfold decoded at *
  simp only []
  rw [get_adaptHeader_other a r.hdr keyCE hk]
  exact h

/-- **content_roundtrip**: through proxy compression and any chain of body-less adaptors the
client can recover exactly the backend's content by undoing the labelled encoding. -/
theorem content_roundtrip (hgz : ∀ b, ops.ungz (ops.gz b) = some b)
    (compression : Option Nat) (reqHdr : Hdr) (as : List AdSpec)
    (has : ∀ a ∈ as, a.body = "" ∧ keyCE ∉ a.hkeys)
    (r : Resp β) (b : β) (h : decoded ops r = some b) :
    decoded ops (adaptorChain ops as
      (match compression with | none => r | some ml => proxyCompress ops ml reqHdr r)) = some b := by
  have h0 : decoded ops (match compression with | none => r | some ml => proxyCompress ops ml reqHdr r) = some b := by
    cases compression with
    | none => exact h
    | some ml => exact content_roundtrip_proxyCompress ops hgz ml reqHdr r b h
  generalize (match compression with | none => r | some ml => proxyCompress ops ml reqHdr r) = r1 at h0
  unfold adaptorChain
  induction as generalizing r1 with
  | nil => exact h0
  | cons a t ih =>
    exact ih (fun x hx => has x (by simp [hx])) _
      (content_roundtrip_adaptor ops hgz a (has a (by simp)).1 (has a (by simp)).2 r1 b h0)

end content

/-! ### The pool's memory cache -/

/-- Facts: a cache hit builds its response from a **copy** of the entry's header
(`ce.Header.Clone()`) and installs the entry's body as a fresh payload (`SetPayload(ce.Body)`; filters
replace payload slices, they never write into them); `Store` snapshots a copy of the header and is
called right after `buildResponse`, before any later filter. This is what makes `alias = false` the
right instance of `Model/ProxyCache.poolStep`. -/
theorem cache_facts :
    Gen.FactsC03.cacheHitBody = ["if sp.memoryCache == nil { return false }", "ce := sp.memoryCache.Load(spCtx.req)",
      "if ce == nil { return false }", "resp, _ := httpprot.NewResponse(nil)", "resp.SetStatusCode(ce.StatusCode)",
      "resp.Std().Header = ce.Header.Clone()", "resp.SetPayload(ce.Body)", "spCtx.resp = resp",
      "spCtx.SetOutputResponse(resp)", "return true"] ∧
    Gen.FactsC03.cacheStoreEntry = "CacheEntry{ StatusCode: resp.StatusCode(), Header: resp.HTTPHeader().Clone(), Body: resp.RawPayload(), }" ∧
    Gen.FactsC03.cacheStoreAfterBuild = true := ⟨rfl, rfl, rfl⟩

section cache
variable {β : Type} (ops : BodyOps β)

/-- Nothing after `FetchPayload` reads the `ContentLength` field: the adaptor commutes with
changing it. -/
theorem adaptorCore_setCl (a : AdSpec) (r : Resp β) (c : Int) :
    adaptorCore ops a { r with cl := c } = { adaptorCore ops a r with cl := c } := by
  obtain ⟨st, h, cl, pl⟩ := r
  cases pl <;>
  · simp only [adaptorCore, adaptorBody, adaptorCompress, adaptorDecompress]
    repeat' split
    all_goals simp_all

theorem adaptorChain_setCl (as : List AdSpec) (r : Resp β) (c : Int) :
    adaptorChain ops as { r with cl := c } = { adaptorChain ops as r with cl := c } := by
  unfold adaptorChain
  induction as generalizing r with
  | nil => rfl
  | cons a t ih =>
    simp only [List.foldl_cons]
    have : adaptorHandle ops a { r with cl := c } = { adaptorHandle ops a r with cl := c } := by
      unfold adaptorHandle
      exact adaptorCore_setCl ops a { r with hdr := adaptHeader a r.hdr } c
    rw [this, ih]

/-- The response a hit builds from the snapshot of `r` is `r` up to the `ContentLength` field. -/
theorem respFromCache_snapshot (r : Resp β) (hb : r.payload.isStream = false) :
    respFromCache ⟨r.status, r.hdr, r.payload.content⟩ = { r with cl := -1 } := by
  obtain ⟨st, h, cl, pl⟩ := r
  cases pl <;> simp_all [respFromCache, Pl.content, Pl.isStream]

theorem ccHas_mono (h : Hdr) (ws ws' : List String) (hsub : ∀ w ∈ ws, w ∈ ws') (hn : ccHas h ws' = false) :
    ccHas h ws = false := by
  unfold ccHas at *
  rw [List.any_eq_false] at *
  intro v hv
  have := hn v hv
  simp only [Bool.not_eq_true] at this ⊢
  rw [List.any_eq_false] at *
  intro w hw
  exact this w (hsub w hw)

/-- A hit leaves the cache exactly as it was and answers from the entry. -/
theorem poolStep_hit (cfg : CacheCfg) (as : List AdSpec) (c : Cache β) (q : PoolReq β) (e : CacheEntry β)
    (hl : cacheLoad cfg q.key q.method q.hdr c = some e) :
    poolStep ops cfg false as c q = (c, adaptorChain ops as (respFromCache e)) := by
  simp [poolStep, hl]

/-- **Cache entries are immutable under downstream transformations**: after a cacheable miss
produced `r`, every later request with the same key / method / header — whatever the backend
would answer by then, however many there are, whatever the response-editing filters `as` do —
gets exactly the response the miss got (up to the internal ContentLength field). -/
theorem cache_hits_equal_miss (cfg : CacheCfg) (as : List AdSpec) (c : Cache β) (q : PoolReq β) (r : Resp β)
    (hmiss : cacheLoad cfg q.key q.method q.hdr c = none) (hfresh : q.fresh = some r)
    (hst : storable ops cfg q.method q.hdr r = true)
    (qs : List (PoolReq β)) (hsame : ∀ q' ∈ qs, q'.key = q.key ∧ q'.method = q.method ∧ q'.hdr = q.hdr) :
    ∀ resp ∈ runHistory ops cfg false as c (q :: qs), resp.view = (adaptorChain ops as r).view := by
  -- facts packed in `storable`
  have hst' := hst
  unfold storable at hst'
  simp only [Bool.and_eq_true, Bool.not_eq_true', decide_eq_true_eq] at hst'
  obtain ⟨⟨⟨⟨⟨hns, _⟩, hm⟩, _⟩, hreq⟩, _⟩ := hst'
  have hnc : ccHas q.hdr ["no-cache"] = false :=
    ccHas_mono q.hdr _ _ (by intro w hw; simp at hw; simp [hw]) hreq
  -- first step: a miss that stores the snapshot
  have hstep : poolStep ops cfg false as c q =
      ((q.key, ⟨r.status, r.hdr, r.payload.content⟩) :: c, adaptorChain ops as r) := by
    simp [poolStep, hmiss, hfresh, cacheStore, hst]
  -- every later step is a hit on that snapshot
  have hrest : ∀ (qs : List (PoolReq β)) (c' : Cache β),
      (∀ q' ∈ qs, q'.key = q.key ∧ q'.method = q.method ∧ q'.hdr = q.hdr) →
      c'.lookup q.key = some ⟨r.status, r.hdr, r.payload.content⟩ →
      ∀ resp ∈ runHistory ops cfg false as c' qs, resp.view = (adaptorChain ops as r).view := by
    intro qs
    induction qs with
    | nil => intro _ _ _ resp hr; simp [runHistory] at hr
    | cons q' t ih =>
      intro c' hs hlk resp hr
      obtain ⟨hk, hme, hh⟩ := hs q' (by simp)
      have hl : cacheLoad cfg q'.key q'.method q'.hdr c' = some ⟨r.status, r.hdr, r.payload.content⟩ := by
        unfold cacheLoad
        rw [hk, hme, hh]
        have hm' : q.method ∈ cfg.methods := by simpa using hm
        simp [hm', hnc, hlk]
      have hp := poolStep_hit ops cfg as c' q' _ hl
      simp only [runHistory, hp, List.mem_cons] at hr
      rcases hr with hr | hr
      · rw [hr, respFromCache_snapshot r hns, adaptorChain_setCl]
        rfl
      · exact ih c' (fun x hx => hs x (by simp [hx])) hlk resp hr
  intro resp hr
  simp only [runHistory, hstep, List.mem_cons] at hr
  rcases hr with hr | hr
  · rw [hr]
  · exact hrest qs _ hsame (by simp [List.lookup]) resp hr

/-- … and every one of those responses is well-framed if the Proxy's own response was. -/
theorem cache_hits_well_framed (cfg : CacheCfg) (as : List AdSpec) (has : ∀ a ∈ as, keyCL ∉ a.hkeys)
    (c : Cache β) (q : PoolReq β) (r : Resp β)
    (hmiss : cacheLoad cfg q.key q.method q.hdr c = none) (hfresh : q.fresh = some r)
    (hst : storable ops cfg q.method q.hdr r = true) (hwf : WellFramed ops r)
    (qs : List (PoolReq β)) (hsame : ∀ q' ∈ qs, q'.key = q.key ∧ q'.method = q.method ∧ q'.hdr = q.hdr) :
    ∀ resp ∈ runHistory ops cfg false as c (q :: qs), WellFramed ops resp := by
  intro resp hr
  have hv := cache_hits_equal_miss ops cfg as c q r hmiss hfresh hst qs hsame resp hr
  have hw := pipeline_of_transformations_well_framed ops as has r hwf
  unfold Resp.view at hv
  simp only [Prod.mk.injEq] at hv
  unfold WellFramed at *
  rw [hv.2.1, hv.2.2]
  exact hw

end cache

/-! ### Regenerated tie by translation (notes/IR.md): the code itself, re-translated on every run

`Gen.FactsC03IR.*` are produced by `harness/factextract/facts_c03_ir.go` (go/ast → Lean) from the
*current* bodies of `cloneHeader`, `Server.checkAddrPattern`, `serverPoolContext.prepareRequest`,
`compression.acceptGzip / alreadyGziped / compress`; the proofs are in `Proofs/ProxyIR.lean`. -/

/-- `cloneHeader` (pool.go; both loops over the `Connection` lines and their tokens, the hop-table loop)
is the model's `cloneHeader`, for every header set, canonicalisation and hop table. -/
theorem cloneHeader_regenerated_from_source (canon : String → String) (hop : List String) (h : Hdr) :
    Gen.FactsC03IR.extractionFailed = false ∧
    Gen.FactsC03IR.cloneHeaderIR canon hop h = cloneHeader canon hop h :=
  ⟨by decide, Proxy.cloneHeader_regenerated_from_source canon hop h⟩

/-- `Server.checkAddrPattern` (server.go): the `LastIndexByte` arithmetic, both slicings and the
`net.ParseIP` test are the model's `addrIsHostName`; an unparsable URL leaves the flag as it was. -/
theorem checkAddr_regenerated_from_source (isIP : List Char → Bool) (parsed : Option (List Char)) (old : Bool) :
    Gen.FactsC03IR.extractionFailed = false ∧
    Gen.FactsC03IR.checkAddrIR isIP parsed old = (match parsed with
      | none => old
      | some host => addrIsHostName isIP host) :=
  ⟨by decide, Proxy.checkAddr_regenerated_from_source isIP parsed old⟩

/-- `prepareRequest` (pool.go): URL construction, payload choice (mirror + stream ⇒ the stub), header
clone and Host rule are the model's `prepareRequest`; it fails only when `http.NewRequestWithContext`
rejects the URL. -/
theorem prepare_regenerated_from_source {π : Type} (canon : String → String) (urlOK : String → Bool) (stub : π)
    (span : Option Unit) (svr : ServerCfg) (mirror : Bool) (q : PReq π) :
    Gen.FactsC03IR.extractionFailed = false ∧
    Gen.FactsC03IR.prepareIR canon urlOK stub span svr mirror q =
      (if urlOK (targetURL svr.url q.escapedPath q.rawQuery) then
        (false, some (prepareRequest canon hopHeaders svr mirror stub q))
      else (true, none)) :=
  ⟨by decide, Proxy.prepare_regenerated_from_source canon urlOK stub span svr mirror q⟩

/-- `compression.acceptGzip` / `alreadyGziped` (compression.go) are the model's predicates. -/
theorem acceptGzip_regenerated_from_source (reqHdr respHdr : Hdr) :
    Gen.FactsC03IR.extractionFailed = false ∧
    Gen.FactsC03IR.acceptGzipIR reqHdr = acceptGzip reqHdr ∧
    Gen.FactsC03IR.alreadyGzipedIR respHdr = alreadyGzipped respHdr :=
  ⟨by decide, Proxy.acceptGzip_regenerated_from_source reqHdr, Proxy.alreadyGziped_regenerated_from_source respHdr⟩

/-- `compression.compress`: the decision (three early `return false`) and the four header / field updates
are the model's `proxyCompress`; it returns `true` exactly when it compressed. -/
theorem compress_regenerated_from_source {β : Type} (ops : BodyOps β) (minLength : Nat) (reqHdr : Hdr) (r : Resp β) :
    Gen.FactsC03IR.extractionFailed = false ∧
    Gen.FactsC03IR.compressIR ops minLength reqHdr r =
      (acceptGzip reqHdr && !alreadyGzipped r.hdr && !(r.cl != -1 && decide (r.cl < (minLength : Int))),
       proxyCompress ops minLength reqHdr r) :=
  ⟨by decide, Proxy.compress_regenerated_from_source ops minLength reqHdr r⟩

/-- `pathadaptor.Adapt` (the RequestAdaptor's `path:` section): precedence and the four rewrites are the model's. -/
theorem pathAdapt_regenerated_from_source (σ : Nat → String → String → String) (pa : PathAd) (path : String) :
    Gen.FactsC03IR.extractionFailed = false ∧ Gen.FactsC03IR.pathAdaptIR σ pa path = pa.adapt σ path :=
  ⟨by decide, Proxy.pathAdapt_regenerated_from_source σ pa path⟩

/-- `adaptHeader` of requestadaptor.go and of responseadaptor.go (the three loops del / set / add, keys
canonicalised by `http.Header`) are the model's `adaptHeader`. -/
theorem adaptHeader_regenerated_from_source (canon : String → String) (a : AdSpec) (h : Hdr) :
    Gen.FactsC03IR.extractionFailed = false ∧
    Gen.FactsC03IR.adaptReqHeaderIR canon a h = adaptHeader (a.canonKeys canon) h ∧
    Gen.FactsC03IR.adaptRespHeaderIR canon a h = adaptHeader (a.canonKeys canon) h :=
  ⟨by decide, Proxy.adaptHeader_regenerated_from_source canon a h⟩

/-- `RequestAdaptor.Handle` (requestadaptor.go): method / path / Host afterwards = `adaptReqLine`; header
section, body, compress, decompress in that order = `reqAdaptorFull`; failure result ⇔ the model has none. -/
theorem handleReqAd_regenerated_from_source {β : Type} (ops : BodyOps β) (σ : Nat → String → String → String)
    (esc : String → String) (a : ReqLineAd) (ad : AdSpec) (q : ReqLine) (m : ReqMsg β) :
    Gen.FactsC03IR.extractionFailed = false ∧
    (Gen.FactsC03IR.handleReqAdIR ops σ a (some ad) ad.body (if ad.compress then "gzip" else "") (if ad.decompress then "gzip" else "") q m).2.1 =
      ((adaptReqLine σ esc a q).method, (adaptReqLine σ esc a q).path, (adaptReqLine σ esc a q).host) ∧
    (∀ m', reqAdaptorFull ops ad m = some m' →
      (Gen.FactsC03IR.handleReqAdIR ops σ a (some ad) ad.body (if ad.compress then "gzip" else "") (if ad.decompress then "gzip" else "") q m).1 = "" ∧
      (Gen.FactsC03IR.handleReqAdIR ops σ a (some ad) ad.body (if ad.compress then "gzip" else "") (if ad.decompress then "gzip" else "") q m).2.2 = m') ∧
    (reqAdaptorFull ops ad m = none →
      (Gen.FactsC03IR.handleReqAdIR ops σ a (some ad) ad.body (if ad.compress then "gzip" else "") (if ad.decompress then "gzip" else "") q m).1
        = "decompressFailed") :=
  ⟨by decide, Proxy.handleReqAd_regenerated_from_source_line ops σ esc a (some ad) _ _ _ q m,
    (Proxy.handleReqAd_regenerated_from_source ops σ a ad q m).1, (Proxy.handleReqAd_regenerated_from_source ops σ a ad q m).2⟩

/-- `ServerPool.handleMirror` (pool.go): the mirror backend is sent the model's mirror request; **`spCtx.resp`
is never set** — whatever the mirror answers (or whether sending fails) the client-visible response cannot
come from it. -/
theorem handleMirror_regenerated_from_source {π : Type} (canon : String → String) (urlOK : String → Bool) (stub : π)
    (span : Option Unit) (chosen : Option ServerCfg) (sendErr : Bool) (q : PReq π) :
    Gen.FactsC03IR.extractionFailed = false ∧
    Gen.FactsC03IR.handleMirrorIR canon urlOK stub span chosen sendErr q =
      ((match chosen with
        | none => none
        | some svr => if urlOK (targetURL svr.url q.escapedPath q.rawQuery) then
            mirrorSent canon (some (svr, true)) stub q else none), none) :=
  ⟨by decide, Proxy.handleMirror_regenerated_from_source canon urlOK stub span chosen sendErr q⟩

/-- `Proxy.Handle` (proxy.go): the mirror pool is started iff it exists and its filter matches; the request is
served (`handle(ctx, false)`) by the first matching candidate pool, else the main pool — never by the mirror. -/
theorem proxyHandle_regenerated_from_source (mirror : Option (Nat × Bool)) (main : Nat × Bool) (cands : List (Nat × Bool)) :
    Gen.FactsC03IR.extractionFailed = false ∧
    Gen.FactsC03IR.proxyHandleIR mirror main cands = proxyHandle mirror main cands :=
  ⟨by decide, Proxy.proxyHandle_regenerated_from_source mirror main cands⟩

/-- **Host rule, on the re-translated `prepareRequest`** (pool.go): whenever the request can be built, the Host the
transport puts on the wire for it is the client's Host for an IP-addressed or `keepHost` server and the server's own
`host[:port]` otherwise — the declarative `Spec.expectedHost` the judge evaluates on the backend's observation.
(`isIP` of the server's host part is `!svr.addrIsHostName`, by `checkAddr_regenerated_from_source` /
`addr_pattern_classifies`.) -/
theorem host_rule {π : Type} (canon : String → String) (urlOK : String → Bool) (stub : π) (span : Option Unit)
    (svr : ServerCfg) (q : PReq π) (hq : q.host ≠ "")
    (hu : urlOK (targetURL svr.url q.escapedPath q.rawQuery) = true) :
    ∃ o, Gen.FactsC03IR.prepareIR canon urlOK stub span svr false q = (false, some o) ∧
      o.wireHost svr = Spec.expectedHost (!svr.addrIsHostName) svr.keepHost q.host svr.hostPort := by
  refine ⟨prepareRequest canon hopHeaders svr false stub q, ?_, ?_⟩
  · rw [Proxy.prepare_regenerated_from_source, hu]; rfl
  · simp only [OutReq.wireHost, prepareRequest, Spec.expectedHost]
    by_cases hh : (!svr.addrIsHostName || svr.keepHost) = true
    · have : (q.host == "") = false := by simpa using hq
      simp [hh, this]
    · simp [hh]

/-- The fields of the model's `prepareRequest` are the pieces the request-side theorems talk about:
method and payload untouched (main pool), URL = `targetURL` (⇒ `url_preserved`), header = `cloneHeader`
(⇒ `cloneHeader_strips_hop / keeps_e2e`), and the Host on the wire = `hostSent` (⇒ `host_rule`) whenever
the client sent a Host. -/
theorem prepareRequest_fields {π : Type} (canon : String → String) (svr : ServerCfg) (stub : π) (q : PReq π) :
    let o := prepareRequest canon hopHeaders svr false stub q
    o.method = q.method ∧ o.payload = some q.payload ∧ o.url = targetURL svr.url q.escapedPath q.rawQuery ∧
    o.hdr = cloneHeader canon hopHeaders q.hdr ∧ (q.host ≠ "" → o.wireHost svr = hostSent svr q.host) := by
  refine ⟨rfl, by simp [prepareRequest], rfl, rfl, ?_⟩
  intro hq
  simp only [OutReq.wireHost, prepareRequest, hostSent]
  by_cases hh : (!svr.addrIsHostName || svr.keepHost) = true
  · simp [hh, hq]
  · simp [hh]

/-- non-vacuity: the translated code on concrete inputs. -/
example : Gen.FactsC03IR.cloneHeaderIR id hopHeaders
    [("X-A", ["1"]), ("Connection", ["close, X-Foo"]), ("X-Foo", ["bar"]), ("Keep-Alive", ["3"]), ("X-A", ["2"])]
    = [("X-A", ["1"]), ("X-A", ["2"])] := by decide

example : Gen.FactsC03IR.checkAddrIR (fun s => s == "::1".toList) (some "[::1]:8080".toList) true = false ∧
    Gen.FactsC03IR.checkAddrIR (fun _ => false) (some "example.com:80".toList) false = true ∧
    Gen.FactsC03IR.checkAddrIR (fun _ => false) none false = false := by decide

/-! ### Retries: faithfulness holds per attempt, for any number of attempts -/

/-- **Every attempt of a retried request puts the same faithful request on the wire** — for any number
of attempts `n`: `prepareRequest` asks the request for a fresh payload reader each time. Together with
`prepare_regenerated_from_source` (the payload of the built request *is* `req.GetPayload()`, obtained
inside `prepareRequest`) and `prepareRequest_fields` this extends method / URL / header / Host / body
faithfulness from the single request to every attempt. -/
theorem every_attempt_faithful {π : Type} (empty : π) (o : OutReq π) (n : Nat) :
    retrySeen true empty o n = List.replicate n o ∧ ∀ s ∈ retrySeen true empty o n, s = o := by
  have h : retrySeen true empty o n = List.replicate n o := by
    unfold retrySeen attemptSeen
    simp only [Bool.true_or, if_true]
    induction n with
    | zero => rfl
    | succ k ih => rw [List.range_succ, List.map_append, ih]; simp [List.replicate_succ']
  refine ⟨h, ?_⟩
  intro s hs
  rw [h] at hs
  exact (List.mem_replicate.mp hs).2

/-- Facts behind `fresh = true`: `Request.GetPayload` returns a new reader over the buffered bytes on every
call, and the function the retry wrapper calls once per attempt (`doHandle`) runs `prepareRequest` itself
(whose translated body — `prepare_regenerated_from_source` — takes the payload from `req.GetPayload()`). -/
theorem retry_facts :
    Gen.FactsC03.getPayloadFresh = true ∧ Gen.FactsC03.prepareInsideDoHandle = true := ⟨rfl, rfl⟩

/-- The seeded defect C03-m4 in the model: one payload reader shared by all attempts (`fresh = false`)
sends the body on the first attempt only. -/
example : retrySeen false ([] : List Nat) ⟨"POST", "http://b/x", some [1, 2, 3], [], ""⟩ 3 =
    [⟨"POST", "http://b/x", some [1, 2, 3], [], ""⟩, ⟨"POST", "http://b/x", some [], [], ""⟩,
     ⟨"POST", "http://b/x", some [], [], ""⟩] := by decide

/-- Number of attempts: one without a retry policy or for a stream request (its body can be read only
once), otherwise one more than the failed attempts, capped by `maxAttempts`. -/
theorem attempts_bounded (m : Nat) (isStream : Bool) (failures : Nat) :
    attemptsMade none isStream failures = 1 ∧ attemptsMade (some m) true failures = 1 ∧
    attemptsMade (some m) false failures ≤ m ∧ attemptsMade (some m) false failures ≤ failures + 1 ∧
    (failures < m → attemptsMade (some m) false failures = failures + 1) := by
  simp only [attemptsMade, if_true, Bool.false_eq_true, if_false]
  refine ⟨trivial, trivial, by omega, by omega, by intro h; omega⟩

/-- In the end-to-end model with a pool retry policy and `failureCodes`: whatever the scripted fates of the
attempts (resets, listed statuses, oversized answers …), every request the backend sees is the one
faithful request `prepare` built, and there are at most `max 1 maxAttempts`… exactly as many as the
retry loop made. -/
theorem runRetry_attempts_same_request {β : Type} (ops : BodyOps β) (canon : String → String) (cfg : Cfg)
    (retryMax : Option Nat) (failureCodes : List Nat) (q : ClientReq β) (replies : List (Reply β))
    (seenAll : List (BackendSeen β)) (cl : Resp β) (ok : Bool) (m : ReqMsg β) (seen : BackendSeen β)
    (hp : prepare ops canon cfg q = .ready m seen)
    (hr : runRetry ops canon cfg retryMax failureCodes q replies = .proxied seenAll cl ok) :
    ∀ s ∈ seenAll, s = seen := by
  unfold runRetry at hr
  rw [hp] at hr
  simp only [] at hr
  intro s hs
  split at hr <;> (cases hr; exact (List.mem_replicate.mp hs).2)

/-- Without a retry policy and without `failureCodes` the retry model is the plain `run`: one attempt,
the same client response. -/
theorem runRetry_single_eq_run {β : Type} (ops : BodyOps β) (canon : String → String) (cfg : Cfg)
    (q : ClientReq β) (reply : BackendReply β) :
    runRetry ops canon cfg none [] q [.resp reply] = match run ops canon cfg q reply with
      | .early st => .early st
      | .adaptorFailed => .adaptorFailed
      | .proxied seen cl ok => .proxied [seen] cl ok := by
  unfold runRetry run
  cases hp : prepare ops canon cfg q with
  | early st => rfl
  | adaptorFailed => rfl
  | ready m seen =>
    have hr : proxyResp ops cfg q.method seen.hdr reply = none ∨
        ∃ r, proxyResp ops cfg q.method seen.hdr reply = some r := by
      cases proxyResp ops cfg q.method seen.hdr reply with
      | none => exact Or.inl rfl
      | some r => exact Or.inr ⟨r, rfl⟩
    rcases hr with hr | ⟨r, hr⟩ <;>
      simp [retryLoop, doHandleOut, hr]

/-! ### RequestAdaptor: what the backend then sees (faithfulness modulo the configured adaption) -/

/-- An adaptor that configures nothing for the request line leaves it alone. -/
theorem adaptReqLine_default (σ : Nat → String → String → String) (esc : String → String) (q : ReqLine) :
    adaptReqLine σ esc {} q = q := by
  obtain ⟨m, p, e, h⟩ := q
  simp [adaptReqLine]

/-- Method and Host after the adaptor: the configured value when there is one, the client's otherwise;
the Host rule (`host_rule`) then applies to that Host. -/
theorem adaptReqLine_method_host (σ : Nat → String → String → String) (esc : String → String) (a : ReqLineAd) (q : ReqLine) :
    (adaptReqLine σ esc a q).method = (if a.method = "" then q.method else a.method) ∧
    (adaptReqLine σ esc a q).host = (if a.host = "" then q.host else a.host) := by
  simp only [adaptReqLine]
  constructor
  · by_cases h1 : a.method = ""
    · simp [h1]
    · by_cases h2 : a.method = q.method <;> simp [h1, h2]
  · by_cases h : a.host = "" <;> simp [h]

/-- The path the backend is asked for is exactly `PathAdaptor.Adapt` of the client's decoded path; when the
adaption does not change the path its original escaped form is kept (so `url_preserved` still applies),
otherwise the default encoding of the new path is sent. -/
theorem adaptReqLine_path (σ : Nat → String → String → String) (esc : String → String) (a : ReqLineAd) (q : ReqLine) :
    (adaptReqLine σ esc a q).path = (match a.path with | some pa => pa.adapt σ q.path | none => q.path) ∧
    ((adaptReqLine σ esc a q).path = q.path → (adaptReqLine σ esc a q).escapedPath = q.escapedPath) ∧
    ((adaptReqLine σ esc a q).path ≠ q.path →
      (adaptReqLine σ esc a q).escapedPath = esc (adaptReqLine σ esc a q).path) := by
  simp only [adaptReqLine]
  refine ⟨rfl, ?_, ?_⟩
  · intro h; simp [h]
  · intro h; simp [h]

/-- `pathadaptor.Adapt`: precedence replace > addPrefix > trimPrefix > regexp, nothing configured = identity. -/
theorem pathAdapt_cases (σ : Nat → String → String → String) (pa : PathAd) (p : String) :
    (pa.replace ≠ "" → pa.adapt σ p = pa.replace) ∧
    (pa.replace = "" → pa.addPrefix ≠ "" → pa.adapt σ p = pa.addPrefix ++ p) ∧
    (pa.replace = "" → pa.addPrefix = "" → pa.trimPrefix ≠ "" → pa.adapt σ p = trimPrefixS p pa.trimPrefix) ∧
    (pa.replace = "" → pa.addPrefix = "" → pa.trimPrefix = "" → pa.re = none → pa.adapt σ p = p) := by
  refine ⟨?_, ?_, ?_, ?_⟩ <;> intros <;> simp_all [PathAd.adapt]

/-- **Headers after a RequestAdaptor `header:` section**: whatever the section deletes, sets or adds, the
backend never sees a hop-by-hop header (also not one the adaptor itself set), and every other header arrives
exactly as the adaptor left it — provided the section does not edit `Connection` itself and the header is not
named by a `Connection` token. -/
theorem reqAdapt_header_then_clone (canon : String → String) (hop : List String) (a : AdSpec) (h : Hdr) (k : String) :
    (k ∈ hop.map canon → (cloneHeader canon hop (adaptHeader a h)).get k = []) ∧
    (k ∉ hop.map canon → "Connection" ∉ a.hkeys → k ∉ connTokens canon h →
      (cloneHeader canon hop (adaptHeader a h)).get k = (adaptHeader a h).get k) := by
  constructor
  · intro hk
    exact cloneHeader_strips_hop canon hop _ k (Or.inl hk)
  · intro h1 hc h2
    apply cloneHeader_keeps_e2e canon hop _ k h1
    unfold connTokens at *
    rw [get_adaptHeader_other a h "Connection" hc]
    exact h2

/-- **Headers after a ResponseAdaptor `header:` section** (what the client then sees): every header the
section does not name is the backend's, values and order included. -/
theorem respAdapt_header_other {β : Type} (ops : BodyOps β) (a : AdSpec) (r : Resp β) (k : String)
    (hk : k ∉ a.hkeys) (h1 : k ≠ keyCL) (h2 : k ≠ keyCE) :
    (adaptorHandle ops a r).hdr.get k = r.hdr.get k := by
  have hcore : ∀ r : Resp β, (adaptorCore ops a r).hdr.get k = r.hdr.get k := by
    intro r
    obtain ⟨st, h, cl, pl⟩ := r
    cases pl <;>
    · simp only [adaptorCore, adaptorBody, adaptorCompress, adaptorDecompress]
      repeat' split
      all_goals simp_all [Hdr.get_set_other, Hdr.get_del_other]
  unfold adaptorHandle
  rw [hcore]
  exact get_adaptHeader_other a r.hdr k hk

/-! ### Mirror pool -/

/-- What a mirror backend is sent is the same faithful request (method, URL, stripped header, Host rule of the
*mirror's* server), with the one documented exception: a stream body is replaced by the constant stub. -/
theorem mirror_request_faithful {π : Type} (canon : String → String) (svr : ServerCfg) (stub : π) (q : PReq π) :
    mirrorSent canon (some (svr, true)) stub q = some (prepareRequest canon hopHeaders svr true stub q) ∧
    (prepareRequest canon hopHeaders svr true stub q).method = q.method ∧
    (prepareRequest canon hopHeaders svr true stub q).hdr = cloneHeader canon hopHeaders q.hdr ∧
    (prepareRequest canon hopHeaders svr true stub q).payload = some (if q.isStream then stub else q.payload) ∧
    (∀ svr', mirrorSent canon (some (svr', false)) stub q = none) ∧ mirrorSent canon none stub q = none := by
  refine ⟨rfl, rfl, rfl, ?_, fun _ => rfl, rfl⟩
  cases h : q.isStream <;> simp [prepareRequest, h]

/-- The primary pool's request does not depend on whether a mirror exists (`mirror = false` never reads the
stub): the client's backend gets the faithful request, mirror or not. -/
theorem primary_ignores_mirror_stub {π : Type} (canon : String → String) (svr : ServerCfg) (s1 s2 : π) (q : PReq π) :
    prepareRequest canon hopHeaders svr false s1 q = prepareRequest canon hopHeaders svr false s2 q := by
  simp [prepareRequest]


/-! ### Every history through the cache; every adaptor combination end to end -/

section cacheAll
variable {β : Type} (ops : BodyOps β)

/-- Every entry of the cache is the snapshot of a well-framed response. -/
def CacheWF (c : Cache β) : Prop := ∀ ke ∈ c, WellFramed ops (respFromCache ke.2)

theorem lookup_mem {α : Type} (k : String) (c : List (String × α)) (e : α) (h : c.lookup k = some e) : (k, e) ∈ c := by
  induction c with
  | nil => simp [List.lookup] at h
  | cons x t ih =>
    obtain ⟨k', e'⟩ := x
    simp only [List.lookup] at h
    by_cases hk : k = k'
    · subst hk; simp at h; subst h; simp
    · have : (k == k') = false := by simpa using hk
      rw [this] at h
      exact List.mem_cons_of_mem _ (ih h)

/-- Where the entries of the cache after one step come from: they were there before, or the step was a miss
whose fresh, storable (hence buffered) response was snapshotted under the request's key. A hit never
changes the cache. -/
theorem poolStep_cache_mem (cfg : CacheCfg) (as : List AdSpec) (c : Cache β) (q : PoolReq β) (ke : String × CacheEntry β)
    (h : ke ∈ (poolStep ops cfg false as c q).1) :
    ke ∈ c ∨ ∃ r, q.fresh = some r ∧ storable ops cfg q.method q.hdr r = true ∧
      ke = (q.key, ⟨r.status, r.hdr, r.payload.content⟩) := by
  unfold poolStep at h
  cases hl : cacheLoad cfg q.key q.method q.hdr c with
  | some e => simp [hl] at h; exact Or.inl h
  | none =>
    simp only [hl] at h
    cases hf : q.fresh with
    | none => simp [hf] at h; exact Or.inl h
    | some r =>
      simp only [hf, cacheStore] at h
      by_cases hs : storable ops cfg q.method q.hdr r = true
      · simp only [hs, if_true, List.mem_cons] at h
        rcases h with h | h
        · exact Or.inr ⟨r, rfl, hs, h⟩
        · exact Or.inl h
      · simp only [hs] at h; exact Or.inl h

/-- **Every response of every history through a caching pool is well-framed** — any interleaving of keys,
methods, `no-cache` / `no-store` requests, failures, hits and misses, any number of requests, any chain of
downstream response-editing filters not naming Content-Length — provided what the Proxy itself produces
(fresh responses, failure responses) is well-framed and the cache started out with well-framed snapshots. -/
theorem all_history_responses_well_framed (cfg : CacheCfg) (as : List AdSpec) (has : ∀ a ∈ as, keyCL ∉ a.hkeys)
    (qs : List (PoolReq β)) (c : Cache β) (hc : CacheWF ops c)
    (hq : ∀ q ∈ qs, WellFramed ops q.failure ∧ ∀ r, q.fresh = some r → WellFramed ops r) :
    ∀ resp ∈ runHistory ops cfg false as c qs, WellFramed ops resp := by
  induction qs generalizing c with
  | nil => intro resp h; simp [runHistory] at h
  | cons q t ih =>
    intro resp h
    simp only [runHistory, List.mem_cons] at h
    obtain ⟨hfail, hfresh⟩ := hq q (by simp)
    rcases h with h | h
    · -- the response of this step
      subst h
      unfold poolStep
      cases hl : cacheLoad cfg q.key q.method q.hdr c with
      | some e =>
        have hmem : (q.key, e) ∈ c := by
          unfold cacheLoad at hl
          split at hl
          · cases hl
          · split at hl
            · cases hl
            · exact lookup_mem _ _ _ hl
        exact pipeline_of_transformations_well_framed ops as has _ (hc _ hmem)
      | none =>
        cases hf : q.fresh with
        | none => simpa [hf] using hfail
        | some r => simpa [hf] using pipeline_of_transformations_well_framed ops as has r (hfresh r hf)
    · -- later steps: the invariant is kept
      apply ih (poolStep ops cfg false as c q).1 _ (fun q' hq' => hq q' (by simp [hq'])) resp h
      intro ke hke
      rcases poolStep_cache_mem ops cfg as c q ke hke with hin | ⟨r, hf, hs, rfl⟩
      · exact hc ke hin
      · have hw := hfresh r hf
        unfold WellFramed respFromCache at *
        simpa [Pl.content] using hw

/-- **A hit is a bit-exact copy of what was stored**: in any history, a response served from the cache is the
downstream image of the stored snapshot (status, every header line, every body byte), and the snapshot itself
is not changed by serving it — so the next hit is the same copy again. -/
theorem hit_is_exact_copy (cfg : CacheCfg) (as : List AdSpec) (c : Cache β) (q : PoolReq β) (e : CacheEntry β)
    (hl : cacheLoad cfg q.key q.method q.hdr c = some e) :
    (poolStep ops cfg false as c q).2 = adaptorChain ops as (respFromCache e) ∧
    (respFromCache e).status = e.status ∧ (respFromCache e).hdr = e.hdr ∧ (respFromCache e).payload = .bytes e.body ∧
    (poolStep ops cfg false as c q).1 = c ∧
    cacheLoad cfg q.key q.method q.hdr (poolStep ops cfg false as c q).1 = some e := by
  have h := poolStep_hit ops cfg as c q e hl
  refine ⟨by rw [h], rfl, rfl, rfl, by rw [h], by rw [h]; exact hl⟩

end cacheAll

section e2e
variable {β : Type} (ops : BodyOps β)

theorem fetch_not_stream (dflt limit : Int) (s : Payload.Src) (h : ¬ Payload.normLimit dflt limit < 0) :
    Payload.fetch dflt limit s ≠ .stream := by
  unfold Payload.fetch
  simp only [h, if_false]
  (repeat' split) <;> simp

theorem fetchFailing_not_stream (dflt limit : Int) (a : Nat) (h : ¬ Payload.normLimit dflt limit < 0) :
    Payload.fetchFailing dflt limit a ≠ .stream := by
  unfold Payload.fetchFailing
  simp only [h, if_false]
  split <;> simp

/-- The backend is *honest*: a declared length is the number of bytes it sends. -/
def HonestReply (b : BackendReply β) : Prop := 0 ≤ b.cl → b.cl.toNat = ops.len b.body

/-- the same for a response inside the proxy -/
def HonestResp (r : Resp β) : Prop := 0 ≤ r.cl → r.cl.toNat = ops.len r.payload.content

/-- What the transport hands over is coherent (ContentLength field = Content-Length header) whenever the
backend's reply is — also after its transparent gunzip, which drops both. -/
theorem transportReply_coherent (method : String) (outHdr : Hdr) (b : BackendReply β)
    (hb : Coherent (⟨b.status, b.hdr, b.cl, .stream b.body⟩ : Resp β)) :
    Coherent (transportReply ops method outHdr b) := by
  have hg : ∀ pl : Pl β, Coherent (⟨b.status, (b.hdr.del keyCE).del keyCL, -1, pl⟩ : Resp β) := by
    intro pl
    constructor
    · intro _; exact Hdr.get_del_same _ _
    · intro h; simp at h
  unfold transportReply
  split
  · exact hb
  · split
    · split
      · exact hg _
      · exact hg _
    · exact hb

/-- … and honest whenever the backend is (for a non-HEAD request; after the gunzip no length is declared). -/
theorem transportReply_honest (method : String) (outHdr : Hdr) (b : BackendReply β)
    (hm : (method == "HEAD") = false) (hb : HonestReply ops b) :
    HonestResp ops (transportReply ops method outHdr b) := by
  unfold transportReply HonestResp
  simp only [hm, Bool.false_eq_true, if_false]
  split
  · split <;> (intro h; simp at h)
  · exact hb

/-- A coherent, honest response is well-framed (as a stream or buffered). -/
theorem wellFramed_of_coherent_honest (r : Resp β) (hc : Coherent r) (hh : HonestResp ops r) : WellFramed ops r := by
  by_cases h : 0 ≤ r.cl
  · right; rw [hc.2 h, hh h]
  · left; exact hc.1 (by omega)

theorem proxyCompress_honest (minLength : Nat) (reqHdr : Hdr) (r : Resp β) (h : HonestResp ops r) :
    HonestResp ops (proxyCompress ops minLength reqHdr r) := by
  unfold proxyCompress
  split
  · exact h
  · split
    · exact h
    · split
      · exact h
      · intro hc; simp at hc

theorem compressed_coherent (cfg : Cfg) (outHdr : Hdr) (r : Resp β) (h : Coherent r) :
    Coherent (compressed ops cfg outHdr r) := by
  unfold compressed
  cases cfg.compression with
  | none => exact h
  | some ml => exact proxyCompress_coherent ops ml outHdr r h

theorem compressed_honest (cfg : Cfg) (outHdr : Hdr) (r : Resp β) (h : HonestResp ops r) :
    HonestResp ops (compressed ops cfg outHdr r) := by
  unfold compressed
  cases cfg.compression with
  | none => exact h
  | some ml => exact proxyCompress_honest ops ml outHdr r h

/-- In buffered mode whatever `fetchOrFail` returns came out of `FetchPayload`: a failing body reader is an
error there. -/
theorem fetchOrFail_buffered (cfg : Cfg) (isHead fails : Bool) (r1 r2 : Resp β)
    (hnn : ¬ Payload.normLimit cfg.dflt (Payload.effLimit cfg.poolMax cfg.proxyMax) < 0)
    (h : fetchOrFail ops cfg isHead fails r1 = some r2) :
    fetchPayload ops cfg.dflt (Payload.effLimit cfg.poolMax cfg.proxyMax) isHead r1 = some r2 := by
  unfold fetchOrFail at h
  split at h
  · exfalso
    generalize hff : Payload.fetchFailing cfg.dflt (Payload.effLimit cfg.poolMax cfg.proxyMax) _ = o at h
    cases o with
    | stream => exact fetchFailing_not_stream _ _ _ hnn hff
    | ok n => cases h
    | tooLarge => cases h
    | shortRead => cases h
  · exact h

/-- In stream mode `fetchOrFail` hands `r1` on as a stream, status and header untouched — whether or not its
reader is going to fail. -/
theorem fetchOrFail_stream (cfg : Cfg) (isHead fails : Bool) (r1 : Resp β)
    (hs : Payload.normLimit cfg.dflt (Payload.effLimit cfg.poolMax cfg.proxyMax) < 0) :
    fetchOrFail ops cfg isHead fails r1 = some { r1 with payload := .stream r1.payload.content } := by
  unfold fetchOrFail
  split
  · simp [Payload.fetchFailing, hs]
  · simp [fetchPayload, Payload.fetchResp, hs]

/-- Anatomy of a proxied result of `run`: the request `prepare` built, and either the Proxy failed (500, nothing
of the backend's answer is handed on) or its response went through the downstream adaptors. -/
theorem run_proxied (canon : String → String) (cfg : Cfg) (q : ClientReq β) (reply : BackendReply β)
    (seen : BackendSeen β) (cl : Resp β) (ok : Bool) (hr : run ops canon cfg q reply = .proxied seen cl ok) :
    ∃ m, prepare ops canon cfg q = .ready m seen ∧
      ((proxyResp ops cfg q.method seen.hdr reply = none ∧ cl = failureResp ops 500 ∧ ok = false) ∨
       ∃ r2, proxyResp ops cfg q.method seen.hdr reply = some r2 ∧ cl = adaptorChain ops (downstream cfg) r2 ∧ ok = true) := by
  unfold run at hr
  cases hp : prepare ops canon cfg q with
  | early st => rw [hp] at hr; cases hr
  | adaptorFailed => rw [hp] at hr; cases hr
  | ready m s =>
    rw [hp] at hr
    simp only [] at hr
    cases hpr : proxyResp ops cfg q.method s.hdr reply with
    | none =>
      rw [hpr] at hr
      simp only [Result.proxied.injEq] at hr
      obtain ⟨h1, h2, h3⟩ := hr
      subst h1
      exact ⟨m, rfl, Or.inl ⟨hpr, h2.symm, h3.symm⟩⟩
    | some r2 =>
      rw [hpr] at hr
      simp only [Result.proxied.injEq] at hr
      obtain ⟨h1, h2, h3⟩ := hr
      subst h1
      exact ⟨m, rfl, Or.inr ⟨r2, hpr, h2.symm, h3.symm⟩⟩

theorem downstream_no_CL (cfg : Cfg) (had : ∀ a, cfg.respAd = some a → keyCL ∉ a.hkeys) :
    ∀ a ∈ downstream cfg, keyCL ∉ a.hkeys := by
  intro a ha
  unfold downstream at ha
  cases hra : cfg.respAd with
  | none => rw [hra] at ha; simp at ha
  | some a' => rw [hra] at ha; simp at ha; rw [ha]; exact had a' hra

theorem failureResp_wellFramed (code : Nat) : WellFramed ops (failureResp ops code) := Or.inl rfl

/-- **End to end, buffered mode, every adaptor combination** (response limit in force ≥ 0): for every client
request, every RequestAdaptor, every `compression:` setting, every limit at the four levels, every ResponseAdaptor
whose header section does not name Content-Length, and every coherent backend reply — honest or not — to a
non-HEAD request: whatever reaches the client (the proxied response or the Proxy's own failure response) is
well-framed. -/
theorem e2e_response_well_framed (canon : String → String) (cfg : Cfg) (q : ClientReq β) (reply : BackendReply β)
    (htake : ∀ n b, n ≤ ops.len b → ops.len (ops.take n b) = n)
    (hbuf : 0 ≤ Payload.normLimit cfg.dflt (Payload.effLimit cfg.poolMax cfg.proxyMax))
    (hhead : (q.method == "HEAD") = false)
    (had : ∀ a, cfg.respAd = some a → keyCL ∉ a.hkeys)
    (hb : Coherent (⟨reply.status, reply.hdr, reply.cl, .stream reply.body⟩ : Resp β))
    (seen : BackendSeen β) (cl : Resp β) (ok : Bool)
    (hr : run ops canon cfg q reply = .proxied seen cl ok) : WellFramed ops cl := by
  obtain ⟨m, _, h | ⟨r2, hpr, hcl, _⟩⟩ := run_proxied ops canon cfg q reply seen cl ok hr
  · rw [h.2.1]; exact failureResp_wellFramed ops 500
  · rw [hcl]
    apply pipeline_of_transformations_well_framed ops _ (downstream_no_CL cfg had)
    have hnn : ¬ Payload.normLimit cfg.dflt (Payload.effLimit cfg.poolMax cfg.proxyMax) < 0 := by omega
    unfold proxyResp at hpr
    have hf := fetchOrFail_buffered ops cfg _ _ _ r2 hnn hpr
    rw [hhead] at hf
    have hc1 := compressed_coherent ops cfg seen.hdr _ (transportReply_coherent ops q.method seen.hdr reply hb)
    have hstream : r2.payload.isStream = false := by
      have hf' := hf
      unfold fetchPayload Payload.fetchResp at hf'
      simp only [hnn, if_false, Bool.false_eq_true] at hf'
      generalize hfe : Payload.fetch cfg.dflt (Payload.effLimit cfg.poolMax cfg.proxyMax) _ = o at hf'
      cases o with
      | stream => exact absurd hfe (fetch_not_stream _ _ _ hnn)
      | ok n => cases hf'; rfl
      | tooLarge => cases hf'
      | shortRead => cases hf'
    exact framing_established_by_fetch ops _ _ _ r2 htake hc1 hf hstream

/-- **End to end, stream mode** (response limit in force < 0: nothing is buffered, the body reader itself is
handed on), for an **honest** backend (a declared length is the number of bytes sent): the response the client
is sent is well-framed — through the transparent gunzip, the Proxy's compression and every ResponseAdaptor
not naming Content-Length. (A dishonest backend: see `clientAborted` / C07 `stream_short_body_aborted`.) -/
theorem e2e_response_well_framed_stream (canon : String → String) (cfg : Cfg) (q : ClientReq β) (reply : BackendReply β)
    (hs : Payload.normLimit cfg.dflt (Payload.effLimit cfg.poolMax cfg.proxyMax) < 0)
    (hhead : (q.method == "HEAD") = false)
    (had : ∀ a, cfg.respAd = some a → keyCL ∉ a.hkeys)
    (hb : Coherent (⟨reply.status, reply.hdr, reply.cl, .stream reply.body⟩ : Resp β))
    (hh : HonestReply ops reply)
    (seen : BackendSeen β) (cl : Resp β) (ok : Bool)
    (hr : run ops canon cfg q reply = .proxied seen cl ok) : WellFramed ops cl := by
  obtain ⟨m, _, h | ⟨r2, hpr, hcl, _⟩⟩ := run_proxied ops canon cfg q reply seen cl ok hr
  · rw [h.2.1]; exact failureResp_wellFramed ops 500
  · rw [hcl]
    apply pipeline_of_transformations_well_framed ops _ (downstream_no_CL cfg had)
    unfold proxyResp at hpr
    rw [fetchOrFail_stream ops cfg _ _ _ hs] at hpr
    cases hpr
    exact wellFramed_of_coherent_honest ops _
      (compressed_coherent ops cfg seen.hdr _ (transportReply_coherent ops q.method seen.hdr reply hb))
      (compressed_honest ops cfg seen.hdr _ (transportReply_honest ops q.method seen.hdr reply hhead hh))


/-! #### Status and end-to-end response headers -/

theorem adaptorHandle_status (a : AdSpec) (r : Resp β) : (adaptorHandle ops a r).status = r.status := by
  obtain ⟨st, h, cl, pl⟩ := r
  cases pl <;>
  · simp only [adaptorHandle, adaptorCore, adaptorBody, adaptorCompress, adaptorDecompress]
    repeat' split
    all_goals simp_all

theorem transportReply_status_hdr (method : String) (outHdr : Hdr) (b : BackendReply β) (k : String)
    (h1 : k ≠ keyCL) (h2 : k ≠ keyCE) :
    (transportReply ops method outHdr b).status = b.status ∧ (transportReply ops method outHdr b).hdr.get k = b.hdr.get k := by
  unfold transportReply
  split
  · exact ⟨rfl, rfl⟩
  · split
    · split <;> exact ⟨rfl, by simp only []; rw [Hdr.get_del_other _ h1, Hdr.get_del_other _ h2]⟩
    · exact ⟨rfl, rfl⟩

theorem proxyCompress_status_hdr (minLength : Nat) (reqHdr : Hdr) (r : Resp β) (k : String)
    (h1 : k ≠ keyCL) (h2 : k ≠ keyCE) (h3 : k ≠ keyVary) :
    (proxyCompress ops minLength reqHdr r).status = r.status ∧ (proxyCompress ops minLength reqHdr r).hdr.get k = r.hdr.get k := by
  unfold proxyCompress
  split
  · exact ⟨rfl, rfl⟩
  · split
    · exact ⟨rfl, rfl⟩
    · split
      · exact ⟨rfl, rfl⟩
      · refine ⟨rfl, ?_⟩
        simp only []
        rw [Hdr.get_add_other _ _ h3, Hdr.get_set_other _ _ h2, Hdr.get_del_other _ h1]

theorem fetchPayload_status_hdr (dflt limit : Int) (isHead : Bool) (r r' : Resp β)
    (h : fetchPayload ops dflt limit isHead r = some r') : r'.status = r.status ∧ r'.hdr = r.hdr := by
  unfold fetchPayload at h
  split at h <;> first | (cases h; exact ⟨rfl, rfl⟩) | cases h

theorem proxyResp_status_hdr (cfg : Cfg) (method : String) (outHdr : Hdr) (reply : BackendReply β) (r2 : Resp β)
    (k : String) (h1 : k ≠ keyCL) (h2 : k ≠ keyCE) (h3 : k ≠ keyVary)
    (h : proxyResp ops cfg method outHdr reply = some r2) :
    r2.status = reply.status ∧ r2.hdr.get k = reply.hdr.get k := by
  have ht := transportReply_status_hdr ops method outHdr reply k h1 h2
  have hr1' : (compressed ops cfg outHdr (transportReply ops method outHdr reply)).status = reply.status ∧
      (compressed ops cfg outHdr (transportReply ops method outHdr reply)).hdr.get k = reply.hdr.get k := by
    unfold compressed
    cases cfg.compression with
    | none => exact ht
    | some ml =>
      have hc := proxyCompress_status_hdr ops ml outHdr (transportReply ops method outHdr reply) k h1 h2 h3
      exact ⟨hc.1.trans ht.1, hc.2.trans ht.2⟩
  unfold proxyResp fetchOrFail at h
  generalize compressed ops cfg outHdr (transportReply ops method outHdr reply) = r1 at h hr1'
  split at h
  · generalize Payload.fetchFailing cfg.dflt (Payload.effLimit cfg.poolMax cfg.proxyMax) _ = o at h
    cases o with
    | stream => cases h; exact hr1'
    | ok n => cases h
    | tooLarge => cases h
    | shortRead => cases h
  · obtain ⟨hs, hh⟩ := fetchPayload_status_hdr ops _ _ _ _ r2 h
    rw [hs, hh]; exact hr1'

/-- **The client receives the backend's status and end-to-end headers**: whenever the Proxy succeeds, in buffered
or stream mode, with or without `compression:` / transparent gunzip / a ResponseAdaptor, the response leaving the
pipeline has the backend's status code, and every header the backend sent — values, order, repeated lines —
except the framing / encoding headers the proxy itself manages (`Content-Length`, `Content-Encoding`, `Vary`) and
the keys a configured ResponseAdaptor `header:` section names. -/
theorem run_status_headers (canon : String → String) (cfg : Cfg) (q : ClientReq β) (reply : BackendReply β)
    (seen : BackendSeen β) (cl : Resp β)
    (hr : run ops canon cfg q reply = .proxied seen cl true) :
    cl.status = reply.status ∧
    ∀ k, k ≠ keyCL → k ≠ keyCE → k ≠ keyVary → (∀ a, cfg.respAd = some a → k ∉ a.hkeys) →
      cl.hdr.get k = reply.hdr.get k := by
  obtain ⟨m, _, h | ⟨r2, hpr, hcl, _⟩⟩ := run_proxied ops canon cfg q reply seen cl true hr
  · exact absurd h.2.2 (by decide)
  · subst hcl
    unfold downstream adaptorChain
    cases hra : cfg.respAd with
    | none =>
      simp only [List.foldl_nil]
      exact ⟨(proxyResp_status_hdr ops cfg q.method seen.hdr reply r2 "X" (by decide) (by decide) (by decide) hpr).1,
        fun k h1 h2 h3 _ => (proxyResp_status_hdr ops cfg q.method seen.hdr reply r2 k h1 h2 h3 hpr).2⟩
    | some a =>
      simp only [List.foldl_cons, List.foldl_nil]
      refine ⟨?_, ?_⟩
      · rw [adaptorHandle_status]
        exact (proxyResp_status_hdr ops cfg q.method seen.hdr reply r2 "X" (by decide) (by decide) (by decide) hpr).1
      · intro k h1 h2 h3 hk
        rw [respAdapt_header_other ops a r2 k (hk a rfl) h1 h2]
        exact (proxyResp_status_hdr ops cfg q.method seen.hdr reply r2 k h1 h2 h3 hpr).2


/-! #### The request the backend sees is `prepareRequest`'s; `targetURL` at `List Char` level -/

/-- `targetURL` on characters: server URL, escaped path, then `?` + raw query when there is one — the shape
`url_preserved` is stated for. -/
theorem targetURL_toList (u ep rq : String) :
    (targetURL u ep rq).toList = u.toList ++ (ep.toList ++ (if rq.toList = [] then [] else '?' :: rq.toList)) := by
  unfold targetURL
  by_cases h : rq = ""
  · subst h; simp
  · have h1 : (rq == "") = false := by simpa using h
    have h2 : rq.toList ≠ [] := by
      intro hl; apply h; exact String.ext (by simpa using hl)
    simp [h1, h2, String.toList_append, List.append_assoc]

/-- `url_preserved` for the `String`-level URL the model and the judge use: what follows the server URL in
`targetURL` splits back (net/url: fragment at `#`, query at `?`) into exactly the escaped path and raw query. -/
theorem targetURL_preserved (u ep rq : String) (h1 : '?' ∉ ep.toList) (h2 : '#' ∉ ep.toList) (h3 : '#' ∉ rq.toList) :
    ∃ rest, (targetURL u ep rq).toList = u.toList ++ rest ∧ splitTarget rest = (ep.toList, rq.toList) :=
  ⟨_, targetURL_toList u ep rq, url_preserved ep.toList rq.toList h1 h2 h3⟩

/-- **What `run` says the backend sees is `prepareRequest`'s output** (the function tied to pool.go by
`prepare_regenerated_from_source`) applied to the request as the RequestAdaptor left it: method, URL, header,
body, and the Host the transport puts on the wire. -/
theorem prepare_seen_eq_prepareRequest (canon : String → String) (cfg : Cfg) (q : ClientReq β)
    (m : ReqMsg β) (seen : BackendSeen β) (stub : β) (h : prepare ops canon cfg q = .ready m seen) :
    let l : ReqLine := match cfg.reqAd with
      | none => ⟨q.method, q.path, q.escapedPath, q.host⟩
      | some _ => adaptReqLine cfg.σ cfg.esc cfg.reqLine ⟨q.method, q.path, q.escapedPath, q.host⟩
    let o := prepareRequest canon hopHeaders cfg.server false stub
      ⟨l.method, l.escapedPath, q.rawQuery, l.host, m.hdr, m.payload.content, m.payload.isStream⟩
    seen.method = o.method ∧ seen.url = o.url ∧ seen.hdr = o.hdr ∧ o.payload = some seen.body ∧
    seen.streamed = m.payload.isStream ∧ (l.host ≠ "" → seen.host = o.wireHost cfg.server) := by
  unfold prepare at h
  dsimp only at h
  split at h
  · cases h
  · split at h
    · cases h
    · rename_i m' hm
      simp only [Prepared.ready.injEq] at h
      obtain ⟨h1, h2⟩ := h
      subst h1; subst h2
      refine ⟨rfl, rfl, rfl, by simp [prepareRequest], rfl, ?_⟩
      intro hl
      simp only [OutReq.wireHost, prepareRequest, hostSent]
      by_cases hh : (!cfg.server.addrIsHostName || cfg.server.keepHost) = true
      · simp only [hh, if_true]
        have : ((match cfg.reqAd with
            | none => (⟨q.method, q.path, q.escapedPath, q.host⟩ : ReqLine)
            | some _ => adaptReqLine cfg.σ cfg.esc cfg.reqLine ⟨q.method, q.path, q.escapedPath, q.host⟩).host == "") = false := by
          simpa using hl
        rw [this]; rfl
      · simp [hh]


/-! #### Content: bit-exact after undoing the labelled encoding, through the whole of `run` -/

theorem fetch_ok_len (dflt limit : Int) (d : Int) (a n : Nat) (hh : 0 ≤ d → d.toNat = a)
    (h : Payload.fetch dflt limit ⟨d, a⟩ = .ok n) : n = a := by
  unfold Payload.fetch at h
  simp only [] at h
  split at h
  · cases h
  · split at h
    · cases h
    · split at h
      · split at h
        · cases h; exact hh (by omega)
        · cases h
      · split at h
        · cases h
          rename_i hz
          have : d = 0 := by simpa using hz
          have := hh (by omega)
          omega
        · split at h
          · cases h; omega
          · split at h
            · cases h
            · cases h; omega

/-- `FetchPayload` on an honest response keeps every body byte (buffered: exactly the declared / delivered
bytes are taken; stream: the reader itself). `take` law: taking all bytes is the identity. -/
theorem fetchPayload_content (dflt limit : Int) (r r' : Resp β)
    (htakeAll : ∀ b, ops.take (ops.len b) b = b) (hh : HonestResp ops r)
    (h : fetchPayload ops dflt limit false r = some r') :
    r'.payload.content = r.payload.content ∧ r'.hdr = r.hdr := by
  unfold fetchPayload at h
  generalize hf : Payload.fetchResp dflt limit false ⟨r.cl, ops.len r.payload.content⟩ = o at h
  cases o with
  | stream => cases h; exact ⟨rfl, rfl⟩
  | ok n =>
    cases h
    have hn : n = ops.len r.payload.content := by
      unfold Payload.fetchResp at hf
      simp only [Bool.false_eq_true, if_false] at hf
      split at hf
      · cases hf
      · exact fetch_ok_len dflt limit r.cl _ n hh hf
    refine ⟨?_, rfl⟩
    show ops.take n r.payload.content = r.payload.content
    rw [hn]; exact htakeAll _
  | tooLarge => cases h
  | shortRead => cases h

/-- The transparent gunzip of the transport undoes exactly the label it removes. -/
theorem transportReply_decoded (method : String) (outHdr : Hdr) (b : BackendReply β) (c : β)
    (hm : (method == "HEAD") = false)
    (hd : decoded ops (⟨b.status, b.hdr, b.cl, .stream b.body⟩ : Resp β) = some c) :
    decoded ops (transportReply ops method outHdr b) = some c := by
  unfold transportReply
  simp only [hm, Bool.false_eq_true, if_false]
  split
  · rename_i hg
    have hce : ((b.hdr.get keyCE).head? == some "gzip") = true := by
      unfold gunzipApplies at hg
      simp only [Bool.and_eq_true] at hg
      exact hg.2
    unfold decoded at hd
    simp only [hce, if_true, Pl.content] at hd
    rw [hd]
    unfold decoded
    simp only [Pl.content]
    rw [Hdr.get_del_other _ ne_CE_CL, Hdr.get_del_same]
    simp
  · exact hd

theorem compressed_decoded (hgz : ∀ b, ops.ungz (ops.gz b) = some b) (cfg : Cfg) (outHdr : Hdr) (r : Resp β) (c : β)
    (h : decoded ops r = some c) : decoded ops (compressed ops cfg outHdr r) = some c := by
  unfold compressed
  cases cfg.compression with
  | none => exact h
  | some ml => exact content_roundtrip_proxyCompress ops hgz ml outHdr r c h

/-- **content_roundtrip over `run`**: for an honest backend reply to a non-HEAD request, buffered or stream
mode, with or without the transport's transparent gunzip, the Proxy's `compression:` and a body-less
ResponseAdaptor (compress / decompress / header section not naming Content-Encoding): once the client undoes the
Content-Encoding the response is labelled with, it holds exactly the content the backend's reply carried under
*its* label — through `FetchPayload` (`take`) as well. -/
theorem run_content_roundtrip (hgz : ∀ b, ops.ungz (ops.gz b) = some b) (htakeAll : ∀ b, ops.take (ops.len b) b = b)
    (canon : String → String) (cfg : Cfg) (q : ClientReq β) (reply : BackendReply β) (c : β)
    (hhead : (q.method == "HEAD") = false) (hh : HonestReply ops reply)
    (had : ∀ a, cfg.respAd = some a → a.body = "" ∧ keyCE ∉ a.hkeys)
    (hd : decoded ops (⟨reply.status, reply.hdr, reply.cl, .stream reply.body⟩ : Resp β) = some c)
    (seen : BackendSeen β) (cl : Resp β)
    (hr : run ops canon cfg q reply = .proxied seen cl true) : decoded ops cl = some c := by
  obtain ⟨m, _, h | ⟨r2, hpr, hcl, _⟩⟩ := run_proxied ops canon cfg q reply seen cl true hr
  · exact absurd h.2.2 (by decide)
  · subst hcl
    have hds : ∀ a ∈ downstream cfg, a.body = "" ∧ keyCE ∉ a.hkeys := by
      intro a ha
      unfold downstream at ha
      cases hra : cfg.respAd with
      | none => rw [hra] at ha; simp at ha
      | some a' => rw [hra] at ha; simp at ha; rw [ha]; exact had a' hra
    have h1 := compressed_decoded ops hgz cfg seen.hdr _ c (transportReply_decoded ops q.method seen.hdr reply c hhead hd)
    have hh1 := compressed_honest ops cfg seen.hdr _ (transportReply_honest ops q.method seen.hdr reply hhead hh)
    have h2 : decoded ops r2 = some c := by
      unfold proxyResp fetchOrFail at hpr
      generalize compressed ops cfg seen.hdr (transportReply ops q.method seen.hdr reply) = r1 at hpr h1 hh1
      rw [hhead] at hpr
      split at hpr
      · generalize Payload.fetchFailing cfg.dflt (Payload.effLimit cfg.poolMax cfg.proxyMax) _ = o at hpr
        cases o with
        | stream => cases hpr; exact h1
        | ok n => cases hpr
        | tooLarge => cases hpr
        | shortRead => cases hpr
      · obtain ⟨hc, hhd⟩ := fetchPayload_content ops _ _ r1 r2 htakeAll hh1 hpr
        unfold decoded at h1 ⊢
        rw [hc, hhd]; exact h1
    exact content_roundtrip ops hgz none seen.hdr (downstream cfg) hds r2 c h2


end e2e
/-! ### Non-vacuity and the witnesses against the unrepaired code -/

/-- A concrete body algebra: bodies are byte lists, "gzip" prepends a marker byte. -/
def exOps : BodyOps (List Nat) :=
  { len := List.length, gz := fun b => 31 :: b,
    ungz := fun b => match b with | 31 :: t => some t | _ => none,
    ofStr := fun s => s.toList.map Char.toNat, take := List.take, empty := [] }

example : ∀ b, exOps.ungz (exOps.gz b) = some b := fun _ => rfl
example : ∀ n b, n ≤ exOps.len b → exOps.len (exOps.take n b) = n := by
  intro n b h; simp [exOps] at *; omega

private def exResp : Resp (List Nat) :=
  ⟨200, [("Content-Length", ["3"]), ("X-B", ["b"])], 3, .bytes [1, 2, 3]⟩

example : WellFramed exOps exResp := by right; decide
example : Coherent exResp := by constructor <;> decide

/-- Defect (i), unrepaired `ResponseAdaptor` `body:`: backend declared 3 bytes, the adaptor
writes 5 — not well-framed; the repaired function declares 5. -/
example : wellFramedB exOps (adaptorBodyOld exOps "hello" exResp) = false ∧
    wellFramedB exOps (adaptorBody exOps "hello" exResp) = true := by decide

/-- Defect (iii), unrepaired `compress`: the stale `ContentLength` (3) makes `FetchPayload`
read 3 of the 4 compressed bytes; repaired, it reads the whole stream. -/
example :
    (fetchPayload exOps 4194304 0 false (proxyCompressOld exOps 0 [] exResp)).map (·.payload) = some (.bytes [31, 1, 2]) ∧
    (fetchPayload exOps 4194304 0 false (proxyCompress exOps 0 [] exResp)).map (·.payload) = some (.bytes [31, 1, 2, 3]) := by
  decide

/-- Hop-by-hop example: `Connection: close, X-Foo` removes `X-Foo`, `Keep-Alive` goes, `X-A` stays. -/
example : cloneHeader id hopHeaders
    [("X-A", ["1"]), ("Connection", ["close, X-Foo"]), ("X-Foo", ["bar"]), ("Keep-Alive", ["3"]), ("X-A", ["2"])]
    = [("X-A", ["1"]), ("X-A", ["2"])] := by decide

example : addrIsHostName (fun s => s == "::1".toList) "[::1]:8080".toList = false ∧
    addrIsHostName (fun _ => false) "example.com:80".toList = true := by decide

/-- Memory cache, three identical cacheable GETs followed by a `compress: gzip` adaptor. With the
copy (`alias = false`, the code) all three responses are well-framed and equal; if a hit handed
out the entry's own header map (`alias = true`, the seeded defect C03-m3) the adaptor's edits of
hit #1 would stay in the entry and hit #2 would declare the gzip length over the plain body. -/
private def exCacheCfg : CacheCfg := ⟨[200], ["GET"], 100⟩
private def exQ : PoolReq (List Nat) := ⟨"httpa/GET", "GET", [], some exResp, ⟨500, [], -1, .bytes []⟩⟩

example : storable exOps exCacheCfg exQ.method exQ.hdr exResp = true := by decide

example :
    (runHistory exOps exCacheCfg false [{ compress := true }] [] [exQ, exQ, exQ]).map (wellFramedB exOps) = [true, true, true] ∧
    (runHistory exOps exCacheCfg true [{ compress := true }] [] [exQ, exQ, exQ]).map (wellFramedB exOps) = [true, true, false] ∧
    ((runHistory exOps exCacheCfg true [{ hadd := [("X-Added", "1")] }] [] [exQ, exQ, exQ]).map (·.hdr.get "X-Added"))
      = [["1"], ["1"], ["1", "1"]] := by decide

/-- non-vacuity: an interleaved history (two keys, a no-cache request, a failing backend) — all responses
well-framed, the cache's entries are snapshots. -/
example :
    let q1 : PoolReq (List Nat) := ⟨"k1", "GET", [], some ⟨200, [("Content-Length", ["3"])], 3, .bytes [1, 2, 3]⟩, ⟨500, [], -1, .bytes []⟩⟩
    let q2 : PoolReq (List Nat) := ⟨"k2", "GET", [], some ⟨200, [("Content-Length", ["1"])], 1, .bytes [9]⟩, ⟨500, [], -1, .bytes []⟩⟩
    let q3 : PoolReq (List Nat) := ⟨"k1", "GET", [("Cache-Control", ["no-cache"])], none, ⟨500, [], -1, .bytes []⟩⟩
    (runHistory exOps ⟨[200], ["GET"], 100⟩ false [{ compress := true }] [] [q1, q2, q1, q3, q2, q1]).map (wellFramedB exOps)
      = [true, true, true, true, true, true] := by decide


/-! non-vacuity for the end-to-end theorems: a concrete configuration (compression on, a ResponseAdaptor that
adds a header, IP server) and a coherent, honest backend reply meet every hypothesis of
`e2e_response_well_framed` (buffered) / `e2e_response_well_framed_stream` / `run_status_headers` /
`run_content_roundtrip`, and `run` really is a successful `.proxied` there. -/
private def exCfgE (poolMax : Int) : Cfg :=
  { server := ⟨"http://127.0.0.1:9", "127.0.0.1:9", false, false⟩, compression := some 0, pathMax := 0, serverMax := 0,
    poolMax := poolMax, proxyMax := 0, reqAd := none, respAd := some { hadd := [("X-Added", "1")] }, dflt := 4194304 }
private def exQE : ClientReq (List Nat) :=
  { method := "GET", escapedPath := "/a", rawQuery := "x=1", host := "client.example", hdr := [("Accept-Encoding", ["gzip"])],
    declared := 0, body := [] }
private def exReplyE : BackendReply (List Nat) := ⟨200, [("Content-Length", ["3"]), ("X-B", ["b"])], 3, [1, 2, 3]⟩

example : Coherent (⟨exReplyE.status, exReplyE.hdr, exReplyE.cl, .stream exReplyE.body⟩ : Resp (List Nat)) ∧
    HonestReply exOps exReplyE ∧ (∀ b : List Nat, exOps.take (exOps.len b) b = b) ∧
    0 ≤ Payload.normLimit (exCfgE 0).dflt (Payload.effLimit (exCfgE 0).poolMax (exCfgE 0).proxyMax) ∧
    Payload.normLimit (exCfgE (-1)).dflt (Payload.effLimit (exCfgE (-1)).poolMax (exCfgE (-1)).proxyMax) < 0 := by
  refine ⟨⟨by decide, by decide⟩, by intro _; decide, ?_, by decide, by decide⟩
  intro b; simp [exOps]

example : (match run exOps id (exCfgE 0) exQE exReplyE with
      | .proxied seen cl ok => (ok, seen.url, cl.status, wellFramedB exOps cl, cl.hdr.get "X-B", cl.hdr.get "X-Added", decoded exOps cl)
      | _ => (false, "", 0, false, [], [], none))
    = (true, "http://127.0.0.1:9/a?x=1", 200, true, ["b"], ["1"], some [1, 2, 3]) ∧
    (match run exOps id (exCfgE (-1)) exQE exReplyE with
      | .proxied _ cl ok => (ok, cl.status, cl.payload.isStream, wellFramedB exOps cl, decoded exOps cl)
      | _ => (false, 0, false, false, none))
    = (true, 200, true, true, some [1, 2, 3]) := ⟨by rfl, by rfl⟩


/-! ### HEAD and the RequestAdaptor `method:` section (open known finding `C03-head-method-adapted`)

Full statement (fails): *a client that sent HEAD is never sent body bytes*, i.e.
`q.method = "HEAD" → bodyOnWire ops (adaptReqLine σ esc a q).method r = 0` for every adaptor `a`. -/

/-- … proved when the adaptor leaves the method alone (or sets HEAD): net/http still knows the request was HEAD. -/
theorem head_response_bodyless_partial {β : Type} (ops : BodyOps β) (σ : Nat → String → String → String)
    (esc : String → String) (a : ReqLineAd) (q : ReqLine) (r : Resp β)
    (hq : q.method = "HEAD") (ha : a.method = "" ∨ a.method = "HEAD") :
    bodyOnWire ops (adaptReqLine σ esc a q).method r = 0 := by
  have hm : (adaptReqLine σ esc a q).method = "HEAD" := by
    rw [(adaptReqLine_method_host σ esc a q).1]
    rcases ha with ha | ha <;> simp [ha, hq]
  simp [bodyOnWire, hm]

/-- The excluded case is a genuine defect (reproduced over loopback, replay in corpus/C03/e2e.jsonl): `method: GET`
on a HEAD request makes `SetMethod` rewrite the very `*http.Request` net/http decides from, and the backend's 3 body
bytes go out to a client that expects none. -/
example : bodyOnWire exOps (adaptReqLine (fun _ p _ => p) id { method := "GET" } ⟨"HEAD", "/a", "/a", "h"⟩).method exResp = 3 := by
  decide


/-! ### Overlapping compressed responses: no gzip writer is ever shared -/

/-- Invariant of the code's reader lifecycle: every writer handed out so far is below `nextWriter`, and no two
readers have the same one. -/
theorem gz_inv (ops : List GzOp) (s : GzState) (hlt : ∀ w ∈ s.writers, w < s.nextWriter) (hnd : s.writers.Nodup) :
    (∀ w ∈ (ops.foldl (gzStep false) s).writers, w < (ops.foldl (gzStep false) s).nextWriter) ∧
    (ops.foldl (gzStep false) s).writers.Nodup := by
  induction ops generalizing s with
  | nil => exact ⟨hlt, hnd⟩
  | cons o t ih =>
    simp only [List.foldl_cons]
    cases o with
    | close rid => exact ih s hlt hnd
    | new =>
      apply ih
      · intro w hw
        simp only [gzStep, Bool.false_eq_true, if_false, List.mem_append, List.mem_singleton] at hw ⊢
        rcases hw with hw | hw
        · have := hlt w hw; omega
        · omega
      · simp only [gzStep, Bool.false_eq_true, if_false]
        rw [List.nodup_append]
        refine ⟨hnd, by simp, ?_⟩
        intro a ha b hb
        simp only [List.mem_singleton] at hb
        have := hlt a ha
        omega

/-- **No gzip writer is shared between two compress readers** — for every history of reader creations and `Close`
calls: any number of readers alive at the same time, every reader closed any number of times (the proxy closes each
compressed body at least twice), in any interleaving. So what one response's compressor writes can never end up in
another response. -/
theorem gzip_writers_never_shared (ops : List GzOp) (i j : Nat) (w : Nat)
    (hi : (gzRun false ops).writers[i]? = some w) (hj : (gzRun false ops).writers[j]? = some w) : i = j := by
  have h := (gz_inv ops {} (by intro w hw; simp at hw) (by simp)).2
  unfold gzRun at hi hj
  generalize (ops.foldl (gzStep false) {}).writers = l at h hi hj
  have hi' := List.getElem?_eq_some_iff.mp hi
  have hj' := List.getElem?_eq_some_iff.mp hj
  obtain ⟨hil, hiv⟩ := hi'
  obtain ⟨hjl, hjv⟩ := hj'
  exact (List.getElem_inj h).mp (hiv.trans hjv.symm)

/-- Facts that make `pooled = false` the right instance: `NewGZipCompressReader` allocates its own buffer and its own
`gzip.NewWriter(buff)`, the file has no package-level state besides `bodyFlushSize`, and `Close` mentions neither the
writer nor the buffer (so calling it twice is harmless). -/
theorem gzip_reader_facts :
    Gen.FactsC03.gzipWriterOwned = true ∧ Gen.FactsC03.gzipNoPackageState = true ∧
    Gen.FactsC03.gzipCloseStateless = true := ⟨rfl, rfl, rfl⟩

/-- The seeded defect C03-m5 in the model: one completed response closed twice puts its writer into the pool
twice, and the next two overlapping responses (readers 1 and 2) get the same writer. -/
example : (gzRun true [.new, .close 0, .close 0, .new, .new]).writers = [0, 0, 0] ∧
    (gzRun false [.new, .close 0, .close 0, .new, .new]).writers = [0, 1, 2] := by decide


/-! ### The judges' executable specifications accept the model (`observed = model ∧ model ⊨ spec ⇒ observed ⊨ spec`) -/

section accept
variable {β : Type} (ops : BodyOps β)

/-! header algebra: every operation acts key-wise -/

theorem hdr_get_del_eq (h : Hdr) (k k' : String) : Hdr.get (Hdr.del h k') k = if k = k' then [] else Hdr.get h k := by
  by_cases hk : k = k'
  · subst hk; simp [Hdr.get_del_same]
  · simp [hk, Hdr.get_del_other h hk]

theorem hdr_get_set_eq (h : Hdr) (k k' v : String) : Hdr.get (Hdr.set h k' v) k = if k = k' then [v] else Hdr.get h k := by
  by_cases hk : k = k'
  · subst hk; simp [Hdr.get_set_same]
  · simp [hk, Hdr.get_set_other h v hk]

theorem hdr_get_add_eq (h : Hdr) (k k' v : String) :
    Hdr.get (Hdr.add h k' v) k = Hdr.get h k ++ (if k = k' then [v] else []) := by
  unfold Hdr.add
  rw [Hdr.get_append]
  by_cases hk : k = k'
  · subst hk; simp [Hdr.get]
  · have : (k' == k) = false := by simp; exact fun h => hk h.symm
    simp [hk, Hdr.get, this]

/-- `adaptHeader` acts key-wise: what it leaves under `k` depends only on what was under `k`. -/
theorem get_adaptHeader_congr (a : AdSpec) (h1 h2 : Hdr) (k : String) (h : h1.get k = h2.get k) :
    (adaptHeader a h1).get k = (adaptHeader a h2).get k := by
  unfold adaptHeader
  simp only []
  have hdel : ∀ (ks : List String) (x y : Hdr), x.get k = y.get k → (x.delAll ks).get k = (y.delAll ks).get k := by
    intro ks x y hxy; rw [Hdr.get_delAll, Hdr.get_delAll, hxy]
  have hset : ∀ (kvs : List (String × String)) (x y : Hdr), x.get k = y.get k →
      (kvs.foldl (fun h kv => h.set kv.1 kv.2) x).get k = (kvs.foldl (fun h kv => h.set kv.1 kv.2) y).get k := by
    intro kvs
    induction kvs with
    | nil => intro x y hxy; exact hxy
    | cons kv t ih => intro x y hxy; simp only [List.foldl_cons]; apply ih; rw [hdr_get_set_eq, hdr_get_set_eq, hxy]
  have hadd : ∀ (kvs : List (String × String)) (x y : Hdr), x.get k = y.get k →
      (kvs.foldl (fun h kv => h.add kv.1 kv.2) x).get k = (kvs.foldl (fun h kv => h.add kv.1 kv.2) y).get k := by
    intro kvs
    induction kvs with
    | nil => intro x y hxy; exact hxy
    | cons kv t ih => intro x y hxy; simp only [List.foldl_cons]; apply ih; rw [hdr_get_add_eq, hdr_get_add_eq, hxy]
  exact hadd _ _ _ (hset _ _ _ (hdel _ _ _ h))

theorem adaptorCore_hdr_other (a : AdSpec) (r : Resp β) (k : String) (h1 : k ≠ keyCL) (h2 : k ≠ keyCE) :
    (adaptorCore ops a r).hdr.get k = r.hdr.get k := by
  obtain ⟨st, h, cl, pl⟩ := r
  cases pl <;>
  · simp only [adaptorCore, adaptorBody, adaptorCompress, adaptorDecompress]
    repeat' split
    all_goals simp_all [Hdr.get_set_other, Hdr.get_del_other]

/-- **`e2e` / `unit` request side.** What `run` shows the backend meets `Spec.reqSideOK` against the request as the
RequestAdaptor left it: method, URL, Host (`expectedHost`) and the header specification (`headerViolation`, with any
list of skipped framing keys). Hypotheses the judge relies on, explicit: `canon` fixes the canonical hop names, and the
scenario's "server is IP-addressed" flag is the negation of what `checkAddrPattern` computed for the server URL. -/
theorem run_meets_backendSeenOK (canon : String → String) (cfg : Cfg) (q : ClientReq β) (m : ReqMsg β)
    (seen : BackendSeen β) (skip : List String) (serverIsIP : Bool)
    (hc : ∀ k ∈ hopHeaders, canon k = k) (hip : serverIsIP = !cfg.server.addrIsHostName)
    (h : prepare ops canon cfg q = .ready m seen) :
    let l : ReqLine := match cfg.reqAd with
      | none => ⟨q.method, q.path, q.escapedPath, q.host⟩
      | some _ => adaptReqLine cfg.σ cfg.esc cfg.reqLine ⟨q.method, q.path, q.escapedPath, q.host⟩
    Spec.reqSideOK canon l.method (targetURL cfg.server.url l.escapedPath q.rawQuery) m.hdr skip serverIsIP cfg.server.keepHost
      l.host cfg.server.hostPort seen.method seen.url seen.host seen.hdr = true := by
  unfold prepare at h
  dsimp only at h
  split at h
  · cases h
  · split at h
    · cases h
    · simp only [Prepared.ready.injEq] at h
      obtain ⟨h1, h2⟩ := h
      subst h1; subst h2
      rename_i m' _
      have hv := cloneHeader_meets_spec canon m'.hdr hc skip
      cases hra : cfg.reqAd <;> simp [Spec.reqSideOK, hip, hv, hostSent, Spec.expectedHost]

/-- **`e2e` response side (and the misses of `hist`).** When the Proxy succeeds, the response leaving the pipeline meets
`Spec.clientSeenOK`: the backend's status, the backend's end-to-end header lines `H` after the configured
ResponseAdaptor header section, and correct framing. Explicit hypotheses (the generator's well-formedness): `H` is the
reply's header without the framing / encoding keys; neither `H` nor the adaptor's header section names
Content-Length / Content-Encoding / Vary; the response is well-framed (`e2e_response_well_framed` in buffered mode,
`e2e_response_well_framed_stream` for an honest backend). -/
theorem run_meets_clientSeenOK (canon : String → String) (cfg : Cfg) (q : ClientReq β) (reply : BackendReply β)
    (seen : BackendSeen β) (cl : Resp β) (H : Hdr)
    (hH : ∀ k, k ≠ keyCL → k ≠ keyCE → k ≠ keyVary → H.get k = reply.hdr.get k)
    (hE : ∀ k ∈ (match cfg.respAd with | none => H | some a => adaptHeader a H).map (fun e : String × List String => e.1),
      k ≠ keyCL ∧ k ≠ keyCE ∧ k ≠ keyVary)
    (hwf : WellFramed ops cl)
    (hr : run ops canon cfg q reply = .proxied seen cl true) :
    Spec.clientSeenOK reply.status (match cfg.respAd with | none => H | some a => adaptHeader a H)
      cl.status cl.hdr (ops.len cl.payload.content) = true := by
  obtain ⟨m, _, h | ⟨r2, hpr, hcl, _⟩⟩ := run_proxied ops canon cfg q reply seen cl true hr
  · exact absurd h.2.2 (by decide)
  · have hst := (run_status_headers ops canon cfg q reply seen cl hr).1
    have hfr : Spec.framedOKL (cl.hdr.get keyCL) (ops.len cl.payload.content) = true := by
      have := (wellFramedB_iff ops cl).mpr hwf
      simpa [Spec.framedOKL, wellFramedB] using this
    simp only [Spec.clientSeenOK, hst, beq_self_eq_true, Bool.true_and, hfr, Bool.and_true, Option.isNone_iff_eq_none]
    unfold Spec.respHeaderViolation
    rw [List.find?_eq_none]
    intro k hk
    obtain ⟨k1, k2, k3⟩ := hE k hk
    have hr2 := (proxyResp_status_hdr ops cfg q.method seen.hdr reply r2 k k1 k2 k3 hpr).2
    simp only [bne_iff_ne, ne_eq, Decidable.not_not]
    subst hcl
    unfold downstream adaptorChain
    cases hra : cfg.respAd with
    | none => simp only [List.foldl_nil]; rw [hr2, hH k k1 k2 k3]
    | some a =>
      simp only [List.foldl_cons, List.foldl_nil]
      unfold adaptorHandle
      rw [adaptorCore_hdr_other ops a _ k k1 k2]
      exact get_adaptHeader_congr a _ _ k (by rw [hr2, hH k k1 k2 k3])

/-- **`hist`.** Under the hypotheses of `cache_hits_equal_miss` every response of the history — the creating miss and
every later hit — meets `Spec.hitSameAsMiss` against the miss's response, on any set of header keys. -/
theorem hist_meets_cacheOK (cfg : CacheCfg) (as : List AdSpec) (c : Cache β) (qq : PoolReq β) (r : Resp β)
    (hmiss : cacheLoad cfg qq.key qq.method qq.hdr c = none) (hfresh : qq.fresh = some r)
    (hst : storable ops cfg qq.method qq.hdr r = true)
    (qs : List (PoolReq β)) (hsame : ∀ q' ∈ qs, q'.key = qq.key ∧ q'.method = qq.method ∧ q'.hdr = qq.hdr)
    (keys : List String) :
    ∀ resp ∈ runHistory ops cfg false as c (qq :: qs),
      Spec.hitSameAsMiss keys (adaptorChain ops as r).status (adaptorChain ops as r).hdr resp.status resp.hdr = true := by
  intro resp hr
  have hv := cache_hits_equal_miss ops cfg as c qq r hmiss hfresh hst qs hsame resp hr
  unfold Resp.view at hv
  simp only [Prod.mk.injEq] at hv
  simp [Spec.hitSameAsMiss, hv.1, hv.2.1]

/-- **`conc`.** Each of the overlapping compressed responses, taken alone in the model (no state is shared between
responses: `gzip_writers_never_shared`), meets `Spec.isolationOK`: its own backend's status, labelled `gzip`, and —
`run_content_roundtrip` — decoding to its own backend's body. Scenario class of the harness: Proxy `compression:`,
no adaptors, the client accepts gzip, the backend's reply is not labelled gzip and not shorter than `minLength`. -/
theorem conc_meets_isolationOK (canon : String → String) (cfg : Cfg) (q : ClientReq β) (reply : BackendReply β)
    (seen : BackendSeen β) (cl : Resp β) (ml : Nat)
    (hc : cfg.compression = some ml) (hra : cfg.respAd = none)
    (hdid : compressDid ml seen.hdr (transportReply ops q.method seen.hdr reply) = true)
    (hr : run ops canon cfg q reply = .proxied seen cl true) :
    Spec.isolationOK reply.status cl.status (cl.hdr.get keyCE) true = true := by
  obtain ⟨m, _, h | ⟨r2, hpr, hcl, _⟩⟩ := run_proxied ops canon cfg q reply seen cl true hr
  · exact absurd h.2.2 (by decide)
  · have hst := (run_status_headers ops canon cfg q reply seen cl hr).1
    have hd : downstream cfg = [] := by simp [downstream, hra]
    subst hcl
    simp only [hd, adaptorChain, List.foldl_nil] at hst ⊢
    have hce : r2.hdr.get keyCE = ["gzip"] := by
      have h1 : (compressed ops cfg seen.hdr (transportReply ops q.method seen.hdr reply)).hdr.get keyCE = ["gzip"] := by
        unfold compressed
        simp only [hc]
        unfold compressDid at hdid
        simp only [Bool.and_eq_true, Bool.not_eq_true'] at hdid
        unfold proxyCompress
        simp only [hdid.1.1, hdid.1.2, hdid.2, Bool.not_true, Bool.false_eq_true, if_false]
        rw [Hdr.get_add_other _ _ ne_CE_Vary, Hdr.get_set_same]
      unfold proxyResp fetchOrFail at hpr
      generalize compressed ops cfg seen.hdr (transportReply ops q.method seen.hdr reply) = r1 at hpr h1
      split at hpr
      · generalize Payload.fetchFailing cfg.dflt (Payload.effLimit cfg.poolMax cfg.proxyMax) _ = o at hpr
        cases o with
        | stream => cases hpr; exact h1
        | ok n => cases hpr
        | tooLarge => cases hpr
        | shortRead => cases hpr
      · rw [(fetchPayload_status_hdr ops _ _ _ _ r2 hpr).2]; exact h1
    simp [Spec.isolationOK, hst, hce]

end accept

end EgVerif.C03
