import EgVerif.Proofs.Validator
/-!
Helper lemmas for the signer part of C06: association lists (`http.Header`), the insertion sort,
parsing of the `Authorization` header that `Sign` writes, and the verify-side reconstruction of the
canonical headers.
-/
set_option linter.unusedSimpArgs false
namespace EgVerif.Signer
open EgVerif.Sha256 (Bytes)

/-! ## association lists -/

theorem lookup_setKey_same (k : Bytes) (v : List Bytes) (h : Header) : lookup k (setKey k v h) = some v := by
  induction h with
  | nil => simp [setKey, lookup]
  | cons e r ih =>
    obtain ⟨k', v'⟩ := e
    simp only [setKey]
    by_cases hk : k' = k <;> simp [hk, lookup, ih]

theorem lookup_setKey_ne {k k' : Bytes} (v : List Bytes) (h : Header) (hne : k' ≠ k) :
    lookup k' (setKey k v h) = lookup k' h := by
  induction h with
  | nil => simp [setKey, lookup, Ne.symm hne]
  | cons e r ih =>
    obtain ⟨k0, v0⟩ := e
    simp only [setKey]
    by_cases hk : k0 = k
    · subst hk; simp [lookup, Ne.symm hne]
    · simp only [hk, if_false, lookup]
      by_cases hk' : k0 = k' <;> simp [hk', ih]

theorem mem_setKey {k : Bytes} {v : List Bytes} {h : Header} {e : Bytes × List Bytes}
    (he : e ∈ setKey k v h) : e = (k, v) ∨ e ∈ h := by
  induction h with
  | nil => simpa [setKey] using he
  | cons e0 r ih =>
    obtain ⟨k0, v0⟩ := e0
    simp only [setKey] at he
    by_cases hk : k0 = k
    · simp only [hk, if_true, List.mem_cons] at he
      rcases he with he | he
      · exact Or.inl he
      · exact Or.inr (List.mem_cons_of_mem _ he)
    · simp only [hk, if_false, List.mem_cons] at he
      rcases he with he | he
      · exact Or.inr (by simp [he])
      · rcases ih he with h1 | h1
        · exact Or.inl h1
        · exact Or.inr (List.mem_cons_of_mem _ h1)

theorem keys_setKey_mem {k k' : Bytes} {v : List Bytes} {h : Header}
    (hm : k' ∈ (setKey k v h).map (·.1)) : k' = k ∨ k' ∈ h.map (·.1) := by
  obtain ⟨e, he, rfl⟩ := List.mem_map.mp hm
  rcases mem_setKey he with h1 | h1
  · exact Or.inl (by rw [h1])
  · exact Or.inr (List.mem_map.mpr ⟨e, h1, rfl⟩)

theorem nodup_keys_setKey (k : Bytes) (v : List Bytes) (h : Header) (hn : (h.map (·.1)).Nodup) :
    ((setKey k v h).map (·.1)).Nodup := by
  induction h with
  | nil => simp [setKey]
  | cons e r ih =>
    obtain ⟨k0, v0⟩ := e
    simp only [List.map_cons, List.nodup_cons] at hn
    simp only [setKey]
    by_cases hk : k0 = k
    · subst hk; simpa using hn
    · simp only [hk, if_false, List.map_cons, List.nodup_cons]
      refine ⟨?_, ih hn.2⟩
      intro hm
      rcases keys_setKey_mem hm with h1 | h1
      · exact hk h1
      · exact hn.1 h1

theorem lookup_of_mem {h : Header} (hn : (h.map (·.1)).Nodup) {k : Bytes} {v : List Bytes}
    (hm : (k, v) ∈ h) : lookup k h = some v := by
  induction h with
  | nil => simp at hm
  | cons e r ih =>
    obtain ⟨k0, v0⟩ := e
    simp only [List.map_cons, List.nodup_cons] at hn
    simp only [List.mem_cons, Prod.mk.injEq] at hm
    simp only [lookup]
    rcases hm with ⟨rfl, rfl⟩ | hm
    · simp
    · have : k0 ≠ k := by
        intro e; subst e
        exact hn.1 (List.mem_map.mpr ⟨(k0, v), hm, rfl⟩)
      simp [this, ih hn.2 hm]

theorem hget_hset_same (h : Header) (n v : Bytes) : hget (hset h n v) n = v := by
  simp [hget, hset, hvals, lookup_setKey_same]

theorem hget_hset_ne (h : Header) {n n' : Bytes} (v : Bytes) (hne : canonKey n' ≠ canonKey n) :
    hget (hset h n v) n' = hget h n' := by
  simp [hget, hset, hvals, lookup_setKey_ne _ _ hne]

/-! ## insertion sort -/

theorem mem_insertBy {α : Type} (key : α → Bytes) (x y : α) (l : List α) : y ∈ insertBy key x l ↔ y = x ∨ y ∈ l := by
  induction l with
  | nil => simp [insertBy]
  | cons z r ih =>
    simp only [insertBy]
    split
    · simp
    · simp [ih]; constructor <;> (intro h; rcases h with h | h | h <;> simp [h])

theorem mem_sortBy {α : Type} (key : α → Bytes) (y : α) (l : List α) : y ∈ sortBy key l ↔ y ∈ l := by
  induction l with
  | nil => simp [sortBy]
  | cons z r ih => simp [sortBy, mem_insertBy, ih]

/-! ## clean strings -/

/-- no white space, comma, slash or semicolon -/
def Clean (s : Bytes) : Prop := ∀ c ∈ s, isWs c = false ∧ c ≠ 44 ∧ c ≠ 47 ∧ c ≠ 59

theorem mem_joinB {sep c : UInt8} : ∀ {l : List Bytes}, c ∈ joinB sep l → c = sep ∨ ∃ s ∈ l, c ∈ s
  | [], h => by simp [joinB] at h
  | [a], h => by simp only [joinB] at h; exact Or.inr ⟨a, by simp, h⟩
  | a :: a' :: r, h => by
    simp only [joinB, List.mem_append, List.mem_cons] at h
    rcases h with h | h | h
    · exact Or.inr ⟨a, by simp, h⟩
    · exact Or.inl h
    · rcases mem_joinB (l := a' :: r) h with h1 | ⟨s, hs, hc⟩
      · exact Or.inl h1
      · exact Or.inr ⟨s, List.mem_cons_of_mem _ hs, hc⟩


/-! ## parsing the Authorization header written by `Sign` -/

theorem scope_parts_clean {lit : Literal} {clock : Clock} {t : Int} {scopes : List Bytes}
    (hd : Clean (clock.fmtDate t)) (hsc : ∀ s ∈ scopes, Clean s) (hsuf : Clean lit.scopeSuffix) :
    ∀ s ∈ clock.fmtDate t :: scopes ++ [lit.scopeSuffix], Clean s := by
  intro s hs
  simp at hs
  rcases hs with rfl | hs | rfl
  · exact hd
  · exact hsc s hs
  · exact hsuf

theorem credential_lit_clean : ∀ c ∈ b "Credential=", isWs c = false ∧ c ≠ 44 := by decide
theorem signedHeaders_lit_clean : ∀ c ∈ b "SignedHeaders=", isWs c = false ∧ c ≠ 44 := by decide
theorem signature_lit_clean : ∀ c ∈ b "Signature=", isWs c = false ∧ c ≠ 44 := by decide

/-- `initFromHeader` recovers exactly what `Sign` put into the Authorization header. -/
theorem initFromHeader_fmtAuth (lit : Literal) (clock : Clock) (req : Req) (keyId : Bytes) (scopes : List Bytes)
    (sh sig : Bytes) (t t' : Int)
    (hauth : hget req.headers authHeader = fmtAuth lit keyId (scopeString lit clock t scopes) sh sig)
    (hdate : hget req.headers lit.date = clock.fmtTime t)
    (halg : 32 ∉ lit.algorithmValue)
    (hid : Clean keyId) (hsc : ∀ s ∈ scopes, Clean s) (hsuf : Clean lit.scopeSuffix) (hd : Clean (clock.fmtDate t))
    (hsh : ∀ c ∈ sh, isWs c = false ∧ c ≠ 44) (hsig : ∀ c ∈ sig, isWs c = false ∧ c ≠ 44)
    (hpre : hasPrefix (clock.fmtTime t) (clock.fmtDate t) = true)
    (hparse : clock.parseTime (clock.fmtTime t) = some t') :
    initFromHeader lit clock req = .ok ⟨false, keyId, scopes, sh, sig, t', 0⟩ := by
  have hparts := scope_parts_clean hd hsc hsuf
  -- the scope string: chars are '/' or from clean parts
  have hscope : ∀ c ∈ scopeString lit clock t scopes, isWs c = false ∧ c ≠ 44 := by
    intro c hc
    rcases mem_joinB hc with rfl | ⟨s, hs, hcs⟩
    · decide
    · exact ⟨(hparts s hs c hcs).1, (hparts s hs c hcs).2.1⟩
  have hP0 : ∀ c ∈ credPart keyId (scopeString lit clock t scopes), isWs c = false ∧ c ≠ 44 := by
    intro c hc
    simp only [credPart, List.mem_append, List.mem_cons] at hc
    rcases hc with hc | hc | rfl | hc
    · exact credential_lit_clean c hc
    · exact ⟨(hid c hc).1, (hid c hc).2.1⟩
    · decide
    · exact hscope c hc
  have hP1 : ∀ c ∈ b "SignedHeaders=" ++ sh, isWs c = false ∧ c ≠ 44 := by
    intro c hc
    rcases List.mem_append.mp hc with hc | hc
    · exact signedHeaders_lit_clean c hc
    · exact hsh c hc
  have hP2 : ∀ c ∈ b "Signature=" ++ sig, isWs c = false ∧ c ≠ 44 := by
    intro c hc
    rcases List.mem_append.mp hc with hc | hc
    · exact signature_lit_clean c hc
    · exact hsig c hc
  have n0 : (44 : UInt8) ∉ credPart keyId (scopeString lit clock t scopes) := fun h => (hP0 44 h).2 rfl
  have n1 : (44 : UInt8) ∉ (32 :: (b "SignedHeaders=" ++ sh)) := by
    intro h; rcases List.mem_cons.mp h with h | h
    · exact absurd h (by decide)
    · exact (hP1 44 h).2 rfl
  have n2 : (44 : UInt8) ∉ (32 :: (b "Signature=" ++ sig)) := by
    intro h; rcases List.mem_cons.mp h with h | h
    · exact absurd h (by decide)
    · exact (hP2 44 h).2 rfl
  have e1 := splitFirst_append (c := 32) (a := lit.algorithmValue)
    (credPart keyId (scopeString lit clock t scopes) ++ 44 :: ((32 :: (b "SignedHeaders=" ++ sh))
      ++ 44 :: (32 :: (b "Signature=" ++ sig)))) halg
  have e2 : splitOn 44 (credPart keyId (scopeString lit clock t scopes) ++ 44 :: ((32 :: (b "SignedHeaders=" ++ sh))
      ++ 44 :: (32 :: (b "Signature=" ++ sig)))) =
      [credPart keyId (scopeString lit clock t scopes), 32 :: (b "SignedHeaders=" ++ sh), 32 :: (b "Signature=" ++ sig)] := by
    rw [splitOn_append _ n0, splitOn_append _ n1, splitOn_of_not_mem n2]
  have t0 : trimSpace (credPart keyId (scopeString lit clock t scopes)) = credPart keyId (scopeString lit clock t scopes) :=
    trimSpace_clean (fun c hc => (hP0 c hc).1)
  have t1 : trimSpace (32 :: (b "SignedHeaders=" ++ sh)) = b "SignedHeaders=" ++ sh :=
    trimSpace_space_clean (fun c hc => (hP1 c hc).1)
  have t2 : trimSpace (32 :: (b "Signature=" ++ sig)) = b "Signature=" ++ sig :=
    trimSpace_space_clean (fun c hc => (hP2 c hc).1)
  have s0 : stripPrefix (b "Credential=") (credPart keyId (scopeString lit clock t scopes))
      = some (keyId ++ 47 :: scopeString lit clock t scopes) := stripPrefix_append _ _
  have nid : (47 : UInt8) ∉ keyId := fun h => (hid 47 h).2.2.1 rfl
  have e3 : splitOn 47 (keyId ++ 47 :: scopeString lit clock t scopes)
      = keyId :: (clock.fmtDate t :: scopes ++ [lit.scopeSuffix]) := by
    rw [splitOn_append _ nid]
    unfold scopeString
    rw [splitOn_joinB (by simp) (fun s hs h => (hparts s hs 47 h).2.2.1 rfl)]
  have hlen : ¬ (keyId :: (clock.fmtDate t :: scopes ++ [lit.scopeSuffix])).length < 3 := by
    simp only [List.length_cons, List.length_append, List.length_singleton]; omega
  have hmid : midScopes (keyId :: (clock.fmtDate t :: scopes ++ [lit.scopeSuffix])) = scopes := by
    simp [midScopes]
  unfold initFromHeader
  rw [hauth]
  unfold fmtAuth
  simp only [e1, ne_eq, not_true_eq_false, if_false, e2, t0, t1, t2, s0, stripPrefix_append, e3, hlen, hdate,
    List.getD_cons_succ, List.getD_cons_zero, hpre, Bool.not_true, hparse, hmid, List.headD_cons]
  simp [hpre]


/-! ## canonical headers: verify side = sign side -/

/-- a header key as net/http produces it: canonical MIME form of a token, not `Host` -/
def KeyOK (k : Bytes) : Prop := canonKey (lower k) = k ∧ lower k ≠ hostHeader ∧ Clean (lower k)

/-- `http.Header` of a request read by net/http: distinct canonical keys -/
def HeaderOK (h : Header) : Prop := (h.map (·.1)).Nodup ∧ ∀ k ∈ h.map (·.1), KeyOK k

theorem HeaderOK_hset {h : Header} (n v : Bytes) (hok : HeaderOK h) (hn : KeyOK (canonKey n)) : HeaderOK (hset h n v) := by
  refine ⟨nodup_keys_setKey _ _ _ hok.1, ?_⟩
  intro k hk
  rcases keys_setKey_mem hk with rfl | hk
  · exact hn
  · exact hok.2 k hk

theorem canonKey_authHeader : canonKey authHeader = authHeader := by decide
theorem hostHeader_clean : Clean hostHeader := by unfold Clean; decide

theorem getHost_headers (req : Req) (h : Header) : getHost { req with headers := h } = getHost req := rfl

theorem signPairs_mem {cfg : Cfg} {req : Req} {p : Bytes × Bytes} (hp : p ∈ signPairs cfg req) :
    p = (hostHeader, getHost req) ∨
    ∃ k vs, (k, vs) ∈ req.headers ∧ isIgnored cfg k = false ∧ p = (lower k, canonValue vs) := by
  unfold signPairs at hp
  rw [mem_sortBy] at hp
  rcases List.mem_cons.mp hp with hp | hp
  · exact Or.inl hp
  · obtain ⟨e, he, rfl⟩ := List.mem_map.mp hp
    have := List.mem_filter.mp he
    exact Or.inr ⟨e.1, e.2, this.1, by simpa using this.2, rfl⟩

theorem host_mem_signPairs (cfg : Cfg) (req : Req) : (hostHeader, getHost req) ∈ signPairs cfg req := by
  unfold signPairs
  rw [mem_sortBy]
  exact List.mem_cons_self

theorem signPairs_names_clean {cfg : Cfg} {req : Req} (hok : HeaderOK req.headers) :
    ∀ p ∈ signPairs cfg req, Clean p.1 := by
  intro p hp
  rcases signPairs_mem hp with rfl | ⟨k, vs, hm, _, rfl⟩
  · exact hostHeader_clean
  · exact (hok.2 k (List.mem_map.mpr ⟨(k, vs), hm, rfl⟩)).2.2

/-- the signed-header list is free of white space and commas -/
theorem signedHeadersOf_clean {cfg : Cfg} {req : Req} (hok : HeaderOK req.headers) :
    ∀ c ∈ signedHeadersOf (signPairs cfg req), isWs c = false ∧ c ≠ 44 := by
  intro c hc
  rcases mem_joinB hc with rfl | ⟨s, hs, hcs⟩
  · decide
  · obtain ⟨p, hp, rfl⟩ := List.mem_map.mp hs
    have := signPairs_names_clean hok p hp c hcs
    exact ⟨this.1, this.2.1⟩

/-- What `Verify` rebuilds from the signed-header list of a request signed by `Sign` (Authorization header
added afterwards) is what `Sign` hashed. -/
theorem verifyLines_signPairs (cfg : Cfg) (req : Req) (v : Bytes) (hok : HeaderOK req.headers) :
    verifyLines { req with headers := hset req.headers authHeader v } (signedHeadersOf (signPairs cfg req))
      = (signPairs cfg req).map fun p => headerLine p.1 p.2 := by
  have hne : (signPairs cfg req).map (·.1) ≠ [] := by
    intro h
    have := List.map_eq_nil_iff.mp h
    have hm := host_mem_signPairs cfg req
    rw [this] at hm
    simp at hm
  have hsemi : ∀ s ∈ (signPairs cfg req).map (·.1), (59 : UInt8) ∉ s := by
    intro s hs h
    obtain ⟨p, hp, rfl⟩ := List.mem_map.mp hs
    exact (signPairs_names_clean hok p hp 59 h).2.2.2 rfl
  unfold verifyLines signedHeadersOf
  rw [splitOn_joinB hne hsemi, List.map_map]
  apply List.map_congr_left
  intro p hp
  simp only [Function.comp]
  rcases signPairs_mem hp with rfl | ⟨k, vs, hm, hig, rfl⟩
  · simp [getHost_headers]
  · have hk := hok.2 k (List.mem_map.mpr ⟨(k, vs), hm, rfl⟩)
    have hka : k ≠ authHeader := by
      intro e; subst e; simp [isIgnored] at hig
    simp only [hk.2.1, if_false, hk.1]
    congr 1
    simp only [hvals, hset, canonKey_authHeader, lookup_setKey_ne _ _ hka, lookup_of_mem hok.1 hm, Option.getD_some]


/-! ## hypotheses vocabulary of `verify_sign_complete` -/

/-- side conditions on the configured literals (all hold for `defaultLiteral`, see `defaultLiteral_ok`) -/
structure LitOK (lit : Literal) : Prop where
  alg : (32 : UInt8) ∉ lit.algorithmValue
  suffix : Clean lit.scopeSuffix
  date : KeyOK (canonKey lit.date)
  content : KeyOK (canonKey lit.contentSha256)
  dateNotAuth : canonKey lit.date ≠ authHeader

/-- contract of `time.Format` / `time.ParseInLocation` for the two layouts at signing time `t`:
the time string parses back to `t'` (= `t` truncated to the second), which formats identically;
the date string is a prefix of the time string and consists of digits. -/
structure ClockOK (clock : Clock) (t t' : Int) : Prop where
  parse : clock.parseTime (clock.fmtTime t) = some t'
  time : clock.fmtTime t' = clock.fmtTime t
  date : clock.fmtDate t' = clock.fmtDate t
  pre : hasPrefix (clock.fmtTime t) (clock.fmtDate t) = true
  clean : Clean (clock.fmtDate t)

theorem hashBodySign_spec (cfg : Cfg) (cr : Crypto) (h : Header) (body : Option Bytes)
    (hempty : cr.sha256hex [] = sha256Empty) (hnone : hget h cfg.lit.contentSha256 = [])
    (hok : HeaderOK h) (hl : KeyOK (canonKey cfg.lit.contentSha256)) :
    (hashBodySign cfg cr h body).1 = hashBodyVerify cfg cr (some (body.getD [])) ∧
    HeaderOK (hashBodySign cfg cr h body).2 := by
  unfold hashBodySign hashBodyVerify
  simp only [hnone, ne_eq, not_true_eq_false, if_false]
  by_cases he : cfg.excludeBody = true
  · simp [he, HeaderOK_hset _ _ hok hl]
  · cases body <;> simp [he, hok, hempty]

theorem fmtAuth_ne_nil (lit : Literal) (k s sh sig : Bytes) : fmtAuth lit k s sh sig ≠ [] := by
  simp [fmtAuth]

theorem canonQuery_none (lit : Literal) (clock : Clock) (t t' : Int) (s s' : Bytes) (q : Header) :
    canonQuery lit clock t s none q = canonQuery lit clock t' s' none q := rfl

theorem signature_congr (lit : Literal) (cr : Crypto) (clock : Clock) (secret : Bytes) (t t' : Int)
    (scopes : List Bytes) (creq : Bytes) (h1 : clock.fmtTime t' = clock.fmtTime t) (h2 : clock.fmtDate t' = clock.fmtDate t) :
    signature lit cr clock secret t' scopes creq = signature lit cr clock secret t scopes creq := by
  simp only [signature, deriveSigningKey, stringToSign, scopeString, h1, h2]

/-- core of `verify_sign_complete`, for the tail of `Sign` -/
theorem verify_signWith (cfg : Cfg) (cr : Crypto) (clock : Clock) (now t t' : Int) (keyId secret : Bytes)
    (scopes : List Bytes) (req2 : Req) (body : Option Bytes)
    (hstore : storeGet keyId cfg.store = some secret)
    (hclock : ClockOK clock t t') (hlit : LitOK cfg.lit)
    (httl : cfg.ttl > 0 → -cfg.ttl ≤ now - t' ∧ now - t' ≤ cfg.ttl)
    (hid : Clean keyId) (hsc : ∀ s ∈ scopes, Clean s)
    (hok : HeaderOK req2.headers) (hdate : hget req2.headers cfg.lit.date = clock.fmtTime t)
    (hq : req2.queryErr = false) :
    verify cfg cr clock now (signWith cfg cr clock keyId secret t scopes req2 (hashBodyVerify cfg cr body)) body = .ok () := by
  have hsh := signedHeadersOf_clean (cfg := cfg) hok
  have hsig : ∀ creq, ∀ c ∈ signature cfg.lit cr clock secret t scopes creq, isWs c = false ∧ c ≠ 44 := by
    intro creq c hc
    have := Sha256.hex_clean _ c hc
    exact ⟨this.1, this.2.1⟩
  -- the request after Sign
  generalize hcreq : canonicalRequest req2.method (canonURI req2.epath)
    (canonQuery cfg.lit clock t (scopeString cfg.lit clock t scopes) none req2.query).1
    (canonHeadersOf (signPairs cfg req2)) (signedHeadersOf (signPairs cfg req2)) (hashBodyVerify cfg cr body) = creq
  have hsigned : signWith cfg cr clock keyId secret t scopes req2 (hashBodyVerify cfg cr body) =
      { req2 with headers := hset req2.headers authHeader (fmtAuth cfg.lit keyId (scopeString cfg.lit clock t scopes)
        (signedHeadersOf (signPairs cfg req2)) (signature cfg.lit cr clock secret t scopes creq)) } := by
    simp only [signWith, hcreq]
  rw [hsigned]
  have hauth := hget_hset_same req2.headers authHeader (fmtAuth cfg.lit keyId (scopeString cfg.lit clock t scopes)
        (signedHeadersOf (signPairs cfg req2)) (signature cfg.lit cr clock secret t scopes creq))
  have hdate' : hget (hset req2.headers authHeader (fmtAuth cfg.lit keyId (scopeString cfg.lit clock t scopes)
        (signedHeadersOf (signPairs cfg req2)) (signature cfg.lit cr clock secret t scopes creq))) cfg.lit.date = clock.fmtTime t := by
    rw [hget_hset_ne _ _ (by rw [canonKey_authHeader]; exact hlit.dateNotAuth), hdate]
  have hinit := initFromHeader_fmtAuth cfg.lit clock
    { req2 with headers := hset req2.headers authHeader (fmtAuth cfg.lit keyId (scopeString cfg.lit clock t scopes)
        (signedHeadersOf (signPairs cfg req2)) (signature cfg.lit cr clock secret t scopes creq)) }
    keyId scopes (signedHeadersOf (signPairs cfg req2)) (signature cfg.lit cr clock secret t scopes creq) t t'
    hauth hdate' hlit.alg hid hsc hlit.suffix hclock.clean hsh (hsig creq) hclock.pre hclock.parse
  have hexp : expectedSignature cfg cr clock ⟨false, keyId, scopes, signedHeadersOf (signPairs cfg req2),
        signature cfg.lit cr clock secret t scopes creq, t', 0⟩ secret
      { req2 with headers := hset req2.headers authHeader (fmtAuth cfg.lit keyId (scopeString cfg.lit clock t scopes)
        (signedHeadersOf (signPairs cfg req2)) (signature cfg.lit cr clock secret t scopes creq)) } body
      = signature cfg.lit cr clock secret t scopes creq := by
    unfold expectedSignature
    simp only [Bool.false_eq_true, if_false]
    rw [verifyLines_signPairs cfg req2 _ hok, signature_congr _ _ _ _ _ _ _ _ hclock.time hclock.date,
      canonQuery_none cfg.lit clock t' t _ (scopeString cfg.lit clock t scopes)]
    unfold canonHeadersOf at hcreq
    rw [hcreq]
  unfold verify initFromSignedRequest initFromSignedRequestLax
  simp only [hq] at hinit hexp
  simp only [hq, Bool.false_eq_true, if_false, hauth, ne_eq, fmtAuth_ne_nil, not_false_eq_true, if_true, hinit]
  have hno : ¬ (cfg.ttl > 0 ∧ (now - t' < -cfg.ttl ∨ now - t' > cfg.ttl)) := by
    rintro ⟨h1, h2⟩
    have := httl h1
    omega
  simp only [hno, if_false, Bool.false_eq_true, false_and, hstore, hexp, not_true_eq_false]

/-- completeness of `Sign` → `Verify` on the model -/
theorem verify_sign (cfg : Cfg) (cr : Crypto) (clock : Clock) (now t t' : Int) (keyId secret : Bytes)
    (scopes : List Bytes) (req : Req) (body : Option Bytes)
    (hstore : storeGet keyId cfg.store = some secret)
    (hclock : ClockOK clock t t') (hlit : LitOK cfg.lit)
    (httl : cfg.ttl > 0 → -cfg.ttl ≤ now - t' ∧ now - t' ≤ cfg.ttl)
    (hid : Clean keyId) (hsc : ∀ s ∈ scopes, Clean s)
    (hok : HeaderOK req.headers) (hnone : hget req.headers cfg.lit.contentSha256 = [])
    (hempty : cr.sha256hex [] = sha256Empty) (hq : req.queryErr = false) :
    verify cfg cr clock now (sign cfg cr clock keyId secret t scopes req body) (some (body.getD [])) = .ok () := by
  obtain ⟨hbh, hok1⟩ := hashBodySign_spec cfg cr req.headers body hempty hnone hok hlit.content
  unfold sign
  simp only [hbh]
  exact verify_signWith cfg cr clock now t t' keyId secret scopes _ _ hstore hclock hlit httl hid hsc
    (HeaderOK_hset _ _ hok1 hlit.date) (hget_hset_same _ _ _) hq


/-! ## what a successful `Verify` establishes -/

theorem verify_ok_iff (cfg : Cfg) (cr : Crypto) (clock : Clock) (now : Int) (req : Req) (body : Option Bytes) :
    verify cfg cr clock now req body = .ok () ↔
    ∃ ctx secret, initFromSignedRequest cfg.lit clock req = .ok ctx ∧
      (cfg.ttl > 0 → -cfg.ttl ≤ now - ctx.time ∧ now - ctx.time ≤ cfg.ttl) ∧
      (ctx.presign = true → now - ctx.time ≤ ctx.expire) ∧
      storeGet ctx.keyId cfg.store = some secret ∧
      ctx.signature = expectedSignature cfg cr clock ctx secret req body := by
  unfold verify
  cases hi : initFromSignedRequest cfg.lit clock req with
  | error e => simp
  | ok ctx =>
    simp only [Except.ok.injEq, exists_and_left, exists_eq_left']
    by_cases h1 : cfg.ttl > 0 ∧ (now - ctx.time < -cfg.ttl ∨ now - ctx.time > cfg.ttl)
    · rw [if_pos h1]
      constructor
      · intro h; cases h
      · rintro ⟨h, _⟩
        have := h h1.1
        omega
    · rw [if_neg h1]
      by_cases h2 : ctx.presign = true ∧ now - ctx.time > ctx.expire
      · rw [if_pos h2]
        constructor
        · intro h; cases h
        · rintro ⟨_, h, _⟩
          have := h h2.1
          omega
      · rw [if_neg h2]
        have a1 : cfg.ttl > 0 → -cfg.ttl ≤ now - ctx.time ∧ now - ctx.time ≤ cfg.ttl := by
          intro h
          have : ¬ (now - ctx.time < -cfg.ttl ∨ now - ctx.time > cfg.ttl) := fun hc => h1 ⟨h, hc⟩
          omega
        have a2 : ctx.presign = true → now - ctx.time ≤ ctx.expire := by
          intro h
          have : ¬ (now - ctx.time > ctx.expire) := fun hc => h2 ⟨h, hc⟩
          omega
        cases hs : storeGet ctx.keyId cfg.store with
        | none => simp
        | some secret =>
          by_cases h3 : ctx.signature = expectedSignature cfg cr clock ctx secret req body
          · simp only [h3, ne_eq, not_true_eq_false, if_false, Option.some.injEq, exists_eq_left', true_iff, and_true]
            exact ⟨a1, a2⟩
          · simp [h3]

/-! ## LF-freeness of the canonical pieces -/

theorem hexUpper_fin : ∀ i : Fin 16, hexUpper i.val ≠ 10 := by decide

theorem pct_no_lf (c : UInt8) : (10 : UInt8) ∉ pct c := by
  have hc := c.toNat_lt
  simp only [pct, List.mem_cons, List.not_mem_nil, or_false, not_or]
  refine ⟨by decide, ?_, ?_⟩
  · exact fun h => hexUpper_fin ⟨c.toNat / 16, by omega⟩ h.symm
  · exact fun h => hexUpper_fin ⟨c.toNat % 16, by omega⟩ h.symm

theorem unreserved_ne_lf {c : UInt8} (h : isUnreserved c = true) : c ≠ 10 := by
  intro e; subst e; revert h; decide

theorem canonURI_no_lf (p : Bytes) : (10 : UInt8) ∉ canonURI p := by
  unfold canonURI
  split
  · decide
  · intro h
    obtain ⟨l, hl, hm⟩ := List.mem_flatten.mp h
    obtain ⟨c, _, rfl⟩ := List.mem_map.mp hl
    split at hm
    · rename_i hu
      simp only [List.mem_singleton] at hm
      subst hm
      revert hu; decide
    · exact pct_no_lf c hm

theorem queryEscape_no_lf (s : Bytes) : (10 : UInt8) ∉ queryEscape s := by
  unfold queryEscape
  intro h
  obtain ⟨l, hl, hm⟩ := List.mem_flatten.mp h
  obtain ⟨c, _, rfl⟩ := List.mem_map.mp hl
  split at hm
  · rename_i hu
    simp only [List.mem_singleton] at hm
    exact unreserved_ne_lf hu hm.symm
  · split at hm
    · simp at hm
    · exact pct_no_lf c hm

theorem encode_no_lf (q : Header) : (10 : UInt8) ∉ encode q := by
  unfold encode
  intro h
  rcases mem_joinB h with h | ⟨s, hs, hc⟩
  · exact absurd h (by decide)
  · obtain ⟨l, hl, hm⟩ := List.mem_flatten.mp hs
    obtain ⟨e, _, rfl⟩ := List.mem_map.mp hl
    obtain ⟨v, _, rfl⟩ := List.mem_map.mp hm
    rcases List.mem_append.mp hc with hc | hc
    · exact queryEscape_no_lf _ hc
    · rcases List.mem_cons.mp hc with hc | hc
      · exact absurd hc (by decide)
      · exact queryEscape_no_lf _ hc

theorem mem_trimLeft {p : UInt8 → Bool} {c : UInt8} : ∀ {s : Bytes}, c ∈ trimLeft p s → c ∈ s
  | [], h => by simp [trimLeft] at h
  | x :: r, h => by
    simp only [trimLeft] at h
    split at h
    · exact List.mem_cons_of_mem _ (mem_trimLeft h)
    · exact h

theorem mem_trimRight {p : UInt8 → Bool} {c : UInt8} {s : Bytes} (h : c ∈ trimRight p s) : c ∈ s := by
  unfold trimRight at h
  have := mem_trimLeft (List.mem_reverse.mp h)
  exact List.mem_reverse.mp this

theorem mem_collapse {c : UInt8} : ∀ {s : Bytes}, c ∈ collapse s → c ∈ s
  | [], h => by simp [collapse] at h
  | [x], h => by simpa [collapse] using h
  | x :: y :: r, h => by
    simp only [collapse] at h
    split at h
    · exact List.mem_cons_of_mem _ (mem_collapse h)
    · rcases List.mem_cons.mp h with h | h
      · simp [h]
      · exact List.mem_cons_of_mem _ (mem_collapse h)

theorem canonValue_no_lf {vs : List Bytes} (h : ∀ v ∈ vs, (10 : UInt8) ∉ v) : (10 : UInt8) ∉ canonValue vs := by
  unfold canonValue
  intro hm
  rcases mem_joinB hm with hm | ⟨s, hs, hc⟩
  · exact absurd hm (by decide)
  · obtain ⟨v, hv, rfl⟩ := List.mem_map.mp hs
    exact h v hv (mem_trimLeft (mem_trimRight (mem_collapse hc)))

theorem lookup_mem {k : Bytes} {vs : List Bytes} : ∀ {h : Header}, lookup k h = some vs → (k, vs) ∈ h
  | [], e => by simp [lookup] at e
  | (k0, v0) :: r, e => by
    simp only [lookup] at e
    split at e
    · rename_i hk; simp at e; subst hk; subst e; simp
    · exact List.mem_cons_of_mem _ (lookup_mem e)

theorem getHost_no_lf {req : Req} (h1 : (10 : UInt8) ∉ req.host) (h2 : (10 : UInt8) ∉ req.urlHost) :
    (10 : UInt8) ∉ getHost req := by
  unfold getHost
  have hh : (10 : UInt8) ∉ (if req.host = [] then req.urlHost else req.host) := by split <;> assumption
  generalize (if req.host = [] then req.urlHost else req.host) = host at hh
  simp only
  split
  · simp
  · split
    · split
      · exact fun h => hh (List.mem_of_mem_take h)
      · exact hh
    · exact hh

theorem mem_splitOn {c d : UInt8} : ∀ {x s : Bytes}, s ∈ splitOn c x → d ∈ s → d ∈ x
  | [], s, hs, hd => by simp [splitOn] at hs; subst hs; simp at hd
  | y :: r, s, hs, hd => by
    simp only [splitOn] at hs
    split at hs
    · rcases List.mem_cons.mp hs with hs | hs
      · subst hs; simp at hd
      · exact List.mem_cons_of_mem _ (mem_splitOn hs hd)
    · split at hs
      · simp at hs; subst hs; simp at hd; simp [hd]
      · rename_i hh tt heq
        rcases List.mem_cons.mp hs with hs | hs
        · subst hs
          rcases List.mem_cons.mp hd with hd | hd
          · simp [hd]
          · exact List.mem_cons_of_mem _ (mem_splitOn (x := r) (s := hh) (by rw [heq]; simp) hd)
        · exact List.mem_cons_of_mem _ (mem_splitOn (x := r) (s := s) (by rw [heq]; exact List.mem_cons_of_mem _ hs) hd)

/-- what net/http guarantees about a parsed request: no line feed in method, host and header values -/
structure NoLF (req : Req) : Prop where
  method : (10 : UInt8) ∉ req.method
  host : (10 : UInt8) ∉ req.host
  urlHost : (10 : UInt8) ∉ req.urlHost
  values : ∀ e ∈ req.headers, ∀ v ∈ e.2, (10 : UInt8) ∉ v

theorem lineBody_no_lf {req : Req} (h : NoLF req) {name : Bytes} (hn : (10 : UInt8) ∉ name) :
    (10 : UInt8) ∉ lineBody req name := by
  unfold lineBody
  intro hm
  rcases List.mem_append.mp hm with hm | hm
  · exact hn hm
  · rcases List.mem_cons.mp hm with hm | hm
    · exact absurd hm (by decide)
    · split at hm
      · exact getHost_no_lf h.host h.urlHost hm
      · refine canonValue_no_lf ?_ hm
        intro v hv
        unfold hvals at hv
        cases hl : lookup (canonKey name) req.headers with
        | none => simp [hl] at hv
        | some vs =>
          simp [hl] at hv
          exact h.values _ (lookup_mem hl) v hv


/-! ## injectivity of the canonical request -/

theorem append_lf_inj {a a' r r' : Bytes} (ha : (10 : UInt8) ∉ a) (ha' : (10 : UInt8) ∉ a')
    (h : a ++ 10 :: r = a' ++ 10 :: r') : a = a' ∧ r = r' := by
  have h1 := splitFirst_append (c := 10) r ha
  have h2 := splitFirst_append (c := 10) r' ha'
  rw [h] at h1
  rw [h1] at h2
  simpa using h2

theorem verifyLines_eq (req : Req) (sh : Bytes) :
    verifyLines req sh = (splitOn 59 sh).map fun n => lineBody req n ++ [10] := by
  unfold verifyLines
  apply List.map_congr_left
  intro n _
  simp [headerLine, lineBody]

theorem lines_inj (r1 r2 : Req) : ∀ (names : List Bytes) (x1 x2 : Bytes),
    (∀ n ∈ names, (10 : UInt8) ∉ lineBody r1 n ∧ (10 : UInt8) ∉ lineBody r2 n) →
    (names.map fun n => lineBody r1 n ++ [10]).flatten ++ x1 = (names.map fun n => lineBody r2 n ++ [10]).flatten ++ x2 →
    names.map (lineBody r1) = names.map (lineBody r2) ∧ x1 = x2
  | [], x1, x2, _, h => by simpa using h
  | n :: ns, x1, x2, hn, h => by
    simp only [List.map_cons, List.flatten_cons, List.append_assoc, List.singleton_append] at h
    have hn0 := hn n (by simp)
    obtain ⟨e1, e2⟩ := append_lf_inj hn0.1 hn0.2 h
    obtain ⟨e3, e4⟩ := lines_inj r1 r2 ns x1 x2 (fun m hm => hn m (by simp [hm])) e2
    exact ⟨by simp [e1, e3], e4⟩

/-- **canonical_injective**: the newline-separated canonical request determines method, canonical URI,
canonical query, every signed header line and the body hash, for requests without LF in method / host /
header values and an LF-free signed-header list. -/
theorem canonical_injective (cfg : Cfg) (clock : Clock) (ctx : Ctx) (r1 r2 : Req) (bh1 bh2 : Bytes)
    (n1 : NoLF r1) (n2 : NoLF r2) (hsh : (10 : UInt8) ∉ ctx.signedHeaders)
    (h : canonicalRequest r1.method (canonURI r1.epath) (covered cfg clock ctx r1).2.2.1
          (verifyLines r1 ctx.signedHeaders).flatten ctx.signedHeaders bh1
       = canonicalRequest r2.method (canonURI r2.epath) (covered cfg clock ctx r2).2.2.1
          (verifyLines r2 ctx.signedHeaders).flatten ctx.signedHeaders bh2) :
    covered cfg clock ctx r1 = covered cfg clock ctx r2 ∧ bh1 = bh2 := by
  unfold canonicalRequest at h
  obtain ⟨e1, h⟩ := append_lf_inj n1.method n2.method h
  obtain ⟨e2, h⟩ := append_lf_inj (canonURI_no_lf _) (canonURI_no_lf _) h
  have q1 : (10 : UInt8) ∉ (covered cfg clock ctx r1).2.2.1 := by simp only [covered, canonQuery]; exact encode_no_lf _
  have q2 : (10 : UInt8) ∉ (covered cfg clock ctx r2).2.2.1 := by simp only [covered, canonQuery]; exact encode_no_lf _
  obtain ⟨e3, h⟩ := append_lf_inj q1 q2 h
  rw [verifyLines_eq, verifyLines_eq] at h
  have hnames : ∀ n ∈ splitOn 59 ctx.signedHeaders, (10 : UInt8) ∉ lineBody r1 n ∧ (10 : UInt8) ∉ lineBody r2 n := by
    intro n hn
    have : (10 : UInt8) ∉ n := fun hm => hsh (mem_splitOn hn hm)
    exact ⟨lineBody_no_lf n1 this, lineBody_no_lf n2 this⟩
  obtain ⟨e4, h⟩ := lines_inj r1 r2 _ _ _ hnames h
  have e5 : bh1 = bh2 := by
    have := List.cons.inj h
    exact (List.cons.inj (List.append_cancel_left this.2)).2
  refine ⟨?_, e5⟩
  simp only [covered] at e3 ⊢
  simp only [e1, e2, e3, e4]

/-- two requests accepted under the same signing context have the same canonical request, given an
injective hash and HMAC (idealised collision-freeness, explicit hypotheses) -/
theorem expectedSignature_inj (cfg : Cfg) (cr : Crypto) (clock : Clock) (ctx : Ctx) (secret : Bytes) (r1 r2 : Req)
    (b1 b2 : Option Bytes)
    (hH : Function.Injective cr.sha256hex) (hM : ∀ k, Function.Injective (cr.hmac k))
    (h : expectedSignature cfg cr clock ctx secret r1 b1 = expectedSignature cfg cr clock ctx secret r2 b2) :
    canonicalRequest r1.method (canonURI r1.epath) (covered cfg clock ctx r1).2.2.1
          (verifyLines r1 ctx.signedHeaders).flatten ctx.signedHeaders (hashBodyVerify cfg cr b1)
       = canonicalRequest r2.method (canonURI r2.epath) (covered cfg clock ctx r2).2.2.1
          (verifyLines r2 ctx.signedHeaders).flatten ctx.signedHeaders (hashBodyVerify cfg cr b2) := by
  unfold expectedSignature signature at h
  have h := hM _ (Sha256.hex_injective h)
  unfold stringToSign at h
  have h := (List.cons.inj (List.append_cancel_left h)).2
  have h := (List.cons.inj (List.append_cancel_left h)).2
  have h := (List.cons.inj (List.append_cancel_left h)).2
  exact hH h

/-! ## collision-extraction form (audit P1.3): no injectivity hypothesis

`Function.Injective sha256hex` is false for every real hash, so theorems that assume it say nothing about the judge's own
`leanCrypto`. The statements below conclude instead: *either* the covered parts agree *or* an explicit collision of the hash /
of the MAC exists — true for every `Crypto`, SHA-256 included, where exhibiting the collision is the (believed infeasible) task. -/

/-- two different byte strings with the same `sha256hex` -/
def ShaCollision (cr : Crypto) : Prop := ∃ x y, x ≠ y ∧ cr.sha256hex x = cr.sha256hex y

/-- two different (key, message) pairs with the same `hmac` -/
def HmacCollision (cr : Crypto) : Prop := ∃ k k' x y, (k ≠ k' ∨ x ≠ y) ∧ cr.hmac k x = cr.hmac k' y

theorem no_collision_of_injective (cr : Crypto) (hH : Function.Injective cr.sha256hex) : ¬ ShaCollision cr := by
  rintro ⟨x, y, hne, h⟩
  exact hne (hH h)

theorem sha_eq_or_collision (cr : Crypto) (x y : Bytes) (h : cr.sha256hex x = cr.sha256hex y) : x = y ∨ ShaCollision cr := by
  by_cases e : x = y
  · exact Or.inl e
  · exact Or.inr ⟨x, y, e, h⟩

theorem hmac_eq_or_collision (cr : Crypto) (k k' x y : Bytes) (h : cr.hmac k x = cr.hmac k' y) :
    (k = k' ∧ x = y) ∨ HmacCollision cr := by
  by_cases e : k = k' ∧ x = y
  · exact Or.inl e
  · refine Or.inr ⟨k, k', x, y, ?_, h⟩
    by_cases ek : k = k'
    · exact Or.inr (fun ex => e ⟨ek, ex⟩)
    · exact Or.inl ek

/-- same signing context: equal recomputed signatures give equal canonical requests, or a collision -/
theorem expectedSignature_eq_or_collision (cfg : Cfg) (cr : Crypto) (clock : Clock) (ctx : Ctx) (secret : Bytes) (r1 r2 : Req)
    (b1 b2 : Option Bytes)
    (h : expectedSignature cfg cr clock ctx secret r1 b1 = expectedSignature cfg cr clock ctx secret r2 b2) :
    canonicalRequest r1.method (canonURI r1.epath) (covered cfg clock ctx r1).2.2.1
          (verifyLines r1 ctx.signedHeaders).flatten ctx.signedHeaders (hashBodyVerify cfg cr b1)
       = canonicalRequest r2.method (canonURI r2.epath) (covered cfg clock ctx r2).2.2.1
          (verifyLines r2 ctx.signedHeaders).flatten ctx.signedHeaders (hashBodyVerify cfg cr b2)
    ∨ ShaCollision cr ∨ HmacCollision cr := by
  unfold expectedSignature signature at h
  rcases hmac_eq_or_collision cr _ _ _ _ (Sha256.hex_injective h) with ⟨_, hs⟩ | hc
  · unfold stringToSign at hs
    have hs := (List.cons.inj (List.append_cancel_left hs)).2
    have hs := (List.cons.inj (List.append_cancel_left hs)).2
    have hs := (List.cons.inj (List.append_cancel_left hs)).2
    rcases sha_eq_or_collision cr _ _ hs with e | hc
    · exact Or.inl e
    · exact Or.inr (Or.inl hc)
  · exact Or.inr (Or.inr hc)

/-- header lines: a block of LF-terminated, LF-free, non-empty lines followed by an empty line determines the lines -/
theorem bodies_inj : ∀ (L1 L2 : List Bytes) (x1 x2 : Bytes),
    (∀ l ∈ L1, (10 : UInt8) ∉ l ∧ l ≠ []) → (∀ l ∈ L2, (10 : UInt8) ∉ l ∧ l ≠ []) →
    (L1.map (· ++ [10])).flatten ++ 10 :: x1 = (L2.map (· ++ [10])).flatten ++ 10 :: x2 → L1 = L2 ∧ x1 = x2
  | [], [], x1, x2, _, _, h => by simpa using h
  | [], l :: L, x1, x2, _, h2, h => by
    obtain ⟨hl, hne⟩ := h2 l (by simp)
    cases l with
    | nil => exact absurd rfl hne
    | cons c r =>
      simp only [List.map_nil, List.flatten_nil, List.nil_append, List.map_cons, List.flatten_cons, List.cons_append,
        List.cons.injEq] at h
      exact absurd h.1.symm (fun e => hl (by simp [e]))
  | l :: L, [], x1, x2, h1, _, h => by
    obtain ⟨hl, hne⟩ := h1 l (by simp)
    cases l with
    | nil => exact absurd rfl hne
    | cons c r =>
      simp only [List.map_nil, List.flatten_nil, List.nil_append, List.map_cons, List.flatten_cons, List.cons_append,
        List.cons.injEq] at h
      exact absurd h.1 (fun e => hl (by simp [e]))
  | l1 :: L1, l2 :: L2, x1, x2, h1, h2, h => by
    simp only [List.map_cons, List.flatten_cons, List.append_assoc, List.singleton_append] at h
    obtain ⟨e1, e2⟩ := append_lf_inj (h1 l1 (by simp)).1 (h2 l2 (by simp)).1 h
    obtain ⟨e3, e4⟩ := bodies_inj L1 L2 x1 x2 (fun l hl => h1 l (by simp [hl])) (fun l hl => h2 l (by simp [hl])) e2
    exact ⟨by rw [e1, e3], e4⟩

theorem lineBody_ne_nil (req : Req) (name : Bytes) : lineBody req name ≠ [] := by
  unfold lineBody
  intro h
  have := congrArg List.length h
  simp at this

/-- what two canonical requests built under possibly **different** signing contexts agree on -/
theorem canonical_injective_cross (r1 r2 : Req) (cq1 cq2 sh1 sh2 bh1 bh2 : Bytes)
    (n1 : NoLF r1) (n2 : NoLF r2) (q1 : (10 : UInt8) ∉ cq1) (q2 : (10 : UInt8) ∉ cq2)
    (s1 : (10 : UInt8) ∉ sh1) (s2 : (10 : UInt8) ∉ sh2)
    (h : canonicalRequest r1.method (canonURI r1.epath) cq1 (verifyLines r1 sh1).flatten sh1 bh1
       = canonicalRequest r2.method (canonURI r2.epath) cq2 (verifyLines r2 sh2).flatten sh2 bh2) :
    r1.method = r2.method ∧ canonURI r1.epath = canonURI r2.epath ∧ cq1 = cq2 ∧ sh1 = sh2 ∧
      (splitOn 59 sh1).map (lineBody r1) = (splitOn 59 sh1).map (lineBody r2) ∧ bh1 = bh2 := by
  unfold canonicalRequest at h
  obtain ⟨e1, h⟩ := append_lf_inj n1.method n2.method h
  obtain ⟨e2, h⟩ := append_lf_inj (canonURI_no_lf _) (canonURI_no_lf _) h
  obtain ⟨e3, h⟩ := append_lf_inj q1 q2 h
  rw [verifyLines_eq, verifyLines_eq] at h
  have hb : ∀ (r : Req) (n : NoLF r) (sh : Bytes), (10 : UInt8) ∉ sh →
      ∀ l ∈ (splitOn 59 sh).map (lineBody r), (10 : UInt8) ∉ l ∧ l ≠ [] := by
    intro r n sh hsh l hl
    obtain ⟨nm, hnm, rfl⟩ := List.mem_map.mp hl
    exact ⟨lineBody_no_lf n (fun hm => hsh (mem_splitOn hnm hm)), lineBody_ne_nil r nm⟩
  have h' : (((splitOn 59 sh1).map (lineBody r1)).map (· ++ [10])).flatten ++ 10 :: (sh1 ++ 10 :: bh1)
      = (((splitOn 59 sh2).map (lineBody r2)).map (· ++ [10])).flatten ++ 10 :: (sh2 ++ 10 :: bh2) := by
    simpa [List.map_map, Function.comp_def] using h
  obtain ⟨e4, h⟩ := bodies_inj _ _ _ _ (hb r1 n1 sh1 s1) (hb r2 n2 sh2 s2) h'
  obtain ⟨e5, e6⟩ := append_lf_inj s1 s2 h
  subst e5
  exact ⟨e1, e2, e3, rfl, e4, e6⟩

/-- **different** signing contexts: equal recomputed signatures give equal time string, scope string, signing key and
canonical request — or a collision. `hclk`, `hs1`, `hs2`: the time string and the scope strings are LF-free (true for
`time.Format` with the layout `20060102T150405Z`; for the scope in header mode by `NoLF`). -/
theorem expectedSignature_cross_or_collision (cfg : Cfg) (cr : Crypto) (clock : Clock) (ctx1 ctx2 : Ctx) (sec1 sec2 : Bytes)
    (r1 r2 : Req) (b1 b2 : Option Bytes)
    (hclk : ∀ t, (10 : UInt8) ∉ clock.fmtTime t)
    (hs1 : (10 : UInt8) ∉ scopeString cfg.lit clock ctx1.time ctx1.scopes)
    (hs2 : (10 : UInt8) ∉ scopeString cfg.lit clock ctx2.time ctx2.scopes)
    (h : expectedSignature cfg cr clock ctx1 sec1 r1 b1 = expectedSignature cfg cr clock ctx2 sec2 r2 b2) :
    (clock.fmtTime ctx1.time = clock.fmtTime ctx2.time ∧
     scopeString cfg.lit clock ctx1.time ctx1.scopes = scopeString cfg.lit clock ctx2.time ctx2.scopes ∧
     deriveSigningKey cfg.lit cr clock sec1 ctx1.time ctx1.scopes = deriveSigningKey cfg.lit cr clock sec2 ctx2.time ctx2.scopes ∧
     canonicalRequest r1.method (canonURI r1.epath) (covered cfg clock ctx1 r1).2.2.1
          (verifyLines r1 ctx1.signedHeaders).flatten ctx1.signedHeaders (hashBodyVerify cfg cr b1)
       = canonicalRequest r2.method (canonURI r2.epath) (covered cfg clock ctx2 r2).2.2.1
          (verifyLines r2 ctx2.signedHeaders).flatten ctx2.signedHeaders (hashBodyVerify cfg cr b2))
    ∨ ShaCollision cr ∨ HmacCollision cr := by
  unfold expectedSignature signature at h
  rcases hmac_eq_or_collision cr _ _ _ _ (Sha256.hex_injective h) with ⟨hk, hs⟩ | hc
  · unfold stringToSign at hs
    have hs := (List.cons.inj (List.append_cancel_left hs)).2
    obtain ⟨et, hs⟩ := append_lf_inj (hclk _) (hclk _) hs
    obtain ⟨es, hs⟩ := append_lf_inj hs1 hs2 hs
    rcases sha_eq_or_collision cr _ _ hs with e | hc
    · exact Or.inl ⟨et, es, hk, e⟩
    · exact Or.inr (Or.inl hc)
  · exact Or.inr (Or.inr hc)

/-! ## the parser contract `NoLF`: checked per case by the judge, and what it rests on -/

theorem noLFb_iff (req : Req) : noLFb req = true ↔ NoLF req := by
  unfold noLFb
  simp only [Bool.and_eq_true, Bool.not_eq_true', List.all_eq_true]
  constructor
  · rintro ⟨⟨⟨h1, h2⟩, h3⟩, h4⟩
    refine ⟨by simpa using h1, by simpa using h2, by simpa using h3, ?_⟩
    intro e he v hv
    simpa using h4 e he v hv
  · intro h
    refine ⟨⟨⟨by simpa using h.method, by simpa using h.host⟩, by simpa using h.urlHost⟩, ?_⟩
    intro e he v hv
    simpa using h.values e he v hv

/-- no line of `splitOn 10 raw` contains a line feed -/
theorem splitOn_no_sep {c : UInt8} : ∀ {x s : Bytes}, s ∈ splitOn c x → c ∉ s
  | [], s, hs => by
    simp only [splitOn, List.mem_singleton] at hs
    subst hs; simp
  | y :: r, s, hs => by
    simp only [splitOn] at hs
    by_cases hy : y = c
    · simp only [hy, if_true, List.mem_cons] at hs
      rcases hs with rfl | hs
      · simp
      · exact splitOn_no_sep hs
    · simp only [hy, if_false] at hs
      cases heq : splitOn c r with
      | nil => exact absurd heq (splitOn_ne_nil c r)
      | cons hh t =>
        rw [heq] at hs
        simp only [List.mem_cons] at hs
        have hmem : hh ∈ splitOn c r := by rw [heq]; simp
        rcases hs with rfl | hs
        · intro hm
          rcases List.mem_cons.mp hm with e | hm
          · exact hy e.symm
          · exact splitOn_no_sep hmem hm
        · exact splitOn_no_sep (by rw [heq]; exact List.mem_cons_of_mem _ hs)

/-- **What `NoLF` rests on.** net/http reads the request head line by line (`textproto.Reader`: lines = the head split at
LF; a continuation line is joined to the previous value with a space): every byte of the method, of `Host`, of the URL's
host and of every header value is a byte of some line, or a space. Any such parser output satisfies `NoLF` — whatever the raw
bytes were. -/
theorem NoLF_of_line_parser (raw : Bytes) (req : Req)
    (fromLines : ∀ (s : Bytes), (s = req.method ∨ s = req.host ∨ s = req.urlHost ∨ ∃ e ∈ req.headers, s ∈ e.2) →
      ∀ c ∈ s, c = 32 ∨ ∃ l ∈ splitOn 10 raw, c ∈ l) : NoLF req := by
  have key : ∀ s, (s = req.method ∨ s = req.host ∨ s = req.urlHost ∨ ∃ e ∈ req.headers, s ∈ e.2) → (10 : UInt8) ∉ s := by
    intro s hs hm
    rcases fromLines s hs 10 hm with h | ⟨l, hl, hc⟩
    · exact absurd h (by decide)
    · exact splitOn_no_sep hl hc
  exact ⟨key _ (Or.inl rfl), key _ (Or.inr (Or.inl rfl)), key _ (Or.inr (Or.inr (Or.inl rfl))),
    fun e he v hv => key v (Or.inr (Or.inr (Or.inr ⟨e, he, hv⟩)))⟩

theorem mem_trimSpace {c : UInt8} {s : Bytes} (h : c ∈ trimSpace s) : c ∈ s :=
  mem_trimLeft (mem_trimRight h)

/-- header mode: the signed-header list is cut out of the Authorization header value, so it is LF-free for a `NoLF` request
(the hypothesis `hsh` of `tamper_rejected` is needed for presigned URLs only, where it is a URL-decoded query value) -/
theorem signedHeaders_no_lf_header_mode {lit : Literal} {clock : Clock} {req : Req} {ctx : Ctx}
    (h : initFromHeader lit clock req = .ok ctx) (n : NoLF req) : (10 : UInt8) ∉ ctx.signedHeaders := by
  have hv : (10 : UInt8) ∉ hget req.headers authHeader := by
    unfold hget hvals
    cases hl : lookup (canonKey authHeader) req.headers with
    | none => simp
    | some vs =>
      cases vs with
      | nil => simp
      | cons v r => simpa using n.values _ (lookup_mem hl) v (by simp)
  unfold initFromHeader at h
  simp only at h
  split at h
  · cases h
  · rename_i alg rest hsf
    have hrest : (10 : UInt8) ∉ rest := by
      obtain ⟨e, _⟩ := splitFirst_eq_some.mp hsf
      intro hm
      exact hv (by rw [e]; simp [hm])
    split at h
    · cases h
    · split at h
      · rename_i p0 p1 p2 hparts
        have hp1 : (10 : UInt8) ∉ p1 := fun hm => hrest (mem_splitOn (by rw [hparts]; simp) hm)
        split at h
        · cases h
        · split at h
          · cases h
          · split at h
            · cases h
            · rename_i sh hsh
              split at h
              · cases h
              · split at h
                · cases h
                · split at h
                  · cases h
                  · cases h
                    have := stripPrefix_eq_some.mp hsh
                    intro hm
                    exact hp1 (mem_trimSpace (by rw [this]; exact List.mem_append_right _ hm))
      · cases h

end EgVerif.Signer
