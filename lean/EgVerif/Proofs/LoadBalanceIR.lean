import EgVerif.Model.LoadBalance
import EgVerif.Gen.FactsC04IR
import EgVerif.Gen.FactsC04IRb
import EgVerif.Gen.FactsC04IRp
/-!
Regenerated tie by translation for C04 (`notes/IR.md`): the `…IR` definitions of `Gen.FactsC04IR` are
produced on every run by the go/ast micro-translator (`harness/factextract/irlib.go`) from the current
bodies of the five `ChooseServer` methods and of `ServerPoolSpec.Validate`; each is proved equal to
`Model/LoadBalance.lean`'s `choose` (for that policy) / `validate`. `rand.Intn(n)` carries the guard
`n > 0` (it panics otherwise), so the argument of `rand.Intn` is part of the obligation.
-/
namespace EgVerif.LoadBalance
open EgVerif.Gen.FactsC04IR

theorem chooseRandom_regenerated_from_source (ss : List Server) (x : Sel) :
    chooseRandomIR ss x = choose ⟨.random, ss⟩ x := by
  unfold chooseRandomIR choose
  by_cases h : ss.length = 0
  · simp [h]
  · simp [h]

theorem chooseRoundRobin_regenerated_from_source (ss : List Server) (x : Sel) :
    chooseRoundRobinIR ss x = choose ⟨.roundRobin, ss⟩ x := by
  unfold chooseRoundRobinIR choose
  by_cases h : ss.length = 0
  · simp [h]
  · simp [h]

/-- what the generated call site does with the loop's result -/
private def fin (s : Sum Res Int) : Res :=
  match s with
  | .inl v => v
  | .inr _ => Res.panic

theorem chooseWeighted_regenerated_from_source_loop (ss0 : List Server) (x : Sel) (l : List Server) (r : Int) :
    fin (chooseWeightedIR_loop1 ss0 x r l) = weightedLoop l r := by
  induction l generalizing r with
  | nil => rfl
  | cons s t ih =>
    simp only [chooseWeightedIR_loop1, weightedLoop, decide_eq_true_eq]
    by_cases h1 : s.weight ≤ 0
    · simp only [h1, if_true]; exact ih r
    · simp only [h1, if_false]
      by_cases h2 : r - s.weight < 0
      · simp [h2, fin]
      · simp only [h2, if_false]; exact ih _

theorem chooseWeighted_regenerated_from_source (ss : List Server) (x : Sel) :
    chooseWeightedIR ss x = choose ⟨.weightedRandom, ss⟩ x := by
  unfold chooseWeightedIR choose weightedChoose
  by_cases h : ss.length = 0
  · simp [h]
  · by_cases hw : totalWeight ss ≤ 0
    · simp [h, hw]
    · have hw' : totalWeight ss > 0 := by omega
      simp only [h, hw, hw', beq_iff_eq, Int.natCast_eq_zero, if_false, decide_true, decide_false,
        if_true, Bool.false_eq_true]
      exact chooseWeighted_regenerated_from_source_loop ss x ss x.rnd

theorem chooseIPHash_regenerated_from_source (ss : List Server) (x : Sel) :
    chooseIPHashIR ss x = choose ⟨.ipHash, ss⟩ x := by
  unfold chooseIPHashIR choose hashIndex
  by_cases h : ss.length = 0
  · simp [h]
  · simp [h]

theorem chooseHeaderHash_regenerated_from_source (ss : List Server) (x : Sel) :
    chooseHeaderHashIR ss x = choose ⟨.headerHash, ss⟩ x := by
  unfold chooseHeaderHashIR choose hashIndex
  by_cases h : ss.length = 0
  · simp [h]
  · simp [h]

theorem validate_regenerated_from_source_loop (sps : PoolSpec) (l : List Server) (n : Int) :
    validateIR_loop1 sps n l = .inr (n + ((l.filter (fun s => decide (s.weight > 0))).length : Int)) := by
  induction l generalizing n with
  | nil => simp [validateIR_loop1]
  | cons s t ih =>
    simp only [validateIR_loop1, ih, List.filter_cons, decide_eq_true_eq]
    split <;> simp <;> omega

theorem validate_regenerated_from_source (sps : PoolSpec) : validateIR sps = validate sps := by
  simp only [validateIR, validate, validate_regenerated_from_source_loop]
  generalize (sps.servers.filter _).length = g
  generalize sps.servers.length = n
  by_cases h1 : sps.serviceName = "" <;> by_cases h2 : n = 0 <;> by_cases h3 : g > 0 <;>
    by_cases h4 : g < n <;> simp [h1, h2, h3, h4] <;> omega

/-! ### second part (Extension resil): constructors, `NewLoadBalancer`, `createLoadBalancer`,
`LoadBalancer()`, `useService` — `Gen.FactsC04IRb` -/
open EgVerif.Gen.FactsC04IRb EgVerif.Gen.FactsC04IRp

/-- **`NewLoadBalancer`, regenerated from the source, is the model's policy dispatch** (`""` and unknown
names ⇒ round robin). -/
theorem newLoadBalancer_regenerated_from_source (policy : String) (ss : List Server) :
    newLoadBalancerIR policy ss = newLB policy ss := by
  unfold newLoadBalancerIR newLB Policy.ofString
  by_cases h1 : policy = "roundRobin" <;> by_cases h2 : policy = "" <;> by_cases h3 : policy = "random" <;>
    by_cases h4 : policy = "weightedRandom" <;> by_cases h5 : policy = "ipHash" <;>
    by_cases h6 : policy = "headerHash" <;> simp [h1, h2, h3, h4, h5, h6]

/-- the four plain constructors store the list they are given (and have no total weight) -/
theorem newPlain_regenerated_from_source (ss : List Server) :
    newRandomIR ss = (ss, 0) ∧ newRoundRobinIR ss = (ss, 0) ∧ newIPHashIR ss = (ss, 0) ∧
      newHeaderHashIR ss = (ss, 0) := ⟨rfl, rfl, rfl, rfl⟩

theorem newWeighted_regenerated_from_source_loop (ss lb l : List Server) (tw : Int) :
    newWeightedIR_loop1 ss tw lb l = .inr (tw + totalWeight l) := by
  induction l generalizing tw with
  | nil => simp [newWeightedIR_loop1, totalWeight]
  | cons s t ih =>
    simp only [newWeightedIR_loop1, totalWeight, ih, decide_eq_true_eq]
    split <;> simp <;> omega

/-- **`newWeightedRandomLoadBalancer`, regenerated from the source**: stores the list it is given and
sums the positive weights only (the repaired constructor). -/
theorem newWeighted_regenerated_from_source (ss : List Server) :
    newWeightedIR ss = (ss, totalWeight ss) := by
  simp [newWeightedIR, newWeighted_regenerated_from_source_loop]

theorem createLoadBalancer_regenerated_from_source_loop (lbspec : Option String) (ss l : List Server)
    (pub : Option LB) : createLoadBalancerIR_loop1 lbspec ss pub l = .inr () := by
  induction l with
  | nil => rfl
  | cons s t ih => simpa [createLoadBalancerIR_loop1] using ih

/-- **`createLoadBalancer`, regenerated from the source**: exactly one balancer is published, built by
`NewLoadBalancer` from the pool's load-balance spec (nil ⇒ the empty spec ⇒ round robin) and the list it
was handed — a fresh value with counter 0 (`step (.store ss)`). -/
theorem createLoadBalancer_regenerated_from_source (lbspec : Option String) (ss : List Server) :
    createLoadBalancerIR lbspec ss = some (newLB (lbspec.getD "") ss) := by
  simp only [createLoadBalancerIR, createLoadBalancer_regenerated_from_source_loop]
  cases lbspec <;> simp

/-- `LoadBalancer()` returns the value of its single atomic load -/
theorem loadBalancer_regenerated_from_source (current : LB) : loadBalancerIR current = current := rfl

/-- the inner loop of `useService` (over the pool's tags, with `break`) -/
theorem useService_regenerated_from_source_loop2 (srt : List Server → List Server) (sps : PoolSpec)
    (insts : List Instance) (pub servers : List Server) (i : Instance) (tags : List String) :
    useServiceIR_loop2 srt sps insts pub servers i tags =
      .inr (if tags.any (fun t => i.tags.contains t) then servers ++ [(⟨i.url, i.weight, i.tags⟩ : Server)]
            else servers) := by
  induction tags with
  | nil => simp [useServiceIR_loop2]
  | cons t r ih =>
    have hany : ((t :: r).any fun t => i.tags.contains t) =
        (i.tags.contains t || r.any fun t => i.tags.contains t) := List.any_cons
    simp only [useServiceIR_loop2]
    by_cases h : i.tags.contains t = true
    · rw [if_pos h, if_pos (by rw [hany, h]; rfl)]
    · rw [if_neg h, ih]
      simp only [Bool.not_eq_true] at h
      by_cases h2 : (r.any fun t => i.tags.contains t) = true
      · rw [if_pos h2, if_pos (by rw [hany, h, h2]; rfl)]
      · rw [if_neg h2, if_neg (by rw [hany, h]; simpa using h2)]

theorem useService_regenerated_from_source_loop1 (srt : List Server → List Server) (sps : PoolSpec)
    (insts : List Instance) (pub : List Server) (l : List Instance) (servers : List Server) :
    useServiceIR_loop1 srt sps insts pub servers l =
      .inr (servers ++ l.filterMap (fun i =>
        if qualifies sps.serverTags i then some (⟨i.url, i.weight, i.tags⟩ : Server) else none)) := by
  induction l generalizing servers with
  | nil => simp [useServiceIR_loop1]
  | cons i r ih =>
    simp only [useServiceIR_loop1, useService_regenerated_from_source_loop2, ih, List.filterMap_cons]
    have hq : (sps.serverTags.any fun t => i.tags.contains t) = qualifies sps.serverTags i := rfl
    rw [hq]
    cases qualifies sps.serverTags i <;> simp

/-- **`useService`, regenerated from the source, is the model's `useService`** — up to the order of the
list (`srt` stands for a re-ordering such as a `sort.Slice`, should the code contain one; today it does
not and the two sides are equal): the tagged instances (each at most once: `break`), the static list
when none qualifies; that list is what `createLoadBalancer` receives, unconditionally. -/
theorem useService_regenerated_from_source (srt : List Server → List Server) (hsrt : ∀ l, (srt l).Perm l)
    (sps : PoolSpec) (insts : List Instance) :
    (useServiceIR srt sps insts).Perm (useService sps insts) := by
  simp only [useServiceIR, useService, useService_regenerated_from_source_loop1, List.nil_append]
  generalize (insts.filterMap _) = l
  cases l with
  | nil => simp
  | cons a t =>
    have h1 : (((a :: t).length : Int) == 0) = false := by simp; omega
    have h2 : ¬ (a :: t).length = 0 := by simp
    simp only [h1, h2, Bool.false_eq_true, if_false]
    first | exact List.Perm.refl _ | exact hsrt _

end EgVerif.LoadBalance
