import EgVerif.Model.LoadBalance
import EgVerif.Gen.FactsC04IR
/-!
Regenerated tie by translation for C04 (`notes/IR.md`): the `…IR` definitions of `Gen.FactsC04IR` are
produced on every run by the go/ast micro-translator (`harness/factextract/irlib.go`) from the current
bodies of the five `ChooseServer` methods and of `ServerPoolSpec.Validate`; each is proved equal to
`Model/LoadBalance.lean`'s `choose` (for that policy) / `validate`. `rand.Intn(n)` carries the guard
`n > 0` (it panics otherwise), so the argument of `rand.Intn` is part of the obligation.
-/
namespace EgVerif.LoadBalance
open EgVerif.Gen.FactsC04IR

theorem chooseRandom_regenerated_from_source (ss : List Server) (x : Sel) :
    chooseRandomIR ss x = choose ⟨.random, ss⟩ x := by
  unfold chooseRandomIR choose
  by_cases h : ss.length = 0
  · simp [h]
  · simp [h]

theorem chooseRoundRobin_regenerated_from_source (ss : List Server) (x : Sel) :
    chooseRoundRobinIR ss x = choose ⟨.roundRobin, ss⟩ x := by
  unfold chooseRoundRobinIR choose
  by_cases h : ss.length = 0
  · simp [h]
  · simp [h]

/-- what the generated call site does with the loop's result -/
private def fin (s : Sum Res Int) : Res :=
  match s with
  | .inl v => v
  | .inr _ => Res.panic

theorem chooseWeighted_regenerated_from_source_loop (ss0 : List Server) (x : Sel) (l : List Server) (r : Int) :
    fin (chooseWeightedIR_loop1 ss0 x r l) = weightedLoop l r := by
  induction l generalizing r with
  | nil => rfl
  | cons s t ih =>
    simp only [chooseWeightedIR_loop1, weightedLoop, decide_eq_true_eq]
    by_cases h1 : s.weight ≤ 0
    · simp only [h1, if_true]; exact ih r
    · simp only [h1, if_false]
      by_cases h2 : r - s.weight < 0
      · simp [h2, fin]
      · simp only [h2, if_false]; exact ih _

theorem chooseWeighted_regenerated_from_source (ss : List Server) (x : Sel) :
    chooseWeightedIR ss x = choose ⟨.weightedRandom, ss⟩ x := by
  unfold chooseWeightedIR choose weightedChoose
  by_cases h : ss.length = 0
  · simp [h]
  · by_cases hw : totalWeight ss ≤ 0
    · simp [h, hw]
    · have hw' : totalWeight ss > 0 := by omega
      simp only [h, hw, hw', beq_iff_eq, Int.natCast_eq_zero, if_false, decide_true, decide_false,
        if_true, Bool.false_eq_true]
      exact chooseWeighted_regenerated_from_source_loop ss x ss x.rnd

theorem chooseIPHash_regenerated_from_source (ss : List Server) (x : Sel) :
    chooseIPHashIR ss x = choose ⟨.ipHash, ss⟩ x := by
  unfold chooseIPHashIR choose hashIndex
  by_cases h : ss.length = 0
  · simp [h]
  · simp [h]

theorem chooseHeaderHash_regenerated_from_source (ss : List Server) (x : Sel) :
    chooseHeaderHashIR ss x = choose ⟨.headerHash, ss⟩ x := by
  unfold chooseHeaderHashIR choose hashIndex
  by_cases h : ss.length = 0
  · simp [h]
  · simp [h]

theorem validate_regenerated_from_source_loop (sps : PoolSpec) (l : List Server) (n : Int) :
    validateIR_loop1 sps n l = .inr (n + ((l.filter (fun s => decide (s.weight > 0))).length : Int)) := by
  induction l generalizing n with
  | nil => simp [validateIR_loop1]
  | cons s t ih =>
    simp only [validateIR_loop1, ih, List.filter_cons, decide_eq_true_eq]
    split <;> simp <;> omega

theorem validate_regenerated_from_source (sps : PoolSpec) : validateIR sps = validate sps := by
  simp only [validateIR, validate, validate_regenerated_from_source_loop]
  generalize (sps.servers.filter _).length = g
  generalize sps.servers.length = n
  by_cases h1 : sps.serviceName = "" <;> by_cases h2 : n = 0 <;> by_cases h3 : g > 0 <;>
    by_cases h4 : g < n <;> simp [h1, h2, h3, h4] <;> omega

end EgVerif.LoadBalance
