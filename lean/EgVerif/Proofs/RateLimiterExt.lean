import EgVerif.Spec.RateLimiterExt
import EgVerif.Proofs.RateLimiter
import Mathlib.Tactic.Linarith
import Mathlib.Tactic.SplitIfs
/-! Helper lemmas for the C09 extension: limiters with timeout 0 asked for `n ≥ 0` permits at a
time (MQTT byte limiter, the two dimensions of the multi limiter). -/
namespace EgVerif.RateLimiter

/-- One dimension of a timeout-0 limiter: rebase the tokens to the current period, refuse when the
period's limit is reached **or another dimension vetoes**, otherwise take `n` tokens. -/
def vstep (L P : Int) (s : RL) (now n : Int) (veto : Bool) : RL × Bool :=
  let c := now / P
  let t0 := s.tokens - (c - s.cycle) * L
  let t := if t0 < 0 then 0 else t0
  if t ≥ L ∨ veto = true then (s, false) else (⟨c, t + n⟩, true)

theorem usedIn_append (P : Int) (h : NHist) (e : Int × Int × Bool) (c : Int) :
    usedIn P (h ++ [e]) c = usedIn P h c + (if e.2.2 && e.1 / P == c then e.2.1 else 0) := by
  unfold usedIn
  rw [List.filter_append, List.foldl_append]
  by_cases hc : (e.2.2 && e.1 / P == c) = true
  · simp [hc]
  · simp [hc]

theorem maxIn_append (P : Int) (h : NHist) (e : Int × Int × Bool) (c : Int) :
    maxIn P (h ++ [e]) c =
      (if e.2.2 && e.1 / P == c then (if e.2.1 > maxIn P h c then e.2.1 else maxIn P h c) else maxIn P h c) := by
  unfold maxIn
  rw [List.filter_append, List.foldl_append]
  by_cases hc : (e.2.2 && e.1 / P == c) = true
  · simp [hc]
  · simp [hc]

/-- the invariant of one dimension -/
structure VInv (L P : Int) (s : RL) (h : NHist) : Prop where
  tok_nonneg : 0 ≤ s.tokens
  used_le : usedIn P h s.cycle ≤ s.tokens
  tok_lt : s.tokens < L + maxIn P h s.cycle
  past : ∀ c, c ≠ s.cycle → usedIn P h c < L + maxIn P h c
  future : ∀ c, s.cycle < c → usedIn P h c = 0
  max_nonneg : ∀ c, 0 ≤ maxIn P h c

theorem vinv_init (L P : Int) (hL : 0 < L) : VInv L P init [] := by
  refine ⟨by simp [init], by simp [init, usedIn], by simp [init, maxIn]; omega, ?_, ?_, ?_⟩
  · intro c _; simp [usedIn, maxIn]; omega
  · intro c _; simp [usedIn]
  · intro c; simp [maxIn]

theorem vinv_step (L P : Int) (hL : 0 < L) (s : RL) (h : NHist) (now n : Int) (veto : Bool)
    (hn : 0 ≤ n) (hmono : s.cycle ≤ now / P) (inv : VInv L P s h) :
    VInv L P (vstep L P s now n veto).1 (h ++ [(now, n, (vstep L P s now n veto).2)]) ∧
      (vstep L P s now n veto).1.cycle ≤ now / P := by
  obtain ⟨h1, h2, h3, h4, h5, h6⟩ := inv
  unfold vstep
  simp only
  generalize hc : now / P = c at *
  by_cases hrej : (if s.tokens - (c - s.cycle) * L < 0 then 0 else s.tokens - (c - s.cycle) * L) ≥ L ∨ veto = true
  · -- refused: nothing changes
    simp only [hrej, if_true]
    refine ⟨⟨h1, ?_, ?_, ?_, ?_, ?_⟩, hmono⟩
    · rw [usedIn_append]; simpa using h2
    · rw [maxIn_append]; simpa using h3
    · intro c' hc'; rw [usedIn_append, maxIn_append]; simpa using h4 c' hc'
    · intro c' hc'; rw [usedIn_append]; simpa using h5 c' hc'
    · intro c'; rw [maxIn_append]; simpa using h6 c'
  · simp only [hrej, if_false]
    have hrej' : (if s.tokens - (c - s.cycle) * L < 0 then 0 else s.tokens - (c - s.cycle) * L) < L := by
      by_contra hh; exact hrej (Or.inl (by omega))
    refine ⟨⟨?_, ?_, ?_, ?_, ?_, ?_⟩, le_refl _⟩
    · simp only; split_ifs <;> omega
    · simp only
      rw [usedIn_append]
      simp only [hc, Bool.true_and, beq_self_eq_true, if_true]
      rcases lt_or_eq_of_le hmono with hlt | heq
      · rw [h5 c hlt]; split_ifs <;> omega
      · rw [← heq]
        have h0 : (s.cycle - s.cycle) * L = 0 := by simp
        rw [h0]
        split_ifs <;> omega
    · simp only
      rw [maxIn_append]
      simp only [hc, Bool.true_and, beq_self_eq_true, if_true]
      have := h6 c
      split_ifs <;> omega
    · intro c' hc'
      simp only at hc'
      rw [usedIn_append, maxIn_append]
      have hne : ¬ (c = c') := fun e => hc' e.symm
      simp only [hc, Bool.true_and, beq_iff_eq, hne, if_false, add_zero]
      by_cases h0 : c' = s.cycle
      · rw [h0]; omega
      · exact h4 c' h0
    · intro c' hc'
      simp only at hc'
      rw [usedIn_append]
      have hne : ¬ (c = c') := by omega
      simp only [hc, Bool.true_and, beq_iff_eq, hne, if_false, add_zero]
      exact h5 c' (by omega)
    · intro c'
      rw [maxIn_append]
      have := h6 c'
      split_ifs <;> omega

/-- `acquire` with timeout 0 is `vstep` without a veto. -/
theorem acquire_T0 (p : Policy) (hL : 0 < p.L) (_hP : 0 < p.P) (hT : p.T = 0) (s : RL) (now n : Int)
    (hnow : 0 ≤ now) :
    (acquire p s now n).1 = (vstep p.L p.P s now n false).1 ∧
    (acquire p s now n).2.permitted = (vstep p.L p.P s now n false).2 ∧
    ((acquire p s now n).2.permitted = true → (acquire p s now n).2.wait = 0) := by
  have e2 : Int.tdiv now p.P = now / p.P := Int.tdiv_eq_ediv_of_nonneg hnow
  have e1 : Int.tdiv p.T p.P = 0 := by rw [hT]; simp
  simp only [acquire, vstep, e1, e2, zero_add, mul_one, Bool.false_eq_true, or_false]
  split_ifs <;> simp_all

/-- tokens of one dimension rebased to the period of `now` -/
def reb (L P : Int) (cycle tokens now : Int) : Int :=
  if tokens - (now / P - cycle) * L < 0 then 0 else tokens - (now / P - cycle) * L

/-- The two-dimensional multi limiter with timeout 0 (the MQTT `[requests, bytes]` limiter) is, per
dimension, a `vstep` vetoed by the other dimension; both dimensions decide alike and admissions
never wait. -/
theorem macquire2_T0 (L0 L1 P : Int) (c t0 t1 now n0 n1 : Int) (hnow : 0 ≤ now) :
    let p : MPolicy := { Ls := [L0, L1], P := P, T := 0 }
    let v0 := vstep L0 P ⟨c, t0⟩ now n0 (decide (reb L1 P c t1 now ≥ L1))
    let v1 := vstep L1 P ⟨c, t1⟩ now n1 (decide (reb L0 P c t0 now ≥ L0))
    macquire p ⟨c, [t0, t1]⟩ now [n0, n1] =
      (⟨v0.1.cycle, [v0.1.tokens, v1.1.tokens]⟩, ⟨v0.2, 0, false⟩) ∧
    v0.2 = v1.2 ∧ v0.1.cycle = v1.1.cycle := by
  have e2 : Int.tdiv now P = now / P := Int.tdiv_eq_ediv_of_nonneg hnow
  have ea : (if t0 - (now / P - c) * L0 < 0 then 0 else t0 - (now / P - c) * L0) = reb L0 P c t0 now := rfl
  have eb : (if t1 - (now / P - c) * L1 < 0 then 0 else t1 - (now / P - c) * L1) = reb L1 P c t1 now := rfl
  simp only [macquire, vstep, e2, Int.zero_tdiv, zero_add, mul_one, List.length_cons, List.length_nil,
    ne_eq, not_true_eq_false, if_false, List.zipWith_cons_cons, List.zipWith_nil_right, List.map_cons,
    List.map_nil, List.any_cons, List.any_nil, List.all_cons, List.all_nil, id, Bool.or_false, Bool.and_true,
    decide_eq_true_eq, Bool.or_eq_true, Bool.and_eq_true]
  simp only [ea, eb]
  by_cases ha : reb L0 P c t0 now ≥ L0 <;> by_cases hb : reb L1 P c t1 now ≥ L1 <;> simp [ha, hb] <;> omega

end EgVerif.RateLimiter
