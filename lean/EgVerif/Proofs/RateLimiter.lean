import EgVerif.Spec.RateLimiter
import Mathlib.Tactic.Linarith
import Mathlib.Tactic.Ring
/-! Helper lemmas for C09 (rate limiter). Property theorems are in `Props/C09.lean`. -/
namespace EgVerif.RateLimiter

/-- Number of releases the packed-token picture puts into relative cycle `j`. -/
def clamp (L x : Int) : Nat := (min L (max 0 x)).toNat

/-- The invariant: the `tokens` reserved from the start of `cycle` are packed `L` per
cycle, and every earlier cycle is within the limit. -/
structure Inv (p : Policy) (s : RL) (h : Hist) : Prop where
  tok_nonneg : 0 ≤ s.tokens
  packed : ∀ j : Nat, cnt p.P h (s.cycle + j) = clamp p.L (s.tokens - j * p.L)
  past : ∀ c : Int, c < s.cycle → cnt p.P h c ≤ p.L.toNat

theorem cnt_append (P : Int) (h : Hist) (e : Int × Out) (c : Int) :
    cnt P (h ++ [e]) c = cnt P h c + (if e.2.permitted && relCycle P e == c then 1 else 0) := by
  unfold cnt
  simp [List.filter_append, List.filter_cons]
  split <;> simp

theorem clamp_le (L x : Int) : clamp L x ≤ L.toNat := by
  unfold clamp; omega

theorem clamp_step (L t : Int) (j : Nat) (hL : 0 < L) :
    clamp L (t - j * L) + (if t / L = (j : Int) then 1 else 0) = clamp L (t + 1 - j * L) := by
  have hq := Int.mul_ediv_add_emod t L
  have hr0 := Int.emod_nonneg t (ne_of_gt hL)
  have hr1 := Int.emod_lt_of_pos t hL
  generalize t / L = q at *
  generalize t % L = r at *
  unfold clamp
  rcases lt_trichotomy (j : Int) q with hlt | heq | hgt
  · have h1 : (j : Int) + 1 ≤ q := hlt
    have h2 : ((j : Int) + 1) * L ≤ q * L := Int.mul_le_mul_of_nonneg_right h1 (le_of_lt hL)
    have hne : ¬ q = (j : Int) := by omega
    simp only [hne, if_false]
    have : L ≤ t - j * L := by nlinarith
    omega
  · subst heq
    simp only [if_true]
    have : t - (j : Int) * L = r := by nlinarith
    omega
  · have h1 : q + 1 ≤ (j : Int) := hgt
    have h2 : (q + 1) * L ≤ (j : Int) * L := Int.mul_le_mul_of_nonneg_right h1 (le_of_lt hL)
    have hne : ¬ q = (j : Int) := by omega
    simp only [hne, if_false]
    have : t + 1 - j * L ≤ 0 := by nlinarith
    omega

/-- Well-formed policy: what `createRateLimiter` / spec validation guarantee. -/
structure Policy.WF (p : Policy) : Prop where
  hL : 0 < p.L
  hP : 0 < p.P
  hT : 0 ≤ p.T

/-- The tokens already reserved from the start of the cycle of `now`. -/
def rebased (p : Policy) (s : RL) (now : Int) : Int :=
  let t0 := s.tokens - (now / p.P - s.cycle) * p.L
  if t0 < 0 then 0 else t0

theorem acquire_eq (p : Policy) (wf : p.WF) (s : RL) (now : Int) (hnow : 0 ≤ now) :
    acquire p s now 1 =
      (let t := rebased p s now
       if t ≥ p.L * (p.T / p.P + 1) then (s, { permitted := false, wait := p.T })
       else if t < p.L then ({ cycle := now / p.P, tokens := t + 1 }, { permitted := true, wait := 0 })
       else ({ cycle := now / p.P, tokens := t + 1 },
             { permitted := true, wait := p.P * (now / p.P + t / p.L) - now })) := by
  have hT := wf.hT; have hP := wf.hP
  have e1 : Int.tdiv p.T p.P = p.T / p.P := Int.tdiv_eq_ediv_of_nonneg hT
  have e2 : Int.tdiv now p.P = now / p.P := Int.tdiv_eq_ediv_of_nonneg hnow
  simp only [acquire, rebased, e1, e2]
  have key : ∀ t : Int, 0 ≤ t →
      (if t ≥ p.L * (p.T / p.P + 1) then (s, ({ permitted := false, wait := p.T } : Out))
        else if t < p.L then (({ cycle := now / p.P, tokens := t + 1 } : RL), ({ permitted := true, wait := 0 } : Out))
        else ({ cycle := now / p.P, tokens := t + 1 },
              { permitted := true, wait := p.P * (now / p.P + t.tdiv p.L) - now })) =
      (if t ≥ p.L * (p.T / p.P + 1) then (s, ({ permitted := false, wait := p.T } : Out))
        else if t < p.L then (({ cycle := now / p.P, tokens := t + 1 } : RL), ({ permitted := true, wait := 0 } : Out))
        else ({ cycle := now / p.P, tokens := t + 1 },
              { permitted := true, wait := p.P * (now / p.P + t / p.L) - now })) := by
    intro t ht; rw [Int.tdiv_eq_ediv_of_nonneg ht]
  exact key _ (by split <;> omega)

theorem rebased_nonneg (p : Policy) (s : RL) (now : Int) : 0 ≤ rebased p s now := by
  unfold rebased; simp only; split <;> omega

/-- Under the invariant, the number of releases already placed in relative cycle `j`
of the *current* cycle equals the clamp of the rebased tokens. -/
theorem cnt_rebased (p : Policy) (wf : p.WF) (s : RL) (h : Hist) (now : Int)
    (hmono : s.cycle ≤ now / p.P) (inv : Inv p s h) (j : Nat) :
    cnt p.P h (now / p.P + j) = clamp p.L (rebased p s now - j * p.L) := by
  have hL := wf.hL
  obtain ⟨d, hd⟩ := Int.eq_ofNat_of_zero_le (show 0 ≤ now / p.P - s.cycle by omega)
  have h1 : now / p.P + (j : Int) = s.cycle + ((d + j : Nat) : Int) := by push_cast; omega
  rw [h1, inv.packed (d + j)]
  unfold rebased
  simp only [hd]
  push_cast
  split
  · rename_i hneg
    have hjL : 0 ≤ (j : Int) * p.L := Int.mul_nonneg (Int.natCast_nonneg j) (le_of_lt hL)
    unfold clamp
    have : s.tokens - ((d : Int) + j) * p.L < 0 := by nlinarith
    have : (0 : Int) - j * p.L ≤ 0 := by omega
    omega
  · congr 1; ring

theorem relCycle_admit (p : Policy) (wf : p.WF) (now t : Int) (hnow : 0 ≤ now) (ht : 0 ≤ t) :
    relCycle p.P (now, (⟨true, if t < p.L then 0 else p.P * (now / p.P + t / p.L) - now⟩ : Out))
      = now / p.P + t / p.L := by
  have hL := wf.hL; have hP := wf.hP
  unfold relCycle
  simp only
  split
  · rename_i hlt
    have : t / p.L = 0 := Int.ediv_eq_zero_of_lt ht hlt
    simp [this]
  · have : now + (p.P * (now / p.P + t / p.L) - now) = p.P * (now / p.P + t / p.L) := by ring
    rw [this, Int.mul_ediv_cancel_left _ (ne_of_gt hP)]

end EgVerif.RateLimiter

namespace EgVerif.RateLimiter

/-- Outcome of `acquire … 1` expressed with the rebased token count. -/
theorem acquire_cases (p : Policy) (wf : p.WF) (s : RL) (now : Int) (hnow : 0 ≤ now) :
    let t := rebased p s now
    (t ≥ p.L * (p.T / p.P + 1) ∧ acquire p s now 1 = (s, ⟨false, p.T⟩)) ∨
    (t < p.L * (p.T / p.P + 1) ∧
      acquire p s now 1 = (⟨now / p.P, t + 1⟩,
        ⟨true, if t < p.L then 0 else p.P * (now / p.P + t / p.L) - now⟩)) := by
  intro t
  rw [acquire_eq p wf s now hnow]
  simp only
  by_cases h1 : rebased p s now ≥ p.L * (p.T / p.P + 1)
  · left; exact ⟨h1, by simp [h1]⟩
  · right
    refine ⟨by omega, ?_⟩
    by_cases h2 : rebased p s now < p.L
    · simp [h1, h2, t]
    · simp [h1, h2, t]

theorem step_inv (p : Policy) (wf : p.WF) (s : RL) (h : Hist) (now : Int) (hnow : 0 ≤ now)
    (hmono : s.cycle ≤ now / p.P) (inv : Inv p s h) :
    Inv p (acquire p s now 1).1 (h ++ [(now, (acquire p s now 1).2)]) ∧
      (acquire p s now 1).1.cycle ≤ now / p.P := by
  have hL := wf.hL
  rcases acquire_cases p wf s now hnow with ⟨_, e⟩ | ⟨_, e⟩
  · rw [e]
    refine ⟨⟨inv.tok_nonneg, ?_, ?_⟩, hmono⟩
    · intro j; rw [cnt_append]; simpa using inv.packed j
    · intro c hc; rw [cnt_append]; simpa using inv.past c hc
  · rw [e]
    have ht := rebased_nonneg p s now
    have hrc := relCycle_admit p wf now (rebased p s now) hnow ht
    refine ⟨⟨by simp only; omega, ?_, ?_⟩, le_refl _⟩
    · intro j
      rw [cnt_append, cnt_rebased p wf s h now hmono inv j]
      simp only [hrc, Bool.true_and, beq_iff_eq]
      have := clamp_step p.L (rebased p s now) j hL
      have e2 : (now / p.P + rebased p s now / p.L = now / p.P + (j : Int)) ↔
          (rebased p s now / p.L = (j : Int)) := by omega
      simp only [e2]
      exact this
    · intro c hc
      simp only at hc
      rw [cnt_append]
      have hq : 0 ≤ rebased p s now / p.L := Int.ediv_nonneg ht (le_of_lt hL)
      have hne : ¬ (now / p.P + rebased p s now / p.L = c) := by omega
      simp only [hrc, Bool.true_and, beq_iff_eq, hne, if_false, Nat.add_zero]
      by_cases hc2 : c < s.cycle
      · exact inv.past c hc2
      · obtain ⟨d, hd⟩ := Int.eq_ofNat_of_zero_le (show 0 ≤ c - s.cycle by omega)
        have : c = s.cycle + (d : Int) := by omega
        rw [this, inv.packed d]
        exact clamp_le _ _

end EgVerif.RateLimiter
