import EgVerif.Proofs.SessionQoS
import EgVerif.Gen.FactsC16IR
/-!
# C16 (QoS layer): `Session.subscribe / unsubscribe / allSubscribes` regenerated from source equal the model
-/
namespace EgVerif.SessionQoS
open EgVerif.Topic (alGet alSet alErase)
open EgVerif.Gen.FactsC16IR

theorem getD_append_length (pre : List Nat) (q : Nat) (r : List Nat) : (pre ++ q :: r).getD pre.length 0 = q := by
  induction pre with
  | nil => rfl
  | cons a t ih => simpa using ih

theorem sessSubscribe_regenerated_from_source_loop (live db db_ : TMap) :
    ∀ (suffix pre : List (Nat × Nat)) (live_ : TMap),
    sessSubscribeIR_loop1 ((pre ++ suffix).map Prod.fst) ((pre ++ suffix).map Prod.snd) live db live_ db_ pre.length
        (suffix.map Prod.fst) = .inr (setAll suffix live_) := by
  intro suffix
  induction suffix with
  | nil => intro pre live_; simp [sessSubscribeIR_loop1, setAll]
  | cons p r ih =>
    intro pre live_
    obtain ⟨f, q⟩ := p
    simp only [List.map_cons, sessSubscribeIR_loop1, setAll]
    have hq : ((pre ++ (f, q) :: r).map Prod.snd).getD pre.length 0 = q := by
      have := getD_append_length (pre.map Prod.snd) q (r.map Prod.snd)
      simpa using this
    rw [hq]
    have := ih (pre ++ [(f, q)]) (alSet f q live_)
    simpa using this

/-- **`Session.subscribe`**: every filter of the packet is written with its QoS, then the session is stored —
unconditionally, so the persisted copy equals the live map after every SUBSCRIBE. -/
theorem sessSubscribe_regenerated_from_source (fs : List (Nat × Nat)) (live db : TMap) :
    sessSubscribeIR (fs.map Prod.fst) (fs.map Prod.snd) live db = sessSubscribe fs live := by
  have h := sessSubscribe_regenerated_from_source_loop live db db fs [] live
  simp only [List.nil_append, List.length_nil] at h
  simp [sessSubscribeIR, sessSubscribe, h]

theorem sessUnsubscribe_regenerated_from_source_loop (topics0 : List Nat) (live db db_ : TMap) :
    ∀ (fs : List Nat) (live_ : TMap),
    sessUnsubscribeIR_loop1 topics0 live db live_ db_ fs = .inr (eraseAll fs live_) := by
  intro fs
  induction fs with
  | nil => intro live_; simp [sessUnsubscribeIR_loop1, eraseAll]
  | cons f r ih => intro live_; simp [sessUnsubscribeIR_loop1, eraseAll, ih]

/-- **`Session.unsubscribe`** -/
theorem sessUnsubscribe_regenerated_from_source (fs : List Nat) (live db : TMap) :
    sessUnsubscribeIR fs live db = sessUnsubscribe fs live := by
  simp [sessUnsubscribeIR, sessUnsubscribe, sessUnsubscribe_regenerated_from_source_loop]

theorem allSubscribes_regenerated_from_source_loop (live0 live_ : TMap) :
    ∀ (l : TMap) (sub qos : List Nat),
    allSubscribesIR_loop1 live0 live_ sub qos l = .inr (sub ++ l.map Prod.fst, qos ++ l.map Prod.snd) := by
  intro l
  induction l with
  | nil => intro sub qos; simp [allSubscribesIR_loop1]
  | cons p r ih => intro sub qos; obtain ⟨k, v⟩ := p; simp [allSubscribesIR_loop1, ih]

/-- **`Session.allSubscribes`**: the parallel slices are the keys and values of `Topics`, in one iteration order -/
theorem allSubscribes_regenerated_from_source (live : TMap) : allSubscribesIR live = allSubs live := by
  simp [allSubscribesIR, allSubs, allSubscribes_regenerated_from_source_loop]

end EgVerif.SessionQoS
