import EgVerif.Model.RateLimiterFilter
import EgVerif.Model.MultiRateLimiter
import EgVerif.Gen.FactsC09IRb
/-!
Regenerated tie by translation for C09, second part (Extension resil, `notes/C09.md`): `Gen.FactsC09IRb` is
produced on every run from the bodies of the filter's `RateLimiter.Handle` and the MQTT proxy's `newLimiter`;
the theorems prove the generated definitions equal to `Model/RateLimiterFilter.handle` and
`Model/MultiRateLimiter.newLimiter` for all inputs.
-/
namespace EgVerif.RateLimiterFilter
open EgVerif.RateLimiter EgVerif.Gen.FactsC09IRb

/-- result of `Handle` from the loop's `Sum` (a `return` inside the loop / `break` or falling out of it) -/
def finH : Sum (Option (Heap × HOut)) (Heap × Option Nat × Option Nat × Int) → Option (Heap × HOut)
  | .inl r => r
  | .inr (heap, status, asked, waited) => some (heap, ⟨"", status, asked, waited⟩)

theorem handle_regenerated_from_source_loop (now : Nat → Int) (cancelled : Bool) (us : List (Bool × Option Nat))
    (h0 : Heap) : ∀ (l : List (Bool × Option Nat)) (heap : Heap),
      finH (handleIR_loop1 now cancelled us h0 heap none none 0 l) =
        handle now (l.map (·.1)) (l.map (·.2)) heap := by
  intro l
  induction l with
  | nil => intro heap; simp [handleIR_loop1, handle, finH]
  | cons u r ih =>
    intro heap
    obtain ⟨m, lim⟩ := u
    cases m with
    | false => simp [handleIR_loop1, handle, ih]
    | true =>
      cases lim with
      | none => simp [handleIR_loop1, handle, finH]
      | some id =>
        simp only [handleIR_loop1, handle, List.map_cons]
        cases hg : heapGet heap id with
        | none => simp [hg, finH]
        | some lm =>
          simp only [hg, Option.isSome_some, Bool.and_self, Bool.not_true, Bool.false_eq_true, if_false, if_true,
            Option.getD_some]
          by_cases hp : (acquire lm.policy lm.state (now id) 1).2.permitted = true
          · simp only [hp, Bool.not_true, Bool.false_eq_true, if_false]
            by_cases hw : (acquire lm.policy lm.state (now id) 1).2.wait ≤ 0
            · simp [hw, finH]
            · cases cancelled <;> simp [hw, finH]
          · simp only [Bool.not_eq_true] at hp
            simp [hp, finH]

/-- **The filter's `Handle`, regenerated from the source, is the model's `handle`**: rules that do not
match are skipped; the *first* matching rule's limiter is asked once; refused ⇒ 429 `rateLimited`;
permitted without wait ⇒ `break`; with a wait ⇒ return after the timer or the client's cancellation; a rule
with a nil limiter panics. -/
theorem handle_regenerated_from_source (now : Nat → Int) (cancelled : Bool) (us : List (Bool × Option Nat))
    (h0 : Heap) : handleIR now cancelled us h0 = handle now (us.map (·.1)) (us.map (·.2)) h0 := by
  have := handle_regenerated_from_source_loop now cancelled us h0 us h0
  simp only [handleIR]
  generalize handleIR_loop1 now cancelled us h0 h0 none none 0 us = L at this ⊢
  cases L with
  | inl r => simpa [finH] using this
  | inr t => obtain ⟨a, b, c, d⟩ := t; simpa [finH] using this

end EgVerif.RateLimiterFilter

namespace EgVerif.RateLimiter
open EgVerif.Gen.FactsC09IRb

/-- **The MQTT proxy's `newLimiter`, regenerated from the source, is the model's `newLimiter`**: no
limiter for a nil / all-zero spec; period = `timePeriod` seconds (1 if not positive); both rates ⇒ the
two-dimensional limiter `[requests, bytes]`, else the request or the byte limiter; timeout always 0. -/
theorem newLimiter_regenerated_from_source (spec : Option RateLimitSpec) :
    newLimiterIR spec = newLimiter spec := by
  cases spec with
  | none => simp [newLimiterIR, newLimiter]
  | some sp =>
    obtain ⟨rr, br, tp⟩ := sp
    simp only [newLimiterIR, newLimiter, Option.isNone_some, Bool.false_or, Option.getD_some]
    by_cases h1 : rr = 0 <;> by_cases h2 : br = 0 <;> by_cases h3 : rr > 0 <;> by_cases h4 : br > 0 <;>
      by_cases h5 : tp > 0 <;> simp [h1, h2, h3, h4, h5] <;> omega

/-- the `Limiter` value the three fields of a `*Limiter` stand for (in the order `acquirePermission` tests them) -/
def ofFields (lm : Option (MPolicy × MRL)) (lq lb : Option (Policy × RL)) : Limiter :=
  match lm, lq, lb with
  | some m, _, _ => Limiter.multi m.1 m.2
  | none, some q, _ => Limiter.request q.1 q.2
  | none, none, some b => Limiter.byte b.1 b.2
  | none, none, none => Limiter.none

/-- **`Limiter.acquirePermission`, regenerated from the source, is the model's `Limiter.acquire`**: the
multi limiter is asked for `[1, byteNum]`, the request limiter for one permit, the byte limiter for
`byteNum` permits; no limiter ⇒ permitted. -/
theorem limiterAcquire_regenerated_from_source (lm : Option (MPolicy × MRL)) (lq lb : Option (Policy × RL))
    (now byteNum : Int) :
    (let r := limiterAcquireIR lm lq lb now byteNum
     (ofFields r.1.1 r.1.2.1 r.1.2.2, r.2)) = (ofFields lm lq lb).acquire now byteNum := by
  cases lm with
  | some m => simp [limiterAcquireIR, ofFields, Limiter.acquire]
  | none =>
    cases lq with
    | some q => simp [limiterAcquireIR, ofFields, Limiter.acquire]
    | none => cases lb <;> simp [limiterAcquireIR, ofFields, Limiter.acquire]

/-- **`RateLimiter.SetState`, regenerated from the source**: unchanged state ⇒ nothing; leaving
`StateDisabled` ⇒ `cycle = tokens = 0`, `startTime = now`; then the state is stored. -/
theorem setState_regenerated_from_source (s : RL) (cur st : Nat) : setStateIR s cur st = setState s cur st := by
  obtain ⟨c, t⟩ := s
  unfold setStateIR setState
  by_cases h1 : cur = st <;> by_cases h2 : cur = 2 <;> simp [h1, h2, init]

end EgVerif.RateLimiter
