import EgVerif.Proofs.AdminAPI
import EgVerif.Gen.FactsC18IR
/-!
Regenerated tie by translation for C18, admin API part (`notes/IR.md`, `notes/C18.md` "Extension cluster"):
the `…IR` definitions of `Gen.FactsC18IR` are produced on every run from the current bodies of
`createObject`, `updateObject`, `deleteObject`, `upgradeConfigVersion` (pkg/api/object.go),
`_getVersion`, `_plusOneVersion`, `_getObject`, `_putObject`, `_deleteObject` (pkg/api/cluster.go),
`Server.Lock`, `Server.Unlock` (pkg/api/server.go); each is proved equal to the hand-written function of
`Model/AdminAPI.lean`. The second half connects those functions to `apply` / `micro` / `exec`, so that the
tie reaches `handlers_atomic`, `versions_gap_free`, `conflict_unchanged`, `final_store_is_fold`.
-/
namespace EgVerif.AdminAPI
open EgVerif.Gen.FactsC18IR

theorem createObject_regenerated_from_source (e : Etcd) (sp : Spec) (rdErr : Bool) :
    createObjectIR e sp rdErr = createObject e sp rdErr := by
  simp only [createObjectIR, createObject]
  cases rdErr <;> cases e.store.get sp.name <;> simp

theorem updateObject_regenerated_from_source (e : Etcd) (sp : Spec) (rdErr : Bool) :
    updateObjectIR e sp rdErr = updateObject e sp rdErr := by
  simp only [updateObjectIR, updateObject]
  cases rdErr <;> cases e.store.get sp.name <;> simp [kindOf]

theorem deleteObject_regenerated_from_source (e : Etcd) (name : String) :
    deleteObjectIR e name = deleteObject e name := by
  simp only [deleteObjectIR, deleteObject]
  cases e.store.get name <;> simp

theorem upgradeConfigVersion_regenerated_from_source (e : Etcd) (w : RW) :
    upgradeConfigVersionIR e w = upgradeConfigVersion e w := by
  simp [upgradeConfigVersionIR, upgradeConfigVersion, configVersionKey]

theorem getVersion_regenerated_from_source (e : Etcd) (getErr : Bool) :
    getVersionIR e getErr = getVersion e getErr := by
  simp only [getVersionIR, getVersion, Etcd.getVer, parseDec]
  cases getErr <;> by_cases h : e.version = 0 <;> simp [h]

theorem plusOneVersion_regenerated_from_source (e : Etcd) (getErr putErr : Bool) :
    plusOneVersionIR e getErr putErr = plusOneVersion e getErr putErr := by
  simp only [plusOneVersionIR, plusOneVersion, getVersion, Etcd.putVer]
  cases getErr <;> cases putErr <;> simp

theorem getObject_regenerated_from_source (e : Etcd) (name : String) (getErr : Bool) :
    getObjectIR e name getErr = getObject e name getErr := by
  cases getErr <;> simp [getObjectIR, getObject, Etcd.getObj, newSpec]
  cases e.store.get name <;> simp

theorem putObject_regenerated_from_source (e : Etcd) (sp : Spec) (putErr : Bool) :
    putObjectIR e sp putErr = putObject e sp putErr := by
  simp only [putObjectIR, putObject, Etcd.putObj]
  cases putErr <;> simp

theorem deleteObjectKey_regenerated_from_source (e : Etcd) (name : String) (delErr : Bool) :
    deleteObjectKeyIR e name delErr = deleteObjectKey e name delErr := by
  simp only [deleteObjectKeyIR, deleteObjectKey, Etcd.delKey]
  cases delErr <;> simp

theorem serverLock_regenerated_from_source (gmErr lkErr : Bool) : serverLockIR gmErr lkErr = serverLock gmErr lkErr := by
  cases gmErr <;> cases lkErr <;> rfl

theorem serverUnlock_regenerated_from_source (gmErr ulErr : Bool) :
    serverUnlockIR gmErr ulErr = serverUnlock gmErr ulErr := by
  cases gmErr <;> cases ulErr <;> rfl

/-! ### The per-function model composes to the atomic specification and to the micro-step machine -/

/-- A handler (body read successfully, round trips succeed) is the atomic transition `apply`: same etcd,
same status and `X-Config-Version`; it returns with the lock released and never touched etcd outside it. -/
theorem handle_is_apply (e : Etcd) (r : Req) :
    (handle e r).etcd = (apply e r).1 ∧ (handle e r).rw.resp = (apply e r).2 ∧
    (handle e r).locked = false ∧ (handle e r).unlockedAccess = false := by
  cases r with
  | create n o =>
    cases h : e.store.get n <;>
      simp [handle, createObject, apply, h, upgradeConfigVersion, RW.init, RW.writeHeader, RW.setHdr, RW.resp, configVersionKey]
  | update n o =>
    cases h : e.store.get n with
    | none => simp [handle, updateObject, apply, h, RW.init, RW.writeHeader, RW.resp]
    | some old =>
      by_cases hk : (old.kind != o.kind) = true
      · simp [handle, updateObject, apply, h, hk, RW.init, RW.writeHeader, RW.resp]
      · have hk' : (old.kind != o.kind) = false := by simpa using hk
        simp [handle, updateObject, apply, h, hk', upgradeConfigVersion, RW.init, RW.setHdr, RW.resp, configVersionKey]
  | delete n =>
    cases h : e.store.get n <;>
      simp [handle, deleteObject, apply, h, upgradeConfigVersion, RW.init, RW.writeHeader, RW.setHdr, RW.resp, configVersionKey]

/-- … hence also the result of the round-trip-by-round-trip execution `exec` the interleaving model uses. -/
theorem handle_is_exec (e : Etcd) (r : Req) :
    exec r e = ((handle e r).etcd, (handle e r).rw.resp) := by
  rw [exec_eq_apply, (handle_is_apply e r).1, (handle_is_apply e r).2.1]

/-- A request whose body cannot be read is answered 400 before the lock is taken; nothing changes. -/
theorem bad_body_rejected (e : Etcd) (sp : Spec) :
    createObject e sp true = ⟨e, ⟨true, 400, none⟩, false, false⟩ ∧
    updateObject e sp true = ⟨e, ⟨true, 400, none⟩, false, false⟩ := by
  simp [createObject, updateObject, RW.init, RW.writeHeader]

/-- The helper functions without etcd errors are the micro steps: `_getObject` is `start → gotObj`,
`_getVersion` is `wrote → gotVer`, `_plusOneVersion` is `gotVer → done` (version read + 1 written and returned). -/
theorem helpers_are_micro (req : Req) (e : Etcd) :
    (getObject e req.name false).map (fun x => (PC.gotObj x, e)) = some (micro req .start e) ∧
    (getVersion e false).map (fun v => (PC.gotVer v, e)) = some (micro req .wrote e) ∧
    (plusOneVersion e false false).map (fun p => (PC.done ⟨okStatus req, some p.2⟩, p.1)) =
      some (micro req (.gotVer e.version) e) ∧
    plusOneVersion e false false = some ((upgradeConfigVersion e RW.init).1, e.version + 1) := by
  simp [getObject, getVersion, plusOneVersion, micro, upgradeConfigVersion]

/-- An etcd error in any round trip is a panic (`none`): the helpers never continue with a half result. -/
theorem helper_errors_panic (e : Etcd) (n : String) (sp : Spec) (b : Bool) :
    getVersion e true = none ∧ plusOneVersion e true b = none ∧ plusOneVersion e b true = none ∧
    getObject e n true = none ∧ putObject e sp true = none ∧ deleteObjectKey e n true = none ∧
    serverLock true b = none ∧ serverLock b true = none := by
  cases b <;> simp [getVersion, plusOneVersion, getObject, putObject, deleteObjectKey, serverLock]

end EgVerif.AdminAPI
