import EgVerif.Model.IPFilter
import EgVerif.Gen.FactsC05IR
/-!
Regenerated tie by translation for C05 (`notes/IR.md`): `Gen.FactsC05IR.allowIR` / `allowAllIR` are
produced on every run by the go/ast micro-translator from the current bodies of `IPFilter.Allow` and
`IPFilters.Allow`; they are the hand-written `allow` / `allowAll`. A changed comparison, branch
order or default in the source changes the generated definition and breaks these proofs.
-/
namespace EgVerif.IPFilter
open EgVerif.Gen.FactsC05IR

theorem allow_regenerated_from_source (f : Filter) (ip : Option Addr) : allowIR f ip = allow f ip := by
  cases ip with
  | none => rfl
  | some a =>
    simp only [allowIR, allow, containsE, Option.isNone_some, Bool.false_eq_true, if_false]
    rfl

theorem allowAll_regenerated_from_source_loop (fs0 : List Filter) (ip : Option Addr) (fs : List Filter) :
    allowAllIR_loop1 fs0 ip fs = if fs.all (fun f => allow f ip) then .inr () else .inl false := by
  induction fs with
  | nil => rfl
  | cons f r ih =>
    simp only [allowAllIR_loop1, ih, List.all_cons]
    by_cases h : allow f ip = true <;> simp [h]

theorem allowAll_regenerated_from_source (fs : List Filter) (ip : Option Addr) : allowAllIR fs ip = allowAll fs ip := by
  simp only [allowAllIR, allowAll, allowAll_regenerated_from_source_loop]
  by_cases h : List.all fs (fun f => allow f ip) = true <;> simp [h]

/-! ### `ipfilter.New` (Extension mux): the closure `rangerFromIPCIDRs` -/

/-- `net.IPMask.Size()` reports `bits = 8 * len(mask)`. -/
def EntryWF : RawEntry → Prop
  | .cidr _ _ bits => bits % 8 = 0
  | _ => True

theorem new_regenerated_from_source_loop (es0 : List RawEntry) :
    ∀ (es : List RawEntry) (r : List Cidr), (∀ e ∈ es, EntryWF e) →
      rangerIR_loop1 es0 r es = .inr (r ++ es.filterMap mkCidr)
  | [], r, _ => by simp [rangerIR_loop1]
  | e :: es, r, hw => by
    have ih := fun r' => new_regenerated_from_source_loop es0 es r' (fun e' h => hw e' (List.mem_cons_of_mem _ h))
    have he := hw e List.mem_cons_self
    cases e with
    | ip a =>
      cases a <;>
        simp [rangerIR_loop1, parseIP, to4, insertNet, ih, mkCidr, Addr.width]
    | bad => simp [rangerIR_loop1, parseIP, parseCIDR, ih, mkCidr, List.filterMap_cons]
    | cidr a ones bits =>
      simp only [EntryWF] at he
      cases a with
      | v6 n => simp [rangerIR_loop1, parseIP, parseCIDR, to4, insertNet, ih, mkCidr]
      | v4 n =>
        have hb : (maskBytes (ones, bits) == 16) = (bits == 128) := by
          have hiff : (bits / 8 = 16) ↔ (bits = 128) := by omega
          rw [Bool.eq_iff_iff]
          simp [maskBytes, hiff]
        simp only [rangerIR_loop1, parseIP, parseCIDR, to4, Option.isSome_none, Bool.false_eq_true, if_false,
          Option.isSome_some, Bool.true_and, hb, maskDrop, insertNet, ih, mkCidr, List.filterMap_cons]
        rcases Nat.decEq bits 128 with h | h
        · simp [h]
        · subst h; simp

/-- **`ipfilter.New`, per list**: the generated `rangerIR` (current body of the closure
`rangerFromIPCIDRs`: address vs CIDR, mask by family, IPv4-mapped CIDR conversion, junk skipped) is the
model's `ranger`. -/
theorem new_regenerated_from_source (es : List RawEntry) (hw : ∀ e ∈ es, EntryWF e) :
    rangerIR es = ranger es := by
  simp [rangerIR, new_regenerated_from_source_loop es es [] hw, ranger]

end EgVerif.IPFilter

