import EgVerif.Model.IPFilter
import EgVerif.Gen.FactsC05IR
/-!
Regenerated tie by translation for C05 (`notes/IR.md`): `Gen.FactsC05IR.allowIR` / `allowAllIR` are
produced on every run by the go/ast micro-translator from the current bodies of `IPFilter.Allow` and
`IPFilters.Allow`; they are the hand-written `allow` / `allowAll`. A changed comparison, branch
order or default in the source changes the generated definition and breaks these proofs.
-/
namespace EgVerif.IPFilter
open EgVerif.Gen.FactsC05IR

theorem allow_regenerated_from_source (f : Filter) (ip : Option Addr) : allowIR f ip = allow f ip := by
  cases ip with
  | none => rfl
  | some a =>
    simp only [allowIR, allow, containsE, Option.isNone_some, Bool.false_eq_true, if_false]
    rfl

theorem allowAll_regenerated_from_source_loop (fs0 : List Filter) (ip : Option Addr) (fs : List Filter) :
    allowAllIR_loop1 fs0 ip fs = if fs.all (fun f => allow f ip) then .inr () else .inl false := by
  induction fs with
  | nil => rfl
  | cons f r ih =>
    simp only [allowAllIR_loop1, ih, List.all_cons]
    by_cases h : allow f ip = true <;> simp [h]

theorem allowAll_regenerated_from_source (fs : List Filter) (ip : Option Addr) : allowAllIR fs ip = allowAll fs ip := by
  simp only [allowAllIR, allowAll, allowAll_regenerated_from_source_loop]
  by_cases h : List.all fs (fun f => allow f ip) = true <;> simp [h]

end EgVerif.IPFilter
