import EgVerif.Model.SessionQueue
import EgVerif.Gen.FactsC15IRp
/-!
# C15: `processPublish` (client.go) regenerated from source equals the PUBACK part of `onPublish`

Own generated module `Gen/FactsC15IRp.lean`, so that a change of `processPublish` names THIS obligation.
-/
namespace EgVerif.SessionQueue
open EgVerif.Gen.FactsC15IRp

/-- `processPublish` (client.go): a PUBACK carrying the inbound packet's id is written iff its QoS is 1 — the
PUBACK part of `onPublish` once the publish limiter admitted the packet and the pipeline did not object -/
theorem processPublish_regenerated_from_source (qos i : Nat) :
    processPublishIR qos i = (onPublish true .ok qos i).puback.toList ∧
    processPublishIR qos i = (onPublish true .notConfigured qos i).puback.toList := by
  unfold processPublishIR onPublish
  by_cases h0 : qos = 0
  · subst h0; simp
  · by_cases h1 : qos = 1
    · subst h1; simp
    · simp [h0, h1]

end EgVerif.SessionQueue
