import EgVerif.Proofs.Proxy
import EgVerif.Gen.FactsC03IR
import EgVerif.Model.ProxyFlow
/-!
Regenerated tie by translation for C03 (`notes/IR.md`, `notes/C03.md` "Extension proxy"):
`Gen.FactsC03IR.cloneHeaderIR / checkAddrIR / prepareIR / acceptGzipIR / alreadyGzipedIR / compressIR /
pathAdaptIR / adaptReqHeaderIR / adaptRespHeaderIR / handleReqAdIR / handleMirrorIR / proxyHandleIR`
are produced on every run by the go/ast micro-translator from the current bodies of `cloneHeader`,
`Server.checkAddrPattern`, `serverPoolContext.prepareRequest`, `compression.acceptGzip / alreadyGziped /
compress`; they are the hand-written `cloneHeader` / `addrIsHostName` / `prepareRequest` / `acceptGzip` /
`alreadyGzipped` / `proxyCompress` of `Model/Proxy.lean`, `Model/Framing.lean` on every input and oracle.
-/
namespace EgVerif.Proxy
open EgVerif.Gen.FactsC03IR

set_option linter.unusedSimpArgs false

/-! ### pool.go `cloneHeader` -/

/-- the header names one `Connection` line contributes (Go strings) -/
def tokS (canon : String → String) (sfs : List String) : List String :=
  sfs.filterMap fun sf => if trimS sf != "" then some (canon (trimS sf)) else none

theorem Hdr.delAll_cons (h : Hdr) (k : String) (ks : List String) :
    Hdr.delAll h (k :: ks) = Hdr.delAll (Hdr.del h k) ks := rfl

theorem Hdr.delAll_append (h : Hdr) (a b : List String) :
    Hdr.delAll h (a ++ b) = Hdr.delAll (Hdr.delAll h a) b := by
  unfold Hdr.delAll; rw [List.foldl_append]

/-- the hop-table loop deletes `canon k` for every entry, in order -/
theorem cloneHeader_regenerated_from_source_loop3 (canon : String → String) (hop : List String) (h0 out : Hdr)
    (ks : List String) : cloneHeaderIR_loop3 canon hop h0 out ks = .inr (Hdr.delAll out (ks.map canon)) := by
  induction ks generalizing out with
  | nil => rfl
  | cons k t ih => simp only [cloneHeaderIR_loop3, ih, List.map_cons, Hdr.delAll_cons]

/-- the inner loop (tokens of one `Connection` line) -/
theorem cloneHeader_regenerated_from_source_loop2 (canon : String → String) (hop : List String) (h0 out : Hdr)
    (sfs : List String) : cloneHeaderIR_loop2 canon hop h0 out sfs = .inr (Hdr.delAll out (tokS canon sfs)) := by
  induction sfs generalizing out with
  | nil => rfl
  | cons sf t ih =>
    simp only [cloneHeaderIR_loop2, ih, tokS, List.filterMap_cons]
    by_cases h : (trimS sf != "") = true
    · simp only [h, if_true, Hdr.delAll_cons]
    · simp [h]

/-- the outer loop (all `Connection` lines) -/
theorem cloneHeader_regenerated_from_source_loop1 (canon : String → String) (hop : List String) (h0 out : Hdr)
    (fs : List String) :
    cloneHeaderIR_loop1 canon hop h0 out fs =
      .inr (Hdr.delAll out (fs.flatMap fun f => tokS canon (splitCommaS f))) := by
  induction fs generalizing out with
  | nil => rfl
  | cons f t ih =>
    simp only [cloneHeaderIR_loop1, cloneHeader_regenerated_from_source_loop2, ih, List.flatMap_cons,
      Hdr.delAll_append]

theorem tokS_splitCommaS (canon : String → String) (f : String) :
    tokS canon (splitCommaS f) =
      ((splitComma f.toList).map trimString).filterMap fun sf =>
        if sf.isEmpty then none else some (canon (String.ofList sf)) := by
  unfold tokS splitCommaS
  rw [List.filterMap_map, List.filterMap_map]
  congr 1
  funext l
  have hne : ∀ l : List Char, (String.ofList l != "") = !l.isEmpty := by
    intro l; cases l with
    | nil => rfl
    | cons c t => simp
  simp only [Function.comp, trimS, String.toList_ofList, hne]
  cases (trimString l).isEmpty <;> simp

/-- **`cloneHeader` (pool.go) = the model's `cloneHeader`**, for every header set, every `Connection`
token list, every canonicalisation function and every hop table. -/
theorem cloneHeader_regenerated_from_source (canon : String → String) (hop : List String) (h : Hdr) :
    cloneHeaderIR canon hop h = cloneHeader canon hop h := by
  simp only [cloneHeaderIR, cloneHeader_regenerated_from_source_loop1, cloneHeader_regenerated_from_source_loop3,
    cloneHeader, connTokens, tokS_splitCommaS]

/-! ### compression.go -/

theorem acceptGzip_regenerated_from_source_loop (reqHdr : Hdr) (aes0 aes : List String) :
    acceptGzipIR_loop1 reqHdr aes0 aes =
      if aes.any (fun v => strContains v "*/*" || strContains v "gzip") then .inl true else .inr () := by
  induction aes with
  | nil => rfl
  | cons v t ih =>
    simp only [acceptGzipIR_loop1, ih, List.any_cons]
    by_cases h1 : strContains v "*/*" = true <;> by_cases h2 : strContains v "gzip" = true <;> simp [h1, h2]

theorem acceptGzip_regenerated_from_source (reqHdr : Hdr) : acceptGzipIR reqHdr = acceptGzip reqHdr := by
  simp only [acceptGzipIR, acceptGzip, acceptGzip_regenerated_from_source_loop]
  cases h : Hdr.get reqHdr keyAE with
  | nil => simp
  | cons v t =>
    by_cases h2 : (v :: t).any (fun v => strContains v "*/*" || strContains v "gzip") = true <;> simp [h2]

theorem alreadyGziped_regenerated_from_source_loop (respHdr : Hdr) (ces : List String) :
    alreadyGzipedIR_loop1 respHdr ces =
      if ces.any (fun v => strContains v "gzip") then .inl true else .inr () := by
  induction ces with
  | nil => rfl
  | cons v t ih =>
    simp only [alreadyGzipedIR_loop1, ih, List.any_cons]
    by_cases h : strContains v "gzip" = true <;> simp [h]

theorem alreadyGziped_regenerated_from_source (respHdr : Hdr) : alreadyGzipedIR respHdr = alreadyGzipped respHdr := by
  simp only [alreadyGzipedIR, alreadyGzipped, alreadyGziped_regenerated_from_source_loop]
  by_cases h : (Hdr.get respHdr keyCE).any (fun v => strContains v "gzip") = true <;> simp [h]

/-- `compress` returns `true` exactly when it rewrote the response, and the response afterwards is
the model's `proxyCompress`. -/
theorem compress_regenerated_from_source {β : Type} (ops : BodyOps β) (minLength : Nat) (reqHdr : Hdr) (r : Resp β) :
    compressIR ops minLength reqHdr r =
      (acceptGzip reqHdr && !alreadyGzipped r.hdr && !(r.cl != -1 && decide (r.cl < (minLength : Int))),
       proxyCompress ops minLength reqHdr r) := by
  obtain ⟨st, h, cl, pl⟩ := r
  simp only [compressIR, proxyCompress]
  by_cases h1 : acceptGzip reqHdr = true
  · by_cases h2 : alreadyGzipped h = true
    · simp [h1, h2]
    · by_cases h3 : (cl != -1 && decide (cl < (minLength : Int))) = true
      · simp [h1, h2, h3]
      · simp [h1, h2, h3]
  · simp [h1]

/-! ### server.go `checkAddrPattern` -/

/-- When `url.Parse` fails the flag keeps its old value; otherwise it is the model's classification
of `u.Host` (Go's `host[0]` on the non-empty string = the model's `head?`). -/
theorem checkAddr_regenerated_from_source (isIP : List Char → Bool) (parsed : Option (List Char)) (old : Bool) :
    checkAddrIR isIP parsed old = match parsed with
      | none => old
      | some host => addrIsHostName isIP host := by
  cases parsed with
  | none => rfl
  | some host =>
    simp only [checkAddrIR, addrIsHostName, parseIP, Option.isNone_some, Bool.false_eq_true, if_false, Option.getD_some]
    have hhead : ∀ l : List Char, (l.getD (Int.toNat 0) (Char.ofNat 0) == '[') = (l.head? == some '[') := by
      intro l; cases l with
      | nil => decide
      | cons c t => simp
    simp only [hhead]
    have h1 : Int.toNat 1 = 1 := rfl
    have hb : ∀ b : Bool, (if b = true then some () else (none : Option Unit)).isNone = !b := by
      intro b; cases b <;> rfl
    simp only [h1, hb]
    by_cases hc : lastIndex ':' host > lastIndex ']' host
    · simp only [hc, decide_true, if_true]
    · simp only [hc, decide_false, Bool.false_eq_true, if_false]

/-! ### pool.go `prepareRequest` -/

/-- `prepareRequest` fails exactly when `http.NewRequestWithContext` rejects the URL (then `spCtx.stdReq`
stays nil); otherwise `spCtx.stdReq` is the model's `prepareRequest` — for the main pool and for a
mirror pool (`mirror = true`), with or without a tracing span. -/
theorem prepare_regenerated_from_source {π : Type} (canon : String → String) (urlOK : String → Bool) (stub : π)
    (span : Option Unit) (svr : ServerCfg) (mirror : Bool) (q : PReq π) :
    prepareIR canon urlOK stub span svr mirror q =
      if urlOK (targetURL svr.url q.escapedPath q.rawQuery) then
        (false, some (prepareRequest canon hopHeaders svr mirror stub q))
      else (true, none) := by
  simp only [prepareIR, prepareRequest, newRequest, targetURL]
  have hurl : (if (q.rawQuery != "") = true then svr.url ++ q.escapedPath ++ ("?" ++ q.rawQuery) else svr.url ++ q.escapedPath)
      = svr.url ++ q.escapedPath ++ (if q.rawQuery == "" then "" else "?" ++ q.rawQuery) := by
    by_cases h : q.rawQuery = "" <;> simp [h]
  simp only [hurl]
  by_cases hu : urlOK (svr.url ++ q.escapedPath ++ (if q.rawQuery == "" then "" else "?" ++ q.rawQuery)) = true
  · simp only [hu, Bool.not_true, Bool.false_eq_true, if_false, if_true]
    all_goals (cases mirror <;> cases q.isStream <;> cases svr.addrIsHostName <;> cases svr.keepHost <;> simp)
  · have hu' : urlOK (svr.url ++ q.escapedPath ++ (if q.rawQuery == "" then "" else "?" ++ q.rawQuery)) = false := by
      simpa using hu
    simp only [hu', Bool.not_false, if_true, Bool.false_eq_true, if_false]

/-! ### pathadaptor.go `Adapt` -/

theorem strLen_ne_zero (s : String) : (s.length != 0) = (s != "") := by
  by_cases h : s = ""
  · subst h; rfl
  · have hl : s.length ≠ 0 := by
      intro hl
      apply h
      have : s.toList = [] := List.eq_nil_of_length_eq_zero (by simpa [String.length] using hl)
      exact String.ext (by simpa using this)
    have h1 : (s.length != 0) = true := by simpa using hl
    have h2 : (s != "") = true := by simpa using h
    rw [h1, h2]

theorem pathAdapt_regenerated_from_source (σ : Nat → String → String → String) (pa : PathAd) (path : String) :
    pathAdaptIR σ pa path = pa.adapt σ path := by
  simp only [pathAdaptIR, PathAd.adapt, strLen_ne_zero]
  cases h : pa.re with
  | none => simp
  | some x => obtain ⟨id, repl⟩ := x; simp

/-! ### adaptHeader (both adaptors) -/

theorem adaptHeader_loops (canon : String → String) (a : AdSpec) (h0 : Hdr) :
    (∀ (ks : List String) (h : Hdr), adaptReqHeaderIR_loop1 canon a h0 h ks = .inr (Hdr.delAll h (ks.map canon))) ∧
    (∀ (kvs : List (String × String)) (h : Hdr), adaptReqHeaderIR_loop2 canon a h0 h kvs =
        .inr ((kvs.map (fun kv => (canon kv.1, kv.2))).foldl (fun h kv => h.set kv.1 kv.2) h)) ∧
    (∀ (kvs : List (String × String)) (h : Hdr), adaptReqHeaderIR_loop3 canon a h0 h kvs =
        .inr ((kvs.map (fun kv => (canon kv.1, kv.2))).foldl (fun h kv => h.add kv.1 kv.2) h)) ∧
    (∀ (ks : List String) (h : Hdr), adaptRespHeaderIR_loop1 canon a h0 h ks = .inr (Hdr.delAll h (ks.map canon))) ∧
    (∀ (kvs : List (String × String)) (h : Hdr), adaptRespHeaderIR_loop2 canon a h0 h kvs =
        .inr ((kvs.map (fun kv => (canon kv.1, kv.2))).foldl (fun h kv => h.set kv.1 kv.2) h)) ∧
    (∀ (kvs : List (String × String)) (h : Hdr), adaptRespHeaderIR_loop3 canon a h0 h kvs =
        .inr ((kvs.map (fun kv => (canon kv.1, kv.2))).foldl (fun h kv => h.add kv.1 kv.2) h)) := by
  refine ⟨?_, ?_, ?_, ?_, ?_, ?_⟩
  · intro l; induction l with
    | nil => intro h; rfl
    | cons x t ih => intro h; simp only [adaptReqHeaderIR_loop1, ih, List.map_cons, Hdr.delAll_cons]
  · intro l; induction l with
    | nil => intro h; rfl
    | cons x t ih => intro h; obtain ⟨k, v⟩ := x; simp only [adaptReqHeaderIR_loop2, ih, List.map_cons, List.foldl_cons]
  · intro l; induction l with
    | nil => intro h; rfl
    | cons x t ih => intro h; obtain ⟨k, v⟩ := x; simp only [adaptReqHeaderIR_loop3, ih, List.map_cons, List.foldl_cons]
  · intro l; induction l with
    | nil => intro h; rfl
    | cons x t ih => intro h; simp only [adaptRespHeaderIR_loop1, ih, List.map_cons, Hdr.delAll_cons]
  · intro l; induction l with
    | nil => intro h; rfl
    | cons x t ih => intro h; obtain ⟨k, v⟩ := x; simp only [adaptRespHeaderIR_loop2, ih, List.map_cons, List.foldl_cons]
  · intro l; induction l with
    | nil => intro h; rfl
    | cons x t ih => intro h; obtain ⟨k, v⟩ := x; simp only [adaptRespHeaderIR_loop3, ih, List.map_cons, List.foldl_cons]

/-- `adaptHeader` of both adaptors = the model's `adaptHeader` on the spec with canonicalised keys. -/
theorem adaptHeader_regenerated_from_source (canon : String → String) (a : AdSpec) (h : Hdr) :
    adaptReqHeaderIR canon a h = adaptHeader (a.canonKeys canon) h ∧
    adaptRespHeaderIR canon a h = adaptHeader (a.canonKeys canon) h := by
  obtain ⟨l1, l2, l3, l4, l5, l6⟩ := adaptHeader_loops canon a h
  constructor
  · simp only [adaptReqHeaderIR, l1, l2, l3, adaptHeader, AdSpec.canonKeys]
  · simp only [adaptRespHeaderIR, l4, l5, l6, adaptHeader, AdSpec.canonKeys]

/-! ### requestadaptor.go `Handle` -/

theorem str_isEmpty_iff (s : String) : s.isEmpty = (s == "") := by
  by_cases h : s = ""
  · subst h; rfl
  · have : (s == "") = false := by simpa using h
    rw [this]
    cases hs : s.isEmpty
    · rfl
    · exfalso; apply h
      have : s.toList = [] := by simpa [String.isEmpty, String.toList_eq_nil_iff] using hs
      exact String.ext (by simpa using this)

/-- `RequestAdaptor.Handle`, request line: method / decoded path / Host afterwards are the model's `adaptReqLine`
(whatever the body / compress / decompress part does, also when it fails). -/
theorem handleReqAd_regenerated_from_source_line {β : Type} (ops : BodyOps β) (σ : Nat → String → String → String)
    (esc : String → String) (a : ReqLineAd) (hsec : Option AdSpec) (body compress decompress : String)
    (q : ReqLine) (m : ReqMsg β) :
    (handleReqAdIR ops σ a hsec body compress decompress q m).2.1 =
      ((adaptReqLine σ esc a q).method, (adaptReqLine σ esc a q).path, (adaptReqLine σ esc a q).host) := by
  simp only [handleReqAdIR, apply_ite (fun r : String × (String × String × String) × ReqMsg β => r.2.1), ite_self,
    adaptReqLine, strLen_ne_zero]
  cases a.path <;> simp

/-- `RequestAdaptor.Handle`, message: header section, body, compress, decompress — in that order — are the
model's `reqAdaptorFull`; the filter returns a failure result exactly when the model has none. -/
theorem handleReqAd_regenerated_from_source {β : Type} (ops : BodyOps β) (σ : Nat → String → String → String)
    (a : ReqLineAd) (ad : AdSpec) (q : ReqLine) (m : ReqMsg β) :
    (∀ m', reqAdaptorFull ops ad m = some m' →
      (handleReqAdIR ops σ a (some ad) ad.body (if ad.compress then "gzip" else "") (if ad.decompress then "gzip" else "") q m).1 = "" ∧
      (handleReqAdIR ops σ a (some ad) ad.body (if ad.compress then "gzip" else "") (if ad.decompress then "gzip" else "") q m).2.2 = m') ∧
    (reqAdaptorFull ops ad m = none →
      (handleReqAdIR ops σ a (some ad) ad.body (if ad.compress then "gzip" else "") (if ad.decompress then "gzip" else "") q m).1
        = "decompressFailed") := by
  obtain ⟨hdr, pl⟩ := m
  constructor
  · intro m' hm
    simp only [reqAdaptorFull, reqAdaptorHandle, str_isEmpty_iff] at hm
    simp only [handleReqAdIR, reqCompressR, reqDecompressR, strLen_ne_zero, Option.isSome_some, if_true, Option.getD_some]
    generalize adaptHeader ad hdr = H at hm ⊢
    cases hc : ad.compress <;> cases hd : ad.decompress <;> by_cases hb : ad.body = "" <;>
      simp [hc, hd, hb, keyCE] at hm ⊢
    all_goals first
      | (split at hm <;> (try split at hm) <;> (try split at hm) <;> (try simp at hm) <;> (try subst hm) <;>
          simp_all [Hdr.get_set_same, Hdr.get_del_same])
      | simp_all [Hdr.get_set_same, Hdr.get_del_same]
  · intro hm
    simp only [reqAdaptorFull, reqAdaptorHandle, str_isEmpty_iff] at hm
    simp only [handleReqAdIR, reqCompressR, reqDecompressR, strLen_ne_zero, Option.isSome_some, if_true, Option.getD_some]
    generalize adaptHeader ad hdr = H at hm ⊢
    cases hc : ad.compress <;> cases hd : ad.decompress <;> by_cases hb : ad.body = "" <;>
      simp [hc, hd, hb, keyCE] at hm ⊢
    all_goals first
      | (split at hm <;> (try split at hm) <;> (try split at hm) <;> (try simp at hm) <;>
          simp_all [Hdr.get_set_same, Hdr.get_del_same])
      | simp_all [Hdr.get_set_same, Hdr.get_del_same]

/-! ### pool.go `handleMirror`, proxy.go `Handle` -/

/-- `handleMirror` hands `fnSendRequest` exactly the model's mirror request (when a server is available and
the URL is acceptable) and never installs a response: `spCtx.resp` stays nil whatever the mirror answers. -/
theorem handleMirror_regenerated_from_source {π : Type} (canon : String → String) (urlOK : String → Bool) (stub : π)
    (span : Option Unit) (chosen : Option ServerCfg) (sendErr : Bool) (q : PReq π) :
    handleMirrorIR canon urlOK stub span chosen sendErr q =
      ((match chosen with
        | none => none
        | some svr => if urlOK (targetURL svr.url q.escapedPath q.rawQuery) then
            mirrorSent canon (some (svr, true)) stub q else none), none) := by
  cases chosen with
  | none => rfl
  | some svr =>
    simp only [handleMirrorIR, prepare_regenerated_from_source, mirrorSent, Option.isNone_some, Bool.false_eq_true,
      if_false, Option.getD_some]
    by_cases hu : urlOK (targetURL svr.url q.escapedPath q.rawQuery) = true
    · cases sendErr <;> simp [hu]
    · simp [hu]

theorem proxyHandle_regenerated_from_source_loop (mirror : Option (Nat × Bool)) (main : Nat × Bool) (cands0 : List (Nat × Bool))
    (mirrored : Bool) (sp : Nat × Bool) (cs : List (Nat × Bool)) :
    proxyHandleIR_loop1 mirror main cands0 mirrored () sp cs = .inr ((cs.find? (·.2)).getD sp) := by
  induction cs with
  | nil => rfl
  | cons v t ih =>
    simp only [proxyHandleIR_loop1, ih, List.find?_cons]
    by_cases h : v.2 = true <;> simp [h]

/-- `Proxy.Handle`: the mirror pool is started exactly when it exists and its filter matches; the request is
served by the first candidate pool whose filter matches, else by the main pool — the mirror never is that pool. -/
theorem proxyHandle_regenerated_from_source (mirror : Option (Nat × Bool)) (main : Nat × Bool) (cands : List (Nat × Bool)) :
    proxyHandleIR mirror main cands = proxyHandle mirror main cands := by
  simp only [proxyHandleIR, proxyHandle_regenerated_from_source_loop, proxyHandle]
  cases mirror <;> simp

end EgVerif.Proxy
