import EgVerif.Model.MuxCache
import EgVerif.Gen.FactsMuxIR
/-!
Regenerated tie by translation for `muxInstance.search` and `allowIP` (`notes/IR.md`, Extension mux).

`Gen.FactsMuxIR.searchIR o c q cached` is produced on every run by the go/ast micro-translator from the
current body of `muxInstance.search` (local closure `allow` inlined, `&route{…}` literals as `GoRoute`,
`getRouteFromCache` = the binder `cached`, `putRouteToCache` = the state variable `put`, three generated
loop functions). It is proved equal, for all inputs and oracles, to

* the cache-hit branch `MuxCache.hit` when the lookup returned a route, and
* the miss path `MuxCache.searchMiss` (result **and** the route put into the cache) otherwise,

through `routeGo` / `CRoute.go` (the Go view of a route has no rule / path indices).
-/
namespace EgVerif.MuxCache
open EgVerif.Mux EgVerif.Gen.FactsMuxIR

/-- `allowIP`: `none` would be a nil dereference; it never is. -/
theorem allowIP_regenerated_from_source (o : Oracle) (f : Option Nat) (ip : String) :
    allowIPIR o f ip = some (allowIP o f ip) := by
  cases f <;> simp [allowIPIR, allowIP]

/-- what `putRouteToCache` leaves behind: the route of the miss path's put, else the previous value -/
def putOf (p : Option CRoute) (put : Option GoRoute) : Option GoRoute :=
  match p with
  | some x => some x.go
  | none => put

theorem consult_map (cs : List Nat) (f : Option Nat) :
    (if f.isSome = true then cs.map some ++ [f] else cs.map some) = (consult cs f).map some := by
  cases f <;> simp [consult]

/-- the hit branch's loop over the recorded filters -/
theorem search_regenerated_from_source_loop1 (o : Oracle) (c : Cfg) (q : Req) (cached put : Option GoRoute)
    (hm mm : Bool) (ip : String) (r : Option GoRoute) (fs : List Nat) :
    searchIR_loop1 o c q cached put hm mm ip r (fs.map some) =
      if fs.all (fun f => o.allow f ip) then .inr () else .inl ((403, none), put) := by
  induction fs with
  | nil => rfl
  | cons f rest ih =>
    simp only [List.map_cons, searchIR_loop1, ih, allowIP, List.all_cons, routeRes]
    rcases Bool.eq_false_or_eq_true (o.allow f ip) with h | h <;> simp [h]

/-- the inner loop (paths of one rule) against `searchPathsC` -/
theorem search_regenerated_from_source_loop3 (o : Oracle) (c : Cfg) (q : Req) (cached : Option GoRoute)
    (r : Option GoRoute) (ri : Nat) :
    ∀ (es : List PathEntry) (pi : Nat) (cs : List Nat) (put : Option GoRoute) (hm mm : Bool),
      searchIR_loop3 o c q cached put hm mm q.ip r (cs.map some) es =
        match searchPathsC o q ri cs pi es hm mm with
        | .found x p => .inl (routeGo x, putOf p put)
        | .cont hm' mm' => .inr (put, hm', mm', r, cs.map some)
  | [], _, _, _, _, _ => rfl
  | e :: es, pi, cs, put, hm, mm => by
    have ih := search_regenerated_from_source_loop3 o c q cached r ri es (pi + 1) cs
    have hlen : decide (e.headers.length > 0) = !e.headers.isEmpty := by cases e.headers <;> simp
    have hlen0 : (e.headers.length == 0) = e.headers.isEmpty := by cases e.headers <;> simp
    simp only [searchIR_loop3, searchPathsC, hlen, hlen0, consult_map]
    cases matchPath o e q
    · simpa using ih put hm mm
    cases matchMethod e q
    · simpa using ih put hm true
    cases hh : (!e.headers.isEmpty && !matchHeaders o e q)
    · cases ha : allowIP o e.ipFilter q.ip <;> cases hc : (e.headers.isEmpty && !hm) <;>
        simp [routeRes, routeGo, CRoute.go, putOf]
    · simpa using ih put true mm

/-- the tail of `search` after the rule loop -/
def tailIR (put : Option GoRoute) (hm mm : Bool) (consulted : List (Option Nat)) : SearchRes :=
  if hm then ((400, none), put)
  else if mm then ((405, none), some ⟨405, none, consulted⟩)
  else ((404, none), some ⟨404, none, consulted⟩)

def finishIR (x : Sum SearchRes (Option GoRoute × Bool × Bool × Option GoRoute × List (Option Nat))) : SearchRes :=
  match x with
  | .inl res => res
  | .inr (put, hm, mm, _, consulted) => tailIR put hm mm consulted

/-- the outer loop (rules) followed by the tail, against `searchRulesC` -/
theorem search_regenerated_from_source_loop2 (o : Oracle) (c : Cfg) (q : Req) (cached : Option GoRoute)
    (r : Option GoRoute) :
    ∀ (rs : List Rule) (ri : Nat) (cs : List Nat) (put : Option GoRoute) (hm mm : Bool),
      finishIR (searchIR_loop2 o c q cached put hm mm q.ip r (cs.map some) rs) =
        (routeGo (searchRulesC o q ri rs cs hm mm).1, putOf (searchRulesC o q ri rs cs hm mm).2 put)
  | [], _, cs, put, hm, mm => by
    simp only [searchIR_loop2, finishIR, tailIR, searchRulesC]
    cases hm <;> cases mm <;> simp [routeGo, CRoute.go, putOf]
  | ru :: rs, ri, cs, put, hm, mm => by
    have ih := search_regenerated_from_source_loop2 o c q cached r rs (ri + 1)
    simp only [searchIR_loop2, searchRulesC, consult_map]
    cases ruleMatch o ru q
    · simpa using ih cs put hm mm
    cases ha : allowIP o ru.ipFilter q.ip
    · simp [finishIR, routeRes, routeGo, putOf]
    · have h3 := search_regenerated_from_source_loop3 o c q cached r ri ru.paths 0 (consult cs ru.ipFilter) put hm mm
      simp only [Bool.not_true, Bool.false_eq_true, if_false, h3]
      cases searchPathsC o q ri (consult cs ru.ipFilter) 0 ru.paths hm mm with
      | found x p => simp [finishIR]
      | cont hm' mm' => simpa using ih (consult cs ru.ipFilter) put hm' mm'

/-- **`muxInstance.search`, cache miss** (also `cache == nil`): the generated definition returns the
model's `searchMiss` — the route and the (at most one) route handed to `putRouteToCache`. -/
theorem search_regenerated_from_source (o : Oracle) (c : Cfg) (q : Req) :
    searchIR o c q none = (routeGo (searchMiss o c q).1, (searchMiss o c q).2.map CRoute.go) := by
  have h2 := search_regenerated_from_source_loop2 o c q none none c.rules 0 (consult [] c.ipFilter) none false false
  have hc := consult_map [] c.ipFilter
  simp only [List.map_nil] at hc
  simp only [searchIR, searchMiss, Option.isSome_none, Bool.false_eq_true, if_false, hc]
  cases ha : allowIP o c.ipFilter q.ip
  · simp [routeRes, routeGo]
  · simp only [Bool.not_true, Bool.false_eq_true, if_false]
    have hp : ∀ p : Option CRoute, putOf p none = p.map CRoute.go := by intro p; cases p <;> rfl
    rw [← hp, ← h2]
    generalize searchIR_loop2 o c q none none false false q.ip none (List.map some (consult [] c.ipFilter)) c.rules = x
    cases x with
    | inl res => rfl
    | inr t =>
      obtain ⟨put, hm, mm, r', cons⟩ := t
      cases hm <;> cases mm <;> simp [finishIR, tailIR, routeRes, routeCode]

/-- **`muxInstance.search`, cache hit**: the generated definition re-checks exactly the recorded filters
and returns the cached route or `forbidden` — the model's `hit`; nothing is put. -/
theorem search_regenerated_from_source_hit (o : Oracle) (c : Cfg) (q : Req) (r : CRoute) :
    searchIR o c q (some r.go) = (routeGo (hit o r q), none) := by
  simp only [searchIR, Option.isSome_some, if_true, routeFilters, CRoute.go,
    search_regenerated_from_source_loop1, hit]
  cases r.filters.all (fun f => o.allow f q.ip) <;> simp [routeRes, routeGo]

end EgVerif.MuxCache
