import EgVerif.Model.HotUpdate
import EgVerif.Gen.FactsC11IR
/-!
Regenerated tie by translation for C11 (`notes/IR.md`): `Gen.FactsC11IR.muxReloadIR` and
`runtimeReloadIR` are produced on every run by the go/ast micro-translator
(`harness/factextract/irlib.go`, spec in `facts_c11_ir.go`) from the current bodies of `mux.reload`
(`pkg/object/httpserver/mux.go`) and `runtime.reload` (`pkg/object/httpserver/runtime.go`); they are
proved equal to `Model/HotUpdate.lean`'s `muxReload` / `runtimeReload` for all inputs and oracles.
A changed comparison, a field of the new instance taken from somewhere else, a second `Store`, a
`Store` before the rules are built, a swapped start/close order … changes the generated definition
and breaks the corresponding proof.
-/
namespace EgVerif.HotUpdate
open EgVerif.Gen.FactsC11IR

private theorem set_mid {α : Type} (a : List α) (x y : α) (b : List α) :
    (a ++ x :: b).set a.length y = a ++ y :: b := by
  induction a with
  | nil => rfl
  | cons h t ih => simp [ih]

private theorem getD_mid {α : Type} (a : List α) (x d : α) (b : List α) :
    (a ++ x :: b).getD a.length d = x := by
  induction a with
  | nil => rfl
  | cons h t ih => simp [List.getD] at ih ⊢

/-- inner loop of `mux.reload` (`paths[j] = newMuxPath(ruleIPFilterChain, specRule.Paths[j])`): when the
first `done.length` slots are filled it fills the rest, i.e. it is a `map` over the path specs. -/
theorem muxReload_regenerated_from_source_loop2
    (newTracer : Option Nat → Option Nat × Bool) (newARC : Nat → Option Nat × Bool) (m : MuxShared) (old : MuxInst)
    (superSpec : Nat) (muxMapper : Nat) (i1 : Nat) (i2 : SrvSpec) (i3 i4 i5 : Nat) (i6 : Option Nat)
    (i7 : List Nat) (i8 : List (Option BuiltRule)) (i9 i10 : Option Nat) (eff : List MuxEffect) (spec : SrvSpec)
    (tracer : Option Nat) (oldInst : MuxInst) (specRule : SpecRule) (chain : List Nat) :
    ∀ (rest done : List Nat) (spec0 : SrvSpec), specRule.paths = done ++ rest →
      muxReloadIR_loop2 newTracer newARC m old superSpec spec0 muxMapper i1 i2 i3 i4 i5 i6 i7 i8 i9 i10 eff spec tracer
        oldInst specRule chain (done.map (fun p => some ⟨chain, p⟩) ++ List.replicate rest.length none) done.length rest.length
      = .inr (specRule.paths.map fun p => some ⟨chain, p⟩) := by
  intro rest
  induction rest with
  | nil =>
    intro done spec0 h
    simp [muxReloadIR_loop2, h]
  | cons r rest ih =>
    intro done spec0 h
    simp only [List.length_cons, muxReloadIR_loop2, List.replicate_succ]
    have hlen : done.length = (done.map (fun p => (some ⟨chain, p⟩ : Option BuiltPath))).length := by simp
    have hg : specRule.paths.getD done.length 0 = r := by rw [h]; exact getD_mid done r 0 rest
    rw [hg]
    have hset : (List.map (fun p => (some ⟨chain, p⟩ : Option BuiltPath)) done ++ none :: List.replicate rest.length none).set
        done.length (some ⟨chain, r⟩) =
        List.map (fun p => (some ⟨chain, p⟩ : Option BuiltPath)) (done ++ [r]) ++ List.replicate rest.length none := by
      conv => lhs; rw [hlen]
      rw [set_mid]; simp
    rw [hset]
    have := ih (done ++ [r]) spec (by rw [h]; simp)
    simpa using this

/-- outer loop of `mux.reload` (`inst.rules[i] = newMuxRule(inst.ipFilterChan, specRule, paths)`). -/
theorem muxReload_regenerated_from_source_loop1
    (newTracer : Option Nat → Option Nat × Bool) (newARC : Nat → Option Nat × Bool) (m : MuxShared) (old : MuxInst)
    (superSpec : Nat) (muxMapper : Nat) (i1 : Nat) (i2 : SrvSpec) (i3 i4 i5 : Nat) (i6 : Option Nat)
    (top : List Nat) (i9 i10 : Option Nat) (eff : List MuxEffect) (spec : SrvSpec)
    (tracer : Option Nat) (oldInst : MuxInst) :
    ∀ (rest done : List SpecRule) (spec0 : SrvSpec), spec.rules = done ++ rest →
      muxReloadIR_loop1 newTracer newARC m old superSpec spec0 muxMapper i1 i2 i3 i4 i5 i6 top
        (done.map (fun r => some (buildRule top r)) ++ List.replicate rest.length none) i9 i10 eff spec tracer
        oldInst done.length rest.length
      = .inr (spec.rules.map fun r => some (buildRule top r)) := by
  intro rest
  induction rest with
  | nil =>
    intro done spec0 h
    simp [muxReloadIR_loop1, h]
  | cons r rest ih =>
    intro done spec0 h
    simp only [List.length_cons, muxReloadIR_loop1]
    have hg : spec.rules.getD done.length ⟨none, [], 0⟩ = r := by rw [h]; exact getD_mid done r _ rest
    rw [hg]
    have h2 := muxReload_regenerated_from_source_loop2 newTracer newARC m old superSpec muxMapper i1 i2 i3 i4 i5 i6 top
      (done.map (fun r => some (buildRule top r)) ++ List.replicate (rest.length + 1) none) i9 i10 eff spec tracer oldInst r
      (chainAppend top r.ipFilter) r.paths [] spec (by simp)
    simp only [List.map_nil, List.nil_append, List.length_nil] at h2
    simp only [List.length_replicate, Nat.sub_zero]
    rw [h2]
    simp only [List.replicate_succ]
    have hlen : done.length = (done.map (fun r => (some (buildRule top r) : Option BuiltRule))).length := by simp
    have hset : (List.map (fun r => (some (buildRule top r) : Option BuiltRule)) done ++ none :: List.replicate rest.length none).set
        done.length (some ⟨top, r, r.paths.map fun p => some ⟨chainAppend top r.ipFilter, p⟩⟩) =
        List.map (fun r => (some (buildRule top r) : Option BuiltRule)) (done ++ [r]) ++ List.replicate rest.length none := by
      conv => lhs; rw [hlen]
      rw [set_mid]; simp [buildRule]
    rw [hset]
    have := ih (done ++ [r]) spec (by rw [h]; simp)
    simpa using this

/-- `mux.reload` — the generated definition equals the model: one `Store` of `buildInstance …`. -/
theorem muxReload_regenerated_from_source
    (newTracer : Option Nat → Option Nat × Bool) (newARC : Nat → Option Nat × Bool) (m : MuxShared) (old : MuxInst)
    (superSpec : Nat) (spec : SrvSpec) (muxMapper : Nat) :
    muxReloadIR newTracer newARC m old superSpec spec muxMapper = muxReload newTracer newARC m old superSpec spec muxMapper := by
  unfold muxReloadIR
  simp only [List.length_replicate, Nat.sub_zero]
  have h1 := fun i9 i10 tr => muxReload_regenerated_from_source_loop1 newTracer newARC m old superSpec muxMapper superSpec spec
    muxMapper m.httpStat m.topN spec.ipFilter (chainAppend [] spec.ipFilter) i9 i10 [] spec tr old spec.rules [] spec (by simp)
  simp only [List.map_nil, List.nil_append, List.length_nil] at h1
  rw [h1]
  simp only [muxReload, buildInstance, reloadTracer, List.nil_append]
  congr 3
  · by_cases ht : old.spec.tracing = spec.tracing
    · cases old.tracer <;> simp [ht]
    · cases (newTracer spec.tracing).2 <;> simp [ht]
  · by_cases hc : spec.cacheSize > 0 <;> simp [hc]

/-- `runtime.reload` — the generated definition equals the model. -/
theorem runtimeReload_regenerated_from_source (r : Runtime) (nextSuperSpec : Nat) (nextSpec : Option SrvSpec) (muxMapper : Nat) :
    runtimeReloadIR r nextSuperSpec nextSpec muxMapper = runtimeReload r nextSuperSpec nextSpec muxMapper := by
  obtain ⟨ss, cur, hl⟩ := r
  unfold runtimeReloadIR runtimeReload runtimeReloadDecision
  cases cur <;> cases nextSpec <;> cases hl <;>
    simp [needRestartOpt, ServerAction.effects] <;>
    split <;> simp_all

end EgVerif.HotUpdate
