import EgVerif.Proofs.AdminAPIRealTime
/-!
# C18 — completeness of `checkHistory.rejectedJustified` for sequential observations (audit item 17, C18 part)

A rejected mutation (409 / 404 / 400) of a sequential observation `obsSeq` is justified by the judge at the
position "number of successes before it": that position lies inside the operation's real-time window and the
replayed state there is the state the request really saw.
-/
namespace EgVerif.AdminAPI

theorem foldl_max_le {P : Op × Nat → Prop} [DecidablePred P] (c : Nat) :
    ∀ (idx : List (Op × Nat)) (acc : Nat), acc ≤ c → (∀ p ∈ idx, P p → p.2 + 1 ≤ c) →
      idx.foldl (fun acc p => if P p then max acc (p.2 + 1) else acc) acc ≤ c
  | [], acc, h, _ => by simpa using h
  | p :: ps, acc, h, hp => by
    simp only [List.foldl_cons]
    apply foldl_max_le c ps
    · split
      · rename_i hP
        have := hp p (by simp) hP
        omega
      · exact h
    · intro q hq; exact hp q (by simp [hq])

theorem le_foldl_min {P : Op × Nat → Prop} [DecidablePred P] (c : Nat) :
    ∀ (idx : List (Op × Nat)) (acc : Nat), c ≤ acc → (∀ p ∈ idx, P p → c ≤ p.2) →
      c ≤ idx.foldl (fun acc p => if P p then min acc p.2 else acc) acc
  | [], acc, h, _ => by simpa using h
  | p :: ps, acc, h, hp => by
    simp only [List.foldl_cons]
    apply le_foldl_min c ps
    · split
      · rename_i hP
        have := hp p (by simp) hP
        omega
      · exact h
    · intro q hq; exact hp q (by simp [hq])

theorem existsIn_of (lo hi c : Nat) (states : List Etcd) (p : Etcd → Bool) (e : Etcd)
    (h1 : lo ≤ c) (h2 : c ≤ hi) (hs : states[c]? = some e) (hp : p e = true) : existsIn lo hi states p = true := by
  simp only [existsIn, List.any_eq_true]
  exact ⟨(e, c), List.mem_zipIdx_iff_getElem?.mpr hs, by simp [h1, h2, hp]⟩

theorem obsSeq_append : ∀ (rs1 : List Req) (e : Etcd) (i : Nat) (rs2 : List Req),
    obsSeq e i (rs1 ++ rs2) = obsSeq e i rs1 ++ obsSeq (runSeq e rs1).1 (i + rs1.length) rs2
  | [], e, i, rs2 => by simp [obsSeq, runSeq]
  | r :: rs1, e, i, rs2 => by
    have : i + 1 + rs1.length = i + (rs1.length + 1) := by omega
    simp only [List.cons_append, obsSeq, runSeq, List.length_cons, obsSeq_append rs1, this]

theorem replay_head : ∀ (l : List Op) (e : Etcd), (replay apply e l).1[0]? = some e
  | [], e => by simp [replay]
  | o :: os, e => by
    simp only [replay]
    split <;> simp

/-- the replayed state at position "number of successes of the prefix" is the state after the prefix -/
theorem replay_at_prefix : ∀ (rs1 : List Req) (e : Etcd) (i : Nat) (l2 : List Op),
    (replay apply e ((obsSeq e i rs1).filter Op.success ++ l2)).1[((obsSeq e i rs1).filter Op.success).length]? =
      some (runSeq e rs1).1
  | [], e, i, l2 => by simp [obsSeq, runSeq, replay_head]
  | r :: rs1, e, i, l2 => by
    have ih := replay_at_prefix rs1 (apply e r).1 (i + 1) l2
    rcases apply_cases e r with ⟨hv, hst, hs⟩ | ⟨hv, hver, _, hs⟩
    · have hns : Op.success ⟨.mut r, (apply e r).2.status, (apply e r).2.version, 2 * i + 1, 2 * i + 2⟩ = false := by
        simp only [Op.success, Op.isMut, Bool.true_and]
        rcases hs with h | h | h <;> simp [h]
      simp only [obsSeq, List.filter_cons, hns, Bool.false_eq_true, if_false, runSeq]
      rw [hst] at ih ⊢
      exact ih
    · have hsu : Op.success ⟨.mut r, (apply e r).2.status, (apply e r).2.version, 2 * i + 1, 2 * i + 2⟩ = true := by
        simp only [Op.success, Op.isMut, Bool.true_and, hs]
        rcases okStatus_cases r with h | h <;> simp [h]
      simp only [obsSeq, List.filter_cons, hsu, if_true, runSeq, List.cons_append, replay, List.length_cons,
        List.getElem?_cons_succ]
      exact ih

theorem mem_obsSeq : ∀ (rs : List Req) (e : Etcd) (i : Nat) (o : Op), o ∈ obsSeq e i rs →
    ∃ rs1 r rs2, rs = rs1 ++ r :: rs2 ∧
      o = ⟨.mut r, (apply (runSeq e rs1).1 r).2.status, (apply (runSeq e rs1).1 r).2.version,
        2 * (i + rs1.length) + 1, 2 * (i + rs1.length) + 2⟩
  | [], _, _, _, h => by simp [obsSeq] at h
  | r :: rs, e, i, o, h => by
    simp only [obsSeq, List.mem_cons] at h
    rcases h with rfl | h
    · exact ⟨[], r, rs, rfl, by simp [runSeq]⟩
    · obtain ⟨rs1, r', rs2, h1, h2⟩ := mem_obsSeq rs (apply e r).1 (i + 1) o h
      refine ⟨r :: rs1, r', rs2, by simp [h1], ?_⟩
      have : i + 1 + rs1.length = i + (rs1.length + 1) := by omega
      simpa [runSeq, this] using h2

/-- **Completeness of the rejected-mutation clause**: a sequential observation passes `rejectedJustified`. -/
theorem checkHistory_complete_rejected (e0 : Etcd) (rs : List Req) (fs : Store) (fv : Nat) :
    (checkHistory apply e0 (obsSeq e0 0 rs) fs fv).rejectedJustified = true := by
  obtain ⟨_, h2, _, _⟩ := obsSeq_succ rs e0 0
  have hsorted : sortByVer ((obsSeq e0 0 rs).filter Op.success) = (obsSeq e0 0 rs).filter Op.success := by
    apply sortByVer_of_sorted
    rw [h2]
    exact (List.pairwise_lt_range' (s := _) (n := _) (step := 1) (pos := Nat.one_pos)).imp (fun h => Nat.le_of_lt h)
  simp only [checkHistory, hsorted, List.all_eq_true]
  intro o ho
  obtain ⟨rs1, r, rs2, hrs, ho'⟩ := mem_obsSeq rs e0 0 o ho
  subst hrs
  have hpw := obsSeq_pairwise (rs1 ++ r :: rs2) e0 0
  rw [obsSeq_append] at hpw ⊢
  simp only [obsSeq] at hpw ⊢
  simp only [Nat.zero_add] at ho' hpw ⊢
  -- name the pieces
  generalize hpre : obsSeq e0 0 rs1 = pre at hpw ⊢
  generalize he1 : (runSeq e0 rs1).1 = e1 at ho' hpw ⊢
  generalize hpost : obsSeq (apply e1 r).1 (rs1.length + 1) rs2 = post at hpw ⊢
  subst ho'
  simp only
  rcases apply_cases e1 r with ⟨hv, hst, hs⟩ | ⟨hv, hver, _, hs⟩
  · have hns : Op.success ⟨.mut r, (apply e1 r).2.status, (apply e1 r).2.version, 2 * rs1.length + 1, 2 * rs1.length + 2⟩ = false := by
      simp only [Op.success, Op.isMut, Bool.true_and]
      rcases hs with h | h | h <;> simp [h]
    have h49 : ((apply e1 r).2.status == 409 || (apply e1 r).2.status == 404 || (apply e1 r).2.status == 400) = true := by
      rcases hs with h | h | h <;> simp [h]
    simp only [hns, Bool.false_eq_true, if_false, h49, if_true, List.filter_append, List.filter_cons]
    obtain ⟨hp1, hp2⟩ := List.pairwise_append.mp hpw |>.2
    have hp2' := List.pairwise_cons.mp hp1 |>.1
    have hstate := replay_at_prefix rs1 e0 0 (post.filter Op.success)
    rw [hpre, he1] at hstate
    apply existsIn_of _ _ (pre.filter Op.success).length _ _ e1 ?_ ?_ hstate (by simp)
    · -- lower end of the window
      simp only [window]
      apply foldl_max_le _ _ _ (Nat.zero_le _)
      rintro ⟨x, k⟩ hx hlt
      rw [List.mem_zipIdx_iff_getElem?] at hx
      simp only at hx hlt ⊢
      by_cases hk : k < (pre.filter Op.success).length
      · omega
      · exfalso
        rw [List.getElem?_append_right (by omega)] at hx
        have hxm : x ∈ post := (List.mem_filter.mp (List.mem_of_getElem? hx)).1
        have := hp2' x hxm
        simp only at this
        omega
    · -- upper end of the window
      simp only [window]
      apply le_foldl_min _ _ _ (by simp)
      rintro ⟨x, k⟩ hx hlt
      rw [List.mem_zipIdx_iff_getElem?] at hx
      simp only at hx hlt ⊢
      by_cases hk : k < (pre.filter Op.success).length
      · exfalso
        rw [List.getElem?_append_left hk] at hx
        have hxm : x ∈ pre := (List.mem_filter.mp (List.mem_of_getElem? hx)).1
        have := hp2 x hxm _ (List.mem_cons_self)
        simp only at this
        omega
      · omega
  · have hsu : Op.success ⟨.mut r, (apply e1 r).2.status, (apply e1 r).2.version, 2 * rs1.length + 1, 2 * rs1.length + 2⟩ = true := by
      simp only [Op.success, Op.isMut, Bool.true_and, hs]
      rcases okStatus_cases r with h | h <;> simp [h]
    simp [hsu]

end EgVerif.AdminAPI

namespace EgVerif.AdminAPI

theorem obsSeq_all_mut : ∀ (rs : List Req) (e : Etcd) (i : Nat), ∀ o ∈ obsSeq e i rs, ∃ r, o.kind = .mut r
  | [], _, _ => by simp [obsSeq]
  | r :: rs, e, i => by
    intro o ho
    simp only [obsSeq, List.mem_cons] at ho
    rcases ho with rfl | ho
    · exact ⟨r, rfl⟩
    · exact obsSeq_all_mut rs _ _ o ho

/-- `obsSeq` observes mutations only, so the unlocked-read clause has nothing to check on it (it stays an
executable check for histories with reads). -/
theorem checkHistory_reads_of_obsSeq (e0 : Etcd) (rs : List Req) (fs : Store) (fv : Nat) :
    (checkHistory apply e0 (obsSeq e0 0 rs) fs fv).readsJustified = true := by
  simp only [checkHistory, List.all_eq_true]
  intro o ho
  obtain ⟨r, hr⟩ := obsSeq_all_mut rs e0 0 o ho
  simp [hr]

/-- **The judge accepts every sequential model history of mutations, in all eight fields.** -/
theorem checkHistory_complete_all (e0 : Etcd) (rs : List Req) (fs : Store)
    (hfs : storeEq (runSeq e0 rs).1.store fs = true) :
    (checkHistory apply e0 (obsSeq e0 0 rs) fs (runSeq e0 rs).1.version).all = true := by
  obtain ⟨h1, h2, h3, h4, h5⟩ := checkHistory_complete e0 rs fs hfs
  simp only [HistCheck.all, h1, h2, h3, h4, h5, checkHistory_complete_realTime, checkHistory_complete_rejected,
    checkHistory_reads_of_obsSeq, Bool.and_self]

end EgVerif.AdminAPI
