import EgVerif.Model.Delivery
import EgVerif.Gen.FactsC15IRb
import EgVerif.Proofs.Topic
/-!
# C15: `Broker.sendMsgToClient` and `topicNode.addClients` regenerated from source equal the model

`Gen/FactsC15IRb.lean` (its own generated module: a failed extraction of another function does not touch these
obligations) is produced by `harness/factextract/facts_c15_ir.go`.
-/
namespace EgVerif.Delivery
open EgVerif.Topic EgVerif.Gen.FactsC15IRb

theorem send_regenerated_from_source_loop (conn : Client → Bool) (s0 : List (Client × Nat)) (nl : Bool)
    (qos : Nat) (sb : List (Client × Nat)) : ∀ (l : List (Client × Nat)) (out : List (Client × Nat)),
    sendIR_loop1 conn s0 nl qos out sb l = .inr (out ++ (send conn qos l).map (fun c => (c, qos))) := by
  intro l
  induction l with
  | nil => intro out; simp [sendIR_loop1, send]
  | cons p r ih =>
    intro out
    obtain ⟨c, sq⟩ := p
    simp only [sendIR_loop1, send]
    by_cases h : sq < qos
    · simp only [h, decide_true, if_true]; exact ih out
    · simp only [h, decide_false, Bool.false_eq_true, if_false]
      by_cases hc : conn c = true
      · simp only [getClientE, hc, if_true, Option.isNone_some, Bool.false_eq_true, if_false, Option.getD_some]
        rw [ih]; simp
      · simp only [getClientE, hc, Bool.false_eq_true, if_false, Option.isNone_none, if_true]
        exact ih out

/-- `Broker.sendMsgToClient`: for every visiting order `subs` of the subscriber map the generated loop calls
`session.publish` exactly for `Model.Delivery.send conn qos subs`, each with the message's QoS; a nil map
(`findSubscribers` failed) reaches nobody. -/
theorem send_regenerated_from_source (conn : Client → Bool) (subs : List (Client × Nat)) (qos : Nat) :
    sendIR conn subs false qos = (send conn qos subs).map (fun c => (c, qos)) ∧
    sendIR conn subs true qos = [] := by
  constructor
  · simp [sendIR, send_regenerated_from_source_loop]
  · simp [sendIR]

end EgVerif.Delivery


namespace EgVerif.Topic
open EgVerif.Gen.FactsC15IRb

theorem addClients_regenerated_from_source_loop (cls ans0 : List (Client × Nat)) :
    ∀ (l ans : List (Client × Nat)), addClientsIR_loop1 cls ans0 ans l = .inr (l.foldl addMaxStep ans) := by
  intro l
  induction l with
  | nil => intro ans; rfl
  | cons p r ih =>
    intro ans
    obtain ⟨c, q⟩ := p
    cases hg : alGet c ans with
    | none => simp [addClientsIR_loop1, lookupQ, List.foldl_cons, addMaxStep, hg, ih]
    | some old =>
      by_cases h : q > old <;> simp [addClientsIR_loop1, lookupQ, List.foldl_cons, addMaxStep, hg, h, ih]

/-- **`topicNode.addClients`** (the site of fix bcc037f): the loop keeps, per client, the larger of the QoS
already in the result map and the node's — `Model.Topic.addMax`. -/
theorem addClients_regenerated_from_source (cls ans : List (Client × Nat)) :
    addClientsIR cls ans = addMax cls ans := by
  simp [addClientsIR, addMax, addClients_regenerated_from_source_loop]

/-- combination of "already in the map" and "highest own QoS among the new hits" -/
def optMax : Option Nat → Option Nat → Option Nat
  | none, x => x
  | x, none => x
  | some a, some b => some (max a b)

theorem alGet_addMaxStep (c : Client) (ans : List (Client × Nat)) (p : Client × Nat) :
    alGet c (addMaxStep ans p) = if p.1 = c then optMax (alGet c ans) (some p.2) else alGet c ans := by
  obtain ⟨c', q⟩ := p
  simp only [addMaxStep]
  by_cases e : c' = c
  · subst e
    cases hg : alGet c' ans with
    | none => simp [alGet_alSet, optMax]
    | some old =>
      by_cases h : q > old
      · have : max old q = q := by omega
        simp [h, alGet_alSet, optMax, this]
      · have : max old q = old := by omega
        simp [h, hg, optMax, this]
  · have e' : ¬ c = c' := fun x => e x.symm
    cases hg : alGet c' ans with
    | none => simp [alGet_alSet, e, e']
    | some old => by_cases h : q > old <;> simp [h, alGet_alSet, e, e']

theorem optMax_assoc_own (a : Option Nat) (q : Nat) (o : Option Nat) :
    optMax (optMax a (some q)) o = optMax a (match o with | some q' => some (max q q') | none => some q) := by
  cases a <;> cases o <;> simp [optMax, Nat.max_assoc]

/-- the map built by successive `addClients` calls holds, per client, the maximum of what was there and of its
own hits — so starting from the empty map it is `collapseMax` of all hits, as a map -/
theorem alGet_addMax (c : Client) : ∀ (l ans : List (Client × Nat)),
    alGet c (addMax l ans) = optMax (alGet c ans) (ownMax c l) := by
  intro l
  induction l with
  | nil => intro ans; cases h : alGet c ans <;> simp [addMax, ownMax, optMax, h]
  | cons p r ih =>
    intro ans
    obtain ⟨c', q⟩ := p
    have hstep : addMax ((c', q) :: r) ans = addMax r (addMaxStep ans (c', q)) := rfl
    rw [hstep, ih, alGet_addMaxStep]
    simp only [ownMax]
    by_cases e : c' = c
    · simp only [e, if_true]
      exact optMax_assoc_own _ _ _
    · simp only [e, if_false]

theorem addMax_eq_collapseMax_map (hits : List (Client × Nat)) (c : Client) :
    alGet c (addMax hits []) = alGet c (collapseMax hits) := by
  rw [alGet_addMax, alGet_collapseMax]
  simp [alGet, optMax]

theorem addMax_append (h1 h2 ans : List (Client × Nat)) : addMax h2 (addMax h1 ans) = addMax (h1 ++ h2) ans := by
  simp [addMax, List.foldl_append]

end EgVerif.Topic
