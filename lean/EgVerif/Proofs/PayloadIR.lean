import EgVerif.Model.Payload
import EgVerif.Gen.FactsC07IR
/-!
Regenerated tie by translation for C07 (`notes/IR.md`, `notes/C07.md` "Extension proxy"):
`Gen.FactsC07IR.fetchReqIR / fetchRespIR / serveIR / buildRespIR` are produced on every run by the
go/ast micro-translator from the current bodies of `Request.FetchPayload`, `Response.FetchPayload`,
the tail of `muxInstance.serveHTTP` (limit selection → 413 / 400 → handler) and the tail of
`ServerPool.buildResponse` (limit selection → FetchPayload → error / deliver). They are the
hand-written `fetch` / `fetchResp` / `serve` / `poolResp` of `Model/Payload.lean` on every input.
A changed comparison, default, branch order, error mapping or a removed `return` in the source
changes the generated definition and breaks these proofs.
-/
namespace EgVerif.Payload
open EgVerif.Gen.FactsC07IR

set_option linter.unusedSimpArgs false

private theorem normLimit_merge (dflt limit : Int) :
    (if (limit == 0) = true then dflt else limit) = normLimit dflt limit := rfl

/-- case analysis over the branches of `FetchPayload` once the limit in force is `lim ≥ 0`
(goal: the translated tail = the model's tail, source `⟨d, a⟩`, reader ending `f`). -/
local macro "fetch_tail" lim:ident d:ident a:ident f:ident h1:ident : tactic => `(tactic|
  (by_cases h2 : $d > $lim
   · have h2' : ¬ $d < 0 := by omega
     cases $f:ident <;> simp [$h1:ident, h2, h2', toOutcome]
   · by_cases h3 : $d > 0
     · have h5 : ¬ ($d).toNat = 0 := by omega
       have h8 : (max $d 0).toNat = ($d).toNat := by omega
       have h3' : ¬ $d < 0 := by omega
       by_cases h4 : ($d).toNat ≤ $a
       · cases $f:ident <;> simp [$h1:ident, h2, h3, h3', h4, h5, h8, toOutcome]
       · by_cases h6 : $a = 0
         · cases $f:ident <;> simp [$h1:ident, h2, h3, h3', h4, h5, h6, toOutcome]
         · cases $f:ident <;> simp [$h1:ident, h2, h3, h3', h4, h5, h6, toOutcome]
     · by_cases h4 : $d = 0
       · cases $f:ident <;> simp [$h1:ident, h4, toOutcome]
       · have h4' : $d < 0 := by omega
         by_cases h5 : (min $a ($lim).toNat : Nat) < ($lim).toNat
         · have h9 : ((min $a ($lim).toNat : Nat) : Int) < $lim := by omega
           have h10 : $a < ($lim).toNat := by omega
           have h11 : $a ≤ ($lim).toNat := by omega
           cases $f:ident <;> simp [$h1:ident, h2, h3, h4, h4', h5, h9, h10, h11, toOutcome]
         · have h6 : ¬ ((min $a ($lim).toNat : Nat) : Int) < $lim := by omega
           have h10 : ¬ $a < ($lim).toNat := by omega
           by_cases h7 : $a - min $a ($lim).toNat > 0
           · have h11 : ¬ $a ≤ ($lim).toNat := by omega
             cases $f:ident <;> simp [$h1:ident, h2, h3, h4, h4', h5, h6, h7, h10, h11, toOutcome]
           · have h11 : $a ≤ ($lim).toNat := by omega
             have h12 : ¬ (($a : Nat) : Int) < $lim := by omega
             cases $f:ident <;> simp [$h1:ident, h2, h3, h4, h4', h5, h6, h7, h10, h11, h12, toOutcome]))

/-- `Request.FetchPayload`, as re-translated from request.go, is the model's `fetchRd` for either kind of reader
(ending with `io.EOF`, or failing with `io.ErrUnexpectedEOF` after `actual` bytes): the pair (payload installed by
`SetPayload` / `r.stream`, returned error) means exactly the model's outcome; in particular the translated code
never returns a bare `io.EOF` or `nil` without a payload. -/
theorem fetchReqRd_regenerated_from_source (dflt limit : Int) (failing : Bool) (s : Src) :
    toOutcome (fetchReqIR dflt limit failing s) = some (fetchRd dflt limit failing s) := by
  obtain ⟨d, a⟩ := s
  simp only [fetchReqIR, fetchRd, fetch, fetchFailing, readFull, readAllLimited, copyDiscard, Rd.left, normLimit_merge]
  generalize normLimit dflt limit = lim
  by_cases h1 : lim < 0
  · cases failing <;> simp [h1, toOutcome]
  · fetch_tail lim d a failing h1

/-- … for an ordinary reader (ends with `io.EOF`): the model's `fetch`. -/
theorem fetchReq_regenerated_from_source (dflt limit : Int) (s : Src) :
    toOutcome (fetchReqIR dflt limit false s) = some (fetch dflt limit s) := by
  rw [fetchReqRd_regenerated_from_source]; simp [fetchRd]

/-- `Response.FetchPayload` (response.go) for either kind of reader; `m` is the method of the request the response
answers (`stdr.Request`, `none` = nil). -/
theorem fetchRespRd_regenerated_from_source (dflt limit : Int) (m : Option String) (failing : Bool) (s : Src) :
    toOutcome (fetchRespIR dflt limit m failing s) =
      some (if normLimit dflt limit < 0 then .stream else if (m == some "HEAD") then .ok 0 else fetchRd dflt limit failing s) := by
  obtain ⟨d, a⟩ := s
  have hm : (m.isSome && (m.getD "" == "HEAD")) = (m == some "HEAD") := by
    cases m with
    | none => rfl
    | some x => simp
  simp only [fetchRespIR, fetchRd, fetch, fetchFailing, readFull, readAllLimited, copyDiscard, Rd.left, normLimit_merge, hm]
  generalize normLimit dflt limit = lim
  by_cases h1 : lim < 0
  · cases failing <;> simp [h1, toOutcome]
  · by_cases hh : (m == some "HEAD") = true
    · simp [h1, hh, toOutcome]
    · simp only [hh, if_false, h1]
      fetch_tail lim d a failing h1

theorem fetchResp_regenerated_from_source (dflt limit : Int) (m : Option String) (s : Src) :
    toOutcome (fetchRespIR dflt limit m false s) = some (fetchResp dflt limit (m == some "HEAD") s) := by
  rw [fetchRespRd_regenerated_from_source]
  unfold fetchResp fetchRd
  by_cases h1 : normLimit dflt limit < 0 <;> by_cases h2 : (m == some "HEAD") = true <;> simp [h1, h2]

/-- **`fetchFailing` is what the translated `Response.FetchPayload` does on a failing reader of hidden length**
(the response behind the Proxy's gzip compressor / after the transparent gunzip: `ContentLength = -1`). -/
theorem fetchFailing_regenerated_from_source (dflt limit : Int) (m : Option String) (a : Nat)
    (hm : (m == some "HEAD") = false) :
    toOutcome (fetchRespIR dflt limit m true ⟨-1, a⟩) = some (fetchFailing dflt limit a) := by
  rw [fetchRespRd_regenerated_from_source]
  unfold fetchRd fetchFailing
  by_cases h1 : normLimit dflt limit < 0 <;> simp [h1, hm]

/-- The limit selection of both call sites (`x := inner; if x == 0 { x = outer }`). -/
private theorem effLimit_merge (inner outer : Int) :
    (if (inner == 0) = true then outer else inner) = effLimit inner outer := rfl

/-- The tail of `muxInstance.serveHTTP` (mux.go, from the limit selection on) is the model's `serve`:
same status written by the mux (413 / 400 / none), the handler is invoked in exactly the same cases
(with or without a global filter), and the payload it then sees is the model's. -/
theorem serve_regenerated_from_source (dflt pathL serverL : Int) (gf : Option Unit) (s : Src) :
    (serveIR dflt pathL serverL gf false s).1 = (serve dflt pathL serverL s).status ∧
    (serveIR dflt pathL serverL gf false s).2.1 = (serve dflt pathL serverL s).handled ∧
    ((serve dflt pathL serverL s).handled = true →
      toOutcome ((serveIR dflt pathL serverL gf false s).2.2, .nil) = some (serve dflt pathL serverL s).payload) := by
  have hf := fetchReq_regenerated_from_source dflt (effLimit pathL serverL) s
  simp only [serveIR, serve, effLimit_merge]
  generalize fetchReqIR dflt (effLimit pathL serverL) false s = r at hf ⊢
  obtain ⟨p, e⟩ := r
  cases e <;> cases p <;> simp [toOutcome] at hf <;> simp [← hf, toOutcome] <;> cases gf <;> simp

/-- The tail of `ServerPool.buildResponse` (pool.go, from the limit selection on) against the model's
`poolResp`: an error is returned exactly when the model does not deliver (then `spCtx.resp` stays nil,
which `handle` turns into `buildFailureResponse(500)`), otherwise `spCtx.resp` and the output response
are the response whose payload is the model's. `err0` is the incoming value of the named result. -/
theorem buildResp_regenerated_from_source (dflt poolL proxyL : Int) (m : Option String) (err0 : Err)
    (st : Nat) (s : Src) :
    let r := buildRespIR dflt poolL proxyL m err0 false s
    let w := poolResp dflt poolL proxyL (m == some "HEAD") st s
    (r.1 = .nil ↔ w.delivered = true) ∧ r.2.1 = r.2.2 ∧
    (w.delivered = false → r.2.1 = none ∧ w.status = 500) ∧
    (w.delivered = true → w.status = st ∧ ∃ p, r.2.1 = some p ∧ toOutcome (p, .nil) = some w.payload) := by
  have hf := fetchResp_regenerated_from_source dflt (effLimit poolL proxyL) m s
  simp only [buildRespIR, poolResp, effLimit_merge]
  generalize fetchRespIR dflt (effLimit poolL proxyL) m false s = r at hf ⊢
  obtain ⟨p, e⟩ := r
  cases e <;> cases p <;> simp [toOutcome] at hf <;> simp [← hf, toOutcome]

end EgVerif.Payload
