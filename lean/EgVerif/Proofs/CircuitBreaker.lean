import EgVerif.Spec.CircuitBreaker
import EgVerif.Proofs.Ring
import Mathlib.Tactic.Linarith
import Mathlib.Tactic.SplitIfs
/-! Helper lemmas for C08 (circuit breaker). Property theorems are in `Props/C08.lean`. -/
namespace EgVerif.CircuitBreaker

/-! ### `transitTo` -/

theorem transitTo_same (p : Policy) (cb : CB) (now : Int) (s : St) (h : s = cb.st) :
    transitTo p cb now s = cb := by
  simp [transitTo, h]

theorem transitTo_open (p : Policy) (cb : CB) (now : Int) (h : cb.st ≠ St.open) :
    transitTo p cb now St.open = { cb with st := St.open, transit := now, stateID := cb.stateID + 1 } := by
  have : ¬ St.open = cb.st := fun e => h e.symm
  simp [transitTo, this]

theorem transitTo_halfOpen (p : Policy) (cb : CB) (now : Int) (h : cb.st ≠ St.halfOpen) :
    transitTo p cb now St.halfOpen =
      { cb with st := St.halfOpen, transit := now, stateID := cb.stateID + 1,
                win := Win.count (newCountWin p.permitted), nHalf := 0 } := by
  have : ¬ St.halfOpen = cb.st := fun e => h e.symm
  simp [transitTo, this]

theorem transitTo_closed (p : Policy) (cb : CB) (now : Int) (h : cb.st ≠ St.closed) :
    transitTo p cb now St.closed =
      { cb with st := St.closed, transit := now, stateID := cb.stateID + 1,
                win := if p.timeBased then Win.time (newTimeWin p.size now)
                       else Win.count (newCountWin p.size) } := by
  have : ¬ St.closed = cb.st := fun e => h e.symm
  simp [transitTo, this]

theorem transitTo_spec (p : Policy) (cb : CB) (now : Int) (s : St) :
    (transitTo p cb now s).st = s ∧
    ((s = cb.st ∧ transitTo p cb now s = cb) ∨
     (s ≠ cb.st ∧ (transitTo p cb now s).stateID = cb.stateID + 1 ∧ (transitTo p cb now s).transit = now)) := by
  by_cases h : s = cb.st
  · simp [transitTo, h]
  · refine ⟨?_, Or.inr ⟨h, ?_, ?_⟩⟩ <;> (simp only [transitTo, h, if_false]; split_ifs <;> simp)

theorem acquire_id_spec (p : Policy) (cb : CB) (now : Int) :
    let r := acquire p cb now
    ((r.1.st = cb.st ∧ r.1.stateID = cb.stateID) ∨ (r.1.st ≠ cb.st ∧ r.1.stateID = cb.stateID + 1))
      ∧ r.2.id = r.1.stateID := by
  dsimp only
  cases hst : cb.st with
  | disabled => simp [acquire, hst]
  | forceOpen => simp [acquire, hst]
  | closed => simp [acquire, hst]
  | «open» =>
    by_cases hw : now - cb.transit < p.waitOpen
    · simp [acquire, hst, hw]
    · have hne : cb.st ≠ St.halfOpen := by simp [hst]
      simp only [acquire, hst, hw, transitTo_halfOpen p cb now hne]
      by_cases hp : 0 < p.permitted
      · simp [hp]
      · have hmw : ¬ (0 < p.maxWaitHalf ∧ p.maxWaitHalf < 0) := by omega
        simp [hp, hmw]
  | halfOpen =>
    by_cases hp : cb.nHalf < p.permitted
    · simp [acquire, hst, hp]
    · by_cases hmw : p.maxWaitHalf > 0 ∧ now - cb.transit > p.maxWaitHalf
      · have hne : cb.st ≠ St.open := by simp [hst]
        simp [acquire, hst, hp, hmw, transitTo_open p cb now hne]
      · simp [acquire, hst, hp, hmw]

theorem record_id_spec (p : Policy) (cb : CB) (id : Nat) (e : Bool) (d now : Int) :
    let cb' := record p cb id e d now
    (cb'.st = cb.st ∧ cb'.stateID = cb.stateID) ∨ (cb'.st ≠ cb.st ∧ cb'.stateID = cb.stateID + 1) := by
  dsimp only
  unfold record
  dsimp only
  have key : ∀ s, let c := transitTo p { cb with win := cb.win.push now (classify p e d) } now s
      (c.st = cb.st ∧ c.stateID = cb.stateID) ∨ (c.st ≠ cb.st ∧ c.stateID = cb.stateID + 1) := by
    intro s
    dsimp only
    have := transitTo_spec p { cb with win := cb.win.push now (classify p e d) } now s
    rcases this with ⟨h1, ⟨h2, h3⟩ | ⟨h2, h3, _⟩⟩
    · left; rw [h3]; simp
    · right; rw [h1]; exact ⟨h2, h3⟩
  split_ifs <;> first | (left; exact ⟨rfl, rfl⟩) | exact key _

/-! ### windows: the total is positive right after a push -/

theorem CountWin.push_total_pos (w : CountWin) (r : Res) : 0 < (w.push r).total := by
  simp [CountWin.push]

theorem TimeWin.push_total_pos (w : TimeWin) (now : Int) (r : Res) : 0 < (w.push now r).total := by
  simp [TimeWin.push]

theorem Win.push_total_pos (w : Win) (now : Int) (r : Res) : 0 < (w.push now r).total := by
  cases w with
  | count c => exact CountWin.push_total_pos c r
  | time t => exact TimeWin.push_total_pos t now r

/-- Floor division is exact for "at or above the threshold". -/
theorem rate_ge_iff' (f t T : Nat) (ht : 0 < t) : f * 100 / t ≥ T ↔ 100 * f ≥ T * t := by
  rw [ge_iff_le, Nat.le_div_iff_mul_le ht]
  constructor <;> intro h <;> linarith

/-! ### count-based window: the ring refines "the last `N` results" -/

/-- Refinement relation between the ring `c` and the abstract window `w` (oldest first): read from
the slot `idx` onwards, the ring is `N - |w|` unused slots followed by `w`; the counters are the counts. -/
structure CountRel (N : Nat) (c : CountWin) (w : List Res) : Prop where
  len : c.bucket.length = N
  idx : c.idx < N
  ring : Ring.rot c.bucket c.idx = List.replicate (N - w.length) Res.unknown ++ w
  wlen : w.length ≤ N
  known : ∀ r ∈ w, r ≠ Res.unknown
  total : c.total = w.length
  slow : c.slow = w.count Res.slow
  failure : c.failure = w.count Res.failure

theorem countRel_new (N : Nat) (hN : 0 < N) : CountRel N (newCountWin N) [] := by
  refine ⟨by simp [newCountWin], by simpa [newCountWin] using hN, ?_, by simp, by simp, rfl, rfl, rfl⟩
  simp [newCountWin, Ring.rot]

theorem lastN_of_le (N : Nat) (l : List Res) (h : l.length ≤ N) : lastN N l = l := by
  unfold lastN
  have : l.length - N = 0 := by omega
  rw [this]; rfl

theorem countRel_push {N : Nat} {c : CountWin} {w : List Res} (h : CountRel N c w) (r : Res)
    (hr : r ≠ Res.unknown) : CountRel N (c.push r) (lastN N (w ++ [r])) := by
  obtain ⟨hlen, hidx, hring, hwlen, hknown, htot, hslow, hfail⟩ := h
  have hi : c.idx < c.bucket.length := by omega
  have hcons := Ring.rot_eq_cons c.bucket c.idx Res.unknown hi
  have hadv := Ring.rot_set_advance c.bucket c.idx r hi
  -- the new ring, in logical order
  have hring' : Ring.rot (c.push r).bucket (c.push r).idx =
      (c.bucket.drop (c.idx + 1) ++ c.bucket.take c.idx) ++ [r] := by
    simpa [CountWin.push] using hadv
  have hlen' : (c.push r).bucket.length = N := by simp [CountWin.push, hlen]
  have hidx' : (c.push r).idx < N := by
    simp only [CountWin.push]
    split <;> omega
  by_cases hfull : w.length < N
  · -- a free slot is overwritten
    have hl : lastN N (w ++ [r]) = w ++ [r] := lastN_of_le N _ (by simp; omega)
    have hrep : List.replicate (N - w.length) Res.unknown =
        Res.unknown :: List.replicate (N - (w.length + 1)) Res.unknown := by
      have : N - w.length = (N - (w.length + 1)) + 1 := by omega
      rw [this, List.replicate_succ]
    rw [hcons, hrep, List.cons_append] at hring
    obtain ⟨hold, htail⟩ := List.cons.inj hring
    rw [hl]
    refine ⟨hlen', hidx', ?_, by simp; omega, ?_, ?_, ?_, ?_⟩
    · rw [hring', htail]; simp
    · intro x hx
      rcases List.mem_append.mp hx with h1 | h1
      · exact hknown x h1
      · simp only [List.mem_singleton] at h1; exact h1 ▸ hr
    · simp only [CountWin.push, hold, if_true, htot, List.length_append, List.length_singleton]
    · simp only [CountWin.push, hold, List.count_append, hslow]
      cases r <;> simp_all
    · simp only [CountWin.push, hold, List.count_append, hfail]
      cases r <;> simp_all
  · -- the window is full: the oldest result is evicted
    have hN : w.length = N := by omega
    have hz : N - w.length = 0 := by omega
    rw [hz, List.replicate_zero, List.nil_append] at hring
    cases w with
    | nil => simp at hN; omega
    | cons x tl =>
      rw [hcons] at hring
      obtain ⟨hold, htail⟩ := List.cons.inj hring
      have hxk : x ≠ Res.unknown := hknown x (by simp)
      have hl : lastN N (x :: tl ++ [r]) = tl ++ [r] := by
        unfold lastN
        have : (x :: tl ++ [r]).length - N = 1 := by simp at hN ⊢; omega
        rw [this]; rfl
      rw [hl]
      simp only [List.length_cons] at hN htot
      refine ⟨hlen', hidx', ?_, by simp; omega, ?_, ?_, ?_, ?_⟩
      · rw [hring', htail]
        have : N - (tl ++ [r]).length = 0 := by simp; omega
        rw [this]; simp
      · intro y hy
        rcases List.mem_append.mp hy with h1 | h1
        · exact hknown y (by simp [h1])
        · simp only [List.mem_singleton] at h1; exact h1 ▸ hr
      · simp only [CountWin.push, hold, hxk, if_false, htot, List.length_append, List.length_singleton]
        omega
      · simp only [CountWin.push, hold, hslow, List.count_cons, List.count_append]
        cases x <;> cases r <;> simp_all
      · simp only [CountWin.push, hold, hfail, List.count_cons, List.count_append]
        cases x <;> cases r <;> simp_all

/-- the abstraction function: the results held by the ring, oldest first -/
def CountWin.abs (c : CountWin) : List Res :=
  (Ring.rot c.bucket c.idx).filter (fun r => r != Res.unknown)

theorem countRel_abs {N : Nat} {c : CountWin} {w : List Res} (h : CountRel N c w) : c.abs = w := by
  unfold CountWin.abs
  rw [h.ring, List.filter_append]
  have h1 : (List.replicate (N - w.length) Res.unknown).filter (fun r => r != Res.unknown) = [] := by
    rw [List.filter_eq_nil_iff]; intro a ha; simp [List.eq_of_mem_replicate ha]
  have h2 : w.filter (fun r => r != Res.unknown) = w := by
    rw [List.filter_eq_self]; intro a ha; simpa using h.known a ha
  rw [h1, h2]; rfl

end EgVerif.CircuitBreaker
