import EgVerif.Proofs.Delivery
/-!
# C15 extension (engineer mqtt): packet-id allocation for ALL traces, the uint16 wrap-around onto a
still-pending id, and what `doResend` guarantees for EVERY pending message.

Helper lemmas; the property theorems are re-stated in `Props/C15.lean`.
-/
namespace EgVerif.SessionQueue
open EgVerif.Topic (alGet alSet alErase alGet_none_iff alGet_mem mem_alGet)

/-! ### the UNREPAIRED code (`publishOld`, before fix `C15-packet-id-skip-pending`): allocation law and the wrap -/

/-- number of packet ids consumed by a trace starting from `n` -/
def consumed (n : Nat) : List Ev → Nat
  | [] => n
  | .publish true _ _ :: r => consumed (n + 1) r
  | _ :: r => consumed n r


theorem doResend_nextID (online : Bool) (s : Sess) : (doResend online s).1.nextID = s.nextID := by
  unfold doResend
  split
  · rfl
  · split <;> rfl

theorem publishOld_nextID (full : Bool) (m : Msg) (s : Sess) :
    (publishOld true full m s).1.nextID = (s.nextID + 1) % idMod := by
  unfold publishOld
  by_cases h0 : m.qos = 0
  · simp [h0]
  · by_cases h1 : m.qos = 1 <;> simp [h0, h1]

theorem publishOld_offline (full : Bool) (m : Msg) (s : Sess) : publishOld false full m s = (s, []) := by
  simp [publishOld]

/-- the counter after a trace = number of online publishes (any QoS, dropped or not) mod 65 536 -/
theorem nextID_runOld (tr : List Ev) : ∀ (s : Sess) (n : Nat), s.nextID = n % idMod →
    (runOld s tr).nextID = consumed n tr % idMod := by
  induction tr with
  | nil => intro s n h; simpa [runOld, consumed] using h
  | cons e r ih =>
    intro s n h
    cases e with
    | publish online full m =>
      cases online with
      | true =>
        simp only [runOld, stepOld, consumed]
        apply ih
        rw [publishOld_nextID, h, Nat.add_mod, Nat.mod_mod, ← Nat.add_mod]
      | false =>
        simp only [runOld, stepOld, consumed, publishOld_offline]
        exact ih s n h
    | puback i =>
      simp only [runOld, stepOld, consumed]
      exact ih _ n (by simpa [puback] using h)
    | tick o =>
      simp only [runOld, stepOld, consumed]
      exact ih _ n (by rw [doResend_nextID]; exact h)

/-- the packet written by an online QoS1 publish carries the current counter value -/
theorem publishOld_qos1_out (full : Bool) (m : Msg) (s : Sess) (h : m.qos = 1) :
    (publishOld true full m s).2 = [pkt s.nextID m] := by
  simp [publishOld, h]

/-! ### wrap-around onto a still-pending id -/

theorem alGet_alSet_same {κ β : Type} [DecidableEq κ] (k : κ) (v : β) (l : List (κ × β)) :
    alGet k (alSet k v l) = some v := by
  induction l with
  | nil => simp [alSet, alGet]
  | cons p r ih =>
    obtain ⟨a, b⟩ := p
    by_cases h : a = k
    · simp [alSet, alGet, h]
    · simp [alSet, alGet, h, ih]

theorem alSet_keys_of_mem {κ β : Type} [DecidableEq κ] (k : κ) (v : β) (l : List (κ × β))
    (h : k ∈ l.map Prod.fst) : (alSet k v l).map Prod.fst = l.map Prod.fst := by
  induction l with
  | nil => simp at h
  | cons p r ih =>
    obtain ⟨a, b⟩ := p
    by_cases e : a = k
    · simp [alSet, e]
    · have : k ∈ r.map Prod.fst := by
        simp only [List.map_cons, List.mem_cons] at h
        rcases h with h | h
        · exact absurd h.symm e
        · exact h
      simp [alSet, e, ih this]

/-- **One step of the wrap.** If the counter has come round to an id that is still pending, the next online
QoS1 publish *replaces* the pending message under that id (no new entry: the key set is unchanged), and the id
is queued a second time. The older message is gone without ever having been acknowledged. -/
theorem wrap_overwrites_pending_step (s : Sess) (m m' : Msg) (full : Bool)
    (hp : alGet s.nextID s.pending = some m) (h1 : m'.qos = 1) :
    alGet s.nextID (publishOld true full m' s).1.pending = some m' ∧
    (publishOld true full m' s).1.pending.map Prod.fst = s.pending.map Prod.fst ∧
    (publishOld true full m' s).1.queue = s.queue ++ [s.nextID] := by
  have hk : s.nextID ∈ s.pending.map Prod.fst := List.mem_map.mpr ⟨(s.nextID, m), alGet_mem hp, rfl⟩
  simp only [publishOld, h1, Bool.not_true, Bool.false_eq_true, if_false, if_true,
    show ¬ ((1 : Nat) = 0) by decide, pkt]
  exact ⟨alGet_alSet_same _ _ _, alSet_keys_of_mem _ _ _ hk, trivial⟩

/-- online publishes that are not QoS1 ("noise": QoS0 copies, dropped or not, and QoS2) -/
def noise (l : List (Bool × Msg)) : List Ev := l.map (fun p => Ev.publish true p.1 p.2)

theorem runOld_noise (l : List (Bool × Msg)) (hl : ∀ p ∈ l, p.2.qos ≠ 1) : ∀ (s : Sess),
    runOld s (noise l) = { s with nextID := (s.nextID + l.length) % idMod } ∨
    (l = [] ∧ runOld s (noise l) = s) := by
  induction l with
  | nil => intro s; right; exact ⟨rfl, rfl⟩
  | cons p r ih =>
    intro s
    left
    have hp : p.2.qos ≠ 1 := hl p (List.mem_cons_self)
    have hr : ∀ q ∈ r, q.2.qos ≠ 1 := fun q hq => hl q (List.mem_cons_of_mem _ hq)
    have e1 : (stepOld s (Ev.publish true p.1 p.2)).1 = { s with nextID := (s.nextID + 1) % idMod } := by
      simp only [stepOld, publishOld]
      by_cases h0 : p.2.qos = 0
      · simp [h0]
      · simp [h0, hp]
    simp only [noise, List.map_cons, runOld]
    rw [e1]
    rcases ih hr { s with nextID := (s.nextID + 1) % idMod } with h | ⟨hnil, h⟩
    · simp only [noise] at h
      rw [h]
      simp only [List.length_cons]
      congr 1
      rw [Nat.add_mod, Nat.mod_mod, ← Nat.add_mod]
      congr 1
      omega
    · subst hnil
      simp only [noise, List.map_nil, runOld] at h ⊢
      simp

theorem runOld_noise_pending (l : List (Bool × Msg)) (hl : ∀ p ∈ l, p.2.qos ≠ 1) (s : Sess) :
    (runOld s (noise l)).pending = s.pending ∧ (runOld s (noise l)).queue = s.queue ∧
    (runOld s (noise l)).nextID = (s.nextID + l.length) % idMod ∨
    (l = [] ∧ runOld s (noise l) = s) := by
  rcases runOld_noise l hl s with h | h
  · left; rw [h]; exact ⟨rfl, rfl, rfl⟩
  · right; exact h

theorem runOld_append (a b : List Ev) : ∀ s, runOld s (a ++ b) = runOld (runOld s a) b := by
  induction a with
  | nil => intro s; rfl
  | cons e r ih => intro s; simp only [List.cons_append, runOld, ih]

/-- the wrap history: a QoS1 message, then 65 535 other online publishes, then a second QoS1 message -/
def wrapTrace (f f' : Bool) (m m' : Msg) (l : List (Bool × Msg)) : List Ev :=
  Ev.publish true f m :: (noise l ++ [Ev.publish true f' m'])

/-- **The wrap is reachable from a fresh session**: after `publish m` (QoS1, id 0), 65 535 online publishes of
any other QoS (they consume ids 1 … 65 535) and `publish m'` (QoS1), the session's `pending` map holds only
`m'` under id 0 — `m`, never acknowledged, has been overwritten — and the queue is `[0, 0]`. -/
theorem wrap_state (f f' : Bool) (m m' : Msg) (l : List (Bool × Msg)) (h1 : m.qos = 1) (h1' : m'.qos = 1)
    (hl : ∀ p ∈ l, p.2.qos ≠ 1) (hlen : l.length = 65535) :
    (runOld Sess.init (wrapTrace f f' m m' l)).pending = [(0, m')] ∧
    (runOld Sess.init (wrapTrace f f' m m' l)).queue = [0, 0] ∧
    (runOld Sess.init (wrapTrace f f' m m' l)).nextID = 1 := by
  have hne : l ≠ [] := by intro e; rw [e] at hlen; simp at hlen
  simp only [wrapTrace, runOld, runOld_append]
  have e0 : (stepOld Sess.init (Ev.publish true f m)).1 = ⟨[(0, m)], [0], 1⟩ := by
    simp [stepOld, publishOld, h1, Sess.init, pkt, alSet, idMod]
  rw [e0]
  rcases runOld_noise l hl ⟨[(0, m)], [0], 1⟩ with h | ⟨hnil, _⟩
  · rw [h]
    simp only [hlen]
    simp [stepOld, publishOld, h1', pkt, alSet, idMod]
  · exact absurd hnil hne

/-- only `(i, m)` can be found in `pending` -/
def PendOnly (s : Sess) (i : Id) (m : Msg) : Prop := ∀ j x, alGet j s.pending = some x → j = i ∧ x = m

theorem alGet_alErase_some {κ β : Type} [DecidableEq κ] {k j : κ} {l : List (κ × β)} {x : β}
    (h : alGet j (alErase k l) = some x) : alGet j l = some x := by
  induction l with
  | nil => simp [alErase, alGet] at h
  | cons p r ih =>
    obtain ⟨a, b⟩ := p
    by_cases e : a = k
    · have hr : alErase k ((a, b) :: r) = alErase k r := by simp [alErase, e]
      rw [hr] at h
      have hj : alGet j r = some x := ih h
      by_cases e2 : a = j
      · -- j = k: but then j cannot be found after erasing k
        exfalso
        have : j ∉ (alErase k r).map Prod.fst := by
          intro hm
          obtain ⟨q, hq, hq2⟩ := List.mem_map.mp hm
          have := (List.mem_filter.mp hq).2
          simp only [ne_eq, decide_not, Bool.not_eq_eq_eq_not, Bool.not_true, decide_eq_false_iff_not] at this
          exact this (by rw [hq2, ← e2, e])
        exact this (List.mem_map.mpr ⟨(j, x), alGet_mem h, rfl⟩)
      · simp [alGet, e2, hj]
    · have hr : alErase k ((a, b) :: r) = (a, b) :: alErase k r := by simp [alErase, e]
      rw [hr] at h
      by_cases e2 : a = j
      · simp [alGet, e2] at h ⊢; exact h
      · simp only [alGet, e2, if_false] at h ⊢; exact ih h

theorem pendOnly_puback {s : Sess} {i : Id} {m : Msg} (h : PendOnly s i m) (k : Id) :
    PendOnly (puback k s) i m := fun j x hx => h j x (alGet_alErase_some hx)

theorem pendOnly_tick {s : Sess} {i : Id} {m : Msg} (h : PendOnly s i m) (online : Bool) :
    PendOnly (doResend online s).1 i m ∧ ∀ p ∈ (doResend online s).2, p = pkt i m := by
  unfold doResend
  split
  · exact ⟨h, by simp⟩
  · have fp := firstPending_spec s.queue s.pending
    cases hf : firstPending s.queue s.pending with
    | none => exact ⟨h, by simp⟩
    | some x =>
      obtain ⟨q', j, mm⟩ := x
      rw [hf] at fp
      obtain ⟨_, _, _, _, _, h4⟩ := fp
      obtain ⟨rfl, rfl⟩ := h j mm h4
      refine ⟨h, ?_⟩
      intro p hp
      cases online <;> simp at hp
      exact hp

/-- a continuation without publishes: PUBACKs (any ids) and ticks only -/
def NoPublish (tr : List Ev) : Prop := ∀ e ∈ tr, ∀ o f m, e ≠ Ev.publish o f m

theorem pendOnly_outputs (tr : List Ev) : ∀ {s : Sess} {i : Id} {m : Msg}, PendOnly s i m → NoPublish tr →
    ∀ p ∈ outputsOld s tr, p = pkt i m := by
  induction tr with
  | nil => intro s i m _ _ p hp; simp [outputsOld] at hp
  | cons e r ih =>
    intro s i m h hn p hp
    have hr : NoPublish r := fun e' he' => hn e' (List.mem_cons_of_mem _ he')
    simp only [outputsOld, List.mem_append] at hp
    cases e with
    | publish o f mm => exact absurd rfl (hn _ (List.mem_cons_self) o f mm)
    | puback k =>
      rcases hp with hp | hp
      · simp [stepOld] at hp
      · exact ih (s := (stepOld s (Ev.puback k)).1) (by simpa [stepOld] using pendOnly_puback h k) hr p hp
    | tick o =>
      have := pendOnly_tick h o
      rcases hp with hp | hp
      · exact this.2 p (by simpa [stepOld] using hp)
      · exact ih (s := (stepOld s (Ev.tick o)).1) (by simpa [stepOld] using this.1) hr p hp

/-- **After the wrap the older message is never retransmitted**, whatever PUBACKs and however many ticks
follow: every packet written from then on is `m'` under id 0. -/
theorem wrap_never_resends_old (f f' : Bool) (m m' : Msg) (l : List (Bool × Msg)) (h1 : m.qos = 1)
    (h1' : m'.qos = 1) (hl : ∀ p ∈ l, p.2.qos ≠ 1) (hlen : l.length = 65535) (rest : List Ev)
    (hrest : NoPublish rest) :
    ∀ p ∈ outputsOld (runOld Sess.init (wrapTrace f f' m m' l)) rest, p = pkt 0 m' := by
  apply pendOnly_outputs rest _ hrest
  intro j x hx
  rw [(wrap_state f f' m m' l h1 h1' hl hlen).1] at hx
  by_cases e : 0 = j
  · simp [alGet, e] at hx; exact ⟨e.symm, hx.symm⟩
  · simp [alGet, e] at hx

/-- the unrepaired code's observation trace -/
def traceOld (s : Sess) : List Ev → List (Ev × List Packet)
  | [] => []
  | e :: r => (e, (stepOld s e).2) :: traceOld (stepOld s e).1 r

theorem traceOld_append (a b : List Ev) : ∀ s, traceOld s (a ++ b) = traceOld s a ++ traceOld (runOld s a) b := by
  induction a with
  | nil => intro s; rfl
  | cons e r ih => intro s; simp only [List.cons_append, traceOld, runOld, ih]

theorem unackedObs_append (a b : List (Ev × List Packet)) : ∀ u, unackedObs u (a ++ b) = unackedObs (unackedObs u a) b := by
  induction a with
  | nil => intro u; rfl
  | cons e r ih => intro u; obtain ⟨e1, e2⟩ := e; simp only [List.cons_append, unackedObs, ih]

theorem unackedObs_noiseOld (l : List (Bool × Msg)) (hl : ∀ p ∈ l, p.2.qos ≠ 1) : ∀ (s : Sess) (u : List (Id × Msg)),
    unackedObs u (traceOld s (noise l)) = u := by
  induction l with
  | nil => intro s u; rfl
  | cons p r ih =>
    intro s u
    have hp : p.2.qos ≠ 1 := hl p (List.mem_cons_self)
    have hr : ∀ q ∈ r, q.2.qos ≠ 1 := fun q hq => hl q (List.mem_cons_of_mem _ hq)
    simp only [noise, List.map_cons, traceOld, unackedObs]
    have e : obsStep u (Ev.publish true p.1 p.2) (stepOld s (Ev.publish true p.1 p.2)).2 = u := by
      cases h : (stepOld s (Ev.publish true p.1 p.2)).2 <;> simp [obsStep, hp]
    rw [e]
    exact ih hr _ u

/-- the observation-based bookkeeping (which does not forget `m`) on the unrepaired code's wrap history -/
theorem wrap_unacked (f f' : Bool) (m m' : Msg) (l : List (Bool × Msg)) (h1 : m.qos = 1) (h1' : m'.qos = 1)
    (hl : ∀ p ∈ l, p.2.qos ≠ 1) (hlen : l.length = 65535) :
    unackedObs [] (traceOld Sess.init (wrapTrace f f' m m' l)) = [(0, m), (0, m')] := by
  have hne : l ≠ [] := by intro e; rw [e] at hlen; simp at hlen
  have e0 : stepOld Sess.init (Ev.publish true f m) = (⟨[(0, m)], [0], 1⟩, [pkt 0 m]) := by
    simp [stepOld, publishOld, h1, Sess.init, pkt, alSet, idMod]
  simp only [wrapTrace, traceOld, unackedObs, e0, traceOld_append, unackedObs_append, unackedObs_noiseOld l hl]
  rcases runOld_noise l hl ⟨[(0, m)], [0], 1⟩ with h | ⟨hnil, _⟩
  · rw [h]
    simp [obsStep, h1, h1', stepOld, publishOld, pkt, hlen, idMod]
  · exact absurd hnil hne

/-! ### the REPAIRED code: what a tick guarantees for every pending message -/

theorem outputs_append (a b : List Ev) : ∀ s, outputs s (a ++ b) = outputs s a ++ outputs (run s a) b := by
  induction a with
  | nil => intro s; rfl
  | cons e r ih => intro s; simp only [List.cons_append, outputs, run, ih, List.append_assoc]




/-- ticks never change the abstract state, so any number of ticks re-sends the same head -/
theorem ticks_only_resend_head {s : Sess} {e : Id × Msg} {u : List (Id × Msg)}
    (inv : QO s (e :: u)) : ∀ k : Nat,
    outputs s (List.replicate k (Ev.tick true)) = List.replicate k (pkt e.1 e.2) ∧
    QO (run s (List.replicate k (Ev.tick true))) (e :: u) := by
  intro k
  induction k generalizing s with
  | zero => exact ⟨rfl, inv⟩
  | succ k ih =>
    have h := doResend_spec inv true
    have := ih h.2
    simp only [List.replicate_succ, outputs, run, step]
    refine ⟨?_, this.2⟩
    rw [h.1, this.1]
    rfl

/-- the acknowledging continuation: for each unacknowledged message, oldest first, one tick and its PUBACK -/
def ackAll (u : List (Id × Msg)) : List Ev := u.flatMap (fun e => [Ev.tick true, Ev.puback e.1])

theorem filter_head_nodup (e : Id × Msg) (u : List (Id × Msg)) (nd : ((e :: u).map Prod.fst).Nodup) :
    (e :: u).filter (fun x => decide (x.1 ≠ e.1)) = u := by
  simp only [List.map_cons, List.nodup_cons] at nd
  simp only [List.filter_cons, ne_eq, not_true_eq_false, decide_false, Bool.false_eq_true, if_false]
  rw [List.filter_eq_self]
  intro x hx
  simp only [decide_not, Bool.not_eq_eq_eq_not, Bool.not_true, decide_eq_false_iff_not]
  intro e2
  exact nd.1 (List.mem_map.mpr ⟨x, hx, e2⟩)

/-- **Every pending message is retransmitted, in order, exactly once, to a client that acknowledges what it is
sent**: from any state refining `u`, the continuation tick, PUBACK(id₁), tick, PUBACK(id₂), … writes exactly
`u`'s packets and leaves nothing pending. -/
theorem drain_all (u : List (Id × Msg)) : ∀ {s : Sess}, QO s u →
    outputs s (ackAll u) = u.map (fun e => pkt e.1 e.2) ∧ QO (run s (ackAll u)) [] := by
  induction u with
  | nil => intro s inv; exact ⟨rfl, inv⟩
  | cons e r ih =>
    intro s inv
    have h1 := doResend_spec inv true
    have h2 := puback_spec h1.2 e.1
    rw [filter_head_nodup e r inv.nd] at h2
    have := ih h2
    simp only [ackAll, List.flatMap_cons, List.cons_append, List.nil_append, outputs, run, step,
      List.map_cons]
    simp only [ackAll] at this
    refine ⟨?_, this.2⟩
    rw [h1.1, this.1]
    rfl

/-! ### traces, appended -/

theorem uRun_append (a b : List Ev) : ∀ (s : Sess) (u : List (Id × Msg)),
    uRun s u (a ++ b) = uRun (run s a) (uRun s u a) b := by
  induction a with
  | nil => intro s u; rfl
  | cons e r ih => intro s u; simp only [List.cons_append, uRun, run, ih]

theorem run_append (a b : List Ev) : ∀ s, run s (a ++ b) = run (run s a) b := by
  induction a with
  | nil => intro s; rfl
  | cons e r ih => intro s; simp only [List.cons_append, run, ih]

theorem pendBound_append (a b : List Ev) : ∀ s, PendBound s (a ++ b) ↔ PendBound s a ∧ PendBound (run s a) b := by
  induction a with
  | nil => intro s; simp [PendBound, run]
  | cons e r ih => intro s; simp only [List.cons_append, PendBound, run, ih, and_assoc]

theorem noStale_append (a b : List Ev) : ∀ s, NoStaleReuse s (a ++ b) ↔ NoStaleReuse s a ∧ NoStaleReuse (run s a) b := by
  induction a with
  | nil => intro s; simp [NoStaleReuse, run]
  | cons e r ih => intro s; simp only [List.cons_append, NoStaleReuse, run, ih, and_assoc]

theorem pendBound_noPublish (r : List Ev) (h : NoPublish r) : ∀ s, PendBound s r := by
  induction r with
  | nil => intro s; trivial
  | cons e t ih =>
    intro s
    have ht : NoPublish t := fun e' he' => h e' (List.mem_cons_of_mem _ he')
    cases e with
    | publish o f m => exact absurd rfl (h _ (List.mem_cons_self) o f m)
    | puback i => exact ⟨trivial, ih ht _⟩
    | tick o => exact ⟨trivial, ih ht _⟩

theorem noStale_noPublish (r : List Ev) (h : NoPublish r) : ∀ s, NoStaleReuse s r := by
  induction r with
  | nil => intro s; trivial
  | cons e t ih =>
    intro s
    have ht : NoPublish t := fun e' he' => h e' (List.mem_cons_of_mem _ he')
    cases e with
    | publish o f m => exact absurd rfl (h _ (List.mem_cons_self) o f m)
    | puback i => exact ⟨trivial, ih ht _⟩
    | tick o => exact ⟨trivial, ih ht _⟩

/-- without publishes the bookkeeping only loses entries -/
theorem uRun_noPublish_sub (r : List Ev) (h : NoPublish r) : ∀ (s : Sess) (u : List (Id × Msg)) (e : Id × Msg),
    e ∈ uRun s u r → e ∈ u := by
  induction r with
  | nil => intro s u e he; exact he
  | cons x t ih =>
    intro s u e he
    have ht : NoPublish t := fun e' he' => h e' (List.mem_cons_of_mem _ he')
    cases x with
    | publish o f m => exact absurd rfl (h _ (List.mem_cons_self) o f m)
    | puback i =>
      have := ih ht _ _ e he
      simp only [obsStep] at this
      exact (List.mem_filter.mp this).1
    | tick o =>
      have := ih ht _ _ e he
      simpa [obsStep] using this

theorem noPublish_pubacks (l : List (Id × Msg)) : NoPublish (l.map (fun e => Ev.puback e.1)) := by
  intro e he o f m
  obtain ⟨x, _, rfl⟩ := List.mem_map.mp he
  intro h; cases h

theorem noPublish_ticks (k : Nat) (o : Bool) : NoPublish (List.replicate k (Ev.tick o)) := by
  intro e he o' f m
  rw [List.eq_of_mem_replicate he]
  intro h; cases h

/-- acknowledging a prefix of the unacknowledged list makes the next message the head -/
theorem uRun_ack_prefix (pre : List (Id × Msg)) : ∀ (s : Sess) (rest : List (Id × Msg)),
    ((pre ++ rest).map Prod.fst).Nodup →
    uRun s (pre ++ rest) (pre.map (fun e => Ev.puback e.1)) = rest := by
  induction pre with
  | nil => intro s rest _; rfl
  | cons e r ih =>
    intro s rest nd
    simp only [List.map_cons, uRun, step, obsStep, List.cons_append]
    rw [filter_head_nodup e (r ++ rest) (by simpa using nd)]
    apply ih
    simp only [List.cons_append, List.map_cons, List.nodup_cons] at nd
    exact nd.2

/-! ### the repaired allocation on the wrap history -/

theorem freeId_of_free (p : List (Id × Msg)) (i : Nat) (h : alGet i p = none) : freeId p i = i := by
  unfold freeId
  have : idMod = 65535 + 1 := rfl
  rw [this, skipPending]
  simp [h]

theorem freeId_skip_one (p : List (Id × Msg)) (i : Nat) (v : Msg) (h : alGet i p = some v)
    (h2 : alGet ((i + 1) % idMod) p = none) : freeId p i = (i + 1) % idMod := by
  unfold freeId
  have : idMod = 65534 + 1 + 1 := rfl
  rw [this, skipPending]
  simp only [h, Option.isSome_some, if_true]
  rw [skipPending]
  simp [h2]
  rfl

theorem run_noise_repaired (m : Msg) (q : List Id) : ∀ (l : List (Bool × Msg)) (k : Nat),
    (∀ p ∈ l, p.2.qos ≠ 1) → 1 ≤ k → k < idMod → k + l.length ≤ idMod →
    run ⟨[(0, m)], q, k⟩ (noise l) = ⟨[(0, m)], q, (k + l.length) % idMod⟩ := by
  intro l
  induction l with
  | nil => intro k _ h1 hk h2; simp only [noise, List.map_nil, run, List.length_nil, Nat.add_zero]; rw [Nat.mod_eq_of_lt hk]
  | cons p r ih =>
    intro k hl h1 hklt h2
    have hp : p.2.qos ≠ 1 := hl p (List.mem_cons_self)
    have hr : ∀ x ∈ r, x.2.qos ≠ 1 := fun x hx => hl x (List.mem_cons_of_mem _ hx)
    simp only [List.length_cons] at h2
    have hk : alGet k [(0, m)] = none := by
      have : ¬ (0 = k) := by omega
      simp [alGet, this]
    have e1 : (step ⟨[(0, m)], q, k⟩ (Ev.publish true p.1 p.2)).1 = ⟨[(0, m)], q, (k + 1) % idMod⟩ := by
      simp only [step, publish, freeId_of_free _ _ hk]
      by_cases h0 : p.2.qos = 0
      · simp [h0]
      · simp [h0, hp]
    simp only [noise, List.map_cons, run]
    rw [e1]
    cases r with
    | nil => simp [noise, run]
    | cons x t =>
      simp only [List.length_cons] at h2
      have hlt : k + 1 < idMod := by omega
      rw [Nat.mod_eq_of_lt hlt]
      have := ih (k + 1) hr (by omega) hlt (by simp only [List.length_cons]; omega)
      simp only [noise] at this
      rw [this]
      simp only [List.length_cons]
      congr 2
      omega

/-- **the wrap history on the REPAIRED code**: the second QoS1 message skips the still-pending id 0 and gets id 1;
both messages stay pending, the older one is what a tick re-sends -/
theorem repaired_wrap_state (f f' : Bool) (m m' : Msg) (l : List (Bool × Msg)) (h1 : m.qos = 1) (h1' : m'.qos = 1)
    (hl : ∀ p ∈ l, p.2.qos ≠ 1) (hlen : l.length = 65535) :
    run Sess.init (wrapTrace f f' m m' l) = ⟨[(0, m), (1, m')], [0, 1], 2⟩ := by
  have e0 : (step Sess.init (Ev.publish true f m)).1 = ⟨[(0, m)], [0], 1⟩ := by
    have : freeId ([] : List (Id × Msg)) 0 = 0 := freeId_of_free _ _ rfl
    simp [step, publish, h1, Sess.init, pkt, alSet, idMod, this]
  simp only [wrapTrace, run, run_append]
  rw [e0, run_noise_repaired m [0] l 1 hl (by omega) (by unfold idMod; omega) (by unfold idMod; omega)]
  have hn : (1 + l.length) % idMod = 0 := by rw [hlen]; rfl
  rw [hn]
  have hf : freeId [(0, m)] 0 = 1 := by
    have := freeId_skip_one [(0, m)] 0 m (by simp [alGet]) (by simp [alGet, idMod])
    simpa [idMod] using this
  simp [run, step, publish, h1', pkt, alSet, hf, idMod]

/-- the bookkeeping along a model run IS the judge's fold over the model's observation trace -/
theorem uRun_eq_unackedObs (tr : List Ev) : ∀ (s : Sess) (u : List (Id × Msg)),
    uRun s u tr = unackedObs u (trace s tr) := by
  induction tr with
  | nil => intro s u; rfl
  | cons e r ih => intro s u; simp only [uRun, trace, unackedObs, ih]

end EgVerif.SessionQueue
