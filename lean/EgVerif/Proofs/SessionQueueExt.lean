import EgVerif.Proofs.Delivery
/-!
# C15 extension (engineer mqtt): packet-id allocation for ALL traces, the uint16 wrap-around onto a
still-pending id, and what `doResend` guarantees for EVERY pending message.

Helper lemmas; the property theorems are re-stated in `Props/C15.lean`.
-/
namespace EgVerif.SessionQueue
open EgVerif.Topic (alGet alSet alErase alGet_none_iff alGet_mem mem_alGet)

/-! ### packet-id allocation, no `NoWrap` hypothesis -/

theorem doResend_nextID (online : Bool) (s : Sess) : (doResend online s).1.nextID = s.nextID := by
  unfold doResend
  split
  · rfl
  · split <;> rfl

theorem publish_nextID (full : Bool) (m : Msg) (s : Sess) :
    (publish true full m s).1.nextID = (s.nextID + 1) % idMod := by
  unfold publish
  by_cases h0 : m.qos = 0
  · simp [h0]
  · by_cases h1 : m.qos = 1 <;> simp [h0, h1]

theorem publish_offline (full : Bool) (m : Msg) (s : Sess) : publish false full m s = (s, []) := by
  simp [publish]

/-- the counter after a trace = number of online publishes (any QoS, dropped or not) mod 65 536 -/
theorem nextID_run (tr : List Ev) : ∀ (s : Sess) (n : Nat), s.nextID = n % idMod →
    (run s tr).nextID = consumed n tr % idMod := by
  induction tr with
  | nil => intro s n h; simpa [run, consumed] using h
  | cons e r ih =>
    intro s n h
    cases e with
    | publish online full m =>
      cases online with
      | true =>
        simp only [run, step, consumed]
        apply ih
        rw [publish_nextID, h, Nat.add_mod, Nat.mod_mod, ← Nat.add_mod]
      | false =>
        simp only [run, step, consumed, publish_offline]
        exact ih s n h
    | puback i =>
      simp only [run, step, consumed]
      exact ih _ n (by simpa [puback] using h)
    | tick o =>
      simp only [run, step, consumed]
      exact ih _ n (by rw [doResend_nextID]; exact h)

/-- the packet written by an online QoS1 publish carries the current counter value -/
theorem publish_qos1_out (full : Bool) (m : Msg) (s : Sess) (h : m.qos = 1) :
    (publish true full m s).2 = [pkt s.nextID m] := by
  simp [publish, h]

/-! ### wrap-around onto a still-pending id -/

theorem alGet_alSet_same {κ β : Type} [DecidableEq κ] (k : κ) (v : β) (l : List (κ × β)) :
    alGet k (alSet k v l) = some v := by
  induction l with
  | nil => simp [alSet, alGet]
  | cons p r ih =>
    obtain ⟨a, b⟩ := p
    by_cases h : a = k
    · simp [alSet, alGet, h]
    · simp [alSet, alGet, h, ih]

theorem alSet_keys_of_mem {κ β : Type} [DecidableEq κ] (k : κ) (v : β) (l : List (κ × β))
    (h : k ∈ l.map Prod.fst) : (alSet k v l).map Prod.fst = l.map Prod.fst := by
  induction l with
  | nil => simp at h
  | cons p r ih =>
    obtain ⟨a, b⟩ := p
    by_cases e : a = k
    · simp [alSet, e]
    · have : k ∈ r.map Prod.fst := by
        simp only [List.map_cons, List.mem_cons] at h
        rcases h with h | h
        · exact absurd h.symm e
        · exact h
      simp [alSet, e, ih this]

/-- **One step of the wrap.** If the counter has come round to an id that is still pending, the next online
QoS1 publish *replaces* the pending message under that id (no new entry: the key set is unchanged), and the id
is queued a second time. The older message is gone without ever having been acknowledged. -/
theorem wrap_overwrites_pending_step (s : Sess) (m m' : Msg) (full : Bool)
    (hp : alGet s.nextID s.pending = some m) (h1 : m'.qos = 1) :
    alGet s.nextID (publish true full m' s).1.pending = some m' ∧
    (publish true full m' s).1.pending.map Prod.fst = s.pending.map Prod.fst ∧
    (publish true full m' s).1.queue = s.queue ++ [s.nextID] := by
  have hk : s.nextID ∈ s.pending.map Prod.fst := List.mem_map.mpr ⟨(s.nextID, m), alGet_mem hp, rfl⟩
  simp only [publish, h1, Bool.not_true, Bool.false_eq_true, if_false, if_true,
    show ¬ ((1 : Nat) = 0) by decide, pkt]
  exact ⟨alGet_alSet_same _ _ _, alSet_keys_of_mem _ _ _ hk, trivial⟩

/-- online publishes that are not QoS1 ("noise": QoS0 copies, dropped or not, and QoS2) -/
def noise (l : List (Bool × Msg)) : List Ev := l.map (fun p => Ev.publish true p.1 p.2)

theorem run_noise (l : List (Bool × Msg)) (hl : ∀ p ∈ l, p.2.qos ≠ 1) : ∀ (s : Sess),
    run s (noise l) = { s with nextID := (s.nextID + l.length) % idMod } ∨
    (l = [] ∧ run s (noise l) = s) := by
  induction l with
  | nil => intro s; right; exact ⟨rfl, rfl⟩
  | cons p r ih =>
    intro s
    left
    have hp : p.2.qos ≠ 1 := hl p (List.mem_cons_self)
    have hr : ∀ q ∈ r, q.2.qos ≠ 1 := fun q hq => hl q (List.mem_cons_of_mem _ hq)
    have e1 : (step s (Ev.publish true p.1 p.2)).1 = { s with nextID := (s.nextID + 1) % idMod } := by
      simp only [step, publish]
      by_cases h0 : p.2.qos = 0
      · simp [h0]
      · simp [h0, hp]
    simp only [noise, List.map_cons, run]
    rw [e1]
    rcases ih hr { s with nextID := (s.nextID + 1) % idMod } with h | ⟨hnil, h⟩
    · simp only [noise] at h
      rw [h]
      simp only [List.length_cons]
      congr 1
      rw [Nat.add_mod, Nat.mod_mod, ← Nat.add_mod]
      congr 1
      omega
    · subst hnil
      simp only [noise, List.map_nil, run] at h ⊢
      simp

theorem run_noise_pending (l : List (Bool × Msg)) (hl : ∀ p ∈ l, p.2.qos ≠ 1) (s : Sess) :
    (run s (noise l)).pending = s.pending ∧ (run s (noise l)).queue = s.queue ∧
    (run s (noise l)).nextID = (s.nextID + l.length) % idMod ∨
    (l = [] ∧ run s (noise l) = s) := by
  rcases run_noise l hl s with h | h
  · left; rw [h]; exact ⟨rfl, rfl, rfl⟩
  · right; exact h

theorem run_append (a b : List Ev) : ∀ s, run s (a ++ b) = run (run s a) b := by
  induction a with
  | nil => intro s; rfl
  | cons e r ih => intro s; simp only [List.cons_append, run, ih]

theorem outputs_append (a b : List Ev) : ∀ s, outputs s (a ++ b) = outputs s a ++ outputs (run s a) b := by
  induction a with
  | nil => intro s; rfl
  | cons e r ih => intro s; simp only [List.cons_append, outputs, run, ih, List.append_assoc]

/-- the wrap history: a QoS1 message, then 65 535 other online publishes, then a second QoS1 message -/
def wrapTrace (f f' : Bool) (m m' : Msg) (l : List (Bool × Msg)) : List Ev :=
  Ev.publish true f m :: (noise l ++ [Ev.publish true f' m'])

/-- **The wrap is reachable from a fresh session**: after `publish m` (QoS1, id 0), 65 535 online publishes of
any other QoS (they consume ids 1 … 65 535) and `publish m'` (QoS1), the session's `pending` map holds only
`m'` under id 0 — `m`, never acknowledged, has been overwritten — and the queue is `[0, 0]`. -/
theorem wrap_state (f f' : Bool) (m m' : Msg) (l : List (Bool × Msg)) (h1 : m.qos = 1) (h1' : m'.qos = 1)
    (hl : ∀ p ∈ l, p.2.qos ≠ 1) (hlen : l.length = 65535) :
    (run Sess.init (wrapTrace f f' m m' l)).pending = [(0, m')] ∧
    (run Sess.init (wrapTrace f f' m m' l)).queue = [0, 0] ∧
    (run Sess.init (wrapTrace f f' m m' l)).nextID = 1 := by
  have hne : l ≠ [] := by intro e; rw [e] at hlen; simp at hlen
  simp only [wrapTrace, run, run_append]
  have e0 : (step Sess.init (Ev.publish true f m)).1 = ⟨[(0, m)], [0], 1⟩ := by
    simp [step, publish, h1, Sess.init, pkt, alSet, idMod]
  rw [e0]
  rcases run_noise l hl ⟨[(0, m)], [0], 1⟩ with h | ⟨hnil, _⟩
  · rw [h]
    simp only [hlen]
    simp [step, publish, h1', pkt, alSet, idMod]
  · exact absurd hnil hne

/-- only `(i, m)` can be found in `pending` -/
def PendOnly (s : Sess) (i : Id) (m : Msg) : Prop := ∀ j x, alGet j s.pending = some x → j = i ∧ x = m

theorem alGet_alErase_some {κ β : Type} [DecidableEq κ] {k j : κ} {l : List (κ × β)} {x : β}
    (h : alGet j (alErase k l) = some x) : alGet j l = some x := by
  induction l with
  | nil => simp [alErase, alGet] at h
  | cons p r ih =>
    obtain ⟨a, b⟩ := p
    by_cases e : a = k
    · have hr : alErase k ((a, b) :: r) = alErase k r := by simp [alErase, e]
      rw [hr] at h
      have hj : alGet j r = some x := ih h
      by_cases e2 : a = j
      · -- j = k: but then j cannot be found after erasing k
        exfalso
        have : j ∉ (alErase k r).map Prod.fst := by
          intro hm
          obtain ⟨q, hq, hq2⟩ := List.mem_map.mp hm
          have := (List.mem_filter.mp hq).2
          simp only [ne_eq, decide_not, Bool.not_eq_eq_eq_not, Bool.not_true, decide_eq_false_iff_not] at this
          exact this (by rw [hq2, ← e2, e])
        exact this (List.mem_map.mpr ⟨(j, x), alGet_mem h, rfl⟩)
      · simp [alGet, e2, hj]
    · have hr : alErase k ((a, b) :: r) = (a, b) :: alErase k r := by simp [alErase, e]
      rw [hr] at h
      by_cases e2 : a = j
      · simp [alGet, e2] at h ⊢; exact h
      · simp only [alGet, e2, if_false] at h ⊢; exact ih h

theorem pendOnly_puback {s : Sess} {i : Id} {m : Msg} (h : PendOnly s i m) (k : Id) :
    PendOnly (puback k s) i m := fun j x hx => h j x (alGet_alErase_some hx)

theorem pendOnly_tick {s : Sess} {i : Id} {m : Msg} (h : PendOnly s i m) (online : Bool) :
    PendOnly (doResend online s).1 i m ∧ ∀ p ∈ (doResend online s).2, p = pkt i m := by
  unfold doResend
  split
  · exact ⟨h, by simp⟩
  · have fp := firstPending_spec s.queue s.pending
    cases hf : firstPending s.queue s.pending with
    | none => exact ⟨h, by simp⟩
    | some x =>
      obtain ⟨q', j, mm⟩ := x
      rw [hf] at fp
      obtain ⟨_, _, _, _, _, h4⟩ := fp
      obtain ⟨rfl, rfl⟩ := h j mm h4
      refine ⟨h, ?_⟩
      intro p hp
      cases online <;> simp at hp
      exact hp

/-- a continuation without publishes: PUBACKs (any ids) and ticks only -/
def NoPublish (tr : List Ev) : Prop := ∀ e ∈ tr, ∀ o f m, e ≠ Ev.publish o f m

theorem pendOnly_outputs (tr : List Ev) : ∀ {s : Sess} {i : Id} {m : Msg}, PendOnly s i m → NoPublish tr →
    ∀ p ∈ outputs s tr, p = pkt i m := by
  induction tr with
  | nil => intro s i m _ _ p hp; simp [outputs] at hp
  | cons e r ih =>
    intro s i m h hn p hp
    have hr : NoPublish r := fun e' he' => hn e' (List.mem_cons_of_mem _ he')
    simp only [outputs, List.mem_append] at hp
    cases e with
    | publish o f mm => exact absurd rfl (hn _ (List.mem_cons_self) o f mm)
    | puback k =>
      rcases hp with hp | hp
      · simp [step] at hp
      · exact ih (s := (step s (Ev.puback k)).1) (by simpa [step] using pendOnly_puback h k) hr p hp
    | tick o =>
      have := pendOnly_tick h o
      rcases hp with hp | hp
      · exact this.2 p (by simpa [step] using hp)
      · exact ih (s := (step s (Ev.tick o)).1) (by simpa [step] using this.1) hr p hp

/-- **After the wrap the older message is never retransmitted**, whatever PUBACKs and however many ticks
follow: every packet written from then on is `m'` under id 0. -/
theorem wrap_never_resends_old (f f' : Bool) (m m' : Msg) (l : List (Bool × Msg)) (h1 : m.qos = 1)
    (h1' : m'.qos = 1) (hl : ∀ p ∈ l, p.2.qos ≠ 1) (hlen : l.length = 65535) (rest : List Ev)
    (hrest : NoPublish rest) :
    ∀ p ∈ outputs (run Sess.init (wrapTrace f f' m m' l)) rest, p = pkt 0 m' := by
  apply pendOnly_outputs rest _ hrest
  intro j x hx
  rw [(wrap_state f f' m m' l h1 h1' hl hlen).1] at hx
  by_cases e : 0 = j
  · simp [alGet, e] at hx; exact ⟨e.symm, hx.symm⟩
  · simp [alGet, e] at hx

theorem unackedFrom_noise (l : List (Bool × Msg)) (hl : ∀ p ∈ l, p.2.qos ≠ 1) : ∀ (st : Nat × List (Id × Msg)),
    unackedFrom st (noise l) = (st.1 + l.length, st.2) := by
  induction l with
  | nil => intro st; rfl
  | cons p r ih =>
    intro st
    have hp : p.2.qos ≠ 1 := hl p (List.mem_cons_self)
    have hr : ∀ q ∈ r, q.2.qos ≠ 1 := fun q hq => hl q (List.mem_cons_of_mem _ hq)
    simp only [noise, List.map_cons, unackedFrom, unackedStep, if_true, hp, if_false]
    have := ih hr (st.1 + 1, st.2)
    simp only [noise] at this
    rw [this]
    simp only [List.length_cons]
    congr 1
    omega

/-- the specification's bookkeeping (which does not forget `m`) after the wrap history -/
theorem wrap_unacked (f f' : Bool) (m m' : Msg) (l : List (Bool × Msg)) (h1 : m.qos = 1) (h1' : m'.qos = 1)
    (hl : ∀ p ∈ l, p.2.qos ≠ 1) (hlen : l.length = 65535) :
    (unacked (wrapTrace f f' m m' l)).2 = [(0, m), (0, m')] := by
  simp only [unacked, wrapTrace, unackedFrom, unackedStep, if_true, h1]
  rw [unackedFrom_append, unackedFrom_noise l hl]
  simp [unackedFrom, unackedStep, h1', hlen, idMod]
where
  unackedFrom_append (a b : List Ev) : ∀ st, unackedFrom st (a ++ b) = unackedFrom (unackedFrom st a) b := by
    induction a with
    | nil => intro st; rfl
    | cons e r ih => intro st; simp only [List.cons_append, unackedFrom, ih]

/-! ### what a tick guarantees for every pending message -/

/-- ticks never change the abstract state, so any number of ticks re-sends the same head -/
theorem ticks_only_resend_head {s : Sess} {n : Nat} {e : Id × Msg} {u : List (Id × Msg)}
    (inv : QInv s n (e :: u)) : ∀ k : Nat,
    outputs s (List.replicate k (Ev.tick true)) = List.replicate k (pkt e.1 e.2) ∧
    QInv (run s (List.replicate k (Ev.tick true))) n (e :: u) := by
  intro k
  induction k generalizing s with
  | zero => exact ⟨rfl, inv⟩
  | succ k ih =>
    have h := doResend_spec inv true
    have := ih h.2
    simp only [List.replicate_succ, outputs, run, step]
    refine ⟨?_, this.2⟩
    rw [h.1, this.1]
    rfl

/-- the acknowledging continuation: for each unacknowledged message, oldest first, one tick and its PUBACK -/
def ackAll (u : List (Id × Msg)) : List Ev := u.flatMap (fun e => [Ev.tick true, Ev.puback e.1])

theorem filter_head_nodup (e : Id × Msg) (u : List (Id × Msg)) (nd : ((e :: u).map Prod.fst).Nodup) :
    (e :: u).filter (fun x => decide (x.1 ≠ e.1)) = u := by
  simp only [List.map_cons, List.nodup_cons] at nd
  simp only [List.filter_cons, ne_eq, not_true_eq_false, decide_false, Bool.false_eq_true, if_false]
  rw [List.filter_eq_self]
  intro x hx
  simp only [decide_not, Bool.not_eq_eq_eq_not, Bool.not_true, decide_eq_false_iff_not]
  intro e2
  exact nd.1 (List.mem_map.mpr ⟨x, hx, e2⟩)

/-- **Every pending message is retransmitted, in order, exactly once, to a client that acknowledges what it is
sent**: from any state refining `u`, the continuation tick, PUBACK(id₁), tick, PUBACK(id₂), … writes exactly
`u`'s packets and leaves nothing pending. -/
theorem drain_all (u : List (Id × Msg)) : ∀ {s : Sess} {n : Nat}, QInv s n u →
    outputs s (ackAll u) = u.map (fun e => pkt e.1 e.2) ∧ QInv (run s (ackAll u)) n [] := by
  induction u with
  | nil => intro s n inv; exact ⟨rfl, inv⟩
  | cons e r ih =>
    intro s n inv
    have h1 := doResend_spec inv true
    have h2 := puback_spec h1.2 e.1
    rw [filter_head_nodup e r inv.nd] at h2
    have := ih h2
    simp only [ackAll, List.flatMap_cons, List.cons_append, List.nil_append, outputs, run, step,
      List.map_cons]
    simp only [ackAll] at this
    refine ⟨?_, this.2⟩
    rw [h1.1, this.1]
    rfl

end EgVerif.SessionQueue
