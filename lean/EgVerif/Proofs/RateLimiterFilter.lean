import EgVerif.Model.RateLimiterFilter
import Mathlib.Tactic.Linarith
import Mathlib.Tactic.SplitIfs
/-! Helper lemmas for the C09 extension, filter level (`Handle`, `reload`). -/
namespace EgVerif.RateLimiterFilter
open EgVerif.RateLimiter

def noLimit : HOut := { result := "", status := none, asked := none, waited := 0 }

theorem handle_all_false (now : Nat → Int) : ∀ (ms : List Bool) (rls : List (Option Nat)) (h : Heap),
    (∀ b ∈ ms, b = false) → handle now ms rls h = some (h, noLimit)
  | [], rls, h, _ => by cases rls <;> simp [handle, noLimit]
  | true :: ms, _, _, hall => by simp at hall
  | false :: ms, [], h, _ => by simp [handle, noLimit]
  | false :: ms, _ :: rls, h, hall => by
    simp only [handle]
    exact handle_all_false now ms rls h (fun b hb => hall b (by simp [hb]))

/-- rules before the first matching one are skipped -/
theorem handle_skip (now : Nat → Int) : ∀ (pre : List (Option Nat)) (ms : List Bool) (post : List (Option Nat))
    (h : Heap), handle now (List.replicate pre.length false ++ ms) (pre ++ post) h = handle now ms post h
  | [], ms, post, h => by simp
  | _ :: pre, ms, post, h => by
    simp only [List.length_cons, List.replicate_succ, List.cons_append, handle]
    exact handle_skip now pre ms post h

theorem heapGet_heapSet_other (h : Heap) (id id' : Nat) (l : Lim) (hne : id' ≠ id) :
    heapGet (heapSet h id l) id' = heapGet h id' := by
  unfold heapGet heapSet
  induction h with
  | nil => rfl
  | cons e es ih =>
    simp only [List.map_cons, List.find?_cons]
    by_cases he : (e.1 == id) = true
    · have e1 : e.1 = id := by simpa using he
      have h1 : ¬ ((id == id') = true) := by simpa using fun x => hne x.symm
      have h2 : ¬ ((e.1 == id') = true) := by rw [e1]; exact h1
      simp only [he, if_true, h1, h2]
      exact ih
    · simp only [he, if_false, Bool.false_eq_true]
      by_cases h3 : (e.1 == id') = true
      · simp [h3]
      · simp only [h3]; exact ih

/-- the outcome of `Handle` at the first matching rule -/
theorem handle_at_match (now : Nat → Int) (ms : List Bool) (id : Nat) (rls : List (Option Nat)) (h : Heap)
    (l : Lim) (hl : heapGet h id = some l) :
    handle now (true :: ms) (some id :: rls) h =
      (let r := acquire l.policy l.state (now id) 1
       let h' := heapSet h id { l with state := r.1 }
       if !r.2.permitted then
         some (h', { result := "rateLimited", status := some 429, asked := some id, waited := 0 })
       else if r.2.wait ≤ 0 then
         some (h', { result := "", status := none, asked := some id, waited := 0 })
       else
         some (h', { result := "", status := none, asked := some id, waited := r.2.wait })) := by
  simp [handle, hl]

theorem handle_out_shape (now : Nat → Int) : ∀ (ms : List Bool) (rls : List (Option Nat)) (h h' : Heap) (out : HOut),
    handle now ms rls h = some (h', out) →
    (out = noLimit ∧ h' = h ∧ (∀ b ∈ ms.take rls.length, b = false)) ∨
    (∃ id l, out.asked = some id ∧ heapGet h id = some l ∧
      h' = heapSet h id { l with state := (acquire l.policy l.state (now id) 1).1 } ∧
      ((acquire l.policy l.state (now id) 1).2.permitted = false ∧ out.result = "rateLimited" ∧ out.status = some 429 ∨
       (acquire l.policy l.state (now id) 1).2.permitted = true ∧ out.result = "" ∧ out.status = none ∧
         out.waited = (if (acquire l.policy l.state (now id) 1).2.wait ≤ 0 then 0
                       else (acquire l.policy l.state (now id) 1).2.wait)))
  | [], rls, h, h', out, e => by
    cases rls <;> (simp [handle] at e; left; exact ⟨e.2.symm, e.1.symm, by simp⟩)
  | false :: ms, [], h, h', out, e => by
    simp [handle] at e; left; exact ⟨e.2.symm, e.1.symm, by simp⟩
  | false :: ms, _ :: rls, h, h', out, e => by
    simp only [handle] at e
    rcases handle_out_shape now ms rls h h' out e with ⟨a, b, c⟩ | r
    · left; refine ⟨a, b, ?_⟩
      intro x hx
      simp only [List.length_cons, List.take_succ_cons, List.mem_cons] at hx
      rcases hx with rfl | hx
      · rfl
      · exact c x hx
    · right; exact r
  | true :: ms, [], h, h', out, e => by
    simp [handle] at e; left; exact ⟨e.2.symm, e.1.symm, by simp⟩
  | true :: ms, none :: rls, h, h', out, e => by simp [handle] at e
  | true :: ms, some id :: rls, h, h', out, e => by
    cases hl : heapGet h id with
    | none => simp [handle, hl] at e
    | some l =>
      rw [handle_at_match now ms id rls h l hl] at e
      right
      refine ⟨id, l, ?_⟩
      simp only at e
      by_cases hp : (acquire l.policy l.state (now id) 1).2.permitted = true
      · by_cases hw : (acquire l.policy l.state (now id) 1).2.wait ≤ 0
        · simp [hp, hw] at e
          obtain ⟨e1, e2⟩ := e
          subst e1 e2
          simp [hl, hp, hw]
        · simp [hp, hw] at e
          obtain ⟨e1, e2⟩ := e
          subst e1 e2
          simp [hl, hp, hw]
      · have hp' : (acquire l.policy l.state (now id) 1).2.permitted = false := by simpa using hp
        simp [hp'] at e
        obtain ⟨e1, e2⟩ := e
        subst e1 e2
        simp [hl, hp']

/-! ### reload -/

/-- what `claim` returns: the pointer of the first previous rule that is equal to `u` with an
unchanged policy -/
theorem claim_some (newSpec prevSpec : Spec) (u : URLRule) :
    ∀ (pus : List URLRule) (pls : List (Option Nat)) (r : Option Nat),
    claim newSpec prevSpec u pus pls = some r →
    ∃ j, pus[j]? = some u ∧ pls[j]? = some r ∧ isSamePolicy newSpec prevSpec u.policyRef = true ∧
      ∀ i : Nat, i < j → pus[i]? ≠ some u
  | [], pls, r, e => by cases pls <;> simp [claim] at e
  | _ :: _, [], r, e => by simp [claim] at e
  | pu :: pus, pl :: pls, r, e => by
    simp only [claim] at e
    by_cases hc : u = pu ∧ isSamePolicy newSpec prevSpec u.policyRef = true
    · obtain ⟨rfl, h2⟩ := hc
      simp only [h2, and_self, if_true, Option.some.injEq] at e
      exact ⟨0, by simp, by simp [e], h2, by simp⟩
    · simp only [hc, if_false] at e
      obtain ⟨j, h1, h2, h3, h4⟩ := claim_some newSpec prevSpec u pus pls r e
      refine ⟨j + 1, by simpa using h1, by simpa using h2, h3, ?_⟩
      intro i hi
      cases i with
      | zero =>
        simp only [List.getElem?_cons_zero, ne_eq, Option.some.injEq]
        intro hpu
        exact hc ⟨hpu.symm, h3⟩
      | succ i => simpa using h4 i (by omega)

/-- `claim` finds nothing iff no previous rule qualifies -/
theorem claim_none (newSpec prevSpec : Spec) (u : URLRule) :
    ∀ (pus : List URLRule) (pls : List (Option Nat)), pus.length ≤ pls.length →
    claim newSpec prevSpec u pus pls = none →
    u ∉ pus ∨ isSamePolicy newSpec prevSpec u.policyRef = false
  | [], _, _, _ => by simp
  | _ :: _, [], hl, _ => by simp at hl
  | pu :: pus, pl :: pls, hl, e => by
    simp only [claim] at e
    by_cases hc : u = pu ∧ isSamePolicy newSpec prevSpec u.policyRef = true
    · obtain ⟨rfl, h2⟩ := hc
      simp [h2] at e
    · simp only [hc, if_false] at e
      rcases claim_none newSpec prevSpec u pus pls (by simpa using hl) e with h | h
      · by_cases hu : u = pu
        · right
          by_contra hs
          exact hc ⟨hu, by simpa using hs⟩
        · left; simp [hu, h]
      · right; exact h

theorem claim_none_of (newSpec prevSpec : Spec) (u : URLRule) :
    ∀ (pus : List URLRule) (pls : List (Option Nat)),
    (u ∉ pus ∨ isSamePolicy newSpec prevSpec u.policyRef = false) → claim newSpec prevSpec u pus pls = none
  | [], pls, _ => by cases pls <;> simp [claim]
  | _ :: _, [], _ => by simp [claim]
  | pu :: pus, pl :: pls, h => by
    simp only [claim]
    have hc : ¬ (u = pu ∧ isSamePolicy newSpec prevSpec u.policyRef = true) := by
      rintro ⟨rfl, h2⟩
      rcases h with h | h
      · simp at h
      · rw [h2] at h; simp at h
    simp only [hc, if_false]
    apply claim_none_of
    rcases h with h | h
    · left; intro hm; exact h (by simp [hm])
    · right; exact h

/-- if some position holds an equal rule (with a pointer) and the policy is unchanged, `claim` finds one -/
theorem claim_none_of_found (newSpec prevSpec : Spec) (u : URLRule) :
    ∀ (pus : List URLRule) (pls : List (Option Nat)) (j : Nat) (r : Option Nat),
    pus[j]? = some u → pls[j]? = some r → isSamePolicy newSpec prevSpec u.policyRef = true →
    claim newSpec prevSpec u pus pls ≠ none
  | [], _, j, r, h1, _, _ => by simp at h1
  | _ :: _, [], j, r, _, h2, _ => by simp at h2
  | pu :: pus, pl :: pls, j, r, h1, h2, hs => by
    simp only [claim]
    by_cases hc : u = pu ∧ isSamePolicy newSpec prevSpec u.policyRef = true
    · obtain ⟨rfl, h3⟩ := hc
      simp [h3]
    · simp only [hc, if_false]
      cases j with
      | zero =>
        simp only [List.getElem?_cons_zero, Option.some.injEq] at h1
        exact absurd ⟨h1.symm, hs⟩ hc
      | succ j =>
        exact claim_none_of_found newSpec prevSpec u pus pls j r (by simpa using h1) (by simpa using h2) hs

theorem heapGet_append (h : Heap) (e : Nat × Lim) (id : Nat) (l : Lim) (hl : heapGet h id = some l) :
    heapGet (h ++ [e]) id = some l := by
  unfold heapGet at *
  rw [List.find?_append]
  cases hf : h.find? (fun x => x.1 == id) with
  | none => simp [hf] at hl
  | some v => simpa [hf] using hl

theorem heapGet_append_new (h : Heap) (id : Nat) (l : Lim) (hfresh : ∀ e ∈ h, e.1 < id) :
    heapGet (h ++ [(id, l)]) id = some l := by
  unfold heapGet
  rw [List.find?_append]
  have : h.find? (fun x => x.1 == id) = none := by
    rw [List.find?_eq_none]
    intro x hx
    have := hfresh x hx
    simp; omega
  simp [this]

theorem createFor_heap (newSpec : Spec) (u : URLRule) (st : ReloadSt) (id : Nat) (l : Lim)
    (hl : heapGet st.heap id = some l) : heapGet (createFor newSpec u st).heap id = some l := by
  unfold createFor
  cases bindPolicy newSpec u with
  | none => exact hl
  | some p => exact heapGet_append _ _ _ _ hl

/-- the heap objects that exist before a reload are not modified by it -/
theorem reloadLoop_heap (newSpec prevSpec : Spec) (prevRls : List (Option Nat)) :
    ∀ (us : List URLRule) (st : ReloadSt) (id : Nat) (l : Lim),
    heapGet st.heap id = some l → heapGet (reloadLoop newSpec prevSpec prevRls us st).heap id = some l
  | [], st, id, l, hl => by simpa [reloadLoop] using hl
  | u :: us, st, id, l, hl => by
    simp only [reloadLoop]
    split_ifs
    · exact hl
    · split
      · exact reloadLoop_heap newSpec prevSpec prevRls us _ id l hl
      · exact hl
      · exact reloadLoop_heap newSpec prevSpec prevRls us _ id l (createFor_heap newSpec u st id l hl)

/-- fresh-id discipline: every heap key is below `next` -/
def HeapOk (st : ReloadSt) : Prop := ∀ e ∈ st.heap, e.1 < st.next

theorem createFor_ok (newSpec : Spec) (u : URLRule) (st : ReloadSt) (ok : HeapOk st) :
    HeapOk (createFor newSpec u st) ∧ st.next ≤ (createFor newSpec u st).next := by
  unfold createFor
  cases bindPolicy newSpec u with
  | none => exact ⟨ok, le_refl _⟩
  | some p =>
    refine ⟨?_, by simp⟩
    intro e he
    simp only [List.mem_append, List.mem_singleton] at he
    rcases he with he | rfl
    · have := ok e he; simp only; omega
    · simp

/-- The whole outer loop, rule by rule: the `i`-th new rule points to the limiter of the first
previous rule that equals it with an unchanged policy, if there is one; otherwise to a fresh object
(id not below `next`) created with the defaults of `createRateLimiter` and the initial state. -/
theorem reloadLoop_spec (newSpec prevSpec : Spec) (prevRls : List (Option Nat)) :
    ∀ (us : List URLRule) (st : ReloadSt), st.panicked = false → HeapOk st →
    (∀ u ∈ us, claim newSpec prevSpec u prevSpec.urls prevRls ≠ some none) →
    (∀ u ∈ us, (bindPolicy newSpec u).isSome) →
    let st' := reloadLoop newSpec prevSpec prevRls us st
    st'.panicked = false ∧ HeapOk st' ∧ st.next ≤ st'.next ∧
    st'.rls.length = st.rls.length + us.length ∧
    (∀ k, k < st.rls.length → st'.rls[k]? = st.rls[k]?) ∧
    ∀ i u, us[i]? = some u →
      (∀ id, claim newSpec prevSpec u prevSpec.urls prevRls = some (some id) →
        st'.rls[st.rls.length + i]? = some (some id)) ∧
      (claim newSpec prevSpec u prevSpec.urls prevRls = none →
        ∃ id p, st.next ≤ id ∧ st'.rls[st.rls.length + i]? = some (some id) ∧ bindPolicy newSpec u = some p ∧
          heapGet st'.heap id = some { policy := limiterPolicy p, state := init })
  | [], st, hp, ok, _, _ => by
    simp [reloadLoop, hp, ok]
  | u :: us, ⟨rls0, heap0, next0, panicked0⟩, hp, ok, hnn, hbind => by
    simp only at hp
    subst hp
    generalize hst : (⟨rls0, heap0, next0, false⟩ : ReloadSt) = st at *
    have hp : st.panicked = false := by rw [← hst]
    have hnn' : ∀ v ∈ us, claim newSpec prevSpec v prevSpec.urls prevRls ≠ some none :=
      fun v hv => hnn v (by simp [hv])
    have hbind' : ∀ v ∈ us, (bindPolicy newSpec v).isSome := fun v hv => hbind v (by simp [hv])
    simp only [reloadLoop, hp, Bool.false_eq_true, if_false]
    cases hcl : claim newSpec prevSpec u prevSpec.urls prevRls with
    | some r =>
      cases r with
      | none => exact absurd hcl (hnn u (by simp))
      | some id0 =>
        simp only
        have ih := reloadLoop_spec newSpec prevSpec prevRls us ⟨st.rls ++ [some id0], st.heap, st.next, false⟩ rfl ok hnn' hbind'
        obtain ⟨a1, a2, a3, a4, a5, a6⟩ := ih
        simp only [List.length_append, List.length_singleton] at a4 a5 a6
        refine ⟨a1, a2, a3, by simp only [List.length_cons]; omega, ?_, ?_⟩
        · intro k hk
          rw [a5 k (by omega), List.getElem?_append_left hk]
        · intro i v hv
          cases i with
          | zero =>
            simp only [List.getElem?_cons_zero, Option.some.injEq] at hv
            subst hv
            refine ⟨fun id hid => ?_, fun hnone => by rw [hcl] at hnone; simp at hnone⟩
            rw [hcl] at hid
            simp only [Option.some.injEq] at hid
            rw [Nat.add_zero, a5 st.rls.length (by omega), List.getElem?_append_right (le_refl _)]
            simp [hid]
          | succ i =>
            simp only [List.getElem?_cons_succ] at hv
            have := a6 i v hv
            rw [show st.rls.length + (i + 1) = st.rls.length + 1 + i by omega]
            exact this
    | none =>
      simp only
      obtain ⟨p, hpol⟩ := Option.isSome_iff_exists.mp (hbind u (by simp))
      have hcf : createFor newSpec u st = ⟨st.rls ++ [some st.next],
            st.heap ++ [(st.next, ⟨limiterPolicy p, init⟩)], st.next + 1, st.panicked⟩ := by
        simp [createFor, hpol]
      have okc := createFor_ok newSpec u st ok
      have hpc : (createFor newSpec u st).panicked = false := by rw [hcf]; exact hp
      have ih := reloadLoop_spec newSpec prevSpec prevRls us (createFor newSpec u st) hpc okc.1 hnn' hbind'
      obtain ⟨a1, a2, a3, a4, a5, a6⟩ := ih
      have hlen : (createFor newSpec u st).rls.length = st.rls.length + 1 := by rw [hcf]; simp
      have hnext : (createFor newSpec u st).next = st.next + 1 := by rw [hcf]
      rw [hlen] at a4 a5 a6
      rw [hnext] at a3
      refine ⟨a1, a2, by omega, by simp only [List.length_cons]; omega, ?_, ?_⟩
      · intro k hk
        rw [a5 k (by omega), hcf]
        exact List.getElem?_append_left hk
      · intro i v hv
        cases i with
        | zero =>
          simp only [List.getElem?_cons_zero, Option.some.injEq] at hv
          subst hv
          refine ⟨fun id hid => by rw [hcl] at hid; simp at hid, fun _ => ?_⟩
          refine ⟨st.next, p, le_refl _, ?_, hpol, ?_⟩
          · rw [Nat.add_zero, a5 st.rls.length (by omega), hcf]
            simp
          · apply reloadLoop_heap
            rw [hcf]
            exact heapGet_append_new _ _ _ ok
        | succ i =>
          simp only [List.getElem?_cons_succ] at hv
          obtain ⟨b1, b2⟩ := a6 i v hv
          rw [show st.rls.length + (i + 1) = st.rls.length + 1 + i by omega]
          refine ⟨b1, fun hn => ?_⟩
          obtain ⟨id, q, c1, c2, c3, c4⟩ := b2 hn
          exact ⟨id, q, by omega, c2, c3, c4⟩

end EgVerif.RateLimiterFilter
