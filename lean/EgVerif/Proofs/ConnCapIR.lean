import EgVerif.Proofs.ConnCap
import EgVerif.Gen.FactsC17IR
/-!
Regenerated tie by translation for C17 (`notes/IR.md`, `harness/factextract/facts_c17_ir.go`).

`Gen.FactsC17IR.setMaxCountIR / acceptIR / connCloseIR / listenerCloseIR` are produced on every run by the
go/ast micro-translator from the current bodies of `Semaphore.SetMaxCount` (with the body of the spawned
goroutine), `LimitListener.Accept`, `limitListenerConn.Close`, `LimitListener.Close`. They equal the
hand-written `setMaxCount`, `acceptBody`, `connCloseBody` (part 1), and the model's transition function
`step`, about which the C17 theorems speak, is built from exactly these functions (part 2). A changed
comparison, a swapped `Release`/`Acquire`, a changed delta or a lost `release` in the source changes the
generated definition and breaks these proofs.
-/
namespace EgVerif.ConnCap
open EgVerif.Gen.FactsC17IR

/-! ## Part 1: generated definition = hand-written function -/

theorem setMaxCount_regenerated_from_source (realCap n : Int) :
    setMaxCountIR realCap n = setMaxCount realCap n := by
  unfold setMaxCountIR setMaxCount adjBody
  simp only [decide_eq_true_eq, List.nil_append]
  -- robust against the order of the two tests in the goroutine body: all four sign combinations are
  -- split; the contradictory ones are closed by `omega` from the hypotheses
  all_goals
    by_cases h1 : n > M
    · simp only [h1, if_true]
      by_cases h2 : M > realCap <;> by_cases h3 : M < realCap <;> simp [h2, h3] <;> omega
    · simp only [h1, if_false]
      by_cases h2 : n > realCap <;> by_cases h3 : n < realCap <;> simp [h2, h3] <;> omega

theorem accept_regenerated_from_source (acquired ctxErr innerErr : Bool) :
    acceptIR acquired ctxErr innerErr = acceptBody acquired ctxErr innerErr := by
  cases acquired <;> cases ctxErr <;> cases innerErr <;> rfl

theorem connClose_regenerated_from_source (once : Bool) :
    connCloseIR once = ((connCloseBody once).1, List.replicate (connCloseBody once).2 OnceFn.release) := by
  cases once <;> rfl

theorem listenerClose_regenerated_from_source (once : Bool) :
    listenerCloseIR once = ((connCloseBody once).1, List.replicate (connCloseBody once).2 OnceFn.cancel) := by
  cases once <;> rfl

/-! ## Part 2: the model's `step` is built from these functions -/

/-- the goroutine's actions depend only on the difference `n - old` (what `pending` stores) -/
theorem adjBody_shift (n old : Int) : adjBody n old = adjBody (n - old) 0 := by
  unfold adjBody
  by_cases h1 : n > old
  · have : n - old > 0 := by omega
    simp [h1]
  · by_cases h2 : n < old
    · have a : ¬ (n - old > 0) := by omega
      have b : n - old < 0 := by omega
      have e : old - n = 0 - (n - old) := by omega
      simp only [h1, h2, a, b, if_true, if_false, e]
    · have a : ¬ (n - old > 0) := by omega
      have b : ¬ (n - old < 0) := by omega
      simp [h1, h2, b]

/-- `step (.setMax n)` is `SetMaxCount(n)`'s synchronous part for **every** `n ≥ 0` (the clamp to
`maxCapacity` included): the new `realCapacity`, and a pending goroutine whose recorded actions are those of
the translated goroutine body for the stored difference. -/
theorem setMax_step_is_setMaxCount (c : Cap) (n : Int) (h0 : 0 ≤ n) :
    step c (.setMax n) = some { c with realCap := (setMaxCount c.realCap n).1,
                                       pending := c.pending ++ [(c.nextAdj, (setMaxCount c.realCap n).1 - c.realCap)],
                                       nextAdj := c.nextAdj + 1 } ∧
    (setMaxCount c.realCap n).2 = adjBody ((setMaxCount c.realCap n).1 - c.realCap) 0 := by
  constructor
  · simp only [step, h0, if_true]
  · simp only [setMaxCount]; exact adjBody_shift _ c.realCap

/-- a request above `maxCapacity` is the request for `maxCapacity` -/
theorem setMaxCount_clamped (realCap n : Int) (h : n > M) : setMaxCount realCap n = setMaxCount realCap M := by
  have : ¬ M > M := by omega
  simp only [setMaxCount, h, if_true, this, if_false]

/-- `step (.adjust id)` runs the recorded actions of the goroutine body (`adjBody d 0` for the stored
difference `d`) on the weighted semaphore. -/
theorem adjust_step_is_adjBody (c : Cap) (id : Nat) :
    step c (.adjust id) =
      match takeAdj id c.pending with
      | none => none
      | some (d, rest) => applyAdjOps { c with pending := rest } id (adjBody d 0) := by
  simp only [step]
  cases takeAdj id c.pending with
  | none => rfl
  | some q =>
    obtain ⟨d, rest⟩ := q
    simp only [adjBody]
    by_cases h1 : d > 0
    · simp only [h1, if_true, List.cons_append, List.nil_append, applyAdjOps, applyAdjOp, Int.sub_zero]
      by_cases h2 : d ≤ c.cur <;> simp [h2]
    · by_cases h2 : d < 0
      · simp only [h1, h2, if_true, if_false, List.cons_append, List.nil_append, applyAdjOps, applyAdjOp,
          Int.zero_sub]
      · simp only [h1, h2, if_false, List.nil_append, applyAdjOps, applyAdjOp]

/-- `step (.connClose id)` releases exactly `(connCloseBody once).2` units, where `once` = this
connection was closed before. -/
theorem connClose_is_connCloseBody (c c' : Cap) (id : Nat) (hs : step c (.connClose id) = some c')
    (hnd : id ∈ c.opened → id ∉ c.closed) :
    let once := decide (id ∈ c.closed)
    (once = false → c' = semRelease { c with opened := c.opened.erase id, closed := id :: c.closed }
                            ((connCloseBody once).2 : Int)) ∧
    (once = true → c' = c ∧ (connCloseBody once).2 = 0) := by
  simp only [step] at hs
  by_cases ho : id ∈ c.opened
  · have hc := hnd ho
    simp only [ho, if_true] at hs
    split at hs <;> cases hs
    simp [hc, connCloseBody]
  · simp only [ho, if_false] at hs
    split at hs <;> cases hs
    rename_i hcl
    simp [hcl, connCloseBody]

/-- Units accounting of `Accept` (for the environment fact "`acquire` fails only when the context is
done", i.e. `acquired = false → ctxErr = true`): the call keeps exactly one unit iff it returns a
connection, and none otherwise — the unit of `inAccept` becomes the unit of `opened`. -/
theorem accept_units (acquired ctxErr innerErr : Bool) (henv : acquired = false → ctxErr = true) :
    (acceptBody acquired ctxErr innerErr).2 = if (acceptBody acquired ctxErr innerErr).1 then 1 else 0 := by
  cases acquired <;> cases ctxErr <;> cases innerErr <;> simp_all [acceptBody]

theorem accept_returns_iff (acquired ctxErr innerErr : Bool) :
    (acceptBody acquired ctxErr innerErr).1 = (!ctxErr && !innerErr) := by
  cases acquired <;> cases ctxErr <;> cases innerErr <;> rfl

end EgVerif.ConnCap
