import EgVerif.Proofs.ClusterMutex
import EgVerif.Spec.ClusterMutex
/-!
# C18 — failed acquisitions in the judge's replay (audit repair, engineer mux)

`scheduleOf` drops `failed` events. That is sound because a failed `mutex.Lock` is **state-neutral** in the
model: wherever `failSeq t` (local lock, enqueue, time-out with key removal, deferred local unlock) is
enabled — `t` idle and its object's local mutex free — it ends in exactly the state it started from
(`failSeq_neutral`), so inserting the failed attempts at any enabled positions does not change what the replay
reaches. Enabledness itself is checked by `Spec.failedReplayOK`.
-/
namespace EgVerif.ClusterMutex

theorem upd_upd {β : Type} (f : Nat → β) (a : Nat) (v w : β) : upd (upd f a v) a w = upd f a w := by
  funext x; by_cases h : x = a <;> simp [upd, h]

theorem upd_id {β : Type} (f : Nat → β) (a : Nat) (v : β) (h : f a = v) : upd f a v = f := by
  funext x; by_cases hx : x = a
  · subst hx; simp [upd, h]
  · simp [upd, hx]

/-- the session's key is not queued while the thread is idle and its object's local mutex is free -/
theorem key_absent_of_free {c : Cfg} (h1 : OneObjectPerSession c) {s : State} (inv : Inv c s) (t : Nat)
    (hh : s.held (c.obj t) = false) : c.sess (c.obj t) ∉ s.queue := by
  intro hk
  obtain ⟨t', hq, hs⟩ := inv.qOwner _ hk
  have ho : c.obj t' = c.obj t := h1 _ _ hs
  have hne : s.pc t' ≠ .idle := by rcases hq with h | h <;> rw [h] <;> decide
  have := inv.heldOf t' hne
  rw [ho, hh] at this; cases this

/-- **A failed acquisition (time-out after the key was created, or lost response + cleanup) leaves the model
state exactly as it was.** -/
theorem failSeq_neutral {c : Cfg} (h1 : OneObjectPerSession c) {s : State} (inv : Inv c s) (t : Nat)
    (hp : s.pc t = .idle) (hh : s.held (c.obj t) = false) : run c s (failSeq t) = some s := by
  have hk := key_absent_of_free h1 inv t hh
  have hq : (s.queue ++ [c.sess (c.obj t)]).erase (c.sess (c.obj t)) = s.queue := by
    rw [List.erase_append_right _ hk]; simp
  have e1 : step c s (.localLock t) =
      some (⟨upd s.pc t .haveLocal, upd s.held (c.obj t) true, s.queue⟩ : State) := by
    simp [step, hp, hh]
  have e2 : step c (⟨upd s.pc t .haveLocal, upd s.held (c.obj t) true, s.queue⟩ : State) (.etcdEnqueue t) =
      some (⟨upd s.pc t .waiting, upd s.held (c.obj t) true, s.queue ++ [c.sess (c.obj t)]⟩ : State) := by
    simp [step, hk, upd_upd]
  have e3 : step c (⟨upd s.pc t .waiting, upd s.held (c.obj t) true, s.queue ++ [c.sess (c.obj t)]⟩ : State) (.etcdTimeout t) =
      some (⟨upd s.pc t .failing, upd s.held (c.obj t) true, s.queue⟩ : State) := by
    simp [step, hq, upd_upd]
  have e4 : step c (⟨upd s.pc t .failing, upd s.held (c.obj t) true, s.queue⟩ : State)
      (.localUnlockFail t) = some s := by
    simp only [step, upd_same, if_true, upd_upd]
    rw [upd_id s.pc t .idle hp, upd_id s.held (c.obj t) false hh]
  simp only [failSeq, run, e1, e2, e3, e4]

/-- … and so does the early-error variant (first request failed without effect). -/
theorem earlyFail_neutral {c : Cfg} (h1 : OneObjectPerSession c) {s : State} (inv : Inv c s) (t : Nat)
    (hp : s.pc t = .idle) (hh : s.held (c.obj t) = false) :
    run c s (lockActs t .earlyError) = some s := by
  have hk := key_absent_of_free h1 inv t hh
  have hq : s.queue.erase (c.sess (c.obj t)) = s.queue := List.erase_of_not_mem hk
  have e1 : step c s (.localLock t) =
      some (⟨upd s.pc t .haveLocal, upd s.held (c.obj t) true, s.queue⟩ : State) := by
    simp [step, hp, hh]
  have e2 : step c (⟨upd s.pc t .haveLocal, upd s.held (c.obj t) true, s.queue⟩ : State) (.etcdErrorEarly t) =
      some (⟨upd s.pc t .failing, upd s.held (c.obj t) true, s.queue⟩ : State) := by
    simp [step, hq, upd_upd]
  have e4 : step c (⟨upd s.pc t .failing, upd s.held (c.obj t) true, s.queue⟩ : State)
      (.localUnlockFail t) = some s := by
    simp only [step, upd_same, if_true, upd_upd]
    rw [upd_id s.pc t .idle hp, upd_id s.held (c.obj t) false hh]
  simp only [lockActs, run, e1, e2, e4]

theorem run_append_mx (c : Cfg) : ∀ (a b : List Act) (s : State),
    run c s (a ++ b) = (run c s a).bind (fun s' => run c s' b)
  | [], _, _ => rfl
  | x :: a, b, s => by
    simp only [List.cons_append, run]
    cases step c s x with
    | none => rfl
    | some s1 => exact run_append_mx c a b s1

/-- inserting a failed attempt in front of any schedule changes nothing -/
theorem failSeq_insert {c : Cfg} (h1 : OneObjectPerSession c) {s : State} (inv : Inv c s) (t : Nat)
    (hp : s.pc t = .idle) (hh : s.held (c.obj t) = false) (as : List Act) :
    run c s (failSeq t ++ as) = run c s as := by
  rw [run_append_mx, failSeq_neutral h1 inv t hp hh]; rfl

/-- every failure is trivially "recovered" when the final probe succeeded — and in the model it does: in
every reachable state with all goroutines idle the queue is empty and all local mutexes are free (Props:
`failed_acquire_leaves_free`, `free_can_acquire`) -/
theorem failuresRecovered_of_probe (evs : List TEv) : failuresRecovered true evs = true := by
  induction evs with
  | nil => rfl
  | cons e r ih => cases e <;> simp [failuresRecovered, ih]

end EgVerif.ClusterMutex
