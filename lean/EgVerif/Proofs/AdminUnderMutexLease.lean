import EgVerif.Proofs.AdminUnderMutex
import EgVerif.Proofs.ClusterMutexLease
/-!
# C18 — the admin handlers under the real cluster mutex, with lease expiry (audit repair, engineer mux)

`Proofs/AdminUnderMutex.lean` + the environment step "the lease of session k expires, etcd deletes its key"
(`PActX.leaseExpire`). For histories in which no lease expires **while one of its member's goroutines is in the
critical section** (`SafeP`, the product counterpart of `ClusterMutex.SafeRun`) every run still projects to
`Sys.run` — so the admin mutations stay serialized; without that hypothesis they do not (`Props/C18.lean` has the
decided witness: two overlapping handlers, both answered with the same version).
-/
namespace EgVerif.AdminUnderMutex
open EgVerif

inductive PActX
  | base (a : PAct)
  | leaseExpire (k : Nat)

def stepX (c : ClusterMutex.Cfg) (p : PState) : PActX → Option PState
  | .base a => step c p a
  | .leaseExpire k => some { p with mx := p.mx.expire k }

def runX (c : ClusterMutex.Cfg) : PState → List PActX → Option PState
  | p, [] => some p
  | p, a :: as => match stepX c p a with
    | none => none
    | some p' => runX c p' as

/-- no lease expires while a goroutine of that member is in the critical section -/
def SafeP (c : ClusterMutex.Cfg) : PState → List PActX → Prop
  | _, [] => True
  | p, .base a :: as => match step c p a with
    | none => True
    | some p' => SafeP c p' as
  | p, .leaseExpire k :: as =>
    (∀ t, p.mx.pc t = .crit → c.sess (c.obj t) ≠ k) ∧ SafeP c { p with mx := p.mx.expire k } as

def projX : PActX → List AdminAPI.Act
  | .base a => proj a
  | .leaseExpire _ => []

structure RX (c : ClusterMutex.Cfg) (p : PState) (s : AdminAPI.Sys) : Prop where
  etcd : s.etcd = p.etcd
  cur : s.cur = p.cur
  log : s.log = p.log
  hold : ∀ t, s.holder = some t ↔ p.mx.pc t = .crit
  live : ClusterMutex.LiveInv c p.mx
  ci : ClusterMutex.CritInQ c p.mx

theorem RX_init (c : ClusterMutex.Cfg) (e : AdminAPI.Etcd) : RX c (PState.init e) (AdminAPI.Sys.init e) :=
  ⟨rfl, rfl, rfl, fun t => by simp [AdminAPI.Sys.init, PState.init, ClusterMutex.init],
   ClusterMutex.live_init c, fun _ h => by simp [PState.init, ClusterMutex.init] at h⟩

/-- a grant happens only while nobody is inside — from the expiry-tolerant invariants -/
theorem granted_freeX {c : ClusterMutex.Cfg} (h1 : ClusterMutex.OneObjectPerSession c)
    {m m' : ClusterMutex.State} (inv : ClusterMutex.LiveInv c m) (ci : ClusterMutex.CritInQ c m) (t : Nat)
    (h : ClusterMutex.step c m (.etcdGranted t) = some m') :
    (∀ x, m.pc x ≠ .crit) ∧ m' = { m with pc := ClusterMutex.upd m.pc t .crit } := by
  simp only [ClusterMutex.step] at h
  split at h
  · rename_i g
    simp only [Option.some.injEq] at h
    refine ⟨fun x hx => ?_, h.symm⟩
    have e := inv.liveHead x hx (ci x hx)
    rw [g.2] at e
    have ho := h1 _ _ (Option.some.inj e)
    have := inv.local1 t x (by rw [g.1]; decide) (by rw [hx]; decide) ho
    subst this
    rw [g.1] at hx; cases hx
  · cases h

/-- one product step is matched by the projected abstract steps -/
theorem step_projectsX {c : ClusterMutex.Cfg} (h1 : ClusterMutex.OneObjectPerSession c)
    {p p' : PState} {s : AdminAPI.Sys} (r : RX c p s) (a : PAct) (h : step c p a = some p') :
    ∃ s', AdminAPI.Sys.run s (proj a) = some s' ∧ RX c p' s' := by
  cases a with
  | read t =>
    simp only [step, Option.some.injEq] at h; subst h
    exact ⟨s, by simp [proj, AdminAPI.Sys.run, AdminAPI.Sys.step], r⟩
  | lock a =>
    simp only [step] at h
    split at h
    · rename_i hl
      cases hm : ClusterMutex.step c p.mx a with
      | none => simp [hm] at h
      | some m =>
        simp only [hm, Option.map_some, Option.some.injEq] at h; subst h
        refine ⟨s, by simp [proj, AdminAPI.Sys.run], r.etcd, r.cur, r.log, fun t => ?_,
          ClusterMutex.live_step h1 r.live a hm, ClusterMutex.critInQ_step h1 r.live r.ci a hm⟩
        rw [r.hold t]; exact (lockOnly_crit hl hm t).symm
    · cases h
  | granted t req =>
    simp only [step] at h
    cases hm : ClusterMutex.step c p.mx (.etcdGranted t) with
    | none => simp [hm] at h
    | some m =>
      simp only [hm, Option.map_some, Option.some.injEq] at h; subst h
      obtain ⟨hfree, hm'⟩ := granted_freeX h1 r.live r.ci t hm
      have hnone : s.holder = none := by
        cases hh : s.holder with
        | none => rfl
        | some x => exact absurd ((r.hold x).mp hh) (hfree x)
      refine ⟨{ s with holder := some t, cur := fun x => if x = t then some (req, .start) else s.cur x },
        by simp [proj, AdminAPI.Sys.run, AdminAPI.Sys.step, hnone], r.etcd, ?_, r.log, fun x => ?_,
        ClusterMutex.live_step h1 r.live _ hm, ClusterMutex.critInQ_step h1 r.live r.ci _ hm⟩
      · simp only [r.cur]
      · subst hm'
        by_cases hx : x = t
        · subst hx; simp [ClusterMutex.upd]
        · simp only [ClusterMutex.upd, hx, if_false]
          constructor
          · intro h'; simp only [Option.some.injEq] at h'; exact absurd h'.symm hx
          · intro h'; exact absurd h' (hfree x)
  | micro t =>
    simp only [step] at h
    cases hm : ClusterMutex.step c p.mx (.critical t) with
    | none => simp [hm] at h
    | some m =>
      cases hc : p.cur t with
      | none => simp [hm, hc] at h
      | some rp =>
        obtain ⟨req, pc⟩ := rp
        simp only [hm, hc, Option.some.injEq] at h; subst h
        -- the mutex step requires `pc t = crit` and changes nothing
        have hcrit : p.mx.pc t = .crit ∧ m = p.mx := by
          simp only [ClusterMutex.step] at hm
          split at hm
          · rename_i g; simp only [Option.some.injEq] at hm; exact ⟨g, hm.symm⟩
          · cases hm
        have hh : s.holder = some t := (r.hold t).mpr hcrit.1
        have hcs : s.cur t = some (req, pc) := by rw [r.cur]; exact hc
        refine ⟨{ s with etcd := (AdminAPI.micro req pc s.etcd).2,
                         cur := fun x => if x = t then some (req, (AdminAPI.micro req pc s.etcd).1) else s.cur x },
          by simp [proj, AdminAPI.Sys.run, AdminAPI.Sys.step, hh, hcs], ?_, ?_, r.log, ?_, ?_, ?_⟩
        · simp only [r.etcd]
        · simp only [r.etcd, r.cur]
        · intro x; simp only [hcrit.2]; exact r.hold x
        · simp only [hcrit.2]; exact r.live
        · simp only [hcrit.2]; exact r.ci
  | unlock t =>
    simp only [step] at h
    cases hc : p.cur t with
    | none => simp [hc] at h
    | some rp =>
      obtain ⟨req, pc⟩ := rp
      cases pc with
      | done rr =>
        simp only [hc] at h
        cases hm : ClusterMutex.step c p.mx (.etcdUnlock t) with
        | none => simp [hm] at h
        | some m =>
          simp only [hm, Option.map_some, Option.some.injEq] at h; subst h
          have hcrit : p.mx.pc t = .crit ∧
              m = { p.mx with pc := ClusterMutex.upd p.mx.pc t .releasing,
                               queue := p.mx.queue.erase (c.sess (c.obj t)) } := by
            simp only [ClusterMutex.step] at hm
            split at hm
            · rename_i g; simp only [Option.some.injEq] at hm; exact ⟨g, hm.symm⟩
            · cases hm
          have hh : s.holder = some t := (r.hold t).mpr hcrit.1
          have hcs : s.cur t = some (req, .done rr) := by rw [r.cur]; exact hc
          refine ⟨{ s with holder := none, cur := fun x => if x = t then none else s.cur x,
                           log := s.log ++ [(req, rr)] },
            by simp [proj, AdminAPI.Sys.run, AdminAPI.Sys.step, hh, hcs], r.etcd, ?_, ?_, fun x => ?_,
            ClusterMutex.live_step h1 r.live _ hm, ClusterMutex.critInQ_step h1 r.live r.ci _ hm⟩
          · simp only [r.cur]
          · simp only [r.log]
          · rw [hcrit.2]
            simp only [reduceCtorEq, false_iff]
            by_cases hx : x = t
            · subst hx; simp [ClusterMutex.upd]
            · simp only [ClusterMutex.upd, hx, if_false]
              intro h'
              have := (r.hold x).mpr h'
              rw [hh] at this
              exact hx (Option.some.inj this).symm
      | start => simp [hc] at h
      | gotObj e => simp [hc] at h
      | wrote => simp [hc] at h
      | gotVer v => simp [hc] at h


theorem run_projectsX {c : ClusterMutex.Cfg} (h1 : ClusterMutex.OneObjectPerSession c) :
    ∀ (as : List PActX) (p p' : PState) (s : AdminAPI.Sys), RX c p s → SafeP c p as → runX c p as = some p' →
      ∃ s', AdminAPI.Sys.run s (as.flatMap projX) = some s' ∧ RX c p' s'
  | [], p, p', s, r, _, h => by
    simp only [runX, Option.some.injEq] at h; subst h
    exact ⟨s, rfl, r⟩
  | .base a :: as, p, p', s, r, hs, h => by
    simp only [runX, stepX] at h
    cases hst : step c p a with
    | none => simp [hst] at h
    | some p1 =>
      simp only [hst] at h
      simp only [SafeP, hst] at hs
      obtain ⟨s1, hr1, r1⟩ := step_projectsX h1 r a hst
      obtain ⟨s', hr', r'⟩ := run_projectsX h1 as p1 p' s1 r1 hs h
      refine ⟨s', ?_, r'⟩
      rw [List.flatMap_cons, projX, sys_run_append s (proj a) _ s1 hr1]
      exact hr'
  | .leaseExpire k :: as, p, p', s, r, hs, h => by
    simp only [runX, stepX] at h
    have r1 : RX c { p with mx := p.mx.expire k } s :=
      ⟨r.etcd, r.cur, r.log, r.hold, ClusterMutex.live_expire r.live k,
       fun x a => (List.mem_erase_of_ne (hs.1 x a)).mpr (r.ci x a)⟩
    obtain ⟨s', hr', r'⟩ := run_projectsX h1 as _ p' s r1 hs.2 h
    exact ⟨s', by simpa [List.flatMap_cons, projX] using hr', r'⟩

end EgVerif.AdminUnderMutex
