import EgVerif.Spec.LoadBalance
import Mathlib.Tactic.SplitIfs
import Mathlib.Tactic.Linarith
/-! Helper lemmas for C04 (load balancers). Property theorems are in `Props/C04.lean`. -/
namespace EgVerif.LoadBalance

/-! ### indexing -/

theorem index_mem {ss : List Server} {i : Int} {s : Server} (h : index ss i = .srv s) : s ∈ ss := by
  unfold index at h
  split_ifs at h
  split at h
  · rename_i hs
    cases h
    exact List.mem_of_getElem? hs
  · cases h

theorem index_ne_nil (ss : List Server) (i : Int) : index ss i ≠ .nil := by
  unfold index
  split_ifs
  · simp
  · split <;> simp

theorem index_natCast (ss : List Server) (i : Nat) (h : i < ss.length) :
    index ss (i : Int) = .srv ss[i] := by
  unfold index
  have : ¬ ((i : Int) < 0) := by omega
  simp [this, List.getElem?_eq_getElem h]

/-! ### weighted loop -/

theorem weightedLoop_mem : ∀ {ss : List Server} {r : Int} {s : Server},
    weightedLoop ss r = .srv s → s ∈ ss
  | [], _, _, h => by simp [weightedLoop] at h
  | a :: rest, r, s, h => by
    simp only [weightedLoop] at h
    split_ifs at h
    · exact List.mem_cons_of_mem _ (weightedLoop_mem h)
    · cases h; exact List.mem_cons_self
    · exact List.mem_cons_of_mem _ (weightedLoop_mem h)

theorem weightedLoop_ne_nil : ∀ (ss : List Server) (r : Int), weightedLoop ss r ≠ .nil
  | [], _ => by simp [weightedLoop]
  | a :: rest, r => by
    simp only [weightedLoop]
    split_ifs
    · exact weightedLoop_ne_nil rest _
    · simp
    · exact weightedLoop_ne_nil rest _

/-- the loop only ever returns a server with a positive weight (arbitrary integer weights) -/
theorem weightedLoop_pos : ∀ {ss : List Server} {r : Int} {s : Server},
    weightedLoop ss r = .srv s → 0 < s.weight
  | [], _, _, h => by simp [weightedLoop] at h
  | a :: rest, r, s, h => by
    simp only [weightedLoop] at h
    split_ifs at h with h1 h2
    · exact weightedLoop_pos h
    · cases h; omega
    · exact weightedLoop_pos h

/-- `rand.Intn(total)` returns `0 ≤ r < total`: the loop finds a server before running off the end. -/
theorem weightedLoop_no_panic : ∀ (ss : List Server) (r : Int),
    r < totalWeight ss → 0 ≤ r → weightedLoop ss r ≠ .panic
  | [], r, h, h0 => by simp [totalWeight] at h; omega
  | a :: rest, r, h, h0 => by
    simp only [weightedLoop]
    simp only [totalWeight] at h
    split_ifs with h1 h2
    · exact weightedLoop_no_panic rest _ (by split_ifs at h <;> omega) h0
    · simp
    · exact weightedLoop_no_panic rest _ (by split_ifs at h <;> omega) (by omega)

theorem totalWeight_nonneg : ∀ ss : List Server, 0 ≤ totalWeight ss
  | [] => by simp [totalWeight]
  | a :: rest => by
    simp only [totalWeight]
    have := totalWeight_nonneg rest
    split_ifs <;> omega

theorem totalWeight_pos_of {ss : List Server} (hex : ∃ s ∈ ss, 0 < s.weight) : 0 < totalWeight ss := by
  induction ss with
  | nil => obtain ⟨s, hs, _⟩ := hex; simp at hs
  | cons a rest ih =>
    simp only [totalWeight]
    have hrest := totalWeight_nonneg rest
    obtain ⟨s, hs, hpos⟩ := hex
    rcases List.mem_cons.mp hs with h | h
    · subst h; simp only [gt_iff_lt, hpos, if_true]; omega
    · have := ih ⟨s, h, hpos⟩
      split_ifs <;> omega

theorem weightedChoose_mem {ss : List Server} {r : Nat} {s : Server}
    (h : weightedChoose ss r = .srv s) : s ∈ ss := by
  unfold weightedChoose at h
  split_ifs at h
  · exact index_mem h
  · exact weightedLoop_mem h

theorem weightedChoose_ne_nil (ss : List Server) (r : Nat) : weightedChoose ss r ≠ .nil := by
  unfold weightedChoose
  split_ifs
  · exact index_ne_nil _ _
  · exact weightedLoop_ne_nil _ _

theorem weightedChoose_pos {ss : List Server} {r : Nat} {s : Server} (ht : 0 < totalWeight ss)
    (h : weightedChoose ss r = .srv s) : 0 < s.weight := by
  unfold weightedChoose at h
  split_ifs at h
  · omega
  · exact weightedLoop_pos h

theorem weightedChoose_no_panic (ss : List Server) (r : Nat) (_hne : 0 < ss.length)
    (hr : (r : Int) < if totalWeight ss ≤ 0 then (ss.length : Int) else totalWeight ss) :
    weightedChoose ss r ≠ .panic := by
  unfold weightedChoose
  split_ifs with ht
  · simp only [ht, if_true] at hr
    rw [index_natCast _ _ (by omega)]; simp
  · simp only [ht, if_false] at hr
    exact weightedLoop_no_panic _ _ hr (by omega)

/-! ### round robin arithmetic -/

theorem toInt64_small {c : Nat} (h : c < 9223372036854775808) : toInt64 c = (c : Int) := by
  unfold toInt64
  have : c % 18446744073709551616 = c := Nat.mod_eq_of_lt (by omega)
  simp [this, h]

theorem rr_index {c n : Nat} (h : c < 9223372036854775808) :
    Int.tmod (toInt64 c) (n : Int) = ((c % n : Nat) : Int) := by
  rw [toInt64_small h]
  rw [Int.tmod_eq_emod_of_nonneg (by omega)]
  exact (Int.natCast_mod c n).symm

theorem succ_div_mod (k n : Nat) (hn : 0 < n) :
    ((k % n + 1 < n) ∧ (k + 1) / n = k / n ∧ (k + 1) % n = k % n + 1) ∨
    ((k % n + 1 = n) ∧ (k + 1) / n = k / n + 1 ∧ (k + 1) % n = 0) := by
  have hd := Nat.div_add_mod k n
  have hr := Nat.mod_lt k hn
  by_cases hc : k % n + 1 < n
  · left
    refine ⟨hc, ?_⟩
    have := (Nat.div_mod_unique hn (a := k + 1) (d := k / n) (c := k % n + 1)).mpr ⟨by omega, hc⟩
    exact this
  · right
    have he : k % n + 1 = n := by omega
    refine ⟨he, ?_⟩
    have hm : n * (k / n + 1) = n * (k / n) + n := by rw [Nat.mul_add, Nat.mul_one]
    have := (Nat.div_mod_unique hn (a := k + 1) (d := k / n + 1) (c := 0)).mpr ⟨by omega, hn⟩
    exact this

theorem range_filter_mod_length (n j : Nat) (hn : 0 < n) (hj : j < n) : ∀ k : Nat,
    ((List.range k).filter (fun i => i % n == j)).length = rrCount k n j
  | 0 => by simp [rrCount, Nat.zero_div, Nat.zero_mod]
  | k + 1 => by
    rw [List.range_succ, List.filter_append, List.length_append, range_filter_mod_length n j hn hj k]
    unfold rrCount
    rcases succ_div_mod k n hn with ⟨h1, h2, h3⟩ | ⟨h1, h2, h3⟩
    · rw [h2, h3]
      by_cases hk : k % n = j
      · simp [List.filter, hk]
      · have : (k % n == j) = false := by simp [hk]
        simp only [List.filter, this, List.length_nil]
        split_ifs <;> omega
    · rw [h2, h3]
      by_cases hk : k % n = j
      · simp [List.filter, hk]
      · have : (k % n == j) = false := by simp [hk]
        simp only [List.filter, this, List.length_nil]
        split_ifs <;> omega

/-! ### hand-out of counter values to threads -/

/-- `sched` = the order in which threads perform their atomic fetch-add; the result pairs each
thread with the value it obtained. -/
def handOut : List Nat → Nat → List (Nat × Nat)
  | [], _ => []
  | t :: r, c => (t, c) :: handOut r (c + 1)

theorem handOut_values : ∀ (sched : List Nat) (c : Nat),
    (handOut sched c).map (·.2) = List.range' c sched.length
  | [], _ => rfl
  | t :: r, c => by simp [handOut, handOut_values r (c + 1), List.range']

/-! ### pool runs -/

theorem filterMap_ite {α β : Type} (p : α → Bool) (f : α → β) : ∀ l : List α,
    l.filterMap (fun a => if p a = true then some (f a) else none) = (l.filter p).map f
  | [] => rfl
  | a :: r => by
    rw [List.filterMap_cons, List.filter_cons]
    cases hp : p a
    · simp only [Bool.false_eq_true, if_false]; exact filterMap_ite p f r
    · simp only [if_true, List.map_cons]; rw [filterMap_ite p f r]


theorem bump_map_fst : ∀ (g : List (LB × Nat)) (i : Nat), (bump g i).map (·.1) = g.map (·.1)
  | [], _ => rfl
  | (lb, c) :: r, 0 => rfl
  | a :: r, i + 1 => by
    cases a
    simp [bump, bump_map_fst r i]

def stores : List Ev → List (List Server)
  | [] => []
  | .store ss :: es => ss :: stores es
  | _ :: es => stores es

theorem step_policy (p : Pool) (e : Ev) : (step p e).1.policy = p.policy := by
  cases e <;> simp only [step]
  split
  · rfl
  · split <;> rfl

theorem step_gens (p : Pool) (e : Ev) :
    (step p e).1.gens.map (·.1) = p.gens.map (·.1) ++ (stores [e]).map (newLB p.policy) := by
  cases e with
  | load t => simp [step, stores]
  | store ss => simp [step, stores]
  | pick t x =>
    simp only [step, stores, List.map_nil, List.append_nil]
    split
    · rfl
    · split
      · rfl
      · exact bump_map_fst _ _

theorem stores_cons (e : Ev) (es : List Ev) : stores (e :: es) = stores [e] ++ stores es := by
  cases e <;> simp [stores]

/-- what a step outputs was computed by `choose` on one of the balancers published so far -/
theorem step_out (p : Pool) (e : Ev) {o : Out} (h : (step p e).2 = some o) :
    ∃ lb ∈ p.gens.map (·.1), ∃ x, o.res = choose lb x := by
  cases e with
  | load t => simp [step] at h
  | store ss => simp [step] at h
  | pick t x =>
    simp only [step] at h
    split at h
    · simp at h
    · split at h
      · simp at h
      · rename_i lb c hget
        simp only [Option.some.injEq] at h
        subst h
        exact ⟨lb, List.mem_map.mpr ⟨(lb, c), List.mem_of_getElem? hget, rfl⟩, _, rfl⟩

/-! ### round robin across list replacement: counters per generation (Extension resil) -/

/-- counter of generation `g` (0 for a generation that does not exist yet: it will be created with 0) -/
def ctr (p : Pool) (g : Nat) : Nat :=
  match p.gens[g]? with
  | some (_, c) => c
  | none => 0

theorem bump_get_same : ∀ (gs : List (LB × Nat)) (g : Nat) (lb : LB) (c : Nat),
    gs[g]? = some (lb, c) → (bump gs g)[g]? = some (lb, c + 1)
  | [], _, _, _, h => by simp at h
  | (lb', c') :: r, 0, lb, c, h => by
    simp only [List.getElem?_cons_zero, Option.some.injEq, Prod.mk.injEq] at h
    obtain ⟨rfl, rfl⟩ := h
    simp [bump]
  | x :: r, g + 1, lb, c, h => by
    simp only [List.getElem?_cons_succ] at h
    simp [bump, bump_get_same r g lb c h]

theorem bump_get_other : ∀ (gs : List (LB × Nat)) (g g' : Nat), g ≠ g' → (bump gs g')[g]? = gs[g]?
  | [], _, _, _ => by simp [bump]
  | (lb', c') :: r, g, 0, h => by
    cases g with
    | zero => exact absurd rfl h
    | succ n => simp [bump]
  | x :: r, g, g' + 1, h => by
    cases g with
    | zero => simp [bump]
    | succ n => simp [bump, bump_get_other r n g' (by omega)]

/-- the selections made on generation `g`, in the order the fetch-adds happened -/
def onGen (g : Nat) (outs : List Out) : List Out := outs.filter (fun o => o.gen == g)

/-- **Every generation hands out its own consecutive counter values**, whatever loads, picks on other
generations and publications are interleaved. -/
theorem gen_counters (g : Nat) : ∀ (evs : List Ev) (p : Pool),
    (onGen g (run p evs)).map (·.counter) = List.range' (ctr p g) (onGen g (run p evs)).length
  | [], p => by simp [run, onGen]
  | e :: es, p => by
    have ih := gen_counters g es (step p e).1
    cases e with
    | load t =>
      have hc : ctr (step p (.load t)).1 g = ctr p g := by simp [step, ctr]
      rw [hc] at ih
      simpa [run, step, onGen] using ih
    | store ss =>
      have hc : ctr (step p (.store ss)).1 g = ctr p g := by
        simp only [step, ctr]
        by_cases hlt : g < p.gens.length
        · rw [List.getElem?_append_left hlt]
        · by_cases heq : g = p.gens.length
          · subst heq; simp
          · rw [List.getElem?_eq_none (by simp; omega), List.getElem?_eq_none (by omega)]
      rw [hc] at ih
      simpa [run, step, onGen] using ih
    | pick t x =>
      simp only [run] at ih ⊢
      cases hh : p.held.lookup t with
      | none => simpa [step, hh, onGen] using ih
      | some g' =>
        cases hg : p.gens[g']? with
        | none => simpa [step, hh, hg, onGen] using ih
        | some lc =>
          obtain ⟨lb, c⟩ := lc
          have hstep : step p (.pick t x) =
              ({ p with gens := bump p.gens g' }, some ⟨t, g', c, choose lb { x with counter := c }⟩) := by
            simp [step, hh, hg]
          rw [hstep] at ih ⊢
          by_cases heq : g' = g
          · subst heq
            have hc : ctr { p with gens := bump p.gens g' } g' = ctr p g' + 1 := by
              simp [ctr, bump_get_same p.gens g' lb c hg, hg]
            have hc0 : ctr p g' = c := by simp [ctr, hg]
            rw [hc] at ih
            simp only [Option.toList_some, List.singleton_append, onGen, List.filter_cons, beq_self_eq_true,
              if_true, List.map_cons, List.length_cons] at ih ⊢
            rw [ih, hc0, List.range'_succ]
          · have hc : ctr { p with gens := bump p.gens g' } g = ctr p g := by
              simp [ctr, bump_get_other p.gens g g' (Ne.symm heq)]
            rw [hc] at ih
            have hne : (g' == g) = false := by simpa using heq
            simpa [onGen, List.filter_cons, hne] using ih

end EgVerif.LoadBalance
