import EgVerif.Spec.Mux
/-!
Helper lemmas for C01 / C05 (router): the flag-carrying loops of `muxInstance.search` equal the
declarative reference router of `Spec/Mux.lean`. Core Lean only.
-/
namespace EgVerif.Mux
open EgVerif.Mux.Spec

/-! ### The model's matchers are the specification's conditions -/

theorem hostOK_eq (o : Oracle) (r : Rule) (q : Req) : hostOK o r q = ruleMatch o r q := by
  unfold hostOK ruleMatch
  cases h1 : (r.host == "" && r.hostRE.isNone) <;> cases h2 : (r.host != "" && r.host == q.hostNoPort) <;> simp

theorem pathOK_eq (o : Oracle) (e : PathEntry) (q : Req) : pathOK o e q = matchPath o e q := by
  unfold pathOK matchPath
  cases h1 : (e.path == "" && e.pathPrefix == "" && e.pathRE.isNone) <;>
    cases h2 : (e.path != "" && e.path == q.path) <;>
    cases h3 : (e.pathPrefix != "" && e.pathPrefix.isPrefixOf q.path) <;> simp

theorem methodOK_eq (e : PathEntry) (q : Req) : methodOK e q = matchMethod e q := rfl

theorem headersOK_eq (o : Oracle) (e : PathEntry) (q : Req) : headersOK o e q = matchHeaders o e q := by
  unfold headersOK matchHeaders condHolds condAll condAny
  cases e.matchAll <;> simp

/-! ### Inner loop -/

theorem searchPaths_eq (o : Oracle) (q : Req) (ri : Nat) : ∀ (es : List PathEntry) (pi : Nat) (hm mm : Bool),
    searchPaths o q ri pi es hm mm =
      match (pathEntries ri pi es).find? (full o q) with
      | some (r, p, e) => .found (if allowIP o e.ipFilter q.ip then .path r p e else .code 403)
      | none => .cont (hm || (pathEntries ri pi es).any (hdrFail o q))
                      (mm || (pathEntries ri pi es).any (methFail o q))
  | [], pi, hm, mm => by simp [searchPaths, pathEntries]
  | e :: es, pi, hm, mm => by
    have ih := searchPaths_eq o q ri es (pi + 1)
    simp only [searchPaths, pathEntries, List.find?_cons, List.any_cons, full, hdrFail, methFail,
      pathOK_eq, methodOK_eq, headersOK_eq]
    cases hp : matchPath o e q
    · simp [ih]
    · cases hmth : matchMethod e q
      · simp [ih]
      · cases hh : e.headers.isEmpty
        · cases hhd : matchHeaders o e q
          · simp [ih]
          · cases ha : allowIP o e.ipFilter q.ip <;> simp [ha]
        · cases ha : allowIP o e.ipFilter q.ip <;> simp [ha]

/-! ### Outer loop -/

theorem routeOf_append_none (o : Oracle) (q : Req) (pe rest : List Entry) (hm mm : Bool)
    (h : pe.find? (full o q) = none) :
    routeOf o q (pe ++ rest) hm mm =
      routeOf o q rest (hm || pe.any (hdrFail o q)) (mm || pe.any (methFail o q)) := by
  simp only [routeOf, failCode, List.find?_append, h, Option.none_or, List.any_append, Bool.or_assoc]

theorem routeOf_append_some (o : Oracle) (q : Req) (pe rest : List Entry) (hm mm : Bool) (x : Entry)
    (h : pe.find? (full o q) = some x) :
    routeOf o q (pe ++ rest) hm mm = .path x.1 x.2.1 x.2.2 := by
  simp [routeOf, List.find?_append, h]

theorem searchRules_eq (o : Oracle) (q : Req) : ∀ (rs : List Rule) (ri : Nat) (hm mm : Bool),
    searchRules o q ri rs hm mm =
      if deniedBy o q (applyingFrom o q ri rs) then .code 403
      else routeOf o q (entriesFrom o q ri rs) hm mm
  | [], ri, hm, mm => by
    simp only [searchRules, applyingFrom, entriesFrom, deniedBy, routeOf, failCode, List.any_nil,
      List.find?_nil, Bool.or_false, Bool.false_eq_true, if_false]
    cases hm <;> cases mm <;> rfl
  | r :: rs, ri, hm, mm => by
    have ih := searchRules_eq o q rs (ri + 1)
    simp only [searchRules, applyingFrom, entriesFrom, hostOK_eq]
    cases hr : ruleMatch o r q
    · simp [ih]
    · simp only [Bool.not_true, Bool.false_eq_true, if_false, if_true]
      cases har : allowIP o r.ipFilter q.ip
      · simp only [Bool.not_false, if_true]
        cases hf : (pathEntries ri 0 r.paths).find? (full o q) with
        | none => simp [deniedBy, har]
        | some x => obtain ⟨a, b, e⟩ := x; simp [deniedBy, har]
      · simp only [Bool.not_true, Bool.false_eq_true, if_false]
        rw [searchPaths_eq]
        cases hf : (pathEntries ri 0 r.paths).find? (full o q) with
        | none =>
          simp only [ih]
          rw [routeOf_append_none o q _ _ hm mm hf]
          simp [deniedBy, har]
        | some x =>
          obtain ⟨a, b, e⟩ := x
          rw [routeOf_append_some o q _ _ hm mm _ hf]
          cases hae : allowIP o e.ipFilter q.ip <;> simp [deniedBy, har, hae]

/-- **Master equation**: the cache-less search is the reference router with the applying
IP filters layered on top. -/
theorem search_eq_routeF (o : Oracle) (c : Cfg) (q : Req) : search o c q = routeF o c q := by
  unfold search routeF denied applying route entries
  cases ha : allowIP o c.ipFilter q.ip
  · simp [deniedBy, ha]
  · simp [searchRules_eq, deniedBy, ha]

/-! ### "As if no filter existed": the all-allowing oracle -/

theorem reMatch_unfiltered (o : Oracle) : reMatch (unfiltered o) = reMatch o := by
  funext r s; cases r <;> rfl

theorem hostOK_unfiltered (o : Oracle) : hostOK (unfiltered o) = hostOK o := by
  funext r q; simp [hostOK, reMatch_unfiltered]

theorem pathOK_unfiltered (o : Oracle) : pathOK (unfiltered o) = pathOK o := by
  funext e q; simp [pathOK, reMatch_unfiltered]

theorem headersOK_unfiltered (o : Oracle) : headersOK (unfiltered o) = headersOK o := by
  funext e q; simp [headersOK, condHolds, reMatch_unfiltered]

theorem full_unfiltered (o : Oracle) : full (unfiltered o) = full o := by
  funext q x; simp [full, pathOK_unfiltered, headersOK_unfiltered]

theorem hdrFail_unfiltered (o : Oracle) : hdrFail (unfiltered o) = hdrFail o := by
  funext q x; simp [hdrFail, pathOK_unfiltered, headersOK_unfiltered]

theorem methFail_unfiltered (o : Oracle) : methFail (unfiltered o) = methFail o := by
  funext q x; simp [methFail, pathOK_unfiltered]

theorem entriesFrom_unfiltered (o : Oracle) (q : Req) : ∀ (rs : List Rule) (ri : Nat),
    entriesFrom (unfiltered o) q ri rs = entriesFrom o q ri rs
  | [], _ => rfl
  | r :: rs, ri => by simp [entriesFrom, hostOK_unfiltered, entriesFrom_unfiltered o q rs]

theorem route_unfiltered (o : Oracle) (c : Cfg) (q : Req) : route (unfiltered o) c q = route o c q := by
  unfold route routeOf failCode entries
  rw [entriesFrom_unfiltered, full_unfiltered, hdrFail_unfiltered, methFail_unfiltered]

theorem deniedBy_unfiltered (o : Oracle) (q : Req) (fs : List (Option Nat)) :
    deniedBy (unfiltered o) q fs = false := by
  have : ∀ f, allowIP (unfiltered o) f q.ip = true := by
    intro f; cases f <;> rfl
  simp [deniedBy, this]

theorem search_unfiltered (o : Oracle) (c : Cfg) (q : Req) :
    search (unfiltered o) c q = route o c q := by
  rw [search_eq_routeF]; simp [routeF, denied, deniedBy_unfiltered, route_unfiltered]

/-! ### Index characterisation of the entries and "first in rule-then-path order" -/

theorem mem_pathEntries {ri : Nat} : ∀ {es : List PathEntry} {pi a b : Nat} {e : PathEntry},
    (a, b, e) ∈ pathEntries ri pi es ↔ a = ri ∧ pi ≤ b ∧ es[b - pi]? = some e
  | [], pi, a, b, e => by simp [pathEntries]
  | x :: es, pi, a, b, e => by
    simp only [pathEntries, List.mem_cons, Prod.mk.injEq, mem_pathEntries (es := es)]
    constructor
    · rintro (⟨h1, h2, h3⟩ | ⟨h1, h2, h3⟩)
      · subst h1 h2 h3; simp
      · refine ⟨h1, by omega, ?_⟩
        have : b - pi = (b - (pi + 1)) + 1 := by omega
        rw [this, List.getElem?_cons_succ]; exact h3
    · rintro ⟨h1, h2, h3⟩
      by_cases hb : b = pi
      · left; subst hb; simp at h3; exact ⟨h1, rfl, h3.symm⟩
      · right
        refine ⟨h1, by omega, ?_⟩
        have : b - pi = (b - (pi + 1)) + 1 := by omega
        rw [this, List.getElem?_cons_succ] at h3; exact h3

theorem mem_entriesFrom {o : Oracle} {q : Req} : ∀ {rs : List Rule} {ri a b : Nat} {e : PathEntry},
    (a, b, e) ∈ entriesFrom o q ri rs ↔
      ri ≤ a ∧ ∃ r, rs[a - ri]? = some r ∧ hostOK o r q = true ∧ r.paths[b]? = some e
  | [], ri, a, b, e => by simp [entriesFrom]
  | r :: rs, ri, a, b, e => by
    simp only [entriesFrom, List.mem_append, mem_entriesFrom (rs := rs)]
    constructor
    · rintro (h | ⟨h1, r', h2, h3, h4⟩)
      · by_cases hh : hostOK o r q = true
        · simp only [hh, if_true, mem_pathEntries] at h
          obtain ⟨h1, _, h3⟩ := h
          subst h1
          exact ⟨Nat.le_refl _, r, by simp, hh, by simpa using h3⟩
        · simp [hh] at h
      · refine ⟨by omega, r', ?_, h3, h4⟩
        have : a - ri = (a - (ri + 1)) + 1 := by omega
        rw [this, List.getElem?_cons_succ]; exact h2
    · rintro ⟨h1, r', h2, h3, h4⟩
      by_cases ha : a = ri
      · left; subst ha
        simp at h2; subst h2
        simp only [h3, if_true, mem_pathEntries]
        simpa using h4
      · right
        refine ⟨by omega, r', ?_, h3, h4⟩
        have : a - ri = (a - (ri + 1)) + 1 := by omega
        rw [this, List.getElem?_cons_succ] at h2; exact h2

/-- Strict rule-then-path order on entries. -/
def before (x y : Entry) : Prop := x.1 < y.1 ∨ (x.1 = y.1 ∧ x.2.1 < y.2.1)

theorem pairwise_pathEntries (ri : Nat) : ∀ (es : List PathEntry) (pi : Nat),
    (pathEntries ri pi es).Pairwise before
  | [], _ => by simp [pathEntries]
  | e :: es, pi => by
    simp only [pathEntries, List.pairwise_cons]
    refine ⟨?_, pairwise_pathEntries ri es (pi + 1)⟩
    rintro ⟨a, b, e'⟩ hm
    have := (mem_pathEntries.mp hm)
    right; exact ⟨this.1.symm, by have := this.2.1; simp; omega⟩

theorem pairwise_entriesFrom (o : Oracle) (q : Req) : ∀ (rs : List Rule) (ri : Nat),
    (entriesFrom o q ri rs).Pairwise before
  | [], _ => by simp [entriesFrom]
  | r :: rs, ri => by
    simp only [entriesFrom]
    rw [List.pairwise_append]
    refine ⟨?_, pairwise_entriesFrom o q rs (ri + 1), ?_⟩
    · split
      · exact pairwise_pathEntries ri r.paths 0
      · simp
    · rintro ⟨a, b, e⟩ h1 ⟨a', b', e'⟩ h2
      have h2' := (mem_entriesFrom.mp h2).1
      split at h1
      · have := (mem_pathEntries.mp h1).1
        left; simp; omega
      · simp at h1

theorem find?_first {l : List Entry} {p : Entry → Bool} {x : Entry} (hp : l.Pairwise before)
    (h : l.find? p = some x) : ∀ y ∈ l, before y x → p y = false := by
  obtain ⟨_, as, bs, hl, has⟩ := List.find?_eq_some_iff_append.mp h
  intro y hy hb
  subst hl
  rcases List.mem_append.mp hy with h1 | h1
  · simpa using has y h1
  · rw [List.pairwise_append] at hp
    obtain ⟨_, hp2, _⟩ := hp
    rcases List.mem_cons.mp h1 with h2 | h2
    · subst h2; unfold before at hb; omega
    · have := (List.pairwise_cons.mp hp2).1 y h2
      unfold before at hb this; omega

/-! ### Extension mux: the raw `Host` is read only through its port-stripped form; `strings.Contains` -/

/-- `q` with another raw `Host` (another port, or none) but the same host-without-port. -/
def withHost (q : Req) (h : String) : Req := { q with host := h }

theorem searchPaths_withHost (o : Oracle) (q : Req) (h : String) (ri : Nat) :
    ∀ (es : List PathEntry) (pi : Nat) (hm mm : Bool),
      searchPaths o (withHost q h) ri pi es hm mm = searchPaths o q ri pi es hm mm
  | [], _, _, _ => rfl
  | e :: es, pi, hm, mm => by
    have ih := searchPaths_withHost o q h ri es (pi + 1)
    have h1 : matchPath o e (withHost q h) = matchPath o e q := rfl
    have h2 : matchMethod e (withHost q h) = matchMethod e q := rfl
    have h3 : matchHeaders o e (withHost q h) = matchHeaders o e q := rfl
    have h4 : (withHost q h).ip = q.ip := rfl
    simp only [searchPaths, h1, h2, h3, h4, ih]

theorem searchRules_withHost (o : Oracle) (q : Req) (h : String) :
    ∀ (rs : List Rule) (ri : Nat) (hm mm : Bool),
      searchRules o (withHost q h) ri rs hm mm = searchRules o q ri rs hm mm
  | [], _, _, _ => rfl
  | r :: rs, ri, hm, mm => by
    have ih := searchRules_withHost o q h rs (ri + 1)
    have h1 : ruleMatch o r (withHost q h) = ruleMatch o r q := rfl
    have h4 : (withHost q h).ip = q.ip := rfl
    simp only [searchRules, h1, h4, ih, searchPaths_withHost]

theorem isPrefixOf_self (p : List Char) : p.isPrefixOf p = true := by
  induction p with
  | nil => rfl
  | cons c t ih => simp [List.isPrefixOf, ih]

theorem isInfix_append_left (p : List Char) : ∀ a : List Char, isInfix p (a ++ p) = true
  | [] => by
    cases p with
    | nil => rfl
    | cons c t => simp [isInfix, isPrefixOf_self]
  | c :: a => by
    simp only [List.cons_append, isInfix, isInfix_append_left p a, Bool.or_true]

end EgVerif.Mux
