import EgVerif.Model.MuxCache
/-!
# Helper lemmas for C12 (route cache transparency)

* `SameKey q q'` — the two requests agree on everything the cache key determines
  (host, host without port, method, path); headers and client address are free.
* erasure: the miss path of the cached search computes exactly the cache-less `Mux.search`;
* `put_sound`: whatever a miss puts into the cache answers *every* request with the same key
  exactly as the cache-less search would (this is where the three repairs are needed);
* `CacheInv` and its preservation by `searchCached` for every eviction answer.
-/
namespace EgVerif.MuxCache
open EgVerif.Mux

/-- Requests as the Go code sees them: `hostNoPort` is a function (`strip`, i.e. `net.SplitHostPort`
with fallback) of the raw host. -/
def WF (strip : String → String) (q : Req) : Prop := q.hostNoPort = strip q.host

structure SameKey (q q' : Req) : Prop where
  host : q.host = q'.host
  hostNoPort : q.hostNoPort = q'.hostNoPort
  method : q.method = q'.method
  path : q.path = q'.path

theorem sameKey_of_key {strip : String → String} {q q' : Req} (h : WF strip q) (h' : WF strip q')
    (hk : keyOf q = keyOf q') : SameKey q q' := by
  simp only [keyOf, Key.mk.injEq] at hk
  obtain ⟨h1, h2, h3⟩ := hk
  exact ⟨h1, by rw [h, h', h1], h2, h3⟩

theorem SameKey.ruleMatch {q q' : Req} (s : SameKey q q') (o : Oracle) (r : Rule) :
    ruleMatch o r q' = ruleMatch o r q := by
  simp [Mux.ruleMatch, s.hostNoPort]

theorem SameKey.matchPath {q q' : Req} (s : SameKey q q') (o : Oracle) (e : PathEntry) :
    matchPath o e q' = matchPath o e q := by
  simp [Mux.matchPath, s.path]

theorem SameKey.matchMethod {q q' : Req} (s : SameKey q q') (e : PathEntry) :
    matchMethod e q' = matchMethod e q := by
  simp [Mux.matchMethod, s.method]

/-! ### consulted list -/

theorem consult_eq (cs : List Nat) (f : Option Nat) : consult cs f = cs ++ consult [] f := by
  cases f <;> simp [consult]

theorem all_consult (o : Oracle) (f : Option Nat) (ip : String) :
    (consult [] f).all (fun i => o.allow i ip) = allowIP o f ip := by
  cases f <;> simp [consult, allowIP]

/-! ### erasure: the miss path computes the cache-less search -/

def PathResC.erase : PathResC → PathRes
  | .found r _ => .found r
  | .cont hm mm => .cont hm mm

theorem searchPathsC_erase (o : Oracle) (q : Req) (ri : Nat) (cs : List Nat) :
    ∀ (es : List PathEntry) (pi : Nat) (hm mm : Bool),
      (searchPathsC o q ri cs pi es hm mm).erase = searchPaths o q ri pi es hm mm
  | [], _, _, _ => rfl
  | e :: es, pi, hm, mm => by
    simp only [searchPathsC, searchPaths]
    split
    · exact searchPathsC_erase o q ri cs es _ _ _
    · split
      · exact searchPathsC_erase o q ri cs es _ _ _
      · split
        · exact searchPathsC_erase o q ri cs es _ _ _
        · split <;> rfl

theorem searchRulesC_fst (o : Oracle) (q : Req) :
    ∀ (rs : List Rule) (ri : Nat) (cs : List Nat) (hm mm : Bool),
      (searchRulesC o q ri rs cs hm mm).1 = searchRules o q ri rs hm mm
  | [], _, _, hm, mm => by
    simp only [searchRulesC, searchRules]
    split
    · rfl
    · split <;> rfl
  | r :: rs, ri, cs, hm, mm => by
    simp only [searchRulesC, searchRules]
    split
    · exact searchRulesC_fst o q rs _ _ _ _
    · split
      · rfl
      · have h := searchPathsC_erase o q ri (consult cs r.ipFilter) r.paths 0 hm mm
        revert h
        cases searchPathsC o q ri (consult cs r.ipFilter) 0 r.paths hm mm with
        | found x p => intro h; simp only [PathResC.erase] at h; rw [← h]
        | cont hm' mm' =>
          intro h; simp only [PathResC.erase] at h; rw [← h]
          exact searchRulesC_fst o q rs _ _ _ _

/-- A miss returns what the cache-less search returns. -/
theorem searchMiss_fst (o : Oracle) (c : Cfg) (q : Req) : (searchMiss o c q).1 = search o c q := by
  simp only [searchMiss, search]
  split
  · rfl
  · exact searchRulesC_fst o q c.rules 0 _ false false

/-! ### once `headerMismatch` is set nothing is put -/

def NoPut : PathResC → Prop
  | .found _ p => p = none
  | .cont hm' _ => hm' = true

theorem searchPathsC_hm (o : Oracle) (q : Req) (ri : Nat) (cs : List Nat) :
    ∀ (es : List PathEntry) (pi : Nat) (mm : Bool), NoPut (searchPathsC o q ri cs pi es true mm)
  | [], _, _ => by simp [searchPathsC, NoPut]
  | e :: es, pi, mm => by
    simp only [searchPathsC]
    split
    · exact searchPathsC_hm o q ri cs es _ _
    · split
      · exact searchPathsC_hm o q ri cs es _ _
      · split
        · exact searchPathsC_hm o q ri cs es _ _
        · split <;> simp [NoPut]

theorem searchRulesC_hm (o : Oracle) (q : Req) :
    ∀ (rs : List Rule) (ri : Nat) (cs : List Nat) (mm : Bool),
      (searchRulesC o q ri rs cs true mm).2 = none
  | [], _, _, _ => by simp [searchRulesC]
  | r :: rs, ri, cs, mm => by
    simp only [searchRulesC]
    split
    · exact searchRulesC_hm o q rs _ _ _
    · split
      · rfl
      · have h := searchPathsC_hm o q ri (consult cs r.ipFilter) r.paths 0 mm
        revert h
        cases searchPathsC o q ri (consult cs r.ipFilter) 0 r.paths true mm with
        | found x p => intro h; exact h
        | cont hm' mm' => intro h; simp only [NoPut] at h; subst h; exact searchRulesC_hm o q rs _ _ _

/-! ### what is put answers every request with the same key -/

/-- The answer a cached route gives to `q'` when `extra` are the filters still to be consulted. -/
def answer (o : Oracle) (r : Route) (extra : List Nat) (q' : Req) : Route :=
  if extra.all (fun f => o.allow f q'.ip) then r else .code 403

/-- What the inner loop guarantees about the twin request `q'` (result `other` of the cache-less
inner loop on `q'` from the same state). -/
def PutOK (o : Oracle) (q' : Req) (cs : List Nat) (other : PathRes) : PathResC → Prop
  | .found _ (some r) => ∃ extra, r.filters = cs ++ extra ∧ other = .found (answer o r.route extra q')
  | .found _ none => True
  | .cont hm' mm' => hm' = false → other = .cont false mm'

theorem putOK_of_noPut {o : Oracle} {q' : Req} {cs : List Nat} {other : PathRes} {x : PathResC}
    (h : NoPut x) : PutOK o q' cs other x := by
  cases x with
  | found r p => simp only [NoPut] at h; subst h; trivial
  | cont hm' mm' => simp only [NoPut] at h; subst h; intro h2; cases h2

theorem searchPathsC_put (o : Oracle) {q q' : Req} (s : SameKey q q') (ri : Nat) (cs : List Nat) :
    ∀ (es : List PathEntry) (pi : Nat) (mm : Bool),
      PutOK o q' cs (searchPaths o q' ri pi es false mm) (searchPathsC o q ri cs pi es false mm)
  | [], _, _ => by simp [searchPathsC, searchPaths, PutOK]
  | e :: es, pi, mm => by
    have ih := searchPathsC_put o s ri cs es
    simp only [searchPathsC, searchPaths, s.matchPath, s.matchMethod]
    cases matchPath o e q
    · simpa using ih _ _
    cases matchMethod e q
    · simpa using ih _ _
    cases hemp : e.headers.isEmpty
    · -- entry with header conditions: never put
      cases matchHeaders o e q
      · -- mismatch for `q`: from here on nothing is put
        simp only [Bool.not_true, Bool.not_false, Bool.true_and, Bool.false_eq_true, if_false, if_true]
        exact putOK_of_noPut (searchPathsC_hm o q ri cs es _ _)
      · cases allowIP o e.ipFilter q.ip <;> simp [PutOK]
    · -- header-less entry: the twin passes the header test as well
      have hans : (if (!allowIP o e.ipFilter q'.ip) = true then PathRes.found (Route.code 403)
          else PathRes.found (Route.path ri pi e))
          = PathRes.found (answer o (Route.path ri pi e) (consult [] e.ipFilter) q') := by
        simp only [answer, all_consult]
        cases allowIP o e.ipFilter q'.ip <;> simp
      simp only [Bool.not_true, Bool.not_false, Bool.false_and, Bool.true_and, Bool.false_eq_true,
        if_false, if_true, hans]
      cases allowIP o e.ipFilter q.ip <;>
        exact ⟨consult [] e.ipFilter, consult_eq cs e.ipFilter, rfl⟩

theorem searchRulesC_put (o : Oracle) {q q' : Req} (s : SameKey q q') :
    ∀ (rs : List Rule) (ri : Nat) (cs : List Nat) (mm : Bool) (r : CRoute),
      (searchRulesC o q ri rs cs false mm).2 = some r →
      ∃ extra, r.filters = cs ++ extra ∧ searchRules o q' ri rs false mm = answer o r.route extra q'
  | [], _, cs, mm, r => by
    simp only [searchRulesC, searchRules, Bool.false_eq_true, if_false]
    split
    · intro h; simp only [Option.some.injEq] at h; subst h
      exact ⟨[], by simp, by simp [answer]⟩
    · intro h; simp only [Option.some.injEq] at h; subst h
      exact ⟨[], by simp, by simp [answer]⟩
  | ru :: rs, ri, cs, mm, r => by
    simp only [searchRulesC, searchRules, s.ruleMatch]
    split
    · exact searchRulesC_put o s rs _ cs mm r
    · split
      · intro h; cases h
      · have hp := searchPathsC_put o s ri (consult cs ru.ipFilter) ru.paths 0 mm
        revert hp
        cases hc : searchPathsC o q ri (consult cs ru.ipFilter) 0 ru.paths false mm with
        | found x p =>
          intro hp h
          simp only at h; subst h
          simp only [PutOK] at hp
          obtain ⟨extra, hf, hs⟩ := hp
          refine ⟨consult [] ru.ipFilter ++ extra, ?_, ?_⟩
          · rw [hf, consult_eq cs ru.ipFilter, List.append_assoc]
          · rw [hs]
            simp only [answer, List.all_append, all_consult]
            cases allowIP o ru.ipFilter q'.ip <;> simp
        | cont hm' mm' =>
          intro hp h
          simp only at h
          cases hm' with
          | true => rw [searchRulesC_hm] at h; cases h
          | false =>
            simp only [PutOK, forall_const] at hp
            rw [hp]
            obtain ⟨extra, hf, hs⟩ := searchRulesC_put o s rs (ri + 1) (consult cs ru.ipFilter) mm' r h
            refine ⟨consult [] ru.ipFilter ++ extra, ?_, ?_⟩
            · rw [hf, consult_eq cs ru.ipFilter, List.append_assoc]
            · simp only [hs, answer, List.all_append, all_consult]
              cases allowIP o ru.ipFilter q'.ip <;> simp

/-- **Soundness of every put site.** The route a miss for `q` adds to the cache answers every
request `q'` with the same key exactly as the cache-less search answers `q'`. -/
theorem put_sound (o : Oracle) (c : Cfg) {q q' : Req} (s : SameKey q q') (r : CRoute)
    (h : (searchMiss o c q).2 = some r) : hit o r q' = search o c q' := by
  simp only [searchMiss] at h
  split at h
  · cases h
  · obtain ⟨extra, hf, hs⟩ := searchRulesC_put o s c.rules 0 (consult [] c.ipFilter) false r h
    simp only [hit, search, hs, hf, answer, List.all_append, all_consult]
    cases allowIP o c.ipFilter q'.ip <;> simp

/-! ### the cache invariant -/

/-- Every cached entry answers every (well-formed) request with that key as the cache-less search. -/
def CacheInv (o : Oracle) (c : Cfg) (strip : String → String) (cache : Cache) : Prop :=
  ∀ k r, (k, r) ∈ cache → ∀ q, WF strip q → keyOf q = k → hit o r q = search o c q

theorem cacheInv_nil (o : Oracle) (c : Cfg) (strip : String → String) : CacheInv o c strip [] := by
  intro k r h; cases h

theorem mem_of_lookup {k : Key} {r : CRoute} : ∀ {cache : Cache}, cache.lookup k = some r → (k, r) ∈ cache
  | [], h => by simp [List.lookup] at h
  | (k', r') :: rest, h => by
    simp only [List.lookup] at h
    split at h
    · rename_i heq
      simp only [beq_iff_eq] at heq
      simp only [Option.some.injEq] at h
      subst heq; subst h; exact List.mem_cons_self
    · exact List.mem_cons_of_mem _ (mem_of_lookup h)

/-- One request, any eviction answer: the result is the cache-less one and the invariant is kept. -/
theorem searchCached_step (o : Oracle) (c : Cfg) (strip : String → String) (ev : Key → Bool)
    (cache : Cache) (q : Req) (hq : WF strip q) (inv : CacheInv o c strip cache) :
    (searchCached o c ev cache q).1 = search o c q ∧ CacheInv o c strip (searchCached o c ev cache q).2 := by
  simp only [searchCached]
  split
  · rename_i r hr
    refine ⟨?_, inv⟩
    split at hr
    · cases hr
    · exact inv _ r (mem_of_lookup hr) q hq rfl
  · have h1 := searchMiss_fst o c q
    cases hm : searchMiss o c q with
    | mk x p =>
      rw [hm] at h1
      cases p with
      | none => exact ⟨h1, inv⟩
      | some r =>
        refine ⟨h1, ?_⟩
        intro k r' hmem q' hq' hk
        simp only [List.mem_cons, Prod.mk.injEq] at hmem
        rcases hmem with ⟨rfl, rfl⟩ | hmem
        · exact put_sound o c (sameKey_of_key hq hq' hk.symm) r' (by rw [hm])
        · exact inv k r' hmem q' hq' hk

theorem runFrom_eq (o : Oracle) (c : Cfg) (strip : String → String) (ev : Nat → Key → Bool) :
    ∀ (reqs : List Req) (n : Nat) (cache : Cache), (∀ q ∈ reqs, WF strip q) → CacheInv o c strip cache →
      runFrom o c ev n cache reqs = reqs.map (search o c)
  | [], _, _, _, _ => rfl
  | q :: qs, n, cache, hw, inv => by
    obtain ⟨h1, h2⟩ := searchCached_step o c strip (ev n) cache q (hw q List.mem_cons_self) inv
    simp only [runFrom, List.map_cons, h1]
    rw [runFrom_eq o c strip ev qs (n + 1) _ (fun q' h => hw q' (List.mem_cons_of_mem _ h)) h2]

/-! ### reloads (Extension mux) -/

/-- The published instance's cache, if it has one, satisfies the invariant *for its own configuration*. -/
def InstInv (o : Oracle) (strip : String → String) (i : Inst) : Prop :=
  ∀ cache, i.cache = some cache → CacheInv o i.cfg strip cache

theorem instInv_newMux (o : Oracle) (strip : String → String) : InstInv o strip newMux := by
  intro cache h; cases h

/-- `reload` re-establishes the invariant whatever the previous instance was: the cache is fresh. -/
theorem instInv_reload (o : Oracle) (strip : String → String) (g : GenSpec) : InstInv o strip (reload g) := by
  intro cache h
  simp only [reload] at h
  split at h
  · simp only [Option.some.injEq] at h; subst h; exact cacheInv_nil o g.cfg strip
  · cases h

/-- One request on the published instance: cache-less answer, configuration unchanged, invariant kept. -/
theorem instSearch_step (o : Oracle) (strip : String → String) (ev : Key → Bool) (i : Inst) (q : Req)
    (hq : WF strip q) (inv : InstInv o strip i) :
    (i.search o ev q).1 = search o i.cfg q ∧ (i.search o ev q).2.cfg = i.cfg ∧
      InstInv o strip (i.search o ev q).2 := by
  obtain ⟨cfg, cache⟩ := i
  cases cache with
  | none => exact ⟨searchMiss_fst o cfg q, rfl, inv⟩
  | some cache =>
    obtain ⟨h1, h2⟩ := searchCached_step o cfg strip ev cache q hq (inv cache rfl)
    refine ⟨h1, rfl, ?_⟩
    intro cache' hc
    simp only [Inst.search, Option.some.injEq] at hc
    subst hc; exact h2

/-- All requests of a history are well-formed. -/
def OpsWF (strip : String → String) (ops : List Op) : Prop := ∀ q, Op.request q ∈ ops → WF strip q

theorem runOps_eq (o : Oracle) (strip : String → String) (ev : Nat → Key → Bool) :
    ∀ (ops : List Op) (n : Nat) (i : Inst), OpsWF strip ops → InstInv o strip i →
      runOps o ev n i ops = refOps o i.cfg ops
  | [], _, _, _, _ => rfl
  | .reload g :: ops, n, i, hw, _ => by
    simp only [runOps, refOps, reqCfgs]
    exact runOps_eq o strip ev ops n (reload g) (fun q h => hw q (List.mem_cons_of_mem _ h))
      (instInv_reload o strip g)
  | .request q :: ops, n, i, hw, inv => by
    obtain ⟨h1, h2, h3⟩ := instSearch_step o strip (ev n) i q (hw q List.mem_cons_self) inv
    simp only [runOps, refOps, reqCfgs, List.map_cons, h1]
    rw [runOps_eq o strip ev ops (n + 1) _ (fun q' h => hw q' (List.mem_cons_of_mem _ h)) h3, h2]
    rfl

/-- configuration current after a history -/
def cfgAfter : Cfg → List Op → Cfg
  | c, [] => c
  | _, .reload g :: ops => cfgAfter g.cfg ops
  | c, .request _ :: ops => cfgAfter c ops

theorem reqCfgs_append (c : Cfg) (pre post : List Op) :
    reqCfgs c (pre ++ post) = reqCfgs c pre ++ reqCfgs (cfgAfter c pre) post := by
  induction pre generalizing c with
  | nil => rfl
  | cons op pre ih =>
    cases op with
    | request q => simp [reqCfgs, cfgAfter, ih]
    | reload g => simp [reqCfgs, cfgAfter, ih]

theorem length_runOps (o : Oracle) (ev : Nat → Key → Bool) :
    ∀ (ops : List Op) (n : Nat) (i : Inst), (runOps o ev n i ops).length = (reqCfgs i.cfg ops).length
  | [], _, _ => rfl
  | .reload g :: ops, n, i => by simp only [runOps, reqCfgs]; exact length_runOps o ev ops n (reload g)
  | .request q :: ops, n, i => by
    simp only [runOps, reqCfgs, List.length_cons]
    rw [length_runOps o ev ops (n + 1) _]
    obtain ⟨cfg, cache⟩ := i
    cases cache <;> rfl

end EgVerif.MuxCache

/-! ### shared witness history (used by `Props/C12.lean` and `Props/C05.lean`)

Filter 0 blocks `10.0.0.1`. Generation 1: one rule, no filter; generation 2: the same rules and cache
size plus the server-level filter 0. Both keys (`/x` → p1, `/nothing` → 404) are cached by generation 1. -/
namespace EgVerif.C12w
open EgVerif.Mux EgVerif.MuxCache

def oR : Oracle := ⟨fun _ _ => false, fun i ip => !(i == 0 && ip == "10.0.0.1")⟩
def cfgR1 : Cfg := { rules := [{ paths := [{ path := "/x", backend := "p1" }] }] }
def cfgR2 : Cfg := { cfgR1 with ipFilter := some 0 }
def qR (ip : String) : Req := ⟨"a", "a", "GET", "/x", [], ip⟩
def qN (ip : String) : Req := ⟨"a", "a", "GET", "/nothing", [], ip⟩
def histR : List Op := [.reload ⟨cfgR1, true⟩, .request (qR "10.0.0.2"), .request (qN "10.0.0.2"),
  .reload ⟨cfgR2, true⟩, .request (qR "10.0.0.1"), .request (qN "10.0.0.1")]

end EgVerif.C12w
