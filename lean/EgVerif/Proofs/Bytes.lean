import EgVerif.Model.Signer
/-!
Helper lemmas about the byte-string functions of `Model/Signer.lean`
(`stripPrefix`, `splitFirst`, `splitOn`, `joinB`, `trimSpace`).
-/
namespace EgVerif.Signer
open EgVerif.Sha256 (Bytes)

theorem stripPrefix_eq_some {p s t : Bytes} : stripPrefix p s = some t ↔ s = p ++ t := by
  induction p generalizing s with
  | nil => simp [stripPrefix, eq_comm]
  | cons x p ih =>
    cases s with
    | nil => simp [stripPrefix]
    | cons y s =>
      simp only [stripPrefix]
      by_cases h : x = y
      · subst h; simp [ih]
      · simp [h]; intro h'; exact absurd h'.symm h

theorem stripPrefix_append (p s : Bytes) : stripPrefix p (p ++ s) = some s :=
  stripPrefix_eq_some.mpr rfl

theorem hasPrefix_append (p s : Bytes) : hasPrefix (p ++ s) p = true := by
  simp [hasPrefix, stripPrefix_append]

theorem splitFirst_eq_some {c : UInt8} : ∀ {s a t : Bytes},
    splitFirst c s = some (a, t) ↔ s = a ++ c :: t ∧ c ∉ a
  | [], a, t => by simp [splitFirst]
  | x :: r, a, t => by
    simp only [splitFirst]
    by_cases h : x = c
    · subst h
      simp only [if_true, Option.some.injEq, Prod.mk.injEq]
      constructor
      · rintro ⟨rfl, rfl⟩; simp
      · rintro ⟨h1, h2⟩
        cases a with
        | nil => simp at h1; simp [h1]
        | cons y a' => simp at h1 h2; exact absurd h1.1 h2.1
    · simp only [h, if_false]
      cases hr : splitFirst c r with
      | none =>
        simp only [false_iff, reduceCtorEq]
        rintro ⟨h1, h2⟩
        cases a with
        | nil => simp at h1; exact h h1.1
        | cons y a' =>
          simp at h1 h2
          have := (splitFirst_eq_some (s := r) (a := a') (t := t)).mpr ⟨h1.2, h2.2⟩
          simp [hr] at this
      | some pr =>
        obtain ⟨a0, t0⟩ := pr
        have h0 := (splitFirst_eq_some (s := r) (a := a0) (t := t0)).mp hr
        simp only [Option.some.injEq, Prod.mk.injEq]
        constructor
        · rintro ⟨rfl, rfl⟩
          refine ⟨by simp [h0.1], ?_⟩
          simp [h0.2, Ne.symm h]
        · rintro ⟨h1, h2⟩
          cases a with
          | nil => simp at h1; exact absurd h1.1 h
          | cons y a' =>
            simp at h1 h2
            have := (splitFirst_eq_some (s := r) (a := a') (t := t)).mpr ⟨h1.2, h2.2⟩
            rw [hr] at this
            simp at this
            exact ⟨by rw [h1.1, this.1], this.2⟩

theorem splitFirst_append {c : UInt8} {a : Bytes} (t : Bytes) (h : c ∉ a) :
    splitFirst c (a ++ c :: t) = some (a, t) := splitFirst_eq_some.mpr ⟨rfl, h⟩

theorem splitFirst_none {c : UInt8} {s : Bytes} : splitFirst c s = none ↔ c ∉ s := by
  induction s with
  | nil => simp [splitFirst]
  | cons x r ih =>
    simp only [splitFirst]
    by_cases h : x = c
    · subst h; simp
    · simp only [h, if_false]
      cases hr : splitFirst c r with
      | none => simp [ih.mp hr, Ne.symm h]
      | some pr => simp; intro _; have := mt ih.mpr; simp [hr] at this; exact this

theorem splitOn_ne_nil (c : UInt8) (s : Bytes) : splitOn c s ≠ [] := by
  induction s with
  | nil => simp [splitOn]
  | cons x r ih =>
    simp only [splitOn]
    split
    · simp
    · split <;> simp

theorem splitOn_of_not_mem {c : UInt8} {s : Bytes} (h : c ∉ s) : splitOn c s = [s] := by
  induction s with
  | nil => simp [splitOn]
  | cons x r ih =>
    simp at h
    simp [splitOn, Ne.symm h.1, ih h.2]

theorem splitOn_append {c : UInt8} {a : Bytes} (t : Bytes) (h : c ∉ a) :
    splitOn c (a ++ c :: t) = a :: splitOn c t := by
  induction a with
  | nil => simp [splitOn]
  | cons x r ih =>
    simp at h
    simp [splitOn, Ne.symm h.1, ih h.2]

/-- `strings.Split(strings.Join(l, sep), sep) = l` for separator-free, non-empty `l` -/
theorem splitOn_joinB {c : UInt8} : ∀ {l : List Bytes}, l ≠ [] → (∀ s ∈ l, c ∉ s) → splitOn c (joinB c l) = l
  | [a], _, h => by simp [joinB, splitOn_of_not_mem (h a (by simp))]
  | a :: a' :: r, _, h => by
    have ha := h a (by simp)
    have := splitOn_joinB (c := c) (l := a' :: r) (by simp) (fun s hs => h s (by simp [hs]))
    simp only [joinB]
    rw [splitOn_append _ ha, this]

theorem joinB_injective {c : UInt8} {l l' : List Bytes} (hl : l ≠ []) (hl' : l' ≠ [])
    (h : ∀ s ∈ l, c ∉ s) (h' : ∀ s ∈ l', c ∉ s) (e : joinB c l = joinB c l') : l = l' := by
  rw [← splitOn_joinB hl h, ← splitOn_joinB hl' h', e]

theorem trimLeft_of_head {p : UInt8 → Bool} {x : UInt8} {r : Bytes} (h : p x = false) :
    trimLeft p (x :: r) = x :: r := by simp [trimLeft, h]

theorem trimLeft_nil_or_head (p : UInt8 → Bool) (s : Bytes) :
    trimLeft p s = [] ∨ ∃ x r, trimLeft p s = x :: r ∧ p x = false := by
  induction s with
  | nil => simp [trimLeft]
  | cons x r ih =>
    simp only [trimLeft]
    by_cases h : p x
    · simpa [h] using ih
    · right; exact ⟨x, r, by simp [h], by simpa using h⟩

/-- a string without white space is unchanged by `strings.TrimSpace` -/
theorem trimSpace_clean {s : Bytes} (h : ∀ c ∈ s, isWs c = false) : trimSpace s = s := by
  have hl : ∀ {s : Bytes}, (∀ c ∈ s, isWs c = false) → trimLeft isWs s = s := by
    intro s h
    cases s with
    | nil => rfl
    | cons x r => exact trimLeft_of_head (h x (by simp))
  unfold trimSpace trimRight
  rw [hl h, hl (by intro c hc; exact h c (by simpa using hc))]
  simp

theorem trimLeft_cons_true {p : UInt8 → Bool} {x : UInt8} {r : Bytes} (h : p x = true) :
    trimLeft p (x :: r) = trimLeft p r := by simp [trimLeft, h]

/-- one leading space, clean remainder -/
theorem trimSpace_space_clean {s : Bytes} (h : ∀ c ∈ s, isWs c = false) : trimSpace (32 :: s) = s := by
  have : trimLeft isWs (32 :: s) = trimLeft isWs s := trimLeft_cons_true (by decide)
  unfold trimSpace
  rw [this]
  exact trimSpace_clean h

end EgVerif.Signer
