import EgVerif.Proofs.Pipeline
import EgVerif.Gen.FactsC02IR
/-!
Regenerated tie by translation for C02 (`notes/IR.md`, `harness/factextract/facts_c02_ir.go`): the `…IR`
definitions of `Gen.FactsC02IR` are produced on every run by the go/ast micro-translator from the current
bodies of `FlowNode.filterAlias`, `isBuiltInFilter`, `Context.UseNamespace`, `Pipeline.doHandle`,
`Pipeline.Handle`, `Pipeline.HandleWithBeforeAfter`, `Spec.ValidateJumpIf`, `Spec.Validate`,
`GlobalFilter.Handle` and `globalfilter.Spec.Validate`; each is proved equal to the hand-written function of
`Model/Pipeline.lean` for all inputs. A changed comparison, branch order, constant, loop exit or
counter update in the source changes the generated definition and breaks the corresponding proof.
-/
namespace EgVerif.Pipeline
open EgVerif.Gen.FactsC02IR

/-! ## small functions -/

theorem filterAlias_regenerated_from_source (n : Node) : filterAliasIR n = n.name := by
  unfold filterAliasIR Node.name
  by_cases h1 : n.alias = "" <;> by_cases h2 : n.filter = END <;> simp [h1, h2]

theorem isBuiltInFilter_regenerated_from_source (name : String) :
    isBuiltInFilterIR name = decide (name = END) := by
  unfold isBuiltInFilterIR
  by_cases h : name = END <;> simp [h]

theorem useNamespace_regenerated_from_source (ns0 ns : String) : useNamespaceIR ns0 ns = useNs ns := by
  unfold useNamespaceIR useNs
  by_cases h : ns = "" <;> simp [h]

/-! ## `Pipeline.doHandle` -/

/-- what the generated call site of the loop returns -/
def finDH (s : Sum (String × List Stat × Bool) (List Stat × String × String × String × Bool)) :
    String × List Stat × Bool :=
  match s with
  | .inl r => r
  | .inr t => (t.2.2.1, t.1, t.2.2.2.2)

theorem doHandle_regenerated_from_source_loop (kind : String → String) (res : Nat → String) (ns0 : String)
    (flow0 : List Node) :
    ∀ (l : List Node) (i : Nat) (result next ans : String) (stats : List Stat),
      finDH (doHandleIR_loop1 kind res ns0 flow0 stats ans result next false i l) =
        loop kind res l i result next stats
  | [], i, result, next, ans, stats => by simp [doHandleIR_loop1, loop, finDH]
  | n :: rest, i, result, next, ans, stats => by
    unfold doHandleIR_loop1 loop
    by_cases h1 : next ≠ "" ∧ next ≠ n.name
    · have h1' : ((next != "") && (next != n.name)) = true := by simpa using h1
      simp only [h1', if_true]
      rw [if_pos h1]
      exact doHandle_regenerated_from_source_loop kind res ns0 flow0 rest (i + 1) result next ans stats
    · have h1' : ((next != "") && (next != n.name)) = false := by
        cases hb : ((next != "") && (next != n.name))
        · rfl
        · exact absurd (by simpa using hb) h1
      simp only [h1', Bool.false_eq_true, if_false]
      rw [if_neg h1]
      by_cases h2 : n.filter = END
      · rw [if_pos h2]; simp [h2, finDH]
      · have h2' : (n.filter == END) = false := by simpa using h2
        simp only [h2', Bool.false_eq_true, if_false]
        rw [if_neg h2]
        by_cases h3 : res stats.length = ""
        · have h3' : (res stats.length == "") = true := by simpa using h3
          simp only [h3', if_true]
          rw [if_pos h3]
          have := doHandle_regenerated_from_source_loop kind res ns0 flow0 rest (i + 1) (res stats.length) ""
            (useNs n.ns) (stats ++ [⟨i, n.name, n.filter, kind n.filter, useNs n.ns, res stats.length⟩])
          simpa [h3] using this
        · have h3' : (res stats.length == "") = false := by simpa using h3
          simp only [h3', Bool.false_eq_true, if_false]
          rw [if_neg h3]
          by_cases h4 : (n.jumpIf.lookup (res stats.length)).getD "" = "" ∨
              (n.jumpIf.lookup (res stats.length)).getD "" = END
          · have h4' : (((n.jumpIf.lookup (res stats.length)).getD "" == "") ||
                ((n.jumpIf.lookup (res stats.length)).getD "" == END)) = true := by simpa using h4
            rw [if_pos h4]; simp [h4', finDH]
          · have h4' : (((n.jumpIf.lookup (res stats.length)).getD "" == "") ||
                ((n.jumpIf.lookup (res stats.length)).getD "" == END)) = false := by
              cases hb : (((n.jumpIf.lookup (res stats.length)).getD "" == "") ||
                ((n.jumpIf.lookup (res stats.length)).getD "" == END))
              · rfl
              · exact absurd (by simpa using hb) h4
            simp only [h4', Bool.false_eq_true, if_false]
            rw [if_neg h4]
            exact doHandle_regenerated_from_source_loop kind res ns0 flow0 rest (i + 1) (res stats.length) _
              (useNs n.ns) _

/-- `Pipeline.doHandle`, for every namespace `ns0` that is active on entry. -/
theorem doHandle_regenerated_from_source (kind : String → String) (res : Nat → String) (ns0 : String)
    (flow : List Node) (stats : List Stat) :
    doHandleIR kind res ns0 flow stats = doHandle kind res flow stats := by
  have h := doHandle_regenerated_from_source_loop kind res ns0 flow flow 0 "" "" ns0 stats
  unfold doHandleIR doHandle
  rw [← h]
  unfold finDH
  dsimp only
  generalize doHandleIR_loop1 kind res ns0 flow stats ns0 "" "" false 0 flow = x
  cases x <;> rfl

/-! ## `Handle`, `HandleWithBeforeAfter` -/

theorem handle_regenerated_from_source (res : Nat → String) (p : Pipe) : handleIR res p = handle res p := by
  unfold handleIR handle
  rfl

theorem handleWithBeforeAfter_regenerated_from_source (res : Nat → String) (p : Pipe)
    (before after : Option Pipe) :
    handleBAIR res p before after =
      ((handleBA res p before after).1, (handleBA res p before after).2.1) := by
  unfold handleBAIR handleBA
  cases before <;> cases after <;> simp only [thenFlow, optPipe, Option.isSome_none, Option.isSome_some,
    Bool.false_eq_true, if_false, if_true, Option.getD_some, Bool.and_true, Bool.and_false] <;>
    (repeat' split) <;> simp_all

/-! ## `Spec.ValidateJumpIf` -/

/-- the association-list counter `m` represents the multiset `vt` -/
def CtrRel (m : List (String × Int)) (vt : List String) : Prop := ∀ t, ctrGet m t = (vt.count t : Int)

theorem ctrRel_init : CtrRel [(END, 1)] [END] := by
  intro t
  by_cases h : t = END
  · simp [ctrGet, List.lookup, h]
  · have h' : (t == END) = false := by simpa using h
    have h'' : ¬ END = t := fun e => h e.symm
    simp [ctrGet, List.lookup, h', h'']

theorem ctrRel_incr {m : List (String × Int)} {vt : List String} (h : CtrRel m vt) (k : String) :
    CtrRel ((k, ctrGet m k + 1) :: m) (k :: vt) := by
  intro t
  by_cases e : t = k
  · subst e
    simp [ctrGet, List.lookup, List.count_cons_self]
    have := h t
    simp only [ctrGet] at this
    omega
  · have e' : (t == k) = false := by simpa using e
    have e'' : ¬ k = t := fun x => e x.symm
    have := h t
    simp only [ctrGet] at this
    simp [ctrGet, List.lookup, e', List.count_cons, e'', this]

/-- the inner loop over `node.JumpIf`: closed form -/
theorem validateJumpIf_regenerated_from_source_loop_inner (kinds : List (String × List String)) (s : PSpec)
    (specs : List (String × String)) (m : List (String × Int)) (vt : List String) (hm : CtrRel m vt)
    (node : Node) (spec : Option String) (results : List String) :
    ∀ l : List (String × String),
      validateJumpIfIR_loop2 kinds s specs m node spec results l =
        if l.all (fun j => results.contains j.1 && vt.count j.2 == 1) then .inr () else .inl false
  | [] => by simp [validateJumpIfIR_loop2]
  | (r, t) :: rest => by
    unfold validateJumpIfIR_loop2
    have ih := validateJumpIf_regenerated_from_source_loop_inner kinds s specs m vt hm node spec results rest
    rw [List.all_cons]
    dsimp only
    cases hcr : results.contains r
    · simp
    · have hc := hm t
      by_cases h2 : vt.count t = 1
      · have : ctrGet m t = 1 := by rw [hc, h2]; rfl
        rw [this, ih, h2]
        simp only [Bool.true_and, beq_self_eq_true]
        simp
      · by_cases h3 : vt.count t = 0
        · have : ctrGet m t = 0 := by rw [hc, h3]; rfl
          simp [this, h3]
        · have hgt : ctrGet m t > 1 := by rw [hc]; omega
          have hne : ¬ ctrGet m t = 0 := by omega
          simp [hgt, hne, h2]

/-- Go's map iteration order is unspecified: the inner loop's result is the same for every order of the
`jumpIf` entries. -/
theorem validateJumpIf_regenerated_from_source_loop_perm (kinds : List (String × List String)) (s : PSpec)
    (specs : List (String × String)) (m : List (String × Int)) (vt : List String) (hm : CtrRel m vt)
    (node : Node) (spec : Option String) (results : List String) (l1 l2 : List (String × String))
    (hp : l1.Perm l2) :
    validateJumpIfIR_loop2 kinds s specs m node spec results l1 =
      validateJumpIfIR_loop2 kinds s specs m node spec results l2 := by
  rw [validateJumpIf_regenerated_from_source_loop_inner kinds s specs m vt hm,
    validateJumpIf_regenerated_from_source_loop_inner kinds s specs m vt hm, hp.all_eq]

/-- what the generated call site does with the outer loop's result -/
def okSum {α : Type} (s : Sum Bool α) : Bool :=
  match s with
  | .inl r => r
  | .inr _ => true

theorem scan_none_of_suffix (fs : List (String × String)) (kinds : List (String × List String)) :
    ∀ (pre suf : List Node), scan fs kinds suf = none → scan fs kinds (pre ++ suf) = none
  | [], _, h => h
  | n :: pre, suf, h => by
    simp only [List.cons_append, scan, scan_none_of_suffix fs kinds pre suf h]

theorem scan_drop_none (fs : List (String × String)) (kinds : List (String × List String)) (flow : List Node)
    (k : Nat) (h : scan fs kinds (flow.drop k) = none) : scan fs kinds flow = none := by
  have := scan_none_of_suffix fs kinds (flow.take k) (flow.drop k) h
  rwa [List.take_append_drop] at this

theorem scan_cons_end (fs : List (String × String)) (kinds : List (String × List String)) (n : Node)
    (rest : List Node) (vt : List String) (hs : scan fs kinds rest = some vt) (hE : n.filter = END) :
    scan fs kinds (n :: rest) = some vt := by
  simp only [scan, hs, hE, if_true]

theorem scan_cons_undeclared (fs : List (String × String)) (kinds : List (String × List String)) (n : Node)
    (rest : List Node) (vt : List String) (hs : scan fs kinds rest = some vt) (hE : ¬ n.filter = END)
    (hl : fs.lookup n.filter = none) : scan fs kinds (n :: rest) = none := by
  simp only [scan, hs, hE, if_false, hl]

theorem scan_cons_real (fs : List (String × String)) (kinds : List (String × List String)) (n : Node)
    (rest : List Node) (vt : List String) (kd : String) (hs : scan fs kinds rest = some vt)
    (hE : ¬ n.filter = END) (hl : fs.lookup n.filter = some kd) :
    scan fs kinds (n :: rest) =
      if n.jumpIf.all (fun j => ((kinds.lookup kd).getD []).contains j.1 && vt.count j.2 == 1) = true
      then some (n.name :: vt) else none := by
  simp only [scan, hs, hE, if_false, hl]

theorem nodeAt_nat (l : List Node) (k : Nat) (h : k < l.length) : nodeAt l (k : Int) = l[k] := by
  simp [nodeAt, h]

/-- the backward loop of `ValidateJumpIf`: after the nodes `k, k+1, …` were visited with `validTargets`
representing the model's multiset, the rest of the loop succeeds iff the model's scan of the whole flow
succeeds. -/
theorem validateJumpIf_regenerated_from_source_loop (kinds : List (String × List String)) (s : PSpec)
    (specs : List (String × String)) :
    ∀ (k : Nat) (i : Int) (m : List (String × Int)) (vt : List String), k ≤ s.flow.length → i + 1 = (k : Int) →
      scan specs kinds (s.flow.drop k) = some vt → CtrRel m vt →
      okSum (validateJumpIfIR_loop1 kinds s specs m i k) = (scan specs kinds s.flow).isSome
  | 0, i, m, vt, _, _, hs, _ => by
    simp only [List.drop_zero] at hs
    simp [validateJumpIfIR_loop1, okSum, hs]
  | k + 1, i, m, vt, hk, hi, hs, hm => by
    have hi' : i = (k : Int) := by omega
    subst hi'
    have hlt : k < s.flow.length := by omega
    have hdrop : s.flow.drop k = s.flow[k] :: s.flow.drop (k + 1) := List.drop_eq_getElem_cons hlt
    unfold validateJumpIfIR_loop1
    simp only [nodeAt_nat s.flow k hlt]
    have ih := validateJumpIf_regenerated_from_source_loop kinds s specs k ((k : Int) - 1)
    by_cases hE : s.flow[k].filter = END
    · have hs' : scan specs kinds (s.flow.drop k) = some vt := by
        rw [hdrop]; exact scan_cons_end _ _ _ _ _ hs hE
      simp only [hE, beq_self_eq_true, if_true]
      exact ih m vt (by omega) (by omega) hs' hm
    · have hE' : (s.flow[k].filter == END) = false := by simpa using hE
      simp only [hE', Bool.false_eq_true, if_false]
      cases hl : specs.lookup s.flow[k].filter with
      | none =>
        have hs' : scan specs kinds (s.flow.drop k) = none := by
          rw [hdrop]; exact scan_cons_undeclared _ _ _ _ _ hs hE hl
        simp [okSum, scan_drop_none specs kinds s.flow k hs']
      | some kd =>
        simp only [Option.isNone_some, Bool.false_eq_true, if_false, Option.getD_some]
        rw [validateJumpIf_regenerated_from_source_loop_inner kinds s specs m vt hm]
        by_cases hall : (s.flow[k].jumpIf.all
            (fun j => ((kinds.lookup kd).getD []).contains j.1 && vt.count j.2 == 1)) = true
        · have hs' : scan specs kinds (s.flow.drop k) = some (s.flow[k].name :: vt) := by
            rw [hdrop, scan_cons_real _ _ _ _ _ _ hs hE hl, if_pos hall]
          rw [if_pos hall]
          exact ih _ _ (by omega) (by omega) hs' (ctrRel_incr hm _)
        · have hs' : scan specs kinds (s.flow.drop k) = none := by
            rw [hdrop, scan_cons_real _ _ _ _ _ _ hs hE hl, if_neg hall]
          rw [if_neg hall]
          simp [okSum, scan_drop_none specs kinds s.flow k hs']

/-- `Spec.ValidateJumpIf(specs)` returns normally exactly when the model's backward scan succeeds. -/
theorem validateJumpIf_regenerated_from_source (kinds : List (String × List String)) (s : PSpec)
    (specs : List (String × String)) :
    validateJumpIfIR kinds s specs = (scan specs kinds s.flow).isSome := by
  have h := validateJumpIf_regenerated_from_source_loop kinds s specs s.flow.length
    ((s.flow.length : Int) - 1) [(END, 1)] [END] (Nat.le_refl _) (by omega)
    (by simp [scan]) ctrRel_init
  unfold validateJumpIfIR
  have hf : ((s.flow.length : Int) - 1 - 0 + 1).toNat = s.flow.length := by omega
  rw [hf]
  rw [← h]
  unfold okSum
  dsimp only
  generalize validateJumpIfIR_loop1 kinds s specs [(END, 1)] ((s.flow.length : Int) - 1) s.flow.length = x
  cases x <;> rfl

/-! ## `Spec.Validate` -/

theorem validate_regenerated_from_source_loop_filters (kinds : List (String × List String)) (s : PSpec)
    (resil : List Bool) (ep : String) :
    ∀ (l : List (String × String)) (specs : List (String × String)) (seen : List String),
      (∀ x, seen.contains x = (specs.lookup x).isSome) →
      validateIR_loop1 kinds s resil ep specs l =
        if validateFilters kinds l seen then .inr (l.reverse ++ specs) else .inl false
  | [], specs, seen, _ => by simp [validateIR_loop1, validateFilters]
  | f :: rest, specs, seen, hrel => by
    unfold validateIR_loop1 validateFilters
    have hrel' : ∀ x, (f.1 :: seen).contains x = (((f.1, f.2) :: specs).lookup x).isSome := by
      intro x
      by_cases e : x = f.1
      · subst e; simp [List.lookup]
      · have e' : (x == f.1) = false := by simpa using e
        have := hrel x
        simp only [List.contains_eq_mem] at this
        simp [List.lookup, e', e, this]
    have ih := validate_regenerated_from_source_loop_filters kinds s resil ep rest ((f.1, f.2) :: specs)
      (f.1 :: seen) hrel'
    dsimp only
    rw [isBuiltInFilter_regenerated_from_source, ih, hrel f.1]
    have hl : (f :: rest).reverse ++ specs = rest.reverse ++ (f.1, f.2) :: specs := by simp
    rw [hl]
    generalize validateFilters kinds rest (f.1 :: seen) = d
    generalize urlName f.1 = a
    generalize (kinds.lookup f.2).isSome = b
    generalize (specs.lookup f.1).isSome = c
    by_cases h2 : f.1 = END <;> cases a <;> cases b <;> cases c <;> cases d <;> simp [h2]

theorem validate_regenerated_from_source_loop_resil (kinds : List (String × List String)) (s : PSpec)
    (resil : List Bool) (ep : String) (specs : List (String × String)) :
    ∀ l : List Bool, validateIR_loop2 kinds s resil ep specs l = if l.all id then .inr () else .inl false
  | [] => by simp [validateIR_loop2]
  | r :: rest => by
    unfold validateIR_loop2
    cases r <;> simp [validate_regenerated_from_source_loop_resil kinds s resil ep specs rest]

/-- `scan` reads the filter table only through `lookup`. -/
theorem scan_congr_lookup (f1 f2 : List (String × String)) (kinds : List (String × List String))
    (h : ∀ x, f1.lookup x = f2.lookup x) : ∀ flow : List Node, scan f1 kinds flow = scan f2 kinds flow
  | [] => rfl
  | n :: rest => by simp only [scan, scan_congr_lookup f1 f2 kinds h rest, h]

theorem lookup_reverse_of_nodup : ∀ (l : List (String × String)), (l.map (·.1)).Nodup →
    ∀ x, l.reverse.lookup x = l.lookup x
  | [], _, _ => rfl
  | a :: t, hn, x => by
    simp only [List.map_cons, List.nodup_cons] at hn
    rw [List.reverse_cons, List.lookup_append, lookup_reverse_of_nodup t hn.2 x]
    by_cases e : x = a.1
    · subst e
      have : t.lookup a.1 = none := by
        rw [List.lookup_eq_none_iff]
        intro p hp
        have : p.1 ≠ a.1 := fun e => hn.1 (e ▸ List.mem_map_of_mem (f := (·.1)) hp)
        simpa using fun e => this e.symm
      simp [this, List.lookup]
    · have e' : (x == a.1) = false := by simpa using e
      simp [List.lookup, e']

/-- `Spec.Validate` = the model's `validate` and every resilience entry accepted. -/
theorem validate_regenerated_from_source (kinds : List (String × List String)) (s : PSpec) (resil : List Bool) :
    validateIR kinds s resil = (validate kinds s && resil.all id) := by
  unfold validateIR validate
  dsimp only
  rw [validate_regenerated_from_source_loop_filters kinds s resil "filters" s.filters [] [] (by simp)]
  by_cases hv : validateFilters kinds s.filters [] = true
  · have hn := ((validateFilters_iff kinds s.filters []).mp hv).2
    have hsc : scan s.filters.reverse kinds s.flow = scan s.filters kinds s.flow :=
      scan_congr_lookup _ _ kinds (lookup_reverse_of_nodup s.filters hn) s.flow
    simp only [hv, if_true, List.append_nil, hsc, validate_regenerated_from_source_loop_resil, Bool.true_and]
    cases (scan s.filters kinds s.flow).isSome <;> cases resil.all id <;> simp
  · have hv' : validateFilters kinds s.filters [] = false := by simpa using hv
    simp [hv']

/-! ## GlobalFilter -/

/-- `GlobalFilter.Handle`: panics iff the handler is not a pipeline, otherwise
`p.HandleWithBeforeAfter(ctx, before, after)` with the loaded pipelines. -/
theorem gfHandle_regenerated_from_source (res : Nat → String) (handler bp ap : Option Pipe) :
    gfHandleIR res handler bp ap = handler.map (fun p => handleBA res p bp ap) := by
  unfold gfHandleIR
  cases handler <;> cases bp <;> cases ap <;> simp [optPipe]

/-- … and with the pipelines `GlobalFilter.reload` stores, it is the model's `gfHandle`. -/
theorem gfHandle_regenerated_from_source_model (res : Nat → String) (main : Pipe) (before after : PSpec) :
    gfHandleIR res (some main) (gfPipe before) (gfPipe after) = some (gfHandle res main before after) := by
  rw [gfHandle_regenerated_from_source]; rfl

theorem gfValidate_regenerated_from_source (kinds : List (String × List String)) (before after : PSpec) :
    gfValidateIR kinds before after = gfValidate kinds before after := by
  unfold gfValidateIR gfValidate
  cases validate kinds before <;> cases validate kinds after <;> rfl

end EgVerif.Pipeline
