import EgVerif.Proofs.ClusterMutex
import EgVerif.Proofs.AdminAPI
/-!
# C18 — the admin handlers under the *real* cluster mutex (audit repair, engineer mux)

`AdminAPI.Sys` abstracts the cluster lock to `holder : Option Nat` and makes `holder = none` the guard
of `acquire`: there, serialization of the handlers is *assumed*. This file builds the product of the
mutex model (`ClusterMutex.step`: local mutex, etcd queue, grant, timeout …) with the handlers' etcd round
trips and proves that every run of the product **projects to a run of `Sys`** — the guard of `acquire`
is discharged by the mutex invariant (a grant happens only while no thread is in the critical section),
not assumed. `Props/C18.lean` then derives "concurrent admin mutations are serialized" for the product.

The product has **no** lock guard of its own: `granted t req` is enabled exactly when the mutex model
grants the etcd lock to `t`, `micro t` exactly when `t` is in the critical section (`.critical t` of the
mutex model now carries one `AdminAPI.micro`), `unlock t` is the deferred `s.Unlock()` of a finished
handler.
-/
namespace EgVerif.AdminUnderMutex
open EgVerif

structure PState where
  mx : ClusterMutex.State
  etcd : AdminAPI.Etcd
  /-- handler state of the threads between `s.Lock()` and `s.Unlock()` -/
  cur : Nat → Option (AdminAPI.Req × AdminAPI.PC)
  /-- finished mutations in unlock order -/
  log : List (AdminAPI.Req × AdminAPI.Resp)

def PState.init (e : AdminAPI.Etcd) : PState := ⟨ClusterMutex.init, e, fun _ => none, []⟩

inductive PAct
  /-- a step of `mutex.Lock` / `mutex.Unlock` that does not touch a handler: local lock, enqueue, timeout,
  early error, the two local unlocks -/
  | lock (a : ClusterMutex.Act)
  /-- etcd grants the lock to `t`: `s.Lock()` returns, the handler of `req` starts -/
  | granted (t : Nat) (req : AdminAPI.Req)
  /-- `t`, inside the critical section, performs its handler's next etcd round trip -/
  | micro (t : Nat)
  /-- handler done: the deferred `s.Unlock()` starts (etcd key deleted), the mutation is logged -/
  | unlock (t : Nat)
  /-- unlocked read (getObject / listObjects / version attacher) -/
  | read (t : Nat)

def lockOnly : ClusterMutex.Act → Bool
  | .etcdGranted _ => false
  | .critical _ => false
  | .etcdUnlock _ => false
  | _ => true

def step (c : ClusterMutex.Cfg) (p : PState) : PAct → Option PState
  | .lock a =>
    if lockOnly a then (ClusterMutex.step c p.mx a).map (fun m => { p with mx := m }) else none
  | .granted t req =>
    (ClusterMutex.step c p.mx (.etcdGranted t)).map fun m =>
      { p with mx := m, cur := fun x => if x = t then some (req, .start) else p.cur x }
  | .micro t =>
    match ClusterMutex.step c p.mx (.critical t), p.cur t with
    | some m, some (req, pc) =>
      some { p with mx := m, etcd := (AdminAPI.micro req pc p.etcd).2,
                    cur := fun x => if x = t then some (req, (AdminAPI.micro req pc p.etcd).1) else p.cur x }
    | _, _ => none
  | .unlock t =>
    match p.cur t with
    | some (req, .done r) =>
      (ClusterMutex.step c p.mx (.etcdUnlock t)).map fun m =>
        { p with mx := m, cur := fun x => if x = t then none else p.cur x, log := p.log ++ [(req, r)] }
    | _ => none
  | .read _ => some p

def run (c : ClusterMutex.Cfg) : PState → List PAct → Option PState
  | p, [] => some p
  | p, a :: as => match step c p a with
    | none => none
    | some p' => run c p' as

/-- what the abstract system sees of a product action -/
def proj : PAct → List AdminAPI.Act
  | .lock _ => []
  | .granted t req => [.acquire t req]
  | .micro t => [.micro t]
  | .unlock t => [.release t]
  | .read t => [.read t]

/-- the abstraction relation: same etcd, handlers and log; the abstract holder is the thread in the
critical section of the mutex model, whose invariant holds -/
structure R (c : ClusterMutex.Cfg) (p : PState) (s : AdminAPI.Sys) : Prop where
  etcd : s.etcd = p.etcd
  cur : s.cur = p.cur
  log : s.log = p.log
  hold : ∀ t, s.holder = some t ↔ p.mx.pc t = .crit
  inv : ClusterMutex.Inv c p.mx

theorem R_init (c : ClusterMutex.Cfg) (e : AdminAPI.Etcd) : R c (PState.init e) (AdminAPI.Sys.init e) :=
  ⟨rfl, rfl, rfl, fun t => by simp [AdminAPI.Sys.init, PState.init, ClusterMutex.init],
   ClusterMutex.inv_init c⟩

/-- a lock-only step does not move any thread into or out of the critical section -/
theorem lockOnly_crit {c : ClusterMutex.Cfg} {m m' : ClusterMutex.State} {a : ClusterMutex.Act}
    (hl : lockOnly a = true) (h : ClusterMutex.step c m a = some m') (x : Nat) :
    m'.pc x = .crit ↔ m.pc x = .crit := by
  have key : ∀ (t : Nat) (p' : ClusterMutex.PC), p' ≠ .crit → m.pc t ≠ .crit →
      (ClusterMutex.upd m.pc t p' x = .crit ↔ m.pc x = .crit) := by
    intro t p' hp ht
    by_cases hx : x = t
    · subst hx; simp [ClusterMutex.upd, hp, ht]
    · simp [ClusterMutex.upd, hx]
  cases a with
  | etcdGranted t => simp [lockOnly] at hl
  | critical t => simp [lockOnly] at hl
  | etcdUnlock t => simp [lockOnly] at hl
  | localLock t =>
    simp only [ClusterMutex.step] at h
    split at h
    · rename_i g; simp only [Option.some.injEq] at h; subst h
      exact key t _ (by decide) (by rw [g.1]; decide)
    · cases h
  | etcdEnqueue t =>
    simp only [ClusterMutex.step] at h
    split at h
    · rename_i g; simp only [Option.some.injEq] at h; subst h
      exact key t _ (by decide) (by rw [g]; decide)
    · cases h
  | etcdTimeout t =>
    simp only [ClusterMutex.step] at h
    split at h
    · rename_i g; simp only [Option.some.injEq] at h; subst h
      exact key t _ (by decide) (by rw [g]; decide)
    · cases h
  | etcdErrorEarly t =>
    simp only [ClusterMutex.step] at h
    split at h
    · rename_i g; simp only [Option.some.injEq] at h; subst h
      exact key t _ (by decide) (by rw [g]; decide)
    · cases h
  | localUnlockFail t =>
    simp only [ClusterMutex.step] at h
    split at h
    · rename_i g; simp only [Option.some.injEq] at h; subst h
      exact key t _ (by decide) (by rw [g]; decide)
    · cases h
  | localUnlock t =>
    simp only [ClusterMutex.step] at h
    split at h
    · rename_i g; simp only [Option.some.injEq] at h; subst h
      exact key t _ (by decide) (by rw [g]; decide)
    · cases h

/-- **the guard of `Sys.acquire`, derived**: when the mutex model grants the lock to `t`, no thread is in
the critical section (from the invariant: a thread in the critical section owns the head of the queue,
one object per session, one non-idle thread per object) -/
theorem granted_free {c : ClusterMutex.Cfg} (h1 : ClusterMutex.OneObjectPerSession c)
    {m m' : ClusterMutex.State} (inv : ClusterMutex.Inv c m) (t : Nat)
    (h : ClusterMutex.step c m (.etcdGranted t) = some m') :
    (∀ x, m.pc x ≠ .crit) ∧ m' = { m with pc := ClusterMutex.upd m.pc t .crit } := by
  simp only [ClusterMutex.step] at h
  split at h
  · rename_i g
    simp only [Option.some.injEq] at h
    refine ⟨fun x hx => ?_, h.symm⟩
    have e := inv.critHead x hx
    rw [g.2] at e
    have ho := h1 _ _ (Option.some.inj e)
    have := inv.local1 t x (by rw [g.1]; decide) (by rw [hx]; decide) ho
    subst this
    rw [g.1] at hx; cases hx
  · cases h

/-- one product step is matched by the projected abstract steps -/
theorem step_projects {c : ClusterMutex.Cfg} (h1 : ClusterMutex.OneObjectPerSession c)
    {p p' : PState} {s : AdminAPI.Sys} (r : R c p s) (a : PAct) (h : step c p a = some p') :
    ∃ s', AdminAPI.Sys.run s (proj a) = some s' ∧ R c p' s' := by
  cases a with
  | read t =>
    simp only [step, Option.some.injEq] at h; subst h
    exact ⟨s, by simp [proj, AdminAPI.Sys.run, AdminAPI.Sys.step], r⟩
  | lock a =>
    simp only [step] at h
    split at h
    · rename_i hl
      cases hm : ClusterMutex.step c p.mx a with
      | none => simp [hm] at h
      | some m =>
        simp only [hm, Option.map_some, Option.some.injEq] at h; subst h
        refine ⟨s, by simp [proj, AdminAPI.Sys.run], r.etcd, r.cur, r.log, fun t => ?_,
          ClusterMutex.inv_step h1 r.inv a hm⟩
        rw [r.hold t]; exact (lockOnly_crit hl hm t).symm
    · cases h
  | granted t req =>
    simp only [step] at h
    cases hm : ClusterMutex.step c p.mx (.etcdGranted t) with
    | none => simp [hm] at h
    | some m =>
      simp only [hm, Option.map_some, Option.some.injEq] at h; subst h
      obtain ⟨hfree, hm'⟩ := granted_free h1 r.inv t hm
      have hnone : s.holder = none := by
        cases hh : s.holder with
        | none => rfl
        | some x => exact absurd ((r.hold x).mp hh) (hfree x)
      refine ⟨{ s with holder := some t, cur := fun x => if x = t then some (req, .start) else s.cur x },
        by simp [proj, AdminAPI.Sys.run, AdminAPI.Sys.step, hnone], r.etcd, ?_, r.log, fun x => ?_,
        ClusterMutex.inv_step h1 r.inv _ hm⟩
      · simp only [r.cur]
      · subst hm'
        by_cases hx : x = t
        · subst hx; simp [ClusterMutex.upd]
        · simp only [ClusterMutex.upd, hx, if_false]
          constructor
          · intro h'; simp only [Option.some.injEq] at h'; exact absurd h'.symm hx
          · intro h'; exact absurd h' (hfree x)
  | micro t =>
    simp only [step] at h
    cases hm : ClusterMutex.step c p.mx (.critical t) with
    | none => simp [hm] at h
    | some m =>
      cases hc : p.cur t with
      | none => simp [hm, hc] at h
      | some rp =>
        obtain ⟨req, pc⟩ := rp
        simp only [hm, hc, Option.some.injEq] at h; subst h
        -- the mutex step requires `pc t = crit` and changes nothing
        have hcrit : p.mx.pc t = .crit ∧ m = p.mx := by
          simp only [ClusterMutex.step] at hm
          split at hm
          · rename_i g; simp only [Option.some.injEq] at hm; exact ⟨g, hm.symm⟩
          · cases hm
        have hh : s.holder = some t := (r.hold t).mpr hcrit.1
        have hcs : s.cur t = some (req, pc) := by rw [r.cur]; exact hc
        refine ⟨{ s with etcd := (AdminAPI.micro req pc s.etcd).2,
                         cur := fun x => if x = t then some (req, (AdminAPI.micro req pc s.etcd).1) else s.cur x },
          by simp [proj, AdminAPI.Sys.run, AdminAPI.Sys.step, hh, hcs], ?_, ?_, r.log, ?_, ?_⟩
        · simp only [r.etcd]
        · simp only [r.etcd, r.cur]
        · intro x; simp only [hcrit.2]; exact r.hold x
        · simp only [hcrit.2]; exact r.inv
  | unlock t =>
    simp only [step] at h
    cases hc : p.cur t with
    | none => simp [hc] at h
    | some rp =>
      obtain ⟨req, pc⟩ := rp
      cases pc with
      | done rr =>
        simp only [hc] at h
        cases hm : ClusterMutex.step c p.mx (.etcdUnlock t) with
        | none => simp [hm] at h
        | some m =>
          simp only [hm, Option.map_some, Option.some.injEq] at h; subst h
          have hcrit : p.mx.pc t = .crit ∧
              m = { p.mx with pc := ClusterMutex.upd p.mx.pc t .releasing,
                               queue := p.mx.queue.erase (c.sess (c.obj t)) } := by
            simp only [ClusterMutex.step] at hm
            split at hm
            · rename_i g; simp only [Option.some.injEq] at hm; exact ⟨g, hm.symm⟩
            · cases hm
          have hh : s.holder = some t := (r.hold t).mpr hcrit.1
          have hcs : s.cur t = some (req, .done rr) := by rw [r.cur]; exact hc
          refine ⟨{ s with holder := none, cur := fun x => if x = t then none else s.cur x,
                           log := s.log ++ [(req, rr)] },
            by simp [proj, AdminAPI.Sys.run, AdminAPI.Sys.step, hh, hcs], r.etcd, ?_, ?_, fun x => ?_,
            ClusterMutex.inv_step h1 r.inv _ hm⟩
          · simp only [r.cur]
          · simp only [r.log]
          · rw [hcrit.2]
            simp only [reduceCtorEq, false_iff]
            by_cases hx : x = t
            · subst hx; simp [ClusterMutex.upd]
            · simp only [ClusterMutex.upd, hx, if_false]
              intro h'
              have := (r.hold x).mpr h'
              rw [hh] at this
              exact hx (Option.some.inj this).symm
      | start => simp [hc] at h
      | gotObj e => simp [hc] at h
      | wrote => simp [hc] at h
      | gotVer v => simp [hc] at h

theorem sys_run_append : ∀ (s : AdminAPI.Sys) (xs ys : List AdminAPI.Act) (s' : AdminAPI.Sys),
    AdminAPI.Sys.run s xs = some s' → AdminAPI.Sys.run s (xs ++ ys) = AdminAPI.Sys.run s' ys
  | s, [], ys, s', h => by simp only [AdminAPI.Sys.run, Option.some.injEq] at h; subst h; rfl
  | s, a :: xs, ys, s', h => by
    simp only [AdminAPI.Sys.run, List.cons_append] at h ⊢
    cases hs : s.step a with
    | none => simp [hs] at h
    | some s1 =>
      simp only [hs] at h ⊢
      exact sys_run_append s1 xs ys s' h

/-- **Every run of the product projects to a run of the abstract system `Sys`.** -/
theorem run_projects {c : ClusterMutex.Cfg} (h1 : ClusterMutex.OneObjectPerSession c) :
    ∀ (as : List PAct) (p p' : PState) (s : AdminAPI.Sys), R c p s → run c p as = some p' →
      ∃ s', AdminAPI.Sys.run s (as.flatMap proj) = some s' ∧ R c p' s'
  | [], p, p', s, r, h => by
    simp only [run, Option.some.injEq] at h; subst h
    exact ⟨s, rfl, r⟩
  | a :: as, p, p', s, r, h => by
    simp only [run] at h
    cases hs : step c p a with
    | none => simp [hs] at h
    | some p1 =>
      simp only [hs] at h
      obtain ⟨s1, hr1, r1⟩ := step_projects h1 r a hs
      obtain ⟨s', hr', r'⟩ := run_projects h1 as p1 p' s1 r1 h
      refine ⟨s', ?_, r'⟩
      rw [List.flatMap_cons, sys_run_append s (proj a) _ s1 hr1]
      exact hr'

end EgVerif.AdminUnderMutex
