import EgVerif.Model.BrokerSessions
import EgVerif.Gen.FactsC16IR
/-!
# C16: the definitions regenerated from `client.go` / `broker.go` / `session_manager.go` equal the model

`Gen/FactsC16IR.lean` is produced on every run by `harness/factextract/facts_c16_ir.go` (irlib). Each theorem
proves a generated definition equal to the corresponding part of `Model/BrokerSessions.lean` (repaired code,
`fixed = true`) for ALL states; re-exported with `extractionFailed = false` from `Props/C16.lean`.
-/
namespace EgVerif.BrokerSessions
open EgVerif.Gen.FactsC16IR

theorem upd_self {α : Type} (f : Nat → α) (k : Nat) : upd f k (f k) = f := by
  funext i; by_cases h : i = k <;> simp [upd, h]

/-- `SessionManager.delLocal`: the session leaves the local map and is closed (the `delLocal` part of
`teardownBody`). -/
theorem delLocal_regenerated_from_source (s : St) : delLocalIR s = delLocalM s := by
  obtain ⟨cl, sm, db, se, ns, tm, cn, w, dc⟩ := s
  cases sm <;> simp [delLocalIR, delLocalM, lookupSess, closeSess]

/-- **`Client.closeAndDelSession`** = the model's `cleanup` (ownership guard of fix 924acbc, then
`delLocal`, `delDB` for a clean session, unsubscribe of the session's topics) followed by `close`:
the teardown touches session map / persisted copy / TopicManager only if no OTHER connection is registered. -/
theorem closeAndDel_regenerated_from_source (s : St) (k : Nat) :
    closeAndDelIR s k = markDisc (teardown true s k) k := by
  obtain ⟨cl, sm, db, se, ns, tm, cn, w, dc⟩ := s
  cases cl with
  | none =>
    cases sm with
    | none =>
      by_cases hcl : (se (cn k).sess).clean = true <;>
        simp [closeAndDelIR, teardown, superseded, lookupClient, teardownBody, delLocalM, delDBM, hcl]
    | some r =>
      by_cases hr : (cn k).sess = r <;> by_cases hcl : (se (cn k).sess).clean = true <;>
        simp_all [closeAndDelIR, teardown, superseded, lookupClient, teardownBody, delLocalM, delDBM, closeSess, upd]
  | some o =>
    by_cases ho : o = k
    · subst ho
      cases sm with
      | none =>
        by_cases hcl : (se (cn o).sess).clean = true <;>
          simp [closeAndDelIR, teardown, superseded, lookupClient, teardownBody, delLocalM, delDBM, hcl]
      | some r =>
        by_cases hr : (cn o).sess = r <;> by_cases hcl : (se (cn o).sess).clean = true <;>
          simp_all [closeAndDelIR, teardown, superseded, lookupClient, teardownBody, delLocalM, delDBM, closeSess, upd]
    · simp [closeAndDelIR, teardown, superseded, lookupClient, ho]

/-- **`Broker.removeClient`**: the registration goes only if the registered client is disconnected. -/
theorem removeClient_regenerated_from_source (s : St) :
    removeClientIR s =
      (match s.client with
       | some o => if (s.conn o).disc then { s with client := none } else s
       | none => s) := by
  obtain ⟨cl, sm, db, se, ns, tm, cn, w, dc⟩ := s
  cases cl with
  | none => simp [removeClientIR, lookupClient]
  | some o => by_cases hd : (cn o).disc = true <;> simp [removeClientIR, lookupClient, hd]

/-- …which is exactly the state change of the model's `remove k` step. -/
theorem remove_step_regenerated_from_source (s : St) (k : Nat) (h : (s.conn k).pc = Pc.closed) :
    step true s (.remove k) = some (setPc (removeClientIR s) k Pc.done) := by
  rw [removeClient_regenerated_from_source]
  obtain ⟨cl, sm, db, se, ns, tm, cn, w, dc⟩ := s
  simp only at h
  cases cl with
  | none => simp [step, h]
  | some o => by_cases hd : (cn o).disc = true <;> simp [step, h, hd]

/-- **`Broker.deleteSession`** in general: a connected registered client is closed; the registration goes. -/
theorem deleteSession_regenerated_from_source_gen (s : St) :
    deleteSessionIR s =
      (match s.client with
       | some o => if (s.conn o).disc then { s with client := none } else { markDisc s o with client := none }
       | none => s) := by
  obtain ⟨cl, sm, db, se, ns, tm, cn, w, dc⟩ := s
  cases cl with
  | none => simp [deleteSessionIR, lookupClient]
  | some o => by_cases hd : (cn o).disc = true <;> simp [deleteSessionIR, lookupClient, hd]

/-- `Broker.deleteSession` = the model's `deleteSession`, provided no `go oldClient.close()` is still pending
for an already disconnected registered client (then the model additionally clears that no-op request). -/
theorem deleteSession_regenerated_from_source (s : St)
    (h : ∀ o, s.client = some o → (s.conn o).disc = true → (s.conn o).closeReq = false) :
    deleteSessionIR s = deleteSession s := by
  rw [deleteSession_regenerated_from_source_gen]
  unfold deleteSession
  cases hc : s.client with
  | none => rfl
  | some o =>
    by_cases hd : (s.conn o).disc = true
    · have hq := h o hc hd
      have : markDisc s o = s := by
        unfold markDisc setConn
        have e : ({ (s.conn o) with disc := true, closeReq := false } : Conn) = s.conn o := by
          cases hco : s.conn o; simp_all
        rw [e, upd_self]
      simp [hd, this]
    · simp [hd]

/-- **`Broker.setSession`**: which session object survives a (re)connect — the previous one iff neither it nor
the CONNECT is clean; otherwise it is closed, its subscriptions are removed, and a fresh one is created. -/
theorem setSession_regenerated_from_source (s : St) (k : Nat) (clean : Bool) :
    setSessionIR s k clean = setSession true s k clean := by
  unfold setSessionIR setSession attach allocSess newSession
  dsimp only
  generalize getSess s = g
  obtain ⟨g1, g2⟩ := g
  cases g2 with
  | none => simp [setConn]
  | some r =>
    cases clean <;> by_cases hcl : (g1.sess r).clean = true <;> simp [setConn, closeSess, hcl]

/-! ### `Broker.handleConn`: the connect program of one connection -/

theorem upd_upd {α : Type} (f : Nat → α) (k : Nat) (a b : α) : upd (upd f k a) k b = upd f k b := by
  funext i; by_cases h : i = k <;> simp [upd, h]

theorem addAll_nil (l : List Nat) : addAll l [] = l := rfl

/-- the connection is let in: the first packet is a readable CONNECT that passes `connectionValidation`, and
either it takes an existing registration over or the cap check in the locked section passes -/
def accepted (s : St) (readOK isConnect valid : Bool) (nclients maxConn : Int) : Bool :=
  readOK && isConnect && valid && (s.client.isSome || !(decide (maxConn > 0) && decide (nclients ≥ maxConn)))

/-- what `handleConn` does after a written CONNACK: `updateEGName` (store), re-subscription of the session's
topics, then the read loop -/
def connectTail (s1 : St) (k : Nat) : St :=
  setPc { persist s1 (s1.conn k).sess with
          topicMgr := addAll (persist s1 (s1.conn k).sess).topicMgr (s1.sess (s1.conn k).sess).topics } k Pc.running

theorem takeoverMark_eq (s : St) :
    (match s.client with
     | some o => markCloseReq s o
     | none => s) = takeoverMark s := by
  cases h : s.client <;> simp [takeoverMark, markCloseReq, h]

/-- **`Broker.handleConn`**, all paths: refused (any reason) ⇒ the broker state is untouched; CONNACK cannot be
written ⇒ exactly the locked section `connectLocked` has happened; otherwise the locked section, the store of
`updateEGName`, the re-subscription from the session, and the connection is in its read loop. -/
theorem handleConn_tail (s1 : St) (k : Nat) (e : Bool) :
    setPc (if decide ((((persist s1 (s1.conn k).sess).sess ((persist s1 (s1.conn k).sess).conn k).sess).topics.length : Int) > 0)
        then ({ persist s1 (s1.conn k).sess with
                topicMgr := addAll (persist s1 (s1.conn k).sess).topicMgr
                  ((persist s1 (s1.conn k).sess).sess ((persist s1 (s1.conn k).sess).conn k).sess).topics }, false)
        else (persist s1 (s1.conn k).sess, e)).1 k Pc.running = connectTail s1 k := by
  unfold connectTail
  by_cases ht : (s1.sess (s1.conn k).sess).topics = []
  · simp [ht, persist, addAll]
  · have : 0 < (s1.sess (s1.conn k).sess).topics.length := List.length_pos_iff.mpr ht
    simp [persist, this]

theorem handleConn_regenerated_from_source (s : St) (k : Nat) (clean readOK isConnect valid connackOK : Bool)
    (nclients maxConn : Int) :
    handleConnIR s k clean readOK isConnect valid connackOK nclients maxConn =
      if accepted s readOK isConnect valid nclients maxConn then
        (if connackOK then connectTail (connectLocked true s k clean) k else connectLocked true s k clean)
      else s := by
  unfold handleConnIR accepted
  dsimp only
  cases readOK
  · simp
  cases isConnect
  · simp
  cases valid
  · simp
  simp only [Bool.not_true, Bool.false_eq_true, if_false, Bool.true_and, Bool.and_true]
  cases hc : s.client with
  | some o =>
    have h1 : lookupClient s = (o, true) := by simp [lookupClient, hc]
    have h2 : takeoverMark s = markCloseReq s o := by simp [takeoverMark, markCloseReq, hc]
    simp only [h1, if_true, Option.isSome_some, Bool.true_or, connectLocked, h2]
    cases connackOK
    · simp
    · simp only [Bool.not_true, Bool.false_eq_true, if_false, if_true]
      exact handleConn_tail _ k _
  | none =>
    have h1 : lookupClient s = (0, false) := by simp [lookupClient, hc]
    have h2 : takeoverMark s = s := by simp [takeoverMark, hc]
    simp only [h1, Bool.false_eq_true, if_false, Option.isSome_none, Bool.false_or, connectLocked, h2]
    by_cases hm : maxConn > 0
    · by_cases hn : nclients ≥ maxConn
      · simp [hm, hn]
      · simp only [hm, hn, decide_true, decide_false, if_true, Bool.false_eq_true, if_false, Bool.and_false,
          Bool.not_false]
        cases connackOK
        · simp
        · simp only [Bool.not_true, Bool.false_eq_true, if_false, if_true]
          exact handleConn_tail _ k _
    · simp only [hm, decide_false, Bool.false_eq_true, if_false, Bool.false_and, Bool.not_false, if_true]
      cases connackOK
      · simp
      · simp only [Bool.not_true, Bool.false_eq_true, if_false, if_true]
        exact handleConn_tail _ k _

theorem setSession_pc (s : St) (k : Nat) (clean : Bool) : ((setSession true s k clean).conn k).pc = Pc.registered := by
  unfold setSession
  dsimp only
  generalize getSess s = g
  obtain ⟨g1, g2⟩ := g
  cases g2 with
  | none => simp [newSession]
  | some r =>
    cases clean <;> by_cases h : (g1.sess r).clean = true <;> simp [h, setConn, newSession]

/-- …and that tail is the model's steps `storeSess k; resubscribe k` run one after the other: an accepted
connection whose CONNACK is written has executed `connectLocked; storeSess; resubscribe` (no interleaving). -/
theorem handleConn_steps_regenerated_from_source (s : St) (k : Nat) (clean : Bool) (h : (s.conn k).pc = Pc.new) :
    ((step true s (.connectLocked k clean)).bind (fun s1 => step true s1 (.storeSess k))).bind
        (fun s2 => step true s2 (.resubscribe k)) =
      some (connectTail (connectLocked true s k clean) k) := by
  have hpc : ((connectLocked true s k clean).conn k).pc = Pc.registered := setSession_pc _ k clean
  simp only [step, h, if_true, Option.bind_some, hpc]
  generalize connectLocked true s k clean = s1
  simp only [connectTail, setPc, setConn, persist, upd_same, if_true, Option.some.injEq]
  simp [upd_upd]

end EgVerif.BrokerSessions
