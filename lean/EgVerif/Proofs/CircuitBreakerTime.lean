import EgVerif.Spec.CircuitBreaker
import EgVerif.Proofs.Ring
import Mathlib.Tactic.Linarith
import Mathlib.Tactic.SplitIfs
/-! Time-based window: the ring of one-second buckets refines "the results of the last `N` seconds".
(helper lemmas for C08; the property theorem `timewin_refines` is in `Props/C08.lean`) -/
namespace EgVerif.CircuitBreaker

/-- (number, slow, failures) of a list of results -/
def tally (l : List Res) : Bucket :=
  { total := l.length, slow := l.count Res.slow, failure := l.count Res.failure }

/-- the results of `w` recorded in second `s` -/
def atSec (w : List (Int × Res)) (s : Int) : List Res := (w.filter (fun e => e.1 == s)).map (·.2)

/-- what the bucket of second `s` must hold -/
def countsAt (w : List (Int × Res)) (s : Int) : Bucket := tally (atSec w s)

theorem tally_nil : tally [] = Bucket.zero := rfl

theorem atSec_filter_ge (w : List (Int × Res)) (b s : Int) (hs : b ≤ s) :
    atSec (w.filter (fun e => decide (b ≤ e.1))) s = atSec w s := by
  unfold atSec
  rw [List.filter_filter]
  congr 1
  apply List.filter_congr
  intro e _
  by_cases h : e.1 = s
  · simp [h, hs]
  · simp [h]

theorem atSec_nil_of_lt (w : List (Int × Res)) (s : Int) (h : ∀ e ∈ w, e.1 < s) : atSec w s = [] := by
  unfold atSec
  rw [List.map_eq_nil_iff, List.filter_eq_nil_iff]
  intro e he
  have := h e he
  simp; omega

/-- splitting a window whose entries are all `≥ b` into second `b` and the rest -/
theorem tally_split (w : List (Int × Res)) (b : Int) (h : ∀ e ∈ w, b ≤ e.1) :
    (tally (w.map (·.2))).total = (countsAt w b).total + (tally ((w.filter (fun e => decide (b + 1 ≤ e.1))).map (·.2))).total ∧
    (tally (w.map (·.2))).slow = (countsAt w b).slow + (tally ((w.filter (fun e => decide (b + 1 ≤ e.1))).map (·.2))).slow ∧
    (tally (w.map (·.2))).failure = (countsAt w b).failure + (tally ((w.filter (fun e => decide (b + 1 ≤ e.1))).map (·.2))).failure := by
  induction w with
  | nil => simp [tally, countsAt, atSec]
  | cons x xs ih =>
    have hx := h x (by simp)
    obtain ⟨i1, i2, i3⟩ := ih (fun e he => h e (by simp [he]))
    simp only [tally, countsAt, atSec] at i1 i2 i3 ⊢
    by_cases hb : x.1 = b
    · have h1 : (x.1 == b) = true := by simp [hb]
      have h2 : decide (b + 1 ≤ x.1) = false := by simp; omega
      simp only [List.map_cons, List.filter_cons, h1, h2, if_true, List.length_cons, List.count_cons,
        Bool.false_eq_true, if_false]
      omega
    · have h1 : (x.1 == b) = false := by simp [hb]
      have h2 : decide (b + 1 ≤ x.1) = true := by simp; omega
      simp only [List.map_cons, List.filter_cons, h1, h2, if_true, List.length_cons, List.count_cons,
        Bool.false_eq_true, if_false]
      omega

/-- the relation maintained by the eviction loop (it does not mention `beginAt`): read from
`firstBucket`, the ring holds the tallies of seconds `B, B+1, …, B+N-1` -/
structure RingRel (N : Nat) (t : TimeWin) (w : List (Int × Res)) (B : Int) : Prop where
  len : t.bucket.length = N
  first : t.first < N
  ring : Ring.rot t.bucket t.first = (List.range N).map (fun (k : Nat) => countsAt w (B + (k : Int)))
  lo : ∀ e ∈ w, B ≤ e.1
  hi : ∀ e ∈ w, e.1 < B + N
  total : t.total = (tally (w.map (·.2))).total
  slow : t.slow = (tally (w.map (·.2))).slow
  failure : t.failure = (tally (w.map (·.2))).failure

/-- one iteration of the loop in `evict` -/
def evictOne (t : TimeWin) : TimeWin :=
  let b := t.bucket.getD t.first Bucket.zero
  { t with total := t.total - b.total, slow := t.slow - b.slow, failure := t.failure - b.failure,
           bucket := t.bucket.set t.first Bucket.zero,
           first := (t.first + 1) % t.bucket.length }

theorem evictLoop_succ (n : Nat) (t : TimeWin) : TimeWin.evictLoop (n + 1) t = TimeWin.evictLoop n (evictOne t) := rfl

theorem evictOne_beginAt (t : TimeWin) : (evictOne t).beginAt = t.beginAt := rfl

theorem evictLoop_beginAt : ∀ (n : Nat) (t : TimeWin), (TimeWin.evictLoop n t).beginAt = t.beginAt
  | 0, _ => rfl
  | n + 1, t => by rw [evictLoop_succ, evictLoop_beginAt n, evictOne_beginAt]

theorem ringRel_evictOne {N : Nat} {t : TimeWin} {w : List (Int × Res)} {B : Int} (h : RingRel N t w B) :
    RingRel N (evictOne t) (w.filter (fun e => decide (B + 1 ≤ e.1))) (B + 1) := by
  obtain ⟨hlen, hfirst, hring, hlo, hhi, htot, hslow, hfail⟩ := h
  have hi : t.first < t.bucket.length := by omega
  obtain ⟨n, rfl⟩ : ∃ n, N = n + 1 := ⟨N - 1, by omega⟩
  have hcons := Ring.rot_eq_cons t.bucket t.first Bucket.zero hi
  have hadv := Ring.rot_set_advance t.bucket t.first Bucket.zero hi
  rw [← Ring.mod_succ_eq t.first t.bucket.length hi] at hadv
  -- head and tail of the logical ring
  rw [hcons, List.range_succ_eq_map, List.map_cons, List.map_map] at hring
  obtain ⟨hhead, htail⟩ := List.cons.inj hring
  simp only [Nat.cast_zero, add_zero] at hhead
  have hsplit := tally_split w B hlo
  refine ⟨by simp [evictOne, hlen], ?_, ?_, ?_, ?_, ?_, ?_, ?_⟩
  · simp only [evictOne]; rw [hlen]; exact Nat.mod_lt _ (by omega)
  · simp only [evictOne]
    rw [hadv, htail, List.range_succ, List.map_append, List.map_singleton]
    congr 1
    · apply List.map_congr_left
      intro k _
      simp only [Function.comp, countsAt]
      rw [atSec_filter_ge w (B + 1) _ (by omega)]
      congr 2
      push_cast; omega
    · have : atSec (w.filter (fun e => decide (B + 1 ≤ e.1))) (B + 1 + (n : Int)) = [] := by
        apply atSec_nil_of_lt
        intro e he
        have := hhi e (List.mem_filter.mp he).1
        push_cast at this; omega
      simp [countsAt, this, tally_nil]
  · intro e he
    simpa using (List.mem_filter.mp he).2
  · intro e he
    have := hhi e (List.mem_filter.mp he).1
    omega
  · simp only [evictOne, hhead, htot]; omega
  · simp only [evictOne, hhead, hslow]; omega
  · simp only [evictOne, hhead, hfail]; omega

theorem filter_ge_filter_ge (w : List (Int × Res)) (a b : Int) (h : a ≤ b) :
    (w.filter (fun e => decide (a ≤ e.1))).filter (fun e => decide (b ≤ e.1)) = w.filter (fun e => decide (b ≤ e.1)) := by
  rw [List.filter_filter]
  apply List.filter_congr
  intro e _
  by_cases hb : b ≤ e.1
  · have : a ≤ e.1 := by omega
    simp [hb, this]
  · simp [hb]

theorem ringRel_evictLoop {N : Nat} : ∀ (m : Nat) {t : TimeWin} {w : List (Int × Res)} {B : Int},
    RingRel N t w B → RingRel N (TimeWin.evictLoop m t) (w.filter (fun e => decide (B + (m : Int) ≤ e.1))) (B + m)
  | 0, t, w, B, h => by
    have : w.filter (fun e => decide (B + ((0 : Nat) : Int) ≤ e.1)) = w := by
      rw [List.filter_eq_self]; intro e he; simpa using h.lo e he
    rw [this]; simpa [TimeWin.evictLoop] using h
  | m + 1, t, w, B, h => by
    rw [evictLoop_succ]
    have ih := ringRel_evictLoop m (ringRel_evictOne h)
    rw [filter_ge_filter_ge w (B + 1) (B + 1 + (m : Int)) (by omega)] at ih
    have e1 : B + 1 + (m : Int) = B + ((m + 1 : Nat) : Int) := by push_cast; omega
    rw [e1] at ih
    exact ih

/-- an empty window satisfies the relation for every base second -/
theorem ringRel_empty_rebase {N : Nat} {t : TimeWin} {B : Int} (h : RingRel N t [] B) (B' : Int) :
    RingRel N t [] B' := by
  refine ⟨h.len, h.first, ?_, by simp, by simp, h.total, h.slow, h.failure⟩
  rw [h.ring]
  apply List.map_congr_left
  intro k _
  simp [countsAt, atSec]

/-- the refinement relation of the time-based window: the ring represents the abstract window `w`
(second index, result; oldest first) whose base second is `beginAt`; `hi` bounds the seconds
recorded so far (time is non-decreasing) -/
structure TimeRel (N : Nat) (t : TimeWin) (w : List (Int × Res)) (hi : Int) : Prop where
  aligned : t.beginAt % sec = 0
  ring : RingRel N t w (t.beginAt / sec)
  up : ∀ e ∈ w, e.1 ≤ hi
  begin_le : t.beginAt / sec ≤ hi
  hi_lt : hi < t.beginAt / sec + N

theorem timeRel_new (N : Nat) (hN : 0 < N) (now : Int) : TimeRel N (newTimeWin N now) [] (secIdx now) := by
  have hal : (truncSec now) % sec = 0 := by unfold truncSec sec; omega
  have hb : truncSec now / sec = secIdx now := by unfold truncSec secIdx sec; omega
  refine ⟨hal, ⟨by simp [newTimeWin], by simpa [newTimeWin] using hN, ?_, by simp, by simp, rfl, rfl, rfl⟩,
    by simp, ?_, ?_⟩
  · simp only [newTimeWin, Ring.rot, List.drop_zero, List.take_zero, List.append_nil]
    apply List.ext_getElem
    · simp
    · intro i h1 h2
      simp [countsAt, atSec, tally, Bucket.zero]
  · show truncSec now / sec ≤ secIdx now
    rw [hb]
  · show secIdx now < truncSec now / sec + N
    rw [hb]; omega

theorem filter_gt_eq_ge (w : List (Int × Res)) (a : Int) :
    w.filter (fun e => decide (e.1 > a)) = w.filter (fun e => decide (a + 1 ≤ e.1)) := by
  apply List.filter_congr
  intro e _
  by_cases h : e.1 > a
  · have : a + 1 ≤ e.1 := by omega
    simp [h, this]
  · have : ¬ a + 1 ≤ e.1 := by omega
    simp [h, this]

/-- `evict(now)` refines dropping the results older than `N` seconds -/
theorem timeRel_evict {N : Nat} {t : TimeWin} {w : List (Int × Res)} {hi : Int} (h : TimeRel N t w hi)
    (now : Int) (hmono : hi ≤ secIdx now) :
    TimeRel N (t.evict now) (w.filter (fun e => decide (e.1 > secIdx now - N))) (secIdx now) := by
  obtain ⟨hal, hring, hup, hble, hhilt⟩ := h
  rw [filter_gt_eq_ge]
  have hN := hring.len
  -- seconds since beginAt
  have hnn : 0 ≤ now - t.beginAt := by
    unfold secIdx sec at hmono; unfold sec at hal hble; omega
  have hsec : Int.tdiv (now - t.beginAt) sec = secIdx now - t.beginAt / sec := by
    rw [Int.tdiv_eq_ediv_of_nonneg hnn]
    unfold secIdx sec; unfold sec at hal; omega
  unfold TimeWin.evict
  simp only [hsec, hN]
  generalize hB : t.beginAt / sec = B at *
  generalize hS : secIdx now = S at *
  by_cases hlt : S - B < (N : Int)
  · simp only [hlt, if_true]
    have hid : w.filter (fun e => decide (S - N + 1 ≤ e.1)) = w := by
      rw [List.filter_eq_self]; intro e he; have := hring.lo e he; simp; omega
    rw [hid]
    exact ⟨hal, by rw [hB]; exact hring, fun e he => le_trans (hup e he) hmono, by rw [hB]; omega, by rw [hB]; omega⟩
  · simp only [hlt, if_false]
    have hbeg : ∀ m, (TimeWin.evictLoop m { t with beginAt := t.beginAt + (S - B - N + 1) * sec }).beginAt
        = t.beginAt + (S - B - N + 1) * sec := fun m => by rw [evictLoop_beginAt]
    have hal' : (t.beginAt + (S - B - N + 1) * sec) % sec = 0 := by
      unfold sec at hal ⊢; omega
    have hB' : (t.beginAt + (S - B - N + 1) * sec) / sec = S - N + 1 := by
      unfold sec at hal hB ⊢; omega
    have hring1 : RingRel N { t with beginAt := t.beginAt + (S - B - N + 1) * sec } w B :=
      ⟨hring.len, hring.first, hring.ring, hring.lo, hring.hi, hring.total, hring.slow, hring.failure⟩
    by_cases hbig : S - B - N + 1 > (N : Int)
    · -- everything is older than the window
      simp only [hbig, if_true, Int.toNat_natCast]
      have hl := ringRel_evictLoop N hring1
      have hemp : w.filter (fun e => decide (B + (N : Int) ≤ e.1)) = [] := by
        rw [List.filter_eq_nil_iff]; intro e he; have := hring.hi e he; simp; omega
      have hemp2 : w.filter (fun e => decide (S - N + 1 ≤ e.1)) = [] := by
        rw [List.filter_eq_nil_iff]; intro e he; have := hring.hi e he; simp; omega
      rw [hemp] at hl
      rw [hemp2]
      refine ⟨by rw [hbeg]; exact hal', ?_, by simp, by rw [hbeg, hB']; omega, by rw [hbeg, hB']; omega⟩
      rw [hbeg, hB']
      exact ringRel_empty_rebase hl _
    · simp only [hbig, if_false]
      obtain ⟨m, hm⟩ := Int.eq_ofNat_of_zero_le (show 0 ≤ S - B - N + 1 by omega)
      have htn : (S - B - N + 1).toNat = m := by omega
      rw [htn]
      have hl := ringRel_evictLoop m hring1
      have e1 : B + (m : Int) = S - N + 1 := by omega
      rw [e1] at hl
      refine ⟨by rw [hbeg]; exact hal', by rw [hbeg, hB']; exact hl, ?_, by rw [hbeg, hB']; omega,
        by rw [hbeg, hB']; omega⟩
      intro e he
      exact le_trans (hup e (List.mem_filter.mp he).1) hmono

/-- adding one result to a bucket -/
def Bucket.add (b : Bucket) (r : Res) : Bucket :=
  if r = Res.slow then { total := b.total + 1, slow := b.slow + 1, failure := b.failure }
  else if r = Res.failure then { total := b.total + 1, slow := b.slow, failure := b.failure + 1 }
  else { total := b.total + 1, slow := b.slow, failure := b.failure }

theorem tally_append_one (l : List Res) (r : Res) : tally (l ++ [r]) = (tally l).add r := by
  unfold tally Bucket.add
  cases r <;> simp [List.count_append]

theorem countsAt_append (w : List (Int × Res)) (S : Int) (r : Res) (s : Int) :
    countsAt (w ++ [(S, r)]) s = if s = S then (countsAt w s).add r else countsAt w s := by
  unfold countsAt atSec
  rw [List.filter_append]
  by_cases h : s = S
  · subst h
    simp only [List.filter_cons, beq_self_eq_true, if_true, List.filter_nil, List.map_append, List.map_cons,
      List.map_nil]
    exact tally_append_one _ r
  · have : (S == s) = false := by simpa using fun e => h e.symm
    simp [List.filter_cons, this, h]

/-- the part of `Push` after `evict` -/
def addNow (w : TimeWin) (now : Int) (r : Res) : TimeWin :=
  let idx := (w.first + (Int.tdiv (now - w.beginAt) sec).toNat) % w.bucket.length
  let b := w.bucket.getD idx Bucket.zero
  { w with total := w.total + 1,
           slow := if r = Res.slow then w.slow + 1 else w.slow,
           failure := if r = Res.failure then w.failure + 1 else w.failure,
           bucket := w.bucket.set idx (b.add r) }

theorem push_eq_addNow (t : TimeWin) (now : Int) (r : Res) : t.push now r = addNow (t.evict now) now r := rfl

theorem timeRel_addNow {N : Nat} {t : TimeWin} {w : List (Int × Res)} (now : Int)
    (h : TimeRel N t w (secIdx now)) (r : Res) :
    TimeRel N (addNow t now r) (w ++ [(secIdx now, r)]) (secIdx now) := by
  obtain ⟨hal, hring, hup, hble, hhilt⟩ := h
  obtain ⟨hlen, hfirst, hrot, hlo, hhi, htot, hslow, hfail⟩ := hring
  have hnn : 0 ≤ now - t.beginAt := by
    unfold secIdx sec at hble; unfold sec at hal; omega
  have hsec : Int.tdiv (now - t.beginAt) sec = secIdx now - t.beginAt / sec := by
    rw [Int.tdiv_eq_ediv_of_nonneg hnn]
    unfold secIdx sec; unfold sec at hal; omega
  generalize hB : t.beginAt / sec = B at *
  generalize hS : secIdx now = S at *
  obtain ⟨k, hk⟩ := Int.eq_ofNat_of_zero_le (show 0 ≤ S - B by omega)
  have hkN : k < N := by omega
  have hkl : k < t.bucket.length := by omega
  have hfl : t.first < t.bucket.length := by omega
  have hidx : (Int.tdiv (now - t.beginAt) sec).toNat = k := by rw [hsec, hk]; simp
  have hSk : B + (k : Int) = S := by omega
  -- the bucket of the current second
  have hget : t.bucket.getD ((t.first + k) % t.bucket.length) Bucket.zero = countsAt w S := by
    rw [← Ring.rot_getD t.bucket t.first k Bucket.zero hfl hkl, hrot, List.getD_eq_getElem?_getD]
    rw [List.getElem?_map, List.getElem?_range hkN]
    simp [hSk]
  have hring' : Ring.rot (addNow t now r).bucket (addNow t now r).first =
      (List.range N).map (fun (j : Nat) => countsAt (w ++ [(S, r)]) (B + (j : Int))) := by
    simp only [addNow, hidx, hget]
    rw [Ring.rot_set t.bucket t.first k _ hfl hkl, hrot]
    apply List.ext_getElem
    · simp
    · intro i h1 h2
      have hiN : i < N := by simpa using h2
      rw [List.getElem_set]
      simp only [List.getElem_map, List.getElem_range, countsAt_append]
      by_cases hki : k = i
      · subst hki; simp [hSk]
      · have : ¬ B + (i : Int) = S := by omega
        simp [hki, this]
  have hba : (addNow t now r).beginAt = t.beginAt := rfl
  refine ⟨hal, ⟨by simp [addNow, hlen], hfirst, by rw [hba, hB]; exact hring', ?_, ?_, ?_, ?_, ?_⟩, ?_, by rw [hba, hB]; omega,
    by rw [hba, hB]; omega⟩
  · intro e he
    rcases List.mem_append.mp he with h1 | h1
    · rw [hba, hB]; exact hlo e h1
    · simp only [List.mem_singleton] at h1; rw [h1, hba, hB]; omega
  · intro e he
    rcases List.mem_append.mp he with h1 | h1
    · rw [hba, hB]; exact hhi e h1
    · simp only [List.mem_singleton] at h1; rw [h1, hba, hB]; omega
  · simp only [addNow, htot, List.map_append, List.map_cons, List.map_nil, tally_append_one]
    unfold Bucket.add; split_ifs <;> rfl
  · simp only [addNow, hslow, List.map_append, List.map_cons, List.map_nil, tally_append_one]
    unfold Bucket.add; cases r <;> simp
  · simp only [addNow, hfail, List.map_append, List.map_cons, List.map_nil, tally_append_one]
    unfold Bucket.add; cases r <;> simp
  · intro e he
    rcases List.mem_append.mp he with h1 | h1
    · exact hup e h1
    · simp only [List.mem_singleton] at h1; rw [h1]

/-- `Push` (evict, then add to the bucket of the current second) refines the abstract push -/
theorem timeRel_push {N : Nat} {t : TimeWin} {w : List (Int × Res)} {hi : Int} (h : TimeRel N t w hi)
    (now : Int) (hmono : hi ≤ secIdx now) (r : Res) :
    TimeRel N (t.push now r)
      (w.filter (fun e => decide (e.1 > secIdx now - N)) ++ [(secIdx now, r)]) (secIdx now) := by
  rw [push_eq_addNow]
  exact timeRel_addNow now (timeRel_evict h now hmono) r

end EgVerif.CircuitBreaker
