import EgVerif.Spec.Retry
import Mathlib.Tactic.SplitIfs
import Mathlib.Tactic.Ring
import Mathlib.Tactic.Linarith
/-! Helper lemmas for C10 (retry loop, pool handle). Property theorems are in `Props/C10.lean`. -/
namespace EgVerif.Retry

/-- the `k`-th attempt returns an error -/
def fails (fc : List Nat) (env : Env) (k : Nat) : Bool := (doHandle fc (env.attempt k) none).1.isSome

theorem retryLoop_zero (fc : List Nat) (p : RetryPolicy) (env : Env) (k : Nat) (prev) :
    retryLoop fc p env 0 k prev = ⟨[], prev.1, prev.2⟩ := rfl

theorem retryLoop_ok (fc : List Nat) (p : RetryPolicy) (env : Env) (fuel k : Nat) (prev)
    (h : (doHandle fc (env.attempt k) none).1 = none) :
    retryLoop fc p env (fuel + 1) k prev = ⟨[.call k], none, (doHandle fc (env.attempt k) none).2⟩ := by
  simp only [retryLoop, retryLoopWith, handler, h]

theorem retryLoop_stop (fc : List Nat) (p : RetryPolicy) (env : Env) (fuel k : Nat) (prev) {e : SPErr}
    (h : (doHandle fc (env.attempt k) none).1 = some e) (hd : env.done k = true) :
    retryLoop fc p env (fuel + 1) k prev =
      ⟨[.call k, .stop k], some e, (doHandle fc (env.attempt k) none).2⟩ := by
  simp only [retryLoop, retryLoopWith, handler, h, hd, if_true]

theorem retryLoop_cont (fc : List Nat) (p : RetryPolicy) (env : Env) (fuel k : Nat) (prev) {e : SPErr}
    (h : (doHandle fc (env.attempt k) none).1 = some e) (hd : env.done k = false) :
    retryLoop fc p env (fuel + 1) k prev =
      (let rest := retryLoop fc p env fuel (k + 1) (doHandle fc (env.attempt k) none)
       ⟨.call k :: .sleep k (sleepNum p k (env.jitter k)) (sleepDen p k) :: rest.events, rest.err, rest.resp⟩) := by
  simp only [retryLoop, retryLoopWith, handler, h, hd]
  rfl

theorem calls_cons_call (k : Nat) (r : List Event) : calls (.call k :: r) = k :: calls r := by
  simp [calls]
theorem calls_cons_sleep (k n d : Nat) (r : List Event) : calls (.sleep k n d :: r) = calls r := by
  simp [calls]
theorem calls_cons_stop (k : Nat) (r : List Event) : calls (.stop k :: r) = calls r := by
  simp [calls]
theorem calls_nil : calls [] = [] := rfl

/-- three way case split on one iteration of the loop -/
theorem loop_cases (fc : List Nat) (p : RetryPolicy) (env : Env) (fuel k : Nat) (prev) :
    (fails fc env k = false ∧
      retryLoop fc p env (fuel + 1) k prev = ⟨[.call k], none, (doHandle fc (env.attempt k) none).2⟩) ∨
    (∃ e, fails fc env k = true ∧ env.done k = true ∧ (doHandle fc (env.attempt k) none).1 = some e ∧
      retryLoop fc p env (fuel + 1) k prev = ⟨[.call k, .stop k], some e, (doHandle fc (env.attempt k) none).2⟩) ∨
    (fails fc env k = true ∧ env.done k = false ∧
      retryLoop fc p env (fuel + 1) k prev =
        ⟨.call k :: .sleep k (sleepNum p k (env.jitter k)) (sleepDen p k) ::
            (retryLoop fc p env fuel (k + 1) (doHandle fc (env.attempt k) none)).events,
          (retryLoop fc p env fuel (k + 1) (doHandle fc (env.attempt k) none)).err,
          (retryLoop fc p env fuel (k + 1) (doHandle fc (env.attempt k) none)).resp⟩) := by
  cases h : (doHandle fc (env.attempt k) none).1 with
  | none => left; exact ⟨by simp [fails, h], retryLoop_ok fc p env fuel k prev h⟩
  | some e =>
    cases hd : env.done k with
    | true => right; left; exact ⟨e, by simp [fails, h], rfl, rfl, retryLoop_stop fc p env fuel k prev h hd⟩
    | false => right; right; exact ⟨by simp [fails, h], rfl, retryLoop_cont fc p env fuel k prev h hd⟩

/-- the calls made are attempts `k, k+1, …` in order, at most `fuel` of them -/
theorem calls_range (fc : List Nat) (p : RetryPolicy) (env : Env) : ∀ (fuel k : Nat) (prev),
    ∃ m, m ≤ fuel ∧ (fuel > 0 → m > 0) ∧ calls (retryLoop fc p env fuel k prev).events = List.range' k m
  | 0, k, prev => ⟨0, le_refl _, by simp, by simp [retryLoop_zero, calls_nil]⟩
  | fuel + 1, k, prev => by
    rcases loop_cases fc p env fuel k prev with ⟨_, e⟩ | ⟨_, _, _, _, e⟩ | ⟨_, _, e⟩
    · exact ⟨1, by omega, by simp, by rw [e]; simp [calls_cons_call, calls_nil, List.range']⟩
    · exact ⟨1, by omega, by simp, by rw [e]; simp [calls_cons_call, calls_cons_stop, calls_nil, List.range']⟩
    · obtain ⟨m, hm, _, hc⟩ := calls_range fc p env fuel (k + 1) (doHandle fc (env.attempt k) none)
      refine ⟨m + 1, by omega, by simp, ?_⟩
      rw [e]; simp only [calls_cons_call, calls_cons_sleep, hc, List.range'_succ]

/-- an attempt that is followed by another one failed, and the client was still there -/
theorem followed_failed (fc : List Nat) (p : RetryPolicy) (env : Env) : ∀ (fuel k : Nat) (prev) (i : Nat),
    i ∈ calls (retryLoop fc p env fuel k prev).events →
    i + 1 ∈ calls (retryLoop fc p env fuel k prev).events →
    fails fc env i = true ∧ env.done i = false
  | 0, k, prev, i, h, _ => by simp [retryLoop_zero, calls_nil] at h
  | fuel + 1, k, prev, i, h1, h2 => by
    rcases loop_cases fc p env fuel k prev with ⟨_, e⟩ | ⟨_, _, _, _, e⟩ | ⟨hf, hd, e⟩
    · rw [e] at h1 h2
      simp [calls_cons_call, calls_nil] at h1 h2; omega
    · rw [e] at h1 h2
      simp [calls_cons_call, calls_cons_stop, calls_nil] at h1 h2; omega
    · rw [e] at h1 h2
      simp only [calls_cons_call, calls_cons_sleep, List.mem_cons] at h1 h2
      obtain ⟨m, _, _, hc⟩ := calls_range fc p env fuel (k + 1) (doHandle fc (env.attempt k) none)
      rcases h1 with rfl | h1
      · exact ⟨hf, hd⟩
      · rcases h2 with h2 | h2
        · rw [hc] at h1
          have := (List.mem_range'_1.mp h1).1
          omega
        · exact followed_failed fc p env fuel (k + 1) _ i h1 h2

/-- the loop does retry: a failed, un-cancelled attempt with attempts left is followed by the next -/
theorem retries (fc : List Nat) (p : RetryPolicy) (env : Env) : ∀ (fuel k : Nat) (prev) (i : Nat),
    i ∈ calls (retryLoop fc p env fuel k prev).events → fails fc env i = true → env.done i = false →
    i + 1 < k + fuel → i + 1 ∈ calls (retryLoop fc p env fuel k prev).events
  | 0, k, prev, i, h, _, _, _ => by simp [retryLoop_zero, calls_nil] at h
  | fuel + 1, k, prev, i, h1, hf, hd, hlt => by
    rcases loop_cases fc p env fuel k prev with ⟨hf', e⟩ | ⟨_, _, hd', _, e⟩ | ⟨_, _, e⟩
    · rw [e] at h1
      simp [calls_cons_call, calls_nil] at h1
      subst h1; rw [hf] at hf'; cases hf'
    · rw [e] at h1
      simp [calls_cons_call, calls_cons_stop, calls_nil] at h1
      subst h1; rw [hd] at hd'; cases hd'
    · rw [e] at h1 ⊢
      simp only [calls_cons_call, calls_cons_sleep, List.mem_cons] at h1 ⊢
      right
      obtain ⟨m, _, hpos, hc⟩ := calls_range fc p env fuel (k + 1) (doHandle fc (env.attempt k) none)
      rcases h1 with rfl | h1
      · rw [hc]
        have : fuel > 0 := by omega
        have := hpos this
        exact List.mem_range'_1.mpr ⟨by omega, by omega⟩
      · exact retries fc p env fuel (k + 1) _ i h1 hf hd (by omega)

/-- the result (error and response) is that of the last attempt made -/
theorem result_last (fc : List Nat) (p : RetryPolicy) (env : Env) : ∀ (fuel k : Nat) (prev),
    0 < fuel →
    let R := retryLoop fc p env fuel k prev
    (R.err, R.resp) = doHandle fc (env.attempt (k + (calls R.events).length - 1)) none
  | 0, _, _, h => by omega
  | fuel + 1, k, prev, _ => by
    rcases loop_cases fc p env fuel k prev with ⟨hf, e⟩ | ⟨e', _, _, he, e⟩ | ⟨_, _, e⟩
    · simp only [e, calls_cons_call, calls_nil, List.length_cons, List.length_nil]
      have : (doHandle fc (env.attempt k) none).1 = none := by
        simp only [fails, Option.isSome_eq_false_iff, Option.isNone_iff_eq_none] at hf; exact hf
      rw [show k + (0 + 1) - 1 = k by omega, ← this]
    · simp only [e, calls_cons_call, calls_cons_stop, calls_nil, List.length_cons, List.length_nil]
      rw [show k + (0 + 1) - 1 = k by omega, ← he]
    · simp only [e, calls_cons_call, calls_cons_sleep, List.length_cons]
      cases fuel with
      | zero =>
        simp only [retryLoop_zero, calls_nil, List.length_nil]
        rw [show k + (0 + 1) - 1 = k by omega]
      | succ f =>
        have ih := result_last fc p env (f + 1) (k + 1) (doHandle fc (env.attempt k) none) (by omega)
        simp only at ih
        rw [ih]
        obtain ⟨m, _, hpos, hc⟩ := calls_range fc p env (f + 1) (k + 1) (doHandle fc (env.attempt k) none)
        have hm := hpos (by omega)
        rw [hc, List.length_range']
        rw [show k + 1 + m - 1 = k + (m + 1) - 1 by omega]

/-- the events start with the first call -/
theorem events_head (fc : List Nat) (p : RetryPolicy) (env : Env) (fuel k : Nat) (prev) :
    ∃ tl, (retryLoop fc p env (fuel + 1) k prev).events = .call k :: tl := by
  rcases loop_cases fc p env fuel k prev with ⟨_, e⟩ | ⟨_, _, _, _, e⟩ | ⟨_, _, e⟩ <;> rw [e] <;> exact ⟨_, rfl⟩

/-- between attempt `i` and attempt `i+1` the back-off timer of attempt `i` fired -/
theorem sleep_between (fc : List Nat) (p : RetryPolicy) (env : Env) : ∀ (fuel k : Nat) (prev) (i : Nat),
    i ∈ calls (retryLoop fc p env fuel k prev).events →
    i + 1 ∈ calls (retryLoop fc p env fuel k prev).events →
    [Event.call i, .sleep i (sleepNum p i (env.jitter i)) (sleepDen p i), .call (i + 1)] <:+:
      (retryLoop fc p env fuel k prev).events
  | 0, k, prev, i, h, _ => by simp [retryLoop_zero, calls_nil] at h
  | fuel + 1, k, prev, i, h1, h2 => by
    rcases loop_cases fc p env fuel k prev with ⟨_, e⟩ | ⟨_, _, _, _, e⟩ | ⟨hf, hd, e⟩
    · rw [e] at h1 h2
      simp [calls_cons_call, calls_nil] at h1 h2; omega
    · rw [e] at h1 h2
      simp [calls_cons_call, calls_cons_stop, calls_nil] at h1 h2; omega
    · rw [e] at h1 h2 ⊢
      simp only [calls_cons_call, calls_cons_sleep, List.mem_cons] at h1 h2
      obtain ⟨m, _, _, hc⟩ := calls_range fc p env fuel (k + 1) (doHandle fc (env.attempt k) none)
      have hge : ∀ j, j ∈ calls (retryLoop fc p env fuel (k + 1) (doHandle fc (env.attempt k) none)).events →
          k + 1 ≤ j := fun j hj => by rw [hc] at hj; exact (List.mem_range'_1.mp hj).1
      rcases h1 with rfl | h1
      · rcases h2 with h2 | h2
        · omega
        · cases fuel with
          | zero => simp [retryLoop_zero, calls_nil] at h2
          | succ f =>
            obtain ⟨tl, htl⟩ := events_head fc p env f (i + 1) (doHandle fc (env.attempt i) none)
            rw [htl]
            exact ⟨[], tl, by simp⟩
      · rcases h2 with h2 | h2
        · have := hge i h1; omega
        · have ih := sleep_between fc p env fuel (k + 1) _ i h1 h2
          exact List.IsInfix.trans ih
            ⟨[Event.call k, Event.sleep k (sleepNum p k (env.jitter k)) (sleepDen p k)], [], by simp⟩

theorem finish_events (r : Run) (a : Nat) (c : List Bool) : (finish r a c).events = r.events := by
  unfold finish; split <;> rfl
theorem finish_acq (r : Run) (a : Nat) (c : List Bool) : (finish r a c).cbAcquires = a := by
  unfold finish; split <;> rfl
theorem finish_recs (r : Run) (a : Nat) (c : List Bool) : (finish r a c).cbRecords = c := by
  unfold finish; split <;> rfl
theorem finish_render (r : Run) (a : Nat) (c : List Bool) :
    ((finish r a c).result, (finish r a c).status) = render (r.err, r.resp) := by
  unfold finish render
  cases h : r.err with
  | none => rfl
  | some e => cases h2 : r.resp <;> rfl

/-- the (possibly retried) inner handler returns what its last attempt returned -/
theorem inner_last (pool : Pool) (stream : Bool) (env : Env)
    (hmax : ∀ p, pool.retry = some p → 1 ≤ p.maxAttempts) :
    ((inner pool stream env).err, (inner pool stream env).resp) =
      doHandle pool.failureCodes (env.attempt ((calls (inner pool stream env).events).length - 1)) none := by
  unfold inner
  cases hr : pool.retry with
  | none => simp [handler, calls_cons_call, calls_nil]
  | some p =>
    cases stream with
    | true => simp [handler, calls_cons_call, calls_nil]
    | false =>
      have hm := hmax p hr
      have := result_last pool.failureCodes p env p.maxAttempts.toNat 0 (none, none) (by omega)
      simpa using this

/-! ### back-off arithmetic -/

theorem sleepNum_ge (p : RetryPolicy) (k r : Nat) : baseNum p k * (p.fDen - p.fNum) ≤ sleepNum p k r := by
  unfold sleepNum; omega

theorem sleepNum_le (p : RetryPolicy) (k r : Nat) (hf : p.fNum ≤ p.fDen)
    (hr : r * sleepDen p k ≤ 2 * (baseNum p k * p.fNum)) :
    sleepNum p k r ≤ baseNum p k * (p.fDen + p.fNum) := by
  unfold sleepNum
  have : baseNum p k * (p.fDen - p.fNum) + baseNum p k * p.fNum = baseNum p k * p.fDen := by
    rw [← Nat.mul_add]; congr 1; omega
  have h2 : baseNum p k * (p.fDen + p.fNum) = baseNum p k * p.fDen + baseNum p k * p.fNum := Nat.mul_add _ _ _
  omega

theorem base_growth (p : RetryPolicy) (k : Nat) (h : p.exponential = true) :
    2 * (baseNum p (k + 1) * baseDen p k) = 3 * (baseNum p k * baseDen p (k + 1)) := by
  simp only [baseNum, baseDen, h, if_true, pow_succ]
  ring

theorem base_fixed (p : RetryPolicy) (k : Nat) (h : p.exponential = false) :
    baseNum p k = p.wait ∧ baseDen p k = 1 := by
  simp [baseNum, baseDen, h]

end EgVerif.Retry
