import EgVerif.Proofs.ClusterMutex
import EgVerif.Gen.FactsC18IR
/-!
Regenerated tie by translation for C18, mutex part (`notes/IR.md`, `notes/C18.md` "Extension cluster"):
`lockIR` / `unlockIR` of `Gen.FactsC18IR` are produced on every run from the current bodies of `mutex.Lock` /
`mutex.Unlock` (pkg/cluster/mutex.go; the deferred closure, the deferred `m.lock.Unlock()` and the named result
are desugared first) and proved equal to `lockCall` / `unlockCall` of `Model/ClusterMutex.lean` — including the
order of the local and the etcd operations (`MOut.trace`). `lockCall_is_schedule` / `unlockCall_is_schedule`
connect one call to the schedules of the interleaving model `step` the property theorems are about.
-/
namespace EgVerif.ClusterMutex
open EgVerif.Gen.FactsC18IR

theorem lock_regenerated_from_source (tmo : Nat) (lockO : Ctx → LockOutcome) (delO : Ctx → Bool) (held key : Bool) :
    lockIR tmo lockO delO held key = lockCall tmo lockO delO key := by
  simp only [lockIR, lockCall]
  cases lockO (Ctx.timeout tmo 1) <;> simp [etcdLockCall]

theorem unlock_regenerated_from_source (tmo : Nat) (lockO : Ctx → LockOutcome) (delO : Ctx → Bool) (held key : Bool) :
    unlockIR tmo lockO delO held key = unlockCall tmo delO key := by
  simp [unlockIR, unlockCall]

/-! ### One call = one schedule of the interleaving model -/

theorem run_cons (c : Cfg) (s : State) (a : Act) (as : List Act) :
    run c s (a :: as) = (step c s a).bind fun s1 => run c s1 as := by
  simp only [run]; cases step c s a <;> rfl

theorem not_mem_enqueue_erase {k : Nat} {q : List Nat} (h : q.Nodup) :
    k ∉ (if k ∈ q then q else q ++ [k]).erase k := by
  by_cases hk : k ∈ q
  · simp only [hk, if_true]; exact fun hm => ((h.mem_erase_iff).mp hm).1 rfl
  · simp only [hk, if_false]
    rw [List.erase_append_right _ hk]
    simpa using hk

/-- What a call of `mutex.Lock` does, as events in program order: local lock, etcd lock, and on error the
cleanup delete followed by the local unlock. -/
theorem lockCall_trace (tmo : Nat) (lockO : Ctx → LockOutcome) (delO : Ctx → Bool) (key : Bool) :
    (lockCall tmo lockO delO key).trace =
      if (lockCall tmo lockO delO key).err then
        [.localLock, .etcdLock (lockO (.timeout tmo 1)), .etcdUnlock (delO (.timeout tmo 2)), .localUnlock]
      else [.localLock, .etcdLock (lockO (.timeout tmo 1))] := by
  simp only [lockCall]; split <;> simp_all

/-- **A call of `mutex.Lock` by thread `t` is the schedule `lockActs t outcome` of the interleaving model**
(cleanup delete succeeding): whenever that schedule runs from a state in which `t` is outside Lock/Unlock,
the object's local mutex, the presence of the member's key and the thread's position afterwards are exactly
what `lockCall` (= the translated `mutex.Lock`) returns. -/
theorem lockCall_is_schedule (c : Cfg) (s s' : State) (t tmo : Nat) (lockO : Ctx → LockOutcome) (delO : Ctx → Bool)
    (hd : delO (.timeout tmo 2) = true) (hnd : s.queue.Nodup)
    (hrun : run c s (lockActs t (lockO (.timeout tmo 1))) = some s') :
    s'.held (c.obj t) = (lockCall tmo lockO delO (decide (c.sess (c.obj t) ∈ s.queue))).held ∧
    decide (c.sess (c.obj t) ∈ s'.queue) = (lockCall tmo lockO delO (decide (c.sess (c.obj t) ∈ s.queue))).key ∧
    s'.pc t = (if (lockCall tmo lockO delO (decide (c.sess (c.obj t) ∈ s.queue))).err then .idle else .crit) := by
  cases ho : lockO (.timeout tmo 1) <;> rw [ho] at hrun <;>
    simp [lockActs, run_cons, step, Option.bind_eq_some_iff] at hrun
  · obtain ⟨_, _, hr⟩ := hrun
    simp only [run, Option.some.injEq] at hr; subst hr
    have hk : c.sess (c.obj t) ∈ (if c.sess (c.obj t) ∈ s.queue then s.queue else s.queue ++ [c.sess (c.obj t)]) := by
      split <;> simp_all
    simp [lockCall, ho, etcdLockCall, hk]
  · obtain ⟨_, hr⟩ := hrun
    simp only [run, Option.some.injEq] at hr; subst hr
    simp [lockCall, ho, etcdLockCall, etcdUnlockCall, hd, not_mem_enqueue_erase hnd]
  · obtain ⟨_, hr⟩ := hrun
    simp only [run, Option.some.injEq] at hr; subst hr
    simp [lockCall, ho, etcdLockCall, etcdUnlockCall, hd, not_mem_enqueue_erase hnd]
  · obtain ⟨_, hr⟩ := hrun
    simp only [run, Option.some.injEq] at hr; subst hr
    have hk : c.sess (c.obj t) ∉ s.queue.erase (c.sess (c.obj t)) := fun hm => ((hnd.mem_erase_iff).mp hm).1 rfl
    simp [lockCall, ho, etcdLockCall, etcdUnlockCall, hd, hk]

/-- The schedules `lockActs` are enabled: from a free lock every outcome of the etcd call can happen. -/
theorem lockActs_enabled (c : Cfg) (s : State) (t : Nat) (o : LockOutcome) (hi : s.pc t = .idle)
    (hh : s.held (c.obj t) = false) (hq : s.queue = []) : ∃ s', run c s (lockActs t o) = some s' := by
  cases o <;> simp [lockActs, run_cons, step, hi, hh, hq, run]

/-- **A call of `mutex.Unlock` by the holder `t` is the schedule `releaseSeq t`** (etcd delete succeeding): the
etcd key is deleted *before* the local mutex is released (`unlockCall … .trace`), afterwards the local mutex is
free, the key is gone and the thread is outside. -/
theorem unlockCall_is_schedule (c : Cfg) (s s' : State) (t tmo : Nat) (delO : Ctx → Bool)
    (hd : delO (.timeout tmo 1) = true) (hnd : s.queue.Nodup) (hrun : run c s (releaseSeq t) = some s') :
    s'.held (c.obj t) = (unlockCall tmo delO (decide (c.sess (c.obj t) ∈ s.queue))).held ∧
    decide (c.sess (c.obj t) ∈ s'.queue) = (unlockCall tmo delO (decide (c.sess (c.obj t) ∈ s.queue))).key ∧
    (unlockCall tmo delO (decide (c.sess (c.obj t) ∈ s.queue))).err = false ∧ s'.pc t = .idle ∧
    (unlockCall tmo delO (decide (c.sess (c.obj t) ∈ s.queue))).trace = [.etcdUnlock true, .localUnlock] := by
  simp [releaseSeq, run_cons, step, Option.bind_eq_some_iff] at hrun
  obtain ⟨_, hr⟩ := hrun
  simp only [run, Option.some.injEq] at hr; subst hr
  have hk : c.sess (c.obj t) ∉ s.queue.erase (c.sess (c.obj t)) := fun hm => ((hnd.mem_erase_iff).mp hm).1 rfl
  simp [unlockCall, etcdUnlockCall, hd, hk]

end EgVerif.ClusterMutex
