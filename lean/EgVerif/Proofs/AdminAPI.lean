import EgVerif.Spec.AdminAPI
import Mathlib.Tactic.Linarith
/-! Helper lemmas for C18 (admin API handlers). -/
namespace EgVerif.AdminAPI

/-- Four round trips of a handler started alone end in `done` with the atomic result. -/
theorem iter4 (req : Req) (e : Etcd) :
    iter req 4 (.start, e) = (.done (apply e req).2, (apply e req).1) := by
  cases req with
  | create n o =>
    cases h : e.store.get n <;> simp [iter, micro, apply, Req.name, h, okStatus]
  | update n o =>
    cases h : e.store.get n with
    | none => simp [iter, micro, apply, Req.name, h]
    | some old =>
      by_cases hk : (old.kind != o.kind) = true
      · simp [iter, micro, apply, Req.name, h, hk]
      · have hk' : (old.kind != o.kind) = false := by simpa using hk
        simp [iter, micro, apply, Req.name, h, hk', okStatus]
  | delete n =>
    cases h : e.store.get n <;> simp [iter, micro, apply, Req.name, h, okStatus]

theorem exec_eq_apply (req : Req) (e : Etcd) : exec req e = apply e req := by
  simp [exec, iter4]

theorem iter_add (req : Req) : ∀ (a b : Nat) (x : PC × Etcd), iter req (a + b) x = iter req b (iter req a x)
  | 0, b, x => by simp [iter]
  | a + 1, b, x => by
    have : a + 1 + b = (a + b) + 1 := by omega
    rw [this]; simp only [iter]; exact iter_add req a b _

theorem iter_succ' (req : Req) (k : Nat) (x : PC × Etcd) :
    iter req (k + 1) x = micro req (iter req k x).1 (iter req k x).2 := by
  rw [iter_add req k 1 x]; simp [iter]

theorem iter_done (req : Req) (r : Resp) (e : Etcd) : ∀ k, iter req k (.done r, e) = (.done r, e)
  | 0 => rfl
  | k + 1 => by simp only [iter, micro]; exact iter_done req r e k

/-- However many round trips it took, a handler that reached `done` computed `apply`. -/
theorem done_is_apply {req : Req} {k : Nat} {e e' : Etcd} {r : Resp}
    (h : iter req k (.start, e) = (.done r, e')) : apply e req = (e', r) := by
  have h1 : iter req (k + 4) (.start, e) = (.done r, e') := by
    rw [iter_add, h, iter_done]
  have h2 : iter req (4 + k) (.start, e) = (.done (apply e req).2, (apply e req).1) := by
    rw [iter_add, iter4, iter_done]
  rw [Nat.add_comm] at h1
  rw [h1] at h2
  injection h2 with ha hb
  injection ha with ha
  rw [ha, hb]

/-! ### sequential meaning of a log -/

def base (e0 : Etcd) (log : List (Req × Resp)) : Etcd := log.foldl (fun e p => (apply e p.1).1) e0

def LogOK : Etcd → List (Req × Resp) → Prop
  | _, [] => True
  | e, p :: rest => p.2 = (apply e p.1).2 ∧ LogOK (apply e p.1).1 rest

theorem logOK_append : ∀ (log : List (Req × Resp)) (e0 : Etcd) (req : Req) (r : Resp), LogOK e0 log →
    r = (apply (base e0 log) req).2 → LogOK e0 (log ++ [(req, r)])
  | [], e0, req, r, _, h => by simpa [LogOK, base] using h
  | p :: rest, e0, req, r, hl, h => by
    simp only [List.cons_append, LogOK]
    exact ⟨hl.1, logOK_append rest _ req r hl.2 (by simpa [base] using h)⟩

theorem runSeq_of_logOK : ∀ (log : List (Req × Resp)) (e0 : Etcd), LogOK e0 log →
    runSeq e0 (log.map Prod.fst) = (base e0 log, log.map Prod.snd)
  | [], e0, _ => rfl
  | p :: rest, e0, h => by
    have ih := runSeq_of_logOK rest _ h.2
    simp only [List.map_cons, runSeq, ih, base, List.foldl_cons]
    rw [h.1]

structure SInv (e0 : Etcd) (s : Sys) : Prop where
  logOK : LogOK e0 s.log
  idle : s.holder = none → s.etcd = base e0 s.log
  busy : ∀ t, s.holder = some t → ∃ req pc k, s.cur t = some (req, pc) ∧
    iter req k (.start, base e0 s.log) = (pc, s.etcd)

theorem sinv_init (e0 : Etcd) : SInv e0 (Sys.init e0) :=
  ⟨trivial, fun _ => rfl, fun _ h => by simp [Sys.init] at h⟩

theorem sinv_step {e0 : Etcd} {s s' : Sys} (inv : SInv e0 s) (a : Act) (h : s.step a = some s') :
    SInv e0 s' := by
  cases a with
  | acquire t req =>
    simp only [Sys.step] at h
    split at h
    · rename_i g
      cases h
      refine ⟨inv.logOK, fun h => by simp at h, fun t' ht' => ?_⟩
      simp only [Option.some.injEq] at ht'
      subst ht'
      exact ⟨req, .start, 0, by simp, by simp [iter, inv.idle g]⟩
    · cases h
  | micro t =>
    simp only [Sys.step] at h
    split at h
    · rename_i g
      obtain ⟨req, pc, k, hc, hk⟩ := inv.busy t g
      rw [hc] at h
      simp only [Option.some.injEq] at h
      subst h
      refine ⟨inv.logOK, fun h => by simp [g] at h, fun t' ht' => ?_⟩
      simp only at ht'
      rw [g] at ht'; simp only [Option.some.injEq] at ht'; subst ht'
      refine ⟨req, (micro req pc s.etcd).1, k + 1, by simp, ?_⟩
      rw [iter_succ', hk]
    · cases h
  | release t =>
    simp only [Sys.step] at h
    split at h
    · rename_i g
      obtain ⟨req, pc, k, hc, hk⟩ := inv.busy t g
      rw [hc] at h
      cases pc with
      | done r =>
        simp only [Option.some.injEq] at h
        subst h
        have ha := done_is_apply hk
        refine ⟨logOK_append _ _ _ _ inv.logOK (by rw [ha]), fun _ => ?_, fun t' ht' => by simp at ht'⟩
        simp only [base, List.foldl_append, List.foldl_cons, List.foldl_nil]
        change s.etcd = (apply (base e0 s.log) req).1
        rw [ha]
      | start => simp at h
      | gotObj _ => simp at h
      | wrote => simp at h
      | gotVer _ => simp at h
    · cases h
  | read t =>
    simp only [Sys.step, Option.some.injEq] at h
    subst h; exact inv

theorem sinv_run {e0 : Etcd} : ∀ (as : List Act) {s s' : Sys}, SInv e0 s → Sys.run s as = some s' → SInv e0 s'
  | [], s, s', inv, h => by simp [Sys.run] at h; subst h; exact inv
  | a :: as, s, s', inv, h => by
    simp only [Sys.run] at h
    split at h
    · cases h
    · rename_i s1 hs
      exact sinv_run as (sinv_step inv a hs) h

/-! ### the sequential specification -/

theorem apply_cases (e : Etcd) (r : Req) :
    ((apply e r).2.version = none ∧ (apply e r).1 = e ∧
        ((apply e r).2.status = 409 ∨ (apply e r).2.status = 404 ∨ (apply e r).2.status = 400)) ∨
    ((apply e r).2.version = some (e.version + 1) ∧ (apply e r).1.version = e.version + 1 ∧
        (apply e r).1.store = effect e.store r ∧ (apply e r).2.status = okStatus r) := by
  cases r with
  | create n o => cases h : e.store.get n <;> simp [apply, h, effect, okStatus]
  | update n o =>
    cases h : e.store.get n with
    | none => simp [apply, h]
    | some old =>
      by_cases hk : (old.kind != o.kind) = true
      · simp [apply, h, hk]
      · have hk' : (old.kind != o.kind) = false := by simpa using hk
        simp [apply, h, hk', effect, okStatus]
  | delete n => cases h : e.store.get n <;> simp [apply, h, effect, okStatus]

/-- Successful requests of a sequential run, in order. -/
def successes : List Req → List Resp → List Req
  | r :: rs, p :: ps => if p.ok then r :: successes rs ps else successes rs ps
  | _, _ => []

theorem runSeq_versions : ∀ (rs : List Req) (e : Etcd),
    (runSeq e rs).2.filterMap (·.version) = List.range' (e.version + 1) ((runSeq e rs).2.filter Resp.ok).length ∧
    (runSeq e rs).1.version = e.version + ((runSeq e rs).2.filter Resp.ok).length ∧
    (runSeq e rs).1.store = (successes rs (runSeq e rs).2).foldl effect e.store
  | [], e => by simp [runSeq, successes]
  | r :: rs, e => by
    have ih := runSeq_versions rs (apply e r).1
    simp only [runSeq]
    rcases apply_cases e r with ⟨hv, he, _⟩ | ⟨hv, hver, hst, _⟩
    · rw [he] at ih
      simp only [List.filterMap_cons, hv, List.filter_cons, Resp.ok, Option.isSome_none, Bool.false_eq_true,
        ↓reduceIte, successes, he]
      exact ih
    · simp only [List.filterMap_cons, hv, List.filter_cons, Resp.ok, Option.isSome_some, ↓reduceIte,
        List.length_cons, List.range'_succ, successes, List.foldl_cons]
      rw [hver] at ih
      refine ⟨by rw [ih.1], by rw [ih.2.1]; omega, ?_⟩
      rw [ih.2.2, hst]

/-! ### soundness of the judge's history check w.r.t. `runSeq` (extension "cluster") -/

/-- The requests of a list of observed operations (mutations only). -/
def reqsOf : List Op → List Req
  | [] => []
  | o :: os => match o.kind with
    | .mut r => r :: reqsOf os
    | _ => reqsOf os

/-- `replay` accepts only lists of mutations whose observed status / version are those of the sequential
execution `runSeq`, and its last state is `runSeq`'s result. -/
theorem replay_sound : ∀ (ops : List Op) (e : Etcd), (replay apply e ops).2 = true →
    (runSeq e (reqsOf ops)).2.map (fun r => (r.status, r.version)) = ops.map (fun o => (o.status, o.ver)) ∧
    (replay apply e ops).1.getLast? = some (runSeq e (reqsOf ops)).1 ∧ (reqsOf ops).length = ops.length
  | [], e, _ => by simp [replay, runSeq, reqsOf]
  | o :: os, e, h => by
    match hk : o.kind with
    | .mut r =>
      simp only [replay, hk, Bool.and_eq_true, beq_iff_eq] at h
      obtain ⟨⟨hs, hv⟩, hr⟩ := h
      obtain ⟨i1, i2, i3⟩ := replay_sound os (apply e r).1 hr
      simp only [reqsOf, hk, runSeq, replay, List.map_cons, List.length_cons, i1, i3, hs, hv, List.getLast?_cons, i2]
      simp
    | .get n seen => simp [replay, hk] at h
    | .other => simp [replay, hk] at h

theorem insertByVer_perm (o : Op) : ∀ l : List Op, (insertByVer o l).Perm (o :: l)
  | [] => List.Perm.refl _
  | x :: xs => by
    simp only [insertByVer]
    split
    · exact List.Perm.refl _
    · exact ((insertByVer_perm o xs).cons x).trans (List.Perm.swap o x xs)

theorem sortByVer_perm : ∀ l : List Op, (sortByVer l).Perm l
  | [] => List.Perm.refl _
  | x :: xs => by
    simp only [sortByVer, List.foldr_cons]
    exact (insertByVer_perm x _).trans ((sortByVer_perm xs).cons x)

end EgVerif.AdminAPI
