import EgVerif.Proofs.Lifecycle
/-!
# C20 — panics with an explicit abort branch (audit repair, engineer mux)

In `Model/Lifecycle.lean` a panicking callback only sets the `panicked` flag of the recorded call; control flow
never reads it, so "a panic never prevents the others" was true *by construction of the model*. Here the same
consumer loops are given an **abort semantics**: a lifecycle call goes through its `…WithRecovery` wrapper, whose
deferred `recover()` is a parameter (`Rec`: one flag per wrapper, fed from the regenerated fact
`FactsC20.recoversFirst` in `Props/C20.lean`). A panic that the wrapper does not recover escapes into
`handleEvent`: the statement after the call (`Store`, `_cleanSpace`) and **all remaining work of this and every
later event** is skipped (`aborted` is absorbing — in Go the process dies). The theorems: with the three
`recover()`s in place the abort branch is unreachable and the abortable system *is* the model (for every panic
oracle); without one of them it is reachable and the other objects of the snapshot are not reconciled.
-/
namespace EgVerif.Lifecycle

/-- does `InitWithRecovery` / `InheritWithRecovery` / `CloseWithRecovery` start with a deferred `recover()`? -/
structure Rec where
  init : Bool
  inherit : Bool
  close : Bool
deriving DecidableEq, Repr

def Rec.all : Rec := ⟨true, true, true⟩

/-- the panic of this call escapes its wrapper -/
def escapes (R : Rec) (c : Call) : Bool :=
  c.panicked && !(match c.op with
    | .init => R.init
    | .inherit => R.inherit
    | .close => R.close)

theorem escapes_all (c : Call) : escapes Rec.all c = false := by
  unfold escapes Rec.all
  cases c.panicked <;> cases c.op <;> rfl

/-- abortable consumer state: `aborted = true` — the goroutine running `handleEvent` is gone -/
abbrev AState := CState × Bool

/-- `delStep` with the abort branch: `LoadAndDelete` has happened, `CloseWithRecovery` panics through ⇒ no
`_cleanSpace`, nothing more. -/
def delStepA (R : Rec) (P : Params) (a : AState) (x : Name × Entity) : AState :=
  if a.2 then a
  else
    let c := a.1
    if P.namespaced && !c.ns then (c, false)
    else
      let key := (P.slot x.2.kind, x.1)
      match c.store.get key with
      | none => (c, false)
      | some old =>
        let c' : CState := { store := c.store.del key, log := c.log ++ [callClose P x.1 old], ns := c.ns }
        if escapes R (callClose P x.1 old) then (c', true)
        else (if P.namespaced then cleanSpace c' else c', false)

/-- `creStep` with the abort branch: `InitWithRecovery` panics through ⇒ the entity is not stored. -/
def creStepA (R : Rec) (P : Params) (a : AState) (x : Name × Entity) : AState :=
  if a.2 then a
  else
    let c := a.1
    let key := (P.slot x.2.kind, x.1)
    if P.createChecks && (c.store.get key).isSome then (c, false)
    else if escapes R (callInit P x.1 x.2) then
      ({ store := c.store, log := c.log ++ [callInit P x.1 x.2], ns := if P.namespaced then true else c.ns }, true)
    else
      ({ store := c.store.set key x.2, log := c.log ++ [callInit P x.1 x.2],
         ns := if P.namespaced then true else c.ns }, false)

/-- `updStep` with the abort branch: `InheritWithRecovery` panics through ⇒ the new entity is not stored. -/
def updStepA (R : Rec) (P : Params) (a : AState) (x : Name × Entity) : AState :=
  if a.2 then a
  else
    let c := a.1
    if P.namespaced && !c.ns then (c, false)
    else
      let key := (P.slot x.2.kind, x.1)
      match c.store.get key with
      | none => (c, false)
      | some prev =>
        if escapes R (callInherit P x.1 x.2 prev) then
          ({ store := c.store, log := c.log ++ [callInherit P x.1 x.2 prev], ns := c.ns }, true)
        else ({ store := c.store.set key x.2, log := c.log ++ [callInherit P x.1 x.2 prev], ns := c.ns }, false)

def handleEventA (R : Rec) (P : Params) (t : Nat) (a : AState) (ev : Event) : AState :=
  let a1 := (P.order t 0 ev.del).foldl (delStepA R P) a
  let a2 := (P.order t 1 ev.cre).foldl (creStepA R P) a1
  (P.order t 2 ev.upd).foldl (updStepA R P) a2

/-- watcher + consumer with the abort flag -/
def stepWA (R : Rec) (P : Params) (t : Nat) (w : WState × Bool) (d : Diff) : WState × Bool :=
  if w.1.attached then
    let r := notify P w.1.wents d
    if r.2.isEmpty then (⟨true, r.1, w.1.cons⟩, w.2)
    else
      let h := handleEventA R P t (w.1.cons, w.2) r.2
      (⟨true, r.1, h.1⟩, h.2)
  else w

def attachWA (R : Rec) (P : Params) (t : Nat) (ents : Map Name Entity) (w : WState × Bool) : WState × Bool :=
  if w.1.attached then w
  else
    let ev := attachEvent P ents
    let h := handleEventA R P t (w.1.cons, w.2) ev
    (⟨true, ev.cre, h.1⟩, h.2)

/-- the system with the abort flag of its consumer goroutine -/
def stepA (R : Rec) (P : Params) (s : Sys × Bool) : Item → Sys × Bool
  | .snap cfg =>
    let d := diff s.1.g s.1.ents cfg
    let w := stepWA R P s.1.t (s.1.w, s.2) d
    (⟨s.1.g + 1, s.1.t + 1, d.ents, w.1⟩, w.2)
  | .attach =>
    let w := attachWA R P s.1.t s.1.ents (s.1.w, s.2)
    (⟨s.1.g, s.1.t + 1, s.1.ents, w.1⟩, w.2)

def runA (R : Rec) (P : Params) (s : Sys × Bool) (h : List Item) : Sys × Bool := h.foldl (stepA R P) s

/-! ### with the three `recover()`s the abort branch is unreachable -/

theorem delStepA_all (P : Params) (c : CState) (x : Name × Entity) :
    delStepA Rec.all P (c, false) x = (delStep P c x, false) := by
  simp only [delStepA, delStep, escapes_all, Bool.false_eq_true, if_false]
  split
  · rfl
  · cases hg : c.store.get (P.slot x.2.kind, x.1) <;> rfl

theorem creStepA_all (P : Params) (c : CState) (x : Name × Entity) :
    creStepA Rec.all P (c, false) x = (creStep P c x, false) := by
  simp only [creStepA, creStep, escapes_all, Bool.false_eq_true, if_false]
  split <;> rfl

theorem updStepA_all (P : Params) (c : CState) (x : Name × Entity) :
    updStepA Rec.all P (c, false) x = (updStep P c x, false) := by
  simp only [updStepA, updStep, escapes_all, Bool.false_eq_true, if_false]
  split
  · rfl
  · cases hg : c.store.get (P.slot x.2.kind, x.1) <;> rfl

theorem foldl_all {α : Type} (fA : AState → α → AState) (f : CState → α → CState)
    (h : ∀ c x, fA (c, false) x = (f c x, false)) : ∀ (l : List α) (c : CState),
    l.foldl fA (c, false) = (l.foldl f c, false)
  | [], _ => rfl
  | x :: l, c => by simp only [List.foldl_cons, h]; exact foldl_all fA f h l (f c x)

theorem handleEventA_all (P : Params) (t : Nat) (c : CState) (ev : Event) :
    handleEventA Rec.all P t (c, false) ev = (handleEvent P t c ev, false) := by
  simp only [handleEventA, handleEvent]
  rw [foldl_all _ _ (delStepA_all P), foldl_all _ _ (creStepA_all P), foldl_all _ _ (updStepA_all P)]

theorem stepA_all (P : Params) (s : Sys) (it : Item) : stepA Rec.all P (s, false) it = (step P s it, false) := by
  cases it with
  | snap cfg =>
    simp only [stepA, step, stepWA, stepW]
    split
    · split
      · rfl
      · simp only [handleEventA_all]
    · rfl
  | attach =>
    simp only [stepA, step, attachWA, attachW]
    split
    · rfl
    · simp only [handleEventA_all]

/-- **With the three `recover()`s in place the abortable system is the model, and it never aborts** — for
every panic oracle, history, iteration order and consumer shape. -/
theorem runA_all (P : Params) : ∀ (h : List Item) (s : Sys), runA Rec.all P (s, false) h = (run P s h, false)
  | [], _ => rfl
  | it :: h, s => by
    simp only [runA, run, List.foldl_cons, stepA_all]
    exact runA_all P h (step P s it)

end EgVerif.Lifecycle
