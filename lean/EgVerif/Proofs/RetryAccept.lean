import EgVerif.Proofs.Retry
import EgVerif.Model.CircuitBreaker
/-!
# Acceptance lemmas for the C10 judge's `gapsOK` and spec breaker `CB` (audit item 16, open part)

* `sleepDurs` — the whole-nanosecond durations of the back-off timers of a run; `sleepDurs_ge`: the `j`-th one
  is at least `backoffLower p (k + j)`; `sleepDurs_length`: there are at least `calls − 1` of them.
* `CBRel` — the judge's spec breaker `Retry.CB` (two counters and a flag) against C08's model of
  `circuitbreaker.CircuitBreaker` under the harness' policy (`harnessPolicy`: count based window of `N`,
  one hour open / slow thresholds): preserved by one acquire + record while fewer than `N` calls were
  recorded and less than the open time has passed (`cbrel_step`), established by `New` (`cbrel_new`).
-/
namespace EgVerif.Retry

/-! ## back-off gaps -/

/-- the durations `⌊num/den⌋` (whole ns) of the back-off timers that fired, in order -/
def sleepDurs (evs : List Event) : List Nat :=
  evs.filterMap (fun e => match e with | .sleep _ n d => some (n / d) | _ => none)

theorem sleepDurs_nil : sleepDurs [] = [] := rfl
theorem sleepDurs_cons_call (k : Nat) (r : List Event) : sleepDurs (.call k :: r) = sleepDurs r := by
  simp [sleepDurs]
theorem sleepDurs_cons_stop (k : Nat) (r : List Event) : sleepDurs (.stop k :: r) = sleepDurs r := by
  simp [sleepDurs]
theorem sleepDurs_cons_sleep (k n d : Nat) (r : List Event) :
    sleepDurs (.sleep k n d :: r) = n / d :: sleepDurs r := by
  simp [sleepDurs]

/-- the `j`-th back-off of a loop started at attempt `k` lasts at least `backoffLower p (k + j)` -/
theorem sleepDurs_ge (fc : List Nat) (p : RetryPolicy) (env : Env) : ∀ (fuel k : Nat) (prev) (j d : Nat),
    (sleepDurs (retryLoop fc p env fuel k prev).events)[j]? = some d → backoffLower p (k + j) ≤ d
  | 0, k, prev, j, d, h => by simp [retryLoop_zero, sleepDurs_nil] at h
  | fuel + 1, k, prev, j, d, h => by
    rcases loop_cases fc p env fuel k prev with ⟨_, e⟩ | ⟨_, _, _, _, e⟩ | ⟨_, _, e⟩
    · rw [e] at h; simp [sleepDurs_cons_call, sleepDurs_nil] at h
    · rw [e] at h; simp [sleepDurs_cons_call, sleepDurs_cons_stop, sleepDurs_nil] at h
    · rw [e] at h
      simp only [sleepDurs_cons_call, sleepDurs_cons_sleep] at h
      cases j with
      | zero =>
        simp only [List.getElem?_cons_zero, Option.some.injEq] at h
        subst h
        unfold backoffLower
        rw [Nat.add_zero]
        exact Nat.div_le_div_right (by unfold sleepNum; omega)
      | succ j =>
        simp only [List.getElem?_cons_succ] at h
        have ih := sleepDurs_ge fc p env fuel (k + 1) _ j d h
        rwa [show k + (j + 1) = k + 1 + j by omega]

/-- a run with `m` calls has at least `m − 1` back-offs (one between any two consecutive calls) -/
theorem sleepDurs_length (fc : List Nat) (p : RetryPolicy) (env : Env) : ∀ (fuel k : Nat) (prev),
    (calls (retryLoop fc p env fuel k prev).events).length ≤
      (sleepDurs (retryLoop fc p env fuel k prev).events).length + 1
  | 0, k, prev => by simp [retryLoop_zero, calls_nil]
  | fuel + 1, k, prev => by
    rcases loop_cases fc p env fuel k prev with ⟨_, e⟩ | ⟨_, _, _, _, e⟩ | ⟨_, _, e⟩
    · rw [e]; simp [calls_cons_call, calls_nil]
    · rw [e]; simp [calls_cons_call, calls_cons_stop, calls_nil]
    · rw [e]
      simp only [calls_cons_call, calls_cons_sleep, sleepDurs_cons_call, sleepDurs_cons_sleep,
        List.length_cons]
      have := sleepDurs_length fc p env fuel (k + 1) (doHandle fc (env.attempt k) none)
      omega

/-- the error a `doHandle` call returns never has the result `""` (success) or `"shortCircuited"` -/
theorem doHandle_result_ne (fc : List Nat) (a : Attempt) (r : Option Nat) (e : SPErr)
    (h : (doHandle fc a r).1 = some e) : e.result ≠ "" ∧ e.result ≠ "shortCircuited" := by
  cases a with
  | noServer => simp [doHandle] at h; subst h; decide
  | prepareFail => simp [doHandle] at h; subst h; decide
  | buildFail => simp [doHandle] at h; subst h; decide
  | sendErr c => cases c <;> (simp [doHandle] at h; subst h; decide)
  | resp st =>
    by_cases hc : st ∈ fc
    · simp [doHandle, hc] at h; subst h; exact ⟨by simp, by simp⟩
    · simp [doHandle, hc] at h

/-! ## the spec breaker against C08's model -/

open EgVerif.CircuitBreaker in
/-- the policy the C10 harness injects: count based window of `N` calls, `PermittedNumberOfCallsInHalfOpen` 1,
`SlowCallRateThreshold` 100, slow-call and open durations `W` (one hour) -/
def harnessPolicy (mc th N : Nat) (W : Int) : CircuitBreaker.Policy :=
  { failTh := th, slowTh := 100, timeBased := false, size := N, permitted := 1, minCalls := mc,
    slowDur := W, maxWaitHalf := 0, waitOpen := W }

/-- the spec breaker `s` describes C08's breaker `c` (window of `N`, created at or after `t0`) -/
structure CBRel (N : Nat) (t0 : Int) (s : CB) (c : CircuitBreaker.CB) : Prop where
  isOpen : s.isOpen = true → c.st = .open ∧ t0 ≤ c.transit
  closed : s.isOpen = false → c.st = .closed ∧ ∃ w, c.win = .count w ∧ w.total = s.total ∧
    w.failure = s.failures ∧ w.slow = 0 ∧ w.idx = s.total ∧ w.bucket.length = N ∧
    ∀ j, s.total ≤ j → w.bucket.getD j .unknown = .unknown

theorem cbrel_state {N : Nat} {t0 : Int} {s : CB} {c : CircuitBreaker.CB} (h : CBRel N t0 s c) :
    c.st.toNat = s.state := by
  unfold CB.state
  cases ho : s.isOpen with
  | true => rw [(h.isOpen ho).1]; rfl
  | false => rw [(h.closed ho).1]; rfl

/-- `circuitbreaker.New(policy)` at `t0` is the fresh spec breaker -/
theorem cbrel_new (mc th N : Nat) (W t0 : Int) :
    CBRel N t0 { minCalls := mc, threshold := th } (CircuitBreaker.new (harnessPolicy mc th N W) t0) := by
  refine ⟨fun h => by simp at h, fun _ => ?_⟩
  refine ⟨by simp [CircuitBreaker.new, CircuitBreaker.transitTo, CircuitBreaker.zero], ?_⟩
  refine ⟨CircuitBreaker.newCountWin N, ?_, rfl, rfl, rfl, rfl, by simp [CircuitBreaker.newCountWin], ?_⟩
  · simp [CircuitBreaker.new, CircuitBreaker.transitTo, CircuitBreaker.zero, harnessPolicy]
  · intro j _
    simp only [CircuitBreaker.newCountWin, List.getD_eq_getElem?_getD]
    by_cases hj : j < N
    · simp [hj]
    · simp [hj]

/-- `AcquirePermission` answers `!isOpen` and changes nothing (closed, or open for less than the open time) -/
theorem cbrel_acquire {mc th N : Nat} {W t0 now : Int} {s : CB} {c : CircuitBreaker.CB}
    (h : CBRel N t0 s c) (hnow : now < t0 + W) :
    CircuitBreaker.acquire (harnessPolicy mc th N W) c now = (c, ⟨!s.isOpen, c.stateID⟩) := by
  cases ho : s.isOpen with
  | true =>
    obtain ⟨hst, ht⟩ := h.isOpen ho
    have : now - c.transit < W := by omega
    simp [CircuitBreaker.acquire, hst, harnessPolicy, this]
  | false =>
    obtain ⟨hst, _⟩ := h.closed ho
    simp [CircuitBreaker.acquire, hst]

/-- one admitted call's `RecordResult` is the spec breaker's `record` (fewer than `N − 1` calls so far,
the call was not slow) -/
theorem cbrel_record {mc th N : Nat} {W t0 now d : Int} {s : CB} {c : CircuitBreaker.CB}
    (h : CBRel N t0 s c) (hmc : s.minCalls = mc) (hth : s.threshold = th)
    (ho : s.isOpen = false) (hN : s.total + 1 < N) (hd : d < W) (hnow : t0 ≤ now) (f : Bool) :
    CBRel N t0 (s.record f) (CircuitBreaker.record (harnessPolicy mc th N W) c c.stateID f d now) := by
  obtain ⟨hst, w, hw, htot, hfail, hslow, hidx, hlen, hunk⟩ := h.closed ho
  have hold : w.bucket.getD w.idx CircuitBreaker.Res.unknown = CircuitBreaker.Res.unknown :=
    hunk _ (by omega)
  -- the window after the push
  have hres : CircuitBreaker.classify (harnessPolicy mc th N W) f d =
      if f then CircuitBreaker.Res.failure else CircuitBreaker.Res.success := by
    unfold CircuitBreaker.classify harnessPolicy
    cases f <;> simp [Int.not_le.mpr hd]
  have hpush : (w.push (if f then CircuitBreaker.Res.failure else CircuitBreaker.Res.success)) =
      ⟨s.total + 1, 0, s.failures + (if f then 1 else 0), s.total + 1,
        w.bucket.set s.total (if f then CircuitBreaker.Res.failure else CircuitBreaker.Res.success)⟩ := by
    unfold CircuitBreaker.CountWin.push
    simp only [hold, if_true]
    have hnl : ¬ (w.idx + 1 ≥ w.bucket.length) := by omega
    cases f <;> simp [htot, hfail, hslow, hidx] <;> omega
  unfold CircuitBreaker.record
  simp only [ne_eq, not_true_eq_false, if_false, hres, hw, CircuitBreaker.Win.push, hst]
  rw [hpush]
  have hmin : (if CircuitBreaker.St.closed = CircuitBreaker.St.halfOpen ∧
      (harnessPolicy mc th N W).minCalls > (harnessPolicy mc th N W).permitted
      then (harnessPolicy mc th N W).permitted else (harnessPolicy mc th N W).minCalls) = mc := by
    simp [harnessPolicy]
  simp only [hmin, CircuitBreaker.Win.total, CircuitBreaker.Win.failureRate, CircuitBreaker.Win.slowRate,
    CircuitBreaker.Win.failure, CircuitBreaker.Win.slow]
  have hrec : s.record f = ⟨s.minCalls, s.threshold, s.total + 1, s.failures + (if f then 1 else 0),
      decide (s.total + 1 ≥ s.minCalls) &&
        decide ((s.failures + (if f then 1 else 0)) * 100 / (s.total + 1) ≥ s.threshold)⟩ := by
    unfold CB.record; simp [ho]
  have hslow0 : ¬ (0 * 100 / (s.total + 1) ≥ (harnessPolicy mc th N W).slowTh) := by
    simp [harnessPolicy]
  have hwin : ∀ cst : CircuitBreaker.St, cst = .closed →
      CBRel N t0 ⟨s.minCalls, s.threshold, s.total + 1, s.failures + (if f then 1 else 0), false⟩
        ⟨cst, c.transit, .count ⟨s.total + 1, 0, s.failures + (if f then 1 else 0), s.total + 1,
            w.bucket.set s.total (if f then CircuitBreaker.Res.failure else CircuitBreaker.Res.success)⟩,
          c.nHalf, c.stateID⟩ := by
    intro cst hc
    refine ⟨fun hh => by simp at hh, fun _ => ⟨hc, _, rfl, rfl, rfl, rfl, rfl, by simp [hlen], ?_⟩⟩
    intro j hj
    simp only at hj
    rw [List.getD_eq_getElem?_getD, List.getElem?_set_ne (by omega), ← List.getD_eq_getElem?_getD]
    exact hunk j (by omega)
  rw [hrec]
  by_cases h1 : s.total + 1 < mc
  · have : decide (s.total + 1 ≥ s.minCalls) = false := by simp [hmc]; omega
    simp only [h1, if_true, this, Bool.false_and]
    have := hwin c.st hst
    simpa [hst] using this
  · have hd1 : decide (s.total + 1 ≥ s.minCalls) = true := by simp [hmc]; omega
    simp only [h1, if_false, hd1, Bool.true_and]
    by_cases h2 : (s.failures + (if f then 1 else 0)) * 100 / (s.total + 1) ≥ th
    · have hfl : (harnessPolicy mc th N W).failTh = th := rfl
      simp only [hfl, h2, if_true, hth, decide_true]
      refine ⟨fun _ => ?_, fun hh => by simp at hh⟩
      simp [CircuitBreaker.transitTo, hnow]
    · have hfl : (harnessPolicy mc th N W).failTh = th := rfl
      simp only [hfl, h2, if_false, hslow0, hth, decide_false]
      have := hwin c.st hst
      simpa [hst, hth] using this

/-- one client request at the breaker: acquire at `r.2.1`, and, if admitted, record flag `r.1` with
duration `r.2.2.1` at `r.2.2.2` -/
def c08Step (P : CircuitBreaker.Policy) (c : CircuitBreaker.CB) (r : Bool × Int × Int × Int) :
    CircuitBreaker.CB :=
  let a := CircuitBreaker.acquire P c r.2.1
  if a.2.permitted then CircuitBreaker.record P a.1 a.2.id r.1 r.2.2.1 r.2.2.2 else a.1

theorem cbrel_step {mc th N : Nat} {W t0 : Int} {s : CB} {c : CircuitBreaker.CB}
    (h : CBRel N t0 s c) (hmc : s.minCalls = mc) (hth : s.threshold = th)
    (hN : s.total + 1 < N) (r : Bool × Int × Int × Int)
    (hacq : r.2.1 < t0 + W) (hd : r.2.2.1 < W) (hrec : t0 ≤ r.2.2.2) :
    CBRel N t0 (s.record r.1) (c08Step (harnessPolicy mc th N W) c r) := by
  unfold c08Step
  rw [cbrel_acquire h hacq]
  cases ho : s.isOpen with
  | true =>
    have : s.record r.1 = s := by unfold CB.record; simp [ho]
    simpa [this] using h
  | false =>
    simp only [Bool.not_false, if_true]
    exact cbrel_record h hmc hth ho hN hd hrec r.1

theorem record_minCalls (s : CB) (f : Bool) : (s.record f).minCalls = s.minCalls := by
  unfold CB.record; split <;> rfl
theorem record_threshold (s : CB) (f : Bool) : (s.record f).threshold = s.threshold := by
  unfold CB.record; split <;> rfl
theorem record_total_le (s : CB) (f : Bool) : (s.record f).total ≤ s.total + 1 := by
  unfold CB.record; split <;> simp

/-- any sequence of client requests shorter than the window, all within the open time of `t0` -/
theorem cbrel_run {mc th N : Nat} {W t0 : Int} : ∀ (rs : List (Bool × Int × Int × Int)) (s : CB)
    (c : CircuitBreaker.CB), CBRel N t0 s c → s.minCalls = mc → s.threshold = th →
    s.total + rs.length < N →
    (∀ r ∈ rs, r.2.1 < t0 + W ∧ r.2.2.1 < W ∧ t0 ≤ r.2.2.2) →
    CBRel N t0 (rs.foldl (fun s r => s.record r.1) s) (rs.foldl (c08Step (harnessPolicy mc th N W)) c)
  | [], _, _, h, _, _, _, _ => h
  | r :: rs, s, c, h, hmc, hth, hN, hr => by
    simp only [List.length_cons] at hN
    obtain ⟨h1, h2, h3⟩ := hr r (List.mem_cons_self ..)
    simp only [List.foldl_cons]
    refine cbrel_run rs _ _ (cbrel_step h hmc hth (by omega) r h1 h2 h3)
      (by rw [record_minCalls, hmc]) (by rw [record_threshold, hth]) ?_
      (fun r' hr' => hr r' (List.mem_cons_of_mem _ hr'))
    have := record_total_le s r.1
    omega

end EgVerif.Retry
