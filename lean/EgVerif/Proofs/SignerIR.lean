import EgVerif.Proofs.Signer
import EgVerif.Gen.FactsC06SignerIR
/-!
Regenerated tie by translation for C06, package `pkg/util/signer` (`notes/IR.md`, `notes/C06.md` "Extension auth"):
`Gen.FactsC06SignerIR.*IR` are produced on every run by the go/ast micro-translator from the current bodies of
`getCanonicalQuery`, `initFromQuery`, `initFromHeader`, `Verify`, `buildCanonicalURI`, `buildCanonicalHeaders`;
they are the hand-written definitions of `Model/Signer.lean` on every input.
-/
namespace EgVerif.Signer
open EgVerif.Sha256 (Bytes)
open EgVerif.Gen.FactsC06SignerIR

theorem b_slash : b "/" = [47] := rfl
theorem b_nil : b "" = [] := rfl

/-- `getCanonicalQuery` = `canonQuery` (presign mode: the five signature parameters are set; header mode: deleted;
the `Signature` parameter is deleted first in both; values sorted; `Values.Encode`) -/
theorem getCanonicalQuery_regenerated_from_source (lit : Literal) (clock : Clock) (t : Int) (scope : Bytes)
    (isPresign : Bool) (keyId : Bytes) (expire : Int) (signedHeaders : Bytes) (q : Header) :
    getCanonicalQueryIR lit clock t scope isPresign keyId expire signedHeaders q =
      canonQuery lit clock t scope (if isPresign then some ⟨keyId, expire, signedHeaders⟩ else none) q := by
  unfold getCanonicalQueryIR canonQuery sortValues
  cases isPresign
  · -- header mode: the six `Del` calls commute (robust against their re-ordering in the source)
    have hf : ∀ (q1 q2 : Header), q1 = q2 → (encode (q1.map fun e => (e.1, sortBy id e.2)), q1.map fun e => (e.1, sortBy id e.2)) =
        (encode (q2.map fun e => (e.1, sortBy id e.2)), q2.map fun e => (e.1, sortBy id e.2)) := by
      intro q1 q2 h; rw [h]
    (simp only [Bool.false_eq_true, if_false]) <;>
      (apply hf; (simp only [qdel, List.filter_filter]) <;>
        (congr 1; funext e; simp only [Bool.and_comm, Bool.and_left_comm, Bool.and_assoc]))
  · simp [b_slash]

theorem sliceL_mid (l : List Bytes) : sliceL l 2 (Int.ofNat l.length - 1) = midScopes l := by
  unfold sliceL midScopes
  have h0 : Int.ofNat l.length = (l.length : Int) := rfl
  have h1 : (Int.ofNat l.length - 1).toNat = l.length - 1 := by rw [h0]; omega
  have h2 : (2 : Int).toNat = 2 := rfl
  rw [h1, h2, List.dropLast_eq_take, List.drop_take, List.length_drop]
  have : l.length - 1 - 2 = l.length - 2 - 1 := by omega
  rw [this]

theorem getD_zero_headD (l : List Bytes) : l.getD (0 : Int).toNat [] = l.headD [] := by
  cases l <;> rfl

theorem getD_int_one (l : List Bytes) : l.getD (1 : Int).toNat [] = l.getD 1 [] := rfl
theorem getD_int_two (l : List Bytes) : l.getD (2 : Int).toNat [] = l.getD 2 [] := rfl

theorem ofNat_lt_three (n : Nat) : (Int.ofNat n < 3) ↔ n < 3 := by
  have : Int.ofNat n = (n : Int) := rfl
  rw [this]; omega

theorem initFromQuery_regenerated_from_source (lit : Literal) (clock : Clock) (req : Req) :
    initFromQueryIR lit clock req = initFromQuery lit clock req := by
  unfold initFromQueryIR initFromQuery parseTimeE parseExpiresE
  simp only [sliceL_mid, getD_zero_headD, getD_int_one, ofNat_lt_three]
  generalize qget req.query lit.algorithmName = alg
  generalize splitOn 47 (qget req.query lit.credential) = parts
  generalize clock.parseTime (qget req.query lit.date) = pt
  generalize clock.parseExpires (qget req.query lit.expires) = pe
  generalize hasPrefix (qget req.query lit.date) (parts.getD 1 []) = hp
  by_cases h1 : alg = lit.algorithmValue <;> by_cases h2 : parts.length < 3 <;> cases hp <;> cases pt <;> cases pe <;>
    simp [h1, h2]

theorem stripPrefix_cases (p s : Bytes) :
    (stripPrefix p s = none ∧ hasPrefix s p = false) ∨ (∃ t, stripPrefix p s = some t ∧ hasPrefix s p = true ∧ s.drop p.length = t) := by
  cases h : stripPrefix p s with
  | none => left; simp [hasPrefix, h]
  | some t =>
    right
    refine ⟨t, rfl, by simp [hasPrefix, h], ?_⟩
    have := stripPrefix_eq_some.mp h
    subst this
    simp

theorem len_credential : (Int.ofNat (b "Credential=").length) = 11 := rfl
theorem len_signedHeaders : (Int.ofNat (b "SignedHeaders=").length) = 14 := rfl
theorem len_signature : (Int.ofNat (b "Signature=").length) = 10 := rfl

theorem initFromHeader_regenerated_from_source (lit : Literal) (clock : Clock) (req : Req) :
    initFromHeaderIR lit clock req = initFromHeader lit clock req := by
  unfold initFromHeaderIR initFromHeader parseTimeE indexByte
  simp only [sliceL_mid, getD_zero_headD, getD_int_one, getD_int_two, ofNat_lt_three]
  generalize hget req.headers authHeader = hdr
  cases hsf : splitFirst 32 hdr with
  | none => simp
  | some p =>
    obtain ⟨alg, rest⟩ := p
    obtain ⟨rfl, _⟩ := splitFirst_eq_some.mp hsf
    have e1 : ((alg.length : Int) == -1) = false := by
      have : (alg.length : Int) ≠ -1 := by omega
      simp [this]
    have e2 : (alg ++ 32 :: rest).take (alg.length : Int).toNat = alg := by simp
    have e3 : (alg ++ 32 :: rest).drop ((alg.length : Int) + 1).toNat = rest := by
      have : ((alg.length : Int) + 1).toNat = alg.length + 1 := by omega
      rw [this]; simp
    simp only [e1, e2, e3]
    by_cases halg : alg = lit.algorithmValue
    · generalize clock.parseTime (hget req.headers lit.date) = pt
      rcases splitOn 44 rest with _ | ⟨p0, _ | ⟨p1, _ | ⟨p2, _ | ⟨p3, r⟩⟩⟩⟩
      · simp [halg]
      · simp [halg]
      · simp [halg]
      · have n11 : (11 : Int).toNat = 11 := rfl
        have n14 : (14 : Int).toNat = 14 := rfl
        have n10 : (10 : Int).toNat = 10 := rfl
        have l11 : (b "Credential=").length = 11 := rfl
        have l14 : (b "SignedHeaders=").length = 14 := rfl
        have l10 : (b "Signature=").length = 10 := rfl
        rcases stripPrefix_cases (b "Credential=") (trimSpace p0) with ⟨c1, c2⟩ | ⟨cred, c1, c2, c3⟩
        · simp [halg, c1, c2]
        · rw [l11] at c3
          rcases stripPrefix_cases (b "SignedHeaders=") (trimSpace p1) with ⟨s1, s2⟩ | ⟨sh, s1, s2, s3⟩
          · by_cases hl : (splitOn 47 cred).length < 3 <;> simp [halg, c1, c2, c3, n11, s1, s2, hl]
          · rw [l14] at s3
            rcases stripPrefix_cases (b "Signature=") (trimSpace p2) with ⟨g1, g2⟩ | ⟨sig, g1, g2, g3⟩
            · by_cases hl : (splitOn 47 cred).length < 3 <;> simp [halg, c1, c2, c3, n11, n14, s1, s2, s3, g1, g2, hl]
            · rw [l10] at g3
              generalize hasPrefix (hget req.headers lit.date) ((splitOn 47 cred).getD 1 []) = hp
              by_cases hl : (splitOn 47 cred).length < 3 <;> cases hp <;> cases pt <;>
                simp [halg, c1, c2, c3, n11, n14, n10, s1, s2, s3, g1, g2, g3, hl]
      · simp [halg]
        intro h
        exfalso
        omega
    · simp [halg]

theorem expectedSignatureBH_verify (cfg : Cfg) (cr : Crypto) (clock : Clock) (ctx : Ctx) (secret : Bytes) (req : Req)
    (body : Option Bytes) :
    expectedSignatureBH cfg cr clock ctx secret req (hashBodyAny true cfg cr req body) =
      expectedSignature cfg cr clock ctx secret req body := rfl

/-- `Signer.Verify` = `verify`: parse the signing context, TTL window `-ttl ≤ now - t ≤ ttl` (when a TTL is set), presign
expiry, key lookup, recomputed signature (body hash recomputed, `hashBody(req, true)`) compared with the presented one. -/
theorem verify_regenerated_from_source (cfg : Cfg) (cr : Crypto) (clock : Clock) (now : Int) (req : Req) (body : Option Bytes) :
    verifyIR cfg cr clock now req body = verify cfg cr clock now req body := by
  unfold verifyIR verify getSecretE
  simp only [expectedSignatureBH_verify]
  cases hi : initFromSignedRequest cfg.lit clock req with
  | error e => simp [exceptErr, veRet]
  | ok ctx =>
    simp only [exceptErr, exceptCtx, veRet]
    by_cases h1 : cfg.ttl > 0 <;> by_cases h2 : now - ctx.time < -cfg.ttl <;> by_cases h3 : now - ctx.time > cfg.ttl <;>
      by_cases h4 : ctx.presign = true <;> by_cases h5 : now - ctx.time > ctx.expire <;>
      simp [h1, h2, h3, h4, h5] <;> split <;> simp_all
    all_goals
      rename_i hne
      obtain ⟨sec, hsec⟩ := Option.ne_none_iff_exists'.mp hne
      simp [hsec]

/-- one rebuilt canonical header line (`initFromSignedRequest`'s loop body) -/
def verifyLine (req : Req) (name : Bytes) : Bytes :=
  headerLine name (if name = hostHeader then getHost req else canonValue (hvals req.headers (canonKey name)))

theorem initFromSignedRequest_regenerated_from_source_loop1 (lit : Literal) (clock : Clock) (req : Req) (cq : Header) (c : Ctx)
    (ch : Bytes) (q : Header) (e : Bool) (names0 : List Bytes) :
    ∀ (names : List Bytes) (buf : Bytes),
      initFromSignedRequestIR_loop1 lit clock req cq c ch q e buf names0 names = .inr (buf ++ (names.map (verifyLine req)).flatten) := by
  intro names
  induction names with
  | nil => intro buf; simp [initFromSignedRequestIR_loop1]
  | cons n r ih =>
    intro buf
    simp only [initFromSignedRequestIR_loop1, ih, List.map_cons, List.flatten_cons, verifyLine, headerLine]
    by_cases hn : n = hostHeader <;> simp [hn]

theorem initFromSignedRequest_regenerated_from_source_loop2 (lit : Literal) (clock : Clock) (req : Req) (cq : Header) (c : Ctx)
    (ch : Bytes) (q : Header) (e : Bool) (names0 : List Bytes) :
    ∀ (names : List Bytes) (buf : Bytes),
      initFromSignedRequestIR_loop2 lit clock req cq c ch q e buf names0 names = .inr (buf ++ (names.map (verifyLine req)).flatten) := by
  intro names
  induction names with
  | nil => intro buf; simp [initFromSignedRequestIR_loop2]
  | cons n r ih =>
    intro buf
    simp only [initFromSignedRequestIR_loop2, ih, List.map_cons, List.flatten_cons, verifyLine, headerLine]
    by_cases hn : n = hostHeader <;> simp [hn]

theorem verifyLines_eq_map (req : Req) (sh : Bytes) : verifyLines req sh = (splitOn 59 sh).map (verifyLine req) := rfl

/-- `initFromSignedRequest` (as repaired): a raw query that does not parse completely is refused (`badQuery`) before anything
else; otherwise header mode iff the Authorization header is non-empty; afterwards `ctx.CanonicalHeaders` is rebuilt from the
signed-header list (`verifyLines`). -/
theorem initFromSignedRequest_regenerated_from_source (lit : Literal) (clock : Clock) (req : Req) :
    initFromSignedRequestIR lit clock req =
      match initFromSignedRequest lit clock req with
      | .error e => (some e, exceptCtx (.error .badQuery), [])
      | .ok c => (none, c, (verifyLines req c.signedHeaders).flatten) := by
  unfold initFromSignedRequestIR initFromSignedRequest initFromSignedRequestLax
  simp only [initFromSignedRequest_regenerated_from_source_loop1, initFromSignedRequest_regenerated_from_source_loop2,
    verifyLines_eq_map, b_nil, List.nil_append]
  by_cases hq : req.queryErr = true
  · simp [hq]
  · by_cases ha : hget req.headers authHeader = []
    · cases hi : initFromQuery lit clock req <;> simp [hq, ha, hi, exceptErr, exceptCtx]
    · cases hi : initFromHeader lit clock req <;> simp [hq, ha, hi, exceptErr, exceptCtx]

end EgVerif.Signer
