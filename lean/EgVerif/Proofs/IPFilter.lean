import EgVerif.Spec.IPFilter
/-!
Helper lemmas for C05: prefix arithmetic (`x / 2^(w-k)` compares exactly the `k` most significant
of `w` bits). Core Lean only.
-/
namespace EgVerif.IPFilter

theorem div_eq_iff_prefixAgree {w k x y : Nat} (hk : k ≤ w) (hx : x < 2 ^ w) (hy : y < 2 ^ w) :
    x / 2 ^ (w - k) = y / 2 ^ (w - k) ↔ prefixAgree w k x y := by
  constructor
  · intro h i hi hiw
    have e : w - 1 - i = (k - 1 - i) + (w - k) := by omega
    rw [e, ← Nat.testBit_div_two_pow, ← Nat.testBit_div_two_pow, h]
  · intro h
    apply Nat.eq_of_testBit_eq
    intro j
    rw [Nat.testBit_div_two_pow, Nat.testBit_div_two_pow]
    by_cases hj : j + (w - k) < w
    · have := h (w - 1 - (j + (w - k))) (by omega) (by omega)
      have e : w - 1 - (w - 1 - (j + (w - k))) = j + (w - k) := by omega
      rw [e] at this; exact this
    · have hp : 2 ^ w ≤ 2 ^ (j + (w - k)) := Nat.pow_le_pow_right (by decide) (by omega)
      rw [Nat.testBit_lt_two_pow (Nat.lt_of_lt_of_le hx hp), Nat.testBit_lt_two_pow (Nat.lt_of_lt_of_le hy hp)]

theorem sameFam_width {a b : Addr} (h : a.sameFam b = true) : a.width = b.width := by
  cases a <;> cases b <;> simp [Addr.sameFam] at h <;> rfl

theorem sameFam_val_eq {a b : Addr} (h : a.sameFam b = true) (hv : a.val = b.val) : a = b := by
  cases a <;> cases b <;> simp [Addr.sameFam] at h <;> simp [Addr.val] at hv <;> rw [hv]

end EgVerif.IPFilter
