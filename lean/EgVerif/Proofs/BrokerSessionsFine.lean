import EgVerif.Proofs.BrokerSessions
/-!
# Helper lemmas for the fine-grained C16 model (`FSt`, `FAct`, `fstep` in `Model/BrokerSessions.lean`)

`FInv` = the unconditional part of the invariant (ownership of the session-map entry, open
session, no double close, what the broker-lock holder has established). `FRt` = the routing part
(`topics ⊆ TopicManager`), which holds only for histories in which no SUBSCRIBE/UNSUBSCRIBE packet
in flight is finished after its connection was superseded (`straddles`).
-/
namespace EgVerif.BrokerSessions

/-- in or past the read loop -/
def Pc.past : Pc → Bool
  | .running | .ended | .cleaned | .closed | .done => true
  | _ => false

/-- what the holder of the broker lock has established so far -/
def LockOk (s : FSt) : Prop :=
  match s.lock with
  | .free => True
  | .connGet k _ => s.base.client = some k ∧ (s.base.conn k).pc = Pc.new
  | .connSnap k _ r => s.base.client = some k ∧ (s.base.conn k).pc = Pc.new ∧ s.base.sessMap = some r
  | .connUnsub k _ r _ => s.base.client = some k ∧ (s.base.conn k).pc = Pc.new ∧ s.base.sessMap = some r
  | .tdSnap k w => (s.base.client = none ∨ s.base.client = some k) ∧ s.base.sessMap = none ∧
      (if w then (s.fc k).wl = true else (s.base.conn k).pc = Pc.ended)
  | .tdUnsub k w _ => (s.base.client = none ∨ s.base.client = some k) ∧ s.base.sessMap = none ∧
      (if w then (s.fc k).wl = true else (s.base.conn k).pc = Pc.ended)

/-- any holder of the broker lock -/
def Lk.holder : Lk → Option Nat
  | .free => none
  | .connGet k _ | .connSnap k _ _ | .connUnsub k _ _ _ | .tdSnap k _ | .tdUnsub k _ _ => some k

structure FInv (s : FSt) : Prop where
  /-- the registered live connection's session is the one in the session map -/
  owns : ∀ k, s.base.client = some k → (s.base.conn k).disc = false → (s.fc k).wl = false →
    (s.base.conn k).pc.active = true → s.base.sessMap = some (s.base.conn k).sess
  /-- the session in the map is open and allocated -/
  openS : ∀ r, s.base.sessMap = some r → (s.base.sess r).closed = false ∧ r < s.base.nextSess
  noDouble : s.base.doubleClose = false
  lockOk : LockOk s
  pendRun : ∀ k, (s.fc k).pend ≠ none → (s.base.conn k).pc = Pc.running
  wlPast : ∀ k, (s.fc k).wl = true → (s.base.conn k).pc.past = true
  snapStored : ∀ k, (s.fc k).snap ≠ none → (s.base.conn k).pc = Pc.stored

theorem finv_init : FInv finit := by
  constructor <;> simp [finit, init, fconn0, LockOk]

/-- Frame lemma: a step that leaves registration, session map, `closed` flags, allocation and
`doubleClose` alone, moves connections only forward and keeps what the lock holder relies on. -/
theorem finv_frame {s s' : FSt} (h : FInv s)
    (hcl : s'.base.client = s.base.client) (hsm : s'.base.sessMap = s.base.sessMap)
    (hclosed : ∀ r, (s'.base.sess r).closed = (s.base.sess r).closed)
    (hn : s'.base.nextSess = s.base.nextSess) (hd : s'.base.doubleClose = s.base.doubleClose)
    (hlk : LockOk s')
    (hconn : ∀ k, (s'.base.conn k).sess = (s.base.conn k).sess ∧
      (((s'.base.conn k).disc = false ∧ (s'.fc k).wl = false) → ((s.base.conn k).disc = false ∧ (s.fc k).wl = false)) ∧
      ((s'.base.conn k).pc.active = true → (s.base.conn k).pc.active = true) ∧
      ((s'.fc k).pend ≠ none → (s'.base.conn k).pc = Pc.running) ∧
      ((s'.fc k).wl = true → (s'.base.conn k).pc.past = true) ∧
      ((s'.fc k).snap ≠ none → (s'.base.conn k).pc = Pc.stored)) : FInv s' := by
  constructor
  · intro k hc hdsc hwl hact
    obtain ⟨e, d, a, _⟩ := hconn k
    obtain ⟨d1, d2⟩ := d ⟨hdsc, hwl⟩
    rw [hsm, e]; exact h.owns k (hcl ▸ hc) d1 d2 (a hact)
  · intro r hr; rw [hclosed, hn]; exact h.openS r (hsm ▸ hr)
  · rw [hd]; exact h.noDouble
  · exact hlk
  · intro k hk; exact (hconn k).2.2.2.1 hk
  · intro k hk; exact (hconn k).2.2.2.2.1 hk
  · intro k hk; exact (hconn k).2.2.2.2.2 hk

/-- `LockOk` only looks at the lock, the registration, the session map and the holder's record. -/
theorem lockOk_frame {s s' : FSt} (h : LockOk s) (hl : s'.lock = s.lock)
    (hcl : s'.base.client = s.base.client) (hsm : s'.base.sessMap = s.base.sessMap)
    (hk : ∀ k, s.lock.holder = some k →
      ((s.base.conn k).pc = Pc.new → (s'.base.conn k).pc = Pc.new) ∧
      ((s.base.conn k).pc = Pc.ended → (s'.base.conn k).pc = Pc.ended) ∧
      (s.lock.wHolder = some k → (s.fc k).wl = true → (s'.fc k).wl = true)) : LockOk s' := by
  unfold LockOk at h ⊢
  rw [hl]
  cases hlk : s.lock with
  | free => trivial
  | connGet k c =>
    rw [hlk] at h; obtain ⟨a, b, _⟩ := hk k (by simp [hlk, Lk.holder])
    exact ⟨hcl ▸ h.1, a h.2⟩
  | connSnap k c r =>
    rw [hlk] at h; obtain ⟨a, b, _⟩ := hk k (by simp [hlk, Lk.holder])
    exact ⟨hcl ▸ h.1, a h.2.1, hsm ▸ h.2.2⟩
  | connUnsub k c r ts =>
    rw [hlk] at h; obtain ⟨a, b, _⟩ := hk k (by simp [hlk, Lk.holder])
    exact ⟨hcl ▸ h.1, a h.2.1, hsm ▸ h.2.2⟩
  | tdSnap k w =>
    rw [hlk] at h; obtain ⟨a, b, c⟩ := hk k (by simp [hlk, Lk.holder])
    refine ⟨hcl ▸ h.1, hsm ▸ h.2.1, ?_⟩
    cases w <;> simp at h ⊢
    · exact b h.2.2
    · exact c (by simp [hlk, Lk.wHolder]) h.2.2
  | tdUnsub k w ts =>
    rw [hlk] at h; obtain ⟨a, b, c⟩ := hk k (by simp [hlk, Lk.holder])
    refine ⟨hcl ▸ h.1, hsm ▸ h.2.1, ?_⟩
    cases w <;> simp at h ⊢
    · exact b h.2.2
    · exact c (by simp [hlk, Lk.wHolder]) h.2.2

/-! ### every fine step preserves `FInv` -/

@[simp] theorem sessTopics_conn (s : St) (r : Nat) (ts : List Nat) : (sessTopics s r ts).conn = s.conn := rfl
@[simp] theorem sessTopics_client (s : St) (r : Nat) (ts : List Nat) : (sessTopics s r ts).client = s.client := rfl
@[simp] theorem sessTopics_sessMap (s : St) (r : Nat) (ts : List Nat) : (sessTopics s r ts).sessMap = s.sessMap := rfl
@[simp] theorem sessTopics_topicMgr (s : St) (r : Nat) (ts : List Nat) : (sessTopics s r ts).topicMgr = s.topicMgr := rfl

/-- per-connection side conditions of `finv_frame` for a step that touches connection `k` only -/
macro "conn_tac" h:ident k:term : tactic => `(tactic|
  (intro j
   have hp := ($h).pendRun j
   have hw := ($h).wlPast j
   have hs := ($h).snapStored j
   by_cases hj : j = $k
   · subst hj; simp_all [setPc, setConn, setFc, markDisc, Pc.active, Pc.past]
   · simp_all [setPc, setConn, setFc, markDisc, upd_other]))

/-- `LockOk` for a step that keeps lock, registration and session map and touches connection `k` -/
macro "lock_tac" h:ident k:term : tactic => `(tactic|
  (refine lockOk_frame ($h).lockOk rfl rfl rfl ?_
   intro j hjl
   by_cases hj : j = $k
   · subst hj; simp_all [setPc, setConn, setFc, markDisc, Lk.holder]
   · simp_all [setPc, setConn, setFc, markDisc, upd_other]))

theorem holder_td {s : FSt} (h : FInv s) {k : Nat} (hh : s.lock.holder = some k)
    (hc : s.lock.connHolder ≠ some k) : (s.base.conn k).pc.past = true := by
  have hl := h.lockOk
  unfold LockOk at hl
  cases hlk : s.lock with
  | free => simp [hlk, Lk.holder] at hh
  | connGet k' c => simp [hlk, Lk.holder, Lk.connHolder] at hh hc; exact absurd hh hc
  | connSnap k' c r => simp [hlk, Lk.holder, Lk.connHolder] at hh hc; exact absurd hh hc
  | connUnsub k' c r ts => simp [hlk, Lk.holder, Lk.connHolder] at hh hc; exact absurd hh hc
  | tdSnap k' w =>
    rw [hlk] at hl; simp [hlk, Lk.holder] at hh; subst hh
    cases w <;> simp at hl
    · rw [hl.2.2]; rfl
    · exact h.wlPast _ hl.2.2
  | tdUnsub k' w ts =>
    rw [hlk] at hl; simp [hlk, Lk.holder] at hh; subst hh
    cases w <;> simp at hl
    · rw [hl.2.2]; rfl
    · exact h.wlPast _ hl.2.2

theorem finv_step_book {s s' : FSt} {a : FAct} (h : FInv s) (hs : fstep s a = some s')
    (ha : match a with
      | .refuse _ | .connackFail _ | .storeSess _ | .doStore _ | .resubSnap _ | .noticeEnd _
      | .close _ | .asyncClose _ | .adminDelete | .wClose _ => True
      | _ => False) : FInv s' := by
  cases a <;> simp only at ha <;> simp only [fstep] at hs
  case refuse k =>
    split at hs <;> cases hs
    rename_i hc
    refine finv_frame h rfl rfl (fun _ => rfl) rfl rfl ?_ ?_
    · refine lockOk_frame h.lockOk rfl rfl rfl ?_
      intro j hjl
      by_cases hj : j = k
      · subst hj
        have := holder_td h hjl hc.2
        simp [hc.1, Pc.past] at this
      · simp [setPc, setConn, upd_other _ _ hj]
    · conn_tac h k
  case connackFail k =>
    split at hs <;> cases hs
    rename_i hc
    refine finv_frame h rfl rfl (fun _ => rfl) rfl rfl ?_ ?_
    · lock_tac h k
    · conn_tac h k
  case storeSess k =>
    split at hs <;> cases hs
    rename_i hc
    refine finv_frame h rfl rfl (fun _ => rfl) rfl rfl ?_ ?_
    · lock_tac h k
    · conn_tac h k
  case doStore i =>
    split at hs <;> cases hs
    refine finv_frame h rfl rfl (fun _ => rfl) rfl rfl ?_ ?_
    · exact lockOk_frame h.lockOk rfl rfl rfl (fun _ _ => ⟨id, id, fun _ => id⟩)
    · intro j; exact ⟨rfl, id, id, h.pendRun j, h.wlPast j, h.snapStored j⟩
  case resubSnap k =>
    split at hs <;> cases hs
    rename_i hc
    refine finv_frame h rfl rfl (fun _ => rfl) rfl rfl ?_ ?_
    · lock_tac h k
    · conn_tac h k
  case noticeEnd k =>
    split at hs <;> cases hs
    rename_i hc
    refine finv_frame h rfl rfl (fun _ => rfl) rfl rfl ?_ ?_
    · lock_tac h k
    · conn_tac h k
  case close k =>
    split at hs <;> cases hs
    rename_i hc
    refine finv_frame h rfl rfl (fun _ => rfl) rfl rfl ?_ ?_
    · lock_tac h k
    · conn_tac h k
  case asyncClose k =>
    split at hs <;> cases hs
    rename_i hc
    refine finv_frame h rfl rfl (fun _ => rfl) rfl rfl ?_ ?_
    · lock_tac h k
    · conn_tac h k
  case adminDelete =>
    cases hs
    refine finv_frame h rfl rfl (fun _ => rfl) rfl rfl ?_ ?_
    · exact lockOk_frame h.lockOk rfl rfl rfl (fun _ _ => ⟨id, id, fun _ => id⟩)
    · intro j; exact ⟨rfl, id, id, h.pendRun j, h.wlPast j, h.snapStored j⟩
  case wClose k =>
    split at hs <;> cases hs
    rename_i hc
    refine finv_frame h rfl rfl (fun _ => rfl) rfl rfl ?_ ?_
    · refine lockOk_frame h.lockOk rfl rfl rfl ?_
      intro j hjl
      by_cases hj : j = k
      · subst hj
        obtain ⟨hwl, hnh⟩ := hc
        have hl := h.lockOk
        unfold LockOk at hl
        simp [setFc, markDisc, setConn, hnh]
      · simp [setFc, markDisc, setConn, upd_other _ _ hj]
    · conn_tac h k

theorem sessTopics_closed (s : St) (r : Nat) (ts : List Nat) (q : Nat) :
    ((sessTopics s r ts).sess q).closed = (s.sess q).closed := by
  by_cases e : q = r
  · subst e; simp [sessTopics]
  · simp [sessTopics, upd_other _ _ e]

theorem finv_step_topics {s s' : FSt} {a : FAct} (h : FInv s) (hs : fstep s a = some s')
    (ha : match a with
      | .lkSnap _ | .tdSnap _ | .resubIns _ | .subTM _ _ | .subSess _ | .unsubTM _ _ | .unsubSess _
      | .tdUnsub _ => True
      | _ => False) : FInv s' := by
  cases a <;> simp only at ha <;> simp only [fstep] at hs
  case lkSnap k =>
    split at hs
    · rename_i k' clean r hlk
      split at hs <;> cases hs
      rename_i hk; subst hk
      have hl := h.lockOk
      unfold LockOk at hl; rw [hlk] at hl
      refine finv_frame h rfl rfl (fun _ => rfl) rfl rfl ?_ ?_
      · unfold LockOk; exact hl
      · intro j; exact ⟨rfl, id, id, h.pendRun j, h.wlPast j, h.snapStored j⟩
    · cases hs
  case tdSnap k =>
    split at hs
    · rename_i k' w hlk
      split at hs <;> cases hs
      rename_i hk; subst hk
      have hl := h.lockOk
      unfold LockOk at hl; rw [hlk] at hl
      refine finv_frame h rfl rfl (fun _ => rfl) rfl rfl ?_ ?_
      · unfold LockOk; exact hl
      · intro j; exact ⟨rfl, id, id, h.pendRun j, h.wlPast j, h.snapStored j⟩
    · cases hs
  case resubIns k =>
    split at hs
    · rename_i hc
      split at hs <;> cases hs
      rename_i ts hsn
      refine finv_frame h rfl rfl (fun _ => rfl) rfl rfl ?_ ?_
      · lock_tac h k
      · conn_tac h k
    · cases hs
  case subTM k f =>
    split at hs <;> cases hs
    rename_i hc
    obtain ⟨hcur, hpn⟩ := hc
    obtain ⟨hcl, hdisc, hrun⟩ := isCur_iff.mp hcur
    refine finv_frame h rfl rfl (fun _ => rfl) rfl rfl ?_ ?_
    · lock_tac h k
    · conn_tac h k
  case unsubTM k f =>
    split at hs <;> cases hs
    rename_i hc
    obtain ⟨hcur, hpn⟩ := hc
    obtain ⟨hcl, hdisc, hrun⟩ := isCur_iff.mp hcur
    refine finv_frame h rfl rfl (fun _ => rfl) rfl rfl ?_ ?_
    · lock_tac h k
    · conn_tac h k
  case subSess k =>
    split at hs
    · rename_i f hpd
      cases hs
      refine finv_frame h rfl rfl (fun q => sessTopics_closed _ _ _ q) rfl rfl ?_ ?_
      · lock_tac h k
      · conn_tac h k
    · cases hs
  case unsubSess k =>
    split at hs
    · rename_i f hpd
      cases hs
      refine finv_frame h rfl rfl (fun q => sessTopics_closed _ _ _ q) rfl rfl ?_ ?_
      · lock_tac h k
      · conn_tac h k
    · cases hs
  case tdUnsub k =>
    split at hs
    · rename_i k' w ts hlk
      split at hs <;> cases hs
      rename_i hk; subst hk
      have hl := h.lockOk
      unfold LockOk at hl; rw [hlk] at hl
      cases w
      · simp only [Bool.false_eq_true, if_false] at hl ⊢
        refine finv_frame h rfl rfl (fun _ => rfl) rfl rfl (by simp [LockOk]) ?_
        conn_tac h k'
      · simp only [if_true] at hl ⊢
        refine finv_frame h rfl rfl (fun _ => rfl) rfl rfl (by simp [LockOk]) ?_
        intro j; exact ⟨rfl, id, id, h.pendRun j, h.wlPast j, h.snapStored j⟩
    · cases hs

theorem takeoverMark_conn (s : St) (j : Nat) :
    ((takeoverMark s).conn j).pc = (s.conn j).pc ∧ ((takeoverMark s).conn j).sess = (s.conn j).sess ∧
    ((takeoverMark s).conn j).disc = (s.conn j).disc ∧ ((takeoverMark s).conn j).clean = (s.conn j).clean := by
  unfold takeoverMark
  cases s.client with
  | none => simp
  | some o =>
    by_cases e : j = o
    · subst e; simp [setConn]
    · simp [setConn, upd_other _ _ e]

theorem takeoverMark_rest (s : St) :
    (takeoverMark s).sessMap = s.sessMap ∧ (takeoverMark s).sess = s.sess ∧ (takeoverMark s).nextSess = s.nextSess ∧
    (takeoverMark s).doubleClose = s.doubleClose ∧ (takeoverMark s).db = s.db ∧
    (takeoverMark s).topicMgr = s.topicMgr ∧ (takeoverMark s).watch = s.watch := by
  unfold takeoverMark
  cases s.client <;> simp [setConn]

/-- the state right after the locked section of `handleConn` has let connection `k` in -/
theorem finv_of_registered {s s' : FSt} {k : Nat} {clean : Bool} (h : FInv s)
    (hpc : (s.base.conn k).pc = Pc.new) (r : Registered s'.base k clean)
    (hd : s'.base.doubleClose = false) (hl : s'.lock = Lk.free) (hfc : s'.fc = s.fc)
    (hconn : ∀ j, j ≠ k → s'.base.conn j = s.base.conn j) : FInv s' := by
  have hpend : (s.fc k).pend = none := by
    cases e : (s.fc k).pend with
    | none => rfl
    | some v => have := h.pendRun k (by simp [e]); rw [hpc] at this; cases this
  have hwl : (s.fc k).wl = false := by
    cases e : (s.fc k).wl with
    | false => rfl
    | true => have := h.wlPast k e; rw [hpc] at this; cases this
  have hsnap : (s.fc k).snap = none := by
    cases e : (s.fc k).snap with
    | none => rfl
    | some v => have := h.snapStored k (by simp [e]); rw [hpc] at this; cases this
  constructor
  · intro j hj _ _ _
    have : j = k := by rw [r.client] at hj; exact (Option.some.inj hj).symm
    subst this; exact r.sessMap
  · intro q hq
    rw [r.sessMap] at hq; cases hq; exact ⟨r.opened, r.alloc⟩
  · exact hd
  · unfold LockOk; rw [hl]; trivial
  · intro j hj
    rw [hfc] at hj
    by_cases e : j = k
    · subst e; exact absurd hpend hj
    · rw [hconn j e]; exact h.pendRun j hj
  · intro j hj
    rw [hfc] at hj
    by_cases e : j = k
    · subst e; rw [hwl] at hj; cases hj
    · rw [hconn j e]; exact h.wlPast j hj
  · intro j hj
    rw [hfc] at hj
    by_cases e : j = k
    · subst e; exact absurd hsnap hj
    · rw [hconn j e]; exact h.snapStored j hj

theorem teardownHead_spec (s : St) (k : Nat) :
    (teardownHead s k).client = s.client ∧ (teardownHead s k).conn = s.conn ∧
    (teardownHead s k).sessMap = none ∧ (teardownHead s k).nextSess = s.nextSess ∧
    (teardownHead s k).topicMgr = s.topicMgr ∧
    (∀ q, ((teardownHead s k).sess q).topics = (s.sess q).topics ∧ ((teardownHead s k).sess q).clean = (s.sess q).clean) ∧
    ((teardownHead s k).doubleClose = false ↔
      (s.doubleClose = false ∧ ∀ r, s.sessMap = some r → (s.sess r).closed = false)) := by
  unfold teardownHead
  cases hsm : s.sessMap with
  | none => by_cases hcl : (s.sess (s.conn k).sess).clean = true <;> simp [hcl, hsm]
  | some r =>
    have hq : ∀ q, ((closeSess s r).sess q).topics = (s.sess q).topics ∧ ((closeSess s r).sess q).clean = (s.sess q).clean := by
      intro q; by_cases e : q = r
      · subst e; simp [closeSess]
      · simp [closeSess, upd_other _ _ e]
    by_cases hcl : (s.sess (s.conn k).sess).clean = true <;> simp [hcl, closeSess] <;> exact fun q => by simpa [closeSess] using hq q

/-- not superseded: nobody, or `k` itself, is registered -/
theorem not_superseded {s : St} {k : Nat} (h : ¬ superseded s k = true) : s.client = none ∨ s.client = some k := by
  cases hcl : s.client with
  | none => exact Or.inl rfl
  | some o =>
    right; simp only [superseded, hcl, bne_iff_ne, ne_eq, Decidable.not_not] at h
    rw [h]

theorem finv_step_struct {s s' : FSt} {a : FAct} (h : FInv s) (hs : fstep s a = some s')
    (ha : match a with
      | .lockConn _ _ | .lkGet _ | .lkUnsub _ | .tdHead _ | .wErrHead _ | .remove _ | .watchFires => True
      | _ => False) : FInv s' := by
  cases a <;> simp only at ha <;> simp only [fstep] at hs
  case lockConn k clean =>
    split at hs <;> cases hs
    rename_i hc
    obtain ⟨hpc, hfree⟩ := hc
    obtain ⟨tsm, tse, tn, td, _, _, _⟩ := takeoverMark_rest s.base
    constructor
    · intro j hj _ _ hact
      have : j = k := (Option.some.inj hj).symm
      subst this
      have : ((takeoverMark s.base).conn j).pc = Pc.new := by rw [(takeoverMark_conn s.base j).1]; exact hpc
      simp [this, Pc.active] at hact
    · intro q hq; simp only [tsm, tse, tn] at hq ⊢; exact h.openS q hq
    · simp only [td]; exact h.noDouble
    · simp only [LockOk, (takeoverMark_conn s.base k).1, hpc, and_self]
    · intro j hj; simp only [(takeoverMark_conn s.base j).1]; exact h.pendRun j hj
    · intro j hj; simp only [(takeoverMark_conn s.base j).1]; exact h.wlPast j hj
    · intro j hj; simp only [(takeoverMark_conn s.base j).1]; exact h.snapStored j hj
  case lkGet k =>
    split at hs
    · rename_i k' clean hlk
      split at hs
      · rename_i hk; subst hk
        have hl := h.lockOk
        unfold LockOk at hl; rw [hlk] at hl
        obtain ⟨hcl, hpc⟩ := hl
        obtain ⟨gcl, gconn, gd, _, gsome, gnone⟩ := getSess_spec h.openS
        generalize getSess s.base = g at *
        obtain ⟨g1, g2⟩ := g
        simp only at hs gcl gconn gd gsome gnone
        cases g2 with
        | none =>
          simp only at hs; cases hs
          refine finv_of_registered h hpc ((newSession_registered _ _ _).mpr (gcl.trans hcl)) ?_ rfl rfl ?_
          · simp [newSession, gd, h.noDouble]
          · intro j hj; simp [newSession, upd_other _ _ hj, gconn]
        | some r =>
          obtain ⟨hsm, hop, hlt⟩ := gsome r rfl
          simp only at hs
          split at hs <;> cases hs
          · rename_i hre
            simp only [Bool.and_eq_true, Bool.not_eq_true'] at hre
            refine finv_of_registered (clean := clean) h hpc ?_ ?_ rfl rfl ?_
            · refine ⟨?_, ?_, ?_, ?_, ?_, ?_⟩ <;> simp [setConn, gcl, hcl, hsm, hop, hlt, hre.1]
            · simp [setConn, gd, h.noDouble]
            · intro j hj; simp [setConn, upd_other _ _ hj, gconn]
          · constructor
            · intro j hj _ _ hact
              have : j = k' := by
                simp only [gcl, hcl] at hj; exact (Option.some.inj hj).symm
              subst this
              simp [gconn, hpc, Pc.active] at hact
            · intro q hq
              simp only [hsm] at hq; cases hq; exact ⟨hop, hlt⟩
            · simp only [gd]; exact h.noDouble
            · simp only [LockOk, gcl, hcl, gconn, hpc, hsm, and_self]
            · intro j hj; simp only [gconn]; exact h.pendRun j hj
            · intro j hj; simp only [gconn]; exact h.wlPast j hj
            · intro j hj; simp only [gconn]; exact h.snapStored j hj
      · cases hs
    · cases hs
  case lkUnsub k =>
    split at hs
    · rename_i k' clean r ts hlk
      split at hs <;> cases hs
      rename_i hk; subst hk
      have hl := h.lockOk
      unfold LockOk at hl; rw [hlk] at hl
      obtain ⟨hcl, hpc, hsm⟩ := hl
      refine finv_of_registered h hpc ((newSession_registered _ _ _).mpr ?_) ?_ rfl rfl ?_
      · simp [closeSess, hcl]
      · simp [newSession, closeSess, h.noDouble, (h.openS r hsm).1]
      · intro j hj; simp [newSession, closeSess, upd_other _ _ hj]
    · cases hs
  case tdHead k =>
    split at hs
    · rename_i hc
      obtain ⟨hpc, hfree⟩ := hc
      split at hs <;> cases hs
      · refine finv_frame h rfl rfl (fun _ => rfl) rfl rfl ?_ ?_
        · lock_tac h k
        · conn_tac h k
      · rename_i hsup
        obtain ⟨tcl, tconn, tsm, tn, _, _, td⟩ := teardownHead_spec s.base k
        have hcl := not_superseded hsup
        constructor
        · intro j hj _ _ hact
          simp only [tcl] at hj
          have : j = k := by rcases hcl with e | e <;> simp [e] at hj; exact hj.symm
          subst this
          simp [tconn, hpc, Pc.active] at hact
        · intro q hq; simp [tsm] at hq
        · exact td.mpr ⟨h.noDouble, fun r hr => (h.openS r hr).1⟩
        · simp only [LockOk, tcl, tsm, tconn, hpc]; simp [hcl]
        · intro j hj; simp only [tconn]; exact h.pendRun j hj
        · intro j hj; simp only [tconn]; exact h.wlPast j hj
        · intro j hj; simp only [tconn]; exact h.snapStored j hj
    · cases hs
  case wErrHead k =>
    split at hs
    · rename_i hc
      obtain ⟨hpc, hwl, hfree⟩ := hc
      split at hs <;> cases hs
      · refine finv_frame h rfl rfl (fun _ => rfl) rfl rfl ?_ ?_
        · lock_tac h k
        · conn_tac h k
      · rename_i hsup
        obtain ⟨tcl, tconn, tsm, tn, _, _, td⟩ := teardownHead_spec s.base k
        have hcl := not_superseded hsup
        constructor
        · intro j hj _ hwlj hact
          simp only [tcl] at hj
          have : j = k := by rcases hcl with e | e <;> simp [e] at hj; exact hj.symm
          subst this
          simp [setFc] at hwlj
        · intro q hq; simp [tsm] at hq
        · exact td.mpr ⟨h.noDouble, fun r hr => (h.openS r hr).1⟩
        · simp only [LockOk, setFc, tcl, tsm]; simp [hcl]
        · intro j hj
          simp only [setFc, tconn] at hj ⊢
          by_cases e : j = k
          · subst e; exact hpc
          · simp only [upd_other _ _ e] at hj; exact h.pendRun j hj
        · intro j hj
          simp only [setFc, tconn] at hj ⊢
          by_cases e : j = k
          · subst e; rw [hpc]; rfl
          · simp only [upd_other _ _ e] at hj; exact h.wlPast j hj
        · intro j hj
          simp only [setFc, tconn] at hj ⊢
          by_cases e : j = k
          · subst e; simp only [upd_same] at hj; have := h.snapStored j hj; rw [hpc] at this; cases this
          · simp only [upd_other _ _ e] at hj; exact h.snapStored j hj
    · cases hs
  case remove k =>
    split at hs <;> cases hs
    rename_i hc
    obtain ⟨hpc, hfree⟩ := hc
    have hlk : ∀ b : St, LockOk { s with base := b } := by intro b; simp [LockOk, hfree]
    cases hcl : s.base.client with
    | none =>
      simp only []
      refine finv_frame h (by simp [setPc, setConn, hcl]) rfl (fun _ => rfl) rfl rfl (hlk _) ?_
      conn_tac h k
    | some o =>
      simp only []
      split
      · constructor
        · intro j hj; simp [setPc, setConn] at hj
        · intro q hq; exact h.openS q hq
        · exact h.noDouble
        · exact hlk _
        · intro j hj
          have := h.pendRun j hj
          by_cases e : j = k
          · subst e; rw [hpc] at this; cases this
          · simpa [setPc, setConn, upd_other _ _ e] using this
        · intro j hj
          have := h.wlPast j hj
          by_cases e : j = k
          · subst e; simp [setPc, setConn, Pc.past]
          · simpa [setPc, setConn, upd_other _ _ e] using this
        · intro j hj
          have := h.snapStored j hj
          by_cases e : j = k
          · subst e; rw [hpc] at this; cases this
          · simpa [setPc, setConn, upd_other _ _ e] using this
      · refine finv_frame h (by simp [setPc, setConn]) rfl (fun _ => rfl) rfl rfl (hlk _) ?_
        conn_tac h k
  case watchFires =>
    split at hs <;> cases hs
    rename_i hc
    obtain ⟨_, hfree⟩ := hc
    have hlk : ∀ b : St, LockOk { s with base := b } := by intro b; simp [LockOk, hfree]
    cases hcl : s.base.client with
    | none =>
      have : deleteSession s.base = s.base := by simp [deleteSession, hcl]
      rw [this]
      refine finv_frame h rfl rfl (fun _ => rfl) rfl rfl (hlk _) ?_
      intro j; exact ⟨rfl, id, id, h.pendRun j, h.wlPast j, h.snapStored j⟩
    | some o =>
      constructor
      · intro j hj; simp [deleteSession, hcl] at hj
      · intro q hq
        have := h.openS q (by simpa [deleteSession, hcl, markDisc, setConn] using hq)
        simpa [deleteSession, hcl, markDisc, setConn] using this
      · simpa [deleteSession, hcl, markDisc, setConn] using h.noDouble
      · exact hlk _
      · intro j hj
        have := h.pendRun j hj
        by_cases e : j = o
        · subst e; simpa [deleteSession, hcl, markDisc, setConn] using this
        · simpa [deleteSession, hcl, markDisc, setConn, upd_other _ _ e] using this
      · intro j hj
        have := h.wlPast j hj
        by_cases e : j = o
        · subst e; simpa [deleteSession, hcl, markDisc, setConn] using this
        · simpa [deleteSession, hcl, markDisc, setConn, upd_other _ _ e] using this
      · intro j hj
        have := h.snapStored j hj
        by_cases e : j = o
        · subst e; simpa [deleteSession, hcl, markDisc, setConn] using this
        · simpa [deleteSession, hcl, markDisc, setConn, upd_other _ _ e] using this

/-- every fine step preserves the unconditional invariant -/
theorem finv_step {s s' : FSt} {a : FAct} (h : FInv s) (hs : fstep s a = some s') : FInv s' := by
  cases a
  case lockConn | lkGet | lkUnsub | tdHead | wErrHead | remove | watchFires => exact finv_step_struct h hs trivial
  case lkSnap | tdSnap | resubIns | subTM | subSess | unsubTM | unsubSess | tdUnsub => exact finv_step_topics h hs trivial
  all_goals exact finv_step_book h hs trivial

/-! ### teardown steps of a superseded connection: frame -/

/-- the fine teardown-side steps of connection `j` -/
def IsTeardownOfF (j : Nat) : FAct → Prop
  | .noticeEnd k | .tdHead k | .tdSnap k | .tdUnsub k | .close k | .remove k | .wErrHead k | .wClose k
  | .asyncClose k => k = j
  | _ => False

structure SameForCurrentF (s s' : FSt) (k : Nat) : Prop where
  base : SameForCurrent s.base s'.base k
  fc : s'.fc k = s.fc k
  storeQ : s'.storeQ = s.storeQ
  lock : s'.lock = s.lock

theorem superseded_of {s : St} {k j : Nat} (hc : s.client = some k) (hj : j ≠ k) : superseded s j = true := by
  simp [superseded, hc, bne_iff_ne]; exact fun e => hj e.symm

theorem superseded_frame_fine {s s' : FSt} {k j : Nat} {a : FAct} (h : FInv s)
    (hc : s.base.client = some k) (hj : j ≠ k) (hlive : (s.base.conn k).disc = false)
    (ha : IsTeardownOfF j a) (hs : fstep s a = some s') : SameForCurrentF s s' k := by
  have hkj : k ≠ j := fun e => hj e.symm
  have hsup := superseded_of hc hj
  have hl := h.lockOk
  unfold LockOk at hl
  cases a <;> simp only [IsTeardownOfF] at ha <;> subst ha <;> simp only [fstep] at hs
  case noticeEnd =>
    split at hs <;> cases hs
    exact ⟨by constructor <;> simp [setPc, setConn, hkj], rfl, rfl, rfl⟩
  case tdHead =>
    split at hs
    · cases hs
      exact ⟨by constructor <;> simp [setPc, setConn, hkj], rfl, rfl, rfl⟩
    · cases hs
  case tdSnap =>
    split at hs
    · rename_i k' w hlk
      split at hs <;> cases hs
      rename_i e; subst e
      rw [hlk] at hl
      rcases hl.1 with e | e <;> rw [hc] at e <;> cases e
      exact absurd rfl hj
    · cases hs
  case tdUnsub =>
    split at hs
    · rename_i k' w ts hlk
      split at hs <;> cases hs
      rename_i e; subst e
      rw [hlk] at hl
      rcases hl.1 with e | e <;> rw [hc] at e <;> cases e
      exact absurd rfl hj
    · cases hs
  case close =>
    split at hs <;> cases hs
    exact ⟨by constructor <;> simp [setPc, setConn, markDisc, hkj], rfl, rfl, rfl⟩
  case remove =>
    split at hs <;> cases hs
    simp only [hc, hlive]
    exact ⟨by constructor <;> simp [setPc, setConn, hkj, hc], rfl, rfl, rfl⟩
  case wErrHead =>
    split at hs
    · cases hs
      exact ⟨⟨rfl, rfl, rfl, rfl, rfl, rfl, rfl, rfl, rfl⟩, by simp [setFc, hkj], rfl, rfl⟩
    · cases hs
  case wClose =>
    split at hs <;> cases hs
    exact ⟨by constructor <;> simp [setConn, markDisc, hkj], by simp [setFc, hkj], rfl, rfl⟩
  case asyncClose =>
    split at hs <;> cases hs
    exact ⟨by constructor <;> simp [setConn, markDisc, hkj], rfl, rfl, rfl⟩

/-! ### runs of fine steps -/

theorem runAllF_cons_eq_some {s s' : FSt} {a : FAct} {l : List FAct} :
    runAllF s (a :: l) = some s' ↔ ∃ s1, fstep s a = some s1 ∧ runAllF s1 l = some s' := by
  simp only [runAllF]
  cases fstep s a <;> simp

theorem runAllF_append_eq_some {s s' : FSt} {l₁ l₂ : List FAct} :
    runAllF s (l₁ ++ l₂) = some s' ↔ ∃ s1, runAllF s l₁ = some s1 ∧ runAllF s1 l₂ = some s' := by
  induction l₁ generalizing s with
  | nil => simp [runAllF]
  | cons a r ih =>
    simp only [List.cons_append, runAllF_cons_eq_some, ih]
    constructor
    · rintro ⟨s1, h1, s2, h2, h3⟩; exact ⟨s2, ⟨s1, h1, h2⟩, h3⟩
    · rintro ⟨s2, ⟨s1, h1, h2⟩, h3⟩; exact ⟨s1, h1, s2, h2, h3⟩

theorem finv_runAllF {s s' : FSt} {l : List FAct} (h : FInv s) (hr : runAllF s l = some s') : FInv s' := by
  induction l generalizing s with
  | nil => simp [runAllF] at hr; subst hr; exact h
  | cons a rest ih =>
    obtain ⟨s1, h1, h2⟩ := runAllF_cons_eq_some.mp hr
    exact ih (finv_step h h1) h2

/-- steps of the teardown of connections other than `k` -/
def OthersTeardownF (k : Nat) (l : List FAct) : Prop := ∀ a ∈ l, ∃ j, j ≠ k ∧ IsTeardownOfF j a

theorem frame_run_fine {k : Nat} {l : List FAct} (hl : OthersTeardownF k l) {s s' : FSt} (hi : FInv s)
    (hc : s.base.client = some k) (hlive : (s.base.conn k).disc = false) (h : runAllF s l = some s') :
    SameForCurrentF s s' k := by
  induction l generalizing s with
  | nil =>
    simp [runAllF] at h; subst h
    exact ⟨⟨rfl, rfl, rfl, rfl, rfl, rfl, rfl, rfl, rfl⟩, rfl, rfl, rfl⟩
  | cons a rest ih =>
    obtain ⟨s1, hs, hr⟩ := runAllF_cons_eq_some.mp h
    obtain ⟨j, hj, ha⟩ := hl a (List.mem_cons_self ..)
    have f1 := superseded_frame_fine hi hc hj hlive ha hs
    have f2 := ih (fun b hb => hl b (List.mem_cons_of_mem _ hb)) (finv_step hi hs) (f1.base.client.trans hc)
      (by rw [f1.base.conn]; exact hlive) hr
    exact ⟨⟨f2.base.client.trans f1.base.client, f2.base.sessMap.trans f1.base.sessMap, f2.base.sess.trans f1.base.sess,
      f2.base.nextSess.trans f1.base.nextSess, f2.base.db.trans f1.base.db, f2.base.topicMgr.trans f1.base.topicMgr,
      f2.base.watch.trans f1.base.watch, f2.base.conn.trans f1.base.conn, f2.base.doubleClose.trans f1.base.doubleClose⟩,
      f2.fc.trans f1.fc, f2.storeQ.trans f1.storeQ, f2.lock.trans f1.lock⟩

/-! ### reconnect at fine granularity -/

/-- the session a CONNECT finds: the one in the local map, else the persisted copy -/
def storedSess (s : St) : Option (List Nat × Bool) :=
  match s.sessMap with
  | some r => some ((s.sess r).topics, (s.sess r).clean)
  | none => s.db

/-- connection `k` is registered, live, and holds session `r` with topics `F`, which is the open
session in the session map -/
structure Holds (s : St) (k r : Nat) (F : List Nat) : Prop where
  client : s.client = some k
  live : (s.conn k).disc = false
  mine : (s.conn k).sess = r
  inMap : s.sessMap = some r
  topics : (s.sess r).topics = F
  opened : (s.sess r).closed = false

theorem holds_frame {s s' : St} {k r : Nat} {F : List Nat} (g : Holds s k r F) (f : SameForCurrent s s' k) :
    Holds s' k r F :=
  ⟨f.client.trans g.client, by rw [f.conn]; exact g.live, by rw [f.conn]; exact g.mine,
   f.sessMap.trans g.inMap, by rw [f.sess]; exact g.topics, by rw [f.sess]; exact g.opened⟩

/-- `lockConn k false; t₁; lkGet k` on a stored persistent session with topics `F` -/
theorem connect_reuses_fine {s s1 s2 s3 : FSt} (hi : FInv s) {k : Nat} {F : List Nat} {t₁ : List FAct}
    (hst : storedSess s.base = some (F, false)) (hfresh : (s.base.conn k).disc = false)
    (h₁ : OthersTeardownF k t₁)
    (hs1 : fstep s (FAct.lockConn k false) = some s1) (hr1 : runAllF s1 t₁ = some s2)
    (hs2 : fstep s2 (FAct.lkGet k) = some s3) :
    ∃ r, Holds s3.base k r F ∧ (s3.base.conn k).pc = Pc.registered ∧ s3.base.topicMgr = s.base.topicMgr ∧
      s3.lock = Lk.free := by
  have hi1 := finv_step hi hs1
  simp only [fstep] at hs1
  split at hs1 <;> cases hs1
  obtain ⟨tsm, tse, tn, td, tdb, ttm, _⟩ := takeoverMark_rest s.base
  have f1 := frame_run_fine h₁ hi1 rfl (by simp only [(takeoverMark_conn s.base k).2.2.1]; exact hfresh) hr1
  have hi2 := finv_runAllF hi1 hr1
  have hlock : s2.lock = Lk.connGet k false := f1.lock
  have hsm2 : s2.base.sessMap = s.base.sessMap := f1.base.sessMap.trans tsm
  have hse2 : s2.base.sess = s.base.sess := f1.base.sess.trans tse
  have hdb2 : s2.base.db = s.base.db := f1.base.db.trans tdb
  have htm2 : s2.base.topicMgr = s.base.topicMgr := f1.base.topicMgr.trans ttm
  have hcl2 : s2.base.client = some k := f1.base.client
  have hd2 : (s2.base.conn k).disc = false := by
    rw [f1.base.conn]; simp only [(takeoverMark_conn s.base k).2.2.1]; exact hfresh
  simp only [fstep, hlock, if_true] at hs2
  unfold storedSess at hst
  unfold getSess at hs2
  rw [hsm2, hdb2, hse2] at hs2
  cases hsm : s.base.sessMap with
  | some r =>
    simp only [hsm, Option.some.injEq, Prod.mk.injEq] at hst
    simp only [hsm, hse2, hst.2] at hs2
    simp at hs2; subst hs2
    have hop := (hi2.openS r (hsm2.trans hsm)).1
    refine ⟨r, ⟨?_, ?_, ?_, ?_, ?_, ?_⟩, ?_, ?_, rfl⟩ <;> simp [setConn, hcl2, hd2, hsm2, hsm, hse2, hst.1, htm2]
    rw [← hse2]; exact hop
  | none =>
    simp only [hsm] at hst
    simp only [hsm, hst] at hs2
    simp at hs2; subst hs2
    refine ⟨s2.base.nextSess, ⟨?_, ?_, ?_, ?_, ?_, ?_⟩, ?_, ?_, rfl⟩ <;> simp [setConn, hcl2, hd2, htm2]

/-- the steps of connection `k` after its locked section keep `Holds` -/
theorem reconnect_tail_fine {s3 s4 s5 s6 s7 s8 s9 s' : FSt} (hi3 : FInv s3) {k r : Nat} {F : List Nat}
    {t₂ t₃ t₄ t₅ : List FAct}
    (g3 : Holds s3.base k r F)
    (h₂ : OthersTeardownF k t₂) (h₃ : OthersTeardownF k t₃) (h₄ : OthersTeardownF k t₄) (h₅ : OthersTeardownF k t₅)
    (hr3 : runAllF s3 t₂ = some s4) (hs4 : fstep s4 (FAct.storeSess k) = some s5)
    (hr5 : runAllF s5 t₃ = some s6) (hs6 : fstep s6 (FAct.resubSnap k) = some s7)
    (hr7 : runAllF s7 t₄ = some s8) (hs8 : fstep s8 (FAct.resubIns k) = some s9)
    (hr9 : runAllF s9 t₅ = some s') :
    Holds s'.base k r F ∧ (∀ f ∈ F, f ∈ s'.base.topicMgr) ∧ (s'.base.conn k).pc = Pc.running := by
  -- t₂
  have f3 := frame_run_fine h₂ hi3 g3.client g3.live hr3
  have g4 := holds_frame g3 f3.base
  have hi4 := finv_runAllF hi3 hr3
  -- storeSess
  have hi5 := finv_step hi4 hs4
  simp only [fstep] at hs4
  split at hs4 <;> cases hs4
  have g5 : Holds (setPc s4.base k Pc.stored) k r F := by
    obtain ⟨a, b, c, d, e, f⟩ := g4
    exact ⟨a, by simpa [setPc, setConn] using b, by simpa [setPc, setConn] using c, d, e, f⟩
  -- t₃
  have f5 := frame_run_fine h₃ hi5 g5.client g5.live hr5
  have g6 := holds_frame g5 f5.base
  have hi6 := finv_runAllF hi5 hr5
  -- resubSnap
  have hi7 := finv_step hi6 hs6
  simp only [fstep] at hs6
  split at hs6 <;> cases hs6
  have g7 : Holds (setFc s6 k { s6.fc k with snap := some (s6.base.sess (s6.base.conn k).sess).topics }).base k r F := g6
  have hsnap7 : ((setFc s6 k { s6.fc k with snap := some (s6.base.sess (s6.base.conn k).sess).topics }).fc k).snap = some F := by
    simp [setFc, g6.mine, g6.topics]
  -- t₄
  have f7 := frame_run_fine h₄ hi7 g7.client g7.live hr7
  have g8 := holds_frame g7 f7.base
  have hi8 := finv_runAllF hi7 hr7
  have hsnap8 : (s8.fc k).snap = some F := by rw [f7.fc]; exact hsnap7
  -- resubIns
  have hi9 := finv_step hi8 hs8
  simp only [fstep, hsnap8] at hs8
  split at hs8 <;> cases hs8
  have g9 : Holds (setPc { s8.base with topicMgr := addAll s8.base.topicMgr F } k Pc.running) k r F := by
    obtain ⟨a, b, c, d, e, f⟩ := g8
    exact ⟨a, by simpa [setPc, setConn] using b, by simpa [setPc, setConn] using c, d, e, f⟩
  -- t₅
  have f9 := frame_run_fine h₅ hi9 g9.client g9.live hr9
  have g' := holds_frame g9 f9.base
  refine ⟨g', ?_, ?_⟩
  · intro f hf
    rw [f9.base.topicMgr]
    exact mem_addAll.mpr (Or.inr hf)
  · rw [f9.base.conn]; simp [setPc, setConn]

/-! ### the routing clause (`topics ⊆ TopicManager`) under the no-straddle hypothesis -/

/-- the step finishes a SUBSCRIBE/UNSUBSCRIBE packet of a connection that has been superseded
since the packet's TopicManager part ran -/
def straddles (s : FSt) : FAct → Bool
  | .subSess k | .unsubSess k => superseded s.base k
  | _ => false

structure FRt (s : FSt) : Prop where
  /-- every topic of the current connection's session is routed, or is being unsubscribed by it -/
  routed : ∀ k, s.base.client = some k → (s.base.conn k).disc = false → (s.fc k).wl = false →
    (s.base.conn k).pc = Pc.running →
    ∀ f ∈ (s.base.sess (s.base.conn k).sess).topics, f ∈ s.base.topicMgr ∨ (s.fc k).pend = some (false, f)
  /-- the TopicManager part of the current connection's SUBSCRIBE in flight is still there -/
  subPend : ∀ k f, s.base.client = some k → (s.base.conn k).disc = false → (s.fc k).wl = false →
    (s.fc k).pend = some (true, f) → f ∈ s.base.topicMgr
  /-- the topic snapshot of the registered connection still covers its session -/
  snapOk : ∀ k ts, s.base.client = some k → (s.fc k).snap = some ts →
    ∀ f ∈ (s.base.sess (s.base.conn k).sess).topics, f ∈ ts ∨ f ∈ s.base.topicMgr

theorem frt_init : FRt finit := by
  constructor <;> simp [finit, init]

theorem frt_unreg {s' : FSt} (hcl : s'.base.client = none) : FRt s' := by
  constructor <;> intro k <;> simp [hcl]

/-- only `k` can be registered, and `k` is not (any more / yet) a live connection in its read loop
with something in flight -/
theorem frt_only {s' : FSt} {k : Nat} (hj : ∀ j, s'.base.client = some j → j = k)
    (h1 : (s'.base.conn k).pc = Pc.running → (s'.base.conn k).disc = false → (s'.fc k).wl = false → False)
    (h2 : (s'.fc k).wl = false → (s'.fc k).pend = none) (h3 : (s'.fc k).snap = none) : FRt s' := by
  constructor
  · intro j hc hd hw hr; have := hj j hc; subst this; exact (h1 hr hd hw).elim
  · intro j f hc hd hw hp; have := hj j hc; subst this; rw [h2 hw] at hp; cases hp
  · intro j ts hc hsn; have := hj j hc; subst this; rw [h3] at hsn; cases hsn

theorem frt_frame {s s' : FSt} (h : FRt s) (hcl : s'.base.client = s.base.client)
    (hse : ∀ q, (s'.base.sess q).topics = (s.base.sess q).topics)
    (htm : ∀ f, f ∈ s.base.topicMgr → f ∈ s'.base.topicMgr)
    (hconn : ∀ k, (s'.base.conn k).sess = (s.base.conn k).sess ∧
      (((s'.base.conn k).disc = false ∧ (s'.fc k).wl = false) → ((s.base.conn k).disc = false ∧ (s.fc k).wl = false)) ∧
      ((s'.base.conn k).pc = Pc.running → (s.base.conn k).pc = Pc.running) ∧
      (s'.fc k).pend = (s.fc k).pend ∧ (s'.fc k).snap = (s.fc k).snap) : FRt s' := by
  constructor
  · intro k hc hd hw hr f hf
    obtain ⟨e, d, r, p, _⟩ := hconn k
    obtain ⟨d1, d2⟩ := d ⟨hd, hw⟩
    rw [e, hse] at hf; rw [p]
    rcases h.routed k (hcl ▸ hc) d1 d2 (r hr) f hf with h1 | h1
    · exact Or.inl (htm f h1)
    · exact Or.inr h1
  · intro k f hc hd hw hp
    obtain ⟨e, d, r, p, _⟩ := hconn k
    obtain ⟨d1, d2⟩ := d ⟨hd, hw⟩
    rw [p] at hp
    exact htm f (h.subPend k f (hcl ▸ hc) d1 d2 hp)
  · intro k ts hc hsn f hf
    obtain ⟨e, _, _, _, sn⟩ := hconn k
    rw [sn] at hsn; rw [e, hse] at hf
    rcases h.snapOk k ts (hcl ▸ hc) hsn f hf with h1 | h1
    · exact Or.inl h1
    · exact Or.inr (htm f h1)

/-- per-connection side conditions of `frt_frame` for a step that touches connection `k` only -/
macro "rt_tac" k:term : tactic => `(tactic|
  (intro j
   by_cases hj : j = $k
   · subst hj; simp_all [setPc, setConn, setFc, markDisc]
   · simp_all [setPc, setConn, setFc, markDisc, upd_other]))

theorem pend_none_of {s : FSt} (h : FInv s) {k : Nat} (hpc : (s.base.conn k).pc ≠ Pc.running) : (s.fc k).pend = none := by
  cases e : (s.fc k).pend with
  | none => rfl
  | some v => exact absurd (h.pendRun k (by simp [e])) hpc

theorem snap_none_of {s : FSt} (h : FInv s) {k : Nat} (hpc : (s.base.conn k).pc ≠ Pc.stored) : (s.fc k).snap = none := by
  cases e : (s.fc k).snap with
  | none => rfl
  | some v => exact absurd (h.snapStored k (by simp [e])) hpc

theorem frt_step {s s' : FSt} {a : FAct} (hi : FInv s) (h : FRt s) (hs : fstep s a = some s')
    (hns : straddles s a = false) : FRt s' := by
  have hl := hi.lockOk
  unfold LockOk at hl
  cases a <;> simp only [fstep] at hs
  case refuse k =>
    split at hs <;> cases hs
    exact frt_frame h rfl (fun _ => rfl) (fun _ => id) (by rt_tac k)
  case connackFail k =>
    split at hs <;> cases hs
    exact frt_frame h rfl (fun _ => rfl) (fun _ => id) (by rt_tac k)
  case storeSess k =>
    split at hs <;> cases hs
    exact frt_frame h rfl (fun _ => rfl) (fun _ => id) (by rt_tac k)
  case doStore i =>
    split at hs <;> cases hs
    exact frt_frame h rfl (fun _ => rfl) (fun _ => id) (fun _ => ⟨rfl, id, id, rfl, rfl⟩)
  case noticeEnd k =>
    split at hs <;> cases hs
    exact frt_frame h rfl (fun _ => rfl) (fun _ => id) (by rt_tac k)
  case close k =>
    split at hs <;> cases hs
    exact frt_frame h rfl (fun _ => rfl) (fun _ => id) (by rt_tac k)
  case asyncClose k =>
    split at hs <;> cases hs
    exact frt_frame h rfl (fun _ => rfl) (fun _ => id) (by rt_tac k)
  case adminDelete =>
    cases hs
    exact frt_frame h rfl (fun _ => rfl) (fun _ => id) (fun _ => ⟨rfl, id, id, rfl, rfl⟩)
  case wClose k =>
    split at hs <;> cases hs
    exact frt_frame h rfl (fun _ => rfl) (fun _ => id) (by rt_tac k)
  case lkSnap k =>
    split at hs
    · split at hs <;> cases hs
      exact frt_frame h rfl (fun _ => rfl) (fun _ => id) (fun _ => ⟨rfl, id, id, rfl, rfl⟩)
    · cases hs
  case tdSnap k =>
    split at hs
    · split at hs <;> cases hs
      exact frt_frame h rfl (fun _ => rfl) (fun _ => id) (fun _ => ⟨rfl, id, id, rfl, rfl⟩)
    · cases hs
  case lockConn k clean =>
    split at hs <;> cases hs
    rename_i hc
    have hpc : ((takeoverMark s.base).conn k).pc = Pc.new := by rw [(takeoverMark_conn s.base k).1]; exact hc.1
    refine frt_only (k := k) (fun j hj => (Option.some.inj hj).symm) ?_ ?_ ?_
    · intro hr; simp [hpc] at hr
    · intro _; exact pend_none_of hi (by simp [hc.1])
    · exact snap_none_of hi (by simp [hc.1])
  case lkGet k =>
    split at hs
    · rename_i k' clean hlk
      rw [hlk] at hl
      obtain ⟨hcl, hpc⟩ := hl
      split at hs
      · rename_i hk; subst hk
        obtain ⟨gcl, gconn, _, _, _, _⟩ := getSess_spec hi.openS
        have hp := pend_none_of hi (k := k') (by simp [hpc])
        have hsn := snap_none_of hi (k := k') (by simp [hpc])
        generalize getSess s.base = g at *
        obtain ⟨g1, g2⟩ := g
        simp only at hs gcl gconn
        cases g2 with
        | none =>
          simp only at hs; cases hs
          refine frt_only (k := k') (fun j hj => ?_) ?_ (fun _ => hp) hsn
          · simp only [newSession, gcl, hcl] at hj; exact (Option.some.inj hj).symm
          · intro hr; simp [newSession] at hr
        | some r =>
          simp only at hs
          split at hs <;> cases hs
          · refine frt_only (k := k') (fun j hj => ?_) ?_ (fun _ => hp) hsn
            · simp only [setConn, gcl, hcl] at hj; exact (Option.some.inj hj).symm
            · intro hr; simp [setConn] at hr
          · refine frt_only (k := k') (fun j hj => ?_) ?_ (fun _ => hp) hsn
            · simp only [gcl, hcl] at hj; exact (Option.some.inj hj).symm
            · intro hr; simp [gconn, hpc] at hr
      · cases hs
    · cases hs
  case lkUnsub k =>
    split at hs
    · rename_i k' clean r ts hlk
      rw [hlk] at hl
      obtain ⟨hcl, hpc, _⟩ := hl
      split at hs <;> cases hs
      rename_i hk; subst hk
      refine frt_only (k := k') (fun j hj => ?_) ?_ (fun _ => pend_none_of hi (by simp [hpc])) (snap_none_of hi (by simp [hpc]))
      · simp only [newSession, closeSess, hcl] at hj; exact (Option.some.inj hj).symm
      · intro hr; simp [newSession] at hr
    · cases hs
  case tdHead k =>
    split at hs
    · rename_i hc
      split at hs <;> cases hs
      · exact frt_frame h rfl (fun _ => rfl) (fun _ => id) (by rt_tac k)
      · rename_i hsup
        obtain ⟨tcl, tconn, _, _, _, _, _⟩ := teardownHead_spec s.base k
        refine frt_only (k := k) (fun j hj => ?_) ?_ (fun _ => pend_none_of hi (by simp [hc.1])) (snap_none_of hi (by simp [hc.1]))
        · simp only [tcl] at hj
          rcases not_superseded hsup with e | e <;> simp [e] at hj; exact hj.symm
        · intro hr; simp [tconn, hc.1] at hr
    · cases hs
  case wErrHead k =>
    split at hs
    · rename_i hc
      split at hs <;> cases hs
      · exact frt_frame h rfl (fun _ => rfl) (fun _ => id) (by rt_tac k)
      · rename_i hsup
        obtain ⟨tcl, tconn, _, _, _, _, _⟩ := teardownHead_spec s.base k
        refine frt_only (k := k) (fun j hj => ?_) ?_ ?_ ?_
        · simp only [tcl] at hj
          rcases not_superseded hsup with e | e <;> simp [e] at hj; exact hj.symm
        · intro _ _ hw; simp [setFc] at hw
        · intro hw; simp [setFc] at hw
        · simpa [setFc] using snap_none_of hi (k := k) (by simp [hc.1])
    · cases hs
  case remove k =>
    split at hs <;> cases hs
    cases hcl : s.base.client with
    | none => exact frt_unreg (by simp [setPc, setConn, hcl])
    | some o =>
      simp only []
      split
      · exact frt_unreg (by simp [setPc, setConn])
      · exact frt_frame h (by simp [setPc, setConn]) (fun _ => rfl) (fun _ => id) (by rt_tac k)
  case watchFires =>
    split at hs <;> cases hs
    exact frt_unreg (by cases hcl : s.base.client <;> simp [deleteSession, hcl, markDisc, setConn])
  case resubSnap k =>
    split at hs <;> cases hs
    constructor
    · intro j hc hd hw hr f hf
      by_cases e : j = k
      · subst e; simp only [setFc, upd_same] at hw ⊢; exact h.routed j hc hd hw hr f hf
      · simp only [setFc, upd_other _ _ e] at hw ⊢; exact h.routed j hc hd hw hr f hf
    · intro j f hc hd hw hp
      by_cases e : j = k
      · subst e; simp only [setFc, upd_same] at hw hp; exact h.subPend j f hc hd hw hp
      · simp only [setFc, upd_other _ _ e] at hw hp; exact h.subPend j f hc hd hw hp
    · intro j ts hc hsn f hf
      by_cases e : j = k
      · subst e; simp only [setFc, upd_same, Option.some.injEq] at hsn; subst hsn; exact Or.inl hf
      · simp only [setFc, upd_other _ _ e] at hsn; exact h.snapOk j ts hc hsn f hf
  case resubIns k =>
    split at hs
    · rename_i hpc
      split at hs <;> cases hs
      rename_i ts hsn
      constructor
      · intro j hc hd hw hr f hf
        by_cases e : j = k
        · subst e
          simp only [setPc, setConn, setFc, upd_same] at hf ⊢
          rcases h.snapOk j ts hc hsn f hf with h1 | h1
          · exact Or.inl (mem_addAll.mpr (Or.inr h1))
          · exact Or.inl (mem_addAll.mpr (Or.inl h1))
        · simp only [setPc, setConn, setFc, upd_other _ _ e] at hd hw hr hf ⊢
          rcases h.routed j hc hd hw hr f hf with h1 | h1
          · exact Or.inl (mem_addAll.mpr (Or.inl h1))
          · exact Or.inr h1
      · intro j f hc hd hw hp
        by_cases e : j = k
        · subst e
          simp only [setFc, upd_same] at hp
          have := hi.pendRun j (by simp [hp]); rw [hpc] at this; cases this
        · simp only [setPc, setConn, setFc, upd_other _ _ e] at hd hw hp ⊢
          exact mem_addAll.mpr (Or.inl (h.subPend j f hc hd hw hp))
      · intro j ts' hc hsn' f hf
        by_cases e : j = k
        · subst e; simp [setFc] at hsn'
        · simp only [setPc, setConn, setFc, upd_other _ _ e] at hsn' hf ⊢
          rcases h.snapOk j ts' hc hsn' f hf with h1 | h1
          · exact Or.inl h1
          · exact Or.inr (mem_addAll.mpr (Or.inl h1))
    · cases hs
  case subTM k f =>
    split at hs <;> cases hs
    rename_i hc
    obtain ⟨hcur, hpn⟩ := hc
    obtain ⟨hcl, hdisc, hrun⟩ := isCur_iff.mp hcur
    have only : ∀ j, s.base.client = some j → j = k := fun j hj => by rw [hcl] at hj; exact (Option.some.inj hj).symm
    constructor
    · intro j hc hd hw hr f' hf
      have := only j hc; subst this
      simp only [setFc, upd_same] at hw ⊢
      rcases h.routed j hc hd hw hr f' hf with h1 | h1
      · exact Or.inl (mem_addT.mpr (Or.inl h1))
      · rw [hpn] at h1; cases h1
    · intro j f' hc hd hw hp
      have := only j hc; subst this
      simp only [setFc, upd_same, Option.some.injEq, Prod.mk.injEq, true_and] at hp
      exact mem_addT.mpr (Or.inr hp.symm)
    · intro j ts hc hsn f' hf
      have := only j hc; subst this
      simp only [setFc, upd_same] at hsn
      have := hi.snapStored j (by simp [hsn]); rw [hrun] at this; cases this
  case unsubTM k f =>
    split at hs <;> cases hs
    rename_i hc
    obtain ⟨hcur, hpn⟩ := hc
    obtain ⟨hcl, hdisc, hrun⟩ := isCur_iff.mp hcur
    have only : ∀ j, s.base.client = some j → j = k := fun j hj => by rw [hcl] at hj; exact (Option.some.inj hj).symm
    constructor
    · intro j hc hd hw hr f' hf
      have := only j hc; subst this
      simp only [setFc, upd_same] at hw ⊢
      rcases h.routed j hc hd hw hr f' hf with h1 | h1
      · by_cases e : f' = f
        · subst e; exact Or.inr rfl
        · exact Or.inl (mem_delT.mpr ⟨h1, e⟩)
      · rw [hpn] at h1; cases h1
    · intro j f' hc hd hw hp
      have := only j hc; subst this
      simp [setFc] at hp
    · intro j ts hc hsn f' hf
      have := only j hc; subst this
      simp only [setFc, upd_same] at hsn
      have := hi.snapStored j (by simp [hsn]); rw [hrun] at this; cases this
  case subSess k =>
    simp only [straddles] at hns
    split at hs
    · rename_i f hpd
      cases hs
      have hrun := hi.pendRun k (by simp [hpd])
      have only : ∀ j, s.base.client = some j → j = k := by
        intro j hj
        rcases not_superseded (s := s.base) (k := k) (by rw [hns]; simp) with e | e
        · rw [e] at hj; cases hj
        · rw [e] at hj; exact (Option.some.inj hj).symm
      constructor
      · intro j hc hd hw hr f' hf
        have := only j hc; subst this
        simp only [setFc, upd_same, sessTopics] at hw hf ⊢
        left
        rcases mem_addT.mp hf with h1 | h1
        · rcases h.routed j hc hd hw hr f' h1 with h2 | h2
          · exact h2
          · rw [hpd] at h2; cases h2
        · subst h1; exact h.subPend j f' hc hd hw hpd
      · intro j f' hc hd hw hp
        have := only j hc; subst this
        simp [setFc] at hp
      · intro j ts hc hsn f' hf
        have := only j hc; subst this
        simp only [setFc, upd_same] at hsn
        have := hi.snapStored j (by simp [hsn]); rw [hrun] at this; cases this
    · cases hs
  case unsubSess k =>
    simp only [straddles] at hns
    split at hs
    · rename_i f hpd
      cases hs
      have hrun := hi.pendRun k (by simp [hpd])
      have only : ∀ j, s.base.client = some j → j = k := by
        intro j hj
        rcases not_superseded (s := s.base) (k := k) (by rw [hns]; simp) with e | e
        · rw [e] at hj; cases hj
        · rw [e] at hj; exact (Option.some.inj hj).symm
      constructor
      · intro j hc hd hw hr f' hf
        have := only j hc; subst this
        simp only [setFc, upd_same, sessTopics] at hw hf ⊢
        left
        obtain ⟨h1, hne⟩ := mem_delT.mp hf
        rcases h.routed j hc hd hw hr f' h1 with h2 | h2
        · exact h2
        · rw [hpd] at h2; simp only [Option.some.injEq, Prod.mk.injEq, true_and] at h2; exact absurd h2.symm hne
      · intro j f' hc hd hw hp
        have := only j hc; subst this
        simp [setFc] at hp
      · intro j ts hc hsn f' hf
        have := only j hc; subst this
        simp only [setFc, upd_same] at hsn
        have := hi.snapStored j (by simp [hsn]); rw [hrun] at this; cases this
    · cases hs
  case tdUnsub k =>
    split at hs
    · rename_i k' w ts hlk
      rw [hlk] at hl
      split at hs <;> cases hs
      rename_i hk; subst hk
      have only : ∀ j, s.base.client = some j → j = k' := by
        intro j hj
        rcases hl.1 with e | e <;> rw [e] at hj <;> cases hj; rfl
      cases w
      · simp only [Bool.false_eq_true, if_false] at hl ⊢
        refine frt_only (k := k') (fun j hj => only j (by simpa [setPc, setConn] using hj)) ?_
          (fun _ => pend_none_of hi (by simp [hl.2.2])) (snap_none_of hi (by simp [hl.2.2]))
        intro hr; simp [setPc, setConn] at hr
      · simp only [if_true] at hl ⊢
        have hpast := hi.wlPast k' hl.2.2
        refine frt_only (k := k') (fun j hj => only j hj) ?_ ?_ (snap_none_of hi ?_)
        · intro _ _ hw; rw [hl.2.2] at hw; cases hw
        · intro hw; rw [hl.2.2] at hw; cases hw
        · intro e; rw [e] at hpast; cases hpast
    · cases hs

/-! ### every coarse history is a fine history -/

/-- nothing in flight: the broker lock is free, no store is pending, no connection is in the
middle of a packet, of its re-subscription or of a write-loop teardown -/
def Quiet (s : FSt) : Prop := s.lock = Lk.free ∧ s.storeQ = [] ∧ ∀ k, s.fc k = fconn0

theorem upd_quiet {fc : Nat → FConn} (h : ∀ k, fc k = fconn0) (k0 : Nat) {c : FConn} (hc : c = fconn0) :
    ∀ k, upd fc k0 c k = fconn0 := by
  intro k; by_cases e : k = k0
  · subst e; simpa using hc
  · simpa [upd_other _ _ e] using h k

theorem teardownBody_eq (s : St) (k : Nat) :
    teardownBody s k = { teardownHead s k with
      topicMgr := delAll (teardownHead s k).topicMgr (s.sess (s.conn k).sess).topics } := by
  unfold teardownBody teardownHead
  cases s.sessMap <;> by_cases hcl : (s.sess (s.conn k).sess).clean = true <;> simp [hcl]

theorem coarse_refines {fs : FSt} {a : Act} {s' : St} (q : Quiet fs) (hs : step true fs.base a = some s') :
    ∃ fs', runAllF fs (expandF fs.base a) = some fs' ∧ fs'.base = s' ∧ Quiet fs' := by
  obtain ⟨ql, qs, qf⟩ := q
  cases a <;> simp only [step] at hs
  case refuse k =>
    split at hs <;> cases hs
    rename_i hc
    simp [expandF, runAllF, fstep, hc, ql, Lk.connHolder, Quiet, qs, qf]
  case connackFail k =>
    split at hs <;> cases hs
    rename_i hc
    simp [expandF, runAllF, fstep, hc, ql, Quiet, qs, qf]
  case storeSess k =>
    split at hs <;> cases hs
    rename_i hc
    simp [expandF, runAllF, fstep, hc, ql, Quiet, qs, qf, setPc, setConn, persist, encodeSess]
  case resubscribe k =>
    split at hs <;> cases hs
    rename_i hc
    simp [expandF, runAllF, fstep, hc, ql, Quiet, qs, qf, setPc, setConn, setFc, fconn0]
    intro j; by_cases e : j = k
    · subst e; simp
    · simp only [upd_other _ _ e]; simpa [fconn0] using qf j
  case subscribe k f =>
    split at hs <;> cases hs
    rename_i hc
    simp [expandF, runAllF, fstep, hc, ql, Quiet, qs, qf, setFc, fconn0, persist, encodeSess, sessTopics]
    intro j; by_cases e : j = k
    · subst e; simp
    · simp only [upd_other _ _ e]; simpa [fconn0] using qf j
  case unsubscribe k f =>
    split at hs <;> cases hs
    rename_i hc
    simp [expandF, runAllF, fstep, hc, ql, Quiet, qs, qf, setFc, fconn0, persist, encodeSess, sessTopics]
    intro j; by_cases e : j = k
    · subst e; simp
    · simp only [upd_other _ _ e]; simpa [fconn0] using qf j
  case noticeEnd k =>
    split at hs <;> cases hs
    rename_i hc
    simp [expandF, runAllF, fstep, hc, ql, Quiet, qs, qf, fconn0]
  case close k =>
    split at hs <;> cases hs
    rename_i hc
    simp [expandF, runAllF, fstep, hc, ql, Quiet, qs, qf]
  case remove k =>
    split at hs <;> cases hs
    rename_i hc
    simp [expandF, runAllF, fstep, hc, ql, Quiet, qs, qf]
  case asyncClose k =>
    split at hs <;> cases hs
    rename_i hc
    simp [expandF, runAllF, fstep, hc, ql, Quiet, qs, qf]
  case adminDelete =>
    cases hs
    simp [expandF, runAllF, fstep, ql, Quiet, qs, qf]
  case watchFires =>
    split at hs <;> cases hs
    rename_i hc
    simp [expandF, runAllF, fstep, hc, ql, Quiet, qs, qf]
  case connectLocked k clean =>
    split at hs <;> cases hs
    rename_i hc
    simp only [expandF, connectLocked, setSession]
    generalize hg : getSess { takeoverMark fs.base with client := some k } = g
    obtain ⟨g1, g2⟩ := g
    cases g2 with
    | none => simp [runAllF, fstep, hc, ql, hg, Quiet, qs, qf]
    | some r =>
      by_cases hre : (!clean && !(g1.sess r).clean) = true
      · have hre' := hre
        simp only [Bool.and_eq_true, Bool.not_eq_true'] at hre'
        simp [runAllF, fstep, hc, ql, hg, hre', Quiet, qs, qf]
      · have hre' := hre
        simp only [Bool.and_eq_true, Bool.not_eq_true'] at hre'
        simp [runAllF, fstep, hc, ql, hg, hre, hre', Quiet, qs, qf]
  case cleanup k =>
    split at hs <;> cases hs
    rename_i hc
    by_cases hsup : superseded fs.base k = true
    · simp [expandF, runAllF, fstep, hc, ql, hsup, teardown, Quiet, qs, qf]
    · obtain ⟨_, tconn, _, _, _, ttop, _⟩ := teardownHead_spec fs.base k
      simp [expandF, runAllF, fstep, hc, ql, hsup, teardown, teardownBody_eq, tconn, (ttop _).1, Quiet, qs, qf]
  case writeErr k =>
    split at hs <;> cases hs
    rename_i hc
    by_cases hsup : superseded fs.base k = true
    · simp [expandF, runAllF, fstep, hc, ql, hsup, teardown, Quiet, qs, qf, setFc, Lk.wHolder, fconn0]
      intro j; by_cases e : j = k
      · subst e; simp
      · simp only [upd_other _ _ e]; simpa [fconn0] using qf j
    · obtain ⟨_, tconn, _, _, _, ttop, _⟩ := teardownHead_spec fs.base k
      simp [expandF, runAllF, fstep, hc, ql, hsup, teardown, teardownBody_eq, tconn, (ttop _).1, Quiet, qs, qf,
        setFc, Lk.wHolder, fconn0]
      intro j; by_cases e : j = k
      · subst e; simp
      · simp only [upd_other _ _ e]; simpa [fconn0] using qf j

end EgVerif.BrokerSessions
