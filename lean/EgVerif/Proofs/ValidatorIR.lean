import EgVerif.Proofs.Validator
import EgVerif.Gen.FactsC06IR
import EgVerif.Gen.FactsC06JwtIR
import EgVerif.Gen.FactsC06HandleIR
import EgVerif.Gen.FactsC06HdrIR
import EgVerif.Gen.FactsC06OAuthIR
import EgVerif.Gen.FactsC06ReloadIR
/-!
Regenerated tie by translation for C06, validator package (`notes/IR.md`, `notes/C06.md` "Extension auth"):
`Gen.FactsC06IR` / `FactsC06JwtIR` / `FactsC06HandleIR` / `FactsC06HdrIR` (one module per Go source file) are produced on every run by the go/ast micro-translator from the current bodies of
`parseCredentials`, `parseBasicAuthorizationHeader`, `BasicAuthValidator.Validate`, `JWTValidator.Validate`
(and the key function literal it hands to `jwt.Parse`), `Validator.Handle` (and its `prepareErrorResponse`
literal) and `httpheader.Validator.Validate`; they are the hand-written definitions of `Model/Validator.lean`
on every input. A changed comparison, prefix, split, order of checks or status in the source changes the
generated definition and breaks these proofs.
-/
namespace EgVerif.Validator
open EgVerif.Sha256 (Bytes)
open EgVerif.Signer
open EgVerif.Gen.FactsC06IR EgVerif.Gen.FactsC06JwtIR EgVerif.Gen.FactsC06HandleIR EgVerif.Gen.FactsC06HdrIR
open EgVerif.Gen.FactsC06OAuthIR EgVerif.Gen.FactsC06ReloadIR

theorem parseCredentials_regenerated_from_source (creds : Bytes) : parseCredentialsIR creds = parseCreds creds := by
  unfold parseCredentialsIR parseCreds splitN2
  cases splitFirst 58 creds with
  | none => simp
  | some p => obtain ⟨a, t⟩ := p; simp

theorem hasPrefix_eq_false {s p : Bytes} (h : hasPrefix s p = false) : stripPrefix p s = none := by
  unfold hasPrefix at h
  cases hs : stripPrefix p s with
  | none => rfl
  | some t => simp [hs] at h

theorem parseBasicAuthorizationHeader_regenerated_from_source (h : Header) :
    parseBasicAuthorizationHeaderIR h = parseBasicAuthorizationHeader h := by
  unfold parseBasicAuthorizationHeaderIR parseBasicAuthorizationHeader trimPrefix
  have e : hget h (b "Authorization") = hget h authHeader := rfl
  simp only [e]
  cases hs : stripPrefix (b "Basic ") (hget h authHeader) with
  | none => simp [hasPrefix, hs]
  | some t => simp [hasPrefix, hs]

theorem b_empty : b "" = [] := rfl

theorem basicValidate_regenerated_from_source (users : Bytes → Bytes → Bool) (h : Header) :
    basicValidateIR users h = (basicValidate users h).map (fun u => [(b "X-AUTH-USER", u)]) := by
  unfold basicValidateIR basicValidate basicValidateWith optPair optTriple
  cases h1 : parseBasicAuthorizationHeader h with
  | none => simp
  | some tok =>
    cases h2 : Sha256.b64Decode tok with
    | none => simp [h2]
    | some creds =>
      cases h3 : parseCreds creds with
      | none => simp [h2, h3]
      | some up =>
        obtain ⟨u, p⟩ := up
        by_cases hm : users u p = true <;> simp [h2, h3, hm]

theorem jwtKeyFunc_regenerated_from_source (cfg : JwtCfg) (alg : Bytes) : jwtKeyFuncIR cfg alg = jwtKeyFunc cfg alg := by
  unfold jwtKeyFuncIR jwtKeyFunc
  by_cases h : alg = cfg.alg <;> simp [h]

theorem stripPrefix_drop {p s t : Bytes} (h : stripPrefix p s = some t) : s.drop p.length = t := by
  have := stripPrefix_eq_some.mp h
  subst this
  simp

/-- `JWTValidator.Validate` returns an error iff the model rejects -/
theorem jwtValidate_regenerated_from_source (cfg : JwtCfg) (lib : JwtLib) (cookie : Bytes → Option Bytes) (h : Header) :
    jwtValidateIR cfg lib cookie h = !jwtValidate cfg lib cookie h := by
  have kf : jwtKeyFuncIR cfg = jwtKeyFunc cfg := funext (jwtKeyFunc_regenerated_from_source cfg)
  have e : hget h (b "Authorization") = hget h authHeader := rfl
  unfold jwtValidateIR jwtValidate jwtToken cookieE optPair
  simp only [kf, e, b_empty]
  cases hs : stripPrefix (b "Bearer ") (hget h authHeader) with
  | none =>
    by_cases hc : cfg.cookieName = []
    · simp [hc, hasPrefix, hs]
    · cases hk : cookie cfg.cookieName with
      | none => simp [hc, hk, hasPrefix, hs]
      | some v =>
        by_cases hv : v = []
        · subst hv; simp [hc, hk, hasPrefix, hs]
        · simp [hc, hk, hv]
  | some t =>
    have hd := stripPrefix_drop hs
    by_cases hc : cfg.cookieName = []
    · simp [hc, hasPrefix, hs, hd]
    · cases hk : cookie cfg.cookieName with
      | none => simp [hc, hk, hasPrefix, hs, hd]
      | some v =>
        by_cases hv : v = []
        · subst hv; simp [hc, hk, hasPrefix, hs, hd]
        · simp [hc, hk, hv]

theorem prepareErrorResponse_regenerated_from_source (status : Int) : prepareErrorResponseIR status = some status := rfl

/-- how the model's `Outcome` shows in Go: the returned string and the status of the response that was set -/
def outcomeGo : Outcome → Bytes × Option Int
  | .pass => ([], none)
  | .invalid s => (b "invalid", some (Int.ofNat s))

theorem sigValidateStd_eq (c : Signer.Cfg) (env : Env) (r : Request) (body : Option Bytes) :
    sigValidateStd c env ⟨r.std, body⟩ = sigValidate c env r body := rfl

/-- `Validator.Handle` (buffered request; OAuth2 validator, if any, in JWT mode) is the model's `handle`: same order of the
checks (headers → JWT → signature → OAuth2 → Basic), first failure wins, 400 for the header rules and 401 otherwise, result
`"invalid"` / `""`, and `Verify` is given the payload. -/
theorem handle_regenerated_from_source (cfg : Cfg) (env : Env) (r : Request) :
    handleIR cfg env r false = outcomeGo (handle cfg env r) := by
  obtain ⟨hd, jw, sg, ba, oa⟩ := cfg
  have sv : ∀ c, sigValidateStd c env { req := r.std, body := some r.payload } = sigValidate c env r (some r.payload) :=
    fun _ => rfl
  unfold handleIR handle handleWith
  simp only [prepareErrorResponse_regenerated_from_source, b_empty, Bool.not_false]
  cases hd <;> cases jw <;> cases sg <;> cases oa <;> cases ba <;>
    simp [outcomeGo, basicValidate, sv] <;>
    (repeat' split) <;> simp_all <;> omega

/-- the first value of the header satisfies the rule -/
def firstOK (re : Bytes → Bytes → Bool) (vv : HeaderRule) : List Bytes → Bool
  | [] => false
  | v :: _ => vv.values.contains v || (match vv.regexp with | some p => re p v | none => false)

theorem ruleOK_eq_firstOK (re : Bytes → Bytes → Bool) (h : Header) (r : HeaderRule) :
    ruleOK re h r = firstOK re r (hvals h (canonKey r.key)) := by
  unfold ruleOK
  cases hvals h (canonKey r.key) <;> rfl

/-- inner loop of `httpheader.Validator.Validate` (over the values of one header): only the first value is looked at -/
theorem headerValidate_regenerated_from_source_loop2 (re : Bytes → Bytes → Bool) (h : Header) (rules : List HeaderRule)
    (vs0 : List Bytes) (key : Bytes) (vv : HeaderRule) (vs : List Bytes) :
    headerValidateIR_loop2 re h rules vs0 key vv vs =
      if vs = [] then .inr () else if firstOK re vv vs then .inl (.inr ()) else .inl (.inl true) := by
  cases vs with
  | nil => rfl
  | cons v r =>
    obtain ⟨k, vals, rx⟩ := vv
    simp only [headerValidateIR_loop2, firstOK]
    cases rx with
    | none => by_cases h1 : v ∈ vals <;> simp [h1]
    | some p => by_cases h1 : v ∈ vals <;> by_cases h2 : re p v = true <;> simp [h1, h2]

theorem headerValidate_regenerated_from_source_loop1 (re : Bytes → Bytes → Bool) (h : Header) (rules0 rules : List HeaderRule) :
    headerValidateIR_loop1 re h rules0 (rules.map fun r => (r.key, r)) =
      if rules.all (ruleOK re h) then .inr () else .inl true := by
  induction rules with
  | nil => rfl
  | cons r rs ih =>
    simp only [List.map_cons, headerValidateIR_loop1, headerValidate_regenerated_from_source_loop2, ih, List.all_cons,
      ruleOK_eq_firstOK re h r]
    by_cases hvs : hvals h (canonKey r.key) = []
    · simp [hvs, firstOK]
    · by_cases hok : firstOK re r (hvals h (canonKey r.key)) = true <;> simp [hvs, hok]

/-- `httpheader.Validator.Validate` returns an error iff some configured rule fails (`headersOK`) -/
theorem headerValidate_regenerated_from_source (re : Bytes → Bytes → Bool) (h : Header) (rules : List HeaderRule) :
    headerValidateIR re h rules = !headersOK re h rules := by
  unfold headerValidateIR headersOK
  rw [headerValidate_regenerated_from_source_loop1]
  by_cases hok : rules.all (ruleOK re h) = true <;> simp [hok]

theorem oauthKeyFunc_regenerated_from_source (cfg : JwtCfg) (alg : Bytes) : oauthKeyFuncIR cfg alg = jwtKeyFunc cfg alg := by
  unfold oauthKeyFuncIR jwtKeyFunc
  by_cases h : alg = cfg.alg <;> simp [h]

/-- `OAuth2Validator.Validate` in JWT mode (no introspection endpoint): the bearer token is parsed with the pinned algorithm and
the configured secret; on success `X-Authenticated-Userid` / `X-Authenticated-Scope` are set from the non-empty `sub` / `scope`
string claims. -/
theorem oauthValidate_regenerated_from_source (cfg : JwtCfg) (lib : JwtLib) (cs : Bytes → Bytes → Bytes) (h : Header) :
    oauthValidateIR cfg lib none cs h =
      match stripPrefix (b "Bearer ") (hget h authHeader) with
      | none => none
      | some t => if jwtParse lib t (jwtKeyFunc cfg) then some (oauthHeaders (cs t (b "sub")) (cs t (b "scope"))) else none := by
  have kf : oauthKeyFuncIR cfg = jwtKeyFunc cfg := funext (oauthKeyFunc_regenerated_from_source cfg)
  have e : hget h (b "Authorization") = hget h authHeader := rfl
  unfold oauthValidateIR oauthHeaders
  simp only [kf, e, b_empty]
  cases hs : stripPrefix (b "Bearer ") (hget h authHeader) with
  | none => simp [hasPrefix, hs]
  | some t =>
    have hd := stripPrefix_drop hs
    by_cases hp : jwtParse lib t (jwtKeyFunc cfg) = true
    · by_cases h1 : cs t (b "sub") = [] <;> by_cases h2 : cs t (b "scope") = [] <;> simp [hasPrefix, hs, hd, hp, h1, h2]
    · simp [hasPrefix, hs, hd, hp]

/-- … it accepts exactly when the model's `oauthValidate` does -/
theorem oauthValidate_accepts_iff (cfg : JwtCfg) (lib : JwtLib) (cs : Bytes → Bytes → Bytes) (h : Header) :
    (oauthValidateIR cfg lib none cs h).isSome = oauthValidate cfg lib h := by
  rw [oauthValidate_regenerated_from_source]
  unfold oauthValidate jwtValidate jwtToken
  have kf : jwtKeyFunc ⟨cfg.alg, cfg.secret, []⟩ = jwtKeyFunc cfg := rfl
  simp only [kf, ne_eq, not_true_eq_false, if_false]
  cases stripPrefix (b "Bearer ") (hget h authHeader) with
  | none => rfl
  | some t => by_cases hp : jwtParse lib t (jwtKeyFunc cfg) = true <;> simp [hp]

/-- `Validator.reload`: exactly the configured components are constructed, each by its constructor (fresh) -/
theorem validatorReload_regenerated_from_source (hd jw sg oa ba : Bool) : validatorReloadIR hd jw sg oa ba = (hd, jw, sg, oa, ba) := by
  cases hd <;> cases jw <;> cases sg <;> cases oa <;> cases ba <;> rfl

/-- `Init` and `Inherit` both just call `reload()`; `Inherit` does not mention the previous generation -/
theorem validatorInherit_regenerated_from_source : validatorInitIR () = true ∧ validatorInheritIR () = true := ⟨rfl, rfl⟩

end EgVerif.Validator
