import EgVerif.Model.URLRule
import EgVerif.Gen.FactsC09IRu
import Mathlib.Tactic.SplitIfs
/-!
Regenerated tie by translation for `pkg/util/urlrule/urlrule.go` (Extension resil, round 3): the `…IR`
definitions of `Gen.FactsC09IRu` (re-translated from the source on every run) equal `Model/URLRule.lean`.
-/
namespace EgVerif.URLRule
open EgVerif.Gen.FactsC09IRu

theorem smValid_regenerated_from_source (sm : StringMatch) : smValidIR sm = sm.valid := by
  unfold smValidIR StringMatch.valid
  by_cases h1 : sm.exact = "" <;> by_cases h2 : sm.pfx = "" <;> by_cases h3 : sm.regex = "" <;>
    cases sm.empty <;> simp [h1, h2, h3]

theorem smMatch_regenerated_from_source (re : String → String → Bool) (sm : StringMatch) (value : String) :
    smMatchIR re sm value = sm.matches re value := rfl

theorem ruleMatch_regenerated_from_source (re : String → String → Bool) (r : Rule) (method path : String) :
    ruleMatchIR re r method path = r.matches re method path := by
  unfold ruleMatchIR Rule.matches
  by_cases h : r.methods.length > 0
  · have h' : (r.methods.length : Int) > 0 := by omega
    cases hc : r.methods.contains method <;> simp [h, h', hc]
  · have h' : ¬ (r.methods.length : Int) > 0 := by omega
    simp [h, h']

theorem ruleInit_regenerated_from_source (r : Rule) :
    ruleInitIR r = (r.init.1, r.init.2 || r.url.compiled) := by
  unfold ruleInitIR Rule.init
  by_cases h1 : r.url.exact = "" <;> by_cases h2 : r.url.pfx = "" <;> by_cases h3 : r.url.regex = "" <;>
    simp [h1, h2, h3]

theorem deepEqual_regenerated_from_source_loop (r r1 : Rule) (hl : r.methods.length = r1.methods.length) :
    ∀ (fuel i : Nat), i + fuel = r.methods.length →
      deepEqualIR_loop1 r r1 (i : Int) fuel =
        if r.methods.drop i = r1.methods.drop i then .inr () else .inl false := by
  intro fuel
  induction fuel with
  | zero =>
    intro i hi
    have h1 : r.methods.drop i = [] := List.drop_eq_nil_of_le (by omega)
    have h2 : r1.methods.drop i = [] := List.drop_eq_nil_of_le (by omega)
    simp [deepEqualIR_loop1, h1, h2]
  | succ n ih =>
    intro i hi
    have hlt : i < r.methods.length := by omega
    have hlt1 : i < r1.methods.length := by omega
    have d1 : r.methods.drop i = r.methods[i] :: r.methods.drop (i + 1) := (List.drop_eq_getElem_cons hlt)
    have d2 : r1.methods.drop i = r1.methods[i] :: r1.methods.drop (i + 1) := (List.drop_eq_getElem_cons hlt1)
    have g1 : r.methods.getD i "" = r.methods[i] := by simp [List.getD, hlt]
    have g2 : r1.methods.getD i "" = r1.methods[i] := by simp [List.getD, hlt1]
    unfold deepEqualIR_loop1
    simp only [Int.toNat_natCast, g1, g2, d1, d2, List.cons.injEq]
    have := ih (i + 1) (by omega)
    rw [show ((i : Int) + 1) = ((i + 1 : Nat) : Int) by omega, this]
    by_cases he : r.methods[i] = r1.methods[i]
    · simp [he]
    · simp [he]

theorem deepEqual_regenerated_from_source (r r1 : Rule) : deepEqualIR r r1 = r.deepEqual r1 := by
  unfold deepEqualIR Rule.deepEqual
  by_cases hl : r.methods.length = r1.methods.length
  · have := deepEqual_regenerated_from_source_loop r r1 hl r.methods.length 0 (by omega)
    simp only [Int.sub_zero, Int.toNat_natCast, List.drop_zero] at this ⊢
    rw [show ((0 : Nat) : Int) = 0 from rfl] at this
    rw [this]
    by_cases hm : r.methods = r1.methods
    · simp [hm, hl]
      by_cases a : r.url.exact = r1.url.exact <;> by_cases b : r.url.pfx = r1.url.pfx <;>
        by_cases c : r.url.regex = r1.url.regex <;> simp [a, b, c]
    · simp [hm, hl]
  · have hm : r.methods ≠ r1.methods := fun h => hl (by rw [h])
    have hl' : ¬ ((r.methods.length : Int) = (r1.methods.length : Int)) := by omega
    simp [hm, hl']

/-- an initialised rule matches exactly when its declarative reading does -/
theorem matches_eq_spec (re : String → String → Bool) (r : Rule) (method path : String) :
    r.inited.matches re method path = r.spec re method path := by
  unfold Rule.matches Rule.spec Rule.inited Rule.init StringMatch.matches
  generalize path.startsWith r.url.pfx = sp
  generalize re r.url.regex path = rr
  by_cases h1 : r.url.exact = "" <;> by_cases h2 : r.url.pfx = "" <;> by_cases h3 : r.url.regex = "" <;>
    by_cases h4 : path = r.url.exact <;> by_cases h5 : path = "" <;>
    cases r.url.empty <;> cases sp <;> cases rr <;> cases hm : r.methods <;>
    simp_all

end EgVerif.URLRule
