import EgVerif.Model.Mux
import EgVerif.Gen.FactsC01IR
/-!
Regenerated tie by translation for C01 (`notes/IR.md`): the `…IR` definitions of `Gen.FactsC01IR` are
produced on every run by the go/ast micro-translator (`harness/factextract/irlib.go`) from the current
bodies of `muxRule.match`, `MuxPath.matchPath / matchMethod / matchHeaders / rewrite`; each is proved
equal to the hand-written function of `Model/Mux.lean` for all inputs and oracles. A changed
comparison, branch order, constant or loop exit in the source changes the generated definition and
breaks the corresponding proof.
-/
namespace EgVerif.Mux
open EgVerif.Gen.FactsC01IR

/-- `muxRule.match`; the model's `hostNoPort` is the host after `net.SplitHostPort` (raw on error). -/
theorem match_regenerated_from_source (o : Oracle) (sp : String → Option String) (r : Rule) (q : Req)
    (h : q.hostNoPort = (sp q.host).getD q.host) : ruleMatchIR o sp r q = ruleMatch o r q := by
  obtain ⟨host, hostRE, ipf, paths⟩ := r
  rcases hs : sp q.host with _ | x <;> cases hostRE <;>
    simp [ruleMatchIR, ruleMatch, splitHostPort, h, hs, reMatch]

theorem matchPath_regenerated_from_source (o : Oracle) (e : PathEntry) (q : Req) :
    matchPathIR o e q = matchPath o e q := by
  unfold matchPathIR matchPath
  cases e.pathRE <;> simp [reMatch]

theorem matchMethod_regenerated_from_source (o : Oracle) (e : PathEntry) (q : Req) :
    matchMethodIR o e q = matchMethod e q := by
  unfold matchMethodIR matchMethod
  cases e.methods <;> simp

/-- shape of a generated early-exit loop step over `Bool` conditions -/
private theorem step_all (c1 c2 b : Bool) :
    (if c1 = true then (Sum.inl false : Sum Bool Unit) else if c2 = true then .inl false
      else if b = true then .inr () else .inl false) =
    if (!c1 && !c2 && b) = true then .inr () else .inl false := by
  cases c1 <;> cases c2 <;> cases b <;> rfl

private theorem step_any (c1 c2 b : Bool) :
    (if c1 = true then (Sum.inl true : Sum Bool Unit) else if c2 = true then .inl true
      else if b = true then .inl true else .inr ()) =
    if (c1 || c2 || b) = true then .inl true else .inr () := by
  cases c1 <;> cases c2 <;> cases b <;> rfl

theorem matchHeaders_regenerated_from_source_loop1 (o : Oracle) (e : PathEntry) (q : Req)
    (hs : List HeaderCond) :
    matchHeadersIR_loop1 o e q hs = if hs.all (fun h => condAll o h q) then .inr () else .inl false := by
  induction hs with
  | nil => rfl
  | cons h r ih =>
    have hc : condAll o h q = (!(decide (h.values.length > 0) && !h.values.contains (q.get h.key)) &&
        !(h.re.isSome && !reMatch o h.re (q.get h.key))) := by
      obtain ⟨k, vals, re⟩ := h
      cases re <;> cases vals <;> simp [condAll, reMatch]
    simp only [matchHeadersIR_loop1, ih, List.all_cons, step_all, hc]

theorem matchHeaders_regenerated_from_source_loop2 (o : Oracle) (e : PathEntry) (q : Req)
    (hs : List HeaderCond) :
    matchHeadersIR_loop2 o e q hs = if hs.any (fun h => condAny o h q) then .inl true else .inr () := by
  induction hs with
  | nil => rfl
  | cons h r ih =>
    have hc : condAny o h q = (h.values.contains (q.get h.key) ||
        (h.re.isSome && reMatch o h.re (q.get h.key))) := by
      obtain ⟨k, vals, re⟩ := h
      cases re <;> simp [condAny, reMatch]
    simp only [matchHeadersIR_loop2, ih, List.any_cons, step_any, hc]

theorem matchHeaders_regenerated_from_source (o : Oracle) (e : PathEntry) (q : Req) :
    matchHeadersIR o e q = matchHeaders o e q := by
  simp only [matchHeadersIR, matchHeaders, matchHeaders_regenerated_from_source_loop1,
    matchHeaders_regenerated_from_source_loop2]
  cases hm : e.matchAll
  · cases e.headers.any (fun h => condAny o h q) <;> simp
  · cases e.headers.all (fun h => condAll o h q) <;> simp

/-- `MuxPath.rewrite`: the path after the call; `none` = nil dereference of `mp.pathRE`. -/
theorem rewrite_regenerated_from_source (σ : Nat → String → String → String) (e : PathEntry) (q : Req) :
    rewriteIR σ e q = rewrite σ e q.path := by
  unfold rewriteIR rewrite
  cases e.pathRE <;> simp

end EgVerif.Mux
