import Mathlib.Tactic.Linarith
/-! Generic ring-buffer lemmas (used by the C08 window refinements): a ring is a list `b` with a
"first" index `i`; its rotation `rot b i` lists the slots oldest first. -/
namespace EgVerif.Ring

variable {α : Type}

/-- the slots in logical order, starting from slot `i` -/
def rot (b : List α) (i : Nat) : List α := b.drop i ++ b.take i

theorem rot_length (b : List α) (i : Nat) (hi : i ≤ b.length) : (rot b i).length = b.length := by
  simp [rot]; omega

/-- the slot at the first index is the head of the rotation -/
theorem rot_eq_cons (b : List α) (i : Nat) (d : α) (hi : i < b.length) :
    rot b i = b.getD i d :: (b.drop (i + 1) ++ b.take i) := by
  unfold rot
  rw [List.drop_eq_getElem_cons hi, List.getD_eq_getElem?_getD, List.getElem?_eq_getElem hi]
  rfl

/-- overwriting the first slot and advancing the index (with wrap-around) drops the head of the
rotation and appends the new value at the end -/
theorem rot_set_advance (b : List α) (i : Nat) (x : α) (hi : i < b.length) :
    rot (b.set i x) (if i + 1 ≥ b.length then 0 else i + 1) = (b.drop (i + 1) ++ b.take i) ++ [x] := by
  have hset : b.set i x = b.take i ++ x :: b.drop (i + 1) := by
    rw [List.set_eq_take_append_cons_drop]; simp [hi]
  by_cases h : i + 1 ≥ b.length
  · have hd : b.drop (i + 1) = [] := List.drop_eq_nil_of_le h
    simp only [h, if_true, rot, List.drop_zero, List.take_zero, List.append_nil, hset, hd, List.nil_append]
  · simp only [h, if_false, rot]
    have hlen : (b.take i).length = i := by simp; omega
    have h1 : (b.set i x).drop (i + 1) = b.drop (i + 1) := by
      rw [hset]
      have : i + 1 = (b.take i ++ [x]).length := by simp [hlen]
      rw [show b.take i ++ x :: b.drop (i + 1) = (b.take i ++ [x]) ++ b.drop (i + 1) by simp]
      rw [this, List.drop_left']
      rfl
    have h2 : (b.set i x).take (i + 1) = b.take i ++ [x] := by
      rw [hset]
      have : i + 1 = (b.take i ++ [x]).length := by simp [hlen]
      rw [show b.take i ++ x :: b.drop (i + 1) = (b.take i ++ [x]) ++ b.drop (i + 1) by simp]
      rw [this, List.take_left']
      rfl
    rw [h1, h2, List.append_assoc]

theorem mod_succ_eq (i n : Nat) (hi : i < n) : (i + 1) % n = if i + 1 ≥ n then 0 else i + 1 := by
  by_cases h : i + 1 ≥ n
  · have : i + 1 = n := by omega
    simp [this]
  · simp only [h, if_false]; exact Nat.mod_eq_of_lt (by omega)

/-- physical index of logical position `k` -/
theorem add_mod_cases (f k n : Nat) (hf : f < n) (hk : k < n) :
    (f + k < n ∧ (f + k) % n = f + k) ∨ (n ≤ f + k ∧ (f + k) % n = f + k - n) := by
  by_cases h : f + k < n
  · exact Or.inl ⟨h, Nat.mod_eq_of_lt h⟩
  · refine Or.inr ⟨by omega, ?_⟩
    rw [Nat.mod_eq_sub_mod (by omega)]
    exact Nat.mod_eq_of_lt (by omega)

/-- reading the ring at logical position `k` -/
theorem rot_getD (b : List α) (f k : Nat) (d : α) (hf : f < b.length) (hk : k < b.length) :
    (rot b f).getD k d = b.getD ((f + k) % b.length) d := by
  unfold rot
  have hlen : (b.drop f).length = b.length - f := by simp
  rcases add_mod_cases f k b.length hf hk with ⟨h, e⟩ | ⟨h, e⟩
  · rw [e, List.getD_eq_getElem?_getD, List.getD_eq_getElem?_getD,
      List.getElem?_append_left (by omega), List.getElem?_drop]
  · rw [e, List.getD_eq_getElem?_getD, List.getD_eq_getElem?_getD,
      List.getElem?_append_right (by omega), hlen, List.getElem?_take]
    have h1 : k - (b.length - f) = f + k - b.length := by omega
    have h2 : f + k - b.length < f := by omega
    rw [h1]; simp [h2]

/-- writing the ring at logical position `k` -/
theorem rot_set (b : List α) (f k : Nat) (x : α) (hf : f < b.length) (hk : k < b.length) :
    rot (b.set ((f + k) % b.length) x) f = (rot b f).set k x := by
  unfold rot
  have hlen : (b.drop f).length = b.length - f := by simp
  rcases add_mod_cases f k b.length hf hk with ⟨h, e⟩ | ⟨h, e⟩
  · rw [e, List.drop_set, List.take_set]
    have h1 : ¬ f + k < f := by omega
    have h2 : f + k - f = k := by omega
    have h3 : (b.take f).set (f + k) x = b.take f := List.set_eq_of_length_le (by simp)
    simp only [h1, if_false, h2, h3]
    rw [List.set_append_left _ _ (by omega)]
  · rw [e, List.drop_set, List.take_set, List.set_append_right _ _ (by omega)]
    have h1 : f + k - b.length < f := by omega
    have h2 : k - (b.drop f).length = f + k - b.length := by rw [hlen]; omega
    simp only [h1, if_true, h2]

end EgVerif.Ring
