import EgVerif.Model.RateLimiterFilter
import EgVerif.Gen.FactsC09IRr
/-!
Regenerated tie by translation for the RateLimiter filter's `reload` (Extension resil, round 3): the nested
loops with the labelled `continue OuterLoop`, the hand-over `url.rl = prev.rl` and the two nil-dereference
sites, re-translated from the source on every run, equal `Model/RateLimiterFilter.reload`.
-/
namespace EgVerif.RateLimiterFilter
open EgVerif.RateLimiter EgVerif.Gen.FactsC09IRr

theorem createFor_none {s : Spec} {u : URLRule} (st : ReloadSt) (h : bindPolicy s u = none) :
    createFor s u st = { st with panicked := true } := by
  simp [createFor, h]

theorem createFor_some {s : Spec} {u : URLRule} (st : ReloadSt) {p : Pol} (h : bindPolicy s u = some p) :
    createFor s u st = { st with rls := st.rls ++ [some st.next],
                                 heap := st.heap ++ [(st.next, { policy := limiterPolicy p, state := init })],
                                 next := st.next + 1 } := by
  simp [createFor, h]

theorem reloadLoop_panicked (s ps : Spec) (prls : List (Option Nat)) (us : List URLRule) (st : ReloadSt)
    (h : st.panicked = true) : reloadLoop s ps prls us st = st := by
  cases us <;> simp [reloadLoop, h]

theorem foldl_panicked (s : Spec) (us : List URLRule) (st : ReloadSt) (h : st.panicked = true) :
    us.foldl (fun st u => if st.panicked then st else createFor s u st) st = st := by
  induction us with
  | nil => rfl
  | cons u t ih => simp [List.foldl_cons, h, ih]

/-- the `Init` loop -/
theorem reload_regenerated_from_source_loop1 (s : Spec) (pgen : Option Gen) (h0 : Heap) (n0 : Nat) (cur : Option Nat) :
    ∀ (us : List URLRule) (rls : List (Option Nat)) (heap : Heap) (next : Nat),
      (match reloadIR_loop1 s pgen h0 n0 rls heap next false cur us with
        | .inl r => r
        | .inr (a, b, c) => ⟨a, b, c, false⟩) =
        us.foldl (fun st u => if st.panicked then st else createFor s u st) ⟨rls, heap, next, false⟩ := by
  intro us
  induction us with
  | nil => intro rls heap next; simp [reloadIR_loop1]
  | cons u t ih =>
    intro rls heap next
    simp only [reloadIR_loop1, List.foldl_cons, Bool.false_eq_true, if_false]
    cases hb : bindPolicy s u with
    | none =>
      rw [createFor_none _ hb]
      simp [foldl_panicked]
    | some p =>
      rw [createFor_some _ hb]
      simp only [Option.isSome_some, if_true]
      exact ih _ _ _

/-- the inner loop: `claim` -/
theorem reload_regenerated_from_source_loop3 (s : Spec) (g : Gen) (h0 : Heap) (n0 : Nat)
    (rls : List (Option Nat)) (heap : Heap) (next : Nat) (url : URLRule) :
    ∀ (pus : List URLRule) (pls : List (Option Nat)) (cur : Option Nat),
      reloadIR_loop3 s (some g) h0 n0 rls heap next false cur url (pus.zip pls) =
        match claim s g.spec url pus pls with
        | none => .inr (rls, cur)
        | some (some id) => .inl (.inr (rls ++ [some id], some id))
        | some none => .inl (.inl ⟨rls, heap, next, true⟩) := by
  intro pus
  induction pus with
  | nil => intro pls cur; simp [reloadIR_loop3, claim]
  | cons pu t ih =>
    intro pls cur
    cases pls with
    | nil => simp [reloadIR_loop3, claim]
    | cons pl tl =>
      simp only [List.zip_cons_cons, reloadIR_loop3, claim, Option.getD_some]
      by_cases he : url = pu
      · subst he
        by_cases hp : isSamePolicy s g.spec url.policyRef = true
        · cases pl <;> simp [hp]
        · simp only [Bool.not_eq_true] at hp
          simp [hp, ih]
      · have : (url == pu) = false := by simpa using he
        simp [this, he, ih]

/-- result of the outer loop's `Sum` -/
def finR : Sum ReloadSt (List (Option Nat) × Heap × Nat × Option Nat) → ReloadSt
  | .inl r => r
  | .inr (a, b, c, _) => ⟨a, b, c, false⟩

/-- the outer loop: `reloadLoop` -/
theorem reload_regenerated_from_source_loop2 (s : Spec) (g : Gen) (h0 : Heap) (n0 : Nat) :
    ∀ (us : List URLRule) (rls : List (Option Nat)) (heap : Heap) (next : Nat) (cur : Option Nat),
      finR (reloadIR_loop2 s (some g) h0 n0 rls heap next false cur us) =
        reloadLoop s g.spec g.rls us ⟨rls, heap, next, false⟩ := by
  intro us
  induction us with
  | nil => intro rls heap next cur; simp [reloadIR_loop2, reloadLoop, finR]
  | cons u t ih =>
    intro rls heap next cur
    simp only [reloadIR_loop2, reloadLoop, Option.getD_some, Bool.false_eq_true, if_false,
      reload_regenerated_from_source_loop3]
    cases hc : claim s g.spec u g.spec.urls g.rls with
    | none =>
      simp only
      cases hb : bindPolicy s u with
      | none =>
        rw [createFor_none _ hb]
        simp [finR, reloadLoop_panicked]
      | some p =>
        rw [createFor_some _ hb]
        simp only [Option.isSome_some, if_true]
        exact ih _ _ _ _
    | some o =>
      cases o with
      | none => simp [finR]
      | some id => simp only; exact ih _ _ _ _

/-- **The filter's `reload`, regenerated from the source, is the model's `reload`**: `Init` creates a fresh
limiter per rule; `Inherit` gives every new rule the limiter object of the *first* previous rule that is
`DeepEqual` with an unchanged policy (the previous generation keeps its pointer), a fresh limiter otherwise. -/
theorem reload_regenerated_from_source (s : Spec) (prev : Option Gen) (heap : Heap) (next : Nat) :
    reloadIR s prev heap next = reload s prev heap next := by
  cases prev with
  | none =>
    have := reload_regenerated_from_source_loop1 s none heap next none s.urls [] heap next
    simp only [reloadIR, reload, Option.isNone_none, if_true]
    generalize reloadIR_loop1 s none heap next [] heap next false none s.urls = L at this ⊢
    cases L with
    | inl r => simpa using this
    | inr t => obtain ⟨a, b, c⟩ := t; simpa using this
  | some g =>
    have := reload_regenerated_from_source_loop2 s g heap next s.urls [] heap next none
    simp only [reloadIR, reload, Option.isNone_some, Bool.false_eq_true, if_false]
    generalize reloadIR_loop2 s (some g) heap next [] heap next false none s.urls = L at this ⊢
    cases L with
    | inl r => simpa [finR] using this
    | inr t => obtain ⟨a, b, c, d⟩ := t; simpa [finR] using this

/-! ### `isSamePolicy`, `bindPolicyToURL` -/

theorem isSamePolicy_regenerated_from_source_loops (s1 s2 : Spec) (n : String) (p1 p2 : Option Pol) (l : List Pol) :
    isSamePolicyIR_loop1 s1 s2 n p1 p2 l = .inr ((l.find? (fun p => p.name == n)).or p1) ∧
    isSamePolicyIR_loop2 s1 s2 n p1 p2 l = .inr ((l.find? (fun p => p.name == n)).or p2) ∧
    isSamePolicyIR_loop3 s1 s2 n p1 p2 l = .inr ((l.find? (fun p => p.name == n)).or p1) ∧
    isSamePolicyIR_loop4 s1 s2 n p1 p2 l = .inr ((l.find? (fun p => p.name == n)).or p2) := by
  induction l with
  | nil => simp [isSamePolicyIR_loop1, isSamePolicyIR_loop2, isSamePolicyIR_loop3, isSamePolicyIR_loop4]
  | cons a t ih =>
    obtain ⟨i1, i2, i3, i4⟩ := ih
    simp only [isSamePolicyIR_loop1, isSamePolicyIR_loop2, isSamePolicyIR_loop3, isSamePolicyIR_loop4,
      List.find?_cons, i1, i2, i3, i4]
    cases h : a.name == n <;> simp

/-- **`isSamePolicy`, regenerated from the source**: with an empty policy name both specs must name the
same default policy, which is then the one compared; the first policy of that name in each spec (or none)
must have equal configured fields. -/
theorem isSamePolicy_regenerated_from_source (s1 s2 : Spec) (n : String) :
    isSamePolicyIR s1 s2 n = isSamePolicy s1 s2 n := by
  unfold isSamePolicyIR isSamePolicy findPolicy
  by_cases hn : n = ""
  · by_cases hd : s1.defaultRef = s2.defaultRef
    · simp [hn, hd, (isSamePolicy_regenerated_from_source_loops _ _ _ _ _ _).1,
        (isSamePolicy_regenerated_from_source_loops _ _ _ _ _ _).2.1]
    · simp [hn, hd]
  · simp [hn, (isSamePolicy_regenerated_from_source_loops _ _ _ _ _ _).2.2.1,
      (isSamePolicy_regenerated_from_source_loops _ _ _ _ _ _).2.2.2]

theorem bindPolicy_regenerated_from_source_loop (s : Spec) (u : URLRule) (cur : Option Pol) (n : String) (l : List Pol) :
    bindPolicyIR_loop1 s u cur n l = .inr ((l.find? (fun p => p.name == n)).or cur) := by
  induction l with
  | nil => simp [bindPolicyIR_loop1]
  | cons a t ih =>
    simp only [bindPolicyIR_loop1, List.find?_cons, ih]
    cases h : a.name == n <;> simp

/-- **`bindPolicyToURL`, regenerated from the source**: the rule's own `policyRef`, else the default one;
the first policy of that name. -/
theorem bindPolicy_regenerated_from_source (s : Spec) (u : URLRule) : bindPolicyIR s u = bindPolicy s u := by
  unfold bindPolicyIR bindPolicy findPolicy
  by_cases h : u.policyRef = "" <;> simp [h, bindPolicy_regenerated_from_source_loop]

end EgVerif.RateLimiterFilter
