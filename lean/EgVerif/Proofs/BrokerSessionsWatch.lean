import EgVerif.Proofs.BrokerSessionsFine
/-!
# Helper lemmas for the origin of delete events (C16, extension mqtt round 2)

`OSt` / `ostep` (end of `Model/BrokerSessions.lean`) wrap the coarse model with the ghost queue of
event origins and the repaired broker's counter of own deletes. This file proves, for every history:

* connection records only move forward (`step_connMono`), hence "not alive any more" is stable;
* `OInv`: the ghost queue has the length of `watch`; the counter never exceeds the number of queued
  teardown-origin events; the connection of a queued teardown-origin event has ended; the victim of
  a queued admin-origin event that has a teardown-origin event queued BEHIND it is no longer alive.
-/
namespace EgVerif.BrokerSessions

/-- connection `v` is the registered one, not disconnected, and between registration and the end
of its read loop -/
def alive (s : St) (v : Nat) : Prop :=
  s.client = some v ∧ (s.conn v).disc = false ∧ (s.conn v).pc.active = true

/-- connection `v` has ended: it got past its read loop (or was never let in), or is disconnected -/
def ended (s : St) (v : Nat) : Prop :=
  (s.conn v).pc ≠ Pc.new ∧ ((s.conn v).disc = true ∨ (s.conn v).pc.active = false)

theorem not_alive_of_ended {s : St} {v : Nat} (h : ended s v) : ¬ alive s v := by
  rintro ⟨_, hd, ha⟩
  rcases h.2 with h | h
  · simp [hd] at h
  · simp [ha] at h

/-- a connection record only moves forward -/
structure ConnMono (c c' : Conn) : Prop where
  started : c.pc ≠ Pc.new → c'.pc ≠ Pc.new
  disc : c.disc = true → c'.disc = true
  inactive : c.pc ≠ Pc.new → c.pc.active = false → c'.pc.active = false

theorem ConnMono.refl (c : Conn) : ConnMono c c := ⟨id, id, fun _ h => h⟩

theorem teardown_conn (s : St) (k : Nat) : (teardown true s k).conn = s.conn := by
  unfold teardown teardownBody
  split
  · rfl
  · cases s.sessMap <;> by_cases hcl : (s.sess (s.conn k).sess).clean = true <;> simp [hcl, closeSess]

theorem teardown_client (s : St) (k : Nat) : (teardown true s k).client = s.client := by
  unfold teardown teardownBody
  split
  · rfl
  · cases s.sessMap <;> by_cases hcl : (s.sess (s.conn k).sess).clean = true <;> simp [hcl, closeSess]

theorem setSession_client (s : St) (k : Nat) (clean : Bool) : (setSession true s k clean).client = s.client := by
  unfold setSession getSess
  cases hsm : s.sessMap with
  | some r => simp only; split <;> simp [setConn, newSession, closeSess]
  | none =>
    cases hdb : s.db with
    | none => simp [newSession]
    | some p => obtain ⟨ts, cl⟩ := p; simp only; split <;> simp [setConn, newSession, closeSess]

theorem setSession_conn_other (s : St) (k : Nat) (clean : Bool) {v : Nat} (hv : v ≠ k) :
    (setSession true s k clean).conn v = s.conn v := by
  unfold setSession getSess
  cases hsm : s.sessMap with
  | some r => simp only; split <;> simp [setConn, newSession, closeSess, hv]
  | none =>
    cases hdb : s.db with
    | none => simp [newSession, hv]
    | some p => obtain ⟨ts, cl⟩ := p; simp only; split <;> simp [setConn, newSession, closeSess, hv]

theorem setSession_conn_self (s : St) (k : Nat) (clean : Bool) :
    ((setSession true s k clean).conn k).pc = Pc.registered ∧
    ((setSession true s k clean).conn k).disc = (s.conn k).disc := by
  unfold setSession getSess
  cases hsm : s.sessMap with
  | some r => simp only; split <;> simp [setConn, newSession, closeSess]
  | none =>
    cases hdb : s.db with
    | none => simp [newSession]
    | some p => obtain ⟨ts, cl⟩ := p; simp only; split <;> simp [setConn, newSession, closeSess]

theorem connectLocked_client (s : St) (k : Nat) (clean : Bool) : (connectLocked true s k clean).client = some k := by
  unfold connectLocked; rw [setSession_client]

theorem connectLocked_conn_other (s : St) (k : Nat) (clean : Bool) {v : Nat} (hv : v ≠ k) :
    ((connectLocked true s k clean).conn v).pc = (s.conn v).pc ∧
    ((connectLocked true s k clean).conn v).disc = (s.conn v).disc := by
  unfold connectLocked; rw [setSession_conn_other _ _ _ hv]
  exact ⟨(takeoverMark_conn s v).1, (takeoverMark_conn s v).2.2.1⟩

theorem connectLocked_conn_self (s : St) (k : Nat) (clean : Bool) :
    ((connectLocked true s k clean).conn k).pc = Pc.registered ∧
    ((connectLocked true s k clean).conn k).disc = (s.conn k).disc := by
  unfold connectLocked
  obtain ⟨h1, h2⟩ := setSession_conn_self { takeoverMark s with client := some k } k clean
  exact ⟨h1, h2.trans (takeoverMark_conn s k).2.2.1⟩

/-- every atomic step moves every connection record only forward -/
theorem step_connMono {s s' : St} {a : Act} (hs : step true s a = some s') (v : Nat) :
    ConnMono (s.conn v) (s'.conn v) := by
  cases a <;> simp only [step] at hs
  case connectLocked k clean =>
    split at hs <;> cases hs
    rename_i hpc
    by_cases hv : v = k
    · subst hv
      obtain ⟨h1, h2⟩ := connectLocked_conn_self s v clean
      exact ⟨fun h => absurd hpc h, fun h => by rw [h2]; exact h, fun h => absurd hpc h⟩
    · obtain ⟨h1, h2⟩ := connectLocked_conn_other s k clean hv
      exact ⟨by rw [h1]; exact id, by rw [h2]; exact id, by rw [h1]; exact fun _ h => h⟩
  case refuse k =>
    split at hs <;> cases hs
    by_cases hv : v = k
    · subst hv; constructor <;> simp [setPc, setConn, Pc.active]
    · simp only [setPc, setConn, upd_other _ _ hv]; exact ConnMono.refl _
  case connackFail k =>
    split at hs <;> cases hs
    by_cases hv : v = k
    · subst hv; constructor <;> simp [setPc, setConn, Pc.active]
    · simp only [setPc, setConn, upd_other _ _ hv]; exact ConnMono.refl _
  case storeSess k =>
    split at hs <;> cases hs
    rename_i hpc
    by_cases hv : v = k
    · subst hv; constructor <;> simp [setPc, setConn, persist, Pc.active, hpc]
    · simp only [setPc, setConn, persist, upd_other _ _ hv]; exact ConnMono.refl _
  case resubscribe k =>
    split at hs <;> cases hs
    rename_i hpc
    by_cases hv : v = k
    · subst hv; constructor <;> simp [setPc, setConn, Pc.active, hpc]
    · simp only [setPc, setConn, upd_other _ _ hv]; exact ConnMono.refl _
  case subscribe k f => split at hs <;> cases hs; exact ConnMono.refl _
  case unsubscribe k f => split at hs <;> cases hs; exact ConnMono.refl _
  case noticeEnd k =>
    split at hs <;> cases hs
    by_cases hv : v = k
    · subst hv; constructor <;> simp [setPc, setConn, Pc.active]
    · simp only [setPc, setConn, upd_other _ _ hv]; exact ConnMono.refl _
  case cleanup k =>
    split at hs <;> cases hs
    by_cases hv : v = k
    · subst hv; constructor <;> simp [setPc, setConn, Pc.active, teardown_conn]
    · simp only [setPc, setConn, upd_other _ _ hv, teardown_conn]; exact ConnMono.refl _
  case close k =>
    split at hs <;> cases hs
    by_cases hv : v = k
    · subst hv; constructor <;> simp [setPc, setConn, markDisc, Pc.active]
    · simp only [setPc, setConn, markDisc, upd_other _ _ hv]; exact ConnMono.refl _
  case remove k =>
    split at hs <;> cases hs
    have e : ∀ s1 : St, s1.conn = s.conn → ConnMono (s.conn v) ((setPc s1 k Pc.done).conn v) := by
      intro s1 h1
      by_cases hv : v = k
      · subst hv; constructor <;> simp [setPc, setConn, Pc.active, h1]
      · simp only [setPc, setConn, upd_other _ _ hv, h1]; exact ConnMono.refl _
    apply e
    cases s.client with
    | none => rfl
    | some o => simp only; split <;> rfl
  case writeErr k =>
    split at hs <;> cases hs
    by_cases hv : v = k
    · subst hv; constructor <;> simp [markDisc, setConn, teardown_conn] <;> exact fun _ h => h
    · simp only [markDisc, setConn, upd_other _ _ hv, teardown_conn]; exact ConnMono.refl _
  case asyncClose k =>
    split at hs <;> cases hs
    by_cases hv : v = k
    · subst hv; constructor <;> simp [markDisc, setConn] <;> exact fun _ h => h
    · simp only [markDisc, setConn, upd_other _ _ hv]; exact ConnMono.refl _
  case adminDelete => cases hs; exact ConnMono.refl _
  case watchFires =>
    split at hs <;> cases hs
    simp only [deleteSession]
    cases s.client with
    | none => exact ConnMono.refl _
    | some o =>
      by_cases hv : v = o
      · subst hv; constructor <;> simp [markDisc, setConn] <;> exact fun _ h => h
      · simp only [markDisc, setConn, upd_other _ _ hv]; exact ConnMono.refl _

/-- a connection becomes the registered one only by its own `connectLocked`, which it runs once -/
theorem step_client {s s' : St} {a : Act} (hs : step true s a = some s') {v : Nat}
    (hc : s'.client = some v) (hst : (s.conn v).pc ≠ Pc.new) : s.client = some v := by
  cases a <;> simp only [step] at hs
  case connectLocked k clean =>
    split at hs <;> cases hs
    rename_i hpc
    rw [connectLocked_client] at hc
    cases hc; exact absurd hpc hst
  case refuse k => split at hs <;> cases hs; simpa [setPc, setConn] using hc
  case connackFail k => split at hs <;> cases hs; simpa [setPc, setConn] using hc
  case storeSess k => split at hs <;> cases hs; simpa [setPc, setConn, persist] using hc
  case resubscribe k => split at hs <;> cases hs; simpa [setPc, setConn] using hc
  case subscribe k f => split at hs <;> cases hs; simpa [persist] using hc
  case unsubscribe k f => split at hs <;> cases hs; simpa [persist] using hc
  case noticeEnd k => split at hs <;> cases hs; simpa [setPc, setConn] using hc
  case cleanup k => split at hs <;> cases hs; simpa [setPc, setConn, teardown_client] using hc
  case close k => split at hs <;> cases hs; simpa [setPc, setConn, markDisc] using hc
  case remove k =>
    split at hs <;> cases hs
    cases hcl : s.client with
    | none => simp [hcl, setPc, setConn] at hc
    | some o =>
      simp only [hcl] at hc
      split at hc
      · simp [setPc, setConn] at hc
      · simpa [setPc, setConn, hcl] using hc
  case writeErr k => split at hs <;> cases hs; simpa [markDisc, setConn, teardown_client] using hc
  case asyncClose k => split at hs <;> cases hs; simpa [markDisc, setConn] using hc
  case adminDelete => cases hs; simpa using hc
  case watchFires =>
    split at hs <;> cases hs
    cases hcl : s.client with
    | none => simp [deleteSession, hcl] at hc
    | some o => simp [deleteSession, hcl] at hc

theorem ended_step {s s' : St} {a : Act} (hs : step true s a = some s') {v : Nat} (h : ended s v) : ended s' v := by
  have m := step_connMono hs v
  refine ⟨m.started h.1, ?_⟩
  rcases h.2 with h2 | h2
  · exact Or.inl (m.disc h2)
  · exact Or.inr (m.inactive h.1 h2)

/-- "started and not alive" is stable: a connection that is no longer the registered live one never
becomes it again -/
theorem not_alive_step {s s' : St} {a : Act} (hs : step true s a = some s') {v : Nat}
    (hst : (s.conn v).pc ≠ Pc.new) (h : ¬ alive s v) : ¬ alive s' v := by
  have m := step_connMono hs v
  rintro ⟨hc, hd, ha⟩
  apply h
  refine ⟨step_client hs hc hst, ?_, ?_⟩
  · cases e : (s.conn v).disc with
    | false => rfl
    | true => rw [m.disc e] at hd; cases hd
  · cases e : (s.conn v).pc.active with
    | true => rfl
    | false => rw [m.inactive hst e] at ha; cases ha

/-! ### `watch`: which steps emit / consume delete events -/

theorem teardown_watch (s : St) (k : Nat) :
    (teardown true s k).watch = if reachesDelDB s k then s.watch + 1 else s.watch := by
  unfold teardown teardownBody reachesDelDB
  by_cases hsup : superseded s k = true
  · simp [hsup]
  · simp only [hsup, Bool.and_false, Bool.false_eq_true, if_false, Bool.not_false, Bool.true_and]
    cases s.sessMap <;> by_cases hcl : (s.sess (s.conn k).sess).clean = true <;> simp [hcl, closeSess]

theorem setSession_watch (s : St) (k : Nat) (clean : Bool) : (setSession true s k clean).watch = s.watch := by
  unfold setSession getSess
  cases hsm : s.sessMap with
  | some r => simp only; split <;> simp [setConn, newSession, closeSess]
  | none =>
    cases hdb : s.db with
    | none => simp [newSession]
    | some p => obtain ⟨ts, cl⟩ := p; simp only; split <;> simp [setConn, newSession, closeSess]

/-- the steps that neither emit nor consume a delete event -/
def Act.quietW : Act → Bool
  | .cleanup _ | .writeErr _ | .adminDelete | .watchFires => false
  | _ => true

theorem step_watch_quiet {s s' : St} {a : Act} (hq : a.quietW = true) (hs : step true s a = some s') :
    s'.watch = s.watch := by
  cases a <;> simp only [Act.quietW] at hq <;> simp only [step] at hs
  case cleanup => cases hq
  case writeErr => cases hq
  case adminDelete => cases hq
  case watchFires => cases hq
  case connectLocked k clean =>
    split at hs <;> cases hs
    unfold connectLocked; rw [setSession_watch]; exact (takeoverMark_rest s).2.2.2.2.2.2
  case refuse k => split at hs <;> cases hs; simp [setPc, setConn]
  case connackFail k => split at hs <;> cases hs; simp [setPc, setConn]
  case storeSess k => split at hs <;> cases hs; simp [setPc, setConn, persist]
  case resubscribe k => split at hs <;> cases hs; simp [setPc, setConn]
  case subscribe k f => split at hs <;> cases hs; simp [persist]
  case unsubscribe k f => split at hs <;> cases hs; simp [persist]
  case noticeEnd k => split at hs <;> cases hs; simp [setPc, setConn]
  case close k => split at hs <;> cases hs; simp [setPc, setConn, markDisc]
  case remove k =>
    split at hs <;> cases hs
    cases s.client with
    | none => simp [setPc, setConn]
    | some o => simp only; split <;> simp [setPc, setConn]
  case asyncClose k => split at hs <;> cases hs; simp [markDisc, setConn]

/-! ### the ghost queue -/

theorem countT_append (l : List Origin) (o : Origin) :
    countT (l ++ [o]) = countT l + (if o.isTeardown then 1 else 0) := by
  unfold countT
  by_cases h : o.isTeardown = true <;> simp [List.filter_append, h]

theorem countT_tail_le (l : List Origin) : countT l ≤ countT l.tail + 1 := by
  cases l with
  | nil => simp [countT]
  | cons o r =>
    simp only [List.tail_cons]
    unfold countT
    by_cases h : o.isTeardown = true <;> simp [h]

theorem countT_cons_admin (c : Option Nat) (r : List Origin) : countT (Origin.admin c :: r) = countT r := by
  simp [countT, Origin.isTeardown]

theorem countT_cons_teardown (j : Nat) (r : List Origin) : countT (Origin.teardownOf j :: r) = countT r + 1 := by
  simp [countT, List.filter_cons, Origin.isTeardown]

/-- the victim of every queued admin-origin event has been let in, and is no longer alive once a
teardown-origin event is queued behind that admin event -/
def Victims (b : St) : List Origin → Prop
  | [] => True
  | Origin.admin (some v) :: rest => (b.conn v).pc ≠ Pc.new ∧ (0 < countT rest → ¬ alive b v) ∧ Victims b rest
  | _ :: rest => Victims b rest

theorem victims_mono {b b' : St} (h1 : ∀ v, (b.conn v).pc ≠ Pc.new → (b'.conn v).pc ≠ Pc.new)
    (h2 : ∀ v, (b.conn v).pc ≠ Pc.new → ¬ alive b v → ¬ alive b' v) :
    ∀ {l : List Origin}, Victims b l → Victims b' l
  | [], _ => trivial
  | Origin.admin (some v) :: _, h => ⟨h1 v h.1, fun hc => h2 v h.1 (h.2.1 hc), victims_mono h1 h2 h.2.2⟩
  | Origin.admin none :: rest, h => victims_mono (l := rest) h1 h2 h
  | Origin.teardownOf _ :: rest, h => victims_mono (l := rest) h1 h2 h

theorem victims_tail {b : St} : ∀ {l : List Origin}, Victims b l → Victims b l.tail
  | [], _ => trivial
  | Origin.admin (some _) :: _, h => h.2.2
  | Origin.admin none :: _, h => h
  | Origin.teardownOf _ :: _, h => h

theorem victims_append_admin {b : St} (c : Option Nat) (hc : ∀ v, c = some v → (b.conn v).pc ≠ Pc.new) :
    ∀ {l : List Origin}, Victims b l → Victims b (l ++ [Origin.admin c])
  | [], _ => by
    cases c with
    | none => trivial
    | some v => exact ⟨hc v rfl, by simp [countT], trivial⟩
  | Origin.admin (some v) :: rest, h => by
    refine ⟨h.1, ?_, victims_append_admin c hc h.2.2⟩
    have e : countT (rest ++ [Origin.admin c]) = countT rest := by simp [countT_append, Origin.isTeardown]
    intro hpos; exact h.2.1 (e ▸ hpos)
  | Origin.admin none :: rest, h => victims_append_admin (l := rest) c hc h
  | Origin.teardownOf _ :: rest, h => victims_append_admin (l := rest) c hc h

theorem victims_append_teardown {b : St} (k : Nat) (hdead : ∀ v, ¬ alive b v) :
    ∀ {l : List Origin}, Victims b l → Victims b (l ++ [Origin.teardownOf k])
  | [], _ => trivial
  | Origin.admin (some v) :: _, h => ⟨h.1, fun _ => hdead v, victims_append_teardown k hdead h.2.2⟩
  | Origin.admin none :: rest, h => victims_append_teardown (l := rest) k hdead h
  | Origin.teardownOf _ :: rest, h => victims_append_teardown (l := rest) k hdead h

/-- the invariant of the model with origins -/
structure OInv (fixed : Bool) (s : OSt) : Prop where
  /-- the ghost queue lists exactly the events in flight -/
  len : s.origins.length = s.base.watch
  /-- the broker expects at most as many echoes as teardown-origin events are queued -/
  ownLe : s.own ≤ countT s.origins
  /-- the code before the patch has no counter -/
  ownZero : fixed = false → s.own = 0
  /-- the invariant of the coarse model (it does not mention `watch` / `db`) -/
  inv : Inv s.base
  /-- the connection whose teardown emitted a queued event has ended -/
  tdEnded : ∀ j, Origin.teardownOf j ∈ s.origins → ended s.base j
  victims : Victims s.base s.origins

theorem oinv_init (fixed : Bool) : OInv fixed oinit :=
  ⟨rfl, Nat.le_refl _, fun _ => rfl, inv_init, by simp [oinit], trivial⟩

/-! ### preservation of `OInv` -/

theorem ended_congr {b b' : St} (hconn : b'.conn = b.conn) {v : Nat} (h : ended b v) : ended b' v := by
  unfold ended at *; rw [hconn]; exact h

theorem alive_congr {b b' : St} (hcl : b'.client = b.client) (hconn : b'.conn = b.conn) {v : Nat}
    (h : alive b' v) : alive b v := by
  unfold alive at *; rw [hcl, hconn] at h; exact h

theorem victims_of_same {b b' : St} (hcl : b'.client = b.client) (hconn : b'.conn = b.conn) {l : List Origin}
    (h : Victims b l) : Victims b' l :=
  victims_mono (fun v hv => by rw [hconn]; exact hv) (fun _ _ hna ha => hna (alive_congr hcl hconn ha)) h

/-- a base step that neither emits nor consumes an event (possibly followed by a correction of
`watch` only) keeps the invariant with the queue untouched -/
theorem oinv_same_queue {fixed : Bool} {s : OSt} {a : Act} {b : St} (h : OInv fixed s)
    (hb : step true s.base a = some b) (b' : St) (hcl : b'.client = b.client) (hconn : b'.conn = b.conn)
    (hinv : Inv b') (hw : b'.watch = s.base.watch) : OInv fixed ⟨b', s.origins, s.own⟩ := by
  refine ⟨h.len.trans hw.symm, h.ownLe, h.ownZero, hinv, ?_, ?_⟩
  · intro j hj; exact ended_congr hconn (ended_step hb (h.tdEnded j hj))
  · refine victims_mono ?_ ?_ h.victims
    · intro v hv; rw [hconn]; exact (step_connMono hb v).started hv
    · intro v hv hna ha; exact not_alive_step hb hv hna (alive_congr hcl hconn ha)

/-- a teardown that reaches `delDB` and deletes: a teardown-origin event is queued -/
theorem oinv_push_teardown {fixed : Bool} {s : OSt} {a : Act} {b : St} {k : Nat} (h : OInv fixed s)
    (hb : step true s.base a = some b) (hw : b.watch = s.base.watch + 1) (hdead : ∀ v, ¬ alive b v)
    (hend : ended b k) (own' : Nat) (hown : own' ≤ s.own + 1) (hz : fixed = false → own' = 0) :
    OInv fixed ⟨b, s.origins ++ [Origin.teardownOf k], own'⟩ := by
  refine ⟨by simp [h.len, hw], ?_, hz, inv_step h.inv hb, ?_, ?_⟩
  · have := h.ownLe
    simp only [countT_append, Origin.isTeardown, if_true]; omega
  · intro j hj
    rcases List.mem_append.mp hj with hj | hj
    · exact ended_step hb (h.tdEnded j hj)
    · simp only [List.mem_singleton, Origin.teardownOf.injEq] at hj; subst hj; exact hend
  · refine victims_append_teardown k hdead (victims_mono ?_ ?_ h.victims)
    · intro v hv; exact (step_connMono hb v).started hv
    · intro v hv hna; exact not_alive_step hb hv hna

theorem reachesDelDB_client {s : St} {k : Nat} (h : reachesDelDB s k = true) : s.client = none ∨ s.client = some k := by
  apply not_superseded
  intro hsup; simp [reachesDelDB, hsup] at h

theorem oinv_teardown {fixed : Bool} {s : OSt} {a : Act} {b : St} {k : Nat} (h : OInv fixed s)
    (hb : step true s.base a = some b)
    (hw : b.watch = if reachesDelDB s.base k then s.base.watch + 1 else s.base.watch)
    (hdead : reachesDelDB s.base k = true → ∀ v, ¬ alive b v) (hend : ended b k) :
    OInv fixed (oTeardown fixed s k b) := by
  unfold oTeardown
  by_cases hr : reachesDelDB s.base k = true
  · simp only [hr, if_true] at hw ⊢
    cases fixed with
    | false =>
      simp only [Bool.false_eq_true, if_false]
      exact oinv_push_teardown h hb hw (hdead hr) hend _ (Nat.le_succ _) (fun _ => h.ownZero rfl)
    | true =>
      simp only [if_true]
      split
      · exact oinv_push_teardown h hb hw (hdead hr) hend _ (Nat.le_refl _) (fun e => by cases e)
      · exact oinv_same_queue h hb _ rfl rfl (inv_dbwatch (inv_step h.inv hb) b.db s.base.watch) rfl
  · simp only [hr, Bool.false_eq_true, if_false] at hw ⊢
    exact oinv_same_queue h hb b rfl rfl (inv_step h.inv hb) hw

/-- **every step of the model with origins preserves `OInv`** (both the code before and after
`C16-own-delete-event.patch`) -/
theorem oinv_step {fixed : Bool} {s s' : OSt} {a : Act} (h : OInv fixed s) (hs : ostep fixed s a = some s') :
    OInv fixed s' := by
  unfold ostep at hs
  cases hb : step true s.base a with
  | none => simp [hb] at hs
  | some b =>
    simp only [hb] at hs
    cases a
    case cleanup k =>
      simp only [Option.some.injEq] at hs; subst hs
      have hb' := hb
      simp only [step] at hb'
      split at hb' <;> cases hb'
      refine oinv_teardown h hb ?_ ?_ ?_
      · simp [setPc, setConn, teardown_watch]
      · intro hr v ⟨hc, _, ha⟩
        simp only [setPc, setConn, teardown_client] at hc
        rcases reachesDelDB_client hr with e | e
        · rw [e] at hc; cases hc
        · rw [e] at hc; cases hc
          simp [setPc, setConn, Pc.active] at ha
      · constructor <;> simp [setPc, setConn, Pc.active]
    case writeErr k =>
      simp only [Option.some.injEq] at hs; subst hs
      have hb' := hb
      simp only [step] at hb'
      split at hb' <;> cases hb'
      rename_i hpc
      refine oinv_teardown h hb ?_ ?_ ?_
      · simp [markDisc, setConn, teardown_watch]
      · intro hr v ⟨hc, hd, _⟩
        simp only [markDisc, setConn, teardown_client] at hc
        rcases reachesDelDB_client hr with e | e
        · rw [e] at hc; cases hc
        · rw [e] at hc; cases hc
          simp [markDisc, setConn] at hd
      · constructor <;> simp [markDisc, setConn, teardown_conn, hpc]
    case adminDelete =>
      simp only [Option.some.injEq] at hs; subst hs
      simp only [step, Option.some.injEq] at hb; subst hb
      refine ⟨by simp [h.len], ?_, h.ownZero, inv_dbwatch h.inv _ _, ?_, ?_⟩
      · have := h.ownLe
        simp only [countT_append, Origin.isTeardown]; simpa using this
      · intro j hj
        rcases List.mem_append.mp hj with hj | hj
        · exact h.tdEnded j hj
        · simp at hj
      · exact victims_of_same (by rfl) (by rfl) (victims_append_admin _ (fun v hv => h.inv.regd v hv) h.victims)
    case watchFires =>
      have hpos : 0 < s.base.watch := by
        simp only [step] at hb; split at hb
        · assumption
        · cases hb
      have hne : s.origins ≠ [] := by
        intro e; have := h.len; rw [e] at this; simp at this; omega
      have hlen : s.origins.tail.length = s.base.watch - 1 := by simp [h.len]
      have hmem : ∀ o, o ∈ s.origins.tail → o ∈ s.origins := fun o ho => List.mem_of_mem_tail ho
      by_cases hd : (fixed && decide (0 < s.own)) = true
      · simp only [hd, if_true, Option.some.injEq] at hs; subst hs
        simp only [Bool.and_eq_true, decide_eq_true_eq] at hd
        refine ⟨hlen, ?_, fun e => by simp [e] at hd, inv_dbwatch h.inv _ _, fun j hj => h.tdEnded j (hmem _ hj), ?_⟩
        · have := h.ownLe; have := countT_tail_le s.origins; show s.own - 1 ≤ countT s.origins.tail; omega
        · exact victims_tail (victims_of_same (by rfl) (by rfl) h.victims)
      · simp only [hd, Bool.false_eq_true, if_false, Option.some.injEq] at hs; subst hs
        have hown : s.own = 0 := by
          cases fixed with
          | false => exact h.ownZero rfl
          | true => simp at hd; exact hd
        have hbw : b.watch = s.base.watch - 1 := by
          simp only [step, hpos, if_true, Option.some.injEq] at hb
          rw [← hb]
        refine ⟨hlen.trans hbw.symm, by show s.own ≤ countT s.origins.tail; omega, h.ownZero, inv_step h.inv hb, ?_, ?_⟩
        · intro j hj; exact ended_step hb (h.tdEnded j (hmem _ hj))
        · refine victims_tail (victims_mono ?_ ?_ h.victims)
          · intro v hv; exact (step_connMono hb v).started hv
          · intro v hv hna; exact not_alive_step hb hv hna
    all_goals
      simp only [Option.some.injEq] at hs; subst hs
      exact oinv_same_queue h hb b rfl rfl (inv_step h.inv hb) (step_watch_quiet rfl hb)

/-! ### what the handling of a delete event does -/

theorem origins_ne_nil {fixed : Bool} {s : OSt} (h : OInv fixed s) (hpos : 0 < s.base.watch) : s.origins ≠ [] := by
  intro e; have := h.len; rw [e] at this; simp at this; omega

/-- `watchFires` is enabled exactly when an event is queued -/
theorem watchFires_enabled {fixed : Bool} {s : OSt} (h : OInv fixed s) (hne : s.origins ≠ []) :
    (ostep fixed s Act.watchFires).isSome = true := by
  have hpos : 0 < s.base.watch := by
    rw [← h.len]; exact List.length_pos_iff.mpr hne
  unfold ostep
  simp only [step, hpos, if_true]
  split <;> rfl

/-- the two things `watchFires` can do -/
theorem watchFires_cases {fixed : Bool} {s s' : OSt} (hs : ostep fixed s Act.watchFires = some s') :
    0 < s.base.watch ∧
    ((fixed = true ∧ 0 < s.own ∧ s' = ⟨{ s.base with watch := s.base.watch - 1 }, s.origins.tail, s.own - 1⟩) ∨
     ((fixed = false ∨ s.own = 0) ∧
        s' = ⟨{ deleteSession s.base with watch := s.base.watch - 1 }, s.origins.tail, s.own⟩)) := by
  unfold ostep at hs
  simp only [step] at hs
  by_cases hpos : 0 < s.base.watch
  · simp only [hpos, if_true] at hs
    refine ⟨hpos, ?_⟩
    by_cases hd : (fixed && decide (0 < s.own)) = true
    · simp only [hd, if_true, Option.some.injEq] at hs
      simp only [Bool.and_eq_true, decide_eq_true_eq] at hd
      exact Or.inl ⟨hd.1, hd.2, hs.symm⟩
    · simp only [hd, Bool.false_eq_true, if_false, Option.some.injEq] at hs
      refine Or.inr ⟨?_, hs.symm⟩
      cases fixed with
      | false => exact Or.inl rfl
      | true => simp at hd; exact Or.inr hd
  · simp [hpos] at hs

/-- the bookkeeping of the repaired broker is exact: it expects precisely the queued teardown-origin events -/
def Exact (s : OSt) : Prop := s.own = countT s.origins

/-- a `watchFires` that delivers an admin-origin event while a teardown-origin event is queued
(necessarily behind it): the repaired broker takes the admin event for the echo of its own delete -/
def overtakes (s : OSt) : Act → Bool
  | .watchFires =>
    match s.origins with
    | Origin.admin _ :: rest => decide (0 < countT rest)
    | _ => false
  | _ => false

theorem exact_step {s s' : OSt} {a : Act} (h : OInv true s) (he : Exact s) (hs : ostep true s a = some s')
    (hno : overtakes s a = false) : Exact s' := by
  unfold Exact at *
  cases a
  case watchFires =>
    obtain ⟨hpos, hc⟩ := watchFires_cases hs
    have hne := origins_ne_nil h hpos
    cases ho : s.origins with
    | nil => exact absurd ho hne
    | cons o rest =>
      rw [ho] at he
      cases o with
      | teardownOf j =>
        rw [countT_cons_teardown] at he
        rcases hc with ⟨_, _, e⟩ | ⟨hz, _⟩
        · subst e; simp only [ho, List.tail_cons]; omega
        · rcases hz with hz | hz
          · cases hz
          · omega
      | admin c =>
        rw [countT_cons_admin] at he
        have hr : countT rest = 0 := by
          cases hr : countT rest with
          | zero => rfl
          | succ n => simp [overtakes, ho, hr] at hno
        rcases hc with ⟨_, hp, _⟩ | ⟨_, e⟩
        · omega
        · subst e; simp only [ho, List.tail_cons]; omega
  case cleanup k =>
    unfold ostep at hs
    cases hb : step true s.base (Act.cleanup k) with
    | none => simp [hb] at hs
    | some b =>
      simp only [hb, Option.some.injEq] at hs; subst hs
      unfold oTeardown
      split
      · simp only [if_true]; split
        · simp only [countT_append, Origin.isTeardown, if_true]; omega
        · exact he
      · exact he
  case writeErr k =>
    unfold ostep at hs
    cases hb : step true s.base (Act.writeErr k) with
    | none => simp [hb] at hs
    | some b =>
      simp only [hb, Option.some.injEq] at hs; subst hs
      unfold oTeardown
      split
      · simp only [if_true]; split
        · simp only [countT_append, Origin.isTeardown, if_true]; omega
        · exact he
      · exact he
  case adminDelete =>
    unfold ostep at hs
    simp only [step, Option.some.injEq] at hs; subst hs
    simp only [countT_append, Origin.isTeardown]; simpa using he
  all_goals
    unfold ostep at hs
    split at hs
    · cases hs
    · simp only [Option.some.injEq] at hs; subst hs; exact he

/-- **a delete event that the repaired broker expects is dropped without any effect** -/
theorem expected_event_dropped {s s' : OSt} (hown : 0 < s.own) (hs : ostep true s Act.watchFires = some s') :
    s' = ⟨{ s.base with watch := s.base.watch - 1 }, s.origins.tail, s.own - 1⟩ := by
  obtain ⟨_, hc⟩ := watchFires_cases hs
  rcases hc with ⟨_, _, e⟩ | ⟨hz, _⟩
  · exact e
  · rcases hz with hz | hz
    · cases hz
    · omega

/-- with exact bookkeeping a teardown-origin event at the head of the queue is an expected one -/
theorem exact_teardown_head {s : OSt} (he : Exact s) {j : Nat} {rest : List Origin}
    (ho : s.origins = Origin.teardownOf j :: rest) : 0 < s.own := by
  unfold Exact at he; rw [ho, countT_cons_teardown] at he; omega

/-- **a delivered event** (code before the patch: every event; repaired code: an event that is not
expected) runs `deleteSession`: whoever is registered is disconnected and unregistered -/
theorem delivered_event_disconnects {fixed : Bool} {s s' : OSt} (hz : fixed = false ∨ s.own = 0)
    (hs : ostep fixed s Act.watchFires = some s') :
    s'.base.client = none ∧ ∀ o, s.base.client = some o → (s'.base.conn o).disc = true := by
  obtain ⟨_, hc⟩ := watchFires_cases hs
  rcases hc with ⟨hf, hp, _⟩ | ⟨_, e⟩
  · rcases hz with hz | hz
    · rw [hz] at hf; cases hf
    · omega
  · subst e
    constructor
    · cases hcl : s.base.client <;> simp [deleteSession, hcl]
    · intro o ho; simp [deleteSession, ho, markDisc, setConn]

/-- **after the handling of an admin-origin event its victim is not alive** — whether the event is
delivered (`deleteSession`) or, in the repaired code, taken for an expected echo and dropped: the
latter happens only when a teardown-origin event is queued behind it, and then the victim has
already gone (`OInv.victims`). -/
theorem admin_event_victim_gone {fixed : Bool} {s s' : OSt} (h : OInv fixed s) {v : Nat} {rest : List Origin}
    (ho : s.origins = Origin.admin (some v) :: rest) (hs : ostep fixed s Act.watchFires = some s') :
    ¬ alive s'.base v := by
  obtain ⟨_, hc⟩ := watchFires_cases hs
  rcases hc with ⟨_, hp, e⟩ | ⟨_, e⟩
  · subst e
    have hv := h.victims
    rw [ho] at hv
    have hle := h.ownLe
    rw [ho, countT_cons_admin] at hle
    intro ha
    exact hv.2.1 (by omega) (alive_congr (b := s.base) rfl rfl ha)
  · subst e
    rintro ⟨hc, _, _⟩
    simp only [deleteSession] at hc
    cases hcl : s.base.client <;> simp [hcl] at hc

/-- what `deleteSession` leaves alone: everything but the registration and the registered connection's flags -/
theorem deleteSession_frame (s : St) :
    (deleteSession s).sessMap = s.sessMap ∧ (deleteSession s).sess = s.sess ∧ (deleteSession s).db = s.db ∧
    (deleteSession s).topicMgr = s.topicMgr ∧ (deleteSession s).nextSess = s.nextSess ∧
    ∀ k, s.client ≠ some k → (deleteSession s).conn k = s.conn k := by
  unfold deleteSession
  cases hcl : s.client with
  | none => simp
  | some o =>
    refine ⟨rfl, rfl, rfl, rfl, rfl, ?_⟩
    intro k hk
    have : k ≠ o := fun e => hk (by rw [e])
    simp [markDisc, setConn, this]

end EgVerif.BrokerSessions
