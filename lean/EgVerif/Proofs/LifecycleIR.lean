import EgVerif.Proofs.Lifecycle
import EgVerif.Gen.FactsC20IR
/-!
Regenerated tie by translation for C20 (`notes/IR.md`, `harness/factextract/facts_c20_ir.go`):
`Gen.FactsC20IR.applyConfigIR` (+ `_loop1`, `_loop2`) and `cleanSpaceIR` are produced on every run by
the go/ast micro-translator from the current bodies of `ObjectRegistry.applyConfig` (the two diff
loops → `applyConfigIR`; the closure executed per watcher → `notifyIR`) and
`TrafficController._cleanSpace`. They are the hand-written `diff` / `notify` / `cleanSpace` of
`Model/Lifecycle.lean`: for every snapshot index, every registry map with unique keys (a Go map) and
every snapshot, resp. for every consumer state. A changed test, branch, target map or probe in the
source changes the generated definition and breaks these proofs.
-/
set_option linter.unusedSimpArgs false
set_option linter.unusedVariables false
namespace EgVerif.Lifecycle
open EgVerif.Gen.FactsC20IR

/-! ### loop 1: names absent from the snapshot -/

/-- `for name, entity := range or.entities { if _, exists := config[name]; !exists { delete(or.entities,
name); deleted[name] = entity } }` over a list `l` with unique keys, from accumulators `E` (entities)
and `D` (deleted; its keys are not among the keys still to come): `E` loses every key of `l` that the
snapshot lacks, `D` gains exactly those entries, in order. -/
theorem applyConfig_regenerated_from_source_loop1 (g : Nat) (es : Map Name Entity) (cfg : Config)
    (created updated : Map Name Entity) :
    ∀ (l E D : Map Name Entity), l.WF → (∀ d ∈ D, ∀ x ∈ l, d.1 ≠ x.1) →
      applyConfigIR_loop1 g es cfg E D created updated l =
        .inr (E.filter (fun e => !(l.any (fun x => (cfg.get x.1).isNone && decide (x.1 = e.1)))),
              D ++ l.filter (fun x => (cfg.get x.1).isNone)) := by
  intro l
  induction l with
  | nil => intro E D _ _; simp [applyConfigIR_loop1]
  | cons x r ih =>
    obtain ⟨n, e⟩ := x
    intro E D wf hD
    have wf' : Map.WF r := by
      unfold Map.WF at wf ⊢
      rw [List.map_cons, List.nodup_cons] at wf
      exact wf.2
    have hn : ∀ y ∈ r, n ≠ y.1 := by
      intro y hy h
      unfold Map.WF at wf
      rw [List.map_cons, List.nodup_cons] at wf
      exact wf.1 (List.mem_map.mpr ⟨y, hy, h.symm⟩)
    unfold applyConfigIR_loop1
    cases hc : cfg.get n with
    | some y =>
      have hD' : ∀ d ∈ D, ∀ x ∈ r, d.1 ≠ x.1 := fun d hd x hx => hD d hd x (List.mem_cons_of_mem _ hx)
      simp only [cfgLookup, hc, Bool.not_true, Bool.false_eq_true, if_false]
      rw [ih E D wf' hD']
      simp [hc]
    | none =>
      simp only [cfgLookup, hc, Bool.not_false, if_true, mapSetPtr]
      have hset : D.set n e = D ++ [(n, e)] := by
        unfold Map.set Map.del
        congr 1
        apply List.filter_eq_self.mpr
        intro d hd
        have := hD d hd (n, e) List.mem_cons_self
        simpa using this
      have hD' : ∀ d ∈ D.set n e, ∀ x ∈ r, d.1 ≠ x.1 := by
        intro d hd x hx
        rw [hset] at hd
        rcases List.mem_append.mp hd with h | h
        · exact hD d h x (List.mem_cons_of_mem _ hx)
        · simp only [List.mem_singleton] at h
          subst h
          exact hn x hx
      rw [ih (E.del n) (D.set n e) wf' hD', hset]
      congr 1
      refine Prod.ext ?_ ?_
      · simp only [Map.del, List.filter_filter]
        apply List.filter_congr
        intro a _
        by_cases h : a.1 = n
        · simp [h, hc]
        · have h' : ¬ n = a.1 := fun e' => h e'.symm
          simp [h, h', hc]
      · simp [hc]

/-! ### loop 2: create / equal-skip / kind change / update -/

/-- `for name, yamlConfig := range config { … }` is the fold of the model's `diffStep`. -/
theorem applyConfig_regenerated_from_source_loop2 (g : Nat) (es : Map Name Entity) (cfg : Config) :
    ∀ (l : Config) (E D C U : Map Name Entity),
      applyConfigIR_loop2 g es cfg E D C U l =
        .inr ((l.foldl (diffStep g) ⟨E, D, C, U⟩).ents, (l.foldl (diffStep g) ⟨E, D, C, U⟩).deleted,
              (l.foldl (diffStep g) ⟨E, D, C, U⟩).created, (l.foldl (diffStep g) ⟨E, D, C, U⟩).updated) := by
  intro l
  induction l with
  | nil => intro E D C U; simp [applyConfigIR_loop2]
  | cons x r ih =>
    obtain ⟨n, y⟩ := x
    intro E D C U
    unfold applyConfigIR_loop2
    rw [List.foldl_cons]
    cases y with
    | none => simp only [newEntity, if_true, diffStep]; exact ih E D C U
    | some kb =>
      obtain ⟨k, b⟩ := kb
      simp only [newEntity, Bool.false_eq_true, if_false, entLookup]
      obtain ⟨o, hE⟩ : ∃ o, E.get n = o := ⟨_, rfl⟩
      simp only [hE]
      cases o with
      | none =>
        have hs : diffStep g ⟨E, D, C, U⟩ (n, some (k, b)) =
            ⟨E.set n ⟨g, k, b⟩, D, C.set n ⟨g, k, b⟩, U⟩ := by simp [diffStep, hE]
        rw [hs]
        simp only [Option.isSome_none, Bool.false_and, Bool.false_eq_true, if_false, mapSetPtr]
        exact ih _ _ _ _
      | some p =>
        simp only [Option.isSome_some, Bool.true_and, specEquals, specKind, Option.map_some]
        by_cases h1 : p.kind = k
        · by_cases h2 : p.body = b
          · have hs : diffStep g ⟨E, D, C, U⟩ (n, some (k, b)) = ⟨E, D, C, U⟩ := by
              simp [diffStep, hE, h1, h2]
            rw [hs]
            simp only [h1, h2, beq_self_eq_true, Bool.and_self, if_true]
            exact ih E D C U
          · have hs : diffStep g ⟨E, D, C, U⟩ (n, some (k, b)) =
                ⟨E.set n ⟨g, k, b⟩, D, C, U.set n ⟨g, k, b⟩⟩ := by simp [diffStep, hE, h1, h2]
            rw [hs]
            have h2' : (p.body == b) = false := by simpa using h2
            simp only [h1, h2', beq_self_eq_true, Bool.and_false, Bool.false_eq_true, if_false,
              bne_self_eq_false, Option.isSome_some, if_true, mapSetPtr]
            exact ih _ _ _ _
        · have hs : diffStep g ⟨E, D, C, U⟩ (n, some (k, b)) =
              ⟨E.set n ⟨g, k, b⟩, D.set n p, C.set n ⟨g, k, b⟩, U⟩ := by simp [diffStep, hE, h1]
          rw [hs]
          have h1' : (p.kind == k) = false := by simpa using h1
          have h1'' : (some p.kind != some k) = true := by simp [h1]
          simp only [h1', h1'', Bool.false_and, Bool.false_eq_true, if_false, if_true, mapSetPtr,
            Option.isSome_none]
          exact ih _ _ _ _

/-! ### `ObjectRegistry.applyConfig` (diff part) -/

/-- The definition regenerated from the body of `applyConfig` is the model's `diff`, for every
snapshot index `g`, every registry map `ents` with unique keys (it is a Go map; `Inv.wf` holds in
every reachable state) and every snapshot `cfg`. -/
theorem applyConfig_regenerated_from_source (g : Nat) (ents : Map Name Entity) (cfg : Config)
    (wf : ents.WF) : applyConfigIR g ents cfg = diff g ents cfg := by
  unfold applyConfigIR diff
  simp only
  rw [applyConfig_regenerated_from_source_loop1 g ents cfg [] [] ents ents [] wf (by simp)]
  simp only [List.nil_append]
  rw [applyConfig_regenerated_from_source_loop2]
  have hE : ents.filter (fun e => !(ents.any (fun x => (cfg.get x.1).isNone && decide (x.1 = e.1)))) =
      ents.filter (fun e => (cfg.get e.1).isSome) := by
    apply List.filter_congr
    intro a ha
    cases hc : cfg.get a.1 with
    | some y =>
      simp only [Option.isSome_some, Bool.not_eq_true']
      rw [List.any_eq_false]
      intro x _
      by_cases hx : x.1 = a.1
      · simp [hx, hc]
      · simp [hx]
    | none =>
      simp only [Option.isSome_none, Bool.not_eq_false']
      rw [List.any_eq_true]
      exact ⟨a, ha, by simp [hc]⟩
  rw [hE]

/-! ### the per-watcher closure of `applyConfig` -/

theorem Map.set_eq_append {m : Map Name Entity} {n : Name} (e : Entity) (h : ∀ d ∈ m, d.1 ≠ n) :
    m.set n e = m ++ [(n, e)] := by
  unfold Map.set Map.del
  congr 1
  apply List.filter_eq_self.mpr
  intro d hd
  simpa using h d hd

private theorem wf_tail {x : Name × Entity} {r : Map Name Entity} (wf : Map.WF (x :: r)) :
    Map.WF r ∧ ∀ y ∈ r, x.1 ≠ y.1 := by
  unfold Map.WF at wf ⊢
  rw [List.map_cons, List.nodup_cons] at wf
  exact ⟨wf.2, fun y hy h => wf.1 (List.mem_map.mpr ⟨y, hy, h.symm⟩)⟩

private theorem disj_step {E r : Map Name Entity} {n : Name} {e : Entity}
    (hE : ∀ d ∈ E, ∀ x ∈ (n, e) :: r, d.1 ≠ x.1) (hn : ∀ y ∈ r, n ≠ y.1) :
    ∀ d ∈ E ++ [(n, e)], ∀ x ∈ r, d.1 ≠ x.1 := by
  intro d hd x hx
  rcases List.mem_append.mp hd with h | h
  · exact hE d h x (List.mem_cons_of_mem _ hx)
  · simp only [List.mem_singleton] at h
    subst h
    exact hn x hx

/-- `for name, entity := range deleted { if watcher.filter(entity) { event.Delete[name] = entity;
delete(watcher.entities, name) } }` -/
theorem applyConfig_notify_regenerated_from_source_loop1 (P : Params) (w0 dl cr up : Map Name Entity)
    (sent : Bool) (evCre evUpd : Map Name Entity) (event : Unit) :
    ∀ (l W E : Map Name Entity), l.WF → (∀ d ∈ E, ∀ x ∈ l, d.1 ≠ x.1) →
      notifyIR_loop1 P w0 dl cr up sent W E evCre evUpd event l =
        .inr ((l.filter (fun e => P.passes e.2)).foldl (fun m e => m.del e.1) W,
              E ++ l.filter (fun e => P.passes e.2)) := by
  intro l
  induction l with
  | nil => intro W E _ _; simp [notifyIR_loop1]
  | cons x r ih =>
    obtain ⟨n, e⟩ := x
    intro W E wf hE
    obtain ⟨wf', hn⟩ := wf_tail wf
    unfold notifyIR_loop1
    by_cases hp : P.passes e = true
    · simp only [hp, if_true, mapSetPtr]
      rw [Map.set_eq_append e (fun d hd => hE d hd (n, e) List.mem_cons_self),
        ih _ _ wf' (disj_step hE hn)]
      simp [List.filter_cons, hp]
    · simp only [hp, Bool.false_eq_true, if_false]
      rw [ih _ _ wf' (fun d hd x hx => hE d hd x (List.mem_cons_of_mem _ hx))]
      simp [List.filter_cons, hp]

/-- `for name, entity := range created { if watcher.filter(entity) { event.Create[name] = entity;
watcher.entities[name] = entity } }` -/
theorem applyConfig_notify_regenerated_from_source_loop2 (P : Params) (w0 dl cr up : Map Name Entity)
    (sent : Bool) (evDel evUpd : Map Name Entity) (event : Unit) :
    ∀ (l W E : Map Name Entity), l.WF → (∀ d ∈ E, ∀ x ∈ l, d.1 ≠ x.1) →
      notifyIR_loop2 P w0 dl cr up sent W evDel E evUpd event l =
        .inr ((l.filter (fun e => P.passes e.2)).foldl (fun m e => m.set e.1 e.2) W,
              E ++ l.filter (fun e => P.passes e.2)) := by
  intro l
  induction l with
  | nil => intro W E _ _; simp [notifyIR_loop2]
  | cons x r ih =>
    obtain ⟨n, e⟩ := x
    intro W E wf hE
    obtain ⟨wf', hn⟩ := wf_tail wf
    unfold notifyIR_loop2
    by_cases hp : P.passes e = true
    · simp only [hp, if_true, mapSetPtr]
      rw [Map.set_eq_append e (fun d hd => hE d hd (n, e) List.mem_cons_self),
        ih _ _ wf' (disj_step hE hn)]
      simp [List.filter_cons, hp]
    · simp only [hp, Bool.false_eq_true, if_false]
      rw [ih _ _ wf' (fun d hd x hx => hE d hd x (List.mem_cons_of_mem _ hx))]
      simp [List.filter_cons, hp]

/-- `for name, entity := range updated { if watcher.filter(entity) { event.Update[name] = entity;
watcher.entities[name] = entity } }` -/
theorem applyConfig_notify_regenerated_from_source_loop3 (P : Params) (w0 dl cr up : Map Name Entity)
    (sent : Bool) (evDel evCre : Map Name Entity) (event : Unit) :
    ∀ (l W E : Map Name Entity), l.WF → (∀ d ∈ E, ∀ x ∈ l, d.1 ≠ x.1) →
      notifyIR_loop3 P w0 dl cr up sent W evDel evCre E event l =
        .inr ((l.filter (fun e => P.passes e.2)).foldl (fun m e => m.set e.1 e.2) W,
              E ++ l.filter (fun e => P.passes e.2)) := by
  intro l
  induction l with
  | nil => intro W E _ _; simp [notifyIR_loop3]
  | cons x r ih =>
    obtain ⟨n, e⟩ := x
    intro W E wf hE
    obtain ⟨wf', hn⟩ := wf_tail wf
    unfold notifyIR_loop3
    by_cases hp : P.passes e = true
    · simp only [hp, if_true, mapSetPtr]
      rw [Map.set_eq_append e (fun d hd => hE d hd (n, e) List.mem_cons_self),
        ih _ _ wf' (disj_step hE hn)]
      simp [List.filter_cons, hp]
    · simp only [hp, Bool.false_eq_true, if_false]
      rw [ih _ _ wf' (fun d hd x hx => hE d hd x (List.mem_cons_of_mem _ hx))]
      simp [List.filter_cons, hp]

private theorem sent_iff (A B C : Map Name Entity) :
    decide ((((A.length : Int) + (B.length : Int)) + (C.length : Int)) > 0) =
      !(A.isEmpty && B.isEmpty && C.isEmpty) := by
  cases A <;> cases B <;> cases C <;> simp <;> omega

/-- The definition regenerated from the per-watcher closure of `applyConfig` is the model's `notify`
(new `watcher.entities`, the event) together with "the event is sent iff it is not empty" (`stepW`),
for every watcher filter, every `watcher.entities` and every diff whose three maps have unique keys
(Go maps; `diff_wf`). -/
theorem applyConfig_notify_regenerated_from_source (P : Params) (wents : Map Name Entity) (d : Diff)
    (hd : d.deleted.WF) (hc : d.created.WF) (hu : d.updated.WF) :
    notifyIR P wents d.deleted d.created d.updated false =
      ((notify P wents d).1, (notify P wents d).2, !(notify P wents d).2.isEmpty) := by
  unfold notifyIR notify
  simp only
  rw [applyConfig_notify_regenerated_from_source_loop1 P _ _ _ _ _ _ _ _ _ _ _ hd (by simp)]
  simp only [List.nil_append]
  rw [applyConfig_notify_regenerated_from_source_loop2 P _ _ _ _ _ _ _ _ _ _ _ hc (by simp)]
  simp only [List.nil_append]
  rw [applyConfig_notify_regenerated_from_source_loop3 P _ _ _ _ _ _ _ _ _ _ _ hu (by simp)]
  simp only [List.nil_append, sent_iff, Event.isEmpty]
  cases (List.filter (fun e => P.passes e.2) d.deleted).isEmpty &&
    (List.filter (fun e => P.passes e.2) d.created).isEmpty &&
    (List.filter (fun e => P.passes e.2) d.updated).isEmpty <;> rfl

/-! ### `Supervisor.handleEvent` -/

/-- The supervisor as a consumer: one `sync.Map` (slot 0), "already existed" checked before a create,
no namespace object; the three `range event.X` loops in list order. -/
def supParams (P : Params) : Params :=
  { P with slot := fun _ => 0, createChecks := true, namespaced := false, order := fun _ _ m => m }

theorem Map.del_of_get_none {κ α : Type} [DecidableEq κ] {m : Map κ α} {k : κ} (h : m.get k = none) :
    m.del k = m := by
  unfold Map.del
  apply List.filter_eq_self.mpr
  intro x hx
  have hk := Map.get_eq_none.mp h
  have : x.1 ≠ k := fun e => hk (List.mem_map.mpr ⟨x, hx, e⟩)
  simpa using this

theorem handleEvent_regenerated_from_source_loop1 (P : Params) (c : CState) (ev : Event) :
    ∀ (l : Map Name Entity) (store : Map (Nat × Name) Entity) (log : List Call) (ns : Bool),
      handleEventIR_loop1 P c ev store log l =
        .inr ((l.foldl (delStep (supParams P)) ⟨store, log, ns⟩).store,
              (l.foldl (delStep (supParams P)) ⟨store, log, ns⟩).log) ∧
      (l.foldl (delStep (supParams P)) ⟨store, log, ns⟩).ns = ns := by
  intro l
  induction l with
  | nil => intro store log ns; simp [handleEventIR_loop1]
  | cons x r ih =>
    obtain ⟨n, e⟩ := x
    intro store log ns
    unfold handleEventIR_loop1
    rw [List.foldl_cons]
    obtain ⟨o, ho⟩ : ∃ o, store.get (0, n) = o := ⟨_, rfl⟩
    cases o with
    | none =>
      have hs : delStep (supParams P) ⟨store, log, ns⟩ (n, e) = ⟨store, log, ns⟩ := by
        simp [delStep, supParams, ho]
      rw [hs]
      simp only [syncLoad, ho, Option.isSome_none, Bool.not_false, if_true, Map.del_of_get_none ho]
      exact ih store log ns
    | some old =>
      have hs : delStep (supParams P) ⟨store, log, ns⟩ (n, e) =
          ⟨store.del (0, n), log ++ [callClose P n old], ns⟩ := by
        simp [delStep, supParams, ho, callClose]
      rw [hs]
      simp only [syncLoad, ho, Option.isSome_some, Bool.not_true, Bool.false_eq_true, if_false, ptrCall]
      exact ih _ _ ns

theorem handleEvent_regenerated_from_source_loop2 (P : Params) (c : CState) (ev : Event) :
    ∀ (l : Map Name Entity) (store : Map (Nat × Name) Entity) (log : List Call) (ns : Bool),
      handleEventIR_loop2 P c ev store log l =
        .inr ((l.foldl (creStep (supParams P)) ⟨store, log, ns⟩).store,
              (l.foldl (creStep (supParams P)) ⟨store, log, ns⟩).log) ∧
      (l.foldl (creStep (supParams P)) ⟨store, log, ns⟩).ns = ns := by
  intro l
  induction l with
  | nil => intro store log ns; simp [handleEventIR_loop2]
  | cons x r ih =>
    obtain ⟨n, e⟩ := x
    intro store log ns
    unfold handleEventIR_loop2
    rw [List.foldl_cons]
    obtain ⟨o, ho⟩ : ∃ o, store.get (0, n) = o := ⟨_, rfl⟩
    cases o with
    | some old =>
      have hs : creStep (supParams P) ⟨store, log, ns⟩ (n, e) = ⟨store, log, ns⟩ := by
        simp [creStep, supParams, ho]
      rw [hs]
      simp only [syncLoad, ho, Option.isSome_some, if_true]
      exact ih store log ns
    | none =>
      have hs : creStep (supParams P) ⟨store, log, ns⟩ (n, e) =
          ⟨store.set (0, n) e, log ++ [callInit P n e], ns⟩ := by
        simp [creStep, supParams, ho, callInit]
      rw [hs]
      simp only [syncLoad, ho, Option.isSome_none, Bool.false_eq_true, if_false, ptrCall, syncStore]
      exact ih _ _ ns

theorem handleEvent_regenerated_from_source_loop3 (P : Params) (c : CState) (ev : Event) :
    ∀ (l : Map Name Entity) (store : Map (Nat × Name) Entity) (log : List Call) (ns : Bool),
      handleEventIR_loop3 P c ev store log l =
        .inr ((l.foldl (updStep (supParams P)) ⟨store, log, ns⟩).store,
              (l.foldl (updStep (supParams P)) ⟨store, log, ns⟩).log) ∧
      (l.foldl (updStep (supParams P)) ⟨store, log, ns⟩).ns = ns := by
  intro l
  induction l with
  | nil => intro store log ns; simp [handleEventIR_loop3]
  | cons x r ih =>
    obtain ⟨n, e⟩ := x
    intro store log ns
    unfold handleEventIR_loop3
    rw [List.foldl_cons]
    obtain ⟨o, ho⟩ : ∃ o, store.get (0, n) = o := ⟨_, rfl⟩
    cases o with
    | none =>
      have hs : updStep (supParams P) ⟨store, log, ns⟩ (n, e) = ⟨store, log, ns⟩ := by
        simp [updStep, supParams, ho]
      rw [hs]
      simp only [syncLoad, ho, Option.isSome_none, Bool.not_false, if_true]
      exact ih store log ns
    | some prev =>
      have hs : updStep (supParams P) ⟨store, log, ns⟩ (n, e) =
          ⟨store.set (0, n) e, log ++ [callInherit P n e prev], ns⟩ := by
        simp [updStep, supParams, ho, callInherit]
      rw [hs]
      simp only [syncLoad, ho, Option.isSome_some, Bool.not_true, Bool.false_eq_true, if_false, ptrCall2,
        syncStore]
      exact ih _ _ ns

/-- The definition regenerated from the body of `Supervisor.handleEvent` is the model's `handleEvent`
with the supervisor's consumer shape (`supParams`), for every consumer state, every event and every
fault assignment. -/
theorem handleEvent_regenerated_from_source (P : Params) (c : CState) (ev : Event) :
    handleEventIR P c ev = handleEvent (supParams P) 0 c ev := by
  have ho : ∀ t i m, (supParams P).order t i m = m := fun _ _ _ => rfl
  unfold handleEventIR handleEvent
  simp only [ho]
  obtain ⟨h1, n1⟩ := handleEvent_regenerated_from_source_loop1 P c ev ev.del c.store c.log c.ns
  have e1 : (⟨c.store, c.log, c.ns⟩ : CState) = c := rfl
  rw [e1] at h1 n1
  rw [h1]
  simp only
  generalize ev.del.foldl (delStep (supParams P)) c = c1 at n1 ⊢
  obtain ⟨h2, n2⟩ := handleEvent_regenerated_from_source_loop2 P c ev ev.cre c1.store c1.log c1.ns
  have e2 : (⟨c1.store, c1.log, c1.ns⟩ : CState) = c1 := rfl
  rw [e2] at h2 n2
  rw [h2]
  simp only
  generalize ev.cre.foldl (creStep (supParams P)) c1 = c2 at n2 ⊢
  obtain ⟨h3, n3⟩ := handleEvent_regenerated_from_source_loop3 P c ev ev.upd c2.store c2.log c2.ns
  have e3 : (⟨c2.store, c2.log, c2.ns⟩ : CState) = c2 := rfl
  rw [e3] at h3 n3
  rw [h3]
  simp only
  generalize ev.upd.foldl (updStep (supParams P)) c2 = c3 at n3 ⊢
  obtain ⟨s3, l3, b3⟩ := c3
  simp only at n3
  rw [n3, n2, n1]

/-! ### `TrafficController._cleanSpace` -/

/-- The definition regenerated from the body of `_cleanSpace` is the model's `cleanSpace`, for
every consumer state. -/
theorem cleanSpace_regenerated_from_source (c : CState) : cleanSpaceIR c = cleanSpace c := by
  obtain ⟨store, log, ns⟩ := c
  unfold cleanSpaceIR cleanSpace slotOf
  simp only
  cases h1 : store.filter (fun e => e.1.1 == 1) <;> cases h0 : store.filter (fun e => e.1.1 == 0) <;>
    simp

end EgVerif.Lifecycle
