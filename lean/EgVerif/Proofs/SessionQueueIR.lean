import EgVerif.Model.Delivery
import EgVerif.Model.SessionQueue
import EgVerif.Gen.FactsC15IR
import EgVerif.Proofs.Topic
/-!
# C15: the definitions regenerated from `broker.go` / `session.go` equal the hand-written model

`Gen/FactsC15IR.lean` is produced on every run by `harness/factextract/facts_c15_ir.go` (irlib) from the
bodies of `Broker.sendMsgToClient`, `Session.getPacketFromMsg / publish / puback / doResend`. Each theorem
below proves the generated definition equal to the model function for ALL inputs; they are re-exported
(together with `extractionFailed = false`) from `Props/C15.lean`.
-/
namespace EgVerif.Delivery
open EgVerif.Topic EgVerif.Gen.FactsC15IR

theorem send_regenerated_from_source_loop (conn : Client → Bool) (s0 : List (Client × Nat)) (nl : Bool)
    (qos : Nat) (sb : List (Client × Nat)) : ∀ (l : List (Client × Nat)) (out : List (Client × Nat)),
    sendIR_loop1 conn s0 nl qos out sb l = .inr (out ++ (send conn qos l).map (fun c => (c, qos))) := by
  intro l
  induction l with
  | nil => intro out; simp [sendIR_loop1, send]
  | cons p r ih =>
    intro out
    obtain ⟨c, sq⟩ := p
    simp only [sendIR_loop1, send]
    by_cases h : sq < qos
    · simp only [h, decide_true, if_true]; exact ih out
    · simp only [h, decide_false, Bool.false_eq_true, if_false]
      by_cases hc : conn c = true
      · simp only [getClientE, hc, if_true, Option.isNone_some, Bool.false_eq_true, if_false, Option.getD_some]
        rw [ih]; simp
      · simp only [getClientE, hc, Bool.false_eq_true, if_false, Option.isNone_none, if_true]
        exact ih out

/-- `Broker.sendMsgToClient`: for every visiting order `subs` of the subscriber map the generated loop calls
`session.publish` exactly for `Model.Delivery.send conn qos subs`, each with the message's QoS; a nil map
(`findSubscribers` failed) reaches nobody. -/
theorem send_regenerated_from_source (conn : Client → Bool) (subs : List (Client × Nat)) (qos : Nat) :
    sendIR conn subs false qos = (send conn qos subs).map (fun c => (c, qos)) ∧
    sendIR conn subs true qos = [] := by
  constructor
  · simp [sendIR, send_regenerated_from_source_loop]
  · simp [sendIR]

end EgVerif.Delivery

namespace EgVerif.SessionQueue
open EgVerif.Topic (alGet alSet alErase)
open EgVerif.Gen.FactsC15IR

theorem getPacket_regenerated_from_source_loop (s : Sess) (m : Msg) (pid pq : Nat) (pt pp : String) :
    ∀ (fuel : Nat) (next : Nat) (n : Int),
    getPacketIR_loop1 s m s.pending next pid pq pt pp () n fuel = .inr (skipPending fuel s.pending next) := by
  intro fuel
  induction fuel with
  | zero => intro next n; rfl
  | succ f ih =>
    intro next n
    cases hg : alGet next s.pending with
    | none => simp [getPacketIR_loop1, lookupMsg, skipPending, hg]
    | some v => simp [getPacketIR_loop1, lookupMsg, skipPending, hg, ih]

/-- `Session.getPacketFromMsg` (repaired, fix `C15-packet-id-skip-pending`): ids that are still keys of `pending`
are skipped (bounded loop of 65 536 steps), the packet carries the id found, the counter steps past it. -/
theorem getPacket_regenerated_from_source (s : Sess) (m : Msg) :
    getPacketIR s m = (pkt (freeId s.pending s.nextID) m, (freeId s.pending s.nextID + 1) % idMod) := by
  unfold getPacketIR
  dsimp only
  rw [getPacket_regenerated_from_source_loop]
  rfl

/-- `Session.publish` -/
theorem publish_regenerated_from_source (online full : Bool) (m : Msg) (s : Sess) :
    publishIR online full m s = publish online full m s := by
  obtain ⟨pend, q, n⟩ := s
  obtain ⟨t, pl, qos⟩ := m
  cases online
  · simp [publishIR, publish, clientOf]
  · by_cases h0 : qos = 0
    · subst h0
      cases full <;> simp [publishIR, publish, clientOf, pkt]
    · by_cases h1 : qos = 1
      · subst h1
        simp [publishIR, publish, clientOf, pkt]
      · simp [publishIR, publish, clientOf, h0, h1]

/-- `Session.puback` -/
theorem puback_regenerated_from_source (i : Nat) (s : Sess) : pubackIR i s = puback i s := rfl

/-- `processPublish` (client.go): a PUBACK carrying the inbound packet's id is written iff its QoS is 1 — the
PUBACK part of `onPublish` once the publish limiter admitted the packet and the pipeline did not object -/
theorem processPublish_regenerated_from_source (qos i : Nat) :
    processPublishIR qos i = (onPublish true .ok qos i).puback.toList ∧
    processPublishIR qos i = (onPublish true .notConfigured qos i).puback.toList := by
  unfold processPublishIR onPublish
  by_cases h0 : qos = 0
  · subst h0; simp
  · by_cases h1 : qos = 1
    · subst h1; simp
    · simp [h0, h1]

theorem doResend_regenerated_from_source_loop (online : Bool) (s : Sess) (P : List (Nat × Msg)) (Q : List Nat)
    (n : Nat) (out : List Packet) (client : Option Unit) :
    ∀ (q pre : List Nat) (pid pq : Nat) (pt pp : String), Q = pre ++ q →
    doResendIR_loop1 online s P Q n out pid pq pt pp client pre.length q =
      match firstPending q P with
      | none => .inr (Q, out)
      | some (q', j, m) => .inl ((⟨P, q', n⟩ : Sess), if client.isSome then out ++ [pkt j m] else out) := by
  intro q
  induction q with
  | nil => intro pre pid pq pt pp _; simp [doResendIR_loop1, firstPending]
  | cons idx r ih =>
    intro pre pid pq pt pp hQ
    cases hg : alGet idx P with
    | some m =>
      have hd : Q.drop pre.length = idx :: r := by rw [hQ]; simp
      simp only [doResendIR_loop1, firstPending, lookupMsg, hg, Bool.false_eq_true, if_false, if_true, hd, pkt]
    | none =>
      simp only [doResendIR_loop1, firstPending, lookupMsg, hg, Bool.false_eq_true, if_false]
      have := ih (pre ++ [idx]) pid pq pt pp (by rw [hQ]; simp)
      simpa using this

/-- `Session.doResend` -/
theorem doResend_regenerated_from_source (online : Bool) (s : Sess) :
    doResendIR online s = doResend online s := by
  obtain ⟨pend, q, n⟩ := s
  cases pend with
  | nil => simp [doResendIR, doResend]
  | cons e pr =>
    simp only [doResendIR, doResend, List.length_cons, List.isEmpty_cons, Bool.false_eq_true, if_false]
    have hne : (pr.length + 1 == 0) = false := by simp
    simp only [hne, Bool.false_eq_true, if_false]
    have hl := doResend_regenerated_from_source_loop online ⟨e :: pr, q, n⟩ (e :: pr) q n [] (clientOf online)
      q [] 0 0 "" "" rfl
    simp only [List.length_nil] at hl
    rw [hl]
    cases hf : firstPending q (e :: pr) with
    | none => rfl
    | some x =>
      obtain ⟨q', j, m⟩ := x
      cases online <;> simp [clientOf]

end EgVerif.SessionQueue

namespace EgVerif.Topic
open EgVerif.Gen.FactsC15IR

theorem addClients_regenerated_from_source_loop (cls ans0 : List (Client × Nat)) :
    ∀ (l ans : List (Client × Nat)), addClientsIR_loop1 cls ans0 ans l = .inr (l.foldl addMaxStep ans) := by
  intro l
  induction l with
  | nil => intro ans; rfl
  | cons p r ih =>
    intro ans
    obtain ⟨c, q⟩ := p
    cases hg : alGet c ans with
    | none => simp [addClientsIR_loop1, lookupQ, List.foldl_cons, addMaxStep, hg, ih]
    | some old =>
      by_cases h : q > old <;> simp [addClientsIR_loop1, lookupQ, List.foldl_cons, addMaxStep, hg, h, ih]

/-- **`topicNode.addClients`** (the site of fix bcc037f): the loop keeps, per client, the larger of the QoS
already in the result map and the node's — `Model.Topic.addMax`. -/
theorem addClients_regenerated_from_source (cls ans : List (Client × Nat)) :
    addClientsIR cls ans = addMax cls ans := by
  simp [addClientsIR, addMax, addClients_regenerated_from_source_loop]

/-- combination of "already in the map" and "highest own QoS among the new hits" -/
def optMax : Option Nat → Option Nat → Option Nat
  | none, x => x
  | x, none => x
  | some a, some b => some (max a b)

theorem alGet_addMaxStep (c : Client) (ans : List (Client × Nat)) (p : Client × Nat) :
    alGet c (addMaxStep ans p) = if p.1 = c then optMax (alGet c ans) (some p.2) else alGet c ans := by
  obtain ⟨c', q⟩ := p
  simp only [addMaxStep]
  by_cases e : c' = c
  · subst e
    cases hg : alGet c' ans with
    | none => simp [alGet_alSet, optMax]
    | some old =>
      by_cases h : q > old
      · have : max old q = q := by omega
        simp [h, alGet_alSet, optMax, this]
      · have : max old q = old := by omega
        simp [h, hg, optMax, this]
  · have e' : ¬ c = c' := fun x => e x.symm
    cases hg : alGet c' ans with
    | none => simp [alGet_alSet, e, e']
    | some old => by_cases h : q > old <;> simp [h, alGet_alSet, e, e']

theorem optMax_assoc_own (a : Option Nat) (q : Nat) (o : Option Nat) :
    optMax (optMax a (some q)) o = optMax a (match o with | some q' => some (max q q') | none => some q) := by
  cases a <;> cases o <;> simp [optMax, Nat.max_assoc]

/-- the map built by successive `addClients` calls holds, per client, the maximum of what was there and of its
own hits — so starting from the empty map it is `collapseMax` of all hits, as a map -/
theorem alGet_addMax (c : Client) : ∀ (l ans : List (Client × Nat)),
    alGet c (addMax l ans) = optMax (alGet c ans) (ownMax c l) := by
  intro l
  induction l with
  | nil => intro ans; cases h : alGet c ans <;> simp [addMax, ownMax, optMax, h]
  | cons p r ih =>
    intro ans
    obtain ⟨c', q⟩ := p
    have hstep : addMax ((c', q) :: r) ans = addMax r (addMaxStep ans (c', q)) := rfl
    rw [hstep, ih, alGet_addMaxStep]
    simp only [ownMax]
    by_cases e : c' = c
    · simp only [e, if_true]
      exact optMax_assoc_own _ _ _
    · simp only [e, if_false]

theorem addMax_eq_collapseMax_map (hits : List (Client × Nat)) (c : Client) :
    alGet c (addMax hits []) = alGet c (collapseMax hits) := by
  rw [alGet_addMax, alGet_collapseMax]
  simp [alGet, optMax]

theorem addMax_append (h1 h2 ans : List (Client × Nat)) : addMax h2 (addMax h1 ans) = addMax (h1 ++ h2) ans := by
  simp [addMax, List.foldl_append]

end EgVerif.Topic
