import EgVerif.Model.SessionQueue
import EgVerif.Gen.FactsC15IR
/-!
# C15: the definitions regenerated from `broker.go` / `session.go` equal the hand-written model

`Gen/FactsC15IR.lean` is produced on every run by `harness/factextract/facts_c15_ir.go` (irlib) from the
bodies of `Broker.sendMsgToClient`, `Session.getPacketFromMsg / publish / puback / doResend`. Each theorem
below proves the generated definition equal to the model function for ALL inputs; they are re-exported
(together with `extractionFailed = false`) from `Props/C15.lean`.
-/
namespace EgVerif.SessionQueue
open EgVerif.Topic (alGet alSet alErase)
open EgVerif.Gen.FactsC15IR

theorem getPacket_regenerated_from_source_loop (s : Sess) (m : Msg) (pid pq : Nat) (pt pp : String) :
    ∀ (fuel : Nat) (next : Nat) (n : Int),
    getPacketIR_loop1 s m s.pending next pid pq pt pp () n fuel = .inr (skipPending fuel s.pending next) := by
  intro fuel
  induction fuel with
  | zero => intro next n; rfl
  | succ f ih =>
    intro next n
    cases hg : alGet next s.pending with
    | none => simp [getPacketIR_loop1, lookupMsg, skipPending, hg]
    | some v => simp [getPacketIR_loop1, lookupMsg, skipPending, hg, ih]

/-- `Session.getPacketFromMsg` (repaired, fix `C15-packet-id-skip-pending`): ids that are still keys of `pending`
are skipped (bounded loop of 65 536 steps), the packet carries the id found, the counter steps past it. -/
theorem getPacket_regenerated_from_source (s : Sess) (m : Msg) :
    getPacketIR s m = (pkt (freeId s.pending s.nextID) m, (freeId s.pending s.nextID + 1) % idMod) := by
  unfold getPacketIR
  dsimp only
  rw [getPacket_regenerated_from_source_loop]
  rfl

/-- `Session.publish` -/
theorem publish_regenerated_from_source (online full : Bool) (m : Msg) (s : Sess) :
    publishIR online full m s = publish online full m s := by
  obtain ⟨pend, q, n⟩ := s
  obtain ⟨t, pl, qos⟩ := m
  cases online
  · simp [publishIR, publish, clientOf]
  · by_cases h0 : qos = 0
    · subst h0
      cases full <;> simp [publishIR, publish, clientOf, pkt]
    · by_cases h1 : qos = 1
      · subst h1
        simp [publishIR, publish, clientOf, pkt]
      · simp [publishIR, publish, clientOf, h0, h1]

/-- `Session.puback` -/
theorem puback_regenerated_from_source (i : Nat) (s : Sess) : pubackIR i s = puback i s := rfl

theorem doResend_regenerated_from_source_loop (online : Bool) (s : Sess) (P : List (Nat × Msg)) (Q : List Nat)
    (n : Nat) (out : List Packet) (client : Option Unit) :
    ∀ (q pre : List Nat) (pid pq : Nat) (pt pp : String), Q = pre ++ q →
    doResendIR_loop1 online s P Q n out pid pq pt pp client pre.length q =
      match firstPending q P with
      | none => .inr (Q, out)
      | some (q', j, m) => .inl ((⟨P, q', n⟩ : Sess), if client.isSome then out ++ [pkt j m] else out) := by
  intro q
  induction q with
  | nil => intro pre pid pq pt pp _; simp [doResendIR_loop1, firstPending]
  | cons idx r ih =>
    intro pre pid pq pt pp hQ
    cases hg : alGet idx P with
    | some m =>
      have hd : Q.drop pre.length = idx :: r := by rw [hQ]; simp
      simp only [doResendIR_loop1, firstPending, lookupMsg, hg, Bool.false_eq_true, if_false, if_true, hd, pkt]
    | none =>
      simp only [doResendIR_loop1, firstPending, lookupMsg, hg, Bool.false_eq_true, if_false]
      have := ih (pre ++ [idx]) pid pq pt pp (by rw [hQ]; simp)
      simpa using this

/-- `Session.doResend` -/
theorem doResend_regenerated_from_source (online : Bool) (s : Sess) :
    doResendIR online s = doResend online s := by
  obtain ⟨pend, q, n⟩ := s
  cases pend with
  | nil => simp [doResendIR, doResend]
  | cons e pr =>
    simp only [doResendIR, doResend, List.length_cons, List.isEmpty_cons, Bool.false_eq_true, if_false]
    have hne : (pr.length + 1 == 0) = false := by simp
    simp only [hne, Bool.false_eq_true, if_false]
    have hl := doResend_regenerated_from_source_loop online ⟨e :: pr, q, n⟩ (e :: pr) q n [] (clientOf online)
      q [] 0 0 "" "" rfl
    simp only [List.length_nil] at hl
    rw [hl]
    cases hf : firstPending q (e :: pr) with
    | none => rfl
    | some x =>
      obtain ⟨q', j, m⟩ := x
      cases online <;> simp [clientOf]

end EgVerif.SessionQueue
