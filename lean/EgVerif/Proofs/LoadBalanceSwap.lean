import EgVerif.Proofs.LoadBalance
import EgVerif.Spec.LoadBalance
/-!
# C04 — which generation a selection uses (audit repair, engineer mux)

`swap_linearizable` only said "some balancer published at some time of the run". These lemmas pin the
generation: a pick of thread `t` uses the balancer that was current at `t`'s **latest load before the
pick** — the one built from the last list published before that load — with the counter value it
fetched from *that* balancer. Everything is stated on decompositions of the event list, without the
model's bookkeeping (`held`).
-/
namespace EgVerif.LoadBalance

/-- the pool after a prefix of events -/
def after : Pool → List Ev → Pool
  | p, [] => p
  | p, e :: es => after (step p e).1 es

theorem run_append : ∀ (p : Pool) (xs ys : List Ev), run p (xs ++ ys) = run p xs ++ run (after p xs) ys
  | _, [], _ => rfl
  | p, e :: es, ys => by simp [run, after, run_append (step p e).1 es ys]

theorem after_policy : ∀ (p : Pool) (es : List Ev), (after p es).policy = p.policy
  | _, [] => rfl
  | p, e :: es => by rw [after, after_policy, step_policy]

theorem after_gens : ∀ (p : Pool) (es : List Ev),
    (after p es).gens.map (·.1) = p.gens.map (·.1) ++ (stores es).map (newLB p.policy)
  | _, [] => by simp [after, stores]
  | p, e :: es => by
    rw [after, after_gens, step_gens, step_policy, stores_cons e es, List.map_append, List.append_assoc]

theorem after_gens_length (p : Pool) (es : List Ev) :
    (after p es).gens.length = p.gens.length + (stores es).length := by
  have := congrArg List.length (after_gens p es)
  simpa using this

theorem stores_append (xs ys : List Ev) : stores (xs ++ ys) = stores xs ++ stores ys := by
  induction xs with
  | nil => rfl
  | cons e es ih => rw [List.cons_append, stores_cons, stores_cons e es, ih, List.append_assoc]

/-- `t` loads nowhere in `es` -/
def NoLoad (t : Nat) (es : List Ev) : Prop := ∀ e ∈ es, e ≠ Ev.load t

theorem step_held_other (p : Pool) (e : Ev) (t : Nat) (h : e ≠ Ev.load t) :
    (step p e).1.held.lookup t = p.held.lookup t := by
  cases e with
  | load t' =>
    have hne : t ≠ t' := by intro h'; subst h'; exact h rfl
    have hb : (t == t') = false := by simpa using hne
    simp [step, List.lookup, hb]
  | store ss => rfl
  | pick t' x =>
    simp only [step]
    split
    · rfl
    · split <;> rfl

theorem after_held_noLoad (t : Nat) : ∀ (es : List Ev) (p : Pool), NoLoad t es →
    (after p es).held.lookup t = p.held.lookup t
  | [], _, _ => rfl
  | e :: es, p, h => by
    rw [after, after_held_noLoad t es _ (fun e' he' => h e' (List.mem_cons_of_mem _ he')),
      step_held_other p e t (h e List.mem_cons_self)]

/-- after `pre1 ++ load t :: pre2` with no later load of `t`, the thread holds the generation that was
current at that load -/
theorem after_held_load (t : Nat) (pre2 : List Ev) (h2 : NoLoad t pre2) : ∀ (pre1 : List Ev) (p : Pool),
    (after p (pre1 ++ Ev.load t :: pre2)).held.lookup t = some (p.gens.length + (stores pre1).length - 1)
  | [], p => by
    simp only [List.nil_append, after]
    rw [after_held_noLoad t pre2 _ h2]
    simp [step, stores]
  | e :: pre1, p => by
    have hl : (step p e).1.gens.length = p.gens.length + (stores [e]).length := by
      have := congrArg List.length (step_gens p e)
      simpa using this
    simp only [List.cons_append, after]
    rw [after_held_load t pre2 h2 pre1 (step p e).1, hl, stores_cons e pre1, List.length_append]
    congr 1; omega

/-- last occurrence -/
theorem exists_last_occurrence {α : Type} (a : α) : ∀ (l : List α), a ∈ l →
    ∃ l1 l2, l = l1 ++ a :: l2 ∧ a ∉ l2
  | [], h => by cases h
  | b :: l, h => by
    by_cases hin : a ∈ l
    · obtain ⟨l1, l2, rfl, hn⟩ := exists_last_occurrence a l hin
      exact ⟨b :: l1, l2, rfl, hn⟩
    · have : a = b := by
        rcases List.mem_cons.mp h with h | h
        · exact h
        · exact absurd h hin
      subst this
      exact ⟨[], l, rfl, hin⟩

/-- every output carries the index of the balancer it was computed on and the counter it fetched there -/
theorem run_out_gen : ∀ (evs : List Ev) (p : Pool), ∀ o ∈ run p evs,
    ∃ (lb : LB) (x : Sel), (p.gens.map Prod.fst ++ (stores evs).map (newLB p.policy))[o.gen]? = some lb ∧
      o.res = choose lb { x with counter := o.counter }
  | [], _, o, ho => by simp [run] at ho
  | e :: es, p, o, ho => by
    simp only [run, List.mem_append, Option.mem_toList] at ho
    rcases ho with ho | ho
    · cases e with
      | load t => simp [step] at ho
      | store ss => simp [step] at ho
      | pick t x =>
        cases hh : p.held.lookup t with
        | none => simp [step, hh] at ho
        | some g =>
          cases hget : p.gens[g]? with
          | none => simp [step, hh, hget] at ho
          | some lc =>
            obtain ⟨lb, c⟩ := lc
            simp only [step, hh, hget, Option.some.injEq] at ho
            subst ho
            refine ⟨lb, x, ?_, rfl⟩
            have hg : (p.gens.map Prod.fst)[g]? = some lb := by simp [hget]
            have hlt : g < (p.gens.map Prod.fst).length := by
              rcases Nat.lt_or_ge g (p.gens.map Prod.fst).length with h | h
              · exact h
              · rw [List.getElem?_eq_none h] at hg; cases hg
            rw [List.getElem?_append_left hlt]; exact hg
    · obtain ⟨lb, x, h1, h2⟩ := run_out_gen es (step p e).1 o ho
      refine ⟨lb, x, ?_, h2⟩
      rw [step_gens, step_policy] at h1
      rw [stores_cons e es, List.map_append, ← List.append_assoc]
      exact h1

/-- **The generation a selection uses.** If the pick of thread `t` that follows the events `pre`
produces an output, then `t` loaded before (`pre = pre1 ++ load t :: pre2`, no later load of `t`), the
output's generation index is the number of lists published before that load, the balancer is the one
built from the **last list published before that load** (`ss0` if none), and the counter is what was
fetched from that balancer. Lists published after the load (in `pre2`) play no role. -/
theorem pick_uses_generation_of_last_load (policy : String) (ss0 : List Server) (pre : List Ev)
    (t : Nat) (x : Sel) (o : Out)
    (h : (step (after (Pool.init policy ss0) pre) (Ev.pick t x)).2 = some o) :
    ∃ pre1 pre2 ss, pre = pre1 ++ Ev.load t :: pre2 ∧ NoLoad t pre2 ∧
      o.thread = t ∧ o.gen = (stores pre1).length ∧
      (ss0 :: stores pre1).getLast? = some ss ∧
      o.res = choose (newLB policy ss) { x with counter := o.counter } := by
  -- the thread holds a generation, so it has loaded
  have hload : Ev.load t ∈ pre := by
    by_contra hn
    have hnl : NoLoad t pre := fun e he heq => hn (heq ▸ he)
    have := after_held_noLoad t pre (Pool.init policy ss0) hnl
    simp only [step] at h
    rw [this] at h
    simp [Pool.init] at h
  obtain ⟨pre1, pre2, hpre, hn2⟩ := exists_last_occurrence _ pre hload
  have hnl2 : NoLoad t pre2 := fun e he heq => hn2 (heq ▸ he)
  have hheld := after_held_load t pre2 hnl2 pre1 (Pool.init policy ss0)
  rw [← hpre] at hheld
  have hg0 : (Pool.init policy ss0).gens.length + (stores pre1).length - 1 = (stores pre1).length := by
    simp [Pool.init]
  rw [hg0] at hheld
  simp only [step, hheld] at h
  split at h
  · simp at h
  · rename_i lb c hget
    simp only [Option.some.injEq] at h
    subst h
    -- the balancer at that index
    have hgens := after_gens (Pool.init policy ss0) pre
    have hlb : ((after (Pool.init policy ss0) pre).gens.map (·.1))[(stores pre1).length]? = some lb := by
      simp [hget]
    rw [hgens] at hlb
    have hst : stores pre = stores pre1 ++ stores pre2 := by
      rw [hpre, stores_append, stores_cons (Ev.load t) pre2]; simp [stores]
    simp only [Pool.init, List.map_cons, List.map_nil, List.singleton_append] at hlb
    have hlist : (newLB policy ss0 :: (stores pre).map (newLB policy)) =
        ((ss0 :: stores pre1).map (newLB policy)) ++ (stores pre2).map (newLB policy) := by
      rw [hst]; simp
    rw [hlist, List.getElem?_append_left (by simp)] at hlb
    rw [List.getElem?_map] at hlb
    cases hss : (ss0 :: stores pre1)[(stores pre1).length]? with
    | none => rw [hss] at hlb; cases hlb
    | some ss =>
      rw [hss] at hlb
      simp only [Option.map_some, Option.some.injEq] at hlb
      refine ⟨pre1, pre2, ss, hpre, hnl2, rfl, rfl, ?_, ?_⟩
      · rw [List.getLast?_eq_getElem?]; simpa using hss
      · rw [hlb]

/-! ### the judge's `windowOK` -/

/-- url a selection reports to the judge -/
def resUrl : Res → Option String
  | .srv s => some s.url
  | _ => none

/-- `windowOK` holds as soon as the generation actually used lies in the window and the result came
from its list. -/
theorem windowOK_of_gen (lists : List (List String)) (a b g : Nat) (l : List String) (u : Option String)
    (ha : a ≤ g) (hb : g ≤ b) (hl : lists[g]? = some l)
    (hu : match u with | none => l.isEmpty = true | some x => l.contains x = true) :
    windowOK lists a b u = true := by
  unfold windowOK
  rw [List.any_eq_true]
  refine ⟨g - a, by simp; omega, ?_⟩
  have : a + (g - a) = g := by omega
  rw [this, hl]
  cases u with
  | none => simpa using hu
  | some x => simpa using hu

end EgVerif.LoadBalance
