import EgVerif.Proofs.Retry
import EgVerif.Model.CircuitBreaker
import Mathlib.Tactic.FieldSimp
import Mathlib.Tactic.Positivity
import EgVerif.Gen.FactsC10IR
import EgVerif.Gen.FactsC10IRp
import EgVerif.Gen.FactsC10IRc
/-!
# C10 — the regenerated tie by translation (notes/IR.md, "Extension resil")

`Gen/FactsC10IR.lean` is produced on every run by the go/ast → Lean micro-translator from the bodies of
`RetryPolicy.Wrap` (the returned closure), `RetryPolicy.CreateWrapper`, `ServerPool.doHandle`,
`ServerPool.handle` and its handler closure. The `<fn>_regenerated_from_source` theorems prove the
generated definitions equal to the hand-written mirrors in `Model/Retry.lean` **for all inputs**; the
bridge lemmas below connect the generic mirror (`wrapG`, opaque float algebra) to the model the property
theorems are about (`retryLoopWith`, exact fractions).
-/
namespace EgVerif.Retry
open EgVerif.Gen.FactsC10IR EgVerif.Gen.FactsC10IRp EgVerif.Gen.FactsC10IRc

/-- result of the closure from the loop's `Sum` (early `return` inside / falling out of the loop) -/
def finG {F : Type} : Sum RunG (List EventG × Option Nat × Nat × Nat × Option SPErr × F) → RunG
  | .inl r => r
  | .inr (ev, resp, _, _, err, _) => ⟨ev, err, resp⟩

/-- the translated attempt loop is the model's loop; the two counters of the translation (handler calls,
selects) stay equal at every loop head -/
theorem wrap_regenerated_from_source_loop {F : Type} (A : FloatOps F) (p : RetryPolicy) (f : F)
    (h : Nat → Option Nat → Option SPErr × Option Nat) (env : EnvG) (resp0 : Option Nat) :
    ∀ (fuel : Nat) (events : List EventG) (resp : Option Nat) (k : Nat) (err : Option SPErr) (base : F)
      (attempt : Int),
      finG (wrapIR_loop1 A p f h env resp0 events resp k k err base attempt fuel) =
        ⟨events ++ (wrapLoopG A h p.exponential f env fuel k base (err, resp)).events,
         (wrapLoopG A h p.exponential f env fuel k base (err, resp)).err,
         (wrapLoopG A h p.exponential f env fuel k base (err, resp)).resp⟩ := by
  intro fuel
  induction fuel with
  | zero => intro events resp k err base attempt; simp [wrapIR_loop1, wrapLoopG, finG]
  | succ n ih =>
    intro events resp k err base attempt
    unfold wrapIR_loop1 wrapLoopG
    cases hh : h k resp with
    | mk e r =>
      cases e with
      | none => simp [finG]
      | some e =>
        by_cases hd : env.done k = true
        · simp [finG, hd]
        · simp only [Bool.not_eq_true] at hd
          simp only [Option.isNone_some, Bool.false_eq_true, if_false, hd, backoffG, nextBaseG]
          rw [ih]
          simp [List.append_assoc]

/-- **`RetryPolicy.Wrap` (the returned closure), regenerated from the source, is the model's `wrapG`**:
for every float algebra, policy, handler oracle and environment. -/
theorem wrap_regenerated_from_source {F : Type} (A : FloatOps F) (p : RetryPolicy) (f : F)
    (h : Nat → Option Nat → Option SPErr × Option Nat) (env : EnvG) (resp0 : Option Nat) :
    wrapIR A p f h env resp0 = wrapG A p f h env resp0 := by
  have := wrap_regenerated_from_source_loop A p f h env resp0 (p.maxAttempts - 0).toNat [] resp0 0 none
    (A.ofInt (p.wait : Int)) 0
  have eta : ∀ X : RunG, (⟨[] ++ X.events, X.err, X.resp⟩ : RunG) = X := by intro X; cases X; simp
  unfold wrapIR wrapG
  simp only [Int.sub_zero] at this ⊢
  rw [eta] at this
  generalize wrapIR_loop1 A p f h env resp0 [] resp0 0 0 none (A.ofInt ↑p.wait) 0 p.maxAttempts.toNat = L at this ⊢
  cases L with
  | inl r => simpa [finG] using this
  | inr t =>
    obtain ⟨ev, resp, nc, ns, err, base⟩ := t
    simpa [finG] using this

/-- **`RetryPolicy.CreateWrapper`, regenerated from the source**: the wait duration becomes the parsed
`WaitDuration` when the string is non-empty, and 500 ms when the result is ≤ 0. -/
theorem createWrapper_regenerated_from_source (wd0 : Int) (ws : String) (parse : String → Int × Bool) :
    createWrapperIR wd0 ws parse = createWrapperG wd0 ws parse := by
  unfold createWrapperIR createWrapperG createWrapper
  by_cases h1 : ws = ""
  · by_cases h2 : wd0 ≤ 0
    · simp [h1, h2]
    · simp [h1, h2]; omega
  · by_cases h2 : (parse ws).1 ≤ 0
    · simp [h1, h2]
    · simp [h1, h2]; omega

/-- **`ServerPool.doHandle`, regenerated from the source, is the model's classification** of what the
environment answers (`DoEnv.attempt` fixes the precedence of the checks). -/
theorem doHandle_regenerated_from_source (fc : List Nat) (o : DoEnv) (resp0 : Option Nat) :
    doHandleIR fc o resp0 = doHandle fc o.attempt resp0 := by
  obtain ⟨ns, pf, sf, ce, bf, st⟩ := o
  unfold doHandleIR DoEnv.attempt
  cases ns <;> cases pf <;> cases sf <;> cases bf <;> cases ce <;> simp [doHandle]

/-! ### bridge: the generic mirror and the model of the property theorems

`wrapG` (any float algebra) and `retryLoopWith` (exact fractions) make the same calls, stop at the same
`select`, and return the same error / response; they differ only in how a sleep's duration is written. -/

/-- an event without its duration -/
inductive Skel
  | call (k : Nat) | sleep (k : Nat) | stop (k : Nat)
deriving Repr, DecidableEq

def Event.skel : Event → Skel
  | .call k => .call k
  | .sleep k _ _ => .sleep k
  | .stop k => .stop k

def EventG.skel : EventG → Skel
  | .call k => .call k
  | .sleep k _ => .sleep k
  | .stop k => .stop k

def callsS (evs : List Skel) : List Nat :=
  evs.filterMap (fun e => match e with | .call k => some k | _ => none)

theorem calls_eq_callsS (evs : List Event) : calls evs = callsS (evs.map Event.skel) := by
  induction evs with
  | nil => rfl
  | cons e t ih =>
    cases e <;> simp_all [calls, callsS, Event.skel]

theorem wrapLoopG_refines {F : Type} (A : FloatOps F) (h : Nat → Option Nat → Option SPErr × Option Nat)
    (p : RetryPolicy) (f : F) (env : EnvG) (envM : Env) (hd : ∀ k, envM.done k = env.done k) :
    ∀ (fuel k : Nat) (base : F) (prev : Option SPErr × Option Nat),
      (wrapLoopG A h p.exponential f env fuel k base prev).events.map EventG.skel =
        (retryLoopWith h p envM fuel k prev).events.map Event.skel ∧
      (wrapLoopG A h p.exponential f env fuel k base prev).err = (retryLoopWith h p envM fuel k prev).err ∧
      (wrapLoopG A h p.exponential f env fuel k base prev).resp = (retryLoopWith h p envM fuel k prev).resp := by
  intro fuel
  induction fuel with
  | zero => intro k base prev; simp [wrapLoopG, retryLoopWith]
  | succ n ih =>
    intro k base prev
    unfold wrapLoopG retryLoopWith
    cases hh : h k prev.2 with
    | mk e r =>
      cases e with
      | none => simp [EventG.skel, Event.skel]
      | some e =>
        by_cases hk : env.done k = true
        · simp [hd, hk, EventG.skel, Event.skel]
        · simp only [Bool.not_eq_true] at hk
          obtain ⟨h1, h2, h3⟩ := ih (k + 1) (nextBaseG A p.exponential base) (some e, r)
          simp [hd, hk, EventG.skel, Event.skel, h1, h2, h3]

/-- **The translated closure refines the model of the property theorems** (`retryLoopWith`, which
`inner` / `handle` use): same calls, sleeps and stop in the same order, same final error and response —
for every float algebra, so in particular for `float64`. -/
theorem wrapIR_refines_model {F : Type} (A : FloatOps F) (p : RetryPolicy) (f : F)
    (h : Nat → Option Nat → Option SPErr × Option Nat) (env : EnvG) (envM : Env)
    (hd : ∀ k, envM.done k = env.done k) (resp0 : Option Nat) :
    (wrapIR A p f h env resp0).events.map EventG.skel =
        (retryLoopWith h p envM p.maxAttempts.toNat 0 (none, resp0)).events.map Event.skel ∧
      (wrapIR A p f h env resp0).err = (retryLoopWith h p envM p.maxAttempts.toNat 0 (none, resp0)).err ∧
      (wrapIR A p f h env resp0).resp = (retryLoopWith h p envM p.maxAttempts.toNat 0 (none, resp0)).resp := by
  rw [wrap_regenerated_from_source]
  exact wrapLoopG_refines A h p f env envM hd _ _ _ _

/-! ### durations: the exact rational instance of the float algebra

`ratOps` computes the back-off exactly; `time.Duration(d)` / `int(x)` truncate toward zero. (The Go code
computes in `float64`: rounding is not modelled — the theorems below are about the exact instance.) -/

/-- Go's float → integer conversion: truncation toward zero -/
def truncQ (q : Rat) : Int := if 0 ≤ q then q.floor else -((-q).floor)

def ratOps : FloatOps Rat :=
  ⟨fun n => (n : Rat), fun a b => a + b, fun a b => a - b, fun a b => a * b, truncQ,
   fun m e => (m : Rat) / (10 : Rat) ^ e⟩

/-- `base` before the `k`-th back-off: `wait · 1.5^k` (exponential) or `wait` -/
def baseQ (p : RetryPolicy) (k : Nat) : Rat :=
  if p.exponential then (p.wait : Rat) * (3 / 2) ^ k else (p.wait : Rat)

/-- the `k`-th back-off `d = base − δ + rand.Intn(int(2δ+1))`, `δ = base·f`, before truncation -/
def durQ (p : RetryPolicy) (f : Rat) (env : EnvG) (k : Nat) : Rat :=
  baseQ p k - baseQ p k * f + ((env.jitter k (truncQ (baseQ p k * f * 2 + 1)) : Int) : Rat)

theorem baseQ_nonneg (p : RetryPolicy) (k : Nat) : 0 ≤ baseQ p k := by
  unfold baseQ
  have hw : (0 : Rat) ≤ (p.wait : Rat) := by exact_mod_cast Nat.zero_le _
  split
  · exact mul_nonneg hw (pow_nonneg (by norm_num) _)
  · exact hw

theorem ofInt_wait_ratOps (p : RetryPolicy) : ratOps.ofInt (p.wait : Int) = baseQ p 0 := by
  simp [ratOps, baseQ]

theorem nextBaseG_ratOps (p : RetryPolicy) (k : Nat) :
    nextBaseG ratOps p.exponential (baseQ p k) = baseQ p (k + 1) := by
  unfold nextBaseG baseQ
  cases p.exponential
  · simp
  · simp only [if_true, ratOps, pow_succ]
    norm_num
    ring

theorem backoffG_ratOps (p : RetryPolicy) (f : Rat) (env : EnvG) (k : Nat) :
    backoffG ratOps f (baseQ p k) (env.jitter k) = durQ p f env k := by
  simp [backoffG, durQ, ratOps]

/-- **Exact duration of every sleep**: the `j`-th back-off lasts `⌊d_j⌋` ns with
`d_j = base_j − base_j·f + r_j`, `base_j = wait·1.5^j` or `wait`. -/
theorem wrapLoopG_sleeps (h : Nat → Option Nat → Option SPErr × Option Nat) (p : RetryPolicy) (f : Rat)
    (env : EnvG) : ∀ (fuel k : Nat) (prev : Option SPErr × Option Nat) (j : Nat) (dur : Int),
      EventG.sleep j dur ∈ (wrapLoopG ratOps h p.exponential f env fuel k (baseQ p k) prev).events →
      k ≤ j ∧ j < k + fuel ∧ dur = truncQ (durQ p f env j) := by
  intro fuel
  induction fuel with
  | zero => intro k prev j dur hm; simp [wrapLoopG] at hm
  | succ n ih =>
    intro k prev j dur hm
    unfold wrapLoopG at hm
    cases hh : h k prev.2 with
    | mk e r =>
      rw [hh] at hm
      cases e with
      | none => simp at hm
      | some e =>
        by_cases hk : env.done k = true
        · simp [hk] at hm
        · simp only [Bool.not_eq_true] at hk
          simp only [hk, Bool.false_eq_true, if_false, List.mem_cons, reduceCtorEq, false_or,
            EventG.sleep.injEq] at hm
          rcases hm with ⟨rfl, rfl⟩ | hm
          · exact ⟨le_refl _, by omega, by rw [backoffG_ratOps]; rfl⟩
          · rw [nextBaseG_ratOps] at hm
            obtain ⟨h1, h2, h3⟩ := ih (k + 1) _ j dur hm
            exact ⟨by omega, by omega, h3⟩

/-- `rand.Intn`'s contract -/
def JitterOK (env : EnvG) : Prop := ∀ k n, 0 ≤ env.jitter k n ∧ (0 < n → env.jitter k n < n)

theorem truncQ_le {q : Rat} (h : 0 ≤ q) : ((truncQ q : Int) : Rat) ≤ q := by
  unfold truncQ; rw [if_pos h]; exact Rat.floor_le q

theorem lt_truncQ_add_one {q : Rat} (h : 0 ≤ q) : q < ((truncQ q : Int) : Rat) + 1 := by
  unfold truncQ; rw [if_pos h]
  have := Rat.lt_floor_add_one q
  push_cast at this
  exact this

theorem truncQ_nonneg {q : Rat} (h : 0 ≤ q) : 0 ≤ truncQ q := by
  have h1 := lt_truncQ_add_one h
  have h2 : (0 : Rat) < ((truncQ q : Int) : Rat) + 1 := lt_of_le_of_lt h h1
  have h3 : ((-1 : Int) : Rat) < ((truncQ q : Int) : Rat) := by push_cast; linarith
  have := Int.cast_lt.mp h3
  omega

/-- **Every back-off lies in `[base·(1−f), base·(1+f)]`** (before truncation), under `rand.Intn`'s
contract and `0 ≤ f`. -/
theorem durQ_bounds (p : RetryPolicy) (f : Rat) (env : EnvG) (k : Nat) (hf : 0 ≤ f) (hj : JitterOK env) :
    baseQ p k * (1 - f) ≤ durQ p f env k ∧ durQ p f env k ≤ baseQ p k * (1 + f) := by
  have hb := baseQ_nonneg p k
  have hδ : 0 ≤ baseQ p k * f := mul_nonneg hb hf
  have hq : (0 : Rat) ≤ baseQ p k * f * 2 + 1 := by linarith
  obtain ⟨h0, hlt⟩ := hj k (truncQ (baseQ p k * f * 2 + 1))
  have hn1 : baseQ p k * f * 2 + 1 < ((truncQ (baseQ p k * f * 2 + 1) : Int) : Rat) + 1 := lt_truncQ_add_one hq
  have hnpos : 0 < truncQ (baseQ p k * f * 2 + 1) := by
    have : (0 : Rat) < ((truncQ (baseQ p k * f * 2 + 1) : Int) : Rat) := by linarith
    exact_mod_cast this
  have hr := hlt hnpos
  have hr' : ((env.jitter k (truncQ (baseQ p k * f * 2 + 1)) : Int) : Rat) + 1 ≤
      ((truncQ (baseQ p k * f * 2 + 1) : Int) : Rat) := by exact_mod_cast hr
  have hn2 := truncQ_le hq
  have h0' : (0 : Rat) ≤ ((env.jitter k (truncQ (baseQ p k * f * 2 + 1)) : Int) : Rat) := by exact_mod_cast h0
  unfold durQ
  constructor
  · nlinarith
  · nlinarith

/-- total of the sleeps of an event list, ns -/
def sleepTotal : List EventG → Int
  | [] => 0
  | .sleep _ d :: t => d + sleepTotal t
  | _ :: t => sleepTotal t

def sleepCount : List EventG → Nat
  | [] => 0
  | .sleep _ _ :: t => 1 + sleepCount t
  | _ :: t => sleepCount t

/-- `Σ_{k ≤ j < k+n} base_j·(1+f)` -/
def capFrom (p : RetryPolicy) (f : Rat) : Nat → Nat → Rat
  | _, 0 => 0
  | k, n + 1 => baseQ p k * (1 + f) + capFrom p f (k + 1) n

theorem capFrom_nonneg (p : RetryPolicy) (f : Rat) (hf : 0 ≤ f) : ∀ n k, 0 ≤ capFrom p f k n
  | 0, _ => le_refl _
  | n + 1, k => by
    unfold capFrom
    have := capFrom_nonneg p f hf n (k + 1)
    have := mul_nonneg (baseQ_nonneg p k) (by linarith : (0 : Rat) ≤ 1 + f)
    linarith

/-- closed form of the bound: `n·wait·(1+f)` (fixed) / `2·wait·(1+f)·(1.5^(k+n) − 1.5^k)` (exponential) -/
theorem capFrom_closed (p : RetryPolicy) (f : Rat) : ∀ n k,
    capFrom p f k n =
      if p.exponential then 2 * (p.wait : Rat) * (1 + f) * ((3 / 2) ^ (k + n) - (3 / 2) ^ k)
      else (n : Rat) * (p.wait : Rat) * (1 + f)
  | 0, k => by simp [capFrom]
  | n + 1, k => by
    unfold capFrom
    rw [capFrom_closed p f n (k + 1)]
    unfold baseQ
    cases p.exponential
    · simp; ring
    · simp only [if_true]
      rw [show k + 1 + n = k + n + 1 by omega, show k + (n + 1) = k + n + 1 by omega, pow_succ, pow_succ]
      ring

/-- **Total waiting of one wrapped call is bounded** — by the sum over *all* `fuel` attempts, because the
`select` sits inside the loop: after the last failed attempt one more back-off is waited. -/
theorem wrapLoopG_total_le (h : Nat → Option Nat → Option SPErr × Option Nat) (p : RetryPolicy) (f : Rat)
    (env : EnvG) (hf : 0 ≤ f) (hf1 : f ≤ 1) (hj : JitterOK env) :
    ∀ (fuel k : Nat) (prev : Option SPErr × Option Nat),
      ((sleepTotal (wrapLoopG ratOps h p.exponential f env fuel k (baseQ p k) prev).events : Int) : Rat) ≤
        capFrom p f k fuel ∧
      0 ≤ sleepTotal (wrapLoopG ratOps h p.exponential f env fuel k (baseQ p k) prev).events ∧
      sleepCount (wrapLoopG ratOps h p.exponential f env fuel k (baseQ p k) prev).events ≤ fuel := by
  intro fuel
  induction fuel with
  | zero => intro k prev; simp [wrapLoopG, sleepTotal, sleepCount, capFrom]
  | succ n ih =>
    intro k prev
    have hcap := capFrom_nonneg p f hf n (k + 1)
    have hb := mul_nonneg (baseQ_nonneg p k) (by linarith : (0 : Rat) ≤ 1 + f)
    unfold wrapLoopG
    cases hh : h k prev.2 with
    | mk e r =>
      cases e with
      | none =>
        simp only [sleepTotal, sleepCount, capFrom]
        exact ⟨by push_cast; linarith, le_refl _, by omega⟩
      | some e =>
        by_cases hk : env.done k = true
        · simp only [hk, if_true, sleepTotal, sleepCount, capFrom]
          exact ⟨by push_cast; linarith, le_refl _, by omega⟩
        · simp only [Bool.not_eq_true] at hk
          simp only [hk, Bool.false_eq_true, if_false, sleepTotal, sleepCount, capFrom]
          rw [nextBaseG_ratOps, backoffG_ratOps]
          simp only [show ∀ x, ratOps.toInt x = truncQ x from fun _ => rfl]
          obtain ⟨i1, i2, i3⟩ := ih (k + 1) (some e, r)
          obtain ⟨lo, hi⟩ := durQ_bounds p f env k hf hj
          have hd0 : 0 ≤ durQ p f env k := by
            have := mul_nonneg (baseQ_nonneg p k) (by linarith : (0 : Rat) ≤ 1 - f)
            linarith
          have ht := truncQ_le hd0
          have ht0 := truncQ_nonneg hd0
          refine ⟨?_, by omega, by omega⟩
          push_cast
          linarith

/-- when every attempt fails and the client stays, **each of the `fuel` attempts is followed by a
back-off**, the last one included (the observation of DESIGN §10.3, as a theorem) -/
theorem wrapLoopG_all_fail {F : Type} (A : FloatOps F) (h : Nat → Option Nat → Option SPErr × Option Nat)
    (expo : Bool) (f : F) (env : EnvG)
    (hfail : ∀ k r, (h k r).1.isSome = true) (hnd : ∀ k, env.done k = false) :
    ∀ (fuel k : Nat) (base : F) (prev : Option SPErr × Option Nat),
      (wrapLoopG A h expo f env fuel k base prev).events.map EventG.skel =
        (List.range' k fuel).flatMap (fun j => [Skel.call j, Skel.sleep j]) := by
  intro fuel
  induction fuel with
  | zero => intro k base prev; simp [wrapLoopG]
  | succ n ih =>
    intro k base prev
    unfold wrapLoopG
    have := hfail k prev.2
    cases hh : h k prev.2 with
    | mk e r =>
      rw [hh] at this
      cases e with
      | none => simp at this
      | some e =>
        simp only [hnd k, Bool.false_eq_true, if_false, List.map_cons, EventG.skel, List.range'_succ,
          List.flatMap_cons, List.cons_append, List.nil_append, ih]

/-- **`ServerPool.handle`, regenerated from the source, is the model's `handle`**: the retry wrapper is
applied first and only to non-stream requests, the circuit breaker outermost; nil error ⇒ `""`,
`ErrShortCircuited` ⇒ 503 `shortCircuited`, a `serverPoolError` ⇒ its result, with a failure response only
if `spCtx.resp` is still nil. -/
theorem handle_regenerated_from_source (pool : Pool) (stream permitted : Bool) (env : Env) :
    handleIR pool stream permitted env = handle pool stream permitted env := by
  obtain ⟨fc, retry, hasCB⟩ := pool
  unfold handleIR handle inner
  cases retry with
  | none =>
    cases hasCB <;> cases permitted <;> simp [runHF, finish] <;>
      (cases (handler fc env 0 none).1 <;> simp <;> cases (handler fc env 0 none).2 <;> simp)
  | some p =>
    cases stream
    · cases hasCB <;> cases permitted <;> simp [runHF, finish] <;>
        (cases (retryLoop fc p env p.maxAttempts.toNat 0 (none, none)).err <;> simp <;>
          cases (retryLoop fc p env p.maxAttempts.toNat 0 (none, none)).resp <;> simp)
    · cases hasCB <;> cases permitted <;> simp [runHF, finish] <;>
        (cases (handler fc env 0 none).1 <;> simp <;> cases (handler fc env 0 none).2 <;> simp)

/-- **The handler closure of `ServerPool.handle`, regenerated from the source**: the pool timeout (when
> 0) is put on the context of *each* call (inside the retry loop), and `spCtx.resp`, `stdReq`, `stdResp`
are reset before `doHandle` runs. -/
theorem handler_regenerated_from_source (timeout : Int) (resp0 : Option Nat) :
    handlerIR timeout resp0 = handlerG timeout := by
  unfold handlerIR handlerG
  by_cases h : timeout > 0 <;> simp [h]

/-! ### time: the pool timeout per attempt, and the client-visible wait (round 3)

`dur k` = how long the backend takes to answer the `k`-th call (`none` = never). With a pool timeout
`t > 0` the handler closure hands `doHandle` a context with that deadline (`handler_regenerated_from_source`),
*inside* the retry loop (`handle_regenerated_from_source`), so every attempt returns after `min (dur k) t`
(trusted: the transport honours the context deadline). A cancelled back-off (`stop`) returns at once. -/

def attemptTime (timeout : Nat) (dur : Nat → Option Nat) (k : Nat) : Nat := min ((dur k).getD timeout) timeout

def callCount : List EventG → Nat
  | [] => 0
  | .call _ :: t => 1 + callCount t
  | _ :: t => callCount t

/-- wall-clock time of one run of the wrapped handler, ns -/
def elapsed (timeout : Nat) (dur : Nat → Option Nat) : List EventG → Int
  | [] => 0
  | .call k :: t => (attemptTime timeout dur k : Int) + elapsed timeout dur t
  | .sleep _ d :: t => d + elapsed timeout dur t
  | .stop _ :: t => elapsed timeout dur t

theorem attemptTime_le (timeout : Nat) (dur : Nat → Option Nat) (k : Nat) : attemptTime timeout dur k ≤ timeout :=
  Nat.min_le_right _ _

theorem elapsed_le (timeout : Nat) (dur : Nat → Option Nat) : ∀ evs : List EventG,
    elapsed timeout dur evs ≤ (callCount evs * timeout : Nat) + sleepTotal evs
  | [] => by simp [elapsed, callCount, sleepTotal]
  | .call k :: t => by
    have := elapsed_le timeout dur t
    have h := attemptTime_le timeout dur k
    simp only [elapsed, callCount, sleepTotal]
    have : ((1 + callCount t) * timeout : Nat) = timeout + callCount t * timeout := by
      rw [Nat.add_mul, Nat.one_mul]
    rw [this]; push_cast; omega
  | .sleep _ d :: t => by
    have := elapsed_le timeout dur t
    simp only [elapsed, callCount, sleepTotal]; omega
  | .stop _ :: t => by
    have := elapsed_le timeout dur t
    simp only [elapsed, callCount, sleepTotal]; omega

theorem wrapLoopG_callCount {F : Type} (A : FloatOps F) (h : Nat → Option Nat → Option SPErr × Option Nat)
    (expo : Bool) (f : F) (env : EnvG) : ∀ (fuel k : Nat) (base : F) (prev : Option SPErr × Option Nat),
    callCount (wrapLoopG A h expo f env fuel k base prev).events ≤ fuel := by
  intro fuel
  induction fuel with
  | zero => intro k base prev; simp [wrapLoopG, callCount]
  | succ n ih =>
    intro k base prev
    unfold wrapLoopG
    cases hh : h k prev.2 with
    | mk e r =>
      cases e with
      | none => simp [callCount]
      | some e =>
        by_cases hk : env.done k = true
        · simp [hk, callCount]
        · simp only [Bool.not_eq_true] at hk
          have := ih (k + 1) (nextBaseG A expo base) (some e, r)
          simp only [hk, Bool.false_eq_true, if_false, callCount]
          omega

/-! ### audit round (items 16): the breaker layer is C08's `wrap`; the judge's `backoffLower` is `⌊base·(1−f)⌋` -/

/-- what C10 counts of a trace of C08's `circuitBreakerWrapper.Wrap` model: acquires, recorded flags, handler runs -/
def cbView (evs : List CircuitBreaker.Ev) : Nat × List Bool × Nat :=
  (evs.count .acquire, evs.filterMap (fun e => match e with | .record b => some b | _ => none), evs.count .handler)

/-- the outcome C08's wrapper sees when the wrapped (possibly retried) handler returned `err` -/
def outcomeOf (err : Option HErr) : CircuitBreaker.Outcome := if err.isSome then .err else .ok

/-- **The breaker layer of the composed handler is C08's `Wrap`** (whose model `CircuitBreaker.wrap` C08 ties
to the regenerated `wrapIR`): wrapping any inner handler adds exactly the acquires / records of one `wrap`
call around one run of the inner handler, and the inner handler runs iff `wrap` invokes it. -/
theorem runHF_cb_is_wrap (fc : List Nat) (env : Env) (permitted : Bool) (inner : HF) :
    let R := runHF fc env permitted (.cb inner)
    let I := runHF fc env permitted inner
    let W := cbView (CircuitBreaker.wrap permitted (outcomeOf I.err)).1
    R.acq = (if permitted then I.acq else 0) + W.1 ∧
    R.recs = (if permitted then I.recs else []) ++ W.2.1 ∧
    R.events = (if W.2.2 = 1 then I.events else []) ∧
    (permitted = false → R.err = some .shortCircuited) ∧ (permitted = true → R.err = I.err) := by
  cases permitted with
  | false => simp [runHF, cbView, CircuitBreaker.wrap]
  | true =>
    simp only [runHF, Bool.not_true, Bool.false_eq_true, if_false, if_true, outcomeOf]
    by_cases h : (runHF fc env true inner).err.isSome = true
    · simp [cbView, CircuitBreaker.wrap, h]
    · simp only [Bool.not_eq_true] at h
      simp [cbView, CircuitBreaker.wrap, h]

theorem baseQ_eq (p : RetryPolicy) (k : Nat) : baseQ p k = (baseNum p k : Rat) / (baseDen p k : Rat) := by
  unfold baseQ baseNum baseDen
  cases p.exponential
  · simp
  · simp only [if_true]
    push_cast
    rw [div_pow]
    ring

/-- the floor of a fraction of naturals is their natural quotient -/
theorem floor_natCast_div (n d : Nat) (hd : 0 < d) : ((n : Rat) / (d : Rat)).floor = ((n / d : Nat) : Int) := by
  have hdq : (0 : Rat) < (d : Rat) := by exact_mod_cast hd
  have h1 : (((n / d : Nat) : Int) : Rat) ≤ (n : Rat) / (d : Rat) := by
    rw [le_div_iff₀ hdq]
    have := Nat.div_mul_le_self n d
    exact_mod_cast this
  have h2 : (n : Rat) / (d : Rat) < (((n / d : Nat) : Int) : Rat) + 1 := by
    rw [div_lt_iff₀ hdq]
    have hm := Nat.mod_lt n hd
    have hdm := Nat.div_add_mod n d
    have : n < (n / d + 1) * d := by
      rw [Nat.add_mul, Nat.one_mul, Nat.mul_comm]; omega
    exact_mod_cast this
  have f1 := Rat.floor_le ((n : Rat) / (d : Rat))
  have f2 := Rat.lt_floor_add_one ((n : Rat) / (d : Rat))
  push_cast at f2
  have a : (((n : Rat) / (d : Rat)).floor : Rat) < (((n / d : Nat) : Int) : Rat) + 1 := lt_of_le_of_lt f1 h2
  have b : (((n / d : Nat) : Int) : Rat) < (((n : Rat) / (d : Rat)).floor : Rat) + 1 := lt_of_le_of_lt h1 f2
  have a' : ((n : Rat) / (d : Rat)).floor < ((n / d : Nat) : Int) + 1 := by exact_mod_cast a
  have b' : ((n / d : Nat) : Int) < ((n : Rat) / (d : Rat)).floor + 1 := by exact_mod_cast b
  omega

/-- **The judge's lower bound is the floor of the exact one**: with `f = fNum/fDen`, `0 < fDen`, `fNum ≤ fDen`,
`backoffLower p k = ⌊base_k·(1 − f)⌋` for the same `base_k = wait·1.5^k` (or `wait`) as `backoff_exact` uses. -/
theorem backoffLower_eq_floor (p : RetryPolicy) (k : Nat) (hd : 0 < p.fDen) (hf : p.fNum ≤ p.fDen) :
    (backoffLower p k : Int) = (baseQ p k * (1 - (p.fNum : Rat) / (p.fDen : Rat))).floor := by
  have hbd : 0 < baseDen p k := by
    unfold baseDen; split
    · positivity
    · norm_num
  have hden : 0 < sleepDen p k := Nat.mul_pos hbd hd
  have hq : baseQ p k * (1 - (p.fNum : Rat) / (p.fDen : Rat)) =
      ((sleepNum p k 0 : Nat) : Rat) / ((sleepDen p k : Nat) : Rat) := by
    rw [baseQ_eq]
    unfold sleepNum sleepDen
    have hb : (baseDen p k : Rat) ≠ 0 := by exact_mod_cast (Nat.pos_iff_ne_zero.mp hbd)
    have hfd : (p.fDen : Rat) ≠ 0 := by exact_mod_cast (Nat.pos_iff_ne_zero.mp hd)
    push_cast [Nat.cast_sub hf]
    field_simp
    ring
  rw [hq, floor_natCast_div _ _ hden]
  rfl

/-! ### one policy object, several wrappers -/

/-- `CreateWrapper` called `k` times on the same policy object (as `InjectResiliencePolicy` does when `k`
server pools name the policy): the value of `p.waitDuration` afterwards -/
def createWrapperTimes (ws : String) (parse : String → Int × Bool) : Nat → Int → Int
  | 0, wd => wd
  | k + 1, wd => createWrapperTimes ws parse k (createWrapperG wd ws parse)

theorem createWrapperG_pos (wd0 : Int) (ws : String) (parse : String → Int × Bool) :
    0 < createWrapperG wd0 ws parse := by
  unfold createWrapperG createWrapper
  generalize (if (ws != "") = true then (parse ws).1 else wd0) = x
  by_cases hx : x ≤ 0
  · simp [hx]
  · simp only [hx, if_false]; omega

theorem createWrapperG_idem (wd0 : Int) (ws : String) (parse : String → Int × Bool) :
    createWrapperG (createWrapperG wd0 ws parse) ws parse = createWrapperG wd0 ws parse := by
  have hpos := createWrapperG_pos wd0 ws parse
  by_cases h : ws = ""
  · have h1 : createWrapperG (createWrapperG wd0 ws parse) ws parse =
        (createWrapper (createWrapperG wd0 ws parse) : Nat) := by simp [createWrapperG, h]
    rw [h1]
    unfold createWrapper
    have : ¬ createWrapperG wd0 ws parse ≤ 0 := by omega
    simp only [this, if_false]
    omega
  · simp [createWrapperG, h]

theorem createWrapperTimes_succ (ws : String) (parse : String → Int × Bool) (wd0 : Int) :
    ∀ k, createWrapperTimes ws parse (k + 1) wd0 = createWrapperG wd0 ws parse
  | 0 => rfl
  | k + 1 => by
    have := createWrapperTimes_succ ws parse (createWrapperG wd0 ws parse) k
    simp only [createWrapperTimes] at this ⊢
    rw [this, createWrapperG_idem]

end EgVerif.Retry
