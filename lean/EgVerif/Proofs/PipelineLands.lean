import EgVerif.Proofs.Pipeline
/-!
# C02 — where a jump lands (audit repair, engineer mux)

Declarative facts about consecutive invocations of one `doHandle` run, for **every** flow (validated or
not) and every assignment of filter results: after a filter that returned `""` the very next flow node
runs; after a filter whose result is mapped by `jumpIf` to a real target `t` the next filter that runs is
the **first later node named `t`** (no node between them is named `t`, and — invocation indices being
strictly increasing — none of them runs); a taken jump whose target does not occur later runs nothing
more. Proved by recursion on the loop itself, not through the reference machine `Spec.run`.
-/
namespace EgVerif.Pipeline

/-- What the loop does from flow index `i` on with `next` pending (`""` = none): `new` are the invocations
it records. -/
def FirstOK (flow : List Node) (i : Nat) (next : String) : List Stat → Prop
  | [] =>
    (next = "" → ∀ n, flow[i]? = some n → n.filter = END) ∧
    (next ≠ "" → ∀ j, i ≤ j → ∀ m, flow[j]? = some m → m.name ≠ next)
  | s :: _ =>
    i ≤ s.idx ∧ (next = "" → s.idx = i) ∧
    (next ≠ "" → s.name = next ∧ ∀ j, i ≤ j → j < s.idx → ∀ m, flow[j]? = some m → m.name ≠ next)

/-- Every invocation is followed by what its result dictates. -/
def Lands (flow : List Node) : List Stat → Prop
  | [] => True
  | a :: tl =>
    (∃ n, flow[a.idx]? = some n ∧
      (a.result = "" → FirstOK flow (a.idx + 1) "" tl) ∧
      (∀ t, a.result ≠ "" → n.jumpIf.lookup a.result = some t → t ≠ "" → t ≠ END →
        FirstOK flow (a.idx + 1) t tl) ∧
      (a.result ≠ "" → ((n.jumpIf.lookup a.result).getD "" = "" ∨ (n.jumpIf.lookup a.result).getD "" = END) →
        tl = [])) ∧
    Lands flow tl

theorem loop_lands (kind : String → String) (res : Nat → String) (flow : List Node) :
    ∀ (rest : List Node) (i : Nat), flow.drop i = rest →
      ∀ (result next : String) (stats : List Stat), next ≠ END →
      ∃ new, (loop kind res rest i result next stats).2.1 = stats ++ new ∧
        FirstOK flow i next new ∧ Lands flow new
  | [], i, hdrop, result, next, stats, _ => by
    refine ⟨[], by simp [loop], ?_, trivial⟩
    have hlen : flow.length ≤ i := by
      have := congrArg List.length hdrop
      simp at this; omega
    refine ⟨fun _ n hn => ?_, fun _ j hj m hm => ?_⟩
    · rw [List.getElem?_eq_none hlen] at hn; cases hn
    · rw [List.getElem?_eq_none (by omega)] at hm; cases hm
  | n :: rest, i, hdrop, result, next, stats, hE => by
    have hi : flow[i]? = some n := by
      have := congrArg (fun l => l[0]?) hdrop
      simpa using this
    have hdrop' : flow.drop (i + 1) = rest := by
      have : flow.drop (i + 1) = (flow.drop i).drop 1 := by simp [List.drop_drop]
      rw [this, hdrop]; rfl
    unfold loop
    by_cases hskip : next ≠ "" ∧ next ≠ n.name
    · rw [if_pos hskip]
      obtain ⟨new, heq, hf, hl⟩ := loop_lands kind res flow rest (i + 1) hdrop' result next stats hE
      refine ⟨new, heq, ?_, hl⟩
      cases new with
      | nil =>
        refine ⟨fun h => absurd h hskip.1, fun _ j hj m hm => ?_⟩
        rcases Nat.eq_or_lt_of_le hj with h | h
        · subst h; rw [hi] at hm; cases hm; exact fun h' => hskip.2 h'.symm
        · exact hf.2 hskip.1 j h m hm
      | cons s tl =>
        obtain ⟨h1, _, h3⟩ := hf
        refine ⟨by omega, fun h => absurd h hskip.1, fun hne => ⟨(h3 hne).1, fun j hj hlt m hm => ?_⟩⟩
        rcases Nat.eq_or_lt_of_le hj with h | h
        · subst h; rw [hi] at hm; cases hm; exact fun h' => hskip.2 h'.symm
        · exact (h3 hne).2 j h hlt m hm
    · rw [if_neg hskip]
      have hnext : next = "" ∨ next = n.name := by
        by_cases h : next = ""
        · exact Or.inl h
        · right
          by_cases h2 : next = n.name
          · exact h2
          · exact absurd ⟨h, h2⟩ hskip
      by_cases hend : n.filter = END
      · rw [if_pos hend]
        have hn0 : next = "" := by
          rcases hnext with h | h
          · exact h
          · exact absurd (h.trans (name_of_end hend)) hE
        refine ⟨[], by simp, ⟨fun _ m hm => ?_, fun h => absurd hn0 h⟩, trivial⟩
        rw [hi] at hm; cases hm; exact hend
      · rw [if_neg hend]
        simp only
        -- the invocation recorded for node i
        have first : ∀ tl, FirstOK flow i next
            (⟨i, n.name, n.filter, kind n.filter, useNs n.ns, res stats.length⟩ :: tl) := by
          intro tl
          refine ⟨Nat.le_refl _, fun _ => rfl, fun hne => ⟨?_, fun j hj hlt => by simp at hlt; omega⟩⟩
          rcases hnext with h | h
          · exact absurd h hne
          · exact h.symm
        by_cases hr : res stats.length = ""
        · rw [if_pos hr]
          obtain ⟨new, heq, hf, hl⟩ := loop_lands kind res flow rest (i + 1) hdrop' (res stats.length) ""
            (stats ++ [⟨i, n.name, n.filter, kind n.filter, useNs n.ns, res stats.length⟩]) (by decide)
          refine ⟨_ :: new, by rw [heq]; simp, first new, ⟨n, hi, fun _ => hf, ?_, ?_⟩, hl⟩
          · intro t hne; exact absurd hr hne
          · intro hne; exact absurd hr hne
        · rw [if_neg hr]
          by_cases hnx : (n.jumpIf.lookup (res stats.length)).getD "" = "" ∨
              (n.jumpIf.lookup (res stats.length)).getD "" = END
          · rw [if_pos hnx]
            refine ⟨[⟨i, n.name, n.filter, kind n.filter, useNs n.ns, res stats.length⟩], by simp,
              first [], ⟨n, hi, fun h => absurd h hr, ?_, fun _ _ => rfl⟩, trivial⟩
            intro t _ hl ht hE'
            simp only [hl, Option.getD_some] at hnx
            rcases hnx with h | h
            · exact absurd h ht
            · exact absurd h hE'
          · rw [if_neg hnx]
            have hnE : (n.jumpIf.lookup (res stats.length)).getD "" ≠ END := fun h => hnx (Or.inr h)
            obtain ⟨new, heq, hf, hl⟩ := loop_lands kind res flow rest (i + 1) hdrop' (res stats.length)
              ((n.jumpIf.lookup (res stats.length)).getD "")
              (stats ++ [⟨i, n.name, n.filter, kind n.filter, useNs n.ns, res stats.length⟩]) hnE
            refine ⟨_ :: new, by rw [heq]; simp, first new, ⟨n, hi, fun h => absurd h hr, ?_, ?_⟩, hl⟩
            · intro t _ hlk _ _
              simp only [hlk, Option.getD_some] at hf
              exact hf
            · intro _ h; exact absurd h hnx

theorem doHandle_lands (kind : String → String) (res : Nat → String) (flow : List Node) (stats : List Stat) :
    ∃ new, (doHandle kind res flow stats).2.1 = stats ++ new ∧ FirstOK flow 0 "" new ∧ Lands flow new :=
  loop_lands kind res flow flow 0 (by simp) "" "" stats (by decide)

/-- `Lands` read at position `k`. -/
theorem lands_get {flow : List Node} : ∀ {new : List Stat}, Lands flow new → ∀ k (hk : k < new.length),
    ∃ n, flow[new[k].idx]? = some n ∧
      (new[k].result = "" → FirstOK flow (new[k].idx + 1) "" (new.drop (k + 1))) ∧
      (∀ t, new[k].result ≠ "" → n.jumpIf.lookup new[k].result = some t → t ≠ "" → t ≠ END →
        FirstOK flow (new[k].idx + 1) t (new.drop (k + 1))) ∧
      (new[k].result ≠ "" → ((n.jumpIf.lookup new[k].result).getD "" = "" ∨
        (n.jumpIf.lookup new[k].result).getD "" = END) → new.drop (k + 1) = [])
  | [], _, k, hk => by simp at hk
  | a :: tl, h, 0, _ => by
    obtain ⟨⟨n, hn, h1, h2, h3⟩, _⟩ := h
    exact ⟨n, hn, by simpa using h1, by simpa using h2, by simpa using h3⟩
  | a :: tl, h, k + 1, hk => by
    have := lands_get h.2 k (by simpa using hk)
    simpa using this

end EgVerif.Pipeline
