import EgVerif.Proofs.SpecGuards
import EgVerif.Gen.FactsC13IR
/-!
# C13: validation ⇒ no panic, with BOTH sides regenerated from the source (`Gen/FactsC13IR.lean`)

`validateIR_<Kind>` is the translated `Validate()` of the kind, `panicsIR_<Kind>` (or the translated pieces
it is composed of) the translated function that contains the panic site. Each theorem
`validate_no_panic_<Kind>` is about those two generated definitions, for every spec record (and request
context / oracle answer where the panic depends on one); `unrepaired_<Kind>` shows that the statement is
FALSE for the validation the code had before the corresponding `fix:` commit; `…Valid_implies_validateIR`
connect the hand-written predicates over document trees (`Model/SpecGuards.lean`, used by the judge) to the
generated validations.
-/
namespace EgVerif.SpecGuards
open EgVerif.Gen.FactsC13IR

/-! ## ResponseAdaptor (fix 34c5ca9: `Spec.Validate` added) -/

theorem validate_no_panic_ResponseAdaptor (s : RASpec) :
    validateIR_ResponseAdaptor s = true → panicsIR_ResponseAdaptor s = false := by
  unfold validateIR_ResponseAdaptor panicsIR_ResponseAdaptor
  generalize ((s.decompress != "") && (s.decompress != "gzip")) = c1
  generalize ((s.compress != "") && (s.compress != "gzip")) = c2
  generalize ((s.compress != "") && (s.decompress != "")) = c3
  generalize ((s.body != "") && (s.decompress != "")) = c4
  cases c1 <;> cases c2 <;> cases c3 <;> cases c4 <;> simp

/-- and conversely: `Validate` rejects exactly the specs on which `Init` panics -/
theorem validate_iff_no_panic_ResponseAdaptor (s : RASpec) :
    validateIR_ResponseAdaptor s = !panicsIR_ResponseAdaptor s := by
  unfold validateIR_ResponseAdaptor panicsIR_ResponseAdaptor
  generalize ((s.decompress != "") && (s.decompress != "gzip")) = c1
  generalize ((s.compress != "") && (s.compress != "gzip")) = c2
  generalize ((s.compress != "") && (s.decompress != "")) = c3
  generalize ((s.body != "") && (s.decompress != "")) = c4
  cases c1 <;> cases c2 <;> cases c3 <;> cases c4 <;> simp

/-- before the fix the kind had no `Validate()` (everything the tags allow was accepted): `compress: zip`
made `Init` panic -/
theorem unrepaired_ResponseAdaptor : ∃ s : RASpec, panicsIR_ResponseAdaptor s = true :=
  ⟨⟨"zip", "", ""⟩, by decide⟩

theorem respAdaptorValid_implies_validateIR (j : J) :
    respAdaptorValid j = true → validateIR_ResponseAdaptor (RASpec.ofJ j) = true := by
  unfold respAdaptorValid adaptorGuardsOK validateIR_ResponseAdaptor RASpec.ofJ
  intro h
  simp only [Bool.and_eq_true, Bool.or_eq_true, beq_iff_eq] at h
  obtain ⟨_, ⟨⟨h1, h2⟩, h3⟩, h4⟩ := h
  have e1 : ((j.sget "decompress" != "") && (j.sget "decompress" != "gzip")) = false := by
    rcases h1 with h | h <;> simp [h]
  have e2 : ((j.sget "compress" != "") && (j.sget "compress" != "gzip")) = false := by
    rcases h2 with h | h <;> simp [h]
  have e3 : ((j.sget "compress" != "") && (j.sget "decompress" != "")) = false := by
    rcases h3 with h | h <;> simp [h]
  have e4 : ((j.sget "body" != "") && (j.sget "decompress" != "")) = false := by
    rcases h4 with h | h <;> simp [h]
  simp [e1, e2, e3, e4]

/-! ## RequestBuilder / ResponseBuilder (fix 3dbd6e1: `Validate` parses the template) -/

/-- for every spec and every answer of the template parser -/
theorem validate_no_panic_Builder (s : BSpec) : validateIR_Builder s = true → panicsIR_Builder s = false := by
  unfold validateIR_Builder panicsIR_Builder
  by_cases h1 : s.sourceNamespace = "" <;> by_cases h2 : s.template = "" <;> cases h3 : s.tmplOK <;> simp [h1, h2, h3]

/-- the `Validate` before the fix (the same without the parse test): a template that does not parse was
accepted and `template.Must` panicked -/
def validateUnrepaired_Builder (s : BSpec) : Bool :=
  !((s.sourceNamespace == "") && (s.template == "")) && !((s.sourceNamespace != "") && (s.template != ""))

theorem unrepaired_Builder : ∃ s : BSpec, validateUnrepaired_Builder s = true ∧ panicsIR_Builder s = true :=
  ⟨⟨"", "{{", false⟩, by decide⟩

theorem builderValid_implies_validateIR (o : Oracle) (j : J) :
    builderValid o j = true → validateIR_Builder (BSpec.ofJ o j) = true := by
  unfold builderValid validateIR_Builder BSpec.ofJ tmplOK
  intro h
  simp only [Bool.and_eq_true, Bool.or_eq_true, Bool.not_eq_true', beq_iff_eq] at h
  obtain ⟨⟨⟨_, h1⟩, h2⟩, h3⟩ := h
  simp only [h1, h2, Bool.false_eq_true, if_false]
  rcases h3 with h | h <;> simp [h]

/-! ## Fallback (fix 49d7036: comma-ok response lookup in `Handle`) — the panic depends on the request -/

/-- for **every request context** (with or without a response): the head of `Fallback.Handle` does not panic -/
theorem no_panic_Fallback (q : ReqCtx) : panicsIR_Fallback q = false := by
  unfold panicsIR_Fallback
  cases q.hasResponse <;> simp

/-- what the translator renders for the statement before the fix,
`resp := ctx.GetInputResponse().(*httpprot.Response)` (single-value assertion: partial): it panics exactly for
the contexts without a response — e.g. a pipeline `[Fallback]` behind an HTTPServer. -/
def panicsUnrepaired_Fallback (q : ReqCtx) : Bool :=
  if q.hasResponse then false else true

theorem unrepaired_Fallback : ∃ q : ReqCtx, panicsUnrepaired_Fallback q = true := ⟨⟨false⟩, by decide⟩

/-! ## RateLimiter policy (fix e912cc4: `Policy.Validate` requires a positive refresh period) -/

/-- `format=duration` on `limitRefreshPeriod` (regenerated tag, `spec_tags_as_modelled`): empty or parsable -/
def tagOK_RLPolicy (p : RLPolicy) : Bool := p.limitRefreshPeriod == "" || p.period.isSome

/-- **The divisor of the limiter is never zero**: for every policy and every answer of `time.ParseDuration`,
tag + `Policy.Validate` ⇒ the refresh period `createRateLimiter` hands to the limiter is positive. -/
theorem validate_no_panic_RLPolicy (p : RLPolicy) :
    tagOK_RLPolicy p = true → validateIR_RLPolicy p = true → 0 < refreshPeriodIR_RLPolicy p := by
  unfold tagOK_RLPolicy validateIR_RLPolicy refreshPeriodIR_RLPolicy
  intro ht hv
  by_cases h1 : p.limitRefreshPeriod = ""
  · simp [h1]
  · have h1' : (p.limitRefreshPeriod != "") = true := by simpa using h1
    simp only [h1', if_true] at hv ⊢
    cases hp : p.period with
    | none => simp [h1, hp] at ht
    | some d =>
      simp only [hp, Option.getD_some, Option.isNone_some, Bool.not_false, Bool.true_and] at hv ⊢
      by_cases hd : d ≤ 0
      · simp [hd] at hv
      · simp; omega

/-- every division of `acquirePermission` is by the refresh period or by `LimitForPeriod` (≥ 1: tag
`minimum=1`, default 50) -/
theorem rl_divisors_as_modelled :
    rlDivisors = ["rl.policy.LimitRefreshPeriod", "rl.policy.LimitRefreshPeriod", "rl.policy.LimitForPeriod"] := by
  decide

/-- before the fix `Policy.Validate` did not exist: `limitRefreshPeriod: 0s` passed the tag and the limiter
divided by zero at the first request -/
theorem unrepaired_RLPolicy : ∃ p : RLPolicy, tagOK_RLPolicy p = true ∧ refreshPeriodIR_RLPolicy p = 0 :=
  ⟨⟨"0s", some 0⟩, by decide⟩

theorem rlPolicyOK_implies_validateIR (o : Oracle) (p : J) :
    rlPolicyOK o p = true → tagOK_RLPolicy (RLPolicy.ofJ o p) = true ∧ validateIR_RLPolicy (RLPolicy.ofJ o p) = true := by
  unfold rlPolicyOK tagOK_RLPolicy validateIR_RLPolicy RLPolicy.ofJ durOK durNs
  intro h
  simp only [Bool.and_eq_true, Bool.or_eq_true, beq_iff_eq, decide_eq_true_eq] at h
  obtain ⟨⟨⟨_, h1⟩, _⟩, h2⟩ := h
  constructor
  · simpa using h1
  · by_cases he : p.sget "limitRefreshPeriod" = ""
    · simp [he]
    · have hpos : 0 < (o.dur (p.sget "limitRefreshPeriod")).getD 0 := by
        rcases h2 with h | h
        · exact absurd h he
        · exact h
      have hne : ¬ (o.dur (p.sget "limitRefreshPeriod")).getD 0 ≤ 0 := by omega
      simp [he, hne]

/-! ## Validator signature (fix 4536822: `Validate` requires access keys) -/

/-- `Validator.reload` + `Validator.Handle` (wiring fact `validatorWiring`): the signer exists iff the spec
has a `signature`, and `Handle` calls `Verify` on it for every request that reaches it. -/
def panicsIR_Validator (s : VSpec) : Bool :=
  match s.signature with
  | none => false
  | some sp => verifyPanicsIR_Signer (storeSetIR_Signer sp)

theorem validate_no_panic_Validator (s : VSpec) :
    validateIR_Validator s = true → panicsIR_Validator s = false := by
  unfold validateIR_Validator panicsIR_Validator verifyPanicsIR_Signer storeSetIR_Signer
  cases hs : s.signature with
  | none => intro _; rfl
  | some sp =>
    cases s.isZero
    · by_cases hk : sp.accessKeys = 0
      · simp [hk]
      · have : (sp.accessKeys : Int) > 0 := by omega
        simp [hk, this]
    · simp

/-- the `Validate` before the fix (only the vacuous zero test): `signature: {}` was accepted and the first
request panicked in `Signer.Verify` -/
def validateUnrepaired_Validator (s : VSpec) : Bool := !s.isZero

theorem unrepaired_Validator : ∃ s : VSpec, validateUnrepaired_Validator s = true ∧ panicsIR_Validator s = true :=
  ⟨⟨false, some ⟨0⟩⟩, by decide⟩

theorem validatorValid_implies_validateIR (o : Oracle) (j : J) :
    validatorValid o j = true → validateIR_Validator (VSpec.ofJ j) = true := by
  unfold validatorValid signatureOK validateIR_Validator VSpec.ofJ
  intro h
  simp only [Bool.and_eq_true, Bool.or_eq_true, Bool.not_eq_true'] at h
  cases hs : j.has "signature"
  · simp
  · have h3 := h.2
    rw [hs] at h3
    simp only [Bool.true_eq_false, false_or, Bool.and_eq_true, Bool.not_eq_true'] at h3
    have hne : ((j.get "signature").oget "accessKeys") ≠ [] := by
      intro e; rw [e] at h3; simp at h3
    have hpos : 0 < ((j.get "signature").oget "accessKeys").length := List.length_pos_iff.mpr hne
    simp
    omega

theorem validator_wiring_as_modelled : validatorWiring = true := by decide

/-! ## MQTTProxy (fix 4f68600: `Spec.Validate` added) -/

/-- `newBroker` panics when `getPipelineMap` panics (nil dereference) or returns an error
(fact `newBrokerPanicsOnMapError`) -/
def panicsIR_MQTTProxy (s : MqttSpec) : Bool := getPipelineMapIR s != some false

theorem validateIR_MQTTProxy_loop (s : MqttSpec) : ∀ l : List (Option MqttRule),
    validateIR_MQTTProxy_loop1 s l = .inr () ∨ validateIR_MQTTProxy_loop1 s l = .inl false
  | [] => Or.inl rfl
  | r :: rest => by
    unfold validateIR_MQTTProxy_loop1
    split
    · right; rfl
    · exact validateIR_MQTTProxy_loop s rest

theorem validate_no_panic_MQTTProxy (s : MqttSpec) :
    validateIR_MQTTProxy s = true → panicsIR_MQTTProxy s = false := by
  unfold validateIR_MQTTProxy panicsIR_MQTTProxy
  rcases validateIR_MQTTProxy_loop s s.rules with h | h <;> rw [h] <;> simp

theorem new_broker_panics_on_map_error : newBrokerPanicsOnMapError = true := by decide

/-- before the fix there was no `Validate()`: each of the three rule defects reached `newBroker` -/
theorem unrepaired_MQTTProxy :
    panicsIR_MQTTProxy ⟨[some ⟨none, "p"⟩]⟩ = true ∧ getPipelineMapIR ⟨[some ⟨none, "p"⟩]⟩ = none ∧
    getPipelineMapIR ⟨[none]⟩ = none ∧
    getPipelineMapIR ⟨[some ⟨some ⟨"publish"⟩, "p"⟩]⟩ = some true ∧
    getPipelineMapIR ⟨[some ⟨some ⟨"Publish"⟩, "p"⟩, some ⟨some ⟨"Publish"⟩, "q"⟩]⟩ = some true ∧
    getPipelineMapIR ⟨[some ⟨some ⟨"Publish"⟩, "p"⟩, some ⟨some ⟨"Connect"⟩, "q"⟩]⟩ = some false := by
  decide

/-- the hand-written rule guard of the judge agrees with the translated `getPipelineMap` -/
theorem mqttRuleGuard_eq_getPipelineMapIR_loop (s : MqttSpec) : ∀ (rules : List J) (seen : List String)
    (ans : List (String × String)), (∀ t, seen.contains t = (ans.lookup t).isSome) →
    (mqttRuleGuard rules seen).isNone =
      (match getPipelineMapIR_loop1 s ans (rules.map MqttRule.ofJ) with | .inl _ => false | .inr _ => true)
  | [], _, _, _ => by simp [mqttRuleGuard, getPipelineMapIR_loop1]
  | r :: rest, seen, ans, hrel => by
    unfold mqttRuleGuard
    simp only [List.map_cons]
    unfold getPipelineMapIR_loop1
    cases hw : r.has "when"
    · simp [MqttRule.ofJ, hw]
    · simp only [MqttRule.ofJ, hw, Bool.not_true, Bool.false_eq_true, if_false, if_true, Option.isSome_some,
        Option.bind_some, Bool.and_self, Option.map_some, Option.getD_some, Bool.and_true]
      rw [← hrel]
      cases hc : mqttPacketTypes.contains ((r.get "when").sget "packetType")
      · simp
      · cases hs : seen.contains ((r.get "when").sget "packetType")
        · simp only [Bool.not_true, Bool.false_eq_true, if_false]
          apply mqttRuleGuard_eq_getPipelineMapIR_loop s rest
          intro t
          by_cases e : t = (r.get "when").sget "packetType"
          · subst e; simp [List.lookup]
          · have e' : (t == (r.get "when").sget "packetType") = false := by simpa using e
            have := hrel t
            simp only [List.contains_eq_mem] at this
            simp [List.lookup, e', e, this]
        · simp

theorem mqttProxyValid_implies_no_panicIR (j : J) :
    mqttProxyValid j = true → panicsIR_MQTTProxy (MqttSpec.ofJ j) = false := by
  unfold mqttProxyValid mqttProxyInitOK panicsIR_MQTTProxy getPipelineMapIR MqttSpec.ofJ
  intro h
  rw [Bool.and_eq_true] at h
  have := mqttRuleGuard_eq_getPipelineMapIR_loop ⟨(j.aget "rules").map MqttRule.ofJ⟩ (j.aget "rules") [] [] (by simp)
  rw [h.2] at this
  dsimp only
  generalize getPipelineMapIR_loop1 ⟨(j.aget "rules").map MqttRule.ofJ⟩ [] ((j.aget "rules").map MqttRule.ofJ) = x at this
  cases x with
  | inl v => simp at this
  | inr v => simp

/-! ## CircuitBreaker policy: the windows results are pushed into have at least one bucket

`CountBasedWindow.Push` indexes `bucket[bucketIdx]`; a window built with size 0 makes it panic (index out of
range) — an implicit panic site, not in the `panic(` table. The sizes are the translated arguments of the
constructor calls (`cbWindowSizesIR`), the admission test of the half-open state is `cbHalfOpenAdmitIR`. -/

/-- For every policy validation accepts: every window created in the closed state has ≥ 1 bucket; and whenever
a call is admitted in half-open state (only then can a result be pushed into the half-open window —
`cbPushSites`: RecordResult is the only pusher and it records results of the current state only), the
half-open window has ≥ 1 bucket. `permittedNumberOfCallsInHalfOpenState: 0` is accepted and creates a 0-bucket
window that never receives a result. -/
theorem cb_pushed_windows_have_buckets (p : CBLibPolicy) (h : p.accepted = true) :
    (∀ e ∈ cbWindowSizesIR p, e.1 = "Closed" → 1 ≤ e.2) ∧
    (∀ n : Int, 0 ≤ n → cbHalfOpenAdmitIR p n = true → ∀ e ∈ cbWindowSizesIR p, e.1 = "HalfOpen" → 1 ≤ e.2) ∧
    (∀ e ∈ cbWindowSizesIR p, e.1 = "Closed" ∨ e.1 = "HalfOpen") := by
  unfold CBLibPolicy.accepted at h
  simp only [Bool.and_eq_true, decide_eq_true_eq] at h
  unfold cbWindowSizesIR cbHalfOpenAdmitIR
  refine ⟨?_, ?_, ?_⟩
  · intro e he hl
    simp only [List.mem_cons, List.mem_nil_iff, or_false] at he
    rcases he with rfl | rfl | rfl
    · exact h.1.1
    · exact h.1.1
    · exact absurd hl (by simp)
  · intro n hn ha e he hl
    simp only [decide_eq_true_eq] at ha
    simp only [List.mem_cons, List.mem_nil_iff, or_false] at he
    rcases he with rfl | rfl | rfl
    · exact absurd hl (by simp)
    · exact absurd hl (by simp)
    · show 1 ≤ p.permitted; omega
  · intro e he
    simp only [List.mem_cons, List.mem_nil_iff, or_false] at he
    rcases he with rfl | rfl | rfl <;> simp

theorem cb_push_sites_as_modelled : cbPushSites = 1 := by decide

/-- the seeded variant (`NewCountBasedWindow(min(minimumNumberOfCalls, permitted))` in half-open state) breaks
the statement: `minimumNumberOfCalls: 0` is accepted, a call is admitted, the window has no bucket -/
theorem cb_min_sized_window_violates :
    ∃ p : CBLibPolicy, p.accepted = true ∧ cbHalfOpenAdmitIR p 0 = true ∧ ¬ (1 ≤ min p.minCalls p.permitted) :=
  ⟨⟨1, 10, 0⟩, by decide⟩

/-- the judge's `cbValid` (document trees) implies `accepted` on the record `CreateWrapper` builds -/
theorem cbValid_implies_accepted (o : Oracle) (p : J) : cbValid o p = true → (CBLibPolicy.ofJ p).accepted = true := by
  unfold cbValid CBLibPolicy.accepted CBLibPolicy.ofJ
  intro h
  simp only [Bool.and_eq_true, decide_eq_true_eq] at h ⊢
  exact ⟨⟨h.1.1.1.1.1.2, h.1.1.1.1.2⟩, h.1.1.1.2⟩

/-! ## HTTPServer: the tracer of a new mux instance is never nil

`muxInstance.serveHTTP` and `mux.close` dereference `inst.tracer` (implicit panic sites). The selection in
`mux.reload` is translated (`tracerNonNilIR_mux`). -/

/-- whatever the tracing sections are (equal or not), whether `tracing.New` succeeds or fails — validation
accepts sections it rejects, e.g. a negative `sampleRate` — and even if the previous tracer were nil: the
instance gets a non-nil tracer (`tracing.New` error ⇒ `NoopTracer`). -/
theorem tracer_never_nil (sameSpec newOK oldNonNil : Bool) : tracerNonNilIR_mux sameSpec newOK oldNonNil = true := by
  cases sameSpec <;> cases newOK <;> cases oldNonNil <;> rfl

theorem tracing_new_nil_on_error : tracingNewNilOnError = true := by decide

/-- the seeded selection (`tracer := oldInst.tracer; if spec changed { tracer, err = tracing.New(…) }`) as the
translator renders it: nil when the section changed and `tracing.New` fails -/
def tracerSeeded_mux (sameSpec newOK oldNonNil : Bool) : Bool := if !sameSpec then newOK else oldNonNil

theorem tracer_seeded_can_be_nil : ∃ a b c, tracerSeeded_mux a b c = false := ⟨false, false, true, rfl⟩

end EgVerif.SpecGuards
