import EgVerif.Proofs.SignerCanonIR
/-!
Regenerated tie by translation for `buildCanonicalHeaderValue` (`Gen.FactsC06CanonIR.buildCanonicalHeaderValueIR`): the three
inner `for` loops are general loops, translated as recursion on the fuel `len(str) + 1` (`irSpec.WhileFuel`; running out of
fuel = `none`). The index-based "skip leading / trailing spaces, copy runs, collapse spaces" algorithm is shown equal to the
model's list function `canonValue` (`collapse ∘ trimRight ∘ trimLeft`, joined by `,`) — which also proves that the fuel suffices.
-/
namespace EgVerif.Signer
open EgVerif.Sha256 (Bytes)
open EgVerif.Gen.FactsC06CanonIR

/-- list version of the third loop of `buildCanonicalHeaderValue`: `seg` = the bytes since the segment start, `sp` = the
number of spaces it ends with; a run of more than one space followed by another byte flushes the segment up to and
including the run's first space -/
def goC : Bytes → Nat → Bytes → Bytes
  | seg, _, [] => seg
  | seg, sp, c :: r =>
    if c = 32 then goC (seg ++ [c]) (sp + 1) r
    else if sp > 1 then seg.take (seg.length - sp + 1) ++ goC [c] 0 r
    else goC (seg ++ [c]) 0 r

theorem collapse_spaces_cons (n : Nat) (c : UInt8) (r : Bytes) (hc : c ≠ 32) :
    collapse (List.replicate (n + 1) 32 ++ c :: r) = 32 :: collapse (c :: r) := by
  induction n with
  | zero => simp [collapse, hc]
  | succ k ih =>
    rw [List.replicate_succ, List.cons_append, List.replicate_succ, List.cons_append]
    rw [List.replicate_succ, List.cons_append] at ih
    simp only [collapse, and_self, if_true]
    exact ih

theorem collapse_cons_ne (c : UInt8) (r : Bytes) (hc : c ≠ 32) : collapse (c :: r) = c :: collapse r := by
  cases r with
  | nil => simp [collapse]
  | cons d r => simp [collapse, hc]

theorem goC_eq : ∀ (r seg0 : Bytes) (sp : Nat), (r = [] → sp = 0) → r.getLast? ≠ some 32 →
    goC (seg0 ++ List.replicate sp 32) sp r = seg0 ++ collapse (List.replicate sp 32 ++ r)
  | [], seg0, sp, h0, _ => by
    have := h0 rfl
    subst this
    simp [goC, collapse]
  | c :: r, seg0, sp, _, hl => by
    by_cases hc : c = 32
    · subst hc
      have hr : r ≠ [] := by
        intro e; subst e; simp at hl
      have hl' : r.getLast? ≠ some 32 := by
        cases r with
        | nil => exact absurd rfl hr
        | cons d r' => simpa [List.getLast?_cons_cons] using hl
      have ih := goC_eq r seg0 (sp + 1) (fun e => absurd e hr) hl'
      simp only [goC, if_true]
      rw [List.append_assoc, ← List.replicate_succ']
      rw [ih, List.replicate_succ', List.append_assoc]
      rfl
    · have hl' : r.getLast? ≠ some 32 := by
        cases r with
        | nil => simp
        | cons d r' => simpa [List.getLast?_cons_cons] using hl
      by_cases hsp : sp > 1
      · have ih := goC_eq r [c] 0 (fun _ => rfl) hl'
        simp only [List.replicate_zero, List.append_nil, List.nil_append] at ih
        simp only [goC, hc, if_false, hsp, if_true, ih]
        obtain ⟨n, rfl⟩ : ∃ n, sp = n + 1 := ⟨sp - 1, by omega⟩
        rw [collapse_spaces_cons n c r hc, collapse_cons_ne c r hc]
        have : (seg0 ++ List.replicate (n + 1) 32).take ((seg0 ++ List.replicate (n + 1) 32).length - (n + 1) + 1) = seg0 ++ [32] := by
          have hlen : (seg0 ++ List.replicate (n + 1) 32).length - (n + 1) + 1 = seg0.length + 1 := by simp
          rw [hlen, List.take_append]
          simp [List.replicate_succ, List.take_of_length_le]
        rw [this]
        simp
      · have ih := goC_eq r (seg0 ++ List.replicate sp 32 ++ [c]) 0 (fun _ => rfl) hl'
        simp only [List.replicate_zero, List.append_nil, List.nil_append] at ih
        simp only [goC, hc, if_false, hsp, ih]
        have hsp' : sp = 0 ∨ sp = 1 := by omega
        rcases hsp' with rfl | rfl
        · simp [collapse_cons_ne c r hc]
        · have := collapse_spaces_cons 0 c r hc
          simp only [Nat.zero_add, List.replicate_one, List.singleton_append] at this ⊢
          rw [this, collapse_cons_ne c r hc]
          simp

abbrev isSp : UInt8 → Bool := fun x => decide (x = 32)

/-- number of leading spaces -/
def lead : Bytes → Nat
  | [] => 0
  | x :: r => if x = 32 then lead r + 1 else 0

theorem trimLeft_eq_drop_lead : ∀ l : Bytes, trimLeft isSp l = l.drop (lead l)
  | [] => rfl
  | x :: r => by
    by_cases h : x = 32
    · simp [trimLeft, lead, h, isSp, trimLeft_eq_drop_lead r]
    · simp [trimLeft, lead, h, isSp]

theorem getD_cast (l : Bytes) (k : Nat) (h : k < l.length) : l.getD ((k : Int)).toNat 0 = l[k] := by
  simp [List.getD_eq_getElem?_getD, List.getElem?_eq_getElem h]

theorem buildCanonicalHeaderValue_regenerated_from_source_loop2 (strs : List Bytes) (buf : Bytes) (e : Int) (str : Bytes) :
    ∀ (fuel k : Nat), k ≤ str.length → str.length - k + 1 ≤ fuel →
      buildCanonicalHeaderValueIR_loop2 strs buf (k : Int) e str fuel = .inr (((k + lead (str.drop k) : Nat)) : Int) := by
  intro fuel
  induction fuel with
  | zero => intro k _ h; omega
  | succ n ih =>
    intro k hk hf
    have ho : Int.ofNat str.length = (str.length : Int) := rfl
    by_cases hlt : k < str.length
    · have hd : str.drop k = str[k] :: str.drop (k + 1) := List.drop_eq_getElem_cons hlt
      have hc : ((k : Int) + 1) = ((k + 1 : Nat) : Int) := by omega
      by_cases hs : str[k] = 32
      · have hcond : (decide ((k : Int) < Int.ofNat str.length) && (str.getD ((k : Int)).toNat 0 == (32 : UInt8))) = true := by
          rw [getD_cast str k hlt, ho]; simp [hs]; omega
        simp only [buildCanonicalHeaderValueIR_loop2, hcond, Bool.not_true, Bool.false_eq_true, if_false, hc]
        rw [ih (k + 1) (by omega) (by omega), hd]
        simp only [lead, hs, if_true]
        congr 1
        have : (k + (lead (str.drop (k + 1)) + 1) : Nat) = k + 1 + lead (str.drop (k + 1)) := by omega
        exact_mod_cast this.symm
      · have hcond : (decide ((k : Int) < Int.ofNat str.length) && (str.getD ((k : Int)).toNat 0 == (32 : UInt8))) = false := by
          rw [getD_cast str k hlt]; simp [hs]
        simp only [buildCanonicalHeaderValueIR_loop2, hcond, Bool.not_false, if_true, hd, lead, hs, if_false, Nat.add_zero]
    · have hcond : (decide ((k : Int) < Int.ofNat str.length) && (str.getD ((k : Int)).toNat 0 == (32 : UInt8))) = false := by
        rw [ho]; simp; intro h; omega
      have hd : str.drop k = [] := List.drop_eq_nil_of_le (by omega)
      simp only [buildCanonicalHeaderValueIR_loop2, hcond, Bool.not_false, if_true, hd, lead, Nat.add_zero]

theorem trimRight_snoc_space (x : Bytes) : trimRight isSp (x ++ [32]) = trimRight isSp x := by
  simp [trimRight, trimLeft, isSp]

theorem trimRight_snoc_ne (x : Bytes) (a : UInt8) (h : a ≠ 32) : trimRight isSp (x ++ [a]) = x ++ [a] := by
  simp [trimRight, trimLeft, isSp, h]

theorem take_succ_drop (l : Bytes) (s j : Nat) (hs : s ≤ j) (hj : j < l.length) :
    (l.take (j + 1)).drop s = (l.take j).drop s ++ [l[j]] := by
  rw [List.take_add_one, List.getElem?_eq_getElem hj]
  simp only [Option.toList_some]
  rw [List.drop_append_of_le_length (by simp; omega)]

theorem buildCanonicalHeaderValue_regenerated_from_source_loop3 (strs : List Bytes) (buf : Bytes) (str : Bytes) (s : Nat) :
    ∀ (fuel j : Nat), s ≤ j → j ≤ str.length → j - s + 1 ≤ fuel →
      buildCanonicalHeaderValueIR_loop3 strs buf (s : Int) (j : Int) str fuel =
        .inr (((s + (trimRight isSp ((str.take j).drop s)).length : Nat)) : Int) := by
  intro fuel
  induction fuel with
  | zero => intro j _ _ h; omega
  | succ n ih =>
    intro j hsj hj hf
    by_cases hgt : s < j
    · obtain ⟨i, rfl⟩ : ∃ i, j = i + 1 := ⟨j - 1, by omega⟩
      have hi : i < str.length := by omega
      have he : (((i + 1 : Nat) : Int) - 1) = (i : Int) := by omega
      have hsl := take_succ_drop str s i (by omega) hi
      by_cases hsp : str[i] = 32
      · have hcond : (decide (((i + 1 : Nat) : Int) > (s : Int)) && (str.getD ((i : Int)).toNat 0 == (32 : UInt8))) = true := by
          rw [getD_cast str i hi]; simp [hsp]; omega
        simp only [buildCanonicalHeaderValueIR_loop3, he]
        simp only [hcond, Bool.not_true, Bool.false_eq_true, if_false]
        rw [ih i (by omega) (by omega) (by omega), hsl, hsp, trimRight_snoc_space]
      · have hcond : (decide (((i + 1 : Nat) : Int) > (s : Int)) && (str.getD ((i : Int)).toNat 0 == (32 : UInt8))) = false := by
          rw [getD_cast str i hi]; simp [hsp]
        simp only [buildCanonicalHeaderValueIR_loop3, he]
        simp only [hcond, Bool.not_false, if_true]
        rw [hsl, trimRight_snoc_ne _ _ hsp]
        congr 1
        have : ((str.take i).drop s ++ [str[i]]).length = i + 1 - s := by simp; omega
        rw [this]
        have : s + (i + 1 - s) = i + 1 := by omega
        exact_mod_cast this.symm
    · have hjs : j = s := by omega
      subst hjs
      have hcond : (decide (((j : Nat) : Int) > (j : Int)) && (str.getD (((j : Int) - 1) : Int).toNat 0 == (32 : UInt8))) = false := by simp
      have hnil : (str.take j).drop j = [] := List.drop_eq_nil_of_le (by rw [List.length_take]; exact Nat.min_le_left _ _)
      simp only [buildCanonicalHeaderValueIR_loop3, hcond, Bool.not_false, if_true, hnil]
      simp [trimRight, trimLeft]

/-- `l[a:b]` for natural indices -/
def slc (l : Bytes) (a b : Nat) : Bytes := (l.take b).drop a

theorem sliceL_cast (l : Bytes) (a b : Nat) : sliceL l (a : Int) (b : Int) = slc l a b := by
  simp [sliceL, slc]

theorem slc_cons (l : Bytes) (m e : Nat) (hm : m < e) (he : e ≤ l.length) : slc l m e = l[m] :: slc l (m + 1) e := by
  unfold slc
  have : m < (l.take e).length := by rw [List.length_take]; omega
  rw [List.drop_eq_getElem_cons this]
  simp

theorem slc_snoc (l : Bytes) (s m : Nat) (hs : s ≤ m) (hm : m < l.length) : slc l s (m + 1) = slc l s m ++ [l[m]] :=
  take_succ_drop l s m hs hm

theorem slc_self (l : Bytes) (m : Nat) : slc l m m = [] := by
  unfold slc
  exact List.drop_eq_nil_of_le (by rw [List.length_take]; exact Nat.min_le_left _ _)

theorem slc_one (l : Bytes) (m : Nat) (hm : m < l.length) : slc l m (m + 1) = [l[m]] := by
  rw [slc_snoc l m m (Nat.le_refl _) hm, slc_self]; rfl

theorem slc_length (l : Bytes) (s m : Nat) (hm : m ≤ l.length) : (slc l s m).length = m - s := by
  simp [slc, List.length_take, Nat.min_eq_left hm]

theorem slc_take (l : Bytes) (s m k : Nat) (hk : s + k ≤ m) : (slc l s m).take k = slc l s (s + k) := by
  unfold slc
  rw [List.take_drop, List.take_take]
  congr 2
  omega

theorem buildCanonicalHeaderValue_regenerated_from_source_loop4 (strs : List Bytes) (str : Bytes) (e : Nat) (he : e ≤ str.length) :
    ∀ (fuel m s sp : Nat) (buf : Bytes), s ≤ m → m ≤ e → sp ≤ m - s → e - m + 1 ≤ fuel →
      ∃ b s' m' sp', buildCanonicalHeaderValueIR_loop4 strs buf (s : Int) (e : Int) (m : Int) (sp : Int) str fuel = .inr (b, s', m', sp') ∧
        b ++ sliceL str s' (e : Int) = buf ++ goC (slc str s m) sp (slc str m e) := by
  intro fuel
  induction fuel with
  | zero => intro m s sp buf _ _ _ h; omega
  | succ n ih =>
    intro m s sp buf hsm hme hsp hf
    by_cases hlt : m < e
    · have hml : m < str.length := by omega
      have hc1 : ((m : Int) + 1) = ((m + 1 : Nat) : Int) := by omega
      have hcond : decide ((m : Int) < (e : Int)) = true := by simp; omega
      have hcons := slc_cons str m e hlt he
      by_cases h32 : str[m] = 32
      · have hb : (str.getD ((m : Int)).toNat 0 == (32 : UInt8)) = true := by rw [getD_cast str m hml]; simp [h32]
        have hc2 : ((sp : Int) + 1) = ((sp + 1 : Nat) : Int) := by omega
        obtain ⟨b, s', m', sp', hr, hbuf⟩ := ih (m + 1) s (sp + 1) buf (by omega) (by omega) (by omega) (by omega)
        refine ⟨b, s', m', sp', ?_, ?_⟩
        · simp only [buildCanonicalHeaderValueIR_loop4, hcond, Bool.not_true, Bool.false_eq_true, if_false, hb, if_true, hc1, hc2]
          exact hr
        · rw [hbuf, hcons, slc_snoc str s m hsm hml, h32]
          simp [goC]
      · have hb : (str.getD ((m : Int)).toNat 0 == (32 : UInt8)) = false := by rw [getD_cast str m hml]; simp [h32]
        have hz : (0 : Int) = ((0 : Nat) : Int) := rfl
        by_cases hsp1 : sp > 1
        · have hd : decide ((sp : Int) > 1) = true := by simp; omega
          have hidx : (((m : Int) - (sp : Int)) + 1) = ((m - sp + 1 : Nat) : Int) := by omega
          obtain ⟨b, s', m', sp', hr, hbuf⟩ := ih (m + 1) m 0 (buf ++ slc str s (m - sp + 1)) (by omega) (by omega) (by omega) (by omega)
          refine ⟨b, s', m', sp', ?_, ?_⟩
          · simp only [buildCanonicalHeaderValueIR_loop4, hcond, Bool.not_true, Bool.false_eq_true, if_false, hb, hd, if_true, hc1,
              hidx, sliceL_cast]
            rw [hz]
            exact hr
          · rw [hbuf, hcons, slc_one str m hml]
            have hlen := slc_length str s m (by omega)
            have htk : (slc str s m).take ((slc str s m).length - sp + 1) = slc str s (m - sp + 1) := by
              rw [hlen, slc_take str s m (m - s - sp + 1) (by omega)]
              congr 1
              omega
            simp only [goC, h32, if_false, hsp1, if_true, htk, List.append_assoc]
        · have hd : decide ((sp : Int) > 1) = false := by simp; omega
          obtain ⟨b, s', m', sp', hr, hbuf⟩ := ih (m + 1) s 0 buf (by omega) (by omega) (by omega) (by omega)
          refine ⟨b, s', m', sp', ?_, ?_⟩
          · simp only [buildCanonicalHeaderValueIR_loop4, hcond, Bool.not_true, Bool.false_eq_true, if_false, hb, hd, hc1]
            rw [hz]
            exact hr
          · rw [hbuf, hcons, slc_snoc str s m hsm hml]
            simp only [goC, h32, if_false, hsp1]
    · have hme' : m = e := by omega
      subst hme'
      have hcond : decide ((m : Int) < (m : Int)) = false := by simp
      refine ⟨buf, (s : Int), (m : Int), (sp : Int), ?_, ?_⟩
      · simp only [buildCanonicalHeaderValueIR_loop4, hcond, Bool.not_false, if_true]
      · rw [sliceL_cast, slc_self]
        simp [goC]

theorem trimRight_facts : ∀ y : Bytes, (trimRight isSp y.reverse = y.reverse.take (trimRight isSp y.reverse).length) ∧
    (trimRight isSp y.reverse).length ≤ y.reverse.length ∧ (trimRight isSp y.reverse).getLast? ≠ some 32
  | [] => by simp [trimRight, trimLeft]
  | a :: y => by
    obtain ⟨h1, h2, h3⟩ := trimRight_facts y
    rw [List.reverse_cons]
    by_cases ha : a = 32
    · subst ha
      rw [trimRight_snoc_space]
      refine ⟨?_, ?_, h3⟩
      · rw [List.take_append_of_le_length h2]; exact h1
      · simp only [List.length_append, List.length_singleton]; omega
    · rw [trimRight_snoc_ne _ _ ha]
      refine ⟨(List.take_of_length_le (Nat.le_refl _)).symm, Nat.le_refl _, ?_⟩
      simp [ha]

theorem trimRight_prefix (x : Bytes) : trimRight isSp x = x.take (trimRight isSp x).length := by
  have := (trimRight_facts x.reverse).1; simpa using this
theorem trimRight_length_le (x : Bytes) : (trimRight isSp x).length ≤ x.length := by
  have := (trimRight_facts x.reverse).2.1; simpa using this
theorem trimRight_last (x : Bytes) : (trimRight isSp x).getLast? ≠ some 32 := by
  have := (trimRight_facts x.reverse).2.2; simpa using this

/-- the canonical form of one header value -/
def cv (str : Bytes) : Bytes := collapse (trimRight isSp (trimLeft isSp str))

theorem lead_le (l : Bytes) : lead l ≤ l.length := by
  induction l with
  | nil => simp [lead]
  | cons x r ih => simp only [lead]; split <;> simp <;> omega

theorem buildCanonicalHeaderValue_regenerated_from_source_step (strs0 : List Bytes) (buf : Bytes) (i : Int) (str : Bytes) (rest : List Bytes) :
    buildCanonicalHeaderValueIR_loop1 strs0 buf i (str :: rest) =
      buildCanonicalHeaderValueIR_loop1 strs0 ((if i > 0 then buf ++ [44] else buf) ++ cv str) (i + 1) rest := by
  have hs0 := lead_le str
  let t := trimRight isSp (str.drop (lead str))
  have ht : t = trimRight isSp (trimLeft isSp str) := by simp only [t, trimLeft_eq_drop_lead]
  have htl : t.length ≤ str.length - lead str := by
    have := trimRight_length_le (str.drop (lead str)); simpa using this
  have h2 := buildCanonicalHeaderValue_regenerated_from_source_loop2 strs0 (if i > 0 then buf ++ [44] else buf) 0 str (str.length + 1) 0 (Nat.zero_le _) (by omega)
  simp only [List.drop_zero, Nat.zero_add] at h2
  have h2' : buildCanonicalHeaderValueIR_loop2 strs0 (if i > 0 then buf ++ [44] else buf) (0 : Int) 0 str (str.length + 1)
      = .inr ((lead str : Nat) : Int) := h2
  have h3 := buildCanonicalHeaderValue_regenerated_from_source_loop3 strs0 (if i > 0 then buf ++ [44] else buf) str (lead str) (str.length + 1) str.length hs0 (Nat.le_refl _) (by omega)
  simp only [List.take_length] at h3
  have he : lead str + t.length ≤ str.length := by omega
  obtain ⟨b, s', m', sp', h4, hb⟩ := buildCanonicalHeaderValue_regenerated_from_source_loop4 strs0 str (lead str + t.length) he (str.length + 1) (lead str) (lead str) 0
    (if i > 0 then buf ++ [44] else buf) (Nat.le_refl _) (by omega) (by omega) (by omega)
  have hslc : slc str (lead str) (lead str + t.length) = t := by
    unfold slc
    rw [List.drop_take]
    have : lead str + t.length - lead str = t.length := by omega
    rw [this]
    exact (trimRight_prefix _).symm
  rw [slc_self, hslc] at hb
  have hg := goC_eq t [] 0 (fun _ => rfl) (trimRight_last _)
  simp only [List.replicate_zero, List.append_nil, List.nil_append] at hg
  rw [hg] at hb
  simp only [buildCanonicalHeaderValueIR_loop1]
  have hbuf : (if decide (i > 0) = true then buf ++ [(44 : UInt8)] else buf) = (if i > 0 then buf ++ [44] else buf) := by
    by_cases h : i > 0 <;> simp [h]
  rw [hbuf, h2']
  simp only
  have ho : Int.ofNat str.length = ((str.length : Nat) : Int) := rfl
  rw [ho, h3]
  simp only
  have h4' : buildCanonicalHeaderValueIR_loop4 strs0 (if i > 0 then buf ++ [44] else buf) ((lead str : Nat) : Int)
      ((lead str + t.length : Nat) : Int) ((lead str : Nat) : Int) (0 : Int) str (str.length + 1) = .inr (b, s', m', sp') := h4
  rw [h4']
  simp only
  have hfin : (if decide (s' < ((lead str + t.length : Nat) : Int)) = true then b ++ sliceL str s' ((lead str + t.length : Nat) : Int) else b)
      = b ++ sliceL str s' ((lead str + t.length : Nat) : Int) := by
    by_cases h : s' < ((lead str + t.length : Nat) : Int)
    · rw [if_pos (decide_eq_true h)]
    · have hnil : sliceL str s' ((lead str + t.length : Nat) : Int) = [] := by
        unfold sliceL
        apply List.drop_eq_nil_of_le
        rw [List.length_take]
        have : (((lead str + t.length : Nat) : Int)).toNat ≤ s'.toNat := by omega
        omega
      rw [if_neg (fun hd => h (of_decide_eq_true hd)), hnil, List.append_nil]
  rw [hfin, hb, cv, ← ht]

theorem buildCanonicalHeaderValue_regenerated_from_source_loop1 (strs0 : List Bytes) : ∀ (strs : List Bytes) (buf : Bytes) (i : Int), 0 < i →
    buildCanonicalHeaderValueIR_loop1 strs0 buf i strs = .inr (buf ++ (strs.map fun s => (44 : UInt8) :: cv s).flatten) := by
  intro strs
  induction strs with
  | nil => intro buf i _; simp [buildCanonicalHeaderValueIR_loop1]
  | cons str rest ih =>
    intro buf i hi
    rw [buildCanonicalHeaderValue_regenerated_from_source_step, ih _ (i + 1) (by omega)]
    simp [hi]

/-- `buildCanonicalHeaderValue` = `canonValue` (per value: trim spaces, collapse runs of spaces; joined by `,`); in particular
the fuel `len(str) + 1` of the three inner loops always suffices (`some`) -/
theorem buildCanonicalHeaderValue_regenerated_from_source (strs : List Bytes) :
    buildCanonicalHeaderValueIR strs = some (canonValue strs) := by
  unfold buildCanonicalHeaderValueIR canonValue
  cases strs with
  | nil => simp [buildCanonicalHeaderValueIR_loop1, joinB]
  | cons a r =>
    simp only
    rw [buildCanonicalHeaderValue_regenerated_from_source_step, buildCanonicalHeaderValue_regenerated_from_source_loop1 _ r _ ((0 : Int) + 1) (by omega)]
    simp only [List.map_cons, joinB_cons_flatten, List.map_map, Function.comp_def]
    simp [cv]

end EgVerif.Signer
