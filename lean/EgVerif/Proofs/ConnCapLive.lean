import EgVerif.Proofs.ConnCap
/-!
# C17: a parked shrink is applied as soon as enough connections have closed

Extra invariant (`AdjPos`): shrink adjustments parked in the weighted semaphore's queue have a positive
weight. With it, the grant of a parked shrink at the head of the queue by a `Close` lowers the carved-out
capacity by (at least) its weight.
-/
namespace EgVerif.ConnCap

def AdjPos (c : Cap) : Prop := ∀ w ∈ c.waiters, w.kind = WKind.adj → 0 < w.n

theorem grant_waiters (c : Cap) (w : Waiter) : (grant c w).waiters = c.waiters := by
  unfold grant; split <;> rfl

theorem notify_waiters_sub (ws : List Waiter) (c : Cap) : ∀ w ∈ (notify c ws).waiters, w ∈ ws := by
  induction ws generalizing c with
  | nil => intro w hw; simp [notify] at hw
  | cons v r ih =>
    intro w hw
    unfold notify at hw
    split at hw
    · exact hw
    · exact List.mem_cons_of_mem _ (ih _ w hw)

theorem semAcquire_waiters_sub (c : Cap) (v : Waiter) : ∀ w ∈ (semAcquire c v).waiters, w ∈ c.waiters ∨ w = v := by
  intro w hw
  unfold semAcquire at hw
  split at hw
  · rw [grant_waiters] at hw; exact Or.inl hw
  · rcases List.mem_append.mp hw with h | h
    · exact Or.inl h
    · simp at h; exact Or.inr h

theorem adjPos_new (n : Int) : AdjPos (newCap n) := by
  intro w hw; simp [newCap] at hw

theorem adjPos_step {c c' : Cap} {a : Act} (h : AdjPos c) (hs : step c a = some c') : AdjPos c' := by
  cases a <;> simp only [step] at hs
  case acquire id =>
    split at hs <;> cases hs
    intro w hw hk
    rcases semAcquire_waiters_sub _ _ w hw with h1 | h1
    · exact h w h1 hk
    · subst h1; cases hk
  case acceptDone id => split at hs <;> cases hs; exact h
  case acceptFail id =>
    split at hs
    · split at hs <;> cases hs
      intro w hw hk
      exact h w (notify_waiters_sub _ _ w hw) hk
    · cases hs
  case connClose id =>
    split at hs
    · split at hs <;> cases hs
      intro w hw hk
      exact h w (notify_waiters_sub _ _ w hw) hk
    · split at hs <;> cases hs; exact h
  case peerHalfClose id => split at hs <;> cases hs; exact h
  case setMax n => split at hs <;> cases hs; exact h
  case adjust id =>
    cases ht : takeAdj id c.pending with
    | none => simp [ht] at hs
    | some q =>
      obtain ⟨d, rest⟩ := q
      simp only [ht] at hs
      split at hs
      · split at hs <;> cases hs
        intro w hw hk
        exact h w (notify_waiters_sub _ _ w hw) hk
      · split at hs
        · cases hs
          rename_i hneg
          intro w hw hk
          rcases semAcquire_waiters_sub _ _ w hw with h1 | h1
          · exact h w h1 hk
          · subst h1; simp only; omega
        · cases hs; exact h

/-- `notify` only grants: with non-negative shrink weights the parked shrink total does not grow, and
what it loses is exactly what `effCap` loses. -/
theorem notify_effCap (ws : List Waiter) (c : Cap) :
    (notify c ws).effCap - adjSum (notify c ws).waiters = c.effCap - adjSum ws := by
  induction ws generalizing c with
  | nil => simp [notify, adjSum]
  | cons v r ih =>
    unfold notify
    split
    · rfl
    · rw [ih]
      unfold grant
      cases hk : v.kind <;> simp [adjSum, hk] <;> omega

theorem notify_adjSum_le (ws : List Waiter) (c : Cap) (hpos : ∀ w ∈ ws, w.kind = WKind.adj → 0 < w.n) :
    adjSum (notify c ws).waiters ≤ adjSum ws := by
  induction ws generalizing c with
  | nil => simp [notify, adjSum]
  | cons v r ih =>
    unfold notify
    split
    · exact Int.le_refl _
    · have := ih (grant c v) (fun w hw => hpos w (List.mem_cons_of_mem _ hw))
      have hv := hpos v (List.mem_cons_self ..)
      simp only [adjSum]
      split
      · rename_i hk; have := hv hk; omega
      · omega

/-- A `Close` that frees enough room for the shrink parked at the head of the queue applies it: the
carved-out capacity drops by at least its weight `k` (further parked shrinks behind it may be applied by the
same `Close`). -/
theorem close_applies_parked_shrink {c c' : Cap} {id i : Nat} {k : Int} {rest : List Waiter}
    (hinv : CapInv c) (hpos : AdjPos c) (hw : c.waiters = ⟨i, k, WKind.adj⟩ :: rest)
    (ho : id ∈ c.opened) (hfit : k ≤ M - c.cur + 1) (hs : step c (Act.connClose id) = some c') :
    c'.effCap ≤ c.effCap - k := by
  simp only [step, if_pos ho] at hs
  split at hs <;> cases hs
  have hsz := hinv.size
  simp only [semRelease, hw]
  unfold notify
  rw [if_neg (by simp only; omega)]
  have h1 := notify_effCap rest (grant { c with cur := c.cur - 1, opened := c.opened.erase id, closed := id :: c.closed } ⟨i, k, WKind.adj⟩)
  have h2 := notify_adjSum_le rest (grant { c with cur := c.cur - 1, opened := c.opened.erase id, closed := id :: c.closed } ⟨i, k, WKind.adj⟩)
    (fun w hw' => hpos w (by rw [hw]; exact List.mem_cons_of_mem _ hw'))
  simp only [grant, hw] at h1 h2 ⊢
  omega

/-! ## The head of the queue never fits (`HeadBlocked`), hence a parked shrink means "over the cap" -/

/-- x/sync's queue discipline: whoever is first in the queue does not fit (otherwise `notifyWaiters` /
the fast path would have granted it) -/
def HeadBlocked (c : Cap) : Prop := ∀ w rest, c.waiters = w :: rest → c.size - c.cur < w.n

theorem notify_headBlocked (ws : List Waiter) (c : Cap) : HeadBlocked (notify c ws) := by
  induction ws generalizing c with
  | nil => intro w rest h; simp [notify] at h
  | cons v r ih =>
    unfold notify
    split
    · rename_i hno
      intro w rest h
      simp only [List.cons.injEq] at h
      obtain ⟨h1, _⟩ := h
      subst h1; exact hno
    · exact ih _

theorem semAcquire_headBlocked {c : Cap} (h : HeadBlocked c) (v : Waiter) : HeadBlocked (semAcquire c v) := by
  unfold semAcquire
  split
  · rename_i hfit
    intro w rest hw
    rw [grant_waiters, hfit.2] at hw
    cases hw
  · rename_i hno
    intro w rest hw
    cases hc : c.waiters with
    | nil =>
      simp only [hc, List.nil_append, List.cons.injEq] at hw
      obtain ⟨h1, _⟩ := hw
      subst h1
      have : ¬ (c.size - c.cur ≥ v.n) := fun hh => hno ⟨hh, hc⟩
      simp only; omega
    | cons u r =>
      simp only [hc, List.cons_append, List.cons.injEq] at hw
      obtain ⟨h1, _⟩ := hw
      subst h1
      exact h u r hc

theorem headBlocked_new (n : Int) : HeadBlocked (newCap n) := by
  intro w rest h; simp [newCap] at h

theorem headBlocked_step {c c' : Cap} {a : Act} (h : HeadBlocked c) (hs : step c a = some c') : HeadBlocked c' := by
  cases a <;> simp only [step] at hs
  case acquire id => split at hs <;> cases hs; exact semAcquire_headBlocked h _
  case acceptDone id => split at hs <;> cases hs; exact h
  case acceptFail id =>
    split at hs
    · split at hs <;> cases hs; exact notify_headBlocked _ _
    · cases hs
  case connClose id =>
    split at hs
    · split at hs <;> cases hs; exact notify_headBlocked _ _
    · split at hs <;> cases hs; exact h
  case peerHalfClose id => split at hs <;> cases hs; exact h
  case setMax n => split at hs <;> cases hs; exact h
  case adjust id =>
    cases ht : takeAdj id c.pending with
    | none => simp [ht] at hs
    | some q =>
      obtain ⟨d, rest⟩ := q
      simp only [ht] at hs
      split at hs
      · split at hs <;> cases hs; exact notify_headBlocked _ _
      · split at hs
        · cases hs; exact semAcquire_headBlocked (c := { c with pending := rest }) h _
        · cases hs; exact h

theorem adjSum_nonneg (ws : List Waiter) (hpos : ∀ w ∈ ws, w.kind = WKind.adj → 0 < w.n) : 0 ≤ adjSum ws := by
  induction ws with
  | nil => simp [adjSum]
  | cons v r ih =>
    have := ih (fun w hw => hpos w (List.mem_cons_of_mem _ hw))
    have hv := hpos v (List.mem_cons_self ..)
    simp only [adjSum]
    split
    · rename_i hk; have := hv hk; omega
    · omega

theorem adjSum_pos_of_mem (ws : List Waiter) (hpos : ∀ w ∈ ws, w.kind = WKind.adj → 0 < w.n)
    (hex : ∃ w ∈ ws, w.kind = WKind.adj) : 1 ≤ adjSum ws := by
  induction ws with
  | nil => obtain ⟨w, hw, _⟩ := hex; cases hw
  | cons v r ih =>
    have hr := adjSum_nonneg r (fun w hw => hpos w (List.mem_cons_of_mem _ hw))
    simp only [adjSum]
    by_cases hk : v.kind = WKind.adj
    · have := hpos v (List.mem_cons_self ..) hk
      simp only [hk, if_true]; omega
    · simp only [hk, if_false]
      obtain ⟨w, hw, hwk⟩ := hex
      rcases List.mem_cons.mp hw with e | e
      · subst e; exact absurd hwk hk
      · have := ih (fun w hw => hpos w (List.mem_cons_of_mem _ hw)) ⟨w, e, hwk⟩
        omega

/-- With every spawned adjustment executed (`pending = []`), a shrink that is still parked means that more
units are in use than the configured cap: as soon as the connections fit into the cap, no shrink is parked. -/
theorem parked_means_over_cap {c : Cap} (hinv : CapInv c) (hpos : AdjPos c) (hhead : HeadBlocked c)
    (hp : c.pending = []) (hex : ∃ w ∈ c.waiters, w.kind = WKind.adj) :
    c.realCap < ((c.inAccept.length + c.opened.length : Nat) : Int) := by
  have hsz := hinv.size; have hcnt := hinv.count; have hbook := hinv.book
  rw [hp] at hbook
  simp only [pendSum] at hbook
  have hsum := adjSum_pos_of_mem c.waiters hpos hex
  cases hc : c.waiters with
  | nil => obtain ⟨w, hw, _⟩ := hex; rw [hc] at hw; cases hw
  | cons w0 rest =>
    have hb := hhead w0 rest hc
    by_cases hk : w0.kind = WKind.adj
    · have hr := adjSum_nonneg rest (fun w hw => hpos w (by rw [hc]; exact List.mem_cons_of_mem _ hw))
      have : adjSum c.waiters = w0.n + adjSum rest := by rw [hc]; simp [adjSum, hk]
      omega
    · have hu : w0.kind = WKind.unit := by cases hkk : w0.kind <;> simp_all
      have h1 := hinv.unit1 w0 (by rw [hc]; exact List.mem_cons_self ..) hu
      omega

/-! ## `quiet` persists until the next `SetMaxCount`; the executable snapshot spec accepts the model -/

theorem semAcquire_pending (c : Cap) (v : Waiter) : (semAcquire c v).pending = c.pending := by
  unfold semAcquire; split
  · unfold grant; split <;> rfl
  · rfl

theorem notify_pending (ws : List Waiter) (c : Cap) : (notify c ws).pending = c.pending := by
  induction ws generalizing c with
  | nil => rfl
  | cons v r ih => unfold notify; split; · rfl
                   · rw [ih]; unfold grant; split <;> rfl

theorem notify_realCap (ws : List Waiter) (c : Cap) : (notify c ws).realCap = c.realCap := by
  induction ws generalizing c with
  | nil => rfl
  | cons v r ih => unfold notify; split; · rfl
                   · rw [ih]; unfold grant; split <;> rfl

theorem semAcquire_realCap (c : Cap) (v : Waiter) : (semAcquire c v).realCap = c.realCap := by
  unfold semAcquire; split
  · unfold grant; split <;> rfl
  · rfl

theorem quiet_iff (c : Cap) : quiet c = true ↔ c.pending = [] ∧ ∀ w ∈ c.waiters, w.kind ≠ WKind.adj := by
  simp [quiet, List.isEmpty_iff, List.all_eq_true]

/-- **quiet_stable**: a step that is not a `SetMaxCount` keeps a quiet state quiet and the cap unchanged. -/
theorem quiet_stable {c c' : Cap} {a : Act} (hq : quiet c = true) (hs : step c a = some c')
    (hn : ∀ n, a ≠ Act.setMax n) : quiet c' = true ∧ c'.realCap = c.realCap := by
  obtain ⟨hp, hw⟩ := (quiet_iff c).mp hq
  cases a <;> simp only [step] at hs
  case acquire id =>
    split at hs <;> cases hs
    refine ⟨(quiet_iff _).mpr ⟨by rw [semAcquire_pending]; exact hp, ?_⟩, semAcquire_realCap _ _⟩
    intro w hw'
    rcases semAcquire_waiters_sub _ _ w hw' with h1 | h1
    · exact hw w h1
    · subst h1; simp
  case acceptDone id => split at hs <;> cases hs; exact ⟨(quiet_iff _).mpr ⟨hp, hw⟩, rfl⟩
  case acceptFail id =>
    split at hs
    · split at hs <;> cases hs
      refine ⟨(quiet_iff _).mpr ⟨by simp only [semRelease, notify_pending]; exact hp, ?_⟩, by simp only [semRelease, notify_realCap]⟩
      intro w hw'; exact hw w (notify_waiters_sub _ _ w hw')
    · cases hs
  case connClose id =>
    split at hs
    · split at hs <;> cases hs
      refine ⟨(quiet_iff _).mpr ⟨by simp only [semRelease, notify_pending]; exact hp, ?_⟩, by simp only [semRelease, notify_realCap]⟩
      intro w hw'; exact hw w (notify_waiters_sub _ _ w hw')
    · split at hs <;> cases hs; exact ⟨hq, rfl⟩
  case peerHalfClose id => split at hs <;> cases hs; exact ⟨hq, rfl⟩
  case setMax n => exact absurd rfl (hn n)
  case adjust id => rw [hp] at hs; simp [takeAdj] at hs

theorem filter_adj_length_zero (ws : List Waiter) :
    (ws.filter (·.kind == WKind.adj)).length = 0 ↔ ∀ w ∈ ws, w.kind ≠ WKind.adj := by
  simp [List.filter_eq_nil_iff]

theorem adjSum_zero_of_no_adj (ws : List Waiter) (h : ∀ w ∈ ws, w.kind ≠ WKind.adj) : adjSum ws = 0 := by
  induction ws with
  | nil => rfl
  | cons v r ih =>
    simp only [adjSum, if_neg (h v (List.mem_cons_self ..)), ih (fun w hw => h w (List.mem_cons_of_mem _ hw))]; rfl

/-- The executable snapshot specification accepts every settled model state that satisfies the invariants
(all reachable ones: `Props/C17.lean: spec_accepts_model`). -/
theorem obsViolation_none_of_inv {c : Cap} (hinv : CapInv c) (hpos : AdjPos c) (hhead : HeadBlocked c)
    (hp : c.pending = []) : obsViolation (obsOf c) = none := by
  have hsz := hinv.size; have hcnt := hinv.count; have hle := hinv.le; have hbook := hinv.book
  rw [hp] at hbook; simp only [pendSum] at hbook
  have hheld : held c = ((c.inAccept.length + c.opened.length : Nat) : Int) := by simp [held]
  have hcur : ¬ c.cur > M := by omega
  by_cases hz : (c.waiters.filter (·.kind == WKind.adj)).length = 0
  · -- nothing parked: quiet
    have hno := (filter_adj_length_zero _).mp hz
    have hs0 := adjSum_zero_of_no_adj _ hno
    have e1 : ¬ held c > c.realCap := by rw [hheld]; omega
    have e2 : c.cur = M - c.realCap + held c := by rw [hheld]; omega
    have e4 : c.waiters.any (·.kind == WKind.unit) = true → ¬ held c < c.realCap := by
      intro hany hlt
      cases hc : c.waiters with
      | nil => rw [hc] at hany; simp at hany
      | cons w0 rest =>
        have hb := hhead w0 rest hc
        have hu : w0.kind = WKind.unit := by
          have := hno w0 (by rw [hc]; exact List.mem_cons_self ..)
          cases hk : w0.kind <;> simp_all
        have h1 := hinv.unit1 w0 (by rw [hc]; exact List.mem_cons_self ..) hu
        rw [hheld] at hlt; omega
    simp only [obsViolation, obsOf, hz, hcur, e1, ← e2]
    by_cases hany : c.waiters.any (·.kind == WKind.unit) = true
    · have := e4 hany
      simp [hany, this]
    · simp [hany]
  · -- a shrink is parked: more units in use than the cap
    have hex : ∃ w ∈ c.waiters, w.kind = WKind.adj :=
      Classical.byContradiction fun hcon =>
        hz ((filter_adj_length_zero _).mpr (fun w hw hk => hcon ⟨w, hw, hk⟩))
    have hover := parked_means_over_cap hinv hpos hhead hp hex
    have e5 : ¬ held c ≤ c.realCap := by rw [hheld]; omega
    have hz' : ((c.waiters.filter (·.kind == WKind.adj)).length == 0) = false := by simpa using hz
    simp [obsViolation, obsOf, hz', hcur, e5]

/-! ## The model's guards are enabled while the capacity budget fits into the semaphore -/

/-- total of the shrink amounts among the spawned, not yet executed adjustments -/
def pendingShrink : List (Nat × Int) → Int
  | [] => 0
  | p :: r => (if p.2 < 0 then -p.2 else 0) + pendingShrink r

/-- total of the grow amounts among the spawned, not yet executed adjustments -/
def pendingGrow : List (Nat × Int) → Int
  | [] => 0
  | p :: r => (if 0 < p.2 then p.2 else 0) + pendingGrow r

theorem pendSum_split (l : List (Nat × Int)) : pendSum l = pendingGrow l - pendingShrink l := by
  induction l with
  | nil => simp [pendSum, pendingGrow, pendingShrink]
  | cons p r ih => simp only [pendSum, pendingGrow, pendingShrink, ih]; split <;> split <;> omega

theorem pendingGrow_nonneg (l : List (Nat × Int)) : 0 ≤ pendingGrow l := by
  induction l with
  | nil => simp [pendingGrow]
  | cons p r ih => simp only [pendingGrow]; split <;> omega

theorem takeAdj_le_grow {id : Nat} {l l' : List (Nat × Int)} {d : Int} (h : takeAdj id l = some (d, l'))
    (hd : 0 < d) : d ≤ pendingGrow l := by
  induction l generalizing l' d with
  | nil => simp [takeAdj] at h
  | cons p r ih =>
    have hr := pendingGrow_nonneg r
    simp only [takeAdj] at h
    split at h
    · cases h; simp only [pendingGrow, hd, if_true]; omega
    · cases hq : takeAdj id r with
      | none => simp [hq] at h
      | some q =>
        obtain ⟨d', r'⟩ := q
        simp [hq] at h
        obtain ⟨h1, _⟩ := h
        subst h1
        have := ih hq hd
        simp only [pendingGrow]; split <;> omega

/-- what the configured capacity plus all outstanding shrinks (spawned or parked) amounts to: the largest
capacity the semaphore may still be asked to carve out -/
def budget (c : Cap) : Int := c.realCap + pendingShrink c.pending + adjSum c.waiters

/-- Go's `Weighted.Release` panics ("released more than held") exactly where the model's guards `d ≤ cur`,
`1 ≤ cur` fail. While `budget ≤ maxCapacity` they hold: every spawned grow and every Close / failed accept
is enabled. -/
theorem guards_enabled_of_budget {c : Cap} (hinv : CapInv c) (hb : budget c ≤ M) :
    (∀ id d rest, takeAdj id c.pending = some (d, rest) → 0 < d → d ≤ c.cur) ∧
    (∀ id, id ∈ c.opened → 1 ≤ c.cur) ∧ (∀ id, id ∈ c.inAccept → 1 ≤ c.cur) := by
  have hcnt := hinv.count; have hbook := hinv.book
  have hsplit := pendSum_split c.pending
  have hg := pendingGrow_nonneg c.pending
  unfold budget at hb
  refine ⟨?_, ?_, ?_⟩
  · intro id d rest ht hd
    have := takeAdj_le_grow ht hd
    omega
  · intro id hm
    have : 0 < c.opened.length := List.length_pos_of_mem hm
    omega
  · intro id hm
    have : 0 < c.inAccept.length := List.length_pos_of_mem hm
    omega

end EgVerif.ConnCap
